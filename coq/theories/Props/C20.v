(** C20 — Readiness wakes exactly the waiting coroutine, promptly. Statements only.
    Histories: waits and timed-out waits for readability ([false]) or writability ([true]), read and
    write readiness, deletion of both interests or of one, hooked close, reuse of the number. *)
From OCV Require Import Base.Prelude Net.Selector Net.Token Net.TokenOracle Net.TokenProofs.
Open Scope Z_scope.

(** the token handed to the OS comes back unchanged, for every 64-bit coroutine id *)
Theorem C20_roundtrip : forall t, 0 <= t < 2 ^ 64 -> decode (encode t) = t.
Proof. exact roundtrip. Qed.

(** every history (any length, any 64-bit ids, any descriptors, any order of waits for either
    direction, time-outs, readiness of either direction, deletions, closes and reuses of descriptor
    numbers) outside the two recorded findings ([no_defect]: a coroutine and a descriptor stay paired
    until the descriptor's registration is deleted, readiness of one direction does not arrive while
    a coroutine waits for the other, one direction is deleted alone only if it is the only one):
    each readiness event resumes, on the event, exactly the coroutines waiting for that direction of
    that descriptor, and a direction the OS delivers nothing for has no waiter *)
Theorem C20_holds_outside : forall nfd ops,
  wf_C20 nfd ops = true -> no_defect ops = true -> ok_C20 ops (run_C20 nfd ops) = true.
Proof. exact holds_outside. Qed.

(** ... and on those histories the model raises neither finding's ghost tag: the tags mark the
    misbehaving branches only *)
Theorem C20_no_tag_outside : forall nfd ops,
  wf_C20 nfd ops = true -> no_defect ops = true -> fst (tags_C20 nfd ops) = [].
Proof. exact no_tag_outside. Qed.

(** after ANY history (ill-formed ones and the recorded findings included): the descriptor number
    is closed through the runtime and handed out again; a coroutine (an identity not used before)
    that waits for either direction of the new socket gets exactly its interest and its own token
    registered with the OS, and the readiness event resumes it and nobody else *)
Theorem C20_reuse_wakes : forall nfd ops fd d c,
  0 <= c < 2 ^ 64 -> fresh c ops = true ->
  exists b, run_C20 nfd (ops ++ [Close fd; Reopen fd; Wait d c fd; Ready d fd])
            = run_C20 nfd ops ++ [OClose b; OReopen; OReg true (Some (negb d, d, c)); OEvent c true [c]].
Proof. exact reuse_wakes. Qed.

(** known finding: a registration (and its token) outlives the wait that made it *)
Theorem C20_refuted_registration_outlives_wait :
  exists nfd ops, wf_C20 nfd ops = true /\ ok_C20 ops (run_C20 nfd ops) = false.
Proof. exact refuted_missed. Qed.

Theorem C20_refuted_registration_outlives_wait_cross :
  exists nfd ops, wf_C20 nfd ops = true /\ ok_C20 ops (run_C20 nfd ops) = false
  /\ run_C20 nfd ops = [ORegT true (Some (true, false, 6297203254532200539)) true;
                        OReg true (Some (true, false, 6297203254532200539));
                        OEvent 6297203254532200539 true [6297203254532200539]].
Proof. exact refuted_cross. Qed.

(** known finding: the OS holds one token per descriptor; two coroutines waiting for the two
    directions of one descriptor: write readiness resumes the reader, not the writer *)
Theorem C20_refuted_one_token_per_descriptor :
  exists nfd ops, wf_C20 nfd ops = true /\ ok_C20 ops (run_C20 nfd ops) = false
  /\ run_C20 nfd ops = [OReg true (Some (false, true, 13712591878437130464));
                        OReg true (Some (true, true, 440535360));
                        OEvent 440535360 true [440535360]]
  /\ fst (tags_C20 nfd ops) = [TagOneToken].
Proof. exact refuted_one_token. Qed.

(** what the oracle's readiness clause says: a coroutine waiting for that direction of the
    descriptor is resumed by the event ... *)
Theorem C20_wake_hits : forall t d fd tok hit woken t' c,
  ok_step t (Ready d fd) (OEvent tok hit woken) = (true, t') -> In (c, (fd, d)) t -> In c woken.
Proof. exact wake_hits. Qed.

(** ... and nobody else is: nobody waiting for another descriptor, nobody waiting for the other
    direction of this one *)
Theorem C20_no_cross_wake : forall t d fd tok hit woken t' c,
  ok_step t (Ready d fd) (OEvent tok hit woken) = (true, t') -> In c woken ->
  exists f w, In (c, (f, w)) t /\ f = fd /\ w = d.
Proof. exact no_cross_wake. Qed.

(** when the OS delivers nothing for a direction of a descriptor, the oracle accepts only if nobody
    waits for it (such a waiter would be resumed by its wait timeout) *)
Theorem C20_unregistered_direction_has_no_waiter : forall t d fd t' c,
  ok_step t (Ready d fd) ONoEvent = (true, t') -> ~ In (c, (fd, d)) t.
Proof. exact no_event_no_waiter. Qed.

Example C20_nonvacuous :
  let a := 15128819530526934229 in let b := 440535360 in
  let ops := [Wait true a 1; Wait false b 2; Ready true 1; WaitT false a 1; Ready false 2;
              Close 1; Reopen 1; Wait true a 1; Ready true 1; Wait false a 1; Ready false 1;
              DelDir false 2; DelDir true 2; Ready false 3] in
  wf_C20 4 ops = true /\ no_defect ops = true
  /\ run_C20 4 ops =
     [OReg true (Some (false, true, a)); OReg true (Some (true, false, b)); OEvent a true [a];
      ORegT true (Some (true, true, a)) true; OEvent b true [b];
      OClose true; OReopen; OReg true (Some (false, true, a)); OEvent a true [a];
      OReg true (Some (true, true, a)); OEvent a true [a];
      ODel true None; ODel true None; ONoEvent].
Proof. repeat split; vm_compute; reflexivity. Qed.

Print Assumptions C20_roundtrip.
Print Assumptions C20_holds_outside.
Print Assumptions C20_no_tag_outside.
Print Assumptions C20_reuse_wakes.
Print Assumptions C20_refuted_registration_outlives_wait.
Print Assumptions C20_refuted_registration_outlives_wait_cross.
Print Assumptions C20_refuted_one_token_per_descriptor.
Print Assumptions C20_wake_hits.
Print Assumptions C20_no_cross_wake.
Print Assumptions C20_unregistered_direction_has_no_waiter.
