(** C20 — Readiness wakes exactly the waiting coroutine, promptly. Statements only. *)
From OCV Require Import Base.Prelude Net.Selector Net.Token Net.TokenOracle Net.TokenProofs.
Open Scope Z_scope.

(** the token handed to the OS comes back unchanged, for every 64-bit coroutine id *)
Theorem C20_roundtrip : forall t, 0 <= t < 2 ^ 64 -> decode (encode t) = t.
Proof. exact roundtrip. Qed.

(** every history (any length, any 64-bit ids, any descriptors, any order of waits, time-outs,
    readiness and deletions) in which a coroutine and a descriptor stay paired between deletions:
    each readiness event resumes, on the event, exactly the coroutines waiting on that descriptor *)
Theorem C20_holds_outside : forall nfd ops,
  wf_C20 nfd ops = true -> paired ops = true -> ok_C20 ops (run_C20 nfd ops) = true.
Proof. exact holds_outside. Qed.

(** known finding: a registration (and its token) outlives the wait that made it *)
Theorem C20_refuted_registration_outlives_wait :
  exists nfd ops, wf_C20 nfd ops = true /\ ok_C20 ops (run_C20 nfd ops) = false.
Proof. exact refuted_missed. Qed.

Theorem C20_refuted_registration_outlives_wait_cross :
  exists nfd ops, wf_C20 nfd ops = true /\ ok_C20 ops (run_C20 nfd ops) = false
  /\ run_C20 nfd ops = [ORegT true (Some 6297203254532200539) true; OReg true (Some 6297203254532200539);
                        OEvent 6297203254532200539 true [6297203254532200539]].
Proof. exact refuted_cross. Qed.

(** what the oracle's readiness clause says: a waiter on the descriptor is resumed by the event ... *)
Theorem C20_wake_hits : forall t fd tok hit woken t' c,
  ok_step t (Ready fd) (OEvent tok hit woken) = (true, t') -> In c (waiters_on fd t) -> In c woken.
Proof. exact wake_hits. Qed.

(** ... and nobody else is *)
Theorem C20_no_cross_wake : forall t fd tok hit woken t' c,
  ok_step t (Ready fd) (OEvent tok hit woken) = (true, t') -> In c woken -> In c (waiters_on fd t).
Proof. exact no_cross_wake. Qed.

Example C20_nonvacuous :
  let ops := [Wait 15128819530526934229 0; Wait 440535360 1; Ready 0; WaitT 15128819530526934229 0;
              Ready 1; Del 0; Wait 4567369280270323402 0; Ready 0; Ready 2] in
  wf_C20 3 ops = true /\ paired ops = true
  /\ run_C20 3 ops =
     [OReg true (Some 15128819530526934229); OReg true (Some 440535360);
      OEvent 15128819530526934229 true [15128819530526934229];
      ORegT true (Some 15128819530526934229) true;
      OEvent 440535360 true [440535360]; ODel true; OReg true (Some 4567369280270323402);
      OEvent 4567369280270323402 true [4567369280270323402]; ONoEvent].
Proof. repeat split; vm_compute; reflexivity. Qed.

Print Assumptions C20_roundtrip.
Print Assumptions C20_holds_outside.
Print Assumptions C20_refuted_registration_outlives_wait.
Print Assumptions C20_refuted_registration_outlives_wait_cross.
Print Assumptions C20_wake_hits.
Print Assumptions C20_no_cross_wake.
