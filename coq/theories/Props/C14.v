(** C14 — Hooked timed waits honour the requested timeout. Statements only.

    [world] = clock (ns, u64) + the behaviour of the primitive waits still to come ([beh]: one signed
    deviation per primitive wait; a wait asked for [w] ns lets [max 0 (w + d)] ns pass, exact once
    the list is used up). Theorems quantify over every call argument of the C types, every start
    clock and every behaviour. *)
From OCV Require Import Base.Prelude Net.Wait Net.WaitProofs Syscall.Timed Syscall.TimedOracle Syscall.TimedProofs.
Open Scope Z_scope.

(** In virtual time (exact primitive waits) the oracle accepts every model run. *)
Theorem C14_holds : forall cs,
  wf_C14 cs = true -> ok_C14 cs (map obs_of (run_C14 cs)) = true.
Proof. exact ok_C14_run. Qed.

Theorem C14_oracle_sound : forall cs o, ok_call cs o = true -> C14_spec_call cs o.
Proof. exact ok_call_sound. Qed.

(** Invalid time arguments are answered with EINVAL, nothing is waited and the clock does not move. *)
Theorem C14_einval : forall c s,
  invalid c = true ->
  run_call c s = (match c with CondWait _ _ => Ret EINVAL 0 | _ => Ret (-1) EINVAL end, s).
Proof. exact einval_run. Qed.

(** Whatever the primitive waits do (early returns included), a call returns only at a clock reading
    at or after start + request (capped at the end of the u64 clock), with the time-out result. *)
Theorem C14_no_early_return : forall c s r e s',
  wf_call (c, clk s) = true -> invalid c = false -> run_call c s = (Ret r e, s') ->
  r = timeout_ret c /\ Z.min (clk s + requested c (clk s)) U64MAX <= clk s' /\ clk s' <= U64MAX.
Proof. exact run_lower. Qed.

(** Every call with a finite request returns (fuel exhaustion is unreachable), for every behaviour. *)
Theorem C14_terminates : forall c s,
  wf_call (c, clk s) = true -> fst (run_call c s) <> Diverged.
Proof. exact run_terminates. Qed.

(** If every primitive wait overshoots by at most [eps], the call returns no later than request +
    rounding (select works in whole milliseconds) + two slacks per [wait_event] slice. *)
Theorem C14_upper : forall c s eps r e s',
  wf_call (c, clk s) = true -> invalid c = false -> 0 <= eps -> slack_ok eps s ->
  run_call c s = (Ret r e, s') ->
  clk s' <= clk s + requested c (clk s) + rounding c
            + 2 * eps * Z.max 1 (Z.of_nat (nwe s') - Z.of_nat (nwe s)).
Proof. exact run_upper. Qed.

(** sleep, usleep, nanosleep and pthread_cond_timedwait wait through a deadline: two slacks in all. *)
Theorem C14_upper_deadline : forall c s eps r e s',
  wf_call (c, clk s) = true -> invalid c = false -> 0 <= eps -> slack_ok eps s ->
  (match c with Poll _ | Select _ _ => False | _ => True end) ->
  run_call c s = (Ret r e, s') ->
  clk s' <= clk s + requested c (clk s) + 2 * eps.
Proof. exact run_upper_deadline. Qed.

(** The slices of poll / select are bounded by the request in milliseconds. *)
Theorem C14_slices : forall c s r e s',
  wf_call (c, clk s) = true -> invalid c = false -> run_call c s = (Ret r e, s') ->
  match c with
  | Poll ms => Z.of_nat (nwe s') - Z.of_nat (nwe s) <= ms
  | Select sec usec => Z.of_nat (nwe s') - Z.of_nat (nwe s) <= sec * 1000 + (usec + 999) / 1000
  | _ => True
  end.
Proof. exact run_slices. Qed.

Example C14_nonvacuous :
  let cs := [(Usleep 25000, 1000); (Nanosleep 0 1000000000, 5); (Poll 20, 0); (Select 0 2001, 7);
             (CondWait 1 25000000, 1000000000); (Sleep 4294967295, U64MAX - 9551615);
             (Select (-1) 0, 3); (CondWait 0 (-1), 9)] in
  wf_C14 cs = true /\
  run_C14 cs =
    [MCall 0 0 25001000 [EW 10000000; EW 10000000; EW 5000000; EW 0];
     MCall (-1) 22 5 [];
     MCall 0 0 20000000 [EP; EW 1000000; EW 0; EP; EW 2000000; EW 0; EP; EW 4000000; EW 0; EP;
                         EW 8000000; EW 0; EP; EW 5000000; EW 0; EP];
     MCall 0 0 3000007 [EP; EW 1000000; EW 0; EP; EW 2000000; EW 0; EP];
     MCall 110 0 1025000000 [EI 1010000000; EW 10000000; EW 0; EI 1025000000];
     MCall 0 0 18446744073709551615 [EW 9551615; EW 0];
     MCall (-1) 22 3 [];
     MCall 22 0 9 []].
Proof. split; vm_compute; reflexivity. Qed.

(** An early-returning primitive wait does not shorten the call: three waits that come back at once,
    then exact ones. *)
Example C14_nonvacuous_early_wakeups :
  match run_call (Usleep 15000) {| clk := 100; beh := [-10000000; -10000000; -5000000]; log := []; nwe := 0 |} with
  | (Ret 0 0, s') => clk s' = 15000100 /\ length (log s') = 5%nat
  | _ => False
  end.
Proof. vm_compute. split; reflexivity. Qed.

Print Assumptions C14_holds.
Print Assumptions C14_oracle_sound.
Print Assumptions C14_einval.
Print Assumptions C14_no_early_return.
Print Assumptions C14_terminates.
Print Assumptions C14_upper.
Print Assumptions C14_upper_deadline.
Print Assumptions C14_slices.
