(** C14 — Hooked timed waits honour the requested timeout. Statements only. *)
From OCV Require Import Base.Prelude Net.Wait Syscall.Timed Syscall.TimedOracle Syscall.TimedProofs.
Open Scope Z_scope.

(** Invalid time arguments are answered with EINVAL, nothing is waited and the clock does not move. *)
Theorem C14_einval : forall c s,
  invalid c = true ->
  run_call c s = (match c with CondWait _ _ => Ret EINVAL 0 | _ => Ret (-1) EINVAL end, s).
Proof. exact einval_run. Qed.

Print Assumptions C14_einval.
