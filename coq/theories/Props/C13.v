(** C13 — Cancelling a task affects only that task. (what is established so far; the theorems
    about queued and suspended targets over the pool model are added from Sched/PoolProofs) *)
From OCV Require Import Base.Prelude Misc.Time Coroutine.Co Sched.Sched Sched.Pool Sched.PoolOracle.
From OCV Require Import Sched.PoolWf Sched.PoolRun Sched.PoolProofs Sched.PoolInv Sched.PoolExample Sched.PoolBystander Sched.PoolByProofs.
From OCV Require Import Sched.Cancel.
Open Scope Z_scope.

(** cancelling a RUNNING task goes through a signal to its thread. For every history of lookups
    of one target, coroutine switches of the thread and signal deliveries: if the thread does not
    switch coroutine between a lookup and its delivery, only the target is ever cancelled *)
Theorem C13_running_cancel_hits_target : forall target running es,
  lookups_are target es = true -> no_switch_in_window false es = true ->
  only_target target (crun (c0 running) es) = true.
Proof. exact cancel_hits_target_without_switch. Qed.

(** with a switch in that window the property is refuted: the target parks, another task runs,
    the signal cancels the other task (finding signal_hits_current_coroutine, reproduced on the
    real code with the pause point in try_cancel_task) *)
Theorem C13_refuted_signal_hits_current_coroutine :
  exists target running es, lookups_are target es = true /\
    only_target target (crun (c0 running) es) = false /\
    c_cancelled (crun (c0 running) es) = [1%nat].
Proof. exact cancel_hits_bystander_with_switch. Qed.

(** * One pool, all well-formed histories: a task cancelled before it starts never starts (unless its
    handle was cleaned afterwards, which withdraws the request), and its waiter finds an error *)
Theorem C13_single_pool : forall clock cfg ops, wf_pool1 clock cfg ops = true ->
  po_c13 (fst (self_flags clock [cfg] ops)) = true.
Proof. exact c13_model1. Qed.

(** the bystander clause: in every well-formed single-pool history a worker coroutine is reported
    Cancelled only while it carries a task whose cancel was requested earlier *)
Theorem C13_single_pool_no_bystander : forall clock cfg ops, wf_pool1 clock cfg ops = true ->
  bystander_ok ops (cut_div (canon_obs [] (prun (pw0 clock [cfg]) ops))) = true.
Proof. exact bystander_model1. Qed.

Example C13_nonvacuous : wf_pool1 0 ex_cfg ex_ops = true.
Proof. exact ex_wf. Qed.

Print Assumptions C13_running_cancel_hits_target.
Print Assumptions C13_refuted_signal_hits_current_coroutine.
Print Assumptions C13_single_pool.
Print Assumptions C13_single_pool_no_bystander.
