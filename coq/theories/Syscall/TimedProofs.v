(** C14 proofs. *)
From OCV Require Import Base.Prelude Misc.Time Net.Wait Syscall.Timed Syscall.TimedOracle.
From Coq Require Import ZifyBool ZifyNat.
Open Scope Z_scope.

(** * Invalid arguments: EINVAL, nothing waited, clock untouched *)

Theorem einval_run c s :
  invalid c = true ->
  run_call c s = (match c with CondWait _ _ => Ret EINVAL 0 | _ => Ret (-1) EINVAL end, s).
Proof.
  destruct c as [secs|us|sec nsec|ms|sec usec|sec nsec]; cbn [invalid run_call]; intros H;
    try discriminate.
  - unfold bad_timespec. rewrite H. reflexivity.
  - rewrite H. reflexivity.
  - unfold bad_timespec. rewrite H. reflexivity.
Qed.

From OCV Require Import Net.WaitProofs.

(** * The slice loops of poll and select (one generic loop, [inf] = the "no limit" sentinel) *)

Fixpoint gloop (inf : Z) (fuel : nat) (t x : Z) (s : world) : option world :=
  match fuel with
  | O => None
  | S f =>
      let s1 := emit EP s in
      if t =? 0 then Some s1
      else
        match wait_event (Z.min t x * 1000000) s1 with
        | None => None
        | Some s2 =>
            let t' := if t =? inf then t else Z.max (t - x) 0 in
            let x' := if x <? 16 then 2 * x else x in
            gloop inf f t' x' s2
        end
  end.

Lemma poll_gloop fuel : forall t x s, poll_loop fuel t x s = gloop I32MAX fuel t x s.
Proof.
  induction fuel as [|f IH]; intros t x s; [reflexivity|]. cbn [poll_loop gloop].
  destruct (t =? 0); [reflexivity|]. destruct (wait_event _ _); [|reflexivity].
  rewrite IH. f_equal. destruct (t =? I32MAX); [reflexivity|]. destruct (x <? t) eqn:E; lia.
Qed.

Lemma select_gloop fuel : forall t x s, select_loop fuel t x s = gloop U64MAX fuel t x s.
Proof.
  induction fuel as [|f IH]; intros t x s; [reflexivity|]. cbn [select_loop gloop].
  destruct (t =? 0); [reflexivity|]. destruct (wait_event _ _); [|reflexivity].
  rewrite IH. reflexivity.
Qed.

Lemma gloop_lower inf fuel : forall t x s s',
  wf_world s -> 0 <= t < inf -> 1 <= x -> gloop inf fuel t x s = Some s' ->
  wf_world s' /\ Z.min (clk s + t * 1000000) U64MAX <= clk s' /\ clk s <= clk s' /\
  Z.of_nat (nwe s) <= Z.of_nat (nwe s') <= Z.of_nat (nwe s) + t.
Proof.
  induction fuel as [|f IH]; intros t x s s' Hwf Ht Hx H; [discriminate|].
  cbn [gloop] in H. destruct (t =? 0) eqn:E0.
  - inversion H; subst s'. cbn [emit clk nwe]. destruct Hwf. repeat split; try assumption; lia.
  - destruct (wait_event (Z.min t x * 1000000) (emit EP s)) as [s2|] eqn:Ew; [|discriminate].
    assert (Hd : 0 <= Z.min t x * 1000000) by lia.
    destruct (wait_event_lower _ _ _ (Hwf : wf_world (emit EP s)) Hd Ew) as (A & B & C & N & _).
    cbn [emit clk nwe] in B, C, N.
    replace (t =? inf) with false in H by lia.
    assert (Ht' : 0 <= Z.max (t - x) 0 < inf) by lia.
    assert (Hx' : 1 <= (if x <? 16 then 2 * x else x)) by (destruct (x <? 16); lia).
    destruct (IH _ _ _ _ A Ht' Hx' H) as (A' & B' & C' & N').
    destruct A as [A0 A1]. repeat split; try apply A'; try lia.
Qed.

Lemma gloop_terminates inf fuel : forall t x s,
  wf_world s -> 0 <= t < inf -> 1 <= x -> (Z.to_nat t < fuel)%nat -> gloop inf fuel t x s <> None.
Proof.
  induction fuel as [|f IH]; intros t x s Hwf Ht Hx Hf; [lia|].
  cbn [gloop]. destruct (t =? 0) eqn:E0; [discriminate|].
  assert (Hd : 0 <= Z.min t x * 1000000) by lia.
  destruct (wait_event_some _ _ (Hwf : wf_world (emit EP s)) Hd) as [s2 Ew]. rewrite Ew.
  destruct (wait_event_lower _ _ _ (Hwf : wf_world (emit EP s)) Hd Ew) as (A & _).
  replace (t =? inf) with false by lia.
  apply IH; try assumption; try lia. destruct (x <? 16); lia.
Qed.

Lemma gloop_upper inf eps fuel : forall t x s s',
  0 <= eps -> wf_world s -> slack_ok eps s -> 0 <= t < inf -> 1 <= x ->
  gloop inf fuel t x s = Some s' ->
  clk s' <= clk s + t * 1000000 + 2 * eps * (Z.of_nat (nwe s') - Z.of_nat (nwe s)) /\ slack_ok eps s'.
Proof.
  induction fuel as [|f IH]; intros t x s s' He Hwf Hs Ht Hx H; [discriminate|].
  cbn [gloop] in H. destruct (t =? 0) eqn:E0.
  - inversion H; subst s'. cbn [emit clk nwe]. split; [lia|exact Hs].
  - destruct (wait_event (Z.min t x * 1000000) (emit EP s)) as [s2|] eqn:Ew; [|discriminate].
    assert (Hd : 0 <= Z.min t x * 1000000) by lia.
    destruct (wait_event_lower _ _ _ (Hwf : wf_world (emit EP s)) Hd Ew) as (A & _ & _ & N & _).
    destruct (wait_event_upper eps _ _ _ He (Hwf : wf_world (emit EP s)) Hd (Hs : slack_ok eps (emit EP s)) Ew)
      as [U Hs2].
    cbn [emit clk nwe] in U, N.
    replace (t =? inf) with false in H by lia.
    assert (Ht' : 0 <= Z.max (t - x) 0 < inf) by lia.
    assert (Hx' : 1 <= (if x <? 16 then 2 * x else x)) by (destruct (x <? 16); lia).
    destruct (IH _ _ _ _ He A Hs2 Ht' Hx' H) as [U' Hs'].
    split; [|exact Hs']. rewrite N in U'.
    replace (Z.of_nat (S (nwe s))) with (Z.of_nat (nwe s) + 1) in U' by lia.
    assert (Hsum : Z.min t x + Z.max (t - x) 0 = t) by lia.
    nia.
Qed.

(** * The deadline loop of pthread_cond_timedwait *)

Lemma cond_lower fuel : forall abst s s',
  wf_world s -> cond_loop fuel abst s = Some s' ->
  wf_world s' /\ abst <= clk s' /\ clk s <= clk s'.
Proof.
  induction fuel as [|f IH]; intros abst s s' Hwf H; [discriminate|].
  cbn [cond_loop] in H.
  destruct (sat_sub abst (clk s) =? 0) eqn:E0.
  - inversion H; subst s'. unfold sat_sub in E0. repeat split; try apply Hwf; lia.
  - set (next := sat_add64 (clk s) (Z.min (sat_sub abst (clk s)) SLICE_NS)) in *.
    assert (Hw : 0 <= sat_sub next (clk s)) by (unfold sat_sub; lia).
    destruct (elapse_facts _ (emit (EI next) s) Hw Hwf) as (A & B & _).
    cbn [emit clk] in B.
    set (s1 := elapse (sat_sub next (clk s)) (emit (EI next) s)) in *.
    destruct (sat_sub abst (clk s1) =? 0) eqn:E1.
    + inversion H; subst s'. unfold sat_sub in E1. repeat split; try apply A; lia.
    + destruct (wait_event _ s1) as [s2|] eqn:Ew; [|discriminate].
      assert (Hd : 0 <= Z.min (sat_sub abst (clk s1)) SLICE_NS) by (unfold sat_sub, SLICE_NS; lia).
      destruct (wait_event_lower _ _ _ A Hd Ew) as (A2 & _ & C2 & _).
      destruct (IH _ _ _ A2 H) as (A' & B' & C'). repeat split; try apply A'; lia.
Qed.

Definition cond_measure (abst : Z) (s : world) : nat :=
  length (beh s) + (if sat_sub abst (clk s) =? 0 then 0 else S (Z.to_nat (sat_sub abst (clk s) / SLICE_NS))).

Lemma div_slice_mono a b : 0 <= a <= b -> a / SLICE_NS <= b / SLICE_NS.
Proof. intros H. apply Z.div_le_mono; unfold SLICE_NS; lia. Qed.

Lemma cond_terminates fuel : forall abst s,
  wf_world s -> 0 <= abst <= U64MAX -> (cond_measure abst s < fuel)%nat -> cond_loop fuel abst s <> None.
Proof.
  induction fuel as [|f IH]; intros abst s Hwf Ha Hm; [lia|].
  cbn [cond_loop].
  destruct (sat_sub abst (clk s) =? 0) eqn:E0; [discriminate|].
  set (next := sat_add64 (clk s) (Z.min (sat_sub abst (clk s)) SLICE_NS)) in *.
  assert (Hw : 0 <= sat_sub next (clk s)) by (unfold sat_sub; lia).
  destruct (elapse_facts _ (emit (EI next) s) Hw Hwf) as (A & B & L & _ & _ & Ex & Dv).
  cbn [emit clk beh] in B, L, Ex, Dv.
  set (s1 := elapse (sat_sub next (clk s)) (emit (EI next) s)) in *.
  destruct (sat_sub abst (clk s1) =? 0) eqn:E1; [discriminate|].
  assert (Hd : 0 <= Z.min (sat_sub abst (clk s1)) SLICE_NS) by (unfold sat_sub, SLICE_NS; lia).
  destruct (wait_event_some _ _ A Hd) as [s2 Ew]. rewrite Ew.
  destruct (wait_event_lower _ _ _ A Hd Ew) as (A2 & _ & C2 & _ & L2).
  apply IH; try assumption.
  unfold cond_measure in *. rewrite E0 in Hm.
  assert (Hmono : sat_sub abst (clk s2) <= sat_sub abst (clk s1)) by (unfold sat_sub; lia).
  assert (Hnn2 : 0 <= sat_sub abst (clk s2)) by (unfold sat_sub; lia).
  destruct (beh s) as [|d b] eqn:Eb.
  - (* exact native wait: a full slice closer *)
    destruct (Ex eq_refl) as [Hc Hb]. rewrite Hb in L2. cbn [length] in *.
    assert (length (beh s2) = 0)%nat as -> by lia.
    destruct Hwf as [H0 H1].
    assert (Hs1 : sat_sub abst (clk s1) = sat_sub abst (clk s) - SLICE_NS).
    { rewrite Hc. unfold next, sat_add64, sat_sub, SLICE_NS in *. lia. }
    destruct (sat_sub abst (clk s2) =? 0) eqn:E2; [lia|].
    assert (Hge : SLICE_NS <= sat_sub abst (clk s)) by (unfold SLICE_NS in *; lia).
    pose proof (div_slice_mono _ _ (conj Hnn2 Hmono)) as Hdm.
    assert (Hdd : (sat_sub abst (clk s) - SLICE_NS) / SLICE_NS = sat_sub abst (clk s) / SLICE_NS - 1).
    { replace (sat_sub abst (clk s) - SLICE_NS) with (sat_sub abst (clk s) + (-1) * SLICE_NS) by lia.
      rewrite Z.div_add by (unfold SLICE_NS; lia). lia. }
    rewrite Hs1, Hdd in Hdm.
    assert (Hq2 : 0 <= sat_sub abst (clk s2) / SLICE_NS) by (apply Z.div_pos; unfold SLICE_NS; lia).
    revert Hm Hdm Hq2.
    generalize (sat_sub abst (clk s2) / SLICE_NS) (sat_sub abst (clk s) / SLICE_NS). clear.
    intros q2 q Hm Hdm Hq2. lia.
  - assert (Hne : d :: b <> []) by discriminate. specialize (Dv Hne). cbn [length] in *.
    assert (Hmono1 : sat_sub abst (clk s1) <= sat_sub abst (clk s)) by (unfold sat_sub; lia).
    destruct (sat_sub abst (clk s2) =? 0) eqn:E2; [lia|].
    assert (Hle : sat_sub abst (clk s2) / SLICE_NS <= sat_sub abst (clk s) / SLICE_NS)
      by (apply div_slice_mono; lia).
    assert (0 <= sat_sub abst (clk s2) / SLICE_NS) by (apply Z.div_pos; unfold SLICE_NS; lia).
    lia.
Qed.

Lemma cond_upper eps fuel : forall abst s s',
  0 <= eps -> wf_world s -> slack_ok eps s -> 0 <= abst <= U64MAX ->
  cond_loop fuel abst s = Some s' -> clk s' <= Z.max (clk s) (abst + 2 * eps).
Proof.
  induction fuel as [|f IH]; intros abst s s' He Hwf Hs Ha H; [discriminate|].
  cbn [cond_loop] in H.
  destruct (sat_sub abst (clk s) =? 0) eqn:E0.
  - inversion H; subst s'. lia.
  - set (next := sat_add64 (clk s) (Z.min (sat_sub abst (clk s)) SLICE_NS)) in *.
    assert (Hw : 0 <= sat_sub next (clk s)) by (unfold sat_sub; lia).
    destruct (elapse_facts _ (emit (EI next) s) Hw Hwf) as (A & B & _).
    destruct (elapse_upper eps _ (emit (EI next) s) Hw He Hwf Hs) as [U1 Hs1].
    cbn [emit clk] in B, U1.
    set (s1 := elapse (sat_sub next (clk s)) (emit (EI next) s)) in *.
    assert (Hn : clk s + sat_sub next (clk s) <= abst).
    { destruct Hwf. unfold next, sat_add64, sat_sub, SLICE_NS in *. lia. }
    destruct (sat_sub abst (clk s1) =? 0) eqn:E1.
    + inversion H; subst s'. lia.
    + destruct (wait_event _ s1) as [s2|] eqn:Ew; [|discriminate].
      assert (Hd : 0 <= Z.min (sat_sub abst (clk s1)) SLICE_NS) by (unfold sat_sub, SLICE_NS; lia).
      destruct (wait_event_lower _ _ _ A Hd Ew) as (A2 & _).
      destruct (wait_event_upper eps _ _ _ He A Hd Hs1 Ew) as [U2 Hs2].
      pose proof (IH _ _ _ He A2 Hs2 Ha H) as U'.
      assert (Z.min (sat_sub abst (clk s1)) SLICE_NS <= abst - clk s1) by (unfold sat_sub, SLICE_NS in *; lia).
      lia.
Qed.

(** * Whole calls *)

Lemma wf_call_start c start : wf_call (c, start) = true -> 0 <= start <= U64MAX.
Proof. cbn [wf_call]. unfold in_u64. lia. Qed.

Lemma fin_some o r e s r' e' s' : fin o r e s = (Ret r' e', s') -> o = Some s' /\ r' = r /\ e' = e.
Proof. unfold fin. destruct o; intros H; inversion H; auto. Qed.

Lemma select_ms_eq sec usec :
  0 <= sec -> 0 <= usec -> select_ms sec usec < U64MAX ->
  select_ms sec usec = sec * 1000 + (usec + 999) / 1000.
Proof.
  intros Hs Hu. unfold select_ms, sat_add64, sat_mul64.
  assert (Hq : 0 <= (usec + 999) / 1000) by (apply Z.div_pos; lia).
  revert Hq. generalize ((usec + 999) / 1000). intros q Hq. lia.
Qed.

Lemma ceil_ms usec : 0 <= usec ->
  usec <= (usec + 999) / 1000 * 1000 <= usec + 999.
Proof.
  intros Hu.
  pose proof (Z.div_mod (usec + 999) 1000 ltac:(lia)) as Hdm.
  pose proof (Z.mod_pos_bound (usec + 999) 1000 ltac:(lia)) as Hmb.
  revert Hdm Hmb. generalize ((usec + 999) / 1000) ((usec + 999) mod 1000). intros q m Hdm Hmb. lia.
Qed.

Lemma select_ms_facts sec usec :
  0 <= sec -> 0 <= usec -> select_ms sec usec < U64MAX ->
  0 <= select_ms sec usec /\
  sec * 1000000000 + usec * 1000 <= select_ms sec usec * 1000000
    <= sec * 1000000000 + usec * 1000 + 999999.
Proof.
  intros Hs Hu Ht. rewrite (select_ms_eq sec usec Hs Hu Ht).
  pose proof (ceil_ms usec Hu) as Hc.
  revert Hc. generalize ((usec + 999) / 1000). intros q Hc. lia.
Qed.

(** Every call inside the statement returns. *)
Theorem run_terminates c s : wf_call (c, clk s) = true -> fst (run_call c s) <> Diverged.
Proof.
  intros Hwf. pose proof (wf_call_start _ _ Hwf) as Hs. cbn [wf_call] in Hwf.
  destruct c as [secs|us|sec nsec|ms|sec usec|sec nsec]; cbn [run_call].
  - destruct (wait_event_some (secs * 1000000000) s Hs ltac:(lia)) as [s' ->]. discriminate.
  - destruct (wait_event_some (us * 1000) s Hs ltac:(lia)) as [s' ->]. discriminate.
  - unfold bad_timespec. destruct ((sec <? 0) || (nsec <? 0) || (999999999 <? nsec)) eqn:E; [discriminate|].
    destruct (wait_event_some (sec * 1000000000 + nsec) s Hs ltac:(lia)) as [s' ->]. discriminate.
  - replace (ms <? 0) with false by lia. replace (ms =? I32MAX) with false by lia.
    rewrite poll_gloop.
    destruct (gloop I32MAX (S (Z.to_nat ms)) ms 1 s) eqn:E; [discriminate|].
    exfalso. revert E. apply gloop_terminates; try assumption; lia.
  - destruct ((sec <? 0) || (usec <? 0)) eqn:E; [discriminate|].
    cbn [invalid] in Hwf. rewrite E in Hwf. cbn [orb] in Hwf.
    destruct (select_ms_facts sec usec ltac:(lia) ltac:(lia) ltac:(lia)) as [Ht _].
    replace (select_ms sec usec =? U64MAX) with false by lia.
    rewrite select_gloop.
    destruct (gloop U64MAX (S (Z.to_nat (select_ms sec usec))) (select_ms sec usec) 1 s) eqn:E'; [discriminate|].
    exfalso. revert E'. apply gloop_terminates; try assumption; lia.
  - unfold bad_timespec. destruct ((sec <? 0) || (nsec <? 0) || (999999999 <? nsec)) eqn:E; [discriminate|].
    set (abst := Z.min (sec * 1000000000 + nsec) U64MAX).
    destruct (cond_loop (cond_fuel abst s) abst s) eqn:E'; [discriminate|].
    exfalso. revert E'. apply cond_terminates; try assumption; [unfold abst; lia|].
    unfold cond_measure, cond_fuel. destruct (sat_sub abst (clk s) =? 0); lia.
Qed.

(** No early return, whatever the primitive waits do. *)
Theorem run_lower c s r e s' :
  wf_call (c, clk s) = true -> invalid c = false -> run_call c s = (Ret r e, s') ->
  r = timeout_ret c /\ Z.min (clk s + requested c (clk s)) U64MAX <= clk s' /\ clk s' <= U64MAX.
Proof.
  intros Hwf Hv H. pose proof (wf_call_start _ _ Hwf) as Hs. cbn [wf_call] in Hwf.
  destruct c as [secs|us|sec nsec|ms|sec usec|sec nsec]; cbn [run_call invalid requested timeout_ret] in *.
  - apply fin_some in H as (H & -> & ->). assert (Hd : 0 <= secs * 1000000000) by lia.
    destruct (wait_event_lower _ _ _ Hs Hd H) as (A & B & _). destruct A. lia.
  - apply fin_some in H as (H & -> & ->). assert (Hd : 0 <= us * 1000) by lia.
    destruct (wait_event_lower _ _ _ Hs Hd H) as (A & B & _). destruct A. lia.
  - unfold bad_timespec in H. rewrite Hv in H. apply fin_some in H as (H & -> & ->).
    assert (Hd : 0 <= sec * 1000000000 + nsec) by lia.
    destruct (wait_event_lower _ _ _ Hs Hd H) as (A & B & _). destruct A. lia.
  - replace (ms <? 0) with false in H by lia. replace (ms =? I32MAX) with false in H by lia.
    apply fin_some in H as (H & -> & ->). rewrite poll_gloop in H.
    assert (Ht0 : 0 <= ms < I32MAX) by lia. assert (Hx1 : 1 <= 1) by lia.
    destruct (gloop_lower _ _ _ _ _ _ Hs Ht0 Hx1 H) as (A & B & _). destruct A. lia.
  - rewrite Hv in H. rewrite Hv in Hwf. cbn [orb] in Hwf.
    destruct (select_ms_facts sec usec ltac:(lia) ltac:(lia) ltac:(lia)) as [Ht Hr].
    replace (select_ms sec usec =? U64MAX) with false in H by lia.
    apply fin_some in H as (H & -> & ->). rewrite select_gloop in H.
    assert (Ht0 : 0 <= select_ms sec usec < U64MAX) by lia. assert (Hx1 : 1 <= 1) by lia.
    destruct (gloop_lower _ _ _ _ _ _ Hs Ht0 Hx1 H) as (A & B & _). destruct A. lia.
  - unfold bad_timespec in H. rewrite Hv in H. apply fin_some in H as (H & -> & ->).
    destruct (cond_lower _ _ _ _ Hs H) as (A & B & C). destruct A. lia.
Qed.

(** With per-wait slack in [0, eps]: no later than request + rounding + 2 eps per wait_event slice. *)
Theorem run_upper c s eps r e s' :
  wf_call (c, clk s) = true -> invalid c = false -> 0 <= eps -> slack_ok eps s ->
  run_call c s = (Ret r e, s') ->
  clk s' <= clk s + requested c (clk s) + rounding c
            + 2 * eps * Z.max 1 (Z.of_nat (nwe s') - Z.of_nat (nwe s)).
Proof.
  intros Hwf Hv He Hsl H. pose proof (wf_call_start _ _ Hwf) as Hs. cbn [wf_call] in Hwf.
  destruct c as [secs|us|sec nsec|ms|sec usec|sec nsec]; cbn [run_call invalid requested rounding] in *.
  - apply fin_some in H as (H & -> & ->). assert (Hd : 0 <= secs * 1000000000) by lia.
    destruct (wait_event_upper eps _ _ _ He Hs Hd Hsl H) as [U _]. nia.
  - apply fin_some in H as (H & -> & ->). assert (Hd : 0 <= us * 1000) by lia.
    destruct (wait_event_upper eps _ _ _ He Hs Hd Hsl H) as [U _]. nia.
  - unfold bad_timespec in H. rewrite Hv in H. apply fin_some in H as (H & -> & ->).
    assert (Hd : 0 <= sec * 1000000000 + nsec) by lia.
    destruct (wait_event_upper eps _ _ _ He Hs Hd Hsl H) as [U _]. nia.
  - replace (ms <? 0) with false in H by lia. replace (ms =? I32MAX) with false in H by lia.
    apply fin_some in H as (H & -> & ->). rewrite poll_gloop in H.
    assert (Ht0 : 0 <= ms < I32MAX) by lia. assert (Hx1 : 1 <= 1) by lia.
    destruct (gloop_upper _ eps _ _ _ _ _ He Hs Hsl Ht0 Hx1 H) as [U _].
    destruct (gloop_lower _ _ _ _ _ _ Hs Ht0 Hx1 H) as (_ & _ & _ & N).
    nia.
  - rewrite Hv in H. rewrite Hv in Hwf. cbn [orb] in Hwf.
    destruct (select_ms_facts sec usec ltac:(lia) ltac:(lia) ltac:(lia)) as [Ht Hr].
    replace (select_ms sec usec =? U64MAX) with false in H by lia.
    apply fin_some in H as (H & -> & ->). rewrite select_gloop in H.
    assert (Ht0 : 0 <= select_ms sec usec < U64MAX) by lia. assert (Hx1 : 1 <= 1) by lia.
    destruct (gloop_upper _ eps _ _ _ _ _ He Hs Hsl Ht0 Hx1 H) as [U _].
    destruct (gloop_lower _ _ _ _ _ _ Hs Ht0 Hx1 H) as (_ & _ & _ & N).
    nia.
  - unfold bad_timespec in H. rewrite Hv in H. apply fin_some in H as (H & -> & ->).
    assert (Ha : 0 <= Z.min (sec * 1000000000 + nsec) U64MAX <= U64MAX) by lia.
    pose proof (cond_upper eps _ _ _ _ He Hs Hsl Ha H) as U. nia.
Qed.

(** The calls that wait through one deadline: two slacks in total. *)
Theorem run_upper_deadline c s eps r e s' :
  wf_call (c, clk s) = true -> invalid c = false -> 0 <= eps -> slack_ok eps s ->
  (match c with Poll _ | Select _ _ => False | _ => True end) ->
  run_call c s = (Ret r e, s') ->
  clk s' <= clk s + requested c (clk s) + 2 * eps.
Proof.
  intros Hwf Hv He Hsl Hk H. pose proof (wf_call_start _ _ Hwf) as Hs. cbn [wf_call] in Hwf.
  destruct c as [secs|us|sec nsec|ms|sec usec|sec nsec]; try contradiction;
    cbn [run_call invalid requested] in *.
  - apply fin_some in H as (H & -> & ->). assert (Hd : 0 <= secs * 1000000000) by lia.
    destruct (wait_event_upper eps _ _ _ He Hs Hd Hsl H) as [U _]. lia.
  - apply fin_some in H as (H & -> & ->). assert (Hd : 0 <= us * 1000) by lia.
    destruct (wait_event_upper eps _ _ _ He Hs Hd Hsl H) as [U _]. lia.
  - unfold bad_timespec in H. rewrite Hv in H. apply fin_some in H as (H & -> & ->).
    assert (Hd : 0 <= sec * 1000000000 + nsec) by lia.
    destruct (wait_event_upper eps _ _ _ He Hs Hd Hsl H) as [U _]. lia.
  - unfold bad_timespec in H. rewrite Hv in H. apply fin_some in H as (H & -> & ->).
    assert (Ha : 0 <= Z.min (sec * 1000000000 + nsec) U64MAX <= U64MAX) by lia.
    pose proof (cond_upper eps _ _ _ _ He Hs Hsl Ha H) as U. lia.
Qed.

(** The number of slices of poll / select is bounded by the request in milliseconds. *)
Theorem run_slices c s r e s' :
  wf_call (c, clk s) = true -> invalid c = false -> run_call c s = (Ret r e, s') ->
  match c with
  | Poll ms => Z.of_nat (nwe s') - Z.of_nat (nwe s) <= ms
  | Select sec usec => Z.of_nat (nwe s') - Z.of_nat (nwe s) <= sec * 1000 + (usec + 999) / 1000
  | _ => True
  end.
Proof.
  intros Hwf Hv H. pose proof (wf_call_start _ _ Hwf) as Hs. cbn [wf_call] in Hwf.
  destruct c as [secs|us|sec nsec|ms|sec usec|sec nsec]; try exact I; cbn [run_call invalid] in *.
  - replace (ms <? 0) with false in H by lia. replace (ms =? I32MAX) with false in H by lia.
    apply fin_some in H as (H & -> & ->). rewrite poll_gloop in H.
    assert (Ht0 : 0 <= ms < I32MAX) by lia. assert (Hx1 : 1 <= 1) by lia.
    destruct (gloop_lower _ _ _ _ _ _ Hs Ht0 Hx1 H) as (_ & _ & _ & N). lia.
  - rewrite Hv in H. rewrite Hv in Hwf. cbn [orb] in Hwf.
    destruct (select_ms_facts sec usec ltac:(lia) ltac:(lia) ltac:(lia)) as [Ht Hr].
    replace (select_ms sec usec =? U64MAX) with false in H by lia.
    apply fin_some in H as (H & -> & ->). rewrite select_gloop in H.
    assert (Ht0 : 0 <= select_ms sec usec < U64MAX) by lia. assert (Hx1 : 1 <= 1) by lia.
    destruct (gloop_lower _ _ _ _ _ _ Hs Ht0 Hx1 H) as (_ & _ & _ & N).
    assert (select_ms sec usec <= sec * 1000 + (usec + 999) / 1000).
    { unfold select_ms, sat_add64, sat_mul64. lia. }
    lia.
Qed.

(** * The oracle accepts every model run in virtual time (exact waits) *)

Lemma ok_call_run cs : wf_call cs = true -> ok_call cs (obs_of (run_one cs)) = true.
Proof.
  destruct cs as [c start]. intros Hwf. unfold run_one.
  set (s := start_world start).
  assert (Hclk : clk s = start) by reflexivity.
  destruct (invalid c) eqn:Hv.
  - rewrite (einval_run c s Hv). cbn [ok_call]. rewrite Hv.
    destruct c; try discriminate; cbn [obs_of map rev log s start_world]; rewrite ?Z.eqb_refl; reflexivity.
  - pose proof (run_terminates c s) as Ht. rewrite Hclk in Ht. specialize (Ht Hwf).
    destruct (run_call c s) as [[r e|] s'] eqn:E; [|exfalso; apply Ht; reflexivity].
    assert (Hwf' : wf_call (c, clk s) = true) by (rewrite Hclk; exact Hwf).
    destruct (run_lower c s r e s' Hwf' Hv E) as (Hr & Hlo & _).
    assert (Hsl : slack_ok 0 s) by constructor.
    pose proof (run_upper c s 0 r e s' Hwf' Hv (Z.le_refl 0) Hsl E) as Hup.
    rewrite Hclk in *. cbn [obs_of ok_call]. rewrite Hv. subst r. lia.
Qed.

Theorem ok_C14_run cs : wf_C14 cs = true -> ok_C14 cs (map obs_of (run_C14 cs)) = true.
Proof.
  induction cs as [|c cs IH]; intros Hwf; [reflexivity|].
  cbn [wf_C14 forallb] in Hwf. apply andb_true_iff in Hwf as [H1 H2].
  cbn [run_C14 map ok_C14]. rewrite (ok_call_run c H1). exact (IH H2).
Qed.

(** * What the oracle means *)

Definition C14_spec_call (cs : call * Z) (o : obs) : Prop :=
  let '(c, start) := cs in
  exists r e fin_clk evs, o = OCall r e fin_clk evs /\
    (invalid c = true ->
       (match c with CondWait _ _ => r = EINVAL | _ => r = -1 /\ e = EINVAL end)
       /\ evs = [] /\ fin_clk = start) /\
    (invalid c = false ->
       r = timeout_ret c /\
       Z.min (start + requested c start) U64MAX <= fin_clk <= start + requested c start + rounding c).

Theorem ok_call_sound cs o : ok_call cs o = true -> C14_spec_call cs o.
Proof.
  destruct cs as [c start]. destruct o as [r e fin_clk evs| |]; cbn [ok_call]; try discriminate.
  intros H. exists r, e, fin_clk, evs. split; [reflexivity|].
  destruct (invalid c) eqn:Hv; (split; [|intros Hc; discriminate Hc] || (split; [intros Hc; discriminate Hc|])); intros _.
  - destruct evs; [|rewrite andb_false_r in H; discriminate]. cbn in H.
    destruct c; cbn in Hv; try discriminate; (repeat split; try reflexivity; lia).
  - lia.
Qed.
