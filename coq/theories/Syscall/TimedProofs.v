(** C14 proofs. *)
From OCV Require Import Base.Prelude Misc.Time Net.Wait Syscall.Timed Syscall.TimedOracle.
From Coq Require Import ZifyBool ZifyNat.
Open Scope Z_scope.

(** * Invalid arguments: EINVAL, nothing waited, clock untouched *)

Theorem einval_run c s :
  invalid c = true ->
  run_call c s = (match c with CondWait _ _ => Ret EINVAL 0 | _ => Ret (-1) EINVAL end, s).
Proof.
  destruct c as [secs|us|sec nsec|ms|sec usec|sec nsec]; cbn [invalid run_call]; intros H;
    try discriminate.
  - unfold bad_timespec. rewrite H. reflexivity.
  - rewrite H. reflexivity.
  - unfold bad_timespec. rewrite H. reflexivity.
Qed.
