(** C14: observation alphabet, model run in virtual time (exact primitive waits), and the property as
    an executable oracle over observed results. The oracle is written from the native calls'
    contracts (what is invalid, how long was asked for) and mentions no model definition. *)
From OCV Require Import Base.Prelude Net.Wait Syscall.Timed.
Open Scope Z_scope.

Definition ev_eqb (a b : ev) : bool :=
  match a, b with
  | EW x, EW y => x =? y
  | EP, EP => true
  | EI x, EI y => x =? y
  | _, _ => false
  end.

(** Observed result of one call made at virtual time [start]: return value, errno (reported only
    with a -1 return, else 0), the virtual clock afterwards, and the run-length encoded events. *)
Inductive obs :=
| OCall (ret errno fin_clk : Z) (evs : list (ev * Z))
| OAbort
| ODiverged.

Fixpoint unrle (l : list (ev * Z)) : list ev :=
  match l with
  | [] => []
  | (e, n) :: l' => repeat e (Z.to_nat n) ++ unrle l'
  end.

Definition start_world (start : Z) : world := {| clk := start; beh := []; log := []; nwe := 0 |}.

(** The model's observation: events oldest first, not compressed. *)
Inductive mobs := MCall (ret errno fin_clk : Z) (evs : list ev) | MDiverged.

Definition run_one (cs : call * Z) : mobs :=
  let '(c, start) := cs in
  match run_call c (start_world start) with
  | (Ret r e, s) => MCall r e (clk s) (rev (log s))
  | (Diverged, _) => MDiverged
  end.

Definition corr_one (m : mobs) (o : obs) : bool :=
  match m, o with
  | MCall r e c evs, OCall r' e' c' evs' =>
      (r =? r') && (e =? e') && (c =? c') && list_eqb ev_eqb evs (unrle evs')
  | MDiverged, ODiverged => true
  | _, _ => false
  end.

Definition run_C14 (cs : list (call * Z)) : list mobs := map run_one cs.

(** ** Specification side *)

(** Arguments the native calls reject with EINVAL. *)
Definition invalid (c : call) : bool :=
  match c with
  | Nanosleep sec nsec | CondWait sec nsec => (sec <? 0) || (nsec <? 0) || (999999999 <? nsec)
  | Select sec usec => (sec <? 0) || (usec <? 0)
  | _ => false
  end.

(** Nanoseconds the caller asked to wait, counted from [start]. *)
Definition requested (c : call) (start : Z) : Z :=
  match c with
  | Sleep secs => secs * 1000000000
  | Usleep us => us * 1000
  | Nanosleep sec nsec => sec * 1000000000 + nsec
  | Poll ms => ms * 1000000
  | Select sec usec => sec * 1000000000 + usec * 1000
  | CondWait sec nsec => Z.max 0 (sec * 1000000000 + nsec - start)
  end.

(** Granularity the call is allowed to round the request up to (select works in whole ms). *)
Definition rounding (c : call) : Z := match c with Select _ _ => 999999 | _ => 0 end.

Definition timeout_ret (c : call) : Z := match c with CondWait _ _ => ETIMEDOUT | _ => 0 end.

Definition ok_call (cs : call * Z) (o : obs) : bool :=
  let '(c, start) := cs in
  match o with
  | OCall r e fin_clk evs =>
      if invalid c then
        (match c with
         | CondWait _ _ => r =? EINVAL              (* pthread functions return the error number *)
         | _ => (r =? -1) && (e =? EINVAL)
         end)
        && (match evs with [] => true | _ => false end) && (fin_clk =? start)   (* nothing waited *)
      else
        (r =? timeout_ret c)
        && (Z.min (start + requested c start) U64MAX <=? fin_clk)               (* never early *)
        && (fin_clk <=? start + requested c start + rounding c)                  (* exact in virtual time *)
  | _ => false
  end.

Fixpoint ok_C14 (cs : list (call * Z)) (os : list obs) : bool :=
  match cs, os with
  | [], [] => true
  | c :: cs', o :: os' => ok_call c o && ok_C14 cs' os'
  | _, _ => false
  end.

(** The same judgement on a model observation. *)
Definition obs_of (m : mobs) : obs :=
  match m with
  | MCall r e c evs => OCall r e c (map (fun x => (x, 1)) evs)
  | MDiverged => ODiverged
  end.

(** Calls inside the statement: arguments of the C types, a finite request. [poll] with a negative
    timeout or INT_MAX and [select] whose millisecond count saturates never time out. *)
Definition in_i64 (x : Z) : bool := (I64MIN <=? x) && (x <=? I64MAX).

Definition wf_call (cs : call * Z) : bool :=
  let '(c, start) := cs in
  in_u64 start &&
  match c with
  | Sleep secs => (0 <=? secs) && (secs <=? U32MAX)
  | Usleep us => (0 <=? us) && (us <=? U32MAX)
  | Nanosleep sec nsec | CondWait sec nsec => in_i64 sec && in_i64 nsec
  | Poll ms => (0 <=? ms) && (ms <? I32MAX)
  | Select sec usec => in_i64 sec && in_i64 usec && (invalid c || (select_ms sec usec <? U64MAX))
  end.

Definition wf_C14 (cs : list (call * Z)) : bool := forallb wf_call cs.
