(** impl_nio_read_buf / impl_nio_write_buf: every run ends in [Final]. *)
From OCV Require Import Base.Prelude Syscall.SockIO Syscall.SockIOOracle Syscall.SockIOProofs Syscall.SockIOInv.
From Coq Require Import ZifyBool ZifyNat.
Open Scope Z_scope.

Section Buf.
  Variable d : dir.
  Variable nb0 : bool.
  Variables limit start : Z.
  Variable len : nat.

  Local Notation lens := [len].
  Local Notation sh := (SBuf d).

  Lemma buf_positions : positions lens [(O, O, (len - 0)%nat)] = seq 0 (total lens - 0).
  Proof.
    unfold positions, range_positions, stage, total. cbn [flat_map firstn sumn]. rewrite app_nil_r.
    f_equal; lia.
  Qed.

  Lemma buf_ranges_ok : (0 < len)%nat -> ranges_ok lens O true [(O, O, (len - 0)%nat)] = true.
  Proof.
    intros L. cbn [ranges_ok List.length nth]. unfold stage. cbn [firstn sumn].
    assert (E1 : (0 <? 1)%nat = true) by reflexivity.
    assert (E2 : (0 + (len - 0) <=? len)%nat = true) by lia.
    assert (E3 : (len - 0 =? 0)%nat = false) by lia.
    assert (E4 : (0 =? 0 + 0)%nat = true) by reflexivity.
    rewrite E1, E2, E3, E4. reflexivity.
  Qed.

  Definition BInv (r : Z) (s : st) : Prop :=
    Good lens sh nb0 false s O /\ s_nb s = true /\ RW lens r s O.

  Lemma wb_buf : forall e, would_block sh e = (e =? EAGAIN).
  Proof. reflexivity. Qed.

  Lemma buf_body_ok : forall x left s, wf_script_entry x = true -> (0 < len)%nat ->
    Good lens sh nb0 false s O -> s_nb s = true ->
    match buf_body d (negb nb0) limit start len x O left s with
    | BExit r' s' => FinalF lens sh nb0 true r' s'
    | BAgain rc' left' r' s' => rc' = O /\ BInv r' s'
    end.
  Proof.
    intros x left s W L G NB. unfold buf_body, BInv.
    destruct (kcall_good lens sh nb0 1 [(O, O, (len - 0)%nat)] x s O W G NB (buf_ranges_ok L) eq_refl
                         buf_positions) as (r & s1 & E & NB1 & [(R & NZ & LE & _ & G1) | (m & R & M & E0 & G1)]).
    - (* the call failed *)
      rewrite E. subst r. change (negb (-1 =? -1)) with false. cbv beta iota.
      destruct (classify_cases (s_errno s1)) as [[K Ee] | [[K Ee] | [K [Ne1 Ne2]]]]; rewrite K.
      + (* would block: waits, whatever the caller's mode *)
        destruct (do_wait limit start s1) as [[ok left'] s3] eqn:DW.
        destruct (good_wait lens sh nb0 _ _ _ _ _ _ _ _ G1 DW) as (G3 & NB3 & E3 & Q3).
        destruct ok.
        * split; [reflexivity|]. split; [exact G3|]. split; [congruence|].
          intros _. right. rewrite Q3, E3. repeat split; auto. unfold total. cbn [sumn]. lia.
        * exists O. split; [exact G3|]. split; [congruence|]. left; reflexivity.
      + (* interrupted *)
        split; [reflexivity|]. split.
        * rewrite wb_buf, Ee in G1. exact G1.
        * split; [exact NB1|]. intros _. right. repeat split; auto. unfold total. cbn [sumn]. lia.
      + (* hard error *)
        exists O. split.
        * rewrite wb_buf in G1. replace (s_errno s1 =? EAGAIN) with false in G1 by lia. exact G1.
        * split; [exact NB1|].
          right. repeat split; auto. unfold total. cbn [sumn]. lia.
    - (* the call moved m bytes *)
      rewrite E. subst r.
      assert (Em : (Z.of_nat m =? -1) = false) by lia. rewrite Em. cbn [negb].
      rewrite Nat2Z.id. cbn [Nat.add].
      assert (FIN : forall s2, s_reqs s2 = s_reqs s1 -> s_moved s2 = s_moved s1 -> s_waits s2 = s_waits s1 ->
                     s_nb s2 = s_nb s1 -> FinalF lens sh nb0 true (Z.of_nat m) s2).
      { intros s2 Q1 Q2 Q3 Q4. exists m. split.
        - unfold Good. rewrite Q1, Q2, Q3. exact G1.
        - split; [congruence|]. left; reflexivity. }
      destruct ((len <=? m)%nat || (is_rd d && (Z.of_nat m =? 0))).
      + cbv beta iota. apply FIN; reflexivity.
      + cbv beta iota. cbn [set_errno s_errno]. change (classify 0) with KOther. cbv iota.
        apply FIN; reflexivity.
  Qed.

  Lemma buf_loop_ok : forall sc left r s, forallb wf_script_entry sc = true ->
    BInv r s ->
    match buf_loop d (negb nb0) limit start len sc O left r s with
    | (ORet r', s') => FinalF lens sh nb0 true r' s'
    | _ => False
    end.
  Proof.
    induction sc as [|x sc IH]; intros left r s W (G & NB & RWr); cbn [buf_loop].
    - destruct ((0 <? len)%nat && (0 <? left)) eqn:C.
      + assert (L : (0 < len)%nat) by lia.
        pose proof (buf_body_ok exhausted left s exhausted_wf L G NB) as B.
        destruct (buf_body d (negb nb0) limit start len exhausted O left s) as [r' s'|rc' l' r' s'] eqn:EB.
        * exact B.
        * exfalso. unfold buf_body in EB. cbn [exhausted kcall snd fst] in EB.
          cbv beta iota zeta in EB. change (negb (-1 =? -1)) with false in EB. cbv beta iota in EB.
          cbn [s_errno] in EB. change (classify ECONNRESET) with KOther in EB. discriminate.
      + exists O. split; [exact G|]. split; [exact NB|].
        destruct (RWr eq_refl) as [R0 | (R1 & T & LE & NZ)]; [left; subst; reflexivity | right; auto].
    - cbn [forallb] in W. apply andb_true_iff in W as [Wx Wsc].
      destruct ((0 <? len)%nat && (0 <? left)) eqn:C.
      + assert (L : (0 < len)%nat) by lia.
        pose proof (buf_body_ok x left s Wx L G NB) as B.
        destruct (buf_body d (negb nb0) limit start len x O left s) as [r' s'|rc' l' r' s'].
        * exact B.
        * destruct B as [-> B]. apply IH; assumption.
      + exists O. split; [exact G|]. split; [exact NB|].
        destruct (RWr eq_refl) as [R0 | (R1 & T & LE & NZ)]; [left; subst; reflexivity | right; auto].
  Qed.
End Buf.

(** a whole buffer call *)
Lemma run_buf_ok : forall d c, forallb wf_script_entry (c_script c) = true ->
  match run_buf d (c_limit c) (hd O (c_lens c)) (c_script c) (init_st c) with
  | (ORet r, s) => Final [hd O (c_lens c)] (SBuf d) (c_nb c) r s
  | _ => False
  end.
Proof.
  intros d c W. unfold run_buf, enter. set (len := hd O (c_lens c)).
  assert (NBe : s_nb (if negb (s_nb (init_st c)) then set_nb (init_st c) true else init_st c) = true).
  { unfold init_st. cbn [s_nb]. destruct (c_nb c); reflexivity. }
  assert (Ge : Good [len] (SBuf d) (c_nb c) false
                    (if negb (s_nb (init_st c)) then set_nb (init_st c) true else init_st c) O).
  { destruct (negb (s_nb (init_st c))); apply good_init. }
  change (negb (s_nb (init_st c))) with (negb (c_nb c)) in *.
  set (s1 := if negb (c_nb c) then set_nb (init_st c) true else init_st c) in *.
  pose proof (buf_loop_ok d (c_nb c) (c_limit c) (s_clock s1) len (c_script c) (c_limit c) 0 s1 W) as B.
  destruct (buf_loop d (negb (c_nb c)) (c_limit c) (s_clock s1) len (c_script c) O (c_limit c) 0 s1) as [o s2].
  assert (BI : BInv d (c_nb c) len 0 s1).
  { split; [exact Ge|]. split; [exact NBe|]. intros _. left. reflexivity. }
  specialize (B BI). destruct o; try contradiction. apply final_restore. exact B.
Qed.
