(** The hooked socket I/O loops of core/src/syscall/unix (mod.rs macros impl_nio_read,
    impl_nio_read_buf, impl_nio_write_buf, impl_nio_read_iovec, impl_nio_write_iovec, recvmsg.rs,
    sendmsg.rs, connect.rs) transcribed statement by statement, AS THEY ARE after the fix commits
    of group A (findings 15-19 repaired; 20 is not: a would-block always waits) and the repair of
    connect_eintr_spins (connect.rs), against a scripted kernel. Executable; no proofs here.

    Sizes, offsets and positions are [nat]; return values, errno and time are [Z].
    A script entry is [(dt, response)]: the kernel call first advances the (virtual) clock by [dt].
    When the script is exhausted every further kernel call fails with ECONNRESET. Recursion of
    the retry loops is structural on the script (every iteration makes exactly one kernel call). *)
From OCV Require Import Base.Prelude.
Open Scope Z_scope.

Definition EINTR : Z := 4.
Definition EAGAIN : Z := 11.
Definition ECONNRESET : Z := 104.
Definition ETIMEDOUT : Z := 110.
Definition EALREADY : Z := 114.
Definition EINPROGRESS : Z := 115.
Definition SLICE : Z := 10000000.

Inductive resp := Moved (n : nat) | WouldBlock | Interrupted | Fail (e : Z) | Done.
Definition script := list (Z * resp).
Definition range := (nat * nat * nat)%type.   (* caller segment, offset inside it, length *)

(** what the scripted kernel saw and answered for one call *)
Record request := mkReq {
  q_count : nat;            (* element count reported (iovcnt / msg_iovlen; 1 for plain buffers) *)
  q_nb : bool;              (* O_NONBLOCK as the kernel saw it during the call *)
  q_ranges : list range;    (* the array passed, translated back to the caller's buffers *)
  q_err : Z;                (* errno the kernel set: 0 = the call succeeded *)
  q_moved : nat             (* bytes the kernel moved through the ranges *)
}.

Inductive dir := Rd | Wr.
Inductive flavor := FIov | FMsg.
Inductive shape := SBuf (d : dir) | SVec (d : dir) (f : flavor) | SAccept | SConnect.

Record cfg := mkCfg {
  c_shape : shape;
  c_nb : bool;              (* the caller put the descriptor in non-blocking mode *)
  c_limit : Z;              (* SO_RCVTIMEO / SO_SNDTIMEO as the crate reads it, ns; U64MAX = none *)
  c_t0 : Z;                 (* clock at entry *)
  c_lens : list nat;        (* caller segments (plain buffer: exactly one) *)
  c_script : script;
  c_wfail : list bool       (* n-th readiness wait fails *)
}.

Definition is_rd (d : dir) : bool := match d with Rd => true | Wr => false end.

(** ** state: descriptor, errno, clock and the logs the harness observes *)
Record st := mkSt {
  s_clock : Z; s_errno : Z; s_nb : bool; s_wfail : list bool;
  s_reqs : list request; s_moved : list nat; s_waits : list Z
}.

Definition set_errno (s : st) (e : Z) : st :=
  mkSt (s_clock s) e (s_nb s) (s_wfail s) (s_reqs s) (s_moved s) (s_waits s).
Definition set_nb (s : st) (b : bool) : st :=
  mkSt (s_clock s) (s_errno s) b (s_wfail s) (s_reqs s) (s_moved s) (s_waits s).

(** let blocking = is_blocking(fd); if blocking { set_non_blocking(fd) } *)
Definition enter (s : st) : bool * st :=
  let blocking := negb (s_nb s) in
  (blocking, if blocking then set_nb s true else s).
(** if blocking { set_blocking(fd) } *)
Definition restore (blocking : bool) (s : st) : st := if blocking then set_nb s false else s.

Fixpoint sumn (l : list nat) : nat := match l with [] => O | x :: t => (x + sumn t)%nat end.
Definition stage (lens : list nat) (k : nat) : nat := sumn (firstn k lens).
Definition total (lens : list nat) : nat := sumn lens.

Definition range_positions (lens : list nat) (r : range) : list nat :=
  let '(sg, off, len) := r in seq (stage lens sg + off) len.
Definition positions (lens : list nat) (rs : list range) : list nat :=
  flat_map (range_positions lens) rs.

(** one kernel call: returns the call's result and the new state *)
Definition kcall (lens : list nat) (count : nat) (rs : list range) (x : Z * resp) (s : st) : Z * st :=
  let '(dt, rsp) := x in
  let clock := sat_add64 (s_clock s) dt in
  let '(r, e, ps) :=
    match rsp with
    | Moved n => let ps := firstn n (positions lens rs) in (Z.of_nat (length ps), 0, ps)
    | Done => (0, 0, [])
    | WouldBlock => (-1, EAGAIN, [])
    | Interrupted => (-1, EINTR, [])
    | Fail e => (-1, e, [])
    end in
  (r, mkSt clock e (s_nb s) (s_wfail s)
        (s_reqs s ++ [mkReq count (s_nb s) rs e (length ps)])
        (s_moved s ++ ps) (s_waits s)).

Definition exhausted : Z * resp := (0, Fail ECONNRESET).

(** left_time = start_time.saturating_add(limit).saturating_sub(now());
    wait_time = min(left_time, SLICE); wait_*_event(fd, Some(wait_time)) *)
Definition do_wait (limit start : Z) (s : st) : bool * Z * st :=
  let left := sat_sub (sat_add64 start limit) (s_clock s) in
  let wt := Z.min left SLICE in
  let '(fails, rest) := match s_wfail s with [] => (false, []) | b :: t => (b, t) end in
  (negb fails, left,
   mkSt (s_clock s) (s_errno s) (s_nb s) rest (s_reqs s) (s_moved s) (s_waits s ++ [wt])).

Inductive ekind := KWouldBlock | KInterrupted | KOther.
Definition classify (e : Z) : ekind :=
  if e =? EAGAIN then KWouldBlock else if e =? EINTR then KInterrupted else KOther.

Inductive outcome := ORet (r : Z) | OAbort | OStuck.

(** if moved > 0 { r = moved } *)
Definition total_or (r : Z) (moved : nat) : Z := if (0 <? moved)%nat then Z.of_nat moved else r.

(** ** impl_nio_read_buf / impl_nio_write_buf *)
Inductive bstep :=
| BExit (r : Z) (s : st)
| BAgain (received : nat) (left : Z) (r : Z) (s : st).

Definition buf_body (d : dir) (blocking : bool) (limit start : Z) (len : nat)
           (x : Z * resp) (received : nat) (left : Z) (s : st) : bstep :=
  let '(r, s1) := kcall [len] 1 [(O, received, (len - received)%nat)] x s in
  let '(brk, r2, received2, s2) :=
    if negb (r =? -1) then
      let s2 := set_errno s1 0 in                              (* reset_errno() *)
      let received2 := (received + Z.to_nat r)%nat in
      if (len <=? received2)%nat || (is_rd d && (r =? 0))
      then (true, Z.of_nat received2, received2, s2)           (* r = received; break *)
      else (false, r, received2, s2)
    else (false, r, received, s1) in
  if brk then BExit r2 s2 else
  match classify (s_errno s2) with
  | KWouldBlock =>
      (* waits whether or not the caller had made the descriptor non-blocking (finding
         nonblocking_fd_waits) *)
      let '(ok, left', s3) := do_wait limit start s2 in
      if ok then BAgain received2 left' r2 s3
      else BExit (Z.of_nat received2) s3                       (* r = received; break *)
  | KInterrupted => BAgain received2 left r2 s2
  | KOther => BExit r2 s2
  end.

Fixpoint buf_loop (d : dir) (blocking : bool) (limit start : Z) (len : nat)
         (sc : script) (received : nat) (left : Z) (r : Z) (s : st) : outcome * st :=
  if (received <? len)%nat && (0 <? left) then
    match sc with
    | [] => match buf_body d blocking limit start len exhausted received left s with
            | BExit r' s' => (ORet r', s')
            | BAgain _ _ _ s' => (OStuck, s')
            end
    | x :: sc' => match buf_body d blocking limit start len x received left s with
                  | BExit r' s' => (ORet r', s')
                  | BAgain received' left' r' s' => buf_loop d blocking limit start len sc' received' left' r' s'
                  end
    end
  else (ORet r, s).

Definition run_buf (d : dir) (limit : Z) (len : nat) (sc : script) (s : st) : outcome * st :=
  let '(blocking, s1) := enter s in
  let start := s_clock s1 in
  (* received = 0; r = 0 *)
  let '(o, s2) := buf_loop d blocking limit start len sc O limit 0 s1 in
  (o, restore blocking s2).

(** ** impl_nio_read_iovec / impl_nio_write_iovec / recvmsg / sendmsg *)
Definition entries (lens : list nat) : list range :=
  map (fun p => (fst p, O, snd p)) (combine (seq O (length lens)) lens).

Record vv := mkVV { v_received : nat; v_left : Z; v_r : Z; v_offset : nat; v_arg : list range }.

(** if 0 != offset { arg[0] = iovec { base: iovec.base + offset, len: iovec.len - offset } }
    ([iovec] is the caller's current entry; the subtraction is overflow-checked) *)
Definition shift_head (pos l offset : nat) (arg : list range) : option (list range) :=
  if (offset =? 0)%nat then Some arg
  else match arg with
       | [] => None
       | _ :: tl => if (l <? offset)%nat then None else Some ((pos, offset, (l - offset)%nat) :: tl)
       end.

Inductive vstep :=
| VReturn (r : Z) (s : st)        (* the function returned *)
| VBreak (v : vv) (s : st)        (* break out of the retry loop *)
| VAgain (v : vv) (s : st)
| VAbort.

Definition vec_body (d : dir) (fl : flavor) (blocking : bool) (limit start : Z) (lens : list nat)
           (pos l stg length : nat) (x : Z * resp) (v : vv) (s : st) : vstep :=
  match shift_head pos l (v_offset v) (v_arg v) with
  | None => VAbort
  | Some arg1 =>
    let '(r, s1) := kcall lens (List.length arg1) arg1 x s in
    if is_rd d && (r =? 0) then
      (* r = received; forget(vec); restore; return r *)
      VReturn (Z.of_nat (v_received v)) (restore blocking s1)
    else
      let '(brk, v2, s2) :=
        if negb (r =? -1) then
          let s2 := set_errno s1 0 in
          let received2 := (v_received v + Z.to_nat r)%nat in
          if (length <=? received2)%nat
          then (true, mkVV received2 (v_left v) (Z.of_nat received2) (v_offset v) arg1, s2)
          else (false,
                mkVV received2 (v_left v) r
                     (match fl with FIov => received2 - stg | FMsg => received2 - length end)%nat arg1,
                s2)
        else (false, mkVV (v_received v) (v_left v) r (v_offset v) arg1, s1) in
      if brk then VBreak v2 s2 else
      match classify (s_errno s2) with
      | KWouldBlock =>
          let '(ok, left', s3) := do_wait limit start s2 in
          if ok then VAgain (mkVV (v_received v2) left' (v_r v2) (v_offset v2) (v_arg v2)) s3
          else match fl with
               | FIov => VReturn (Z.of_nat (v_received v2)) (restore blocking s3)
               | FMsg => VReturn (total_or (v_r v2) (v_received v2)) (restore blocking s3)
               end
      | KInterrupted => VAgain v2 s2
      | KOther => VReturn (total_or (v_r v2) (v_received v2)) (restore blocking s2)
      end
  end.

Inductive wres :=
| WReturn (r : Z) (s : st)
| WDone (sc : script) (v : vv) (s : st)
| WAbort (s : st)
| WStuck (s : st).

Fixpoint vec_while (d : dir) (fl : flavor) (blocking : bool) (limit start : Z) (lens : list nat)
         (pos l stg length : nat) (sc : script) (v : vv) (s : st) : wres :=
  if (v_received v <? length)%nat && (0 <? v_left v) then
    match sc with
    | [] => match vec_body d fl blocking limit start lens pos l stg length exhausted v s with
            | VReturn r s' => WReturn r s'
            | VBreak v' s' => WDone [] v' s'
            | VAgain _ s' => WStuck s'
            | VAbort => WAbort s
            end
    | x :: sc' => match vec_body d fl blocking limit start lens pos l stg length x v s with
                  | VReturn r s' => WReturn r s'
                  | VBreak v' s' => WDone sc' v' s'
                  | VAgain v' s' => vec_while d fl blocking limit start lens pos l stg length sc' v' s'
                  | VAbort => WAbort s
                  end
    end
  else WDone sc v s.

(** for iovec in &vec { ... } and the code after it *)
Fixpoint vec_for (d : dir) (fl : flavor) (blocking : bool) (limit start : Z) (lens : list nat)
         (segs : list nat) (pos : nat) (sc : script)
         (length received : nat) (r : Z) (index : nat) (left : Z) (s : st) : outcome * st :=
  match segs with
  | [] =>
      (* forget(vec); restore; if received > 0 { r = received }; r *)
      (ORet (total_or r received), restore blocking s)
  | l :: segs' =>
      let stg := length in
      let offset := (received - length)%nat in
      let length := (length + l)%nat in
      if (length <? received)%nat then
        vec_for d fl blocking limit start lens segs' (S pos) sc length received r (S index) left s
      else
        let arg := skipn index (entries lens) in
        match vec_while d fl blocking limit start lens pos l stg length sc
                        (mkVV received left r offset arg) s with
        | WReturn r' s' => (ORet r', s')
        | WDone sc' v s' =>
            let index' := if (length <=? v_received v)%nat then S index else index in
            vec_for d fl blocking limit start lens segs' (S pos) sc' length
                    (v_received v) (v_r v) index' (v_left v) s'
        | WAbort s' => (OAbort, s')
        | WStuck s' => (OStuck, s')
        end
  end.

Definition run_vec (d : dir) (fl : flavor) (limit : Z) (lens : list nat) (sc : script) (s : st)
  : outcome * st :=
  let '(blocking, s1) := enter s in
  let start := s_clock s1 in
  (* length = 0; received = 0; r = 0; index = 0 *)
  vec_for d fl blocking limit start lens lens O sc O O 0 O limit s1.

(** ** impl_nio_read (accept): r = -1; while left_time > 0 { r = call(); ... } *)
Inductive astep := AExit (r : Z) (s : st) | AAgain (left : Z) (r : Z) (s : st).

Definition acc_body (blocking : bool) (limit start : Z) (x : Z * resp) (left : Z) (s : st) : astep :=
  let '(r, s1) := kcall [] O [] x s in
  if negb (r =? -1) then AExit r (set_errno s1 0)
  else match classify (s_errno s1) with
       | KWouldBlock =>
           let '(ok, left', s2) := do_wait limit start s1 in
           if ok then AAgain left' r s2 else AExit r s2
       | KInterrupted => AAgain left r s1
       | KOther => AExit r s1
       end.

Fixpoint acc_loop (blocking : bool) (limit start : Z) (sc : script) (left : Z) (r : Z) (s : st)
  : outcome * st :=
  if 0 <? left then
    match sc with
    | [] => match acc_body blocking limit start exhausted left s with
            | AExit r' s' => (ORet r', s')
            | AAgain _ _ s' => (OStuck, s')
            end
    | x :: sc' => match acc_body blocking limit start x left s with
                  | AExit r' s' => (ORet r', s')
                  | AAgain left' r' s' => acc_loop blocking limit start sc' left' r' s'
                  end
    end
  else (ORet r, s).

(** the scripted accept answers descriptor number 1000 + (bytes moved = 0) on success *)
Definition acc_ret (o : outcome) : outcome :=
  match o with ORet r => ORet (if r =? -1 then -1 else 1000 + r) | o => o end.

Definition run_accept (limit : Z) (sc : script) (s : st) : outcome * st :=
  let '(blocking, s1) := enter s in
  let start := s_clock s1 in
  let '(o, s2) := acc_loop blocking limit start sc limit (-1) s1 in
  (acc_ret o, restore blocking s2).

(** ** connect.rs. One kernel call, then the wait loop. The descriptor of the harness is a
    connected socket without pending error: after a successful wait getpeername and
    getsockopt(SO_ERROR) both answer 0.

    [eintr_waits] selects the code: [true] is connect.rs as it is now (an interrupted connect goes on
    asynchronously, EINTR is handled like EINPROGRESS: wait for writability, then
    getpeername/SO_ERROR); [false] is the code before that repair, whose EINTR branch neither called
    connect again nor changed anything (the loop spun for ever: OStuck). *)
Definition connect_would_block (e : Z) : bool := (e =? EINPROGRESS) || (e =? EALREADY) || (e =? EAGAIN).
Definition in_progress_gen (eintr_waits : bool) (e : Z) : bool :=
  connect_would_block e || (eintr_waits && (e =? EINTR)).
Definition in_progress : Z -> bool := in_progress_gen true.

Definition run_connect_gen (eintr_waits : bool) (limit : Z) (sc : script) (s : st) : outcome * st :=
  let '(blocking, s1) := enter s in
  let start := s_clock s1 in
  let x := match sc with [] => exhausted | x :: _ => x end in
  let '(r, s2) := kcall [] O [] x s1 in
  (* first iteration of while left_time > 0 (left_time = limit) *)
  let '(o, s3) :=
    if 0 <? limit then
      if r =? 0 then (ORet r, set_errno s2 0)
      else if in_progress_gen eintr_waits (s_errno s2) then
        let '(ok, left', s3) := do_wait limit start s2 in
        if negb ok then (ORet r, s3)
        else
          (* r = getpeername = 0; r = getsockopt = 0, err = 0; second iteration *)
          if 0 <? left' then (ORet 0, set_errno s3 0) else (ORet 0, s3)
      (* before the repair only: else if errno != EINTR { break } *)
      else if negb eintr_waits && (s_errno s2 =? EINTR) then (OStuck, s2)
      else (ORet r, s2)
    else (ORet r, s2) in
  let s4 := match o with
            | ORet r' => if (r' =? -1) && (s_errno s3 =? ETIMEDOUT) then set_errno s3 EINPROGRESS else s3
            | _ => s3
            end in
  (o, restore blocking s4).

Definition run_connect : Z -> script -> st -> outcome * st := run_connect_gen true.
(** connect.rs before the repair of [connect_eintr_spins] *)
Definition old_run_connect : Z -> script -> st -> outcome * st := run_connect_gen false.

(** ** a whole call *)
Definition init_st (c : cfg) : st := mkSt (c_t0 c) 0 (c_nb c) (c_wfail c) [] [] [].

Definition run_call (c : cfg) : outcome * st :=
  match c_shape c with
  | SBuf d => run_buf d (c_limit c) (hd O (c_lens c)) (c_script c) (init_st c)
  | SVec d fl => run_vec d fl (c_limit c) (c_lens c) (c_script c) (init_st c)
  | SAccept => run_accept (c_limit c) (c_script c) (init_st c)
  | SConnect => run_connect (c_limit c) (c_script c) (init_st c)
  end.
