(** impl_nio_read_iovec / impl_nio_write_iovec / recvmsg / sendmsg: every run ends in [Final]. *)
From OCV Require Import Base.Prelude Syscall.SockIO Syscall.SockIOOracle Syscall.SockIOProofs Syscall.SockIOInv.
From Coq Require Import ZifyBool ZifyNat.
Open Scope Z_scope.

Section Vec.
  Variable d : dir.
  Variable fl : flavor.
  Variable nb0 : bool.
  Variables limit start : Z.
  Variable lens : list nat.

  Local Notation sh := (SVec d fl).

  Lemma wb_vec : forall e, would_block sh e = (e =? EAGAIN).
  Proof. reflexivity. Qed.

  Section Segment.
    (** the retry loop for the segment at position [length pre] *)
    Variables (pre : list nat) (l : nat) (suf : list nat).
    Hypothesis Hlens : lens = pre ++ l :: suf.

    Local Notation pos := (List.length pre).
    Local Notation stg := (sumn pre).
    Local Notation len2 := (sumn pre + l)%nat.

    Definition AInv (arg : list range) (off : nat) : Prop :=
      exists h, arg = h :: ents (S pos) suf /\ (off = O -> h = (pos, O, l)).

    Lemma shift_head_ok : forall arg off, (off < l)%nat -> AInv arg off ->
      shift_head pos l off arg = Some (suffix pos off l suf).
    Proof.
      intros arg off H (h & -> & H0). unfold shift_head, suffix.
      destruct (off =? 0)%nat eqn:E.
      - assert (off = O) by lia. subst off. rewrite (H0 eq_refl), Nat.sub_0_r. reflexivity.
      - destruct (l <? off)%nat eqn:E2; [lia | reflexivity].
    Qed.

    Lemma ainv_suffix : forall off, AInv (suffix pos off l suf) off.
    Proof.
      intros off. exists (pos, off, (l - off)%nat). split; [reflexivity|].
      intros ->. now rewrite Nat.sub_0_r.
    Qed.

    Lemma total_ge : (len2 <= total lens)%nat.
    Proof. rewrite Hlens. unfold total. rewrite sumn_app. cbn [sumn]. lia. Qed.

    Definition WInv (v : vv) (s : st) : Prop :=
      Good lens sh nb0 false s (v_received v) /\ s_nb s = true /\ RW lens (v_r v) s (v_received v)
      /\ (stg <= v_received v)%nat /\ v_offset v = (v_received v - stg)%nat /\ AInv (v_arg v) (v_offset v).

    Definition WPost (v0 v : vv) (s : st) : Prop :=
      Good lens sh nb0 false s (v_received v) /\ s_nb s = true /\ RW lens (v_r v) s (v_received v)
      /\ (0 < v_left v -> (len2 <= v_received v)%nat) /\ (0 < v_left v -> 0 < v_left v0).

    Lemma vec_body_ok : forall x v s, wf_script_entry x = true ->
      WInv v s -> (v_received v < len2)%nat -> 0 < v_left v ->
      match vec_body d fl (negb nb0) limit start lens pos l stg len2 x v s with
      | VReturn r' s' => Final lens sh nb0 r' s'
      | VBreak v' s' => WPost v v' s'
      | VAgain v' s' => WInv v' s' /\ v_received v' = v_received v
                        /\ (exists e, fail_errno (snd x) = Some e /\ (e = EAGAIN \/ e = EINTR))
      | VAbort => False
      end.
    Proof.
      intros x v s W (G & NB & RWr & SG & OFF & AI) LT LF. unfold vec_body, WInv, WPost.
      rewrite OFF in *. rewrite (shift_head_ok (v_arg v) (v_received v - sumn pre)%nat ltac:(lia) AI).
      set (arg1 := suffix pos (v_received v - stg) l suf).
      assert (P : positions lens arg1 = seq (v_received v) (total lens - v_received v)).
      { unfold arg1. rewrite Hlens, positions_suffix by lia. f_equal; [lia | f_equal; lia]. }
      assert (RO : ranges_ok lens (v_received v) true arg1 = true).
      { unfold arg1. replace (v_received v) with (stg + (v_received v - stg))%nat at 1 by lia.
        rewrite Hlens. apply ranges_ok_suffix. lia. }
      assert (TG := total_ge).
      destruct (kcall_good lens sh nb0 (List.length arg1) arg1 x s (v_received v) W G NB RO eq_refl P)
        as (r & s1 & E & NB1 & [(R & NZ & LE & FE & G1) | (m & R & M & E0 & G1)]).
      - (* the call failed *)
        rewrite E. subst r. change (-1 =? 0) with false. rewrite andb_false_r.
        change (negb (-1 =? -1)) with false. cbv beta iota. cbn [v_r v_received v_offset v_arg v_left].
        assert (RW1 : RW lens (-1) s1 (v_received v)).
        { intros F0. right. repeat split; auto. lia. }
        destruct (classify_cases (s_errno s1)) as [[K Ee] | [[K Ee] | [K [Ne1 Ne2]]]]; rewrite K.
        + (* would block: waits, whatever the caller's mode *)
          destruct (do_wait limit start s1) as [[ok left'] s3] eqn:DW.
          destruct (good_wait lens sh nb0 _ _ _ _ _ _ _ _ G1 DW) as (G3 & NB3 & E3 & Q3).
          assert (RW3 : RW lens (-1) s3 (v_received v)).
          { intros F0. destruct (RW1 F0) as [? | (? & ? & ? & ?)]; [lia|]. right. rewrite Q3, E3. auto. }
          destruct ok.
          * split; [|split; [reflexivity | exists (s_errno s1); split; [exact FE | left; exact Ee]]].
            cbn [v_r v_received v_offset v_arg v_left].
            split; [exact G3|]. split; [congruence|]. split; [exact RW3|]. split; [exact SG|].
            split; [reflexivity | apply ainv_suffix].
          * destruct fl.
            -- apply final_restore. apply finalF_exact; [exact G3 | congruence].
            -- apply final_restore. eapply finalF_total_or; [exact G3 | congruence | exact RW3].
        + (* interrupted *)
          split; [|split; [reflexivity | exists (s_errno s1); split; [exact FE | right; exact Ee]]].
          unfold WInv. cbn [v_r v_received v_offset v_arg v_left].
          split; [rewrite wb_vec, Ee in G1; exact G1|]. split; [exact NB1|]. split; [exact RW1|].
          split; [exact SG|]. split; [reflexivity | apply ainv_suffix].
        + (* hard error *)
          apply final_restore.
          eapply finalF_total_or; [| exact NB1 | exact RW1].
          rewrite wb_vec in G1. replace (s_errno s1 =? EAGAIN) with false in G1 by lia. exact G1.
      - (* the call moved m bytes *)
        rewrite E. subst r.
        assert (Em : (Z.of_nat m =? -1) = false) by lia.
        destruct (is_rd d && (Z.of_nat m =? 0)) eqn:EOF.
        + (* end of stream *)
          assert (Hm : m = O) by lia. rewrite Hm, Nat.add_0_r in G1.
          apply final_restore. apply finalF_exact; assumption.
        + rewrite Em. cbn [negb]. rewrite Nat2Z.id.
          destruct (len2 <=? v_received v + m)%nat eqn:CMP; cbv beta iota.
          * (* the segment is complete: break *)
            unfold WPost. cbn [v_r v_received v_left set_errno s_reqs s_moved s_waits s_nb s_errno].
            split; [exact G1|]. split; [exact NB1|]. split; [intros F0; left; lia|].
            split; [intros _; lia | auto].
          * (* partial transfer: errno is 0, which is neither would-block nor interrupted *)
            cbn [set_errno s_errno v_r v_received]. change (classify 0) with KOther. cbv iota.
            apply final_restore.
            replace (total_or (Z.of_nat m) (v_received v + m)) with (Z.of_nat (v_received v + m)).
            -- apply finalF_exact; [exact G1 | exact NB1].
            -- unfold total_or. destruct (0 <? v_received v + m)%nat eqn:Z0; [reflexivity|].
               lia.
    Qed.

    Lemma vec_while_false : forall sc v s,
      (v_received v <? len2)%nat && (0 <? v_left v) = false ->
      vec_while d fl (negb nb0) limit start lens pos l stg len2 sc v s = WDone sc v s.
    Proof. intros sc v s H. destruct sc; cbn [vec_while]; rewrite H; reflexivity. Qed.

    Lemma vec_while_ok : forall sc v s v0, forallb wf_script_entry sc = true ->
      WInv v s -> (0 < v_left v -> 0 < v_left v0) ->
      match vec_while d fl (negb nb0) limit start lens pos l stg len2 sc v s with
      | WReturn r' s' => Final lens sh nb0 r' s'
      | WDone sc' v' s' => WPost v0 v' s' /\ forallb wf_script_entry sc' = true
      | _ => False
      end.
    Proof.
      induction sc as [|x sc IH]; intros v s v0 W WI L0.
      - destruct ((v_received v <? len2)%nat && (0 <? v_left v)) eqn:C.
        + cbn [vec_while]. rewrite C.
          pose proof (vec_body_ok exhausted v s exhausted_wf WI ltac:(lia) ltac:(lia)) as B.
          destruct (vec_body d fl (negb nb0) limit start lens pos l stg len2 exhausted v s)
            as [r' s'|v' s'|v' s'|].
          * exact B.
          * split; [|reflexivity]. destruct B as (B1 & B2 & B3 & B4 & B5).
            unfold WPost. split; [exact B1|]. split; [exact B2|]. split; [exact B3|]. split; [exact B4|].
            intros H. apply L0, B5, H.
          * destruct B as (_ & _ & e & FE & Ee). cbn in FE. inversion FE. unfold ECONNRESET, EAGAIN, EINTR in *. lia.
          * exact B.
        + rewrite vec_while_false by exact C. destruct WI as (G & NB & RWr & _).
          split; [|exact W]. unfold WPost. split; [exact G|]. split; [exact NB|]. split; [exact RWr|].
          split; [intros H; lia | exact L0].
      - cbn [forallb] in W. apply andb_true_iff in W as [Wx Wsc].
        destruct ((v_received v <? len2)%nat && (0 <? v_left v)) eqn:C.
        + cbn [vec_while]. rewrite C.
          pose proof (vec_body_ok x v s Wx WI ltac:(lia) ltac:(lia)) as B.
          destruct (vec_body d fl (negb nb0) limit start lens pos l stg len2 x v s)
            as [r' s'|v' s'|v' s'|].
          * exact B.
          * split; [|exact Wsc]. destruct B as (B1 & B2 & B3 & B4 & B5).
            unfold WPost. split; [exact B1|]. split; [exact B2|]. split; [exact B3|]. split; [exact B4|].
            intros H. apply L0, B5, H.
          * destruct B as (WI' & _ & _). apply IH; [exact Wsc | exact WI' |]. intros _. apply L0. lia.
          * exact B.
        + rewrite vec_while_false by exact C. destruct WI as (G & NB & RWr & _).
          split; [|cbn [forallb]; now rewrite Wx, Wsc]. unfold WPost.
          split; [exact G|]. split; [exact NB|]. split; [exact RWr|]. split; [intros H; lia | exact L0].
    Qed.
  End Segment.

  (** the loop over the caller's segments *)
  Lemma vec_for_ok : forall segs pre sc received r index left s,
    lens = pre ++ segs -> forallb wf_script_entry sc = true ->
    Good lens sh nb0 false s received -> s_nb s = true -> RW lens r s received ->
    (0 < left -> index = List.length pre /\ (sumn pre <= received)%nat) ->
    match vec_for d fl (negb nb0) limit start lens segs (List.length pre) sc (sumn pre) received r index left s with
    | (ORet r', s') => Final lens sh nb0 r' s'
    | _ => False
    end.
  Proof.
    induction segs as [|l suf IH]; intros pre sc received r index left s HL W G NB RWr LV; cbn [vec_for].
    - apply final_restore. eapply finalF_total_or; [exact G | exact NB | exact RWr].
    - assert (HL' : lens = (pre ++ [l]) ++ suf) by (rewrite <- app_assoc; exact HL).
      assert (LEN' : S (List.length pre) = List.length (pre ++ [l])) by (rewrite app_length; cbn; lia).
      assert (SUM' : (sumn pre + l)%nat = sumn (pre ++ [l])) by (rewrite sumn_app; cbn [sumn]; lia).
      destruct (sumn pre + l <? received)%nat eqn:SKIP.
      + rewrite LEN', SUM'. apply IH; auto. intros H. destruct (LV H) as [-> _]. split; lia.
      + set (v := mkVV received left r (received - sumn pre)%nat (skipn index (entries lens))).
        destruct ((v_received v <? sumn pre + l)%nat && (0 <? v_left v)) eqn:C.
        * (* the retry loop runs: left > 0, so the loop position is exact *)
          assert (LP : 0 < left) by (cbn [v_left v] in C; lia).
          destruct (LV LP) as [-> SG].
          assert (WI : WInv pre l suf v s).
          { unfold WInv, v. cbn [v_received v_r v_offset v_arg v_left].
            split; [exact G|]. split; [exact NB|]. split; [exact RWr|]. split; [exact SG|].
            split; [reflexivity|].
            exists (List.length pre, O, l). split.
            - rewrite entries_ents, skipn_ents, HL, skipn_app_len. reflexivity.
            - reflexivity. }
          pose proof (vec_while_ok pre l suf HL sc v s v W WI (fun H => H)) as B.
          destruct (vec_while d fl (negb nb0) limit start lens (List.length pre) l (sumn pre) (sumn pre + l) sc v s)
            as [r' s'|sc' v' s'|s'|s'].
          -- exact B.
          -- destruct B as ((G' & NB' & RW' & P1 & P2) & W').
             rewrite LEN', SUM'. apply IH; auto. intros H.
             rewrite <- SUM'. specialize (P1 H).
             assert (E : (sumn pre + l <=? v_received v')%nat = true) by lia. rewrite E. split; lia.
          -- exact B.
          -- exact B.
        * rewrite vec_while_false by exact C. cbn [v_received v_r v_left v].
          rewrite LEN', SUM'. apply IH; auto. intros H.
          destruct (LV H) as [-> SG]. cbn [v_received v_left v] in C. rewrite <- SUM'.
          assert (E : (sumn pre + l <=? received)%nat = true) by lia. rewrite E. split; lia.
  Qed.
End Vec.

Lemma run_vec_ok : forall d fl c, forallb wf_script_entry (c_script c) = true ->
  match run_vec d fl (c_limit c) (c_lens c) (c_script c) (init_st c) with
  | (ORet r, s) => Final (c_lens c) (SVec d fl) (c_nb c) r s
  | _ => False
  end.
Proof.
  intros d fl c W. unfold run_vec, enter.
  change (negb (s_nb (init_st c))) with (negb (c_nb c)).
  set (s1 := if negb (c_nb c) then set_nb (init_st c) true else init_st c).
  assert (NBe : s_nb s1 = true) by (unfold s1, init_st; destruct (c_nb c); reflexivity).
  assert (Ge : Good (c_lens c) (SVec d fl) (c_nb c) false s1 O).
  { unfold s1. destruct (negb (c_nb c)); apply (good_init (c_lens c) (SVec d fl) c). }
  apply (vec_for_ok d fl (c_nb c) (c_limit c) (s_clock s1) (c_lens c) (c_lens c) [] (c_script c) O 0 O
                    (c_limit c) s1 eq_refl W Ge NBe).
  - intros _. left. reflexivity.
  - intros _. split; [reflexivity | cbn; lia].
Qed.
