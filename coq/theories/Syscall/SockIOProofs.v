(** Proofs about the socket loop model: for every script, shape, timeout, start time, blocking
    mode and wait-failure pattern the observations of the model satisfy the oracles of C16, C17
    and C18. Invariant proofs by induction on the script / the segment list. *)
From OCV Require Import Base.Prelude Syscall.SockIO Syscall.SockIOOracle.
From Coq Require Import ZifyBool ZifyNat.
Open Scope Z_scope.

(** * lists *)
Lemma firstn_seq : forall n a c, firstn n (seq a c) = seq a (Nat.min n c).
Proof.
  induction n as [|n IH]; intros a c; [reflexivity|].
  destruct c as [|c]; [reflexivity|]. cbn [seq firstn Nat.min]. now rewrite IH.
Qed.

Lemma sumn_app : forall a b, sumn (a ++ b) = (sumn a + sumn b)%nat.
Proof. induction a as [|x a IH]; intros b; cbn [sumn app]; [reflexivity|]. rewrite IH. lia. Qed.

Lemma stage_app_len : forall pre suf, stage (pre ++ suf) (List.length pre) = sumn pre.
Proof.
  intros pre suf. unfold stage.
  replace (List.length pre) with (List.length pre + 0)%nat by lia.
  rewrite firstn_app_2. cbn [firstn]. now rewrite app_nil_r.
Qed.

Lemma fold_snoc : forall {A B} (f : A -> B -> A) l x i, fold_left f (l ++ [x]) i = f (fold_left f l i) x.
Proof. intros. now rewrite fold_left_app. Qed.

Lemma kernel_moved_snoc : forall l q, kernel_moved (l ++ [q]) = (kernel_moved l + q_moved q)%nat.
Proof. intros. unfold kernel_moved. now rewrite fold_snoc. Qed.

Lemma last_err_snoc : forall l q, last_err (l ++ [q]) = Some (q_err q).
Proof. intros. unfold last_err. now rewrite fold_snoc. Qed.

(** * the rendered read buffer *)
Lemma ids_S : forall n, ids (S n) = ids n ++ [Z.of_nat (S n)].
Proof. intros n. unfold ids. rewrite seq_S, map_app. reflexivity. Qed.

Lemma ids_length : forall n, List.length (ids n) = n.
Proof. intros. unfold ids. now rewrite map_length, seq_length. Qed.

Lemma upd_nth_middle : forall a v x b, upd_nth (List.length a) v (a ++ x :: b) = a ++ v :: b.
Proof. induction a as [|h a IH]; intros; cbn; [reflexivity|]. now rewrite IH. Qed.

Lemma render_from_seq : forall k i n, (i + k <= n)%nat ->
  render_from i (seq i k) (ids i ++ repeat 0 (n - i)) = ids (i + k) ++ repeat 0 (n - (i + k)).
Proof.
  induction k as [|k IH]; intros i n H; cbn [seq render_from].
  - now rewrite Nat.add_0_r.
  - replace (n - i)%nat with (S (n - S i)) by lia. cbn [repeat].
    assert (E : forall v R, upd_nth i v (ids i ++ 0 :: R) = ids i ++ v :: R).
    { intros v R. rewrite <- (ids_length i) at 1. apply upd_nth_middle. }
    rewrite E.
    replace (ids i ++ Z.of_nat (S i) :: repeat 0 (n - S i))
      with (ids (S i) ++ repeat 0 (n - S i)) by (rewrite ids_S, <- app_assoc; reflexivity).
    rewrite IH by lia. now replace (S i + k)%nat with (i + S k)%nat by lia.
Qed.

Lemma render_seq : forall n F, (F <= n)%nat -> render n (seq 0 F) = ids F ++ repeat 0 (n - F).
Proof.
  intros n F H. unfold render.
  change (repeat 0 n) with (ids 0 ++ repeat 0 n). replace n with (n - 0)%nat at 1 by lia.
  now rewrite render_from_seq by lia.
Qed.

Lemma list_eqb_Z_refl : forall l, list_eqb Z.eqb l l = true.
Proof. intros l. apply list_eqb_eq; [intros; apply Z.eqb_eq | reflexivity]. Qed.

(** * entries, positions, ranges *)
Fixpoint ents (k : nat) (l : list nat) : list range :=
  match l with [] => [] | x :: t => (k, O, x) :: ents (S k) t end.

Lemma entries_ents_gen : forall l k,
  map (fun p => (fst p, O, snd p)) (combine (seq k (List.length l)) l) = ents k l.
Proof. induction l as [|x l IH]; intros k; cbn; [reflexivity|]. now rewrite IH. Qed.

Lemma entries_ents : forall l, entries l = ents 0 l.
Proof. intros. apply entries_ents_gen. Qed.

Lemma skipn_ents : forall i k l, skipn i (ents k l) = ents (k + i) (skipn i l).
Proof.
  induction i as [|i IH]; intros k l; cbn [skipn].
  - now rewrite Nat.add_0_r.
  - destruct l as [|x l]; cbn [ents skipn]; [reflexivity|]. rewrite IH. f_equal. lia.
Qed.

Lemma skipn_app_len : forall {A} (a b : list A), skipn (List.length a) (a ++ b) = b.
Proof. induction a; intros; cbn; auto. Qed.

Lemma positions_ents : forall suf pre,
  positions (pre ++ suf) (ents (List.length pre) suf) = seq (sumn pre) (sumn suf).
Proof.
  induction suf as [|x suf IH]; intros pre; cbn [ents positions flat_map sumn]; [reflexivity|].
  cbn [range_positions]. rewrite stage_app_len, Nat.add_0_r.
  replace (pre ++ x :: suf) with ((pre ++ [x]) ++ suf) by (rewrite <- app_assoc; reflexivity).
  replace (S (List.length pre)) with (List.length (pre ++ [x])) by (rewrite app_length; cbn; lia).
  fold (positions ((pre ++ [x]) ++ suf) (ents (List.length (pre ++ [x])) suf)).
  rewrite IH, sumn_app. cbn [sumn]. rewrite seq_app. f_equal. f_equal. lia.
Qed.

(** the array the loops pass down when [F = sumn pre + off] bytes are filled *)
Definition suffix (pos off l : nat) (suf : list nat) : list range :=
  (pos, off, (l - off)%nat) :: ents (S pos) suf.

Lemma positions_suffix : forall pre l suf off, (off <= l)%nat ->
  positions (pre ++ l :: suf) (suffix (List.length pre) off l suf)
  = seq (sumn pre + off) (total (pre ++ l :: suf) - (sumn pre + off)).
Proof.
  intros pre l suf off H. unfold suffix, total. cbn [positions flat_map range_positions].
  rewrite stage_app_len.
  replace (pre ++ l :: suf) with ((pre ++ [l]) ++ suf) by (rewrite <- app_assoc; reflexivity).
  replace (S (List.length pre)) with (List.length (pre ++ [l])) by (rewrite app_length; cbn; lia).
  fold (positions ((pre ++ [l]) ++ suf) (ents (List.length (pre ++ [l])) suf)).
  rewrite positions_ents, !sumn_app. cbn [sumn].
  replace (sumn pre + (l + 0) + sumn suf - (sumn pre + off))%nat with ((l - off) + sumn suf)%nat by lia.
  rewrite seq_app. f_equal. f_equal. lia.
Qed.

Lemma ranges_ok_ents : forall suf pre cur, (cur <= sumn pre)%nat ->
  ranges_ok (pre ++ suf) cur false (ents (List.length pre) suf) = true.
Proof.
  induction suf as [|x suf IH]; intros pre cur H; cbn [ents ranges_ok]; [reflexivity|].
  rewrite stage_app_len, nth_middle, app_length. cbn [List.length].
  replace (pre ++ x :: suf) with ((pre ++ [x]) ++ suf) by (rewrite <- app_assoc; reflexivity).
  replace (S (List.length pre)) with (List.length (pre ++ [x])) by (rewrite app_length; cbn; lia).
  assert (E1 : (List.length pre <? List.length pre + S (List.length suf))%nat = true) by lia.
  assert (E2 : (0 + x <=? x)%nat = true) by lia.
  rewrite E1, E2. cbn [andb].
  destruct (x =? 0)%nat eqn:Ex.
  - apply IH. rewrite sumn_app. lia.
  - rewrite IH by (rewrite sumn_app; cbn [sumn]; lia).
    assert (E3 : (cur <=? sumn pre + 0)%nat = true) by lia. now rewrite E3.
Qed.

Lemma ranges_ok_suffix : forall pre l suf off, (off < l)%nat ->
  ranges_ok (pre ++ l :: suf) (sumn pre + off) true (suffix (List.length pre) off l suf) = true.
Proof.
  intros pre l suf off H. unfold suffix. cbn [ranges_ok].
  rewrite stage_app_len, nth_middle, app_length. cbn [List.length].
  assert (E1 : (List.length pre <? List.length pre + S (List.length suf))%nat = true) by lia.
  assert (E2 : (off + (l - off) <=? l)%nat = true) by lia.
  assert (E3 : (l - off =? 0)%nat = false) by lia.
  assert (E4 : (sumn pre + off =? sumn pre + off)%nat = true) by lia.
  rewrite E1, E2, E3, E4. cbn [andb].
  replace (pre ++ l :: suf) with ((pre ++ [l]) ++ suf) by (rewrite <- app_assoc; reflexivity).
  replace (S (List.length pre)) with (List.length (pre ++ [l])) by (rewrite app_length; cbn; lia).
  apply ranges_ok_ents. rewrite sumn_app. cbn [sumn]. lia.
Qed.

Lemma suffix_length : forall pos off l suf, List.length (suffix pos off l suf) = S (List.length suf).
Proof.
  intros. unfold suffix. cbn [List.length]. f_equal.
  generalize (S pos). induction suf as [|x suf IH]; intros k; cbn; [reflexivity|]. now rewrite IH.
Qed.
