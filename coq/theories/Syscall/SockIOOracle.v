(** C16, C17, C18 as executable oracles over what the harness observes of one hooked call:
    return value, errno, the scripted kernel's request log (with what it answered and moved), the
    caller's buffers / the bytes the kernel consumed, the readiness waits requested, O_NONBLOCK
    afterwards. The oracles read the inputs and the observation only. *)
From OCV Require Import Base.Prelude Syscall.SockIO.
Open Scope Z_scope.

Record obs := mkObs {
  o_ret : Z;
  o_errno : Z;                 (* meaningful when o_ret = -1, else 0 *)
  o_reqs : list request;
  o_data : list Z;             (* read side: caller buffers flattened; write side: bytes consumed *)
  o_waits : list Z;            (* timeout (ns) of every readiness wait requested *)
  o_nb_after : bool;
  o_scribbled : bool           (* memory outside the caller's segments was written *)
}.

Inductive result := RObs (o : obs) | RAborted | RDiverged | RLost.

(** ** model run as an observation *)
Definition upd_nth := fix upd (p : nat) (v : Z) (l : list Z) : list Z :=
  match l, p with
  | [], _ => []
  | _ :: t, O => v :: t
  | h :: t, S p' => h :: upd p' v t
  end.

Fixpoint render_from (i : nat) (moved : list nat) (buf : list Z) : list Z :=
  match moved with
  | [] => buf
  | p :: m => render_from (S i) m (upd_nth p (Z.of_nat (S i)) buf)
  end.
(** stream byte i (value i+1) lands at the i-th position the kernel touched *)
Definition render (tot : nat) (moved : list nat) : list Z := render_from O moved (repeat 0 tot).

Definition shape_dir (sh : shape) : option dir :=
  match sh with SBuf d => Some d | SVec d _ => Some d | _ => None end.

Definition data_of (c : cfg) (moved : list nat) : list Z :=
  match shape_dir (c_shape c) with
  | Some Rd => render (total (c_lens c)) moved
  | Some Wr => map (fun p => Z.of_nat (S p)) moved
  | None => []
  end.

Definition run_obs (c : cfg) : result :=
  match run_call c with
  | (ORet r, s) =>
      RObs (mkObs r (if r =? -1 then s_errno s else 0) (s_reqs s) (data_of c (s_moved s))
                  (s_waits s) (s_nb s) false)
  | (OAbort, _) => RAborted
  | (OStuck, _) => RDiverged
  end.

(** ** equality of observations (correspondence) *)
Definition nat_eqb := Nat.eqb.
Definition range_eqb (a b : range) : bool :=
  let '(a1, a2, a3) := a in let '(b1, b2, b3) := b in
  Nat.eqb a1 b1 && Nat.eqb a2 b2 && Nat.eqb a3 b3.
Definition req_eqb (a b : request) : bool :=
  Nat.eqb (q_count a) (q_count b) && Bool.eqb (q_nb a) (q_nb b)
  && list_eqb range_eqb (q_ranges a) (q_ranges b) && (q_err a =? q_err b)
  && Nat.eqb (q_moved a) (q_moved b).
Definition obs_eqb (a b : obs) : bool :=
  (o_ret a =? o_ret b) && (o_errno a =? o_errno b) && list_eqb req_eqb (o_reqs a) (o_reqs b)
  && list_eqb Z.eqb (o_data a) (o_data b) && list_eqb Z.eqb (o_waits a) (o_waits b)
  && Bool.eqb (o_nb_after a) (o_nb_after b) && Bool.eqb (o_scribbled a) (o_scribbled b).
Definition result_eqb (a b : result) : bool :=
  match a, b with
  | RObs x, RObs y => obs_eqb x y
  | RAborted, RAborted => true
  | RDiverged, RDiverged => true
  | _, _ => false
  end.

(** ** inputs the real entry points accept and the harness generates *)
Definition wf_script_entry (x : Z * resp) : bool :=
  (0 <=? fst x) && match snd x with Fail e => negb (e =? 0) | _ => true end.
(** what the entry points accept *)
Definition wf_input (c : cfg) : bool :=
  (1 <=? c_limit c) && (c_limit c <=? U64MAX) && in_u64 (c_t0 c)
  && forallb wf_script_entry (c_script c)
  && match c_shape c with
     | SBuf _ => Nat.eqb (List.length (c_lens c)) 1
     | _ => true
     end.
(** every accepted input is generated and judged (the former exclusion of an interrupted connect is
    gone with the repair of [connect_eintr_spins]) *)
Definition wf (c : cfg) : bool := wf_input c.

(** known finding [nonblocking_fd_waits]: the model run requests a readiness wait on a descriptor
    the caller had put in non-blocking mode *)
Definition defect_nonblocking_fd_waits (c : cfg) : bool :=
  c_nb c && match s_waits (snd (run_call c)) with [] => false | _ => true end.
Definition no_defect (c : cfg) : bool := negb (defect_nonblocking_fd_waits c).
Definition moves_bytes (c : cfg) : bool :=
  match shape_dir (c_shape c) with Some _ => true | None => false end.

(** ** C16 *)
Definition ids (n : nat) : list Z := map (fun i => Z.of_nat (S i)) (seq O n).
Definition kernel_moved (reqs : list request) : nat := fold_left (fun a q => (a + q_moved q)%nat) reqs O.
Definition last_err (reqs : list request) : option Z :=
  fold_left (fun _ q => Some (q_err q)) reqs None.

(** the caller's memory holds exactly the first [n] stream bytes, in order, nothing else
    (read side); the kernel consumed exactly the first [n] bytes of the caller's buffers (write side) *)
Definition data_in_order (c : cfg) (n : nat) (data : list Z) : bool :=
  match shape_dir (c_shape c) with
  | Some Rd => list_eqb Z.eqb data (ids n ++ repeat 0 (total (c_lens c) - n))
  | Some Wr => list_eqb Z.eqb data (ids n)
  | None => true
  end.

Definition ok_C16_obs (c : cfg) (o : obs) : bool :=
  let km := kernel_moved (o_reqs o) in
  negb (o_scribbled o) &&
  if o_ret o =? -1 then
    (* -1 only if nothing moved, the request was not of zero length, errno of the failing call *)
    Nat.eqb km O && data_in_order c O (o_data o) && (0 <? total (c_lens c))%nat
    && option_eqb Z.eqb (last_err (o_reqs o)) (Some (o_errno o)) && negb (o_errno o =? 0)
  else
    (0 <=? o_ret o) && (o_ret o =? Z.of_nat km) && data_in_order c km (o_data o).

Definition ok_C16 (c : cfg) (r : result) : bool :=
  match r with RObs o => ok_C16_obs c o | _ => false end.

(** ** C17 *)
(** [cur] = first flattened position a non-empty range may start at (everything before it is
    filled / sent, or was described by an earlier range of the same request); the first non-empty
    range of a request ([exact]) starts exactly at the first unfilled position *)
Fixpoint ranges_ok (lens : list nat) (cur : nat) (exact : bool) (rs : list range) : bool :=
  match rs with
  | [] => true
  | (sg, off, len) :: rs' =>
      (sg <? List.length lens)%nat && (off + len <=? nth sg lens O)%nat
      && if (len =? 0)%nat then ranges_ok lens cur exact rs'
         else (if exact then (cur =? stage lens sg + off)%nat else (cur <=? stage lens sg + off)%nat)
              && ranges_ok lens (stage lens sg + off + len) false rs'
  end.

Definition req_ok (lens : list nat) (filled : nat) (q : request) : bool :=
  ranges_ok lens filled true (q_ranges q) && Nat.eqb (q_count q) (List.length (q_ranges q)).

Definition c17_step (lens : list nat) (a : bool * nat) (q : request) : bool * nat :=
  (fst a && req_ok lens (snd a) q, (snd a + q_moved q)%nat).

Definition ok_C17_obs (c : cfg) (o : obs) : bool :=
  fst (fold_left (c17_step (c_lens c)) (o_reqs o) (true, O)).

Definition ok_C17 (c : cfg) (r : result) : bool :=
  match r with RObs o => ok_C17_obs c o | _ => false end.

(** ** C18 *)
(** errno values with which the kernel says "this would block" (EINTR is not one of them) *)
Definition would_block (sh : shape) (e : Z) : bool :=
  match sh with SConnect => connect_would_block e | _ => e =? EAGAIN end.

(** no kernel call follows one that would have blocked *)
Definition c18_step (sh : shape) (a : bool * bool) (q : request) : bool * bool :=
  (fst a && negb (snd a), snd a || would_block sh (q_err q)).

Definition ok_C18_obs (c : cfg) (o : obs) : bool :=
  Bool.eqb (o_nb_after o) (c_nb c) &&
  if c_nb c then
    match o_waits o with [] => true | _ => false end
    && let '(ok, wb) := fold_left (c18_step (c_shape c)) (o_reqs o) (true, false) in
       ok && if wb && Nat.eqb (kernel_moved (o_reqs o)) O
             then (o_ret o =? -1) && option_eqb Z.eqb (last_err (o_reqs o)) (Some (o_errno o))
             else true
  else true.

Definition ok_C18 (c : cfg) (r : result) : bool :=
  match r with RObs o => ok_C18_obs c o | _ => false end.
