(** C19 proofs: on every history inside the statement the model never aborts and every limit it
    hands out is the limit of the socket's current option (invariant: a cache entry exists only for a
    live socket and equals [get_time_limit] of that socket's option). *)
From OCV Require Import Base.Prelude Misc.Time Misc.TimeProofs Syscall.SockOpt Syscall.SockOptOracle.
From Coq Require Import ZifyBool ZifyNat FinFun.
Open Scope Z_scope.

(** * Association lists *)

Lemma alookup_aremove_eq {A} k (l : list (Z * A)) : alookup k (aremove k l) = None.
Proof.
  induction l as [|[k' v] l IH]; cbn [aremove alookup]; [reflexivity|].
  destruct (k' =? k) eqn:E; [exact IH|]. cbn [alookup]. rewrite E. exact IH.
Qed.

Lemma alookup_aremove_neq {A} k k' (l : list (Z * A)) :
  k <> k' -> alookup k' (aremove k l) = alookup k' l.
Proof.
  intros Hn. induction l as [|[k0 v] l IH]; cbn [aremove alookup]; [reflexivity|].
  destruct (k0 =? k) eqn:E.
  - destruct (k0 =? k') eqn:E'; [lia|exact IH].
  - cbn [alookup]. destruct (k0 =? k'); [reflexivity|exact IH].
Qed.

Lemma alookup_ainsert_eq {A} k (v : A) l : alookup k (ainsert k v l) = Some v.
Proof.
  induction l as [|[k' v'] l IH]; cbn [ainsert alookup].
  - rewrite Z.eqb_refl. reflexivity.
  - destruct (k' =? k) eqn:E; cbn [alookup].
    + rewrite Z.eqb_refl. reflexivity.
    + rewrite E. exact IH.
Qed.

Lemma alookup_ainsert_neq {A} k k' (v : A) l :
  k <> k' -> alookup k' (ainsert k v l) = alookup k' l.
Proof.
  intros Hn. induction l as [|[k0 v0] l IH]; cbn [ainsert alookup].
  - destruct (k =? k') eqn:E; [lia|reflexivity].
  - destruct (k0 =? k) eqn:E; cbn [alookup].
    + destruct (k =? k') eqn:E1; [lia|]. destruct (k0 =? k') eqn:E2; [lia|reflexivity].
    + destruct (k0 =? k'); [reflexivity|exact IH].
Qed.

Lemma amem_keys {A} k (l : list (Z * A)) : amem k l = true <-> In k (map fst l).
Proof.
  unfold amem. induction l as [|[k' v] l IH]; cbn [alookup map fst In].
  - split; [discriminate|tauto].
  - destruct (k' =? k) eqn:E.
    + split; [intros _; left; lia|reflexivity].
    + rewrite IH. split; [tauto|intros [H|H]; [lia|exact H]].
Qed.

Lemma amem_same_keys {A B} k (l1 : list (Z * A)) (l2 : list (Z * B)) :
  map fst l1 = map fst l2 -> amem k l1 = amem k l2.
Proof.
  intros H. destruct (amem k l1) eqn:E1; destruct (amem k l2) eqn:E2; try reflexivity.
  - apply amem_keys in E1. rewrite H in E1. apply amem_keys in E1. congruence.
  - apply amem_keys in E2. rewrite <- H in E2. apply amem_keys in E2. congruence.
Qed.

Lemma aremove_same_keys {A B} k (l1 : list (Z * A)) : forall (l2 : list (Z * B)),
  map fst l1 = map fst l2 -> map fst (aremove k l1) = map fst (aremove k l2).
Proof.
  induction l1 as [|[k1 v1] l1 IH]; intros [|[k2 v2] l2] H; cbn [map fst] in H; try discriminate.
  - reflexivity.
  - inversion H; subst. cbn [aremove]. destruct (k2 =? k).
    + apply IH; assumption.
    + cbn [map fst]. f_equal. apply IH; assumption.
Qed.

Lemma ainsert_same_keys {A B} k (v1 : A) (v2 : B) l1 : forall l2,
  map fst l1 = map fst l2 -> map fst (ainsert k v1 l1) = map fst (ainsert k v2 l2).
Proof.
  induction l1 as [|[k1 x1] l1 IH]; intros [|[k2 x2] l2] H; cbn [map fst] in H; try discriminate.
  - reflexivity.
  - inversion H; subst. cbn [ainsert]. destruct (k2 =? k); cbn [map fst].
    + congruence.
    + f_equal. apply IH; assumption.
Qed.

Lemma ainsert_present_keys {A} k (v : A) l :
  alookup k l <> None -> map fst (ainsert k v l) = map fst l.
Proof.
  induction l as [|[k' v'] l IH]; cbn [alookup ainsert]; intros H; [congruence|].
  destruct (k' =? k) eqn:E; cbn [map fst].
  - f_equal. lia.
  - f_equal. apply IH; assumption.
Qed.

Lemma aremove_absent {A} k (l : list (Z * A)) : alookup k l = None -> aremove k l = l.
Proof.
  induction l as [|[k' v'] l IH]; cbn [alookup aremove]; intros H; [reflexivity|].
  destruct (k' =? k); [discriminate|]. f_equal. apply IH; assumption.
Qed.

(** * The lowest free descriptor is free *)

Lemma scan_free_same_keys {A B} f : forall k (l1 : list (Z * A)) (l2 : list (Z * B)),
  map fst l1 = map fst l2 -> scan_free f k l1 = scan_free f k l2.
Proof.
  induction f as [|f IH]; intros k l1 l2 H; cbn [scan_free]; [reflexivity|].
  rewrite (amem_same_keys k l1 l2 H). destruct (amem k l2); [apply IH; assumption|reflexivity].
Qed.

Lemma lowest_free_same_keys {A B} (l1 : list (Z * A)) (l2 : list (Z * B)) :
  map fst l1 = map fst l2 -> lowest_free l1 = lowest_free l2.
Proof.
  intros H. unfold lowest_free.
  assert (length l1 = length l2) as ->.
  { rewrite <- (map_length fst l1), <- (map_length fst l2), H. reflexivity. }
  apply scan_free_same_keys; assumption.
Qed.

Lemma scan_free_spec {A} f : forall k (l : list (Z * A)),
  amem (scan_free f k l) l = false \/
  (scan_free f k l = k + Z.of_nat f /\ forall j, k <= j < k + Z.of_nat f -> amem j l = true).
Proof.
  induction f as [|f IH]; intros k l; cbn [scan_free].
  - right. split; [lia|intros j Hj; lia].
  - destruct (amem k l) eqn:E; [|left; exact E].
    destruct (IH (k + 1) l) as [Hf|[Hr Hall]]; [left; exact Hf|].
    right. split; [lia|]. intros j Hj.
    destruct (Z.eq_dec j k) as [->|Hne]; [exact E|apply Hall; lia].
Qed.

Lemma lowest_free_fresh {A} (l : list (Z * A)) : alookup (lowest_free l) l = None.
Proof.
  unfold lowest_free.
  destruct (scan_free_spec (S (length l)) 0 l) as [Hf|[_ Hall]].
  - unfold amem in Hf. destruct (alookup _ l); [discriminate|reflexivity].
  - exfalso.
    set (n := S (length l)) in *.
    assert (Hincl : incl (map Z.of_nat (seq 0 n)) (map fst l)).
    { intros j Hj. apply in_map_iff in Hj as (i & <- & Hi). apply in_seq in Hi.
      apply amem_keys. apply Hall. lia. }
    assert (Hnd : NoDup (map Z.of_nat (seq 0 n))).
    { apply FinFun.Injective_map_NoDup; [intros a b Hab; lia|apply seq_NoDup]. }
    pose proof (NoDup_incl_length Hnd Hincl) as Hlen.
    rewrite !map_length, seq_length in Hlen. subst n. lia.
Qed.

(** * get_time_limit agrees with the specification's [limit_of] on kernel values *)

Lemma get_time_limit_limit_of sec usec :
  0 <= sec -> 0 <= usec -> get_time_limit sec usec = Some (limit_of (sec, usec)).
Proof.
  intros Hs Hu. destruct (time_limit_spec sec usec Hs Hu) as (t & Ht & Hz & Hnz & _).
  rewrite Ht. f_equal. unfold limit_of. cbn [fst snd].
  destruct (sec <? 0) eqn:En; [lia|].
  destruct ((sec =? 0) && (usec =? 0)) eqn:E.
  - apply Hz. lia.
  - apply Hnz. lia.
Qed.

(** what the hook caches for an accepted value is the limit of what the kernel stored *)
Lemma get_time_limit_kernel_store sec usec :
  0 <= usec -> get_time_limit sec usec = Some (limit_of (kernel_store sec usec)).
Proof.
  intros Hu. unfold kernel_store. destruct (sec <? 0) eqn:E.
  - rewrite time_limit_negative_sec by lia. reflexivity.
  - apply get_time_limit_limit_of; lia.
Qed.

Lemma time_limit_of_current sec usec : time_limit_of current sec usec = get_time_limit sec usec.
Proof. reflexivity. Qed.

(** * The invariant *)

(** a stored option is a non-negative time value or the zero-timeout marker *)
Definition tv_ok (t : tv) : Prop := (0 <= fst t /\ 0 <= snd t) \/ t = ZERO_TIMEOUT.

Lemma tv_ok_kernel_store sec usec : 0 <= usec -> tv_ok (kernel_store sec usec).
Proof.
  intros Hu. unfold kernel_store, tv_ok. destruct (sec <? 0) eqn:E; [right; reflexivity|left; cbn [fst snd]; lia].
Qed.

Lemma tv_ok_nonneg t : tv_ok t -> ~ fst t < 0 -> 0 <= fst t /\ 0 <= snd t.
Proof. intros [H | ->] Hn; [exact H|]. exfalso. apply Hn. cbn. lia. Qed.

Lemma read_back_nonneg t : 0 <= fst t -> read_back t = t.
Proof. intros H. unfold read_back. destruct (fst t <? 0) eqn:E; [lia|reflexivity]. Qed.

Record inv (s : state) (tr : tracker) (l : live) : Prop := {
  inv_tr : tr = st_open s;
  inv_live : map fst l = map fst (st_open s);
  inv_shape : forall fd o, alookup fd (st_open s) = Some o -> forall w, tv_ok (sel w o);
  (* a cache entry exists only for a live socket and is the limit of its current option *)
  inv_cache : forall w fd v, alookup fd (cache w s) = Some v ->
     exists o, alookup fd (st_open s) = Some o /\ v = limit_of (sel w o);
  (* a zero timeout, which getsockopt cannot tell from "no timeout", is always cached *)
  inv_zero : forall w fd o, alookup fd (st_open s) = Some o -> fst (sel w o) < 0 ->
     alookup fd (cache w s) <> None
}.

Lemma inv_init : inv init [] [].
Proof.
  split; try reflexivity.
  - intros fd o H; discriminate.
  - intros [] fd v H; discriminate.
  - intros w fd o H; discriminate.
Qed.

Lemma sel_upd_same w t o : sel w (upd w t o) = t.
Proof. destruct w; reflexivity. Qed.

Lemma sel_upd_other w w' t o : w <> w' -> sel w' (upd w t o) = sel w' o.
Proof. destruct w, w'; intros H; try reflexivity; congruence. Qed.

Lemma cache_set_cache_same w c s : cache w (set_cache w c s) = c.
Proof. destruct w; reflexivity. Qed.

Lemma cache_set_cache_other w w' c s : w <> w' -> cache w' (set_cache w c s) = cache w' s.
Proof. destruct w, w'; intros H; try reflexivity; congruence. Qed.

Lemma open_set_cache w c s : st_open (set_cache w c s) = st_open s.
Proof. destruct w; reflexivity. Qed.

Lemma cache_set_open w o s : cache w (set_open o s) = cache w s.
Proof. destruct w; reflexivity. Qed.

Lemma cache_evicted w fd o s :
  cache w {| st_open := o; st_rc := aremove fd (st_rc s); st_sc := aremove fd (st_sc s) |}
  = aremove fd (cache w s).
Proof. destruct w; reflexivity. Qed.

Lemma which_dec (w w' : which) : {w = w'} + {w <> w'}.
Proof. decide equality. Qed.

Lemma alookup_ainsert_keeps {A} k k' (v : A) l :
  alookup k' l <> None -> alookup k' (ainsert k v l) <> None.
Proof.
  intros H. destruct (Z.eq_dec k k') as [<-|Hne].
  - rewrite alookup_ainsert_eq. discriminate.
  - rewrite alookup_ainsert_neq by assumption. exact H.
Qed.

(** One step of any history inside the statement (negative [tv_sec] and dead descriptors included):
    no abort, the oracle accepts the observation, and the invariant is re-established for the
    successor state, the tracker driven by that observation, and the well-formedness tracker. *)
Ltac four := split; [discriminate | split; [discriminate | split]].

Lemma step_ok s tr l a :
  inv s tr l -> fst (wf_step l a) = true ->
  let '(s', r, _) := step s a in
  r <> OAbort /\ r <> ODiverged /\ ok_step tr a r = true /\
  inv s' (track_step tr (a, r)) (snd (wf_step l a)).
Proof.
  intros [Htr Hlive Hsh Hc Hz] Hwf. subst tr. unfold step.
  destruct a as [|fd w sec usec|fd w|fd w|fd]; cbn [step_gen wf_step fst snd] in *.
  - (* Socket *)
    pose proof (lowest_free_fresh (st_open s)) as Hfresh.
    four; [reflexivity|]. cbn [track_step]. constructor.
    + reflexivity.
    + cbn [st_open set_open]. rewrite (lowest_free_same_keys l (st_open s) Hlive).
      apply ainsert_same_keys; assumption.
    + cbn [st_open set_open]. intros fd' o Hl w.
      destruct (Z.eq_dec (lowest_free (st_open s)) fd') as [<-|Hne].
      * rewrite alookup_ainsert_eq in Hl. inversion Hl; subst. left. destruct w; cbn [sel fst snd]; lia.
      * rewrite alookup_ainsert_neq in Hl by assumption. eapply Hsh; eassumption.
    + intros w fd' v Hl. rewrite cache_set_open in Hl.
      destruct (Hc w fd' v Hl) as (o & Ho & Hg).
      exists o. split; [|exact Hg]. cbn [st_open set_open].
      rewrite alookup_ainsert_neq; [exact Ho|]. intros <-. congruence.
    + intros w fd' o Hl Hneg. rewrite cache_set_open. cbn [st_open set_open] in Hl.
      destruct (Z.eq_dec (lowest_free (st_open s)) fd') as [<-|Hne].
      * rewrite alookup_ainsert_eq in Hl. inversion Hl; subst o. destruct w; cbn [sel fst snd] in Hneg; lia.
      * rewrite alookup_ainsert_neq in Hl by assumption. eapply Hz; eassumption.
  - (* SetOpt *)
    destruct (alookup fd (st_open s)) as [o|] eqn:Ho.
    + destruct ((usec <? 0) || (1000000 <=? usec)) eqn:Eus.
      * (* EDOM *)
        four; [reflexivity|]. cbn [track_step]. constructor; try assumption. reflexivity.
      * assert (Hu : 0 <= usec) by lia.
        rewrite time_limit_of_current, (get_time_limit_kernel_store sec usec Hu).
        set (ks := kernel_store sec usec).
        assert (Hks : tv_ok ks) by (apply tv_ok_kernel_store; exact Hu).
        four; [reflexivity|]. cbn [track_step]. rewrite Z.eqb_refl, Ho. fold ks. constructor.
        -- rewrite open_set_cache. reflexivity.
        -- rewrite open_set_cache. cbn [st_open set_open].
           rewrite Hlive. symmetry. apply ainsert_present_keys. congruence.
        -- rewrite open_set_cache. cbn [st_open set_open]. intros fd' o' Hl w'.
           destruct (Z.eq_dec fd fd') as [<-|Hne].
           ++ rewrite alookup_ainsert_eq in Hl. inversion Hl; subst o'.
              destruct (which_dec w w') as [<-|Hw].
              ** rewrite sel_upd_same. exact Hks.
              ** rewrite sel_upd_other by assumption. eapply Hsh; eassumption.
           ++ rewrite alookup_ainsert_neq in Hl by assumption. eapply Hsh; eassumption.
        -- rewrite open_set_cache. cbn [st_open set_open]. intros w' fd' v' Hl.
           destruct (which_dec w w') as [<-|Hw].
           ++ rewrite cache_set_cache_same, cache_set_open in Hl.
              destruct (Z.eq_dec fd fd') as [<-|Hne].
              ** rewrite alookup_ainsert_eq in Hl. inversion Hl; subst v'.
                 eexists. split; [apply alookup_ainsert_eq|].
                 rewrite sel_upd_same. reflexivity.
              ** rewrite alookup_ainsert_neq in Hl by assumption.
                 destruct (Hc w fd' v' Hl) as (o' & Ho' & Hg').
                 exists o'. split; [|exact Hg']. rewrite alookup_ainsert_neq; assumption.
           ++ rewrite cache_set_cache_other, cache_set_open in Hl by assumption.
              destruct (Hc w' fd' v' Hl) as (o' & Ho' & Hg').
              destruct (Z.eq_dec fd fd') as [<-|Hne].
              ** eexists. split; [apply alookup_ainsert_eq|].
                 rewrite sel_upd_other by assumption. congruence.
              ** exists o'. split; [|exact Hg']. rewrite alookup_ainsert_neq; assumption.
        -- rewrite open_set_cache. cbn [st_open set_open]. intros w' fd' o' Hl Hneg.
           destruct (which_dec w w') as [<-|Hw].
           ++ rewrite cache_set_cache_same, cache_set_open.
              destruct (Z.eq_dec fd fd') as [<-|Hne].
              ** rewrite alookup_ainsert_eq. discriminate.
              ** rewrite alookup_ainsert_neq in Hl by assumption.
                 rewrite alookup_ainsert_neq by assumption. eapply Hz; eassumption.
           ++ rewrite cache_set_cache_other, cache_set_open by assumption.
              destruct (Z.eq_dec fd fd') as [<-|Hne].
              ** rewrite alookup_ainsert_eq in Hl. inversion Hl; subst o'.
                 rewrite sel_upd_other in Hneg by assumption. eapply Hz; eassumption.
              ** rewrite alookup_ainsert_neq in Hl by assumption. eapply Hz; eassumption.
    + (* EBADF *)
      four; [reflexivity|]. cbn [track_step]. constructor; try assumption. reflexivity.
  - (* Limit *)
    destruct (alookup fd (cache w s)) as [v|] eqn:Ec.
    + (* cached *)
      destruct (Hc w fd v Ec) as (o & Ho & Hg). subst v.
      four.
      * cbn [ok_step]. rewrite Ho. apply Z.eqb_refl.
      * cbn [track_step]. constructor; try assumption. reflexivity.
    + destruct (alookup fd (st_open s)) as [o|] eqn:Ho.
      * (* first use on a live socket: the option is read and cached *)
        assert (Hnn : ~ fst (sel w o) < 0).
        { intros Hneg. apply (Hz w fd o Ho Hneg). exact Ec. }
        destruct (tv_ok_nonneg _ (Hsh fd o Ho w) Hnn) as [H1 H2].
        rewrite (read_back_nonneg _ H1), time_limit_of_current.
        rewrite (get_time_limit_limit_of _ _ H1 H2).
        replace (fst (sel w o), snd (sel w o)) with (sel w o) by (destruct (sel w o); reflexivity).
        four.
        -- cbn [ok_step]. rewrite Ho. apply Z.eqb_refl.
        -- cbn [track_step]. constructor.
           ++ rewrite open_set_cache. reflexivity.
           ++ rewrite open_set_cache. assumption.
           ++ rewrite open_set_cache. assumption.
           ++ rewrite open_set_cache. intros w' fd' v' Hl.
              destruct (which_dec w w') as [<-|Hw].
              ** rewrite cache_set_cache_same in Hl.
                 destruct (Z.eq_dec fd fd') as [<-|Hne].
                 --- rewrite alookup_ainsert_eq in Hl. inversion Hl; subst v'.
                     exists o. split; [exact Ho|reflexivity].
                 --- rewrite alookup_ainsert_neq in Hl by assumption. apply Hc; assumption.
              ** rewrite cache_set_cache_other in Hl by assumption. apply Hc; assumption.
           ++ rewrite open_set_cache. intros w' fd' o' Hl Hneg.
              destruct (which_dec w w') as [<-|Hw].
              ** rewrite cache_set_cache_same. apply alookup_ainsert_keeps. eapply Hz; eassumption.
              ** rewrite cache_set_cache_other by assumption. eapply Hz; eassumption.
      * (* dead descriptor: "no limit", nothing cached *)
        cbn [current v_badfd_panics].
        four.
        -- cbn [ok_step]. rewrite Ho. reflexivity.
        -- cbn [track_step]. constructor; try assumption. reflexivity.
  - (* KGet *)
    destruct (alookup fd (st_open s)) as [o|] eqn:Ho.
    + four; [reflexivity|]. cbn [track_step]. constructor; try assumption. reflexivity.
    + four; [reflexivity|]. cbn [track_step]. constructor; try assumption. reflexivity.
  - (* Close *)
    destruct (alookup fd (st_open s)) as [o|] eqn:Ho.
    + four; [reflexivity|]. cbn [track_step]. rewrite Z.eqb_refl. constructor.
      * reflexivity.
      * cbn [st_open set_open]. apply aremove_same_keys; assumption.
      * cbn [st_open set_open]. intros fd' o' Hl w'.
        destruct (Z.eq_dec fd fd') as [<-|Hne].
        -- rewrite alookup_aremove_eq in Hl. discriminate.
        -- rewrite alookup_aremove_neq in Hl by assumption. eapply Hsh; eassumption.
      * intros w' fd' v' Hl. rewrite cache_set_open, cache_evicted in Hl. cbn [st_open set_open].
        destruct (Z.eq_dec fd fd') as [<-|Hne].
        -- rewrite alookup_aremove_eq in Hl. discriminate.
        -- rewrite alookup_aremove_neq in Hl by assumption.
           rewrite alookup_aremove_neq by assumption. apply Hc. exact Hl.
      * intros w' fd' o' Hl Hneg. rewrite cache_set_open, cache_evicted. cbn [st_open set_open] in Hl.
        destruct (Z.eq_dec fd fd') as [<-|Hne].
        -- rewrite alookup_aremove_eq in Hl. discriminate.
        -- rewrite alookup_aremove_neq in Hl by assumption.
           rewrite alookup_aremove_neq by assumption. eapply Hz; eassumption.
    + four; [reflexivity|]. cbn [track_step].
      replace (-1 =? 0) with false by reflexivity. constructor.
      * reflexivity.
      * cbn [st_open].
        (* the descriptor is not live: removing it from the wf tracker changes nothing *)
        rewrite (aremove_same_keys fd l (st_open s) Hlive). rewrite (aremove_absent _ _ Ho). reflexivity.
      * cbn [st_open]. assumption.
      * intros w' fd' v' Hl. rewrite cache_evicted in Hl. cbn [st_open].
        destruct (Z.eq_dec fd fd') as [<-|Hne].
        -- rewrite alookup_aremove_eq in Hl. discriminate.
        -- rewrite alookup_aremove_neq in Hl by assumption. apply Hc. exact Hl.
      * intros w' fd' o' Hl Hneg. rewrite cache_evicted. cbn [st_open] in Hl.
        destruct (Z.eq_dec fd fd') as [<-|Hne].
        -- congruence.
        -- rewrite alookup_aremove_neq by assumption. eapply Hz; eassumption.
Qed.

(** * Whole histories *)

Lemma run_ok : forall ops s tr l,
  inv s tr l -> wf_from l ops = true ->
  ok_from tr ops (run_from s ops) = true /\
  ~ In OAbort (run_from s ops) /\ ~ In ODiverged (run_from s ops) /\
  length (run_from s ops) = length ops.
Proof.
  induction ops as [|a ops IH]; intros s tr l Hinv Hwf.
  - cbn. tauto.
  - cbn [wf_from] in Hwf.
    pose proof (step_ok s tr l a Hinv) as Hstep.
    destruct (wf_step l a) as [b l'] eqn:Ewf. cbn [fst snd] in Hstep.
    apply andb_true_iff in Hwf as [Hb Hwf']. subst b.
    specialize (Hstep eq_refl).
    unfold run_from. cbn [run_from_gen]. fold (step s a). destruct (step s a) as [[s' r] t].
    fold (run_from s' ops).
    destruct Hstep as (Hna & Hndv & Hok & Hinv').
    destruct (IH s' _ l' Hinv' Hwf') as (IH1 & IH2 & IH3 & IH4).
    destruct r; try congruence; cbn [ok_from In length];
      (split; [rewrite Hok; exact IH1|]);
      (split; [intros [H|H]; [discriminate|contradiction]|]);
      (split; [intros [H|H]; [discriminate|contradiction]|]); f_equal; exact IH4.
Qed.

Theorem ok_C19_run ops : wf_C19 ops = true -> ok_C19 ops (run_C19 ops) = true.
Proof. intros Hwf. exact (proj1 (run_ok ops init [] [] inv_init Hwf)). Qed.

Theorem no_abort_C19 ops :
  wf_C19 ops = true ->
  ~ In OAbort (run_C19 ops) /\ ~ In ODiverged (run_C19 ops) /\ length (run_C19 ops) = length ops.
Proof. intros Hwf. exact (proj2 (run_ok ops init [] [] inv_init Hwf)). Qed.

(** * What the oracle means *)

(** Every answered [Limit] on a live socket is the limit of that socket's current option, where
    "live" and "current option" are read off the observed history up to that point. *)
Definition C19_spec (ops : list op) (rs : list obs) : Prop :=
  forall i fd w o,
    nth_error ops i = Some (Limit fd w) -> (i < length rs)%nat ->
    alookup fd (track (firstn i (combine ops rs))) = Some o ->
    nth_error rs i = Some (OVal (limit_of (sel w o))).

Lemma ok_from_sound : forall ops tr rs,
  ok_from tr ops rs = true ->
  forall i fd w o,
    nth_error ops i = Some (Limit fd w) -> (i < length rs)%nat ->
    alookup fd (fold_left track_step (firstn i (combine ops rs)) tr) = Some o ->
    nth_error rs i = Some (OVal (limit_of (sel w o))).
Proof.
  induction ops as [|a ops IH]; intros tr rs Hok i fd w o Hn Hi Hl.
  - destruct i; discriminate.
  - destruct rs as [|r rs]; [cbn in Hi; lia|].
    cbn [ok_from] in Hok. apply andb_true_iff in Hok as [Hs Hrest].
    destruct i as [|i].
    + cbn in Hn. inversion Hn; subst a. cbn in Hl. cbn [ok_step] in Hs. rewrite Hl in Hs.
      destruct r; try discriminate. cbn. f_equal. f_equal. lia.
    + cbn [nth_error] in Hn |- *. cbn [combine firstn fold_left] in Hl. cbn [length] in Hi.
      assert (Hgo : ok_from (track_step tr (a, r)) ops rs = true).
      { destruct r; try exact Hrest. destruct rs; [cbn in Hi; lia|discriminate]. }
      eapply IH; try eassumption. lia.
Qed.

Theorem ok_C19_sound ops rs : ok_C19 ops rs = true -> C19_spec ops rs.
Proof. intros H i fd w o. apply ok_from_sound. exact H. Qed.

Theorem limit_current_C19 ops : wf_C19 ops = true -> C19_spec ops (run_C19 ops).
Proof. intros Hwf. apply ok_C19_sound, ok_C19_run; assumption. Qed.

(** A descriptor number that comes back from [Socket] carries no limit, whatever happened to that
    number before (finding #22: the cache used to survive [close]). *)
Lemma firstn_S_nth {A} (l : list A) : forall n x,
  nth_error l n = Some x -> firstn (S n) l = firstn n l ++ [x].
Proof.
  induction l as [|y l IH]; intros [|n] x H; try discriminate.
  - cbn in H. inversion H; reflexivity.
  - cbn [nth_error] in H. change (firstn (S (S n)) (y :: l)) with (y :: firstn (S n) l).
    rewrite (IH n x H). reflexivity.
Qed.

Lemma nth_error_combine {A B} (l1 : list A) : forall (l2 : list B) n a b,
  nth_error l1 n = Some a -> nth_error l2 n = Some b -> nth_error (combine l1 l2) n = Some (a, b).
Proof.
  induction l1 as [|x l1 IH]; intros [|y l2] [|n] a b H1 H2; try discriminate.
  - cbn in *. congruence.
  - cbn [nth_error combine] in *. apply IH; assumption.
Qed.

Theorem fresh_socket_unlimited_C19 ops fd w :
  let h := ops ++ [Socket; Limit fd w] in
  wf_C19 h = true ->
  nth_error (run_C19 h) (length ops) = Some (OFd fd) ->
  nth_error (run_C19 h) (S (length ops)) = Some (OVal U64MAX).
Proof.
  intros h Hwf Hfd.
  pose proof (limit_current_C19 h Hwf) as Hspec.
  destruct (no_abort_C19 h Hwf) as (_ & _ & Hlen).
  assert (Hh : length h = S (S (length ops))).
  { unfold h. rewrite app_length. cbn. lia. }
  assert (Hn0 : nth_error h (length ops) = Some Socket).
  { unfold h. rewrite nth_error_app2 by lia. rewrite Nat.sub_diag. reflexivity. }
  assert (Hn1 : nth_error h (S (length ops)) = Some (Limit fd w)).
  { unfold h. rewrite nth_error_app2 by lia.
    replace (S (length ops) - length ops)%nat with 1%nat by lia. reflexivity. }
  specialize (Hspec (S (length ops)) fd w ((0, 0), (0, 0)) Hn1).
  replace (limit_of (sel w (0, 0, (0, 0)))) with U64MAX in Hspec by (destruct w; reflexivity).
  apply Hspec; [lia|].
  rewrite (firstn_S_nth _ _ _ (nth_error_combine _ _ _ _ _ Hn0 Hfd)).
  unfold track. rewrite fold_left_app. cbn [fold_left track_step].
  apply alookup_ainsert_eq.
Qed.

(** * The two repaired findings, on the model of the code before each repair *)

Definition old_run_C19 (ver : version) (ops : list op) : list obs := run_from_gen ver init ops.

(** a negative [tv_sec] (accepted by the native call) aborted *)
Theorem refuted_negative_sec_before_repair :
  exists ops, wf_C19 ops = true /\ In OAbort (old_run_C19 before_negsec_repair ops)
              /\ ok_C19 ops (old_run_C19 before_negsec_repair ops) = false.
Proof. exists [Socket; SetOpt 0 Rcv (-1) 0]. repeat split; vm_compute; auto. Qed.

(** a limit lookup on a descriptor number that is not open aborted *)
Theorem refuted_limit_on_closed_fd_before_repair :
  exists ops, wf_C19 ops = true /\ In OAbort (old_run_C19 before_badfd_repair ops)
              /\ ok_C19 ops (old_run_C19 before_badfd_repair ops) = false.
Proof. exists [Socket; Close 0; Limit 0 Rcv]. repeat split; vm_compute; auto. Qed.

(** * What the repaired code does on those inputs *)

(** in any state: when a [setsockopt] with a negative [tv_sec] is accepted, the next limit lookup
    on that socket and direction answers [AT_ONCE] (from the cache, the state is unchanged), while
    getsockopt reports (0, 0) *)
Theorem negative_sec_times_out_at_once s fd w sec usec s1 t :
  sec < 0 -> step s (SetOpt fd w sec usec) = (s1, ORet 0, t) ->
  fst (step s1 (Limit fd w)) = (s1, OVal AT_ONCE) /\ snd (fst (step s1 (KGet fd w))) = OTv 0 0.
Proof.
  intros Hneg. unfold step. cbn [step_gen].
  destruct (alookup fd (st_open s)) as [o|] eqn:Ho; [|intros H; inversion H].
  destruct ((usec <? 0) || (1000000 <=? usec)) eqn:Eus; [intros H; inversion H|].
  rewrite time_limit_of_current, (time_limit_negative_sec sec usec Hneg).
  intros H. inversion H; subst s1. clear H.
  rewrite cache_set_cache_same, alookup_ainsert_eq.
  rewrite open_set_cache. cbn [st_open set_open]. rewrite alookup_ainsert_eq.
  rewrite sel_upd_same. unfold kernel_store. destruct (sec <? 0) eqn:E; [|lia].
  split; reflexivity.
Qed.
