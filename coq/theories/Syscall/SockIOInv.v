(** The invariant of the socket loop model and what it gives the oracles at the end of a call. *)
From OCV Require Import Base.Prelude Syscall.SockIO Syscall.SockIOOracle Syscall.SockIOProofs.
From Coq Require Import ZifyBool ZifyNat.
Open Scope Z_scope.

Definition fail_errno (rsp : resp) : option Z :=
  match rsp with
  | WouldBlock => Some EAGAIN | Interrupted => Some EINTR | Fail e => Some e
  | Moved _ => None | Done => None
  end.
Definition avail (rsp : resp) : nat := match rsp with Moved n => n | _ => O end.

Lemma kcall_fail : forall lens cnt rs x s e, fail_errno (snd x) = Some e ->
  kcall lens cnt rs x s =
  (-1, mkSt (sat_add64 (s_clock s) (fst x)) e (s_nb s) (s_wfail s)
            (s_reqs s ++ [mkReq cnt (s_nb s) rs e O]) (s_moved s ++ []) (s_waits s)).
Proof.
  intros lens cnt rs [dt rsp] s e H. destruct rsp; cbn in H; inversion H; subst; reflexivity.
Qed.

Lemma kcall_succ : forall lens cnt rs x s, fail_errno (snd x) = None ->
  let ps := firstn (avail (snd x)) (positions lens rs) in
  kcall lens cnt rs x s =
  (Z.of_nat (List.length ps),
   mkSt (sat_add64 (s_clock s) (fst x)) 0 (s_nb s) (s_wfail s)
        (s_reqs s ++ [mkReq cnt (s_nb s) rs 0 (List.length ps)]) (s_moved s ++ ps) (s_waits s)).
Proof.
  intros lens cnt rs [dt rsp] s H. destruct rsp; cbn in H; try discriminate; reflexivity.
Qed.

Lemma wf_entry_fail_nonzero : forall x e, wf_script_entry x = true -> fail_errno (snd x) = Some e -> e <> 0.
Proof.
  intros [dt rsp] e W H. unfold wf_script_entry in W. cbn in *.
  destruct rsp; inversion H; subst; unfold EAGAIN, EINTR; lia.
Qed.

Lemma exhausted_wf : wf_script_entry exhausted = true.
Proof. reflexivity. Qed.

Lemma classify_cases : forall e,
  (classify e = KWouldBlock /\ e = EAGAIN) \/ (classify e = KInterrupted /\ e = EINTR)
  \/ (classify e = KOther /\ e <> EAGAIN /\ e <> EINTR).
Proof.
  intros e. unfold classify. destruct (e =? EAGAIN) eqn:A; [left; split; [reflexivity|lia]|].
  destruct (e =? EINTR) eqn:B; [right; left; split; [reflexivity|lia]|].
  right; right. repeat split; lia.
Qed.

Lemma total_or_pos : forall r n, (0 < n)%nat -> total_or r n = Z.of_nat n.
Proof. intros r n H. unfold total_or. destruct (0 <? n)%nat eqn:E; [reflexivity | lia]. Qed.
Lemma total_or_0 : forall r, total_or r O = r.
Proof. reflexivity. Qed.

Section Inv.
  Variable lens : list nat.
  Variable sh : shape.
  Variable nb0 : bool.

  (** [F] bytes moved so far and the logs agree with that; [wb]: a request that would have
      blocked was already made (only tracked for a non-blocking caller) *)
  Definition GoodL (wb : bool) (reqs : list request) (moved : list nat) (waits : list Z) (F : nat) : Prop :=
    moved = seq 0 F /\
    fold_left (c17_step lens) reqs (true, O) = (true, F) /\
    kernel_moved reqs = F /\ (F <= total lens)%nat /\
    (nb0 = true -> waits = [] -> fold_left (c18_step sh) reqs (true, false) = (true, wb)).

  Definition Good (wb : bool) (s : st) (F : nat) : Prop := GoodL wb (s_reqs s) (s_moved s) (s_waits s) F.

  Lemma would_block_0 : would_block sh 0 = false.
  Proof. destruct sh; reflexivity. Qed.

  Lemma goodL_fail : forall reqs moved waits F cnt nbq rs e,
    GoodL false reqs moved waits F -> ranges_ok lens F true rs = true -> cnt = List.length rs ->
    GoodL (would_block sh e) (reqs ++ [mkReq cnt nbq rs e O]) (moved ++ []) waits F.
  Proof.
    intros reqs moved waits F cnt nbq rs e (G1 & G2 & G3 & G4 & G5) R C.
    unfold GoodL. rewrite app_nil_r, !fold_snoc, kernel_moved_snoc, G2. cbn [q_moved].
    repeat split; auto; try lia.
    - unfold c17_step, req_ok. cbn [fst snd q_ranges q_count q_moved]. rewrite R, C, Nat.eqb_refl.
      cbn. f_equal. lia.
    - intros N W0. rewrite (G5 N W0). reflexivity.
  Qed.

  Lemma goodL_succ : forall reqs moved waits F cnt nbq rs n,
    GoodL false reqs moved waits F -> ranges_ok lens F true rs = true -> cnt = List.length rs ->
    positions lens rs = seq F (total lens - F) ->
    let ps := firstn n (positions lens rs) in
    List.length ps = Nat.min n (total lens - F) /\
    GoodL false (reqs ++ [mkReq cnt nbq rs 0 (List.length ps)]) (moved ++ ps) waits (F + List.length ps).
  Proof.
    intros reqs moved waits F cnt nbq rs n (G1 & G2 & G3 & G4 & G5) R C P ps.
    assert (L : List.length ps = Nat.min n (total lens - F)).
    { unfold ps. rewrite P, firstn_seq, seq_length. reflexivity. }
    split; [exact L|].
    unfold GoodL. rewrite !fold_snoc, kernel_moved_snoc, G2. cbn [q_moved].
    repeat split; auto; try lia.
    - rewrite L. unfold ps. rewrite G1, P, firstn_seq, seq_app. reflexivity.
    - unfold c17_step, req_ok. cbn [fst snd q_ranges q_count q_moved]. rewrite R, C, Nat.eqb_refl.
      reflexivity.
    - intros N W0. rewrite (G5 N W0). unfold c18_step. cbn [fst snd q_err].
      rewrite would_block_0. reflexivity.
  Qed.

  (** once a wait was requested the clause about a non-blocking caller says nothing more *)
  Lemma goodL_wait : forall wb wb' reqs moved waits F w,
    GoodL wb reqs moved waits F -> GoodL wb' reqs moved (waits ++ [w]) F.
  Proof.
    intros wb wb' reqs moved waits F w (G1 & G2 & G3 & G4 & G5). unfold GoodL. repeat split; auto.
    intros _ W0. destruct waits; discriminate.
  Qed.

  (** what holds when the call returns [r] in state [s] *)
  Definition FinalF (flag : bool) (r : Z) (s : st) : Prop :=
    exists F, Good false s F /\ s_nb s = flag /\
      (r = Z.of_nat F \/
       (r = -1 /\ F = O /\ (0 < total lens)%nat /\ last_err (s_reqs s) = Some (s_errno s) /\ s_errno s <> 0)).

  Definition Final := FinalF nb0.

  (** every exit path restores the caller's mode: during the call the flag is set *)
  Lemma final_restore : forall r s, FinalF true r s -> Final r (restore (negb nb0) s).
  Proof.
    intros r s (F & G & NB & R). exists F. unfold restore.
    destruct nb0; cbn [negb]; (split; [exact G|]); (split; [first [exact NB | reflexivity]|]); exact R.
  Qed.

  (** one kernel call on an array that is the caller's unfilled suffix *)
  Lemma kcall_good : forall cnt rs x s F,
    wf_script_entry x = true -> Good false s F -> s_nb s = true ->
    ranges_ok lens F true rs = true -> cnt = List.length rs ->
    positions lens rs = seq F (total lens - F) ->
    exists r s', kcall lens cnt rs x s = (r, s') /\ s_nb s' = true /\
      ((r = -1 /\ s_errno s' <> 0 /\ last_err (s_reqs s') = Some (s_errno s')
        /\ fail_errno (snd x) = Some (s_errno s')
        /\ Good (would_block sh (s_errno s')) s' F)
       \/ (exists m, r = Z.of_nat m /\ m = Nat.min (avail (snd x)) (total lens - F)
                     /\ s_errno s' = 0 /\ Good false s' (F + m))).
  Proof.
    intros cnt rs x s F W G NB R C P.
    destruct (fail_errno (snd x)) as [e|] eqn:FE.
    - rewrite (kcall_fail _ _ _ _ _ _ FE). eexists _, _. split; [reflexivity|]. split; [exact NB|].
      left. cbn [s_errno s_reqs]. split; [reflexivity|]. split; [exact (wf_entry_fail_nonzero _ _ W FE)|].
      split; [apply last_err_snoc|]. split; [reflexivity|]. unfold Good. cbn [s_reqs s_moved s_waits]. now apply goodL_fail.
    - rewrite (kcall_succ _ _ _ _ _ FE). eexists _, _. split; [reflexivity|]. split; [exact NB|].
      right. destruct (goodL_succ _ _ _ F cnt (s_nb s) rs (avail (snd x)) G R C P) as [L G'].
      eexists. split; [reflexivity|]. split; [exact L|]. split; [reflexivity|]. exact G'.
  Qed.

  Lemma good_wait : forall limit start s F wb ok left' s',
    Good wb s F -> do_wait limit start s = (ok, left', s') ->
    Good false s' F /\ s_nb s' = s_nb s /\ s_errno s' = s_errno s /\ s_reqs s' = s_reqs s.
  Proof.
    intros limit start s F wb ok left' s' G E. unfold do_wait in E.
    destruct (s_wfail s) as [|b t]; inversion E; subst; cbn [s_nb s_errno s_reqs];
      (split; [|repeat split]); unfold Good; cbn [s_reqs s_moved s_waits]; eapply goodL_wait; exact G.
  Qed.

  (** the return value while nothing has been moved: 0, or -1 with the last call's errno *)
  Definition RW (r : Z) (s : st) (F : nat) : Prop :=
    F = O -> r = 0 \/
             (r = -1 /\ (0 < total lens)%nat /\ last_err (s_reqs s) = Some (s_errno s) /\ s_errno s <> 0).
  (** a return value for [F] bytes moved, before or after the mode is restored *)
  Lemma finalF_total_or : forall r s F, Good false s F -> s_nb s = true -> RW r s F ->
    FinalF true (total_or r F) s.
  Proof.
    intros r s F G NB RWr. exists F. split; [exact G|]. split; [exact NB|].
    destruct F as [|F].
    - rewrite total_or_0.
      destruct (RWr eq_refl) as [R0 | (R1 & T & LE & NZ)]; [left; subst; reflexivity | right; auto].
    - rewrite total_or_pos by lia. left; reflexivity.
  Qed.

  Lemma finalF_exact : forall s F, Good false s F -> s_nb s = true ->
    FinalF true (Z.of_nat F) s.
  Proof.
    intros s F G NB. exists F. split; [exact G|]. split; [exact NB|]. left; reflexivity.
  Qed.
End Inv.

Lemma good_init : forall lens sh c, Good lens sh (c_nb c) false (init_st c) O.
Proof.
  intros lens sh c. unfold Good, GoodL, init_st. cbn [s_reqs s_moved s_waits fold_left].
  repeat split; auto; try lia.
Qed.

(** * from [Final] to the oracles *)
Lemma final_C16 : forall c d r s, shape_dir (c_shape c) = Some d ->
  Final (c_lens c) (c_shape c) (c_nb c) r s ->
  ok_C16_obs c (mkObs r (if r =? -1 then s_errno s else 0) (s_reqs s) (data_of c (s_moved s))
                      (s_waits s) (s_nb s) false) = true.
Proof.
  intros c d r s D (F & (G1 & G2 & G3 & G4 & G5) & NB & R).
  unfold ok_C16_obs. cbn [o_ret o_errno o_reqs o_data o_scribbled negb andb]. rewrite G3.
  assert (DI : data_in_order c F (data_of c (s_moved s)) = true).
  { unfold data_in_order, data_of. rewrite D, G1. destruct d.
    - rewrite render_seq by exact G4. apply list_eqb_Z_refl.
    - apply list_eqb_Z_refl. }
  destruct R as [R | (R & F0 & T & LE & NZ)].
  - subst r. destruct (Z.of_nat F =? -1) eqn:E; [lia|]. rewrite DI.
    assert (E1 : (0 <=? Z.of_nat F) = true) by lia. rewrite E1, Z.eqb_refl. reflexivity.
  - subst r. rewrite F0 in DI |- *. change (-1 =? -1) with true. cbv iota. rewrite DI, LE. cbn [option_eqb].
    rewrite Z.eqb_refl. cbn [Nat.eqb andb].
    assert (E1 : (0 <? total (c_lens c))%nat = true) by lia.
    assert (E2 : (s_errno s =? 0) = false) by lia. rewrite E1, E2. reflexivity.
Qed.

Lemma final_C17 : forall c r s, Final (c_lens c) (c_shape c) (c_nb c) r s ->
  ok_C17_obs c (mkObs r (if r =? -1 then s_errno s else 0) (s_reqs s) (data_of c (s_moved s))
                      (s_waits s) (s_nb s) false) = true.
Proof.
  intros c r s (F & (G1 & G2 & G3 & G4 & G5) & _). unfold ok_C17_obs. cbn [o_reqs].
  rewrite G2. reflexivity.
Qed.

Lemma final_C18 : forall c r s, Final (c_lens c) (c_shape c) (c_nb c) r s ->
  (c_nb c = true -> s_waits s = []) ->
  ok_C18_obs c (mkObs r (if r =? -1 then s_errno s else 0) (s_reqs s) (data_of c (s_moved s))
                      (s_waits s) (s_nb s) false) = true.
Proof.
  intros c r s (F & (G1 & G2 & G3 & G4 & G5) & NB & R) ND.
  unfold ok_C18_obs. cbn [o_nb_after o_waits o_reqs o_ret o_errno]. rewrite NB, eqb_reflx. cbn [andb].
  destruct (c_nb c) eqn:N; [|reflexivity].
  rewrite (ND eq_refl), (G5 eq_refl (ND eq_refl)). reflexivity.
Qed.

Lemma final_mode : forall lens sh nb0 r s, Final lens sh nb0 r s -> s_nb s = nb0.
Proof. intros lens sh nb0 r s (F & _ & NB & _). exact NB. Qed.
