(** C19: model run, well-formedness of histories and the property as an executable oracle over an
    observed trace. The oracle keeps its own tracker (live sockets and their current option values,
    driven by the observed results) and never looks at the caches. *)
From OCV Require Import Base.Prelude Syscall.SockOpt.
Open Scope Z_scope.

Definition obs_eqb (a b : obs) : bool :=
  match a, b with
  | OFd x, OFd y => x =? y
  | ORet x, ORet y => x =? y
  | OVal x, OVal y => x =? y
  | OTv a1 a2, OTv b1 b2 => (a1 =? b1) && (a2 =? b2)
  | OAbort, OAbort => true
  | ODiverged, ODiverged => true
  | _, _ => false
  end.

Definition run_C19 (ops : list op) : list obs := run_from init ops.
Definition tags_C19 (ops : list op) : list tag := tags_from init ops.

(** The limit that corresponds to an option value: zero means no limit, otherwise the value in
    nanoseconds, capped at u64::MAX. The kernel's zero timeout (a negative [tv_sec] was set:
    operations time out at once) is not "no limit": it corresponds to [AT_ONCE], the least limit a
    hooked call can apply (the call is attempted once and gives up at the first would-block; a limit
    of 0 would make the loops return without attempting anything). *)
Definition AT_ONCE : Z := 1.
Definition limit_of (t : tv) : Z :=
  if fst t <? 0 then AT_ONCE
  else if (fst t =? 0) && (snd t =? 0) then U64MAX
  else Z.min (fst t * 1000000000 + snd t * 1000) U64MAX.

(** Specification tracker: descriptor -> current options of the live socket behind it. *)
Definition tracker := list (Z * opts).

Definition track_step (tr : tracker) (e : op * obs) : tracker :=
  match e with
  | (Socket, OFd n) => ainsert n ((0, 0), (0, 0)) tr
  | (SetOpt fd w sec usec, ORet r) =>
      if r =? 0 then
        match alookup fd tr with
        | Some o => ainsert fd (upd w (kernel_store sec usec) o) tr
        | None => tr
        end
      else tr
  | (Close fd, ORet r) => if r =? 0 then aremove fd tr else tr
  | _ => tr
  end.

Definition track (evs : list (op * obs)) : tracker := fold_left track_step evs [].

(** One observed step is acceptable. A [Limit] on a descriptor that is not a live socket has no
    option to honour: it must answer, and with "no limit". An abort is never acceptable. *)
Definition ok_step (tr : tracker) (o : op) (r : obs) : bool :=
  match o, r with
  | Socket, OFd _ => true
  | SetOpt _ _ _ _, ORet _ => true
  | KGet _ _, ORet _ => true
  | KGet _ _, OTv _ _ => true
  | Close _, ORet _ => true
  | Limit fd w, r =>
      match alookup fd tr with
      | None => match r with OVal v => v =? U64MAX | _ => false end
      | Some o => match r with OVal v => v =? limit_of (sel w o) | _ => false end
      end
  | _, _ => false
  end.

Fixpoint ok_from (tr : tracker) (ops : list op) (rs : list obs) : bool :=
  match ops, rs with
  | [], [] => true
  | o :: ops', r :: rs' =>
      ok_step tr o r &&
      match r with
      | OAbort => match rs' with [] => true | _ => false end   (* never accepted by [ok_step] *)
      | _ => ok_from (track_step tr (o, r)) ops' rs'
      end
  | _, _ => false
  end.

Definition ok_C19 (ops : list op) (rs : list obs) : bool := ok_from [] ops rs.

(** Histories inside the statement. [TICK_US]: option values are whole multiples of 20 ms, which
    every common kernel tick (HZ 100/250/300/1000) represents exactly, so the value read back equals
    the value set; [SEC_BOUND] keeps [tv_sec] below the kernel's clamp to "infinite" (a negative
    [tv_sec] is inside). Limit lookups on dead descriptors are inside too. The set of live
    descriptors is tracked with the kernel's lowest-free rule. *)
Definition TICK_US : Z := 20000.
Definition SEC_BOUND : Z := 2 ^ 50.

Definition live := list (Z * unit).

Definition wf_step (l : live) (o : op) : bool * live :=
  match o with
  | Socket => (true, ainsert (lowest_free l) tt l)
  | SetOpt fd w sec usec =>
      ((sec <? SEC_BOUND) && ((usec <? 0) || (1000000 <=? usec) || (usec mod TICK_US =? 0)), l)
  | Limit fd w => (true, l)
  | KGet fd w => (true, l)
  | Close fd => (true, aremove fd l)
  end.

Fixpoint wf_from (l : live) (ops : list op) : bool :=
  match ops with
  | [] => true
  | o :: ops' => let '(b, l') := wf_step l o in b && wf_from l' ops'
  end.

Definition wf_C19 (ops : list op) : bool := wf_from [] ops.

