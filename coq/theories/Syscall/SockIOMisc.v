(** accept (impl_nio_read) and connect: the blocking mode is restored and a non-blocking caller
    never waits (C18 only; these calls move no bytes). *)
From OCV Require Import Base.Prelude Syscall.SockIO Syscall.SockIOOracle Syscall.SockIOProofs Syscall.SockIOInv.
From Coq Require Import ZifyBool ZifyNat.
Open Scope Z_scope.

Definition Final18 (sh : shape) (nb0 : bool) (r : Z) (s : st) : Prop :=
  s_nb s = nb0 /\
  (nb0 = true -> s_waits s = [] /\
     exists wb, fold_left (c18_step sh) (s_reqs s) (true, false) = (true, wb) /\
       (wb = true -> r = -1 /\ last_err (s_reqs s) = Some (s_errno s))).

Lemma final18_C18 : forall c r s data, Final18 (c_shape c) (c_nb c) r s ->
  ok_C18_obs c (mkObs r (if r =? -1 then s_errno s else 0) (s_reqs s) data (s_waits s) (s_nb s) false) = true.
Proof.
  intros c r s data (NB & H). unfold ok_C18_obs. cbn [o_nb_after o_waits o_reqs o_ret o_errno].
  rewrite NB, eqb_reflx. cbn [andb]. destruct (c_nb c) eqn:N; [|reflexivity].
  destruct (H eq_refl) as (W0 & wb & E & Wb). rewrite W0, E. cbn [andb].
  destruct wb; [|reflexivity]. destruct (Wb eq_refl) as [-> L]. cbn [andb].
  destruct (Nat.eqb (kernel_moved (s_reqs s)) O); [|reflexivity].
  change (-1 =? -1) with true. cbv iota. rewrite L. cbn [option_eqb]. now rewrite Z.eqb_refl.
Qed.

(** ** accept *)
Section Accept.
  Variable nb0 : bool.
  Variables limit start : Z.

  Definition AccInv (s : st) : Prop :=
    s_nb s = true /\
    (nb0 = true -> s_waits s = [] /\ fold_left (c18_step SAccept) (s_reqs s) (true, false) = (true, false)).

  Definition AccFin (r : Z) (s : st) : Prop :=
    s_nb s = true /\
    (nb0 = true -> s_waits s = [] /\
       exists wb, fold_left (c18_step SAccept) (s_reqs s) (true, false) = (true, wb) /\
         (wb = true -> r = -1 /\ last_err (s_reqs s) = Some (s_errno s))).

  Lemma acc_body_ok : forall x left s, AccInv s ->
    match acc_body (negb nb0) limit start x left s with
    | AExit r' s' => AccFin r' s'
    | AAgain left' r' s' => AccInv s' /\ exists e, fail_errno (snd x) = Some e /\ (e = EAGAIN \/ e = EINTR)
    end.
  Proof.
    intros x left s (NB & H). unfold acc_body, AccInv, AccFin.
    destruct (fail_errno (snd x)) as [e|] eqn:FE.
    - rewrite (kcall_fail _ _ _ _ _ _ FE). change (negb (-1 =? -1)) with false. cbv beta iota.
      cbn [s_errno].
      set (s1 := mkSt _ e _ _ _ _ _).
      assert (F1 : nb0 = true -> s_waits s1 = [] /\
                   fold_left (c18_step SAccept) (s_reqs s1) (true, false) = (true, e =? EAGAIN)).
      { intros N. destruct (H N) as [W0 E]. unfold s1. cbn [s_waits s_reqs]. split; [exact W0|].
        rewrite fold_snoc, E. reflexivity. }
      assert (L1 : last_err (s_reqs s1) = Some (s_errno s1)) by (unfold s1; cbn [s_reqs s_errno]; apply last_err_snoc).
      assert (NB1 : s_nb s1 = true) by exact NB.
      destruct (classify_cases e) as [[K Ee] | [[K Ee] | [K [Ne1 Ne2]]]]; rewrite K.
      + destruct (Bool.bool_dec nb0 true) as [N|N].
        * rewrite N. cbn [negb]. split; [exact NB1|]. intros _. destruct (F1 N) as [W1 E1].
          split; [exact W1|]. exists (e =? EAGAIN). split; [exact E1|]. intros _. split; [reflexivity | exact L1].
        * apply not_true_is_false in N. rewrite N. cbn [negb].
          unfold do_wait. destruct (s_wfail s1) as [|b t]; [|destruct b]; cbn [negb];
            (split; [first [exact NB1 | split; [exact NB1 | intros; congruence]] | ]);
            first [ intros; congruence | exists e; split; [reflexivity | left; exact Ee] ].
      + split; [|exists e; split; [reflexivity | right; exact Ee]]. split; [exact NB1|].
        intros N. destruct (F1 N) as [W1 E1]. split; [exact W1|]. rewrite E1. subst e. reflexivity.
      + split; [exact NB1|]. intros N. destruct (F1 N) as [W1 E1]. split; [exact W1|].
        exists false. split; [|intros; discriminate]. rewrite E1. f_equal. lia.
    - rewrite (kcall_succ _ _ _ _ _ FE). cbn [positions flat_map firstn]. rewrite firstn_nil. cbn [List.length].
      change (negb (Z.of_nat 0 =? -1)) with true. cbv beta iota.
      split; [exact NB|]. intros N. destruct (H N) as [W0 E]. cbn [set_errno s_waits s_reqs].
      split; [exact W0|]. exists false. split; [|intros; discriminate]. rewrite fold_snoc, E. reflexivity.
  Qed.

  Lemma accinv_fin : forall r s, AccInv s -> AccFin r s.
  Proof.
    intros r s (NB & H). split; [exact NB|]. intros N. destruct (H N) as [W0 E]. split; [exact W0|].
    exists false. split; [exact E | intros; discriminate].
  Qed.

  Lemma acc_loop_ok : forall sc left r s, AccInv s ->
    match acc_loop (negb nb0) limit start sc left r s with
    | (ORet r', s') => AccFin r' s'
    | _ => False
    end.
  Proof.
    induction sc as [|x sc IH]; intros left r s AI; cbn [acc_loop].
    - destruct (0 <? left) eqn:C; [|apply accinv_fin; exact AI].
      pose proof (acc_body_ok exhausted left s AI) as B.
      destruct (acc_body (negb nb0) limit start exhausted left s) as [r' s'|l' r' s'].
      + exact B.
      + destruct B as (_ & e & FE & Ee). cbn in FE. inversion FE. unfold ECONNRESET, EAGAIN, EINTR in *. lia.
    - destruct (0 <? left) eqn:C; [|apply accinv_fin; exact AI].
      pose proof (acc_body_ok x left s AI) as B.
      destruct (acc_body (negb nb0) limit start x left s) as [r' s'|l' r' s'].
      + exact B.
      + destruct B as (AI' & _). apply IH. exact AI'.
  Qed.
End Accept.

Lemma run_accept_ok : forall c,
  match run_accept (c_limit c) (c_script c) (init_st c) with
  | (ORet r, s) => Final18 SAccept (c_nb c) r s
  | _ => False
  end.
Proof.
  intros c. unfold run_accept, enter. change (negb (s_nb (init_st c))) with (negb (c_nb c)).
  set (s1 := if negb (c_nb c) then set_nb (init_st c) true else init_st c).
  assert (AI : AccInv (c_nb c) s1).
  { unfold s1, init_st. split; [destruct (c_nb c); reflexivity|]. intros N. rewrite N. cbn. auto. }
  pose proof (acc_loop_ok (c_nb c) (c_limit c) (s_clock s1) (c_script c) (c_limit c) (-1) s1 AI) as B.
  destruct (acc_loop (negb (c_nb c)) (c_limit c) (s_clock s1) (c_script c) (c_limit c) (-1) s1) as [o s2].
  destruct o as [r| |]; try contradiction. cbn [acc_ret].
  destruct B as (NB & H). unfold Final18, restore. split.
  - destruct (c_nb c); cbn [negb set_nb s_nb]; [exact NB | reflexivity].
  - intros N. rewrite N. cbn [negb]. destruct (H N) as (W0 & wb & E & Wb). split; [exact W0|].
    exists wb. split; [exact E|]. intros Hw. destruct (Wb Hw) as [-> L]. split; [reflexivity | exact L].
Qed.

(** ** connect *)
Lemma no_eintr_fail : forall x e, no_eintr x = true -> fail_errno (snd x) = Some e -> (e =? EINTR) = false.
Proof.
  intros [dt rsp] e N H. unfold no_eintr in N. cbn in *. destruct rsp; inversion H; subst; try discriminate.
  - reflexivity.
  - destruct (e =? EINTR); [discriminate | reflexivity].
Qed.

Lemma in_progress_not_timedout : forall e, in_progress e = true -> (e =? ETIMEDOUT) = false.
Proof. intros e. unfold in_progress, EINPROGRESS, EALREADY, EAGAIN, ETIMEDOUT. lia. Qed.

Lemma c18_fold_one : forall sh q,
  fold_left (c18_step sh) ([] ++ [q]) (true, false) = (true, would_block sh (q_err q)).
Proof. reflexivity. Qed.

Lemma run_connect_ok : forall c, 1 <= c_limit c -> forallb no_eintr (firstn 1 (c_script c)) = true ->
  match run_connect (c_limit c) (c_script c) (init_st c) with
  | (ORet r, s) => Final18 SConnect (c_nb c) r s
  | _ => False
  end.
Proof.
  intros c LIM NE. unfold run_connect, enter. change (negb (s_nb (init_st c))) with (negb (c_nb c)).
  set (x := match c_script c with [] => exhausted | x :: _ => x end).
  assert (NEx : no_eintr x = true).
  { unfold x. destruct (c_script c) as [|y t]; [reflexivity|]. cbn in NE. now rewrite andb_true_r in NE. }
  assert (L0 : (0 <? c_limit c) = true) by lia. rewrite L0.
  destruct (c_nb c) eqn:N; cbn [negb].
  - (* the caller's descriptor is non-blocking *)
    destruct (fail_errno (snd x)) as [e|] eqn:FE.
    + rewrite (kcall_fail _ _ _ _ _ _ FE). change (-1 =? 0) with false. cbv beta iota. cbn [s_errno].
      destruct (in_progress e) eqn:IP.
      * cbn [s_errno]. change (-1 =? -1) with true. rewrite (in_progress_not_timedout e IP). cbn [andb restore].
        unfold Final18, init_st. cbn [s_nb s_waits s_reqs s_errno]. cbv [fold_left app c18_step fst snd q_err would_block negb andb orb].
        rewrite N. split; [reflexivity|]. intros _. split; [reflexivity|]. exists (in_progress e). rewrite IP.
        split; [reflexivity|]. intros _. split; reflexivity.
      * rewrite (no_eintr_fail x e NEx FE). cbn [s_errno]. change (-1 =? -1) with true. cbn [andb].
        destruct (e =? ETIMEDOUT); cbn [restore];
          unfold Final18, init_st; cbn [set_errno s_nb s_waits s_reqs s_errno]; cbv [fold_left app c18_step fst snd q_err would_block negb andb orb];
          rewrite N, IP; (split; [reflexivity|]); intros _; (split; [reflexivity|]); exists false;
          (split; [reflexivity | intros; discriminate]).
    + rewrite (kcall_succ _ _ _ _ _ FE). cbn [positions flat_map firstn]. rewrite firstn_nil. cbn [List.length].
      change (Z.of_nat 0 =? 0) with true. cbv beta iota. change (0 =? -1) with false. cbn [andb restore].
      unfold Final18, init_st. cbn [set_errno s_nb s_waits s_reqs s_errno]. cbv [fold_left app c18_step fst snd q_err would_block negb andb orb].
      rewrite N. split; [reflexivity|]. intros _. split; [reflexivity|]. exists false.
      split; [reflexivity | intros; discriminate].
  - (* blocking descriptor: only the restoration is claimed *)
    destruct (fail_errno (snd x)) as [e|] eqn:FE.
    + rewrite (kcall_fail _ _ _ _ _ _ FE). change (-1 =? 0) with false. cbv beta iota. cbn [s_errno].
      destruct (in_progress e) eqn:IP.
      * destruct (do_wait (c_limit c) (s_clock (set_nb (init_st c) true)) _) as [[ok left'] s3].
        destruct ok; cbn [negb].
        -- destruct (0 <? left'); (cbv beta iota; split; [reflexivity | intros; discriminate]).
        -- (cbv beta iota; split; [reflexivity | intros; discriminate]).
      * rewrite (no_eintr_fail x e NEx FE). (cbv beta iota; split; [reflexivity | intros; discriminate]).
    + rewrite (kcall_succ _ _ _ _ _ FE). cbn [positions flat_map firstn]. rewrite firstn_nil. cbn [List.length].
      change (Z.of_nat 0 =? 0) with true. cbv beta iota. (cbv beta iota; split; [reflexivity | intros; discriminate]).
Qed.
