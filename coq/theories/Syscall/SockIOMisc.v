(** accept (impl_nio_read) and connect: the blocking mode is restored; the request log of a
    non-blocking caller is fine as long as no readiness wait was requested (C18 only; these calls
    move no bytes). *)
From OCV Require Import Base.Prelude Syscall.SockIO Syscall.SockIOOracle Syscall.SockIOProofs Syscall.SockIOInv.
From Coq Require Import ZifyBool ZifyNat.
Open Scope Z_scope.

Definition Final18 (sh : shape) (nb0 : bool) (s : st) : Prop :=
  s_nb s = nb0 /\
  (nb0 = true -> s_waits s = [] -> fold_left (c18_step sh) (s_reqs s) (true, false) = (true, false)).

Lemma final18_C18 : forall c r s data, Final18 (c_shape c) (c_nb c) s ->
  (c_nb c = true -> s_waits s = []) ->
  ok_C18_obs c (mkObs r (if r =? -1 then s_errno s else 0) (s_reqs s) data (s_waits s) (s_nb s) false) = true.
Proof.
  intros c r s data (NB & H) ND. unfold ok_C18_obs. cbn [o_nb_after o_waits o_reqs o_ret o_errno].
  rewrite NB, eqb_reflx. cbn [andb]. destruct (c_nb c) eqn:N; [|reflexivity].
  rewrite (ND eq_refl), (H eq_refl (ND eq_refl)). reflexivity.
Qed.

(** ** accept *)
Section Accept.
  Variable nb0 : bool.
  Variables limit start : Z.

  Definition AccInv (s : st) : Prop :=
    s_nb s = true /\
    (nb0 = true -> s_waits s = [] -> fold_left (c18_step SAccept) (s_reqs s) (true, false) = (true, false)).

  Lemma acc_body_ok : forall x left s, AccInv s ->
    match acc_body (negb nb0) limit start x left s with
    | AExit r' s' => AccInv s'
    | AAgain left' r' s' => AccInv s' /\ exists e, fail_errno (snd x) = Some e /\ (e = EAGAIN \/ e = EINTR)
    end.
  Proof.
    intros x left s (NB & H). unfold acc_body, AccInv.
    destruct (fail_errno (snd x)) as [e|] eqn:FE.
    - rewrite (kcall_fail _ _ _ _ _ _ FE). change (negb (-1 =? -1)) with false. cbv beta iota.
      cbn [s_errno].
      set (s1 := mkSt _ e _ _ _ _ _).
      assert (F1 : nb0 = true -> s_waits s1 = [] ->
                   fold_left (c18_step SAccept) (s_reqs s1) (true, false) = (true, e =? EAGAIN)).
      { intros N W0. unfold s1 in *. cbn [s_waits s_reqs] in *. rewrite fold_snoc, (H N W0). reflexivity. }
      assert (NB1 : s_nb s1 = true) by exact NB.
      destruct (classify_cases e) as [[K Ee] | [[K Ee] | [K [Ne1 Ne2]]]]; rewrite K.
      + unfold do_wait. destruct (s_wfail s1) as [|b t]; [|destruct b]; cbn [negb];
          repeat match goal with
                 | |- _ /\ _ => split
                 | |- s_nb _ = true => exact NB1
                 | |- _ -> _ -> _ => intros _ W0; cbn [s_waits] in W0; destruct (s_waits s1); discriminate
                 | |- exists _, _ => exists e; split; [reflexivity | left; exact Ee]
                 end.
      + split; [|exists e; split; [reflexivity | right; exact Ee]]. split; [exact NB1|].
        intros N W0. rewrite (F1 N W0). subst e. reflexivity.
      + split; [exact NB1|]. intros N W0. rewrite (F1 N W0). f_equal. lia.
    - rewrite (kcall_succ _ _ _ _ _ FE). cbn [positions flat_map firstn]. rewrite firstn_nil. cbn [List.length].
      change (negb (Z.of_nat 0 =? -1)) with true. cbv beta iota.
      split; [exact NB|]. intros N W0. cbn [set_errno s_waits s_reqs] in *. rewrite fold_snoc, (H N W0). reflexivity.
  Qed.

  Lemma acc_loop_ok : forall sc left r s, AccInv s ->
    match acc_loop (negb nb0) limit start sc left r s with
    | (ORet r', s') => AccInv s'
    | _ => False
    end.
  Proof.
    induction sc as [|x sc IH]; intros left r s AI; cbn [acc_loop].
    - destruct (0 <? left) eqn:C; [|exact AI].
      pose proof (acc_body_ok exhausted left s AI) as B.
      destruct (acc_body (negb nb0) limit start exhausted left s) as [r' s'|l' r' s'].
      + exact B.
      + destruct B as (_ & e & FE & Ee). cbn in FE. inversion FE. unfold ECONNRESET, EAGAIN, EINTR in *. lia.
    - destruct (0 <? left) eqn:C; [|exact AI].
      pose proof (acc_body_ok x left s AI) as B.
      destruct (acc_body (negb nb0) limit start x left s) as [r' s'|l' r' s'].
      + exact B.
      + destruct B as (AI' & _). apply IH. exact AI'.
  Qed.
End Accept.

Lemma run_accept_ok : forall c,
  match run_accept (c_limit c) (c_script c) (init_st c) with
  | (ORet r, s) => Final18 SAccept (c_nb c) s
  | _ => False
  end.
Proof.
  intros c. unfold run_accept, enter. change (negb (s_nb (init_st c))) with (negb (c_nb c)).
  set (s1 := if negb (c_nb c) then set_nb (init_st c) true else init_st c).
  assert (AI : AccInv (c_nb c) s1).
  { unfold s1, init_st. split; [destruct (c_nb c); reflexivity|]. intros N _. rewrite N. reflexivity. }
  pose proof (acc_loop_ok (c_nb c) (c_limit c) (s_clock s1) (c_script c) (c_limit c) (-1) s1 AI) as B.
  destruct (acc_loop (negb (c_nb c)) (c_limit c) (s_clock s1) (c_script c) (c_limit c) (-1) s1) as [o s2].
  destruct o as [r| |]; try contradiction. cbn [acc_ret].
  destruct B as (NB & H). unfold Final18, restore. split.
  - destruct (c_nb c); cbn [negb set_nb s_nb]; [exact NB | reflexivity].
  - intros N. rewrite N. cbn [negb]. exact (H N).
Qed.

(** ** connect *)
Lemma run_connect_ok : forall c, 1 <= c_limit c ->
  match run_connect (c_limit c) (c_script c) (init_st c) with
  | (ORet r, s) => Final18 SConnect (c_nb c) s
  | _ => False
  end.
Proof.
  intros c LIM. unfold run_connect, run_connect_gen, enter.
  change (negb (s_nb (init_st c))) with (negb (c_nb c)).
  set (x := match c_script c with [] => exhausted | x :: _ => x end).
  assert (L0 : (0 <? c_limit c) = true) by lia. rewrite L0.
  set (s1 := if negb (c_nb c) then set_nb (init_st c) true else init_st c).
  assert (NB1 : s_nb s1 = true) by (unfold s1, init_st; destruct (c_nb c); reflexivity).
  assert (W1 : s_waits s1 = []) by (unfold s1, init_st; destruct (c_nb c); reflexivity).
  assert (Q1 : s_reqs s1 = []) by (unfold s1, init_st; destruct (c_nb c); reflexivity).
  (* whatever state the call ends in, restoring gives back the caller's mode *)
  assert (RST : forall s, s_nb s = true -> s_nb (restore (negb (c_nb c)) s) = c_nb c).
  { intros s H. unfold restore. destruct (c_nb c); cbn [negb set_nb s_nb]; [exact H | reflexivity]. }
  assert (RSW : forall s, s_waits (restore (negb (c_nb c)) s) = s_waits s)
    by (intros s; unfold restore; destruct (negb (c_nb c)); reflexivity).
  assert (RSQ : forall s, s_reqs (restore (negb (c_nb c)) s) = s_reqs s)
    by (intros s; unfold restore; destruct (negb (c_nb c)); reflexivity).
  destruct (fail_errno (snd x)) as [e|] eqn:FE.
  - rewrite (kcall_fail _ _ _ _ _ _ FE). change (-1 =? 0) with false. cbv beta iota. cbn [s_errno].
    destruct (in_progress_gen true e) eqn:IP.
    + (* in progress or interrupted: waits *)
      unfold do_wait. cbn [s_wfail s_clock s_errno s_nb s_reqs s_moved s_waits].
      destruct (s_wfail s1) as [|b t]; [|destruct b]; cbn [negb];
        repeat match goal with |- context [if ?b then _ else _] => destruct b end;
        (split; [rewrite RST; [reflexivity | exact NB1] |]);
        intros _ W0; rewrite RSW in W0; cbn [set_errno s_waits] in W0; destruct (s_waits s1); discriminate.
    + (* any other errno: break *)
      assert (WB : connect_would_block e = false).
      { unfold in_progress_gen in IP. apply orb_false_iff in IP as [IP _]. exact IP. }
      change (negb true) with false. cbn [andb s_errno]. change (-1 =? -1) with true. cbn [andb].
      destruct (e =? ETIMEDOUT);
        (split; [rewrite RST; [reflexivity | exact NB1] |]);
        intros _ _; rewrite RSQ; cbn [set_errno s_reqs]; rewrite Q1;
        cbv [fold_left app c18_step fst snd q_err would_block negb andb orb]; rewrite WB; reflexivity.
  - rewrite (kcall_succ _ _ _ _ _ FE). cbn [positions flat_map firstn]. rewrite firstn_nil. cbn [List.length].
    change (Z.of_nat 0 =? 0) with true. cbv beta iota. change (0 =? -1) with false. cbn [andb].
    split; [rewrite RST; [reflexivity | exact NB1] |].
    intros _ _. rewrite RSQ. cbn [set_errno s_reqs]. rewrite Q1. reflexivity.
Qed.

(** before the repair of [connect_eintr_spins]: an interrupted connect never returned *)
Definition connect_interrupted (c : cfg) : bool :=
  match c_script c with
  | (_, Interrupted) :: _ => true
  | (_, Fail e) :: _ => e =? EINTR
  | _ => false
  end.

Lemma old_run_connect_eintr_stuck : forall c, 1 <= c_limit c -> connect_interrupted c = true ->
  fst (old_run_connect (c_limit c) (c_script c) (init_st c)) = OStuck.
Proof.
  intros c LIM NE. unfold old_run_connect, run_connect_gen, enter.
  assert (L0 : (0 <? c_limit c) = true) by lia. rewrite L0.
  unfold connect_interrupted in NE.
  destruct (c_script c) as [|[dt rsp] t]; [discriminate|].
  destruct rsp; try discriminate.
  - reflexivity.
  - assert (e = EINTR) by lia. subst e. reflexivity.
Qed.

(** the same inputs now wait once for writability and return what getpeername/SO_ERROR say *)
Lemma run_connect_eintr_waits : forall c, 1 <= c_limit c -> connect_interrupted c = true ->
  exists r s, run_connect (c_limit c) (c_script c) (init_st c) = (ORet r, s) /\ List.length (s_waits s) = 1%nat.
Proof.
  intros c LIM NE. unfold run_connect, run_connect_gen, enter.
  assert (L0 : (0 <? c_limit c) = true) by lia. rewrite L0.
  unfold connect_interrupted in NE.
  destruct (c_script c) as [|[dt rsp] t]; [discriminate|].
  assert (FE : fail_errno (snd (dt, rsp)) = Some EINTR).
  { destruct rsp; try discriminate; cbn; [reflexivity | f_equal; lia]. }
  rewrite (kcall_fail _ _ _ _ _ _ FE). change (-1 =? 0) with false. cbv beta iota. cbn [s_errno].
  change (in_progress_gen true EINTR) with true. cbv iota.
  unfold do_wait. cbn [s_wfail s_clock s_errno s_nb s_reqs s_moved s_waits].
  match goal with |- context [match ?w with [] => _ | _ :: _ => _ end] => destruct w as [|b w'] end;
    [|destruct b]; cbn [negb];
    repeat match goal with |- context [if ?b then _ else _] => destruct b end;
    eexists; eexists; (split; [reflexivity|]);
    cbn [restore set_errno set_nb s_waits]; rewrite app_length; unfold init_st; reflexivity.
Qed.
