(** The theorems of C16, C17, C18 about the model, and the readable meaning of the oracles. *)
From OCV Require Import Base.Prelude Syscall.SockIO Syscall.SockIOOracle Syscall.SockIOProofs
     Syscall.SockIOInv Syscall.SockIOBuf Syscall.SockIOVec Syscall.SockIOMisc.
From Coq Require Import ZifyBool ZifyNat.
Open Scope Z_scope.

Lemma wf_parts : forall c, wf c = true ->
  1 <= c_limit c /\ forallb wf_script_entry (c_script c) = true.
Proof.
  intros c W. unfold wf, wf_input in W. repeat (apply andb_true_iff in W as [W ?]). split; [lia | assumption].
Qed.

(** every well-formed byte-moving call returns, and ends in [Final] *)
Lemma run_final : forall c, wf c = true -> moves_bytes c = true ->
  exists r s, run_call c = (ORet r, s) /\ Final (c_lens c) (c_shape c) (c_nb c) r s.
Proof.
  intros c W MB. destruct (wf_parts c W) as [LIM WS].
  unfold run_call. unfold moves_bytes in MB. destruct (c_shape c) as [d|d fl| |] eqn:SH; try discriminate.
  - assert (L1 : c_lens c = [hd O (c_lens c)]).
    { unfold wf, wf_input in W. rewrite SH in W. apply andb_true_iff in W as [_ W].
      destruct (c_lens c) as [|a [|b t]]; cbn in W; try discriminate. reflexivity. }
    pose proof (run_buf_ok d c WS) as B.
    destruct (run_buf d (c_limit c) (hd O (c_lens c)) (c_script c) (init_st c)) as [[r| |] s]; try contradiction.
    exists r, s. split; [reflexivity|]. rewrite L1. exact B.
  - pose proof (run_vec_ok d fl c WS) as B.
    destruct (run_vec d fl (c_limit c) (c_lens c) (c_script c) (init_st c)) as [[r| |] s]; try contradiction.
    exists r, s. split; [reflexivity | exact B].
Qed.

Theorem ok_C16_run : forall c, wf c = true -> moves_bytes c = true -> ok_C16 c (run_obs c) = true.
Proof.
  intros c W MB. destruct (run_final c W MB) as (r & s & E & F). unfold run_obs. rewrite E. cbn [ok_C16].
  unfold moves_bytes in MB. destruct (shape_dir (c_shape c)) as [d|] eqn:D; [|discriminate].
  eapply final_C16; eassumption.
Qed.

Theorem ok_C17_run : forall c, wf c = true -> moves_bytes c = true -> ok_C17 c (run_obs c) = true.
Proof.
  intros c W MB. destruct (run_final c W MB) as (r & s & E & F). unfold run_obs. rewrite E. cbn [ok_C17].
  apply final_C17; assumption.
Qed.

Lemma no_defect_parts : forall c, no_defect c = true ->
  c_nb c = true -> s_waits (snd (run_call c)) = [].
Proof.
  intros c H N. unfold no_defect, defect_nonblocking_fd_waits in H.
  rewrite N in H. cbn [andb] in H.
  destruct (s_waits (snd (run_call c))); [reflexivity | discriminate].
Qed.

(** every accepted call returns, whatever the entry point (in particular an interrupted connect) *)
Theorem every_call_returns : forall c, wf c = true -> exists o, run_obs c = RObs o.
Proof.
  intros c W. destruct (moves_bytes c) eqn:MB.
  - destruct (run_final c W MB) as (r & s & E & _). unfold run_obs. rewrite E. eexists. reflexivity.
  - destruct (wf_parts c W) as [LIM _]. unfold run_obs, run_call. unfold moves_bytes in MB.
    destruct (c_shape c) eqn:SH; try discriminate.
    + pose proof (run_accept_ok c) as B.
      destruct (run_accept (c_limit c) (c_script c) (init_st c)) as [[r| |] s]; try contradiction.
      eexists. reflexivity.
    + pose proof (run_connect_ok c LIM) as B.
      destruct (run_connect (c_limit c) (c_script c) (init_st c)) as [[r| |] s]; try contradiction.
      eexists. reflexivity.
Qed.

(** C18 outside the recorded finding *)
Theorem ok_C18_outside : forall c, wf c = true -> no_defect c = true -> ok_C18 c (run_obs c) = true.
Proof.
  intros c W ND. pose proof (no_defect_parts c ND) as NW.
  destruct (moves_bytes c) eqn:MB.
  - destruct (run_final c W MB) as (r & s & E & F). unfold run_obs. rewrite E in *. cbn [ok_C18].
    apply final_C18; assumption.
  - destruct (wf_parts c W) as [LIM WS]. revert NW. unfold run_obs, run_call. unfold moves_bytes in MB.
    destruct (c_shape c) eqn:SH; try discriminate; intros NW.
    + pose proof (run_accept_ok c) as B.
      destruct (run_accept (c_limit c) (c_script c) (init_st c)) as [[r| |] s]; try contradiction.
      cbn [ok_C18]. apply final18_C18; [rewrite SH; exact B | exact NW].
    + pose proof (run_connect_ok c LIM) as B.
      destruct (run_connect (c_limit c) (c_script c) (init_st c)) as [[r| |] s]; try contradiction.
      cbn [ok_C18]. apply final18_C18; [rewrite SH; exact B | exact NW].
Qed.

(** every hooked call leaves the blocking mode as the caller set it: all ten entry points, every
    accepted input (every such call returns: [every_call_returns]) *)
Theorem mode_restored : forall c o, wf c = true -> run_obs c = RObs o -> o_nb_after o = c_nb c.
Proof.
  intros c o W E.
  destruct (wf_parts c W) as [LIM WS].
  destruct (moves_bytes c) eqn:MB.
  - destruct (run_final c W MB) as (r & s & E2 & F). unfold run_obs in E. rewrite E2 in E.
    inversion E; subst o. cbn [o_nb_after]. eapply final_mode; exact F.
  - unfold run_obs, run_call in E. unfold moves_bytes in MB.
    destruct (c_shape c) eqn:SH; try discriminate.
    + pose proof (run_accept_ok c) as B.
      destruct (run_accept (c_limit c) (c_script c) (init_st c)) as [[r| |] s]; try contradiction.
      inversion E; subst o. exact (proj1 B).
    + pose proof (run_connect_ok c LIM) as B.
      destruct (run_connect (c_limit c) (c_script c) (init_st c)) as [[r| |] s]; try contradiction.
      inversion E; subst o. exact (proj1 B).
Qed.

(** the repaired [connect_eintr_spins]: a hooked connect whose inner call is interrupted used to spin
    for ever; it now waits once for writability, returns, and restores the mode *)
Theorem old_connect_eintr_spins : forall c, wf_input c = true -> connect_interrupted c = true ->
  fst (old_run_connect (c_limit c) (c_script c) (init_st c)) = OStuck.
Proof.
  intros c WI CI. apply old_run_connect_eintr_stuck; [|exact CI].
  unfold wf_input in WI. repeat (apply andb_true_iff in WI as [WI ?]). lia.
Qed.

Theorem connect_eintr_returns : forall c, wf_input c = true -> c_shape c = SConnect ->
  connect_interrupted c = true ->
  exists o, run_obs c = RObs o /\ List.length (o_waits o) = 1%nat /\ o_nb_after o = c_nb c.
Proof.
  intros c WI SH CI.
  assert (LIM : 1 <= c_limit c).
  { unfold wf_input in WI. repeat (apply andb_true_iff in WI as [WI ?]). lia. }
  destruct (run_connect_eintr_waits c LIM CI) as (r & s & E & WL).
  assert (RO : run_obs c = RObs (mkObs r (if r =? -1 then s_errno s else 0) (s_reqs s)
                                      (data_of c (s_moved s)) (s_waits s) (s_nb s) false)).
  { unfold run_obs, run_call. rewrite SH, E. reflexivity. }
  eexists. split; [exact RO|]. split; [exact WL|].
  exact (mode_restored c _ WI RO).
Qed.

(** a zero-length request returns 0 (and makes no kernel call that moves anything) *)
Theorem zero_len_returns_0 : forall c, wf c = true -> moves_bytes c = true -> total (c_lens c) = O ->
  exists o, run_obs c = RObs o /\ o_ret o = 0.
Proof.
  intros c W MB T. destruct (run_final c W MB) as (r & s & E & (F & (G1 & G2 & G3 & G4 & G5) & NB & R)).
  unfold run_obs. rewrite E. eexists. split; [reflexivity|]. cbn [o_ret].
  destruct R as [-> | (_ & _ & T' & _)]; lia.
Qed.

(** * what the oracles say, in Prop *)
Lemma list_eqb_Z_true : forall a b, list_eqb Z.eqb a b = true -> a = b.
Proof. intros a b H. apply (list_eqb_eq Z.eqb); [intros; apply Z.eqb_eq | exact H]. Qed.

Definition placed_in_order (c : cfg) (n : nat) (data : list Z) : Prop :=
  match shape_dir (c_shape c) with
  | Some Rd => data = ids n ++ repeat 0 (total (c_lens c) - n)   (* stream byte i sits at flattened position i *)
  | Some Wr => data = ids n                                      (* the kernel consumed caller bytes 0..n-1 in order *)
  | None => True
  end.

Lemma data_in_order_sound : forall c n data, data_in_order c n data = true -> placed_in_order c n data.
Proof.
  intros c n data H. unfold data_in_order in H. unfold placed_in_order.
  destruct (shape_dir (c_shape c)) as [[|]|]; auto using list_eqb_Z_true.
Qed.

Theorem C16_total_of_ok : forall c o, ok_C16 c (RObs o) = true -> o_ret o <> -1 ->
  o_ret o = Z.of_nat (kernel_moved (o_reqs o)) /\ o_scribbled o = false.
Proof.
  intros c o H N. cbn [ok_C16] in H. unfold ok_C16_obs in H.
  apply andb_true_iff in H as [S H]. destruct (o_ret o =? -1) eqn:E; [lia|].
  repeat (apply andb_true_iff in H as [H ?]). split; [lia|]. destruct (o_scribbled o); [discriminate | reflexivity].
Qed.

Theorem C16_in_order_of_ok : forall c o, ok_C16 c (RObs o) = true -> o_ret o <> -1 ->
  placed_in_order c (kernel_moved (o_reqs o)) (o_data o).
Proof.
  intros c o H N. cbn [ok_C16] in H. unfold ok_C16_obs in H.
  apply andb_true_iff in H as [S H]. destruct (o_ret o =? -1) eqn:E; [lia|].
  repeat (apply andb_true_iff in H as [H ?]). now apply data_in_order_sound.
Qed.

Theorem C16_minus_one_of_ok : forall c o, ok_C16 c (RObs o) = true -> o_ret o = -1 ->
  kernel_moved (o_reqs o) = O /\ placed_in_order c O (o_data o) /\ (0 < total (c_lens c))%nat
  /\ last_err (o_reqs o) = Some (o_errno o) /\ o_errno o <> 0.
Proof.
  intros c o H N. cbn [ok_C16] in H. unfold ok_C16_obs in H.
  apply andb_true_iff in H as [S H]. rewrite N in H. change (-1 =? -1) with true in H. cbv iota in H.
  repeat (apply andb_true_iff in H as [H ?]).
  split; [lia|]. split; [now apply data_in_order_sound|]. split; [lia|]. split; [|lia].
  destruct (last_err (o_reqs o)) as [e|]; cbn in *; [f_equal; lia | discriminate].
Qed.

(** C17: request by request, with the bytes moved before it *)
Fixpoint c17_spec (lens : list nat) (filled : nat) (reqs : list request) : Prop :=
  match reqs with
  | [] => True
  | q :: t => ranges_ok lens filled true (q_ranges q) = true /\ q_count q = List.length (q_ranges q)
              /\ c17_spec lens (filled + q_moved q) t
  end.

Lemma c17_fold_sound : forall lens reqs b F,
  fst (fold_left (c17_step lens) reqs (b, F)) = true -> b = true /\ c17_spec lens F reqs.
Proof.
  induction reqs as [|q t IH]; intros b F H; cbn [fold_left c17_spec] in *.
  - split; [exact H | exact I].
  - unfold c17_step at 2 in H. cbn [fst snd] in H. apply IH in H as [H S].
    apply andb_true_iff in H as [Hb Hq]. unfold req_ok in Hq. apply andb_true_iff in Hq as [Hr Hc].
    split; [exact Hb|]. split; [exact Hr|]. split; [apply Nat.eqb_eq; exact Hc | exact S].
Qed.

Theorem C17_spec_of_ok : forall c o, ok_C17 c (RObs o) = true -> c17_spec (c_lens c) O (o_reqs o).
Proof. intros c o H. cbn [ok_C17] in H. unfold ok_C17_obs in H. now apply c17_fold_sound in H. Qed.

(** what [ranges_ok] means for each range of a request made when [cur] bytes were filled *)
Lemma ranges_ok_sound : forall lens rs cur ex, ranges_ok lens cur ex rs = true ->
  Forall (fun r => let '(sg, off, len) := r in
            (sg < List.length lens)%nat /\ (off + len <= nth sg lens O)%nat
            /\ ((0 < len)%nat -> (cur <= stage lens sg + off)%nat)) rs.
Proof.
  induction rs as [|[[sg off] len] rs IH]; intros cur ex H; [constructor|].
  cbn [ranges_ok] in H. apply andb_true_iff in H as [H H2]. apply andb_true_iff in H as [H0 H1].
  destruct (len =? 0)%nat eqn:E.
  - constructor; [repeat split; lia | eapply IH; exact H2].
  - apply andb_true_iff in H2 as [H2 H3].
    assert (C0 : (cur <= stage lens sg + off)%nat) by (destruct ex; lia).
    constructor; [repeat split; lia|].
    apply IH in H3. eapply Forall_impl; [|exact H3]. intros [[a b] c']. cbn. intros (A & B & C).
    repeat split; auto. intros P. specialize (C P). lia.
Qed.

(** the first non-empty range of a request starts exactly at the first unfilled byte *)
Lemma ranges_ok_first : forall lens rs cur, ranges_ok lens cur true rs = true ->
  match filter (fun r => (0 <? snd r)%nat) rs with
  | (sg, off, _) :: _ => (stage lens sg + off)%nat = cur
  | [] => True
  end.
Proof.
  induction rs as [|[[sg off] len] rs IH]; intros cur H; [exact I|].
  cbn [ranges_ok] in H. apply andb_true_iff in H as [_ H2]. cbn [filter snd].
  destruct (len =? 0)%nat eqn:E.
  - assert (E2 : (0 <? len)%nat = false) by lia. rewrite E2. apply IH. exact H2.
  - assert (E2 : (0 <? len)%nat = true) by lia. rewrite E2. apply andb_true_iff in H2 as [H2 _]. lia.
Qed.

(** C18 *)
Theorem C18_mode_of_ok : forall c o, ok_C18 c (RObs o) = true -> o_nb_after o = c_nb c.
Proof.
  intros c o H. cbn [ok_C18] in H. unfold ok_C18_obs in H. apply andb_true_iff in H as [H _].
  now apply eqb_prop in H.
Qed.

Lemma c18_fold_false : forall sh reqs w, fst (fold_left (c18_step sh) reqs (false, w)) = false.
Proof. induction reqs as [|q t IH]; intros w; cbn [fold_left]; [reflexivity|]. unfold c18_step at 2. cbn. apply IH. Qed.

Theorem C18_nonblocking_of_ok : forall c o, ok_C18 c (RObs o) = true -> c_nb c = true ->
  o_waits o = [] /\
  forall q t, o_reqs o = q :: t -> would_block (c_shape c) (q_err q) = true ->
    t = [] /\ (q_moved q = O -> o_ret o = -1 /\ o_errno o = q_err q).
Proof.
  intros c o H N. cbn [ok_C18] in H. unfold ok_C18_obs in H. apply andb_true_iff in H as [_ H].
  rewrite N in H. apply andb_true_iff in H as [W H]. split; [destruct (o_waits o); [reflexivity | discriminate]|].
  intros q t Q WB. rewrite Q in H. cbn [fold_left] in H. unfold c18_step at 2 in H. cbn [fst snd negb andb orb] in H.
  rewrite WB in H. destruct t as [|q2 t].
  - split; [reflexivity|]. intros M. cbn [fold_left] in H. cbn [andb] in H.
    unfold kernel_moved in H. cbn [fold_left] in H. rewrite M in H. cbn [Nat.add Nat.eqb] in H.
    apply andb_true_iff in H as [R L]. unfold last_err in L. cbn [fold_left] in L. cbn [option_eqb] in L.
    split; lia.
  - exfalso. cbn [fold_left] in H. unfold c18_step at 2 in H. cbn [fst snd negb andb] in H.
    pose proof (c18_fold_false (c_shape c) t (true || would_block (c_shape c) (q_err q2))) as Ff.
    destruct (fold_left (c18_step (c_shape c)) t (false, true || would_block (c_shape c) (q_err q2))) as [a b].
    cbn [fst] in Ff. subst a. discriminate.
Qed.
