(** Model of the socket time-limit bookkeeping: [SEND_TIME_LIMIT] / [RECV_TIME_LIMIT],
    [send_time_limit] / [recv_time_limit] (core/src/syscall/unix/mod.rs), the hook in
    [NioSetsockoptSyscall::setsockopt] (setsockopt.rs) and [NioCloseSyscall::close] (close.rs),
    against a modelled kernel: a table [fd -> (SO_RCVTIMEO, SO_SNDTIMEO)] of live sockets with
    lowest-free descriptor allocation. Time values are [(tv_sec, tv_usec)] pairs; cached limits are
    nanosecond counts as computed by [get_time_limit] (Misc/Time.v). The model is the code after the
    repairs of [setsockopt_negative_sec_aborts] and [limit_on_closed_fd_aborts]. *)
From OCV Require Import Base.Prelude Misc.Time.
Open Scope Z_scope.

Inductive which := Rcv | Snd.

Definition tv := (Z * Z)%type.
Definition opts := (tv * tv)%type.            (* (SO_RCVTIMEO, SO_SNDTIMEO) *)

Definition sel (w : which) (o : opts) : tv := match w with Rcv => fst o | Snd => snd o end.
Definition upd (w : which) (t : tv) (o : opts) : opts :=
  match w with Rcv => (t, snd o) | Snd => (fst o, t) end.

(** Association lists keyed by descriptor number ([DashMap<c_int, _>] and the kernel table). *)
Fixpoint alookup {A} (k : Z) (l : list (Z * A)) : option A :=
  match l with
  | [] => None
  | (k', v) :: l' => if k' =? k then Some v else alookup k l'
  end.
Fixpoint aremove {A} (k : Z) (l : list (Z * A)) : list (Z * A) :=
  match l with
  | [] => []
  | (k', v) :: l' => if k' =? k then aremove k l' else (k', v) :: aremove k l'
  end.
(** insert-or-overwrite: an existing key keeps its place, a new key goes to the end *)
Fixpoint ainsert {A} (k : Z) (v : A) (l : list (Z * A)) : list (Z * A) :=
  match l with
  | [] => [(k, v)]
  | (k', v') :: l' => if k' =? k then (k, v) :: l' else (k', v') :: ainsert k v l'
  end.
Definition amem {A} (k : Z) (l : list (Z * A)) : bool :=
  match alookup k l with Some _ => true | None => false end.

(** Kernel rule for a new descriptor: the lowest number not in use. The scan starts at [k] and looks
    at [fuel] candidates; with [fuel = length + 1] one of them is free (pigeonhole, proved). *)
Fixpoint scan_free {A} (fuel : nat) (k : Z) (l : list (Z * A)) : Z :=
  match fuel with
  | O => k
  | S f => if amem k l then scan_free f (k + 1) l else k
  end.
Definition lowest_free {A} (l : list (Z * A)) : Z := scan_free (S (length l)) 0 l.

Record state := {
  st_open : list (Z * opts);      (* kernel: live sockets and their two options *)
  st_rc : list (Z * Z);           (* RECV_TIME_LIMIT *)
  st_sc : list (Z * Z)            (* SEND_TIME_LIMIT *)
}.
Definition init : state := {| st_open := []; st_rc := []; st_sc := [] |}.

Definition cache (w : which) (s : state) : list (Z * Z) :=
  match w with Rcv => st_rc s | Snd => st_sc s end.
Definition set_cache (w : which) (c : list (Z * Z)) (s : state) : state :=
  match w with
  | Rcv => {| st_open := st_open s; st_rc := c; st_sc := st_sc s |}
  | Snd => {| st_open := st_open s; st_rc := st_rc s; st_sc := c |}
  end.
Definition set_open (o : list (Z * opts)) (s : state) : state :=
  {| st_open := o; st_rc := st_rc s; st_sc := st_sc s |}.

Inductive op :=
| Socket                                        (* a new socket; both options start as (0, 0) *)
| SetOpt (fd : Z) (w : which) (sec usec : Z)    (* hooked setsockopt(SOL_SOCKET, SO_xxxTIMEO) *)
| Limit (fd : Z) (w : which)                    (* recv_time_limit / send_time_limit, as every hooked I/O calls it *)
| KGet (fd : Z) (w : which)                     (* the kernel's own view: raw getsockopt *)
| Close (fd : Z).                               (* hooked close *)

Inductive obs :=
| OFd (n : Z)
| ORet (r : Z)
| OVal (v : Z)
| OTv (sec usec : Z)
| OAbort                 (* panic inside an extern "C" function: the process is gone *)
| ODiverged.             (* watchdog; never produced by the model *)

(** What Linux [sock_set_timeout] stores for an accepted value. A negative [tv_sec] is accepted and
    stored as a ZERO timeout: operations on the socket time out at once, and getsockopt reports it as
    (0, 0), exactly like "no timeout". The table keeps the marker [ZERO_TIMEOUT] for it; [read_back]
    is what getsockopt answers. Tick rounding and the clamp for astronomically large [tv_sec] are
    outside the model; [wf] keeps inputs away from both. *)
Definition ZERO_TIMEOUT : tv := (-1, 0).
Definition kernel_store (sec usec : Z) : tv := if sec <? 0 then ZERO_TIMEOUT else (sec, usec).
Definition read_back (t : tv) : tv := if fst t <? 0 then (0, 0) else t.

(** The code before two repairs, kept as parameters of the model ([current] is the code as it is):
    - [v_negsec_panics]: [get_time_limit] panicked on a negative [tv_sec] (finding
      [setsockopt_negative_sec_aborts]); it now answers the shortest limit, 1 ns;
    - [v_badfd_panics]: [recv_time_limit]/[send_time_limit] panicked when getsockopt failed with
      EBADF (finding [limit_on_closed_fd_aborts]); they now answer "no limit" without caching. *)
Record version := { v_negsec_panics : bool; v_badfd_panics : bool }.
Definition current : version := {| v_negsec_panics := false; v_badfd_panics := false |}.
Definition before_negsec_repair : version := {| v_negsec_panics := true; v_badfd_panics := false |}.
Definition before_badfd_repair : version := {| v_negsec_panics := false; v_badfd_panics := true |}.

Definition time_limit_of (ver : version) (sec usec : Z) : option Z :=
  if v_negsec_panics ver && (sec <? 0) then None else get_time_limit sec usec.

(** Branch tags, reported by the run for coverage and for recognising listed findings. *)
Inductive tag := TOverwrite | TFill | THit | TEvict | TNegSec | TBadFd | TSaturate.

Definition step_gen (ver : version) (s : state) (o : op) : state * obs * list tag :=
  match o with
  | Socket =>
      let fd := lowest_free (st_open s) in
      (set_open (ainsert fd ((0, 0), (0, 0)) (st_open s)) s, OFd fd, [])
  | SetOpt fd w sec usec =>
      match alookup fd (st_open s) with
      | None => (s, ORet (-1), [TBadFd])                         (* EBADF: r <> 0, hook does nothing *)
      | Some o =>
          if (usec <? 0) || (1000000 <=? usec) then (s, ORet (-1), [])   (* EDOM *)
          else
            let s1 := set_open (ainsert fd (upd w (kernel_store sec usec) o) (st_open s)) s in
            (* r = 0: the hook caches get_time_limit of the caller's timeval, overwriting *)
            match time_limit_of ver sec usec with
            | None => (s1, OAbort, if sec <? 0 then [TNegSec] else [])     (* expect("overflow") *)
            | Some v =>
                (set_cache w (ainsert fd v (cache w s1)) s1, ORet 0,
                 (if amem fd (cache w s) then [TOverwrite] else [])
                 ++ (if v =? U64MAX then [TSaturate] else [])
                 ++ (if sec <? 0 then [TNegSec] else []))
            end
      end
  | Limit fd w =>
      match alookup fd (cache w s) with
      | Some v => (s, OVal v, [THit])
      | None =>
          match alookup fd (st_open s) with
          | None =>
              (* getsockopt: EBADF -> "no limit", nothing cached (before the repair: panic) *)
              if v_badfd_panics ver then (s, OAbort, [TBadFd]) else (s, OVal U64MAX, [TBadFd])
          | Some o =>
              (* the value getsockopt reports *)
              let t := read_back (sel w o) in
              match time_limit_of ver (fst t) (snd t) with
              | None => (s, OAbort, [])
              | Some v => (set_cache w (ainsert fd v (cache w s)) s, OVal v, [TFill])
              end
          end
      end
  | KGet fd w =>
      match alookup fd (st_open s) with
      | None => (s, ORet (-1), [TBadFd])
      | Some o => (s, OTv (fst (read_back (sel w o))) (snd (read_back (sel w o))), [])
      end
  | Close fd =>
      (* both caches forget the descriptor, then the inner close *)
      let s1 := {| st_open := st_open s; st_rc := aremove fd (st_rc s); st_sc := aremove fd (st_sc s) |} in
      let ev := if amem fd (st_rc s) || amem fd (st_sc s) then [TEvict] else [] in
      match alookup fd (st_open s) with
      | None => (s1, ORet (-1), TBadFd :: ev)
      | Some _ => (set_open (aremove fd (st_open s)) s1, ORet 0, ev)
      end
  end.

Definition step : state -> op -> state * obs * list tag := step_gen current.

(** A run stops at the first abort. *)
Fixpoint run_from_gen (ver : version) (s : state) (ops : list op) : list obs :=
  match ops with
  | [] => []
  | o :: ops' =>
      let '(s', r, _) := step_gen ver s o in
      match r with
      | OAbort => [OAbort]
      | _ => r :: run_from_gen ver s' ops'
      end
  end.
Definition run_from : state -> list op -> list obs := run_from_gen current.

Fixpoint tags_from (s : state) (ops : list op) : list tag :=
  match ops with
  | [] => []
  | o :: ops' =>
      let '(s', r, t) := step s o in
      match r with
      | OAbort => t
      | _ => t ++ tags_from s' ops'
      end
  end.
