(** Model of the hooked timed calls on a plain thread: argument validation, unit conversion and
    slice loops of [sleep], [usleep], [nanosleep], [poll], [select], [pthread_cond_timedwait]
    (core/src/syscall/unix/*.rs), on top of Net/Wait.v. Inner calls are scripted as "nothing
    ready": the zero-timeout probes of poll/select return 0, the native timed condition wait runs
    until its absolute time and returns ETIMEDOUT. *)
From OCV Require Import Base.Prelude Misc.Time Net.Wait.
Open Scope Z_scope.

Definition I32MAX : Z := 2147483647.
Definition EINVAL : Z := 22.
Definition ETIMEDOUT : Z := 110.

Inductive call :=
| Sleep (secs : Z)                 (* c_uint *)
| Usleep (us : Z)                  (* c_uint *)
| Nanosleep (sec nsec : Z)         (* timespec *)
| Poll (ms : Z)                    (* c_int *)
| Select (sec usec : Z)            (* timeval, non-null *)
| CondWait (sec nsec : Z).         (* absolute timespec, non-null *)

(** Result of a call: return value and the thread's errno afterwards (0 = cleared or untouched). *)
Inductive outcome := Ret (r : Z) (errno : Z) | Diverged.

(** poll: [t] remaining ms ([I32MAX] = no limit), [x] current slice in ms. *)
Fixpoint poll_loop (fuel : nat) (t x : Z) (s : world) : option world :=
  match fuel with
  | O => None
  | S f =>
      let s1 := emit EP s in                       (* r = inner.poll(fds, nfds, 0) = 0 *)
      if t =? 0 then Some s1
      else
        match wait_event (Z.min t x * 1000000) s1 with
        | None => None
        | Some s2 =>
            let t' := if t =? I32MAX then t else if x <? t then t - x else 0 in
            let x' := if x <? 16 then 2 * x else x in
            poll_loop f t' x' s2
        end
  end.

(** select (after the unit repair): [t] remaining ms in u64 ([U64MAX] = no limit). *)
Fixpoint select_loop (fuel : nat) (t x : Z) (s : world) : option world :=
  match fuel with
  | O => None
  | S f =>
      let s1 := emit EP s in                       (* r = inner.select(.., &zero) = 0 *)
      if t =? 0 then Some s1
      else
        match wait_event (Z.min t x * 1000000) s1 with
        | None => None
        | Some s2 =>
            let t' := if t =? U64MAX then t else sat_sub t x in
            let x' := if x <? 16 then 2 * x else x in
            select_loop f t' x' s2
        end
  end.

Definition select_ms (sec usec : Z) : Z :=
  sat_add64 (sat_mul64 sec 1000) ((usec + 999) / 1000).

(** pthread_cond_timedwait: deadline loop around the native call and [wait_event]. *)
Fixpoint cond_loop (fuel : nat) (abst : Z) (s : world) : option world :=
  match fuel with
  | O => None
  | S f =>
      let left := sat_sub abst (clk s) in
      if left =? 0 then Some s
      else
        let next := sat_add64 (clk s) (Z.min left SLICE_NS) in
        (* native pthread_cond_timedwait(next): nothing signalled, ETIMEDOUT at [next] *)
        let s1 := elapse (sat_sub next (clk s)) (emit (EI next) s) in
        let left2 := sat_sub abst (clk s1) in
        if left2 =? 0 then Some s1
        else
          match wait_event (Z.min left2 SLICE_NS) s1 with
          | None => None
          | Some s2 => cond_loop f abst s2
          end
  end.

Definition cond_fuel (abst : Z) (s : world) : nat :=
  length (beh s) + Z.to_nat (sat_sub abst (clk s) / SLICE_NS) + 2.

Definition bad_timespec (sec nsec : Z) : bool := (sec <? 0) || (nsec <? 0) || (999999999 <? nsec).

Definition fin (o : option world) (r e : Z) (s : world) : outcome * world :=
  match o with Some s' => (Ret r e, s') | None => (Diverged, s) end.

Definition run_call (c : call) (s : world) : outcome * world :=
  match c with
  | Sleep secs => fin (wait_event (secs * 1000000000) s) 0 0 s
  | Usleep us => fin (wait_event (us * 1000) s) 0 0 s
  | Nanosleep sec nsec =>
      if bad_timespec sec nsec then (Ret (-1) EINVAL, s)
      else fin (wait_event (sec * 1000000000 + nsec) s) 0 0 s
  | Poll ms =>
      let t := if ms <? 0 then I32MAX else ms in
      if t =? I32MAX then (Diverged, s)             (* no limit and nothing ever ready *)
      else fin (poll_loop (S (Z.to_nat t)) t 1 s) 0 0 s
  | Select sec usec =>
      if (sec <? 0) || (usec <? 0) then (Ret (-1) EINVAL, s)
      else
        let t := select_ms sec usec in
        if t =? U64MAX then (Diverged, s)
        else fin (select_loop (S (Z.to_nat t)) t 1 s) 0 0 s
  | CondWait sec nsec =>
      if bad_timespec sec nsec then (Ret EINVAL 0, s)
      else
        let abst := Z.min (sec * 1000000000 + nsec) U64MAX in
        fin (cond_loop (cond_fuel abst s) abst s) ETIMEDOUT 0 s
  end.
