(** The state invariant of the model, conservation of items per step, and the case analysis of
    [lpop] used by the oracle-level proofs. *)
From OCV Require Import Base.Prelude Queue.PMap Queue.OWS Queue.OWSOracle Queue.OWSLemmas Queue.OWSModel.
From Coq Require Import ZifyBool ZifyNat Permutation Sorted.
Open Scope Z_scope.

Definition hd_ok (n : nat) (hd : handle) : Prop := (h_ix hd < n)%nat /\ 0 <= h_len hd.

Record Inv (n : nat) (cap : Z) (s : sys) : Prop := {
  inv_cap : s_cap s = cap;
  inv_nloc : length (s_locals s) = n;
  inv_I2 : I2 s;
  inv_wf : wfL s;
  inv_hd : Forall (hd_ok n) (s_handles s);
  inv_cap0 : cap <= 0 -> all_local_items s = []
}.

Lemma Inv_init n cap : Inv n cap (init n cap).
Proof.
  constructor; cbn [init s_cap s_locals s_handles s_shq s_shlen].
  - reflexivity.
  - apply repeat_length.
  - reflexivity.
  - unfold wfL. cbn [init s_locals]. apply Forall_forall. intros m Hm.
    apply repeat_spec in Hm. subst. apply pm_sorted_nil.
  - constructor.
  - intros _. unfold all_local_items. cbn [init s_locals].
    induction n as [|n IH]; [reflexivity|]. cbn [repeat map concat]. exact IH.
Qed.

Lemma Inv_moves n cap s s1 : Inv n cap s -> moves s s1 -> Inv n cap s1.
Proof.
  intros [c nl i2 w hd c0] Hm. constructor.
  - rewrite (mv_cap _ _ Hm). exact c.
  - rewrite (mv_nloc _ _ Hm). exact nl.
  - apply (mv_I2 _ _ Hm), i2.
  - apply (mv_wf _ _ Hm).
  - rewrite (mv_handles _ _ Hm). exact hd.
  - intro Hc. eapply moves_ali_nil; [exact Hm | apply c0, Hc].
Qed.

Lemma Inv_upd_handle n cap s h hd : Inv n cap s -> hd_ok n hd -> Inv n cap (upd_handle s h hd).
Proof.
  intros [c nl i2 w hdf c0] Hok. constructor; autorewrite with sys; try assumption.
  apply Forall_set_nth; assumption.
Qed.

Lemma Inv_gpush n cap s p x : Inv n cap s -> Inv n cap (gpush s p x).
Proof.
  intros [c nl i2 w hdf c0]. constructor; autorewrite with sys; try assumption.
  apply I2_gpush, i2.
Qed.

Lemma Inv_hd n cap s h hd : Inv n cap s -> nth_error (s_handles s) h = Some hd -> hd_ok n hd.
Proof.
  intros HI Hn. pose proof (inv_hd _ _ _ HI) as HF. rewrite Forall_forall in HF.
  apply HF. eapply nth_error_In, Hn.
Qed.

Lemma Inv_gpop n cap s s1 r : Inv n cap s -> gpop s = (s1, r) ->
  Inv n cap s1 /\ forall z, tot z s = (cnt z (match r with Some x => [x] | None => [] end) + tot z s1)%nat.
Proof.
  intros HI Hg. destruct r as [x|].
  - apply gpop_some in Hg as (k & q & Hp & ->). split.
    + destruct HI as [c nl i2 w hdf c0]. constructor; autorewrite with sys; try assumption.
      eapply I2_gpop_some; eassumption.
    + intro z. rewrite cnt_cons, cnt_nil. rewrite (tot_gpop_some z s k x q Hp). lia.
  - apply gpop_none in Hg as ->. split; [exact HI|]. intro z. rewrite cnt_nil. lia.
Qed.

(** * lpush *)

Lemma lpush_bad s h p x : nth_error (s_handles s) h = None -> lpush s h p x = (s, OBad).
Proof. unfold lpush. intros ->. reflexivity. Qed.

Lemma lpush_spec n cap s h hd p x :
  Inv n cap s -> nth_error (s_handles s) h = Some hd ->
  snd (lpush s h p x) = OUnit /\ Inv n cap (fst (lpush s h p x)) /\
  forall z, tot z (fst (lpush s h p x)) = (one z x + tot z s)%nat.
Proof.
  intros HI Hn. pose proof (Inv_hd _ _ _ _ _ HI Hn) as [Hix Hlen].
  pose proof (inv_wf _ _ _ HI) as Hw. pose proof (inv_nloc _ _ _ HI) as Hnl.
  unfold lpush. rewrite Hn.
  destruct (s_cap s <=? h_len hd) eqn:E1.
  - destruct (push_to_global_spec s h hd p x Hw ltac:(lia)) as (s1 & hd' & Hm & -> & Hi' & Hl' & _).
    cbn [fst snd]. split; [reflexivity|]. split.
    + apply Inv_gpush, Inv_upd_handle; [eapply Inv_moves; eassumption|].
      split; [rewrite Hi'; exact Hix | exact Hl'].
    + intro z. rewrite tot_gpush, tot_upd_handle, (moves_tot _ _ z Hm). reflexivity.
  - set (m1 := pm_ensure p (local_of s (h_ix hd))).
    destruct (rcap (s_cap s) <=? Z.of_nat (length (pm_get p m1))) eqn:E2.
    + pose proof (moves_ensure s (h_ix hd) p Hw) as Hm0. fold m1 in Hm0.
      destruct (push_to_global_spec (upd_local s (h_ix hd) m1) h hd p x (mv_wf _ _ Hm0)
                  ltac:(rewrite nloc_upd_local; lia)) as (s1 & hd' & Hm & -> & Hi' & Hl' & _).
      cbn [fst snd]. split; [reflexivity|]. split.
      * apply Inv_gpush, Inv_upd_handle.
        -- eapply Inv_moves; [|exact Hm]. eapply Inv_moves; eassumption.
        -- split; [rewrite Hi'; exact Hix | exact Hl'].
      * intro z. rewrite tot_gpush, tot_upd_handle, (moves_tot _ _ z Hm), (moves_tot _ _ z Hm0).
        reflexivity.
    + cbn [fst snd]. split; [reflexivity|].
      destruct (pm_find_ensure_same p (local_of s (h_ix hd))) as [r Hr]. fold m1 in Hr.
      assert (forall z, (cnt z (all_local_items (upd_local s (h_ix hd) (pm_set p (pm_get p m1 ++ [x]) m1))) =
                         one z x + cnt z (all_local_items s))%nat) as Hcnt.
      { intro z.
        pose proof (cnt_upd_local z s (h_ix hd) (pm_set p (pm_get p m1 ++ [x]) m1) ltac:(lia)) as H1.
        pose proof (cnt_pm_set z p (pm_get p m1 ++ [x]) r m1 Hr) as H3.
        rewrite (pm_find_get _ _ _ Hr) in H1, H3. rewrite cnt_app, cnt_cons, cnt_nil in H3.
        rewrite (pm_find_get _ _ _ Hr).
        assert (pm_items m1 = pm_items (local_of s (h_ix hd))) as Hi1 by apply pm_items_ensure.
        rewrite Hi1 in H3. lia. }
      split.
      * apply Inv_upd_handle; [|split; cbn [h_ix h_len]; lia].
        destruct HI as [c nl i2 w hdf c0]. constructor; autorewrite with sys; try assumption.
        -- rewrite set_nth_length. exact nl.
        -- apply wfL_upd_local; [exact w|]. apply pm_sorted_set, pm_sorted_ensure, local_of_sorted, w.
        -- intro Hc. exfalso. lia.
      * intro z. rewrite tot_upd_handle, !tot_eq. autorewrite with sys. rewrite Hcnt. lia.
Qed.

(** * pop_local *)

Definition pop_hd (hd : handle) : handle :=
  {| h_ix := h_ix hd; h_len := sat_sub (h_len hd) 1; h_tick := h_tick hd |}.

Lemma pop_local_none s h hd : pm_pop (local_of s (h_ix hd)) = None -> pop_local s h hd = (s, hd, None).
Proof. unfold pop_local. intros ->. reflexivity. Qed.

Lemma pop_local_some s h hd k x m :
  pm_pop (local_of s (h_ix hd)) = Some (k, x, m) ->
  pop_local s h hd = (upd_handle (upd_local s (h_ix hd) m) h (pop_hd hd), pop_hd hd, Some x).
Proof. unfold pop_local. intros ->. reflexivity. Qed.

Lemma Inv_pop_local_some n cap s h hd k x m :
  Inv n cap s -> hd_ok n hd -> pm_pop (local_of s (h_ix hd)) = Some (k, x, m) ->
  Inv n cap (upd_handle (upd_local s (h_ix hd) m) h (pop_hd hd)) /\
  forall z, tot z s = (one z x + tot z (upd_handle (upd_local s (h_ix hd) m) h (pop_hd hd)))%nat.
Proof.
  intros HI [Hix Hlen] Hp.
  assert (forall z, (cnt z (all_local_items s) = one z x + cnt z (all_local_items (upd_local s (h_ix hd) m)))%nat) as Hcnt.
  { intro z. pose proof (cnt_upd_local z s (h_ix hd) m ltac:(rewrite (inv_nloc _ _ _ HI); lia)) as H1.
    rewrite (pm_pop_items _ _ _ _ Hp), cnt_cons in H1. lia. }
  split.
  - apply Inv_upd_handle; [|split; cbn [pop_hd h_ix h_len]; [exact Hix | unfold sat_sub; lia]].
    destruct HI as [c nl i2 w hdf c0]. constructor; autorewrite with sys; try assumption.
    + rewrite set_nth_length. exact nl.
    + apply wfL_upd_local; [exact w|]. eapply pm_sorted_pop; [|exact Hp]. apply local_of_sorted, w.
    + intro Hc. apply cnt_all0_nil. intro z. specialize (Hcnt z). rewrite (c0 Hc), cnt_nil in Hcnt. lia.
  - intro z. rewrite tot_upd_handle, !tot_eq. autorewrite with sys. rewrite (Hcnt z). lia.
Qed.

(** * steal_from *)

Definition steal_cnt (s : sys) (hd : handle) (k : Z) (r : ring) : Z :=
  let n := Z.of_nat (length r) in
  let dest := pm_get k (pm_ensure k (local_of s (h_ix hd))) in
  let max_steal := sat_sub (half_cap (s_cap s)) (h_len hd) in
  let free := rcap (s_cap s) - Z.of_nat (length dest) in
  Z.min (Z.min (Z.min (Z.min n max_steal) ((n + 1) / 2)) free) n.

Definition steal_res (s1 : sys) (hd : handle) (j : nat) (k : Z) (r : ring) (c : nat) : sys * handle :=
  let s2 := upd_local s1 j (pm_set k (skipn c r) (local_of s1 j)) in
  let dest' := pm_get k (local_of s2 (h_ix hd)) ++ firstn c r in
  let s3 := upd_local s2 (h_ix hd) (pm_set k dest' (local_of s2 (h_ix hd))) in
  (s3, {| h_ix := h_ix hd; h_len := h_len hd + Z.of_nat (length dest'); h_tick := h_tick hd |}).

Lemma steal_from_cons k r0 rest s hd j :
  steal_from ((k, r0) :: rest) s hd j =
  match pm_get k (local_of s j) with
  | [] => steal_from rest s hd j
  | r =>
      let s1 := upd_local s (h_ix hd) (pm_ensure k (local_of s (h_ix hd))) in
      if steal_cnt s hd k r <=? 0 then steal_from rest s1 hd j
      else Some (steal_res s1 hd j k r (Z.to_nat (steal_cnt s hd k r)))
  end.
Proof.
  cbn [steal_from]. destruct (pm_get k (local_of s j)) as [|y r]; reflexivity.
Qed.

Lemma steal_res_moves s1 hd j k r c :
  wfL s1 -> (h_ix hd < length (s_locals s1))%nat -> (j < length (s_locals s1))%nat ->
  pm_find k (local_of s1 j) = Some r ->
  (exists d, pm_find k (local_of s1 (h_ix hd)) = Some d) ->
  moves s1 (fst (steal_res s1 hd j k r c)).
Proof.
  intros Hw Hown Hj Hfj [d0 Hfo]. unfold steal_res. cbn [fst].
  set (s2 := upd_local s1 j (pm_set k (skipn c r) (local_of s1 j))).
  assert (wfL s2) as Hw2.
  { apply wfL_upd_local; [exact Hw|]. apply pm_sorted_set, local_of_sorted, Hw. }
  assert (length (s_locals s2) = length (s_locals s1)) as Hn2 by apply nloc_upd_local.
  assert (exists d, pm_find k (local_of s2 (h_ix hd)) = Some d) as [d Hd].
  { destruct (Nat.eq_dec j (h_ix hd)) as [E|E].
    - subst j. unfold s2. rewrite local_of_upd_same by exact Hj.
      rewrite pm_find_set, Z.eqb_refl, Hfj. eauto.
    - unfold s2. rewrite local_of_upd_other by exact E. eauto. }
  set (dest' := pm_get k (local_of s2 (h_ix hd)) ++ firstn c r).
  constructor; autorewrite with sys; try reflexivity.
  - rewrite set_nth_length. exact Hn2.
  - apply wfL_upd_local; [exact Hw2|]. apply pm_sorted_set, local_of_sorted, Hw2.
  - unfold I2. autorewrite with sys. unfold s2. autorewrite with sys. tauto.
  - exists []. intro z. rewrite cnt_nil. split; [|reflexivity].
    pose proof (cnt_upd_local z s1 j (pm_set k (skipn c r) (local_of s1 j)) Hj) as H1. fold s2 in H1.
    pose proof (cnt_pm_set z k (skipn c r) r _ Hfj) as H2.
    pose proof (cnt_upd_local z s2 (h_ix hd) (pm_set k dest' (local_of s2 (h_ix hd))) ltac:(lia)) as H3.
    pose proof (cnt_pm_set z k dest' d _ Hd) as H4.
    unfold dest' in H4 at 2. rewrite (pm_find_get _ _ _ Hd), cnt_app in H4.
    pose proof (cnt_firstn_skipn z c r) as H5. unfold ring, item in *. lia.
Qed.

Lemma steal_from_moves entries : forall s hd j s3 hd2,
  wfL s -> (h_ix hd < length (s_locals s))%nat -> (j < length (s_locals s))%nat ->
  steal_from entries s hd j = Some (s3, hd2) ->
  moves s s3 /\ h_ix hd2 = h_ix hd /\ h_len hd <= h_len hd2 /\ h_tick hd2 = h_tick hd.
Proof.
  induction entries as [|[k r0] rest IH]; intros s hd j s3 hd2 Hw Hown Hj; [discriminate|].
  rewrite steal_from_cons. destruct (pm_get k (local_of s j)) as [|y r] eqn:Hg.
  - apply IH; assumption.
  - cbv zeta.
    pose proof (moves_ensure s (h_ix hd) k Hw) as Hm0.
    set (s1 := upd_local s (h_ix hd) (pm_ensure k (local_of s (h_ix hd)))) in *.
    assert (length (s_locals s1) = length (s_locals s)) as Hn1 by apply nloc_upd_local.
    destruct (steal_cnt s hd k (y :: r) <=? 0).
    + intro H. apply IH in H; [|apply Hm0|lia|lia].
      destruct H as (Hm & Hrest). split; [|exact Hrest]. eapply moves_trans; eassumption.
    + intro H0.
      assert (steal_res s1 hd j k (y :: r) (Z.to_nat (steal_cnt s hd k (y :: r))) = (s3, hd2)) as H
        by congruence. clear H0.
      pose proof (f_equal fst H) as H3. pose proof (f_equal snd H) as H4.
      cbn [fst snd] in H3, H4. subst s3 hd2. clear H.
      split; [|unfold steal_res; cbn [snd h_ix h_len h_tick]; repeat split; lia].
      eapply moves_trans; [exact Hm0|].
      apply steal_res_moves; [apply Hm0 | lia | lia | |].
      * apply pm_get_find; [|discriminate].
        destruct (Nat.eq_dec (h_ix hd) j) as [E|E].
        -- subst j. unfold s1. rewrite local_of_upd_same by exact Hown.
           rewrite pm_get_ensure by (apply local_of_sorted, Hw). exact Hg.
        -- unfold s1. rewrite local_of_upd_other by exact E. exact Hg.
      * unfold s1. rewrite local_of_upd_same by exact Hown. apply pm_find_ensure_same.
Qed.

Lemma steal_from_empty entries s hd j : pm_items (local_of s j) = [] -> steal_from entries s hd j = None.
Proof.
  intro H. induction entries as [|[k r0] rest IH]; [reflexivity|].
  rewrite steal_from_cons, (pm_items_nil_get k _ H). exact IH.
Qed.

(** with an empty own map and a zero count, the first non-empty ring of the victim is robbed and
    its oldest item becomes the head of the thief's map *)
Lemma steal_from_first entries : forall s hd j k x m',
  wfL s -> (h_ix hd < length (s_locals s))%nat -> (j < length (s_locals s))%nat -> j <> h_ix hd ->
  pm_items (local_of s (h_ix hd)) = [] -> h_len hd = 0 -> 1 <= s_cap s ->
  (forall k r, In (k, r) entries -> pm_find k (local_of s j) = Some r) ->
  pm_pop entries = Some (k, x, m') ->
  exists s3 hd2 mm, steal_from entries s hd j = Some (s3, hd2) /\
                    pm_pop (local_of s3 (h_ix hd2)) = Some (k, x, mm) /\ h_ix hd2 = h_ix hd.
Proof.
  induction entries as [|[k0 r0] rest IH]; intros s hd j k x m' Hw Hown Hj Hne Hemp Hlen Hcap Hent;
    [discriminate|].
  cbn [pm_pop]. rewrite steal_from_cons.
  pose proof (Hent k0 r0 (or_introl eq_refl)) as Hf. rewrite (pm_find_get _ _ _ Hf).
  destruct r0 as [|y r0].
  - destruct (pm_pop rest) as [[[k1 x1] m1]|] eqn:Ep; [|discriminate].
    intro H. injection H as <- <- <-.
    apply (IH s hd j k1 x1 m1); try assumption; try reflexivity.
    intros k' r' Hin. apply Hent. right. exact Hin.
  - intro H. injection H as <- <- <-. cbv zeta.
    set (mine1 := pm_ensure k0 (local_of s (h_ix hd))).
    set (s1 := upd_local s (h_ix hd) mine1).
    assert (pm_items mine1 = []) as Hm1 by (unfold mine1; rewrite pm_items_ensure; exact Hemp).
    assert (1 <= steal_cnt s hd k0 (y :: r0)) as Hc.
    { unfold steal_cnt. fold mine1. rewrite (pm_items_nil_get k0 _ Hm1). cbn [length].
      pose proof (half_cap_pos _ Hcap) as Hh. pose proof (rcap_ge (s_cap s)) as [_ Hr].
      unfold sat_sub. rewrite Hlen.
      assert (1 <= (Z.of_nat (S (length r0)) + 1) / 2) by (apply Z.div_le_lower_bound; lia).
      lia. }
    assert (steal_cnt s hd k0 (y :: r0) <=? 0 = false) as -> by lia.
    destruct (Z.to_nat (steal_cnt s hd k0 (y :: r0))) as [|c] eqn:Ec; [lia|].
    unfold steal_res.
    set (s2 := upd_local s1 j (pm_set k0 (skipn (S c) (y :: r0)) (local_of s1 j))).
    assert (length (s_locals s1) = length (s_locals s)) as Hn1 by apply nloc_upd_local.
    assert (local_of s2 (h_ix hd) = mine1) as Ho2.
    { unfold s2. rewrite local_of_upd_other by exact Hne. unfold s1.
      apply local_of_upd_same, Hown. }
    rewrite Ho2. rewrite (pm_items_nil_get k0 _ Hm1). cbn [app firstn].
    eexists _, _, _. split; [reflexivity|]. cbn [h_ix]. split; [|reflexivity].
    rewrite local_of_upd_same by (unfold s2; rewrite nloc_upd_local; lia).
    destruct (pm_find_ensure_same k0 (local_of s (h_ix hd))) as [d Hd]. fold mine1 in Hd.
    eapply pm_pop_set_empty; eassumption.
Qed.

(** * steal_scan *)

Lemma steal_scan_fst order : forall s hd, fst (steal_scan order s hd) = s.
Proof.
  induction order as [|j rest IH]; intros s hd; cbn [steal_scan]; [reflexivity|].
  destruct (half_cap (s_cap s) <=? h_len hd); [reflexivity|].
  destruct (steal_from (local_of s j) s hd j); [reflexivity | apply IH].
Qed.

Lemma steal_scan_some order : forall s hd sX s4 hd2,
  steal_scan order s hd = (sX, Some (s4, hd2)) ->
  exists j, In j order /\ steal_from (local_of s j) s hd j = Some (s4, hd2) /\
            half_cap (s_cap s) > h_len hd.
Proof.
  induction order as [|j rest IH]; intros s hd sX s4 hd2; cbn [steal_scan]; [discriminate|].
  destruct (half_cap (s_cap s) <=? h_len hd) eqn:E; [discriminate|].
  destruct (steal_from (local_of s j) s hd j) as [[s4' hd2']|] eqn:Es.
  - intro H. injection H as _ <- <-. exists j. split; [left; reflexivity|]. split; [exact Es | lia].
  - intro H. apply IH in H as (j' & Hin & Hs & Hc). exists j'. split; [right; exact Hin | tauto].
Qed.

Lemma steal_scan_none order : forall s hd sX,
  steal_scan order s hd = (sX, None) ->
  half_cap (s_cap s) <= h_len hd \/ forall j, In j order -> steal_from (local_of s j) s hd j = None.
Proof.
  induction order as [|j rest IH]; intros s hd sX; cbn [steal_scan].
  - intros _. right. intros j [].
  - destruct (half_cap (s_cap s) <=? h_len hd) eqn:E; [left; lia|].
    destruct (steal_from (local_of s j) s hd j) as [[s4' hd2']|] eqn:Es; [discriminate|].
    intro H. apply IH in H as [H|H]; [left; exact H|]. right.
    intros j' [<-|Hin]; [exact Es | apply H, Hin].
Qed.

Lemma steal_scan_all_empty order s hd :
  all_local_items s = [] -> steal_scan order s hd = (s, None).
Proof.
  intro H. induction order as [|j rest IH]; cbn [steal_scan]; [reflexivity|].
  destruct (half_cap (s_cap s) <=? h_len hd); [reflexivity|].
  rewrite steal_from_empty by (apply local_of_items_nil, H). exact IH.
Qed.

(** * lpop: case analysis *)

Lemma tick_eq t : tick t = (fst (tick t), fst (tick t)).
Proof. unfold tick. destruct (t =? U32MAX); reflexivity. Qed.

Definition lpop_hd (hd0 : handle) : handle :=
  {| h_ix := h_ix hd0; h_len := h_len hd0; h_tick := fst (tick (h_tick hd0)) |}.
Definition zero_hd (hd : handle) : handle :=
  {| h_ix := h_ix hd; h_len := 0; h_tick := h_tick hd |}.

Inductive lpop_case (s : sys) (h : nat) (start : nat) (hd0 : handle) : sys * obs -> Prop :=
| LC_shared s1 x :
    h_tick (lpop_hd hd0) mod 61 = 0 ->
    gpop (upd_handle s h (lpop_hd hd0)) = (s1, Some x) ->
    lpop_case s h start hd0 (s1, OItem (Some x))
| LC_own k x m :
    (h_tick (lpop_hd hd0) mod 61 <> 0 \/
     gpop (upd_handle s h (lpop_hd hd0)) = (upd_handle s h (lpop_hd hd0), None)) ->
    pm_pop (local_of s (h_ix hd0)) = Some (k, x, m) ->
    lpop_case s h start hd0
      (upd_handle (upd_local (upd_handle s h (lpop_hd hd0)) (h_ix hd0) m) h (pop_hd (lpop_hd hd0)),
       OItem (Some x))
| LC_steal s4 hd2 s6 hd6 r :
    (h_tick (lpop_hd hd0) mod 61 <> 0 \/
     gpop (upd_handle s h (lpop_hd hd0)) = (upd_handle s h (lpop_hd hd0), None)) ->
    pm_pop (local_of s (h_ix hd0)) = None ->
    steal_scan (scan_order (length (s_locals s)) start)
       (upd_handle (upd_handle s h (lpop_hd hd0)) h (zero_hd (lpop_hd hd0))) (zero_hd (lpop_hd hd0))
      = (upd_handle (upd_handle s h (lpop_hd hd0)) h (zero_hd (lpop_hd hd0)), Some (s4, hd2)) ->
    pop_local (upd_handle s4 h hd2) h hd2 = (s6, hd6, r) ->
    lpop_case s h start hd0 (s6, OItem r)
| LC_fallback s5 r :
    (h_tick (lpop_hd hd0) mod 61 <> 0 \/
     gpop (upd_handle s h (lpop_hd hd0)) = (upd_handle s h (lpop_hd hd0), None)) ->
    pm_pop (local_of s (h_ix hd0)) = None ->
    steal_scan (scan_order (length (s_locals s)) start)
       (upd_handle (upd_handle s h (lpop_hd hd0)) h (zero_hd (lpop_hd hd0))) (zero_hd (lpop_hd hd0))
      = (upd_handle (upd_handle s h (lpop_hd hd0)) h (zero_hd (lpop_hd hd0)), None) ->
    gpop (upd_handle (upd_handle s h (lpop_hd hd0)) h (zero_hd (lpop_hd hd0))) = (s5, r) ->
    lpop_case s h start hd0 (s5, OItem r).

Lemma lpop_cases s h start hd0 :
  nth_error (s_handles s) h = Some hd0 -> lpop_case s h start hd0 (lpop s h start).
Proof.
  intro Hn. unfold lpop. rewrite Hn, tick_eq.
  change {| h_ix := h_ix hd0; h_len := h_len hd0; h_tick := fst (tick (h_tick hd0)) |} with (lpop_hd hd0).
  set (hd := lpop_hd hd0). set (sA := upd_handle s h hd).
  assert (fst (tick (h_tick hd0)) = h_tick hd) as -> by reflexivity.
  assert (forall s1 : sys, (if h_tick hd mod 61 =? 0 then gpop sA else (sA, None)) = (s1, None) ->
          s1 = sA /\ (h_tick hd mod 61 <> 0 \/ gpop sA = (sA, None))) as Hfirst.
  { intros s1. destruct (h_tick hd mod 61 =? 0) eqn:E.
    - intro H. pose proof (gpop_none _ _ H) as ->. split; [reflexivity | right; exact H].
    - intro H. injection H as <-. split; [reflexivity | left; apply Z.eqb_neq, E]. }
  destruct (if h_tick hd mod 61 =? 0 then gpop sA else (sA, None)) as [s1 [x|]] eqn:E1.
  - destruct (h_tick hd mod 61 =? 0) eqn:E; [|discriminate].
    apply LC_shared; [apply Z.eqb_eq, E | exact E1].
  - destruct (Hfirst s1 eq_refl) as [-> Hcond]. clear Hfirst E1.
    destruct (pm_pop (local_of sA (h_ix hd))) as [[[k x] m]|] eqn:Ep.
    + rewrite (pop_local_some _ _ _ _ _ _ Ep). apply (LC_own s h start hd0 k x m Hcond Ep).
    + rewrite (pop_local_none _ _ _ Ep).
      change {| h_ix := h_ix hd; h_len := 0; h_tick := h_tick hd |} with (zero_hd hd).
      set (s3 := upd_handle sA h (zero_hd hd)).
      assert (length (s_locals s3) = length (s_locals s)) as -> by reflexivity.
      pose proof (steal_scan_fst (scan_order (length (s_locals s)) start) s3 (zero_hd hd)) as Hfst.
      destruct (steal_scan (scan_order (length (s_locals s)) start) s3 (zero_hd hd)) as [sX [[s4 hd2]|]] eqn:Es;
        cbn [fst] in Hfst; subst sX.
      * destruct (pop_local (upd_handle s4 h hd2) h hd2) as [[s6 hd6] r] eqn:Epl.
        eapply LC_steal; eassumption.
      * destruct (gpop s3) as [s5 r] eqn:Eg.
        eapply LC_fallback; eassumption.
Qed.
