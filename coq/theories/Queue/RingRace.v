(** The producer side of the local ring of both work-steal queues ([st3::fifo::Worker::push], as the
    runtime uses it): load the tail, write the slot at that index, publish tail + 1. The handle is
    meant for ONE producer; [CoroutinePool::submit_task] reaches it from every submitting thread.
    Small-step model, one step per access, any number of producer threads. Capacity and consumers are
    left out (pushes that find the ring full go elsewhere; stealing only moves the head). *)
From Coq Require Import List Arith ZArith Lia Bool.
Import ListNotations.
Open Scope Z_scope.

Inductive ppc := PIdle | PLoaded (t : nat) (x : Z) | PWritten (t : nat) (x : Z).
Record pth := { pp_pc : ppc; pp_todo : list Z }.
Record ring := { r_tail : nat; r_slots : list (nat * Z); r_thr : list pth; r_done : list Z (* ghost: completed pushes, in order *) }.

Fixpoint lookup (i : nat) (m : list (nat * Z)) : option Z :=
  match m with [] => None | (k, v) :: r => if Nat.eqb i k then Some v else lookup i r end.

Fixpoint set_nth {A} (n : nat) (x : A) (l : list A) : list A :=
  match n, l with
  | _, [] => []
  | O, _ :: r => x :: r
  | S n', a :: r => a :: set_nth n' x r
  end.

Definition rstep (s : ring) (i : nat) : ring :=
  match nth_error (r_thr s) i with
  | None => s
  | Some t =>
      match pp_pc t with
      | PIdle =>
          match pp_todo t with
          | [] => s
          | x :: rest =>
              {| r_tail := r_tail s; r_slots := r_slots s;
                 r_thr := set_nth i {| pp_pc := PLoaded (r_tail s) x; pp_todo := rest |} (r_thr s); r_done := r_done s |}
          end
      | PLoaded k x =>
          {| r_tail := r_tail s; r_slots := (k, x) :: r_slots s;
             r_thr := set_nth i {| pp_pc := PWritten k x; pp_todo := pp_todo t |} (r_thr s); r_done := r_done s |}
      | PWritten k x =>
          {| r_tail := S k; r_slots := r_slots s;
             r_thr := set_nth i {| pp_pc := PIdle; pp_todo := pp_todo t |} (r_thr s); r_done := r_done s ++ [x] |}
      end
  end.

Definition rrun (s : ring) (sched : list nat) : ring := fold_left rstep sched s.
Definition ring0 (progs : list (list Z)) : ring :=
  {| r_tail := 0; r_slots := []; r_thr := map (fun p => {| pp_pc := PIdle; pp_todo := p |}) progs; r_done := [] |}.

(** what a consumer can see: the slots below the published tail *)
Definition visible (s : ring) : list (option Z) := map (fun i => lookup i (r_slots s)) (seq 0 (r_tail s)).

Definition idle (t : pth) : bool := match pp_pc t with PIdle => true | _ => false end.

(** a schedule is exclusive when a push only starts while every producer is between pushes
    (what a lock around the push, or a single producer, guarantees) *)
Fixpoint exclusive (s : ring) (sched : list nat) : bool :=
  match sched with
  | [] => true
  | i :: rest =>
      (match nth_error (r_thr s) i with
       | Some t => if idle t then forallb idle (r_thr s) else true
       | None => true
       end) && exclusive (rstep s i) rest
  end.

(** * Lemmas *)
Lemma nth_error_set_nth_eq {A} (l : list A) n x : (n < length l)%nat -> nth_error (set_nth n x l) n = Some x.
Proof. revert n; induction l as [|a l IH]; intros [|n] H; cbn in *; try lia; [reflexivity | apply IH; lia]. Qed.
Lemma nth_error_set_nth_neq {A} (l : list A) n m x : n <> m -> nth_error (set_nth n x l) m = nth_error l m.
Proof.
  revert n m; induction l as [|a l IH]; intros [|n] [|m] H; cbn; try reflexivity; try congruence.
  apply IH. congruence.
Qed.
Lemma nth_error_lt {A} (l : list A) n x : nth_error l n = Some x -> (n < length l)%nat.
Proof. intro H. apply nth_error_Some. congruence. Qed.

Definition busy (t : pth) : Prop := pp_pc t <> PIdle.

Record Inv (s : ring) : Prop := {
  i_tail : r_tail s = length (r_done s);
  i_slots : forall k, (k < length (r_done s))%nat -> lookup k (r_slots s) = nth_error (r_done s) k;
  i_one : forall i j ti tj, nth_error (r_thr s) i = Some ti -> nth_error (r_thr s) j = Some tj ->
                            busy ti -> busy tj -> i = j;
  i_loaded : forall i t k x, nth_error (r_thr s) i = Some t -> pp_pc t = PLoaded k x -> k = r_tail s;
  i_written : forall i t k x, nth_error (r_thr s) i = Some t -> pp_pc t = PWritten k x ->
                              k = r_tail s /\ lookup k (r_slots s) = Some x
}.

Lemma forallb_idle_nth l : forallb idle l = true -> forall j t, nth_error l j = Some t -> pp_pc t = PIdle.
Proof.
  intros H j t Hj. rewrite forallb_forall in H. specialize (H t (nth_error_In _ _ Hj)).
  unfold idle in H. destruct (pp_pc t); try discriminate. reflexivity.
Qed.

Lemma inv_step s i :
  Inv s ->
  (match nth_error (r_thr s) i with
   | Some t => if idle t then forallb idle (r_thr s) else true
   | None => true
   end) = true ->
  Inv (rstep s i).
Proof.
  intros [Ht Hs H1 Hl Hw] G. unfold rstep.
  destruct (nth_error (r_thr s) i) as [t|] eqn:Ei; [|constructor; assumption].
  pose proof (nth_error_lt _ _ _ Ei) as Hlen.
  destruct (pp_pc t) as [|k x|k x] eqn:Epc.
  - (* start of a push *)
    destruct (pp_todo t) as [|x rest] eqn:Etd; [constructor; assumption|].
    unfold idle in G. rewrite Epc in G.
    pose proof (forallb_idle_nth _ G) as Hall.
    constructor; cbn [r_tail r_slots r_thr r_done]; try assumption.
    + intros a b ta tb Ha Hb Ba Bb.
      destruct (Nat.eq_dec i a) as [<-|Na]; destruct (Nat.eq_dec i b) as [<-|Nb]; try reflexivity.
      * rewrite nth_error_set_nth_neq in Hb by assumption. exfalso. apply Bb. eapply Hall; eassumption.
      * rewrite nth_error_set_nth_neq in Ha by assumption. exfalso. apply Ba. eapply Hall; eassumption.
      * rewrite nth_error_set_nth_neq in Ha, Hb by assumption. exfalso. apply Ba. eapply Hall; eassumption.
    + intros a ta k0 x0 Ha Hp. destruct (Nat.eq_dec i a) as [<-|Na].
      * rewrite nth_error_set_nth_eq in Ha by assumption. inversion Ha; subst. cbn in Hp. inversion Hp. reflexivity.
      * rewrite nth_error_set_nth_neq in Ha by assumption. rewrite (Hall _ _ Ha) in Hp. discriminate.
    + intros a ta k0 x0 Ha Hp. destruct (Nat.eq_dec i a) as [<-|Na].
      * rewrite nth_error_set_nth_eq in Ha by assumption. inversion Ha; subst. cbn in Hp. discriminate.
      * rewrite nth_error_set_nth_neq in Ha by assumption. rewrite (Hall _ _ Ha) in Hp. discriminate.
  - (* the slot write *)
    assert (Bt : busy t) by (unfold busy; rewrite Epc; discriminate).
    pose proof (Hl _ _ _ _ Ei Epc) as Hk.
    constructor; cbn [r_tail r_slots r_thr r_done]; try assumption.
    + intros j Hj. cbn [lookup]. destruct (Nat.eqb j k) eqn:E; [apply Nat.eqb_eq in E; lia | apply Hs; assumption].
    + intros a b ta tb Ha Hb Ba Bb.
      destruct (Nat.eq_dec i a) as [<-|Na]; destruct (Nat.eq_dec i b) as [<-|Nb]; try reflexivity.
      * rewrite nth_error_set_nth_neq in Hb by assumption. apply (H1 _ _ _ _ Ei Hb Bt Bb).
      * rewrite nth_error_set_nth_neq in Ha by assumption. symmetry. apply (H1 _ _ _ _ Ei Ha Bt Ba).
      * rewrite nth_error_set_nth_neq in Ha, Hb by assumption. apply (H1 _ _ _ _ Ha Hb Ba Bb).
    + intros a ta k0 x0 Ha Hp. destruct (Nat.eq_dec i a) as [<-|Na].
      * rewrite nth_error_set_nth_eq in Ha by assumption. inversion Ha; subst. cbn in Hp. discriminate.
      * rewrite nth_error_set_nth_neq in Ha by assumption. apply (Hl _ _ _ _ Ha Hp).
    + intros a ta k0 x0 Ha Hp. destruct (Nat.eq_dec i a) as [<-|Na].
      * rewrite nth_error_set_nth_eq in Ha by assumption. inversion Ha; subst. cbn in Hp. inversion Hp; subst.
        split; [first [assumption | congruence | reflexivity]|]. cbn [lookup]. rewrite Nat.eqb_refl. reflexivity.
      * rewrite nth_error_set_nth_neq in Ha by assumption.
        assert (Ba : busy ta) by (unfold busy; rewrite Hp; discriminate).
        exfalso. apply Na. apply (H1 _ _ _ _ Ei Ha Bt Ba).
  - (* the publication *)
    assert (Bt : busy t) by (unfold busy; rewrite Epc; discriminate).
    destruct (Hw _ _ _ _ Ei Epc) as [Hk Hlk].
    assert (Others : forall a ta, a <> i -> nth_error (r_thr s) a = Some ta -> pp_pc ta = PIdle).
    { intros a ta Na Ha. destruct (pp_pc ta) eqn:E; [reflexivity| |];
        exfalso; apply Na; symmetry; apply (H1 _ _ _ _ Ei Ha Bt); unfold busy; rewrite E; discriminate. }
    constructor; cbn [r_tail r_slots r_thr r_done].
    + rewrite app_length. cbn. lia.
    + intros j Hj. rewrite app_length in Hj. cbn in Hj.
      destruct (Nat.eq_dec j (length (r_done s))) as [->|Nj].
      * rewrite nth_error_app2 by lia. rewrite Nat.sub_diag. cbn. rewrite <- Ht, <- Hk. exact Hlk.
      * rewrite nth_error_app1 by lia. apply Hs. lia.
    + intros a b ta tb Ha Hb Ba Bb.
      destruct (Nat.eq_dec i a) as [<-|Na].
      * rewrite nth_error_set_nth_eq in Ha by assumption. inversion Ha; subst. exfalso. apply Ba. reflexivity.
      * rewrite nth_error_set_nth_neq in Ha by assumption. exfalso. apply Ba. apply (Others a ta); [congruence | assumption].
    + intros a ta k0 x0 Ha Hp. destruct (Nat.eq_dec i a) as [<-|Na].
      * rewrite nth_error_set_nth_eq in Ha by assumption. inversion Ha; subst. cbn in Hp. discriminate.
      * rewrite nth_error_set_nth_neq in Ha by assumption. rewrite (Others a ta) in Hp; [discriminate | congruence | assumption].
    + intros a ta k0 x0 Ha Hp. destruct (Nat.eq_dec i a) as [<-|Na].
      * rewrite nth_error_set_nth_eq in Ha by assumption. inversion Ha; subst. cbn in Hp. discriminate.
      * rewrite nth_error_set_nth_neq in Ha by assumption. rewrite (Others a ta) in Hp; [discriminate | congruence | assumption].
Qed.

Lemma inv0 progs : Inv (ring0 progs).
Proof.
  constructor; cbn.
  - reflexivity.
  - intros k H. lia.
  - intros i j ti tj Hi _ Bi _. exfalso. apply Bi. apply nth_error_In in Hi. apply in_map_iff in Hi as (p & <- & _). reflexivity.
  - intros i t k x Hi Hp. apply nth_error_In in Hi. apply in_map_iff in Hi as (p & <- & _). discriminate.
  - intros i t k x Hi Hp. apply nth_error_In in Hi. apply in_map_iff in Hi as (p & <- & _). discriminate.
Qed.

Lemma inv_run sched : forall s, Inv s -> exclusive s sched = true -> Inv (rrun s sched).
Proof.
  induction sched as [|i sched IH]; intros s HI HE; [exact HI|].
  cbn [exclusive] in HE. apply andb_true_iff in HE as [G HE]. unfold rrun. cbn [fold_left].
  apply IH; [apply inv_step; assumption | exact HE].
Qed.

Lemma map_seq_eq {A} (f : nat -> option A) l :
  (forall i, (i < length l)%nat -> f i = nth_error l i) -> map f (seq 0 (length l)) = map Some l.
Proof.
  induction l as [|x l IH] using rev_ind; intro H; [reflexivity|].
  rewrite app_length. cbn [length]. rewrite Nat.add_1_r, seq_S, !map_app. cbn [map Nat.add].
  f_equal.
  - apply IH. intros i Hi. rewrite H by (rewrite app_length; cbn; lia). apply nth_error_app1. exact Hi.
  - rewrite H by (rewrite app_length; cbn; lia). rewrite nth_error_app2 by lia. rewrite Nat.sub_diag. reflexivity.
Qed.

Lemma visible_of_inv s : Inv s -> visible s = map Some (r_done s).
Proof. intros [Ht Hs _ _ _]. unfold visible. rewrite Ht. apply map_seq_eq. exact Hs. Qed.

(** * The theorems *)

(** with exclusive pushes (one producer, or a lock around the push) nothing is lost or overwritten:
    after ANY exclusive schedule of ANY number of producers the consumer sees exactly the completed
    pushes, in completion order *)
Theorem exclusive_pushes_are_kept : forall progs sched,
  exclusive (ring0 progs) sched = true ->
  visible (rrun (ring0 progs) sched) = map Some (r_done (rrun (ring0 progs) sched)).
Proof. intros progs sched H. apply visible_of_inv. apply inv_run; [apply inv0 | exact H]. Qed.

(** a single producer is always exclusive *)
Lemma set_nth_length {A} (l : list A) n x : length (set_nth n x l) = length l.
Proof. revert n; induction l as [|a l IH]; intros [|n]; cbn; try reflexivity. rewrite IH. reflexivity. Qed.

Lemma rstep_length s i : length (r_thr (rstep s i)) = length (r_thr s).
Proof.
  unfold rstep. destruct (nth_error (r_thr s) i) as [t|]; [|reflexivity].
  destruct (pp_pc t); [destruct (pp_todo t)|..]; cbn [r_thr]; rewrite ?set_nth_length; reflexivity.
Qed.

Lemma exclusive_single : forall sched s, length (r_thr s) = 1%nat -> exclusive s sched = true.
Proof.
  induction sched as [|i sched IH]; intros s H; [reflexivity|]. cbn [exclusive].
  apply andb_true_iff. split.
  - destruct (r_thr s) as [|p [|q r]] eqn:E; cbn in H; try lia.
    destruct i as [|i]; cbn; [|destruct i; reflexivity].
    destruct (idle p) eqn:E2; cbn; rewrite ?E2; reflexivity.
  - apply IH. rewrite rstep_length. exact H.
Qed.

Theorem single_producer_keeps_everything : forall prog sched,
  visible (rrun (ring0 [prog]) sched) = map Some (r_done (rrun (ring0 [prog]) sched)).
Proof. intros prog sched. apply exclusive_pushes_are_kept. apply exclusive_single. reflexivity. Qed.

(** two producers on the one ring, as concurrent [submit_task] calls do: both load the same tail,
    both write slot 0, both publish tail 1 — two pushes completed, one item visible *)
Theorem two_producers_lose_an_item :
  exists sched, let s := rrun (ring0 [[7]; [8]]) sched in
    r_done s = [7; 8] /\ visible s = [Some 8] /\ exclusive (ring0 [[7]; [8]]) sched = false.
Proof. exists [0; 1; 0; 0; 1; 1]%nat. vm_compute. repeat split. Qed.

Example ring_nonvacuous :
  exclusive (ring0 [[1; 2]; [3]]) [0; 0; 0; 1; 1; 1; 0; 0; 0]%nat = true /\
  visible (rrun (ring0 [[1; 2]; [3]]) [0; 0; 0; 1; 1; 1; 0; 0; 0]%nat) = [Some 1; Some 3; Some 2].
Proof. vm_compute. split; reflexivity. Qed.
