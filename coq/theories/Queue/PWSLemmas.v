(** Lemmas about the plain work-steal queue model ([Queue/PWS.v]): state invariant, multiset
    conservation of every call, what an idle pop and a shared-first tick imply. No oracle here. *)
From OCV Require Import Base.Prelude Queue.PMap Queue.PWS Queue.PWSOracle.
From OCV Require Queue.OWS Queue.OWSOracle.
From OCV Require Import Queue.OWSLemmas.
From Coq Require Import ZifyBool ZifyNat.
Open Scope Z_scope.

(** * rings and the list of rings *)

Lemma local_of_upd_same s i r : (i < length (s_locals s))%nat -> local_of (upd_local s i r) i = r.
Proof. intro H. unfold local_of, upd_local. cbn [s_locals]. apply nth_set_nth_eq, H. Qed.

Lemma local_of_upd_other s i j r : i <> j -> local_of (upd_local s i r) j = local_of s j.
Proof. intro H. unfold local_of, upd_local. cbn [s_locals]. apply nth_set_nth_neq, H. Qed.

Lemma nloc_upd_local s i r : length (s_locals (upd_local s i r)) = length (s_locals s).
Proof. unfold upd_local. cbn [s_locals]. apply set_nth_length. Qed.

Lemma local_of_cons_lt s j y v : local_of s j = y :: v -> (j < length (s_locals s))%nat.
Proof.
  unfold local_of. intro H. destruct (lt_dec j (length (s_locals s))) as [Hlt|Hge]; [exact Hlt|].
  rewrite nth_overflow in H by lia. discriminate.
Qed.

Lemma cnt_concat_set_nth z (ls : list ring) : forall i r, (i < length ls)%nat ->
  (cnt z (concat (OWS.set_nth i r ls)) + cnt z (nth i ls []) = cnt z (concat ls) + cnt z r)%nat.
Proof.
  induction ls as [|a ls IH]; intros i r Hi; [cbn [length] in Hi; lia|].
  destruct i as [|i].
  - rewrite set_nth_0. cbn [concat nth]. rewrite !cnt_app. lia.
  - rewrite set_nth_S. cbn [concat nth]. rewrite !cnt_app. cbn [length] in Hi.
    specialize (IH i r ltac:(lia)). lia.
Qed.

Lemma concat_nil_nth (ls : list ring) i : concat ls = [] -> nth i ls [] = [].
Proof.
  revert i. induction ls as [|a ls IH]; intros i H; [destruct i; reflexivity|].
  cbn [concat] in H. apply app_eq_nil in H as [Ha Hl]. destruct i as [|i]; [exact Ha | apply IH, Hl].
Qed.

Lemma concat_all_nil (ls : list ring) : (forall i, (i < length ls)%nat -> nth i ls [] = []) -> concat ls = [].
Proof.
  induction ls as [|a ls IH]; intro H; [reflexivity|].
  pose proof (H 0%nat ltac:(cbn [length]; lia)) as H0. cbn [nth] in H0. subst a. cbn [concat app].
  apply IH. intros i Hi. apply (H (S i)). cbn [length]. lia.
Qed.

Lemma concat_repeat_nil n : concat (repeat (@nil item) n) = [].
Proof. induction n as [|n IH]; [reflexivity | exact IH]. Qed.

(** * multiset of everything the queue holds *)

Definition tot (z : Z) (s : sys) : nat := cnt z (all_items s).
Definition olist_of (x : option item) : list item := match x with Some y => [y] | None => [] end.

Lemma tot_eq z s : tot z s = (cnt z (s_shq s) + cnt z (concat (s_locals s)))%nat.
Proof. unfold tot, all_items, all_local_items. apply cnt_app. Qed.

Lemma tot_upd_handle z s h hd : tot z (upd_handle s h hd) = tot z s.
Proof. reflexivity. Qed.

Lemma tot_upd_local z s i r : (i < length (s_locals s))%nat ->
  (tot z (upd_local s i r) + cnt z (local_of s i) = tot z s + cnt z r)%nat.
Proof.
  intro Hi. rewrite !tot_eq. unfold upd_local, local_of. cbn [s_shq s_locals].
  pose proof (cnt_concat_set_nth z (s_locals s) i r Hi). lia.
Qed.

Lemma tot_gpush z s x : tot z (gpush s x) = (one z x + tot z s)%nat.
Proof.
  rewrite !tot_eq. unfold gpush, upd_shared. cbn [s_shq s_locals].
  rewrite cnt_app, cnt_cons, cnt_nil. lia.
Qed.

(** * the state invariant *)

Record Inv (n : nat) (s : sys) : Prop := {
  inv_n : length (s_locals s) = n;
  inv_len : s_shlen s = Z.of_nat (length (s_shq s));
  inv_h : Forall (fun hd => (h_ix hd < n)%nat) (s_handles s)
}.

Lemma Inv_init n cap : Inv n (init n cap).
Proof. constructor; cbn [init s_locals s_shlen s_shq s_handles length]; [apply repeat_length | reflexivity | constructor]. Qed.

Lemma all_items_init n cap : all_items (init n cap) = [].
Proof. unfold all_items, all_local_items. cbn [init s_shq s_locals app]. apply concat_repeat_nil. Qed.

Lemma Inv_upd_local n s i r : Inv n s -> Inv n (upd_local s i r).
Proof. intros [H1 H2 H3]. constructor; [rewrite nloc_upd_local; exact H1 | exact H2 | exact H3]. Qed.

Lemma Inv_gpush n s x : Inv n s -> Inv n (gpush s x).
Proof.
  intros [H1 H2 H3]. constructor; [exact H1 | | exact H3].
  unfold gpush, upd_shared. cbn [s_shlen s_shq]. rewrite app_length. cbn [length]. lia.
Qed.

Lemma Inv_handle n s h hd : Inv n s -> nth_error (s_handles s) h = Some hd -> (h_ix hd < n)%nat.
Proof.
  intros [_ _ H3] Hn. rewrite Forall_forall in H3. apply H3. eapply nth_error_In, Hn.
Qed.

Lemma Inv_upd_handle n s h hd : Inv n s -> (h_ix hd < n)%nat -> Inv n (upd_handle s h hd).
Proof.
  intros [H1 H2 H3] Hh. constructor; [exact H1 | exact H2 |].
  unfold upd_handle. cbn [s_handles]. apply Forall_set_nth; assumption.
Qed.

(** * capacity arithmetic *)

Lemma rcap_pos cap : 1 <= rcap cap.
Proof. apply next_pow2_ge. Qed.

Lemma half_le c : 1 <= c -> 1 <= half c <= c.
Proof.
  intro H. unfold half. split.
  - apply Z.div_le_lower_bound; lia.
  - apply Z.div_le_upper_bound; lia.
Qed.

Lemma hlen_nil s : hlen s [] = 0.
Proof. unfold hlen, spare, rlen, sat_sub. cbn [length]. lia. Qed.

Lemma steal_count_pos s y v : 1 <= steal_count s [] (y :: v).
Proof.
  unfold steal_count. rewrite hlen_nil. unfold spare, rlen, sat_sub. cbn [length].
  pose proof (rcap_pos (s_cap s)) as Hc. pose proof (half_le _ Hc) as Hh.
  assert (1 <= (Z.of_nat (S (length v)) + 1) / 2) by (apply Z.div_le_lower_bound; lia).
  lia.
Qed.

Lemma steal_count_le s own v : steal_count s own v <= rlen v.
Proof. unfold steal_count. lia. Qed.

(** * shared queue *)

Definition gpop' (s : sys) : sys * option item :=
  match s_shq s with
  | [] => (s, None)
  | x :: q => (upd_shared s q (s_shlen s - 1), Some x)
  end.

Lemma gpop_total s : exists r, gpop s = Some r.
Proof.
  unfold gpop. destruct (s_shlen s =? 0); [eauto|].
  cbn [gpop_loop]. unfold inj_steal. destruct (s_shq s); eauto.
Qed.

Lemma gpop_eq n s : Inv n s -> gpop s = Some (gpop' s).
Proof.
  intros [_ H2 _]. unfold gpop, gpop'. destruct (s_shq s) as [|x q] eqn:E.
  - cbn [length] in H2. rewrite H2. reflexivity.
  - cbn [length] in H2. assert (s_shlen s =? 0 = false) as -> by lia.
    cbn [gpop_loop]. rewrite E. reflexivity.
Qed.

Record same_locals (s s' : sys) : Prop := {
  sl_locals : s_locals s' = s_locals s;
  sl_handles : s_handles s' = s_handles s;
  sl_cap : s_cap s' = s_cap s
}.

Lemma gpop'_spec n s : Inv n s ->
  Inv n (fst (gpop' s)) /\
  (forall z, (cnt z (olist_of (snd (gpop' s))) + tot z (fst (gpop' s)) = tot z s)%nat) /\
  same_locals s (fst (gpop' s)) /\
  (snd (gpop' s) = None -> s_shq s = [] /\ fst (gpop' s) = s) /\
  (s_shq s <> [] -> snd (gpop' s) = hd_error (s_shq s)).
Proof.
  intros HI. pose proof HI as [H1 H2 H3]. unfold gpop'. destruct (s_shq s) as [|x q] eqn:E; cbn [fst snd].
  - split; [exact HI|]. split; [intro z; reflexivity|]. split; [constructor; reflexivity|].
    split; [intros _; split; reflexivity | intro H; congruence].
  - split; [|split; [|split; [constructor; reflexivity | split; [discriminate | reflexivity]]]].
    + constructor; [exact H1 | | exact H3]. unfold upd_shared. cbn [s_shlen s_shq]. cbn [length] in H2. lia.
    + intro z. rewrite !tot_eq. unfold upd_shared. cbn [s_shq s_locals olist_of]. rewrite E, !cnt_cons, cnt_nil. lia.
Qed.

(** * overflow: [LocalQueue::push] *)

Lemma move_half_spec n ix : (ix < n)%nat -> forall c s, Inv n s ->
  Inv n (move_half c s ix) /\ (forall z, tot z (move_half c s ix) = tot z s) /\
  s_handles (move_half c s ix) = s_handles s.
Proof.
  intros Hix c. induction c as [|c IH]; intros s HI; cbn [move_half].
  - split; [exact HI|]. split; reflexivity.
  - destruct (local_of s ix) as [|y r] eqn:E.
    + apply IH, HI.
    + assert (Inv n (gpush (upd_local s ix r) y)) as HI1 by (apply Inv_gpush, Inv_upd_local, HI).
      destruct (IH _ HI1) as (A & B & C). split; [exact A|]. split; [|rewrite C; reflexivity].
      intro z. rewrite B, tot_gpush.
      pose proof (tot_upd_local z s ix r ltac:(rewrite (inv_n _ _ HI); exact Hix)) as H.
      rewrite E, cnt_cons in H. lia.
Qed.

Lemma lpush_spec n s h hd x : Inv n s -> nth_error (s_handles s) h = Some hd ->
  snd (lpush s h x) = OUnit /\ Inv n (fst (lpush s h x)) /\
  (forall z, tot z (fst (lpush s h x)) = (one z x + tot z s)%nat) /\
  s_handles (fst (lpush s h x)) = s_handles s.
Proof.
  intros HI Hn. pose proof (Inv_handle _ _ _ _ HI Hn) as Hix. unfold lpush. rewrite Hn.
  destruct (rlen (local_of s (h_ix hd)) <? rcap (s_cap s)); cbn [fst snd].
  - split; [reflexivity|]. split; [apply Inv_upd_local, HI|]. split; [|reflexivity].
    intro z.
    pose proof (tot_upd_local z s (h_ix hd) (local_of s (h_ix hd) ++ [x])
                  ltac:(rewrite (inv_n _ _ HI); exact Hix)) as H.
    rewrite cnt_app, cnt_cons, cnt_nil in H. lia.
  - destruct (move_half_spec n (h_ix hd) Hix (Z.to_nat (hlen s (local_of s (h_ix hd)) / 2)) s HI) as (A & B & C).
    split; [reflexivity|]. split; [apply Inv_gpush, A|]. split; [|exact C].
    intro z. rewrite tot_gpush, B. reflexivity.
Qed.

Lemma lpush_bad s h x : nth_error (s_handles s) h = None -> lpush s h x = (s, OBad).
Proof. intro H. unfold lpush. rewrite H. reflexivity. Qed.

(** * pops *)

Lemma ring_pop_spec n s ix : Inv n s -> (ix < n)%nat ->
  Inv n (fst (ring_pop s ix)) /\
  (forall z, (cnt z (olist_of (snd (ring_pop s ix))) + tot z (fst (ring_pop s ix)) = tot z s)%nat) /\
  s_handles (fst (ring_pop s ix)) = s_handles s /\
  (snd (ring_pop s ix) = None -> local_of s ix = [] /\ fst (ring_pop s ix) = s).
Proof.
  intros HI Hix. unfold ring_pop. destruct (local_of s ix) as [|x r] eqn:E; cbn [fst snd].
  - split; [exact HI|]. split; [intro z; reflexivity|]. split; [reflexivity|]. intros _. split; reflexivity.
  - split; [apply Inv_upd_local, HI|]. split; [|split; [reflexivity | discriminate]].
    intro z. pose proof (tot_upd_local z s ix r ltac:(rewrite (inv_n _ _ HI); exact Hix)) as H.
    rewrite E, cnt_cons in H. cbn [olist_of]. rewrite cnt_cons, cnt_nil. lia.
Qed.

Lemma steal_scan_some n ix : (ix < n)%nat -> forall order s s', Inv n s ->
  steal_scan order s ix = Some s' ->
  Inv n s' /\ (forall z, tot z s' = tot z s) /\ s_handles s' = s_handles s /\
  s_shq s' = s_shq s /\ local_of s' ix <> [].
Proof.
  intros Hix order. induction order as [|j rest IH]; intros s s' HI; cbn [steal_scan]; [discriminate|].
  destruct (spare s (local_of s ix) <? half (rcap (s_cap s))); [discriminate|].
  destruct (local_of s j) as [|y v] eqn:Ej; [apply IH, HI|].
  destruct (steal_count s (local_of s ix) (y :: v) <=? 0) eqn:Ec; [apply IH, HI|].
  intro H. injection H as <-.
  set (c := Z.to_nat (steal_count s (local_of s ix) (y :: v))).
  assert (1 <= c)%nat as Hc by (unfold c; lia).
  set (s1 := upd_local s j (skipn c (y :: v))).
  pose proof (local_of_cons_lt _ _ _ _ Ej) as Hj.
  assert (length (s_locals s) = n) as Hn by apply HI.
  assert (length (s_locals s1) = n) as Hn1 by (unfold s1; rewrite nloc_upd_local; exact Hn).
  split; [apply Inv_upd_local, Inv_upd_local, HI|].
  split; [|split; [reflexivity | split; [reflexivity|]]].
  - intro z.
    pose proof (tot_upd_local z s j (skipn c (y :: v)) Hj) as H1. fold s1 in H1. rewrite Ej in H1.
    pose proof (tot_upd_local z s1 ix (local_of s1 ix ++ firstn c (y :: v)) ltac:(lia)) as H2.
    rewrite cnt_app in H2. pose proof (cnt_firstn_skipn z c (y :: v)) as H3.
    clearbody s1 c. unfold ring, item in *. lia.
  - rewrite local_of_upd_same by lia. destruct c as [|c']; [lia|]. cbn [firstn].
    intro H. apply app_eq_nil in H as [_ H]. discriminate.
Qed.

Lemma steal_scan_none order s ix : local_of s ix = [] -> steal_scan order s ix = None ->
  forall j, In j order -> local_of s j = [].
Proof.
  intro Hown. induction order as [|j rest IH]; intros H k Hin; [destruct Hin|].
  cbn [steal_scan] in H. rewrite Hown in H.
  assert (spare s [] <? half (rcap (s_cap s)) = false) as Hsp.
  { unfold spare, rlen. cbn [length]. pose proof (half_le _ (rcap_pos (s_cap s))). lia. }
  rewrite Hsp in H. destruct (local_of s j) as [|y v] eqn:Ej.
  - destruct Hin as [<-|Hin]; [exact Ej | apply IH; assumption].
  - pose proof (steal_count_pos s y v) as Hp.
    assert (steal_count s [] (y :: v) <=? 0 = false) as Hc by lia.
    rewrite Hc in H. discriminate.
Qed.

Lemma lpop_rest_spec n s ix start : Inv n s -> (ix < n)%nat ->
  Inv n (fst (lpop_rest s ix start)) /\
  s_handles (fst (lpop_rest s ix start)) = s_handles s /\
  exists ox, snd (lpop_rest s ix start) = OItem ox /\
    (forall z, (cnt z (olist_of ox) + tot z (fst (lpop_rest s ix start)) = tot z s)%nat) /\
    (ox = None -> all_items s = []).
Proof.
  intros HI Hix. unfold lpop_rest.
  destruct (ring_pop_spec n s ix HI Hix) as (R1 & R2 & R3 & R4).
  destruct (ring_pop s ix) as [s2 [x|]] eqn:Er; cbn [fst snd] in *.
  - split; [exact R1|]. split; [exact R3|]. exists (Some x). split; [reflexivity|]. split; [exact R2 | discriminate].
  - destruct (R4 eq_refl) as [Hown ->]. clear R1 R2 R3 R4.
    destruct (steal_scan (OWS.scan_order (length (s_locals s)) start) s ix) as [s3|] eqn:Es.
    + destruct (steal_scan_some n ix Hix _ _ _ HI Es) as (S1 & S2 & S3 & _ & S5).
      destruct (ring_pop_spec n s3 ix S1 Hix) as (P1 & P2 & P3 & P4).
      destruct (ring_pop s3 ix) as [s4 [y|]] eqn:Er3; cbn [fst snd] in *.
      * split; [exact P1|]. split; [congruence|]. exists (Some y). split; [reflexivity|].
        split; [|discriminate]. intro z. rewrite <- S2. apply P2.
      * exfalso. apply S5. apply P4. reflexivity.
    + pose proof (steal_scan_none _ _ _ Hown Es) as Hall.
      assert (concat (s_locals s) = []) as Hloc.
      { apply concat_all_nil. intros i Hi. apply Hall, scan_order_all, Hi. }
      rewrite (gpop_eq n s HI). destruct (gpop'_spec n s HI) as (G1 & G2 & G3 & G4 & _).
      destruct (gpop' s) as [s3 r] eqn:Eg; cbn [fst snd] in *.
      split; [exact G1|]. split; [apply G3|]. exists r. split; [reflexivity|]. split; [exact G2|].
      intro Hr. destruct (G4 Hr) as [Hq _]. unfold all_items, all_local_items. rewrite Hq, Hloc. reflexivity.
Qed.

Lemma tick_same t : snd (OWS.tick t) = fst (OWS.tick t).
Proof. unfold OWS.tick. destruct (t =? U32MAX); reflexivity. Qed.

Lemma map_set_nth {A B} (f : A -> B) i x (l : list A) : map f (OWS.set_nth i x l) = OWS.set_nth i (f x) (map f l).
Proof.
  revert i. induction l as [|a l IH]; intro i; [cbn [map]; rewrite !set_nth_nil; reflexivity|].
  destruct i as [|i]; [rewrite !set_nth_0 | rewrite !set_nth_S]; cbn [map]; [reflexivity|].
  rewrite set_nth_S, IH. reflexivity.
Qed.

Record lpop_post (n : nat) (s : sys) (h : nat) (hd0 : handle) (s' : sys) (r : obs) : Prop := {
  lp_inv : Inv n s';
  lp_res : exists ox, r = OItem ox /\
             (forall z, (cnt z (olist_of ox) + tot z s' = tot z s)%nat) /\
             (ox = None -> all_items s = []);
  lp_ticks : map h_tick (s_handles s') = OWS.set_nth h (fst (OWS.tick (h_tick hd0))) (map h_tick (s_handles s));
  lp_win : s_shq s <> [] -> fst (OWS.tick (h_tick hd0)) mod 61 = 0 ->
           exists x, r = OItem (Some x) /\ hd_error (s_shq s) = Some x
}.

Lemma lpop_spec n s h start hd0 : Inv n s -> nth_error (s_handles s) h = Some hd0 ->
  lpop_post n s h hd0 (fst (lpop s h start)) (snd (lpop s h start)).
Proof.
  intros HI Hn. pose proof (Inv_handle _ _ _ _ HI Hn) as Hix. unfold lpop. rewrite Hn.
  pose proof (tick_same (h_tick hd0)) as Hts.
  destruct (OWS.tick (h_tick hd0)) as [t' tv] eqn:Et. cbn [fst snd] in Hts. subst tv.
  set (hd := {| h_ix := h_ix hd0; h_tick := t' |}).
  set (s0 := upd_handle s h hd).
  assert (Inv n s0) as HI0 by (apply Inv_upd_handle; [exact HI | exact Hix]).
  assert (map h_tick (s_handles s0) = OWS.set_nth h t' (map h_tick (s_handles s))) as Ht0.
  { unfold s0, upd_handle. cbn [s_handles]. rewrite map_set_nth. reflexivity. }
  cbn [fst].
  destruct (lpop_rest_spec n s0 (h_ix hd0) start HI0 Hix) as (L1 & L2 & ox & L3 & L4 & L5).
  destruct (t' mod 61 =? 0) eqn:Em.
  - rewrite (gpop_eq n s0 HI0). destruct (gpop'_spec n s0 HI0) as (G1 & G2 & G3 & G4 & G5).
    destruct (gpop' s0) as [s1 [x|]] eqn:Eg; cbn [fst snd] in *.
    + constructor; rewrite ?Et; cbn [fst].
      * exact G1.
      * exists (Some x). split; [reflexivity|]. split; [exact G2 | discriminate].
      * rewrite (sl_handles _ _ G3). exact Ht0.
      * intros Hne _. exists x. split; [reflexivity|]. symmetry. apply G5. exact Hne.
    + destruct (G4 eq_refl) as [Hq ->]. constructor; rewrite ?Et; cbn [fst].
      * exact L1.
      * exists ox. split; [exact L3|]. split; [exact L4 | exact L5].
      * rewrite L2. exact Ht0.
      * intros Hne _. exfalso. apply Hne. exact Hq.
  - constructor; rewrite ?Et; cbn [fst].
    + exact L1.
    + exists ox. split; [exact L3|]. split; [exact L4 | exact L5].
    + rewrite L2. exact Ht0.
    + intros _ Hz. lia.
Qed.

Lemma lpop_bad s h start : nth_error (s_handles s) h = None -> lpop s h start = (s, OBad).
Proof. intro H. unfold lpop. rewrite H. reflexivity. Qed.

(** * [local_queue()] *)

Lemma new_handle_spec n s : Inv n s ->
  Inv n (fst (new_handle s)) /\ (forall z, tot z (fst (new_handle s)) = tot z s) /\
  s_shq (fst (new_handle s)) = s_shq s /\
  ((n = 0%nat /\ fst (new_handle s) = s /\ snd (new_handle s) = OBad) \/
   (n <> 0%nat /\ exists ix, s_handles (fst (new_handle s)) = s_handles s ++ [{| h_ix := ix; h_tick := 0 |}])).
Proof.
  intros HI. pose proof HI as [H1 H2 H3]. unfold new_handle. rewrite H1. destruct n as [|n'].
  - cbn [fst snd]. split; [exact HI|]. split; [reflexivity|]. split; [reflexivity|]. left. repeat split.
  - cbn [fst snd]. split; [|split; [reflexivity | split; [reflexivity|]]].
    + constructor; cbn [s_locals s_shlen s_shq s_handles]; [exact H1 | exact H2 |].
      apply Forall_app. split; [exact H3|]. constructor; [|constructor]. cbn [h_ix].
      pose proof (Z.mod_pos_bound (s_index s) (Z.of_nat (S n')) ltac:(lia)). lia.
    + right. split; [discriminate|]. eexists. reflexivity.
Qed.

(** * every step *)

Definition pushed_of (o : op) (r : obs) : list item :=
  match o, r with
  | GPush x, _ => [x]
  | LPush _ x, OUnit => [x]
  | _, _ => []
  end.

Lemma with_handle_fst s h f : fst (with_handle s h f) = s.
Proof. unfold with_handle. destruct (nth_error (s_handles s) h); reflexivity. Qed.

Lemma step_spec n s o : Inv n s ->
  Inv n (fst (step s o)) /\
  forall z, (cnt z (olist_of (popped_of o (snd (step s o)))) + tot z (fst (step s o))
             = cnt z (pushed_of o (snd (step s o))) + tot z s)%nat.
Proof.
  intro HI. destruct o as [x| | | | |h x|h start|h|h|h]; cbn [step].
  - cbn [fst snd popped_of pushed_of olist_of]. split; [apply Inv_gpush, HI|].
    intro z. rewrite tot_gpush, cnt_cons, !cnt_nil. lia.
  - rewrite (gpop_eq n s HI). destruct (gpop'_spec n s HI) as (G1 & G2 & _).
    destruct (gpop' s) as [s' r]; cbn [fst snd] in *. split; [exact G1|].
    intro z. specialize (G2 z). destruct r; cbn [popped_of pushed_of olist_of] in *; rewrite ?cnt_nil in *; lia.
  - cbn [fst snd popped_of pushed_of olist_of]. split; [exact HI | intro z; reflexivity].
  - cbn [fst snd popped_of pushed_of olist_of]. split; [exact HI | intro z; reflexivity].
  - destruct (new_handle_spec n s HI) as (A & B & _). split; [exact A|]. intro z. rewrite B.
    unfold popped_of, pushed_of. destruct (snd (new_handle s)); reflexivity.
  - destruct (nth_error (s_handles s) h) as [hd|] eqn:Hn.
    + destruct (lpush_spec n s h hd x HI Hn) as (A & B & C & _). rewrite A. split; [exact B|].
      intro z. rewrite C. cbn [popped_of pushed_of olist_of]. rewrite cnt_cons, !cnt_nil. lia.
    + rewrite (lpush_bad s h x Hn). cbn [fst snd popped_of pushed_of olist_of]. split; [exact HI | intro z; reflexivity].
  - destruct (nth_error (s_handles s) h) as [hd0|] eqn:Hn.
    + destruct (lpop_spec n s h start hd0 HI Hn) as [A (ox & B & C & _) _ _]. split; [exact A|].
      intro z. rewrite B. specialize (C z). destruct ox; cbn [popped_of pushed_of olist_of] in *; rewrite ?cnt_nil in *; lia.
    + rewrite (lpop_bad s h start Hn). cbn [fst snd popped_of pushed_of olist_of]. split; [exact HI | intro z; reflexivity].
  - rewrite with_handle_fst. split; [exact HI|]. intro z.
    unfold with_handle. destruct (nth_error (s_handles s) h); reflexivity.
  - rewrite with_handle_fst. split; [exact HI|]. intro z.
    unfold with_handle. destruct (nth_error (s_handles s) h); reflexivity.
  - rewrite with_handle_fst. split; [exact HI|]. intro z.
    unfold with_handle. destruct (nth_error (s_handles s) h); reflexivity.
Qed.

Lemma Inv_step n s o : Inv n s -> Inv n (fst (step s o)).
Proof. intro HI. apply (step_spec n s o HI). Qed.

(** * no call diverges, from any state *)

Lemma lpop_rest_never_diverges s ix start : snd (lpop_rest s ix start) <> ODiverged.
Proof.
  unfold lpop_rest. destruct (ring_pop s ix) as [s2 [x|]]; [discriminate|].
  destruct (steal_scan _ s2 ix) as [s3|].
  - destruct (ring_pop s3 ix) as [s4 r]. discriminate.
  - destruct (gpop_total s2) as [[s3 r] ->]. discriminate.
Qed.

Theorem step_never_diverges : forall s o, snd (step s o) <> ODiverged.
Proof.
  intros s o. destruct o as [x| | | | |h x|h start|h|h|h]; cbn [step]; try discriminate.
  - destruct (gpop_total s) as [[s' r] ->]. discriminate.
  - unfold new_handle. destruct (length (s_locals s)); discriminate.
  - unfold lpush. destruct (nth_error (s_handles s) h); [|discriminate].
    destruct (rlen _ <? _); discriminate.
  - unfold lpop. destruct (nth_error (s_handles s) h) as [hd0|]; [|discriminate].
    destruct (OWS.tick (h_tick hd0)) as [t' tv].
    destruct (tv mod 61 =? 0).
    + destruct (gpop_total (upd_handle s h {| h_ix := h_ix hd0; h_tick := t' |})) as [[s1 [x|]] ->];
        [discriminate | apply lpop_rest_never_diverges].
    + apply lpop_rest_never_diverges.
  - unfold with_handle. destruct (nth_error (s_handles s) h); discriminate.
  - unfold with_handle. destruct (nth_error (s_handles s) h); discriminate.
  - unfold with_handle. destruct (nth_error (s_handles s) h); discriminate.
Qed.

Lemma run_cons s o ops :
  run s (o :: ops) = snd (step s o) :: run (fst (step s o)) ops.
Proof.
  cbn [run]. pose proof (step_never_diverges s o) as H.
  destruct (step s o) as [s' r]. cbn [fst snd] in *. destruct r; try reflexivity. congruence.
Qed.

Theorem run_never_diverges : forall s ops, ~ In ODiverged (run s ops).
Proof.
  intros s ops. revert s. induction ops as [|o ops IH]; intros s; [intros []|].
  rewrite run_cons. intros [H|H]; [exact (step_never_diverges s o H) | exact (IH _ H)].
Qed.
