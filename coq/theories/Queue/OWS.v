(** Sequential model of core/src/common/ordered_work_steal.rs ([OrderedWorkStealQueue] +
    [OrderedLocalQueue]) as of the current tree: one step per public call, the random start
    index of the steal scan is an input. Loops carry fuel; exhaustion is the observation
    [ODiverged]. *)
From OCV Require Import Base.Prelude Queue.PMap.
Open Scope Z_scope.

Record handle := { h_ix : nat; h_len : Z; h_tick : Z }.

Record sys := {
  s_cap : Z;                (* local_capacity *)
  s_shq : pmap;             (* shared_queue : priority -> injector *)
  s_shlen : Z;              (* shared len counter *)
  s_locals : list pmap;     (* local_queues *)
  s_handles : list handle;  (* OrderedLocalQueue values handed out so far *)
  s_index : Z               (* round-robin index of local_queue() *)
}.

Definition init (n : nat) (cap : Z) : sys :=
  {| s_cap := cap; s_shq := []; s_shlen := 0; s_locals := repeat [] n; s_handles := []; s_index := 0 |}.

Inductive op :=
| GPush (p : Z) (x : item)
| GPop
| GLen
| NewHandle
| LPush (h : nat) (p : Z) (x : item)
| LPop (h : nat) (start : nat)
| LLen (h : nat)
| FullLen (h : nat).

Inductive obs :=
| OUnit
| OItem (x : option item)
| ONum (n : Z)
| ODiverged
| OBad.                      (* malformed op, e.g. unknown handle: the harness refuses it too *)

Definition obs_eqb (a b : obs) : bool :=
  match a, b with
  | OUnit, OUnit => true
  | OItem x, OItem y => option_eqb Z.eqb x y
  | ONum x, ONum y => x =? y
  | ODiverged, ODiverged => true
  | OBad, OBad => true
  | _, _ => false
  end.

Definition rcap (cap : Z) : Z := next_pow2 cap.           (* st3::fifo::Worker::new(cap) *)
Definition half_cap (cap : Z) : Z := (cap + 1) / 2.       (* (cap + 1) / 2 *)

Definition set_nth {A} (n : nat) (x : A) (l : list A) : list A :=
  firstn n l ++ match skipn n l with [] => [] | _ :: t => x :: t end.

Definition upd_handle (s : sys) (h : nat) (hd : handle) : sys :=
  {| s_cap := s_cap s; s_shq := s_shq s; s_shlen := s_shlen s; s_locals := s_locals s;
     s_handles := set_nth h hd (s_handles s); s_index := s_index s |}.
Definition upd_local (s : sys) (i : nat) (m : pmap) : sys :=
  {| s_cap := s_cap s; s_shq := s_shq s; s_shlen := s_shlen s; s_locals := set_nth i m (s_locals s);
     s_handles := s_handles s; s_index := s_index s |}.
Definition upd_shared (s : sys) (q : pmap) (n : Z) : sys :=
  {| s_cap := s_cap s; s_shq := q; s_shlen := n; s_locals := s_locals s;
     s_handles := s_handles s; s_index := s_index s |}.

Definition local_of (s : sys) (i : nat) : pmap := nth i (s_locals s) [].

(** [OrderedWorkStealQueue::push_with_priority]: count first, then the injector push *)
Definition gpush (s : sys) (p : Z) (x : item) : sys :=
  upd_shared s (pm_push p x (s_shq s)) (s_shlen s + 1).

(** [OrderedWorkStealQueue::pop] *)
Definition gpop (s : sys) : sys * option item :=
  if s_shlen s =? 0 then (s, None)
  else match pm_pop (s_shq s) with
       | Some (_, x, q) => (upd_shared s q (s_shlen s - 1), Some x)
       | None => (s, None)
       end.

(** one reverse pass of [push_to_global]: walk the handle's rings from the highest key down and
    move at most one item per ring to the shared queue while [done < count].
    [rev_entries] is the not-yet-visited part, highest key first. *)
Fixpoint ptg_pass (rev_entries : list (Z * ring)) (s : sys) (ix : nat) (done count : Z) : sys * Z :=
  match rev_entries with
  | [] => (s, done)
  | (k, _) :: rest =>
      if count <=? done then (s, done)
      else
        match pm_get k (local_of s ix) with
        | [] => ptg_pass rest s ix done count
        | x :: r =>
            let s1 := upd_local s ix (pm_set k r (local_of s ix)) in
            ptg_pass rest (gpush s1 k x) ix (done + 1) count
        end
  end.

(** the [while done < count] loop; returns the final [done] or [None] when fuel ran out *)
Fixpoint ptg_loop (fuel : nat) (s : sys) (ix : nat) (done count : Z) : option (sys * Z * bool) :=
  if count <=? done then Some (s, done, false)
  else match fuel with
       | O => None
       | S f =>
           let '(s1, done1) := ptg_pass (rev (local_of s ix)) s ix done count in
           if done1 =? done then Some (s1, done1, true)   (* a pass moved nothing: every ring is empty *)
           else ptg_loop f s1 ix done1 count
       end.

Definition push_to_global (s : sys) (h : nat) (hd : handle) (p : Z) (x : item) : sys * obs :=
  let count := h_len hd / 2 in
  match ptg_loop (S (Z.to_nat count)) s (h_ix hd) 0 count with
  | None => (s, ODiverged)
  | Some (s1, done, stale) =>
      let len0 := if stale then done else h_len hd in
      let hd' := {| h_ix := h_ix hd; h_len := sat_sub len0 done; h_tick := h_tick hd |} in
      (gpush (upd_handle s1 h hd') p x, OUnit)
  end.

Definition lpush (s : sys) (h : nat) (p : Z) (x : item) : sys * obs :=
  match nth_error (s_handles s) h with
  | None => (s, OBad)
  | Some hd =>
      if s_cap s <=? h_len hd then push_to_global s h hd p x
      else
        let m1 := pm_ensure p (local_of s (h_ix hd)) in
        let r := pm_get p m1 in
        if rcap (s_cap s) <=? Z.of_nat (length r)
        then push_to_global (upd_local s (h_ix hd) m1) h hd p x
        else
          let s1 := upd_local s (h_ix hd) (pm_set p (r ++ [x]) m1) in
          (upd_handle s1 h {| h_ix := h_ix hd; h_len := h_len hd + 1; h_tick := h_tick hd |}, OUnit)
  end.

(** [tick]: returns the new handle tick and the value the call returns *)
Definition tick (t : Z) : Z * Z :=
  if t =? U32MAX then (0, 0) else (t + 1, t + 1).

(** [pop_local] *)
Definition pop_local (s : sys) (h : nat) (hd : handle) : sys * handle * option item :=
  match pm_pop (local_of s (h_ix hd)) with
  | Some (_, x, m) =>
      let hd' := {| h_ix := h_ix hd; h_len := sat_sub (h_len hd) 1; h_tick := h_tick hd |} in
      (upd_handle (upd_local s (h_ix hd) m) h hd', hd', Some x)
  | None => (s, hd, None)
  end.

(** try the rings of sibling [j] in ascending key order; [entries] = the part not yet visited.
    Success: the moved items sit at the back of the thief's ring of the same key. *)
Fixpoint steal_from (entries : list (Z * ring)) (s : sys) (hd : handle) (j : nat) : option (sys * handle) :=
  match entries with
  | [] => None
  | (k, _) :: rest =>
      match pm_get k (local_of s j) with
      | [] => steal_from rest s hd j
      | (_ :: _) as r =>
          let n := Z.of_nat (length r) in
          let mine1 := pm_ensure k (local_of s (h_ix hd)) in
          let s1 := upd_local s (h_ix hd) mine1 in
          let dest := pm_get k mine1 in
          let max_steal := sat_sub (half_cap (s_cap s)) (h_len hd) in
          let free := rcap (s_cap s) - Z.of_nat (length dest) in
          let cnt := Z.min (Z.min (Z.min (Z.min n max_steal) ((n + 1) / 2)) free) n in
          if cnt <=? 0 then steal_from rest s1 hd j
          else
            let c := Z.to_nat cnt in
            let s2 := upd_local s1 j (pm_set k (skipn c r) (local_of s1 j)) in
            let dest' := pm_get k (local_of s2 (h_ix hd)) ++ firstn c r in
            let s3 := upd_local s2 (h_ix hd) (pm_set k dest' (local_of s2 (h_ix hd))) in
            Some (s3, {| h_ix := h_ix hd; h_len := h_len hd + Z.of_nat (length dest'); h_tick := h_tick hd |})
      end
  end.

(** the sibling scan: [order] = the indices start, start+1, ... (mod n) still to visit *)
Fixpoint steal_scan (order : list nat) (s : sys) (hd : handle) : sys * option (sys * handle) :=
  match order with
  | [] => (s, None)
  | j :: rest =>
      if half_cap (s_cap s) <=? h_len hd then (s, None)   (* !can_steal: break *)
      else
        (* entries created in the thief's own map by failed attempts stay: thread [s] through *)
        match steal_from (local_of s j) s hd j with
        | Some r => (s, Some r)
        | None => steal_scan rest s hd
        end
  end.

Definition scan_order (n start : nat) : list nat :=
  map (fun i => Nat.modulo (start + i) n) (seq 0 n).

Definition lpop (s : sys) (h : nat) (start : nat) : sys * obs :=
  match nth_error (s_handles s) h with
  | None => (s, OBad)
  | Some hd0 =>
      let '(t', tv) := tick (h_tick hd0) in
      let hd := {| h_ix := h_ix hd0; h_len := h_len hd0; h_tick := t' |} in
      let s := upd_handle s h hd in
      let first :=
        if tv mod 61 =? 0 then gpop s else (s, None) in
      match first with
      | (s1, Some x) => (s1, OItem (Some x))
      | (s1, None) =>
          match pop_local s1 h hd with
          | (s2, _, Some x) => (s2, OItem (Some x))
          | (s2, _, None) =>
              (* every local ring is empty here: refresh the count *)
              let hd1 := {| h_ix := h_ix hd; h_len := 0; h_tick := h_tick hd |} in
              let s3 := upd_handle s2 h hd1 in
              let n := length (s_locals s3) in
              match steal_scan (scan_order n start) s3 hd1 with
              | (_, Some (s4, hd2)) =>
                  let s5 := upd_handle s4 h hd2 in
                  let '(s6, _, r) := pop_local s5 h hd2 in (s6, OItem r)
              | (s4, None) =>
                  let '(s5, r) := gpop s4 in (s5, OItem r)
              end
          end
      end
  end.

Definition full_len (s : sys) : Z :=
  s_shlen s + fold_right Z.add 0 (map pm_count (s_locals s)).

Definition new_handle (s : sys) : sys * obs :=
  match length (s_locals s) with
  | O => (s, OBad)
  | n =>
      let ix := Z.to_nat (s_index s mod Z.of_nat n) in
      ({| s_cap := s_cap s; s_shq := s_shq s; s_shlen := s_shlen s; s_locals := s_locals s;
          s_handles := s_handles s ++ [{| h_ix := ix; h_len := 0; h_tick := 0 |}];
          s_index := s_index s + 1 |}, ONum (Z.of_nat (length (s_handles s))))
  end.

Definition step (s : sys) (o : op) : sys * obs :=
  match o with
  | GPush p x => (gpush s p x, OUnit)
  | GPop => let '(s', r) := gpop s in (s', OItem r)
  | GLen => (s, ONum (s_shlen s))
  | NewHandle => new_handle s
  | LPush h p x => lpush s h p x
  | LPop h start => lpop s h start
  | LLen h => match nth_error (s_handles s) h with Some hd => (s, ONum (h_len hd)) | None => (s, OBad) end
  | FullLen h => match nth_error (s_handles s) h with Some _ => (s, ONum (full_len s)) | None => (s, OBad) end
  end.

(** run, stopping at the first divergence (the real call never returns) *)
Fixpoint run (s : sys) (ops : list op) : list obs :=
  match ops with
  | [] => []
  | o :: ops' =>
      let '(s', r) := step s o in
      match r with
      | ODiverged => [ODiverged]
      | _ => r :: run s' ops'
      end
  end.
