(** Model-level facts about [OWS.step]: termination of [push_to_global], the state invariant,
    conservation of items, and a case analysis of [lpop]. *)
From OCV Require Import Base.Prelude Queue.PMap Queue.OWS Queue.OWSOracle Queue.OWSLemmas.
From Coq Require Import ZifyBool ZifyNat Permutation Sorted.
Open Scope Z_scope.

(** * Projections of the update functions *)

Lemma s_cap_upd_local s i m : s_cap (upd_local s i m) = s_cap s. Proof. reflexivity. Qed.
Lemma s_cap_upd_handle s h hd : s_cap (upd_handle s h hd) = s_cap s. Proof. reflexivity. Qed.
Lemma s_cap_upd_shared s q n : s_cap (upd_shared s q n) = s_cap s. Proof. reflexivity. Qed.
Lemma s_cap_gpush s p x : s_cap (gpush s p x) = s_cap s. Proof. reflexivity. Qed.
Lemma s_handles_upd_local s i m : s_handles (upd_local s i m) = s_handles s. Proof. reflexivity. Qed.
Lemma s_handles_upd_handle s h hd : s_handles (upd_handle s h hd) = set_nth h hd (s_handles s). Proof. reflexivity. Qed.
Lemma s_handles_upd_shared s q n : s_handles (upd_shared s q n) = s_handles s. Proof. reflexivity. Qed.
Lemma s_handles_gpush s p x : s_handles (gpush s p x) = s_handles s. Proof. reflexivity. Qed.
Lemma s_locals_upd_local s i m : s_locals (upd_local s i m) = set_nth i m (s_locals s). Proof. reflexivity. Qed.
Lemma s_locals_upd_handle s h hd : s_locals (upd_handle s h hd) = s_locals s. Proof. reflexivity. Qed.
Lemma s_locals_upd_shared s q n : s_locals (upd_shared s q n) = s_locals s. Proof. reflexivity. Qed.
Lemma s_locals_gpush s p x : s_locals (gpush s p x) = s_locals s. Proof. reflexivity. Qed.
Lemma s_shq_upd_local s i m : s_shq (upd_local s i m) = s_shq s. Proof. reflexivity. Qed.
Lemma s_shq_upd_handle s h hd : s_shq (upd_handle s h hd) = s_shq s. Proof. reflexivity. Qed.
Lemma s_shq_upd_shared s q n : s_shq (upd_shared s q n) = q. Proof. reflexivity. Qed.
Lemma s_shq_gpush s p x : s_shq (gpush s p x) = pm_push p x (s_shq s). Proof. reflexivity. Qed.
Lemma s_shlen_upd_local s i m : s_shlen (upd_local s i m) = s_shlen s. Proof. reflexivity. Qed.
Lemma s_shlen_upd_handle s h hd : s_shlen (upd_handle s h hd) = s_shlen s. Proof. reflexivity. Qed.
Lemma s_shlen_upd_shared s q n : s_shlen (upd_shared s q n) = n. Proof. reflexivity. Qed.
Lemma s_shlen_gpush s p x : s_shlen (gpush s p x) = s_shlen s + 1. Proof. reflexivity. Qed.
Lemma local_of_upd_handle s h hd i : local_of (upd_handle s h hd) i = local_of s i. Proof. reflexivity. Qed.
Lemma local_of_upd_shared s q n i : local_of (upd_shared s q n) i = local_of s i. Proof. reflexivity. Qed.
Lemma local_of_gpush s p x i : local_of (gpush s p x) i = local_of s i. Proof. reflexivity. Qed.
Lemma ali_upd_handle s h hd : all_local_items (upd_handle s h hd) = all_local_items s. Proof. reflexivity. Qed.
Lemma ali_upd_shared s q n : all_local_items (upd_shared s q n) = all_local_items s. Proof. reflexivity. Qed.
Lemma ali_gpush s p x : all_local_items (gpush s p x) = all_local_items s. Proof. reflexivity. Qed.

#[export] Hint Rewrite s_cap_upd_local s_cap_upd_handle s_cap_upd_shared s_cap_gpush
  s_handles_upd_local s_handles_upd_handle s_handles_upd_shared s_handles_gpush
  s_locals_upd_local s_locals_upd_handle s_locals_upd_shared s_locals_gpush
  s_shq_upd_local s_shq_upd_handle s_shq_upd_shared s_shq_gpush
  s_shlen_upd_local s_shlen_upd_handle s_shlen_upd_shared s_shlen_gpush
  local_of_upd_handle local_of_upd_shared local_of_gpush
  ali_upd_handle ali_upd_shared ali_gpush : sys.

Lemma local_of_upd_same s i m : (i < length (s_locals s))%nat -> local_of (upd_local s i m) i = m.
Proof. intro H. unfold local_of. rewrite s_locals_upd_local. apply nth_set_nth_eq, H. Qed.

Lemma local_of_upd_other s i j m : i <> j -> local_of (upd_local s i m) j = local_of s j.
Proof. intro H. unfold local_of. rewrite s_locals_upd_local. apply nth_set_nth_neq, H. Qed.

Lemma nloc_upd_local s i m : length (s_locals (upd_local s i m)) = length (s_locals s).
Proof. rewrite s_locals_upd_local. apply set_nth_length. Qed.

Lemma cnt_upd_local z s i m :
  (i < length (s_locals s))%nat ->
  (cnt z (all_local_items (upd_local s i m)) + cnt z (pm_items (local_of s i)) =
   cnt z (all_local_items s) + cnt z (pm_items m))%nat.
Proof. intro H. apply (cnt_litems_set_nth z i m (s_locals s) H). Qed.

Lemma local_of_in s i : (i < length (s_locals s))%nat -> In (local_of s i) (s_locals s).
Proof. intro H. apply nth_In, H. Qed.

Lemma local_of_items_nil s i : all_local_items s = [] -> pm_items (local_of s i) = [].
Proof. apply litems_nil_nth. Qed.

(** * Well-formed local maps, exact shared counter *)

Definition wfL (s : sys) : Prop := Forall pm_sorted (s_locals s).
Definition I2 (s : sys) : Prop := s_shlen s = pm_count (s_shq s).

Lemma local_of_sorted s i : wfL s -> pm_sorted (local_of s i).
Proof.
  intro H. unfold local_of. destruct (lt_dec i (length (s_locals s))) as [Hlt|Hge].
  - unfold wfL in H. rewrite Forall_forall in H. apply H, nth_In, Hlt.
  - rewrite nth_overflow by lia. apply pm_sorted_nil.
Qed.

Lemma wfL_upd_local s i m : wfL s -> pm_sorted m -> wfL (upd_local s i m).
Proof. intros H Hm. unfold wfL. rewrite s_locals_upd_local. apply Forall_set_nth; assumption. Qed.

Definition tot (z : Z) (s : sys) : nat := cnt z (all_items s).

Lemma tot_eq z s : tot z s = (cnt z (pm_items (s_shq s)) + cnt z (all_local_items s))%nat.
Proof. unfold tot, all_items. apply cnt_app. Qed.

(** * Internal moves: items go from local maps to the shared map, nothing else changes *)

Record moves (s s1 : sys) : Prop := {
  mv_cap : s_cap s1 = s_cap s;
  mv_handles : s_handles s1 = s_handles s;
  mv_nloc : length (s_locals s1) = length (s_locals s);
  mv_wf : wfL s1;
  mv_I2 : I2 s -> I2 s1;
  mv_items : exists mv, forall z,
     (cnt z (all_local_items s) = cnt z mv + cnt z (all_local_items s1))%nat /\
     (cnt z (pm_items (s_shq s1)) = cnt z mv + cnt z (pm_items (s_shq s)))%nat
}.

Lemma moves_refl s : wfL s -> moves s s.
Proof.
  intro H. constructor; try reflexivity; try assumption; try tauto.
  exists []. intro z. rewrite cnt_nil. lia.
Qed.

Lemma moves_trans s s1 s2 : moves s s1 -> moves s1 s2 -> moves s s2.
Proof.
  intros [c1 h1 n1 w1 i1 [mv1 m1]] [c2 h2 n2 w2 i2 [mv2 m2]].
  constructor; try congruence; try tauto.
  exists (mv1 ++ mv2). intro z. rewrite cnt_app.
  destruct (m1 z) as [A1 B1]. destruct (m2 z) as [A2 B2]. lia.
Qed.

Lemma moves_tot s s1 z : moves s s1 -> tot z s1 = tot z s.
Proof.
  intros [_ _ _ _ _ [mv m]]. rewrite !tot_eq. destruct (m z) as [A B]. lia.
Qed.

Lemma moves_ali_nil s s1 : moves s s1 -> all_local_items s = [] -> all_local_items s1 = [].
Proof.
  intros [_ _ _ _ _ [mv m]] H. apply cnt_all0_nil. intro z.
  destruct (m z) as [A _]. rewrite H, cnt_nil in A. lia.
Qed.

(** replacing a local map by one with the same items *)
Lemma moves_upd_same_items s i m :
  wfL s -> pm_sorted m -> pm_items m = pm_items (local_of s i) -> moves s (upd_local s i m).
Proof.
  intros Hw Hm Hi. constructor; autorewrite with sys; try reflexivity.
  - apply set_nth_length.
  - apply wfL_upd_local; assumption.
  - unfold I2. autorewrite with sys. tauto.
  - exists []. intro z. rewrite cnt_nil. split; [|reflexivity].
    destruct (lt_dec i (length (s_locals s))) as [Hlt|Hge].
    + pose proof (cnt_upd_local z s i m Hlt) as H. rewrite Hi in H. lia.
    + unfold all_local_items. rewrite s_locals_upd_local, set_nth_ge by lia. reflexivity.
Qed.

Lemma moves_ensure s i k : wfL s -> moves s (upd_local s i (pm_ensure k (local_of s i))).
Proof.
  intro Hw. apply moves_upd_same_items; [assumption | | apply pm_items_ensure].
  apply pm_sorted_ensure, local_of_sorted, Hw.
Qed.

(** * gpush / gpop *)

Lemma I2_gpush s p x : I2 s -> I2 (gpush s p x).
Proof. unfold I2. autorewrite with sys. rewrite pm_count_push. lia. Qed.

Lemma tot_gpush z s p x : tot z (gpush s p x) = (one z x + tot z s)%nat.
Proof. rewrite !tot_eq. autorewrite with sys. rewrite cnt_pm_push. lia. Qed.

Lemma tot_upd_handle z s h hd : tot z (upd_handle s h hd) = tot z s.
Proof. reflexivity. Qed.

Lemma gpop_none s s1 : gpop s = (s1, None) -> s1 = s.
Proof.
  unfold gpop. destruct (s_shlen s =? 0); [congruence|].
  destruct (pm_pop (s_shq s)) as [[[k x] q]|]; congruence.
Qed.

Lemma gpop_none_items s s1 : I2 s -> gpop s = (s1, None) -> pm_items (s_shq s) = [].
Proof.
  unfold gpop, I2, pm_count. intro H2. destruct (s_shlen s =? 0) eqn:E.
  - intros _. apply length_zero_iff_nil. lia.
  - destruct (pm_pop (s_shq s)) as [[[k x] q]|] eqn:Ep; [discriminate|].
    intros _. apply pm_pop_none, Ep.
Qed.

Lemma gpop_some s s1 x :
  gpop s = (s1, Some x) ->
  exists k q, pm_pop (s_shq s) = Some (k, x, q) /\ s1 = upd_shared s q (s_shlen s - 1).
Proof.
  unfold gpop. destruct (s_shlen s =? 0); [discriminate|].
  destruct (pm_pop (s_shq s)) as [[[k y] q]|]; [|discriminate].
  intro H. injection H as <- <-. eauto.
Qed.

Lemma gpop_nonempty s : I2 s -> pm_items (s_shq s) <> [] ->
  exists s1 x, gpop s = (s1, Some x) /\ pm_head (s_shq s) = Some x.
Proof.
  intros H2 Hne. unfold gpop, pm_head.
  assert (s_shlen s =? 0 = false) as ->.
  { unfold I2, pm_count in H2. destruct (pm_items (s_shq s)); [congruence|]. cbn [length] in H2. lia. }
  destruct (pm_pop (s_shq s)) as [[[k y] q]|] eqn:E.
  - eauto.
  - apply pm_pop_none in E. contradiction.
Qed.

Lemma I2_gpop_some s k x q : I2 s -> pm_pop (s_shq s) = Some (k, x, q) -> I2 (upd_shared s q (s_shlen s - 1)).
Proof.
  unfold I2, pm_count. autorewrite with sys. intros H Hp.
  rewrite (pm_pop_items _ _ _ _ Hp) in H. cbn [length] in H. lia.
Qed.

Lemma tot_gpop_some z s k x q :
  pm_pop (s_shq s) = Some (k, x, q) -> tot z s = (one z x + tot z (upd_shared s q (s_shlen s - 1)))%nat.
Proof.
  intro Hp. rewrite !tot_eq. autorewrite with sys.
  rewrite (pm_pop_items _ _ _ _ Hp), cnt_cons. lia.
Qed.

(** * push_to_global *)

Lemma ptg_pass_done_mono rev_entries : forall s ix done count,
  done <= snd (ptg_pass rev_entries s ix done count).
Proof.
  induction rev_entries as [|[k r0] rest IH]; intros s ix done count; cbn [ptg_pass].
  - cbn [snd]. lia.
  - destruct (count <=? done); [cbn [snd]; lia|].
    destruct (pm_get k (local_of s ix)) as [|x r].
    + apply IH.
    + etransitivity; [|apply IH]. lia.
Qed.

Lemma ptg_loop_some fuel : forall s ix done count,
  (Z.to_nat (count - done) < fuel)%nat -> ptg_loop fuel s ix done count <> None.
Proof.
  induction fuel as [|f IH]; intros s ix done count Hf; [lia|].
  cbn [ptg_loop]. destruct (count <=? done) eqn:E; [discriminate|].
  pose proof (ptg_pass_done_mono (rev (local_of s ix)) s ix done count) as Hm.
  destruct (ptg_pass (rev (local_of s ix)) s ix done count) as [s1 done1]. cbn [snd] in Hm.
  destruct (done1 =? done) eqn:E2; [discriminate|].
  apply IH. lia.
Qed.

Lemma ptg_move s ix k x r :
  wfL s -> (ix < length (s_locals s))%nat -> pm_get k (local_of s ix) = x :: r ->
  moves s (gpush (upd_local s ix (pm_set k r (local_of s ix))) k x).
Proof.
  intros Hw Hix Hg.
  assert (pm_find k (local_of s ix) = Some (x :: r)) as Hf by (apply pm_get_find; congruence).
  constructor; autorewrite with sys; try reflexivity.
  - apply set_nth_length.
  - unfold wfL. autorewrite with sys. apply Forall_set_nth; [exact Hw|].
    apply pm_sorted_set, local_of_sorted, Hw.
  - intro H2. apply I2_gpush. unfold I2 in *. autorewrite with sys. exact H2.
  - exists [x]. intro z. rewrite cnt_cons, cnt_nil. split.
    + pose proof (cnt_upd_local z s ix (pm_set k r (local_of s ix)) Hix) as H1.
      pose proof (cnt_pm_set z k r _ _ Hf) as H3. rewrite cnt_cons in H3. lia.
    + rewrite cnt_pm_push. lia.
Qed.

Lemma ptg_pass_moves rev_entries : forall s ix done count s1 done1,
  wfL s -> (ix < length (s_locals s))%nat ->
  ptg_pass rev_entries s ix done count = (s1, done1) -> moves s s1.
Proof.
  induction rev_entries as [|[k r0] rest IH]; intros s ix done count s1 done1 Hw Hix; cbn [ptg_pass].
  - intro H. injection H as <- _. apply moves_refl, Hw.
  - destruct (count <=? done); [intro H; injection H as <- _; apply moves_refl, Hw|].
    destruct (pm_get k (local_of s ix)) as [|x r] eqn:Hg.
    + apply IH; assumption.
    + intro H. pose proof (ptg_move s ix k x r Hw Hix Hg) as Hm.
      eapply moves_trans; [exact Hm|].
      eapply IH; [apply Hm | rewrite (mv_nloc _ _ Hm); exact Hix | exact H].
Qed.

Lemma ptg_loop_moves fuel : forall s ix done count s1 done1 stale,
  wfL s -> (ix < length (s_locals s))%nat ->
  ptg_loop fuel s ix done count = Some (s1, done1, stale) -> moves s s1.
Proof.
  induction fuel as [|f IH]; intros s ix done count s1 done1 stale Hw Hix; cbn [ptg_loop].
  - destruct (count <=? done); [|discriminate]. intro H. injection H as <- _ _. apply moves_refl, Hw.
  - destruct (count <=? done); [intro H; injection H as <- _ _; apply moves_refl, Hw|].
    destruct (ptg_pass (rev (local_of s ix)) s ix done count) as [s2 done2] eqn:Ep.
    pose proof (ptg_pass_moves _ _ _ _ _ _ _ Hw Hix Ep) as Hm.
    destruct (done2 =? done).
    + intro H. injection H as <- _ _. exact Hm.
    + intro H. eapply moves_trans; [exact Hm|].
      eapply IH; [apply Hm | rewrite (mv_nloc _ _ Hm); exact Hix | exact H].
Qed.

Lemma push_to_global_spec s h hd p x :
  wfL s -> (h_ix hd < length (s_locals s))%nat ->
  exists s1 hd', moves s s1 /\
    push_to_global s h hd p x = (gpush (upd_handle s1 h hd') p x, OUnit) /\
    h_ix hd' = h_ix hd /\ 0 <= h_len hd' /\ h_tick hd' = h_tick hd.
Proof.
  intros Hw Hix. unfold push_to_global.
  destruct (ptg_loop (S (Z.to_nat (h_len hd / 2))) s (h_ix hd) 0 (h_len hd / 2)) as [[[s1 done] stale]|] eqn:E.
  - eexists s1, _. split; [eapply ptg_loop_moves; eassumption|].
    split; [reflexivity|]. cbn [h_ix h_len h_tick]. unfold sat_sub. repeat split; lia.
  - exfalso. revert E. apply ptg_loop_some. lia.
Qed.

Lemma push_to_global_not_div s h hd p x : snd (push_to_global s h hd p x) <> ODiverged.
Proof.
  unfold push_to_global.
  destruct (ptg_loop (S (Z.to_nat (h_len hd / 2))) s (h_ix hd) 0 (h_len hd / 2)) as [[[s1 done] stale]|] eqn:E.
  - cbn [snd]. discriminate.
  - exfalso. revert E. apply ptg_loop_some. lia.
Qed.

(** * No step diverges *)

Theorem step_never_diverges : forall s o, snd (step s o) <> ODiverged.
Proof.
  intros s o. destruct o as [p x| | | |h p x|h start|h|h]; cbn [step].
  - cbn [snd]. discriminate.
  - destruct (gpop s) as [s' r]. cbn [snd]. discriminate.
  - cbn [snd]. discriminate.
  - unfold new_handle. destruct (length (s_locals s)); cbn [snd]; discriminate.
  - unfold lpush. destruct (nth_error (s_handles s) h) as [hd|]; [|cbn [snd]; discriminate].
    destruct (s_cap s <=? h_len hd); [apply push_to_global_not_div|].
    destruct (rcap (s_cap s) <=? _); [apply push_to_global_not_div|].
    cbn [snd]. discriminate.
  - unfold lpop. destruct (nth_error (s_handles s) h) as [hd|]; [|cbn [snd]; discriminate].
    destruct (tick (h_tick hd)) as [t' tv].
    destruct (if tv mod 61 =? 0 then _ else _) as [s1 [x|]]; [cbn [snd]; discriminate|].
    destruct (pop_local s1 h _) as [[s2 hd2] [x|]]; [cbn [snd]; discriminate|].
    destruct (steal_scan _ _ _) as [sX [[s4 hd4]|]].
    + destruct (pop_local _ h hd4) as [[s6 hd6] r]. cbn [snd]. discriminate.
    + destruct (gpop sX) as [s5 r]. cbn [snd]. discriminate.
  - destruct (nth_error (s_handles s) h); cbn [snd]; discriminate.
  - destruct (nth_error (s_handles s) h); cbn [snd]; discriminate.
Qed.

Lemma run_cons s o ops : run s (o :: ops) = snd (step s o) :: run (fst (step s o)) ops.
Proof.
  cbn [run]. pose proof (step_never_diverges s o) as H.
  destruct (step s o) as [s' r]. cbn [fst snd] in *. destruct r; congruence.
Qed.

Theorem run_never_diverges : forall s ops, ~ In ODiverged (run s ops).
Proof.
  intros s ops; revert s; induction ops as [|o ops IH]; intros s; [cbn; tauto|].
  rewrite run_cons. cbn [In]. intros [H|H].
  - apply (step_never_diverges s o). exact H.
  - apply (IH _ H).
Qed.
