(** Auxiliary lemmas for the ordered work-stealing queue proofs: multiset counting, [set_nth],
    priority maps, capacity arithmetic, scan order, tick arithmetic. No model reasoning here. *)
From OCV Require Import Base.Prelude Queue.PMap Queue.OWS Queue.OWSOracle.
From Coq Require Import ZifyBool ZifyNat Permutation Sorted.
Open Scope Z_scope.

(** * Counting occurrences: multiset reasoning through [lia] *)

Definition one (z x : Z) : nat := if Z.eq_dec x z then 1%nat else 0%nat.
Definition cnt (z : Z) (l : list Z) : nat := count_occ Z.eq_dec l z.

Lemma cnt_nil z : cnt z [] = 0%nat.
Proof. reflexivity. Qed.

Lemma cnt_cons z x l : cnt z (x :: l) = (one z x + cnt z l)%nat.
Proof. unfold cnt, one. cbn [count_occ]. destruct (Z.eq_dec x z); reflexivity. Qed.

Lemma cnt_app z l1 l2 : cnt z (l1 ++ l2) = (cnt z l1 + cnt z l2)%nat.
Proof. apply count_occ_app. Qed.

Lemma one_same z : one z z = 1%nat.
Proof. unfold one. destruct (Z.eq_dec z z); congruence. Qed.

Lemma one_diff z x : x <> z -> one z x = 0%nat.
Proof. unfold one. destruct (Z.eq_dec x z); congruence. Qed.

Lemma one_le z x : (one z x <= 1)%nat.
Proof. unfold one. destruct (Z.eq_dec x z); lia. Qed.

Lemma cnt_In z l : In z l <-> (cnt z l > 0)%nat.
Proof. apply count_occ_In. Qed.

Lemma cnt_all0_nil l : (forall z, cnt z l = 0%nat) -> l = [].
Proof. intro H. apply (count_occ_inv_nil Z.eq_dec). exact H. Qed.

Lemma cnt_perm l1 l2 : (forall z, cnt z l1 = cnt z l2) -> Permutation l1 l2.
Proof. intro H. apply (Permutation_count_occ Z.eq_dec). exact H. Qed.

Lemma cnt_length l1 l2 : (forall z, cnt z l1 = cnt z l2) -> length l1 = length l2.
Proof. intro H. apply Permutation_length, cnt_perm, H. Qed.

Lemma cnt_NoDup l : NoDup l <-> forall z, (cnt z l <= 1)%nat.
Proof. apply NoDup_count_occ. Qed.

Lemma cnt_firstn_skipn z c (l : list Z) : (cnt z (firstn c l) + cnt z (skipn c l) = cnt z l)%nat.
Proof. rewrite <- cnt_app, firstn_skipn. reflexivity. Qed.

Lemma mem_In x l : mem x l = true <-> In x l.
Proof.
  induction l as [|y l IH]; cbn [mem In].
  - split; [discriminate | tauto].
  - rewrite orb_true_iff, IH, Z.eqb_eq. split; intros [H|H]; auto.
Qed.

(** * [set_nth] *)

Lemma set_nth_nil {A} i (x : A) : set_nth i x [] = [].
Proof. destruct i; reflexivity. Qed.

Lemma set_nth_0 {A} (x a : A) l : set_nth 0 x (a :: l) = x :: l.
Proof. reflexivity. Qed.

Lemma set_nth_S {A} i (x a : A) l : set_nth (S i) x (a :: l) = a :: set_nth i x l.
Proof. reflexivity. Qed.

Lemma set_nth_length {A} i (x : A) l : length (set_nth i x l) = length l.
Proof.
  revert l; induction i as [|i IH]; intros [|a l]; try reflexivity.
  rewrite set_nth_S. cbn [length]. rewrite IH. reflexivity.
Qed.

Lemma nth_set_nth_eq {A} i (x d : A) l : (i < length l)%nat -> nth i (set_nth i x l) d = x.
Proof.
  revert l; induction i as [|i IH]; intros [|a l] Hlt; cbn [length] in Hlt; try lia.
  - reflexivity.
  - rewrite set_nth_S. cbn [nth]. apply IH. lia.
Qed.

Lemma nth_set_nth_neq {A} i j (x d : A) l : i <> j -> nth j (set_nth i x l) d = nth j l d.
Proof.
  revert j l; induction i as [|i IH]; intros j [|a l] Hne.
  - reflexivity.
  - destruct j; [congruence | reflexivity].
  - reflexivity.
  - rewrite set_nth_S. destruct j as [|j]; [reflexivity|]. cbn [nth]. apply IH. congruence.
Qed.

Lemma nth_error_set_nth_eq {A} i (x : A) l : (i < length l)%nat -> nth_error (set_nth i x l) i = Some x.
Proof.
  revert l; induction i as [|i IH]; intros [|a l] Hlt; cbn [length] in Hlt; try lia.
  - reflexivity.
  - rewrite set_nth_S. cbn [nth_error]. apply IH. lia.
Qed.

Lemma nth_error_set_nth_neq {A} i j (x : A) l : i <> j -> nth_error (set_nth i x l) j = nth_error l j.
Proof.
  revert j l; induction i as [|i IH]; intros j [|a l] Hne.
  - reflexivity.
  - destruct j; [congruence | reflexivity].
  - reflexivity.
  - rewrite set_nth_S. destruct j as [|j]; [reflexivity|]. cbn [nth_error]. apply IH. congruence.
Qed.

Lemma set_nth_ge {A} i (x : A) l : (length l <= i)%nat -> set_nth i x l = l.
Proof.
  revert l; induction i as [|i IH]; intros [|a l] Hge; cbn [length] in Hge; try reflexivity; try lia.
  rewrite set_nth_S, IH by lia. reflexivity.
Qed.

Lemma Forall_set_nth {A} (P : A -> Prop) i x l : Forall P l -> P x -> Forall P (set_nth i x l).
Proof.
  revert l; induction i as [|i IH]; intros [|a l] HF Hx; try (rewrite set_nth_nil; constructor).
  - rewrite set_nth_0. inversion HF; subst. constructor; assumption.
  - rewrite set_nth_S. inversion HF; subst. constructor; [assumption | apply IH; assumption].
Qed.

Lemma nth_error_nth' {A} (l : list A) i x d : nth_error l i = Some x -> nth i l d = x.
Proof. intro H. apply nth_error_nth. exact H. Qed.

Lemma nth_error_lt {A} (l : list A) i x : nth_error l i = Some x -> (i < length l)%nat.
Proof. intro H. apply nth_error_Some. congruence. Qed.

(** * items of a list of maps *)

Definition litems (ls : list pmap) : list item := concat (map pm_items ls).

Lemma litems_cons m ls : litems (m :: ls) = pm_items m ++ litems ls.
Proof. reflexivity. Qed.

Lemma cnt_litems_set_nth z i m ls :
  (i < length ls)%nat ->
  (cnt z (litems (set_nth i m ls)) + cnt z (pm_items (nth i ls [])) =
   cnt z (litems ls) + cnt z (pm_items m))%nat.
Proof.
  revert ls; induction i as [|i IH]; intros [|a ls] Hlt; cbn [length] in Hlt; try lia.
  - rewrite set_nth_0. cbn [nth]. rewrite !litems_cons, !cnt_app. lia.
  - rewrite set_nth_S. cbn [nth]. rewrite !litems_cons, !cnt_app.
    specialize (IH ls ltac:(lia)). lia.
Qed.

Lemma litems_nil_nth ls i : litems ls = [] -> pm_items (nth i ls []) = [].
Proof.
  revert i; induction ls as [|a ls IH]; intros i H.
  - destruct i; reflexivity.
  - rewrite litems_cons in H. apply app_eq_nil in H as [Ha Hl].
    destruct i; cbn [nth]; [exact Ha | apply IH, Hl].
Qed.

Lemma litems_all_nil ls : (forall i, (i < length ls)%nat -> pm_items (nth i ls []) = []) -> litems ls = [].
Proof.
  induction ls as [|a ls IH]; intro H; [reflexivity|].
  rewrite litems_cons. pose proof (H 0%nat ltac:(cbn [length]; lia)) as H0. cbn [nth] in H0.
  rewrite H0. cbn [app].
  apply IH. intros i Hi. apply (H (S i)). cbn [length]. lia.
Qed.

(** * Priority maps *)

Lemma pm_items_cons k r m : pm_items ((k, r) :: m) = r ++ pm_items m.
Proof. reflexivity. Qed.

Lemma pm_items_nil : pm_items [] = [].
Proof. reflexivity. Qed.

Lemma pm_items_ensure k m : pm_items (pm_ensure k m) = pm_items m.
Proof.
  induction m as [|[k0 r0] m IH]; cbn [pm_ensure]; [reflexivity|].
  destruct (k <? k0); [reflexivity|]. destruct (k =? k0); [reflexivity|].
  rewrite !pm_items_cons, IH. reflexivity.
Qed.

Lemma pm_find_in_keys k m r : pm_find k m = Some r -> In k (pm_keys m).
Proof.
  induction m as [|[k0 r0] m IH]; cbn [pm_find pm_keys map fst In]; [discriminate|].
  destruct (k =? k0) eqn:E; intro H.
  - left. lia.
  - right. apply IH, H.
Qed.

Lemma pm_find_not_in k m : ~ In k (pm_keys m) -> pm_find k m = None.
Proof.
  intro H. destruct (pm_find k m) eqn:E; [|reflexivity].
  exfalso. apply H. eapply pm_find_in_keys, E.
Qed.

Lemma pm_find_ensure_same k m : exists r, pm_find k (pm_ensure k m) = Some r.
Proof.
  induction m as [|[k0 r0] m IH]; cbn [pm_ensure].
  - cbn [pm_find]. rewrite Z.eqb_refl. eauto.
  - destruct (k <? k0) eqn:E1.
    + cbn [pm_find]. rewrite Z.eqb_refl. eauto.
    + destruct (k =? k0) eqn:E2; cbn [pm_find]; rewrite E2; eauto.
Qed.

Definition pm_sorted (m : pmap) : Prop := StronglySorted Z.lt (pm_keys m).

Lemma sortedZ_SS l : sortedZ l = true <-> StronglySorted Z.lt l.
Proof.
  induction l as [|a l IH]; [split; [constructor | reflexivity]|].
  destruct l as [|b l].
  - split; [intros _; constructor; constructor | reflexivity].
  - change (sortedZ (a :: b :: l)) with ((a <? b) && sortedZ (b :: l)).
    rewrite andb_true_iff, IH. split.
    + intros [Hab HS]. constructor; [exact HS|].
      apply StronglySorted_inv in HS as [_ HF]. constructor; [lia|].
      eapply Forall_impl; [|exact HF]. cbn beta. intros; lia.
    + intro HS. apply StronglySorted_inv in HS as [HS HF]. split; [|exact HS].
      inversion HF; subst. lia.
Qed.

Lemma pm_wf_sorted m : pm_wf m = true <-> pm_sorted m.
Proof. apply sortedZ_SS. Qed.

Lemma pm_sorted_nil : pm_sorted [].
Proof. constructor. Qed.

Lemma pm_sorted_inv k r m : pm_sorted ((k, r) :: m) -> pm_sorted m /\ Forall (Z.lt k) (pm_keys m).
Proof. intro H. apply StronglySorted_inv in H. exact H. Qed.

Lemma pm_keys_ensure_in k m x : In x (pm_keys (pm_ensure k m)) -> x = k \/ In x (pm_keys m).
Proof.
  induction m as [|[k0 r0] m IH]; cbn [pm_ensure].
  - cbn. intros [H|[]]; auto.
  - destruct (k <? k0); [cbn; intros [H|H]; auto|].
    destruct (k =? k0); [auto|].
    cbn [pm_keys map fst In] in *. intros [H|H]; [auto|]. apply IH in H. tauto.
Qed.

Lemma pm_sorted_ensure k m : pm_sorted m -> pm_sorted (pm_ensure k m).
Proof.
  induction m as [|[k0 r0] m IH]; intro HS; cbn [pm_ensure].
  - constructor; constructor.
  - pose proof (pm_sorted_inv _ _ _ HS) as [HS' HF].
    destruct (k <? k0) eqn:E1.
    + constructor; [exact HS|]. cbn [pm_keys map fst]. constructor; [lia|].
      eapply Forall_impl; [|exact HF]. cbn beta. intros; lia.
    + destruct (k =? k0) eqn:E2; [exact HS|].
      unfold pm_sorted. cbn [pm_keys map fst]. constructor; [apply IH, HS'|].
      apply Forall_forall. intros x Hx. apply pm_keys_ensure_in in Hx as [Hx|Hx].
      * lia.
      * rewrite Forall_forall in HF. apply HF, Hx.
Qed.

Lemma pm_find_lt_none k k0 m : Forall (Z.lt k0) (pm_keys m) -> k <= k0 -> pm_find k m = None.
Proof.
  intros HF Hle. apply pm_find_not_in. intro Hin.
  rewrite Forall_forall in HF. apply HF in Hin. lia.
Qed.

Lemma pm_find_ensure k k' m :
  pm_sorted m ->
  pm_find k' (pm_ensure k m) = if k' =? k then Some (pm_get k m) else pm_find k' m.
Proof.
  induction m as [|[k0 r0] m IH]; intro HS; cbn [pm_ensure].
  - unfold pm_get. cbn [pm_find]. destruct (k' =? k); reflexivity.
  - pose proof (pm_sorted_inv _ _ _ HS) as [HS' HF].
    destruct (k <? k0) eqn:E1.
    + unfold pm_get. cbn [pm_find].
      assert (k =? k0 = false) as -> by lia.
      rewrite (pm_find_lt_none k k0 m HF) by lia.
      destruct (k' =? k); reflexivity.
    + destruct (k =? k0) eqn:E2.
      * unfold pm_get. cbn [pm_find]. rewrite E2.
        destruct (k' =? k) eqn:E3; [|reflexivity].
        assert (k' =? k0 = true) as -> by lia. reflexivity.
      * unfold pm_get in *. cbn [pm_find]. rewrite E2, (IH HS').
        destruct (k' =? k) eqn:E3; [|reflexivity].
        assert (k' =? k0 = false) as -> by lia. reflexivity.
Qed.

Lemma pm_get_ensure k k' m : pm_sorted m -> pm_get k' (pm_ensure k m) = pm_get k' m.
Proof.
  intro HS. unfold pm_get at 1. rewrite pm_find_ensure by exact HS.
  destruct (k' =? k) eqn:E; [|reflexivity].
  assert (k' = k) by lia. subst. reflexivity.
Qed.

Lemma pm_keys_set k r m : pm_keys (pm_set k r m) = pm_keys m.
Proof.
  induction m as [|[k0 r0] m IH]; cbn [pm_set]; [reflexivity|].
  unfold pm_keys in *. destruct (k =? k0); cbn [map fst]; [reflexivity | rewrite IH; reflexivity].
Qed.

Lemma pm_sorted_set k r m : pm_sorted m -> pm_sorted (pm_set k r m).
Proof. unfold pm_sorted. rewrite pm_keys_set. tauto. Qed.

Lemma pm_find_set k k' r m :
  pm_find k' (pm_set k r m) =
  if k' =? k then match pm_find k m with Some _ => Some r | None => None end else pm_find k' m.
Proof.
  induction m as [|[k0 r0] m IH]; cbn [pm_set pm_find].
  - destruct (k' =? k); reflexivity.
  - destruct (k =? k0) eqn:E1; cbn [pm_find].
    + destruct (k' =? k) eqn:E2.
      * assert (k' =? k0 = true) as -> by lia. reflexivity.
      * assert (k' =? k0 = false) as -> by lia. reflexivity.
    + rewrite IH. destruct (k' =? k) eqn:E2.
      * assert (k' =? k0 = false) as -> by lia. reflexivity.
      * reflexivity.
Qed.

Lemma pm_get_set_same k r m r0 : pm_find k m = Some r0 -> pm_get k (pm_set k r m) = r.
Proof. intro H. unfold pm_get. rewrite pm_find_set, Z.eqb_refl, H. reflexivity. Qed.

Lemma pm_get_set_other k k' r m : k' <> k -> pm_get k' (pm_set k r m) = pm_get k' m.
Proof.
  intro H. unfold pm_get. rewrite pm_find_set.
  assert (k' =? k = false) as -> by lia. reflexivity.
Qed.

Lemma cnt_pm_set z k r r0 m :
  pm_find k m = Some r0 ->
  (cnt z (pm_items (pm_set k r m)) + cnt z r0 = cnt z (pm_items m) + cnt z r)%nat.
Proof.
  induction m as [|[k0 r1] m IH]; cbn [pm_find pm_set]; [discriminate|].
  destruct (k =? k0) eqn:E; intro H.
  - injection H as ->. rewrite !pm_items_cons, !cnt_app. lia.
  - rewrite !pm_items_cons, !cnt_app. specialize (IH H). lia.
Qed.

Lemma pm_get_find k m r : pm_get k m = r -> r <> [] -> pm_find k m = Some r.
Proof.
  unfold pm_get. destruct (pm_find k m); intros; subst; congruence.
Qed.

Lemma pm_find_get k m r : pm_find k m = Some r -> pm_get k m = r.
Proof. unfold pm_get. intros ->. reflexivity. Qed.

Lemma cnt_pm_push z k x m : cnt z (pm_items (pm_push k x m)) = (one z x + cnt z (pm_items m))%nat.
Proof.
  unfold pm_push. destruct (pm_find_ensure_same k m) as [r Hr].
  pose proof (cnt_pm_set z k (pm_get k (pm_ensure k m) ++ [x]) r _ Hr) as H.
  rewrite (pm_find_get _ _ _ Hr) in *. rewrite cnt_app, cnt_cons, cnt_nil, pm_items_ensure in H. lia.
Qed.

Lemma pm_count_push k x m : pm_count (pm_push k x m) = pm_count m + 1.
Proof.
  unfold pm_count. f_equal.
  assert (length (pm_items (pm_push k x m)) = length (x :: pm_items m)) as ->.
  { apply cnt_length. intro z. rewrite cnt_pm_push, cnt_cons. reflexivity. }
  cbn [length]. lia.
Qed.

Lemma pm_pop_items m k x m' : pm_pop m = Some (k, x, m') -> pm_items m = x :: pm_items m'.
Proof.
  revert k x m'; induction m as [|[k0 r0] m IH]; intros k x m'; cbn [pm_pop]; [discriminate|].
  destruct r0 as [|y r0].
  - destruct (pm_pop m) as [[[k1 x1] m1]|] eqn:E; [|discriminate].
    intro H. injection H as <- <- <-. rewrite !pm_items_cons. cbn [app]. eapply IH. reflexivity.
  - intro H. injection H as <- <- <-. rewrite !pm_items_cons. reflexivity.
Qed.

Lemma pm_pop_keys m k x m' : pm_pop m = Some (k, x, m') -> pm_keys m' = pm_keys m.
Proof.
  revert k x m'; induction m as [|[k0 r0] m IH]; intros k x m'; cbn [pm_pop]; [discriminate|].
  destruct r0 as [|y r0].
  - destruct (pm_pop m) as [[[k1 x1] m1]|] eqn:E; [|discriminate].
    intro H. injection H as <- <- <-. cbn [pm_keys map fst]. f_equal. eapply IH. reflexivity.
  - intro H. injection H as <- <- <-. reflexivity.
Qed.

Lemma pm_pop_none m : pm_pop m = None <-> pm_items m = [].
Proof.
  induction m as [|[k0 r0] m IH]; cbn [pm_pop]; [split; reflexivity|].
  rewrite pm_items_cons. destruct r0 as [|y r0].
  - cbn [app]. rewrite <- IH. destruct (pm_pop m) as [[[k1 x1] m1]|]; split; congruence.
  - split; discriminate.
Qed.

Lemma pm_items_nil_find k m r : pm_items m = [] -> pm_find k m = Some r -> r = [].
Proof.
  induction m as [|[k0 r0] m IH]; cbn [pm_find]; [discriminate|].
  rewrite pm_items_cons. intro H. apply app_eq_nil in H as [H1 H2].
  destruct (k =? k0); [congruence | auto].
Qed.

Lemma pm_items_nil_get k m : pm_items m = [] -> pm_get k m = [].
Proof.
  intro H. unfold pm_get. destruct (pm_find k m) eqn:E; [|reflexivity].
  eapply pm_items_nil_find; eauto.
Qed.

Lemma pm_items_nil_set k m r0 : pm_items m = [] -> pm_find k m = Some r0 -> pm_items (pm_set k [] m) = [].
Proof.
  intros H Hf. apply cnt_all0_nil. intro z.
  pose proof (cnt_pm_set z k [] r0 m Hf) as Hc.
  rewrite (pm_items_nil_find _ _ _ H Hf), H, !cnt_nil in Hc. lia.
Qed.

Lemma pm_head_items m x : pm_head m = Some x -> exists t, pm_items m = x :: t.
Proof.
  unfold pm_head. destruct (pm_pop m) as [[[k y] m']|] eqn:E; [|discriminate].
  intro H. injection H as ->. eexists. eapply pm_pop_items, E.
Qed.

Lemma pm_pop_head m k x m' : pm_pop m = Some (k, x, m') -> pm_head m = Some x.
Proof. unfold pm_head. intros ->. reflexivity. Qed.

(** the popped entry in a sorted map *)
Lemma pm_pop_sorted m k x m' :
  pm_sorted m -> pm_pop m = Some (k, x, m') ->
  exists t, pm_find k m = Some (x :: t) /\ m' = pm_set k t m /\
            (forall k', k' < k -> pm_get k' m = []).
Proof.
  revert k x m'; induction m as [|[k0 r0] m IH]; intros k x m' HS; cbn [pm_pop]; [discriminate|].
  pose proof (pm_sorted_inv _ _ _ HS) as [HS' HF].
  destruct r0 as [|y r0].
  - destruct (pm_pop m) as [[[k1 x1] m1]|] eqn:E; [|discriminate].
    intro H. injection H as <- <- <-.
    destruct (IH _ _ _ HS' eq_refl) as (t & Hf & Hm & Hlt).
    assert (k0 < k1) as Hk.
    { rewrite Forall_forall in HF. apply HF. eapply pm_find_in_keys, Hf. }
    exists t. cbn [pm_find pm_set].
    assert (k1 =? k0 = false) as -> by lia.
    split; [exact Hf|]. split; [rewrite Hm; reflexivity|].
    intros k' Hk'. unfold pm_get. cbn [pm_find].
    destruct (k' =? k0); [reflexivity|]. apply Hlt, Hk'.
  - intro H. injection H as <- <- <-.
    exists r0. cbn [pm_find pm_set]. rewrite Z.eqb_refl.
    split; [reflexivity|]. split; [reflexivity|].
    intros k' Hk'. unfold pm_get. cbn [pm_find].
    assert (k' =? k0 = false) as -> by lia.
    rewrite (pm_find_lt_none k' k0 m HF) by lia. reflexivity.
Qed.

Lemma pm_sorted_pop m k x m' : pm_sorted m -> pm_pop m = Some (k, x, m') -> pm_sorted m'.
Proof. unfold pm_sorted. intros HS H. rewrite (pm_pop_keys _ _ _ _ H). exact HS. Qed.

Lemma pm_sorted_in_find m k r : pm_sorted m -> In (k, r) m -> pm_find k m = Some r.
Proof.
  induction m as [|[k0 r0] m IH]; intros HS Hin; [destruct Hin|].
  pose proof (pm_sorted_inv _ _ _ HS) as [HS' HF].
  cbn [pm_find]. destruct Hin as [Hin|Hin].
  - injection Hin as -> ->. rewrite Z.eqb_refl. reflexivity.
  - assert (k0 < k) as Hk.
    { rewrite Forall_forall in HF. apply HF. apply (in_map fst) in Hin. exact Hin. }
    assert (k =? k0 = false) as -> by lia. apply IH; assumption.
Qed.

(** setting one ring in a map whose rings are all empty *)
Lemma pm_pop_set_empty m k x t r0 :
  pm_items m = [] -> pm_find k m = Some r0 ->
  pm_pop (pm_set k (x :: t) m) = Some (k, x, pm_set k t m).
Proof.
  induction m as [|[k0 r1] m IH]; cbn [pm_find pm_set]; [discriminate|].
  rewrite pm_items_cons. intro H. apply app_eq_nil in H as [H1 H2]. subst r1.
  destruct (k =? k0) eqn:E; intro Hf.
  - assert (k = k0) by lia. subst. reflexivity.
  - cbn [pm_pop]. rewrite (IH H2 Hf). reflexivity.
Qed.

(** * Capacity arithmetic *)

Lemma next_pow2_ge n : n <= next_pow2 n /\ 1 <= next_pow2 n.
Proof.
  unfold next_pow2.
  destruct (Z.eq_dec (Z.max n 1) 1) as [E|E].
  - rewrite E. change (Z.log2_up 1) with 0. change (2 ^ 0) with 1. lia.
  - pose proof (Z.log2_up_spec (Z.max n 1) ltac:(lia)) as H. lia.
Qed.

Lemma rcap_ge cap : cap <= rcap cap /\ 1 <= rcap cap.
Proof. apply next_pow2_ge. Qed.

Lemma half_cap_pos cap : 1 <= cap -> 1 <= half_cap cap.
Proof. unfold half_cap. intro H. apply Z.div_le_lower_bound; lia. Qed.

Lemma half_cap_nonpos cap : cap <= 0 -> half_cap cap <= 0.
Proof.
  unfold half_cap. intro H.
  assert ((cap + 1) / 2 < 1) as H1 by (apply Z.div_lt_upper_bound; lia). lia.
Qed.

(** * Scan order *)

Lemma scan_order_lt n start : Forall (fun j => (j < n)%nat) (scan_order n start).
Proof.
  unfold scan_order. apply Forall_forall. intros j Hj.
  apply in_map_iff in Hj as (i & <- & Hi). apply in_seq in Hi.
  apply Nat.mod_upper_bound. lia.
Qed.

Lemma scan_order_all n start j : (j < n)%nat -> In j (scan_order n start).
Proof.
  intro Hj. unfold scan_order. apply in_map_iff.
  assert (n <> 0)%nat as Hn by lia.
  pose proof (Nat.mod_upper_bound start n Hn) as Ha.
  set (a := (start mod n)%nat) in *.
  destruct (le_lt_dec a j) as [Hle|Hlt].
  - exists (j - a)%nat. split; [|apply in_seq; lia].
    rewrite <- Nat.add_mod_idemp_l by exact Hn. fold a.
    replace (a + (j - a))%nat with j by lia. apply Nat.mod_small, Hj.
  - exists (j + n - a)%nat. split; [|apply in_seq; lia].
    rewrite <- Nat.add_mod_idemp_l by exact Hn. fold a.
    replace (a + (j + n - a))%nat with (j + 1 * n)%nat by lia.
    rewrite Nat.mod_add by exact Hn. apply Nat.mod_small, Hj.
Qed.
