(** Properties C03, C04, C06 as executable oracles over an observed sequential history of the
    plain work-steal queue. The model ([PWS.step]) is advanced in lockstep only as a container
    tracker: clauses that need to know what the shared queue holds are evaluated while the
    observed results still agree with the tracker ("in sync"); history-only clauses are evaluated
    throughout. There are no priorities, hence no C05. *)
From OCV Require Import Base.Prelude Queue.PMap Queue.PWS.
From OCV Require Queue.OWSOracle.
Open Scope Z_scope.

Definition all_local_items (s : sys) : list item := List.concat (s_locals s).
Definition all_items (s : sys) : list item := s_shq s ++ all_local_items s.

Record ostate := {
  o_sync : bool;          (* observations so far agree with the tracker *)
  o_pend : list item;     (* history-level pending items, in push order *)
  o_starve : list Z;      (* per handle: consecutive pops not served from a non-empty shared queue *)
  o_c03 : bool; o_c04 : bool; o_c06 : bool
}.

Definition ostate0 : ostate :=
  {| o_sync := true; o_pend := []; o_starve := []; o_c03 := true; o_c04 := true; o_c06 := true |}.

(** the item an observed pop returned, if any *)
Definition popped_of (o : op) (io : obs) : option item :=
  match o, io with
  | GPop, OItem (Some x) => Some x
  | LPop _ _, OItem (Some x) => Some x
  | _, _ => None
  end.

Definition pend_push (o : op) (l : list item) : list item :=
  match o with
  | GPush x => l ++ [x]
  | LPush _ x => l ++ [x]
  | _ => l
  end.

(** one observed step. Clauses:
    C03  a pop returns only an item that is pending (never lost, never twice); an idle local pop
         ([None]) means nothing at all is pending, so draining returns exactly what was pending;
         the shared length (and [is_empty]) is exact.
    C04  no call diverges.
    C06  with the shared queue non-empty, a handle is served from it within 61 consecutive pops;
         an idle pop means nothing is pending anywhere. *)
Definition ostep (s : sys) (st : ostate) (o : op) (io : obs) : sys * ostate :=
  let '(s', mo) := step s o in
  let sync' := o_sync st && obs_eqb mo io in
  let c04 := negb (obs_eqb io ODiverged) in
  let popped := popped_of o io in
  let pend1 := pend_push o (o_pend st) in
  let '(pend2, c03_pop) :=
    match popped with
    | Some x => match OWSOracle.remove1 x pend1 with
                | Some r => (r, true)
                | None => (pend1, false)
                end
    | None => (pend1, true)
    end in
  let idle_ok :=
    match o, io with
    | LPop _ _, OItem None => is_nil pend1
    | _, _ => true
    end in
  let c03_len :=
    match o, io with
    | GLen, ONum n => if o_sync st then n =? Z.of_nat (length (s_shq s)) else true
    | GEmpty, OBool b => if o_sync st then Bool.eqb b (is_nil (s_shq s)) else true
    | _, _ => true
    end in
  let '(starve', c06_win) :=
    match o with
    | LPop h _ =>
        if o_sync st then
          if is_nil (s_shq s) then (OWSOracle.set_starve (o_starve st) h 0, true)
          else if match io with OItem (Some x) => OWSOracle.mem x (s_shq s) | _ => false end
               then (OWSOracle.set_starve (o_starve st) h 0, true)
               else let v := OWSOracle.get_starve (o_starve st) h + 1 in
                    (OWSOracle.set_starve (o_starve st) h v, v <? 61)
        else (o_starve st, true)
    | _ => (o_starve st, true)
    end in
  (s', {| o_sync := sync'; o_pend := pend2; o_starve := starve';
          o_c03 := o_c03 st && c03_pop && idle_ok && c03_len;
          o_c04 := o_c04 st && c04;
          o_c06 := o_c06 st && c06_win && idle_ok |}).

Fixpoint orun (s : sys) (st : ostate) (ops : list op) (impl : list obs) : sys * ostate * bool :=
  match ops, impl with
  | [], [] => (s, st, true)
  | o :: ops', io :: impl' =>
      let '(s', st') := ostep s st o io in
      match io with
      | ODiverged => (s', st', is_nil impl')
      | _ => orun s' st' ops' impl'
      end
  | _, _ => (s, st, false)      (* observation list of the wrong length *)
  end.

(** verdict for a whole observed history; the flag says whether the observation list had the
    right shape (one observation per op, nothing after a divergence) *)
Definition judge_all (n : nat) (cap : Z) (ops : list op) (impl : list obs) : ostate * bool :=
  let '(_, st, shape) := orun (init n cap) ostate0 ops impl in (st, shape).

(** * Well-formed histories (the premise of the theorems in Queue/PWSProofs.v)

    every [LPush]/[LPop] names a handle created by an earlier [NewHandle] (one that happened with
    [n > 0]), and the pushed item ids are pairwise distinct (so that "never twice" means what it
    says). Read-only calls on unknown handles, any number of [NewHandle]s (handles may share a
    ring) and any [cap] are fine. *)

Definition pushed_raw (o : op) : list item :=
  match o with GPush x => [x] | LPush _ x => [x] | _ => [] end.

Definition op_wf (nh : nat) (seen : list item) (o : op) : bool :=
  match o with
  | GPush x => negb (OWSOracle.mem x seen)
  | LPush h x => Nat.ltb h nh && negb (OWSOracle.mem x seen)
  | LPop h _ => Nat.ltb h nh
  | _ => true
  end.

Definition nh_next (n nh : nat) (o : op) : nat :=
  match o with
  | NewHandle => match n with O => nh | S _ => S nh end
  | _ => nh
  end.

Fixpoint wf_ops (n nh : nat) (seen : list item) (ops : list op) : bool :=
  match ops with
  | [] => true
  | o :: ops' => op_wf nh seen o && wf_ops n (nh_next n nh o) (pushed_raw o ++ seen) ops'
  end.

Definition wf_hist (n : nat) (cap : Z) (ops : list op) : bool := wf_ops n 0 [] ops.

(** * Model branch coverage of a history (statistics only) *)
Definition tag_overflow := 0%nat. Definition tag_steal := 1%nat. Definition tag_tick := 2%nat.
Definition tag_idle := 3%nat. Definition tag_sharedpop := 5%nat. Definition tag_steal_many := 6%nat.
Definition add_tag (t : nat) (l : list nat) : list nat := if existsb (Nat.eqb t) l then l else t :: l.

Definition step_tags (s : sys) (o : op) (t0 : list nat) : list nat :=
  let '(s', mo) := step s o in
  match o with
  | LPush _ _ => if s_shlen s <? s_shlen s' then add_tag tag_overflow t0 else t0
  | LPop h _ =>
      let t := match nth_error (s_handles s') h with
               | Some hd => if h_tick hd mod 61 =? 0 then add_tag tag_tick t0 else t0
               | None => t0 end in
      let t := match mo with OItem None => add_tag tag_idle t | _ => t end in
      let t := if s_shlen s' <? s_shlen s then add_tag tag_sharedpop t else t in
      let own := match nth_error (s_handles s') h with Some hd => h_ix hd | None => O end in
      let moved := map (fun jab => if Nat.eqb (fst jab) own then 0
                                   else rlen (fst (snd jab)) - rlen (snd (snd jab)))
                       (combine (seq 0 (length (s_locals s))) (combine (s_locals s) (s_locals s'))) in
      let t := if existsb (fun d => 0 <? d) moved then add_tag tag_steal t else t in
      if existsb (fun d => 1 <? d) moved then add_tag tag_steal_many t else t
  | _ => t0
  end.

Fixpoint run_tags (s : sys) (ops : list op) (t : list nat) : list nat :=
  match ops with
  | [] => t
  | o :: ops' =>
      let '(s', r) := step s o in
      match r with ODiverged => t | _ => run_tags s' ops' (step_tags s o t) end
  end.
