(** Theorems about the model judged by its own oracle.

    [c03_model], [c05_model], [c06_model] are FALSE as originally stated (see COUNTEREXAMPLES.md
    and the [Eval vm_compute] checks at the end of this file): the oracle keeps counting on the
    history side when the model refuses a call with [OBad], and [o_pend] is keyed by item id.
    They are proved here under the decidable well-formedness predicate [wf_hist] (handles of
    LPush/LPop exist, item ids pairwise distinct), and in sharper forms ([*_min]) under the
    weakest premises that each clause needs. *)
From OCV Require Import Base.Prelude Queue.PMap Queue.OWS Queue.OWSOracle.
From OCV Require Import Queue.OWSLemmas Queue.OWSModel Queue.OWSInv Queue.OWSStep Queue.OWSOracleLemmas.
From Coq Require Import ZifyBool ZifyNat Permutation Sorted.
Open Scope Z_scope.

Definition model_judge (n : nat) (cap : Z) (ops : list op) : ostate :=
  fst (judge_all n cap ops (run (init n cap) ops)).

(** * 1, 2: no divergence (proved in OWSModel) *)

Theorem step_never_diverges : forall s o, snd (step s o) <> ODiverged.
Proof. exact OWSModel.step_never_diverges. Qed.

Theorem run_never_diverges : forall s ops, ~ In ODiverged (run s ops).
Proof. exact OWSModel.run_never_diverges. Qed.

(** * Premises on histories, checked along the model run *)

Fixpoint hist_ok (chk : sys -> op -> bool) (s : sys) (ops : list op) : bool :=
  match ops with
  | [] => true
  | o :: ops' => chk s o && hist_ok chk (fst (step s o)) ops'
  end.

(** the handle of a local push exists *)
Definition chk_push (s : sys) (o : op) : bool :=
  match o with LPush h _ _ => Nat.ltb h (length (s_handles s)) | _ => true end.
(** the handle of a local pop exists *)
Definition chk_pop (s : sys) (o : op) : bool :=
  match o with LPop h _ => Nat.ltb h (length (s_handles s)) | _ => true end.
(** a pushed item id is not currently held by the queue *)
Definition chk_fresh (s : sys) (o : op) : bool :=
  match o with
  | GPush _ x => negb (mem x (all_items s))
  | LPush _ _ x => negb (mem x (all_items s))
  | _ => true
  end.

(** generic consequence of the invariant principle *)
Lemma judge_inv (P : sys -> ostate -> list op -> Prop) n cap ops :
  (forall s st o ops, P s st (o :: ops) -> P (fst (step s o)) (mstep s st o) ops) ->
  P (init n cap) ostate0 ops ->
  exists s', P s' (model_judge n cap ops) [] /\
             snd (judge_all n cap ops (run (init n cap) ops)) = true.
Proof.
  intros Hstep H0.
  destruct (orun_model_inv P Hstep ops _ _ H0) as (s' & st' & Hrun & HP).
  unfold model_judge, judge_all. rewrite Hrun. cbn [fst snd]. eauto.
Qed.

(** * 3, 4 *)

Theorem model_sync : forall n cap ops,
  o_sync (model_judge n cap ops) = true /\
  snd (judge_all n cap ops (run (init n cap) ops)) = true.
Proof.
  intros n cap ops.
  destruct (judge_inv (fun _ st _ => o_sync st = true) n cap ops) as (s' & H & Hshape).
  - intros s st o ops' H. destruct (mstep_fields s st o) as (-> & _). exact H.
  - reflexivity.
  - split; assumption.
Qed.

Theorem c04_model : forall n cap ops, o_c04 (model_judge n cap ops) = true.
Proof.
  intros n cap ops.
  destruct (judge_inv (fun _ st _ => o_c04 st = true) n cap ops) as (s' & H & _).
  - intros s st o ops' H. destruct (mstep_fields s st o) as (_ & _ & _ & _ & _ & -> & _). exact H.
  - reflexivity.
  - exact H.
Qed.

(** * The core invariant: tracker in sync, state invariant, pending list = queue contents *)

Record Core (n : nat) (cap : Z) (s : sys) (st : ostate) : Prop := {
  co_inv : Inv n cap s;
  co_sync : o_sync st = true;
  co_pend : forall z, cnt z (map snd (o_pend st)) = tot z s
}.

Lemma all_items_init n cap : all_items (init n cap) = [].
Proof.
  unfold all_items, all_local_items. cbn [init s_shq s_locals pm_items map concat app].
  induction n as [|n IH]; [reflexivity|]. cbn [repeat map concat]. exact IH.
Qed.

Lemma Core_init n cap : Core n cap (init n cap) ostate0.
Proof.
  constructor; [apply Inv_init | reflexivity |].
  intro z. unfold tot. rewrite all_items_init. reflexivity.
Qed.

Definition pushed_raw (o : op) : list item :=
  match o with GPush _ x => [x] | LPush _ _ x => [x] | _ => [] end.

Lemma chk_push_handle s h p x : chk_push s (LPush h p x) = true -> exists hd, nth_error (s_handles s) h = Some hd.
Proof.
  cbn [chk_push]. intro H. destruct (nth_error (s_handles s) h) as [hd|] eqn:E; [eauto|].
  apply nth_error_None in E. lia.
Qed.

Lemma pushed_of_ok n cap s o :
  Inv n cap s -> chk_push s o = true -> pushed_of o (snd (step s o)) = pushed_raw o.
Proof.
  intros HI Hc. destruct o as [p x| | | |h p x|h start|h|h]; cbn [step pushed_raw].
  - reflexivity.
  - unfold pushed_of. destruct (snd (let '(s', r) := gpop s in (s', OItem r))); reflexivity.
  - reflexivity.
  - unfold pushed_of. destruct (snd (new_handle s)); reflexivity.
  - destruct (chk_push_handle _ _ _ _ Hc) as [hd Hn].
    destruct (lpush_spec n cap s h hd p x HI Hn) as (-> & _). reflexivity.
  - unfold pushed_of. destruct (snd (lpop s h start)); reflexivity.
  - unfold pushed_of. destruct (nth_error (s_handles s) h); reflexivity.
  - unfold pushed_of. destruct (nth_error (s_handles s) h); reflexivity.
Qed.

Lemma core_step n cap s st o :
  Core n cap s st -> chk_push s o = true ->
  Core n cap (fst (step s o)) (mstep s st o) /\
  c03_pop st o (snd (step s o)) = true /\
  idle_ok st o (snd (step s o)) = true /\
  c03_len s st o (snd (step s o)) = true.
Proof.
  intros [HI Hsync Hpend] Hchk.
  destruct (step_spec n cap s o HI) as [HI' Ht].
  rewrite (pushed_of_ok n cap s o HI Hchk) in Ht.
  destruct (mstep_fields s st o) as (Hf1 & Hf2 & _).
  assert (forall z, cnt z (map snd (opend1 st o)) = (cnt z (pushed_raw o) + tot z s)%nat) as Hp1.
  { intro z. unfold opend1. rewrite cnt_pend_push, Hpend. reflexivity. }
  (* pending list after the step, and the pop clause *)
  assert ((forall z, cnt z (map snd (opend2 st o (snd (step s o)))) = tot z (fst (step s o))) /\
          c03_pop st o (snd (step s o)) = true) as [Hp2 Hc03].
  { unfold opend2, c03_pop. destruct (popped_of o (snd (step s o))) as [x|] eqn:Epop.
    - cbn [olist] in Ht.
      assert (In x (map snd (opend1 st o))) as Hin.
      { apply cnt_In. rewrite Hp1. specialize (Ht x). rewrite cnt_cons, one_same in Ht. lia. }
      destruct (pend_remove_some x _ Hin) as (r & -> & Hc & _). split; [|reflexivity].
      intro z. specialize (Ht z). specialize (Hc z). rewrite Hp1 in Hc.
      rewrite cnt_cons, cnt_nil in Ht. lia.
    - split; [|reflexivity]. intro z. specialize (Ht z). cbn [olist] in Ht. rewrite cnt_nil in Ht.
      rewrite Hp1. lia. }
  split; [constructor; [exact HI' | rewrite Hf1; exact Hsync | rewrite Hf2; exact Hp2]|].
  split; [exact Hc03|]. split.
  - (* idle *)
    unfold idle_ok. destruct o as [p x| | | |h p x|h start|h|h]; try reflexivity.
    cbn [step]. destruct (snd (lpop s h start)) as [|[y|]|v| |] eqn:Er; try reflexivity.
    destruct (nth_error (s_handles s) h) as [hd0|] eqn:Hn.
    + destruct (lpop_spec n cap s h start hd0 HI Hn) as [_ (ox & Hr & _ & _ & Hnone) _ _].
      rewrite Er in Hr. injection Hr as <-. specialize (Hnone eq_refl).
      assert (o_pend st = []) as Hnil.
      { apply map_snd_nil_cnt. intro z. rewrite Hpend. unfold tot. rewrite Hnone. reflexivity. }
      unfold opend1. cbn [pend_push]. rewrite Hnil. reflexivity.
    + unfold lpop in Er. rewrite Hn in Er. discriminate.
  - (* lengths *)
    unfold c03_len. rewrite Hsync. destruct o as [p x| | | |h p x|h start|h|h]; cbn [step snd]; try reflexivity.
    + pose proof (inv_I2 _ _ _ HI) as H2. unfold I2 in H2. lia.
    + destruct (nth_error (s_handles s) h); cbn [snd]; [|reflexivity].
      rewrite (full_len_eq s (inv_I2 _ _ _ HI)). apply Z.eqb_refl.
Qed.

(** * C03 *)

Lemma hist_ok_cons chk s o ops :
  hist_ok chk s (o :: ops) = true -> chk s o = true /\ hist_ok chk (fst (step s o)) ops = true.
Proof. cbn [hist_ok]. intro H. apply andb_true_iff in H. exact H. Qed.

Theorem c03_model_min : forall n cap ops,
  hist_ok chk_push (init n cap) ops = true -> o_c03 (model_judge n cap ops) = true.
Proof.
  intros n cap ops Hok.
  destruct (judge_inv (fun s st ops => Core n cap s st /\ o_c03 st = true /\ hist_ok chk_push s ops = true)
              n cap ops) as (s' & (_ & H & _) & _).
  - intros s st o ops' (HC & H03 & Hh). apply hist_ok_cons in Hh as [Hchk Hh].
    destruct (core_step n cap s st o HC Hchk) as (HC' & Ha & Hb & Hc).
    split; [exact HC'|]. split; [|exact Hh].
    destruct (mstep_fields s st o) as (_ & _ & _ & _ & -> & _).
    rewrite H03, Ha, Hb, Hc. reflexivity.
  - split; [apply Core_init|]. split; [reflexivity | exact Hok].
  - exact H.
Qed.

(** * C06 *)

Definition bound (s : sys) (h : nat) : Z :=
  match nth_error (map h_tick (s_handles s)) h with Some t => t mod 61 | None => 0 end.

Definition Win (s : sys) (st : ostate) : Prop :=
  forall h, get_starve (o_starve st) h <= bound s h.

Lemma get_set_starve : forall h l h' v,
  get_starve (set_starve l h v) h' = if Nat.eqb h' h then v else get_starve l h'.
Proof.
  unfold get_starve. induction h as [|h IH]; intros [|a t] h' v; cbn [set_starve].
  - destruct h' as [|[|h']]; reflexivity.
  - destruct h' as [|h']; reflexivity.
  - destruct h' as [|h']; [reflexivity|]. cbn [nth Nat.eqb]. rewrite IH.
    destruct (Nat.eqb h' h); [reflexivity|]. destruct h'; reflexivity.
  - destruct h' as [|h']; [reflexivity|]. cbn [nth Nat.eqb]. apply IH.
Qed.

Lemma bound_step_other n cap s o h' :
  Inv n cap s -> (forall h st, o <> LPop h st) -> bound (fst (step s o)) h' = bound s h'.
Proof.
  intros HI Hnp. destruct o as [p x| | | |h p x|h start|h|h]; cbn [step].
  - reflexivity.
  - destruct (gpop s) as [s' [y|]] eqn:Eg; cbn [fst].
    + apply gpop_some in Eg as (k & q & _ & ->). reflexivity.
    + apply gpop_none in Eg as ->. reflexivity.
  - reflexivity.
  - destruct (new_handle_spec n cap s HI) as (_ & _ & _ & _ & [[_ ->]|(_ & ix & _ & Hh & _)]); [reflexivity|].
    unfold bound. rewrite Hh, map_app. cbn [map h_tick].
    destruct (lt_dec h' (length (map h_tick (s_handles s)))) as [Hlt|Hge].
    + rewrite nth_error_app1 by exact Hlt. reflexivity.
    + rewrite nth_error_app2 by lia.
      assert (nth_error (map h_tick (s_handles s)) h' = None) as -> by (apply nth_error_None; lia).
      destruct (h' - length (map h_tick (s_handles s)))%nat as [|[|k]]; reflexivity.
  - unfold bound. rewrite (ticks_lpush n cap s h p x HI). reflexivity.
  - exfalso. eapply Hnp. reflexivity.
  - destruct (nth_error (s_handles s) h); reflexivity.
  - destruct (nth_error (s_handles s) h); reflexivity.
Qed.

Lemma tick_mod t :
  fst (tick t) mod 61 <> 0 -> fst (tick t) mod 61 = t mod 61 + 1.
Proof.
  unfold tick. destruct (t =? U32MAX); cbn [fst]; [intro H; exfalso; apply H; reflexivity|].
  intro H. pose proof (Z.mod_pos_bound t 61 ltac:(lia)). pose proof (Z.mod_pos_bound (t + 1) 61 ltac:(lia)).
  rewrite <- Zplus_mod_idemp_l in *.
  destruct (Z.eq_dec (t mod 61) 60) as [E|E].
  - rewrite E in H. exfalso. apply H. reflexivity.
  - rewrite Z.mod_small by lia. reflexivity.
Qed.

Lemma win_step n cap s st o :
  Core n cap s st -> Win s st -> chk_pop s o = true ->
  Win (fst (step s o)) (mstep s st o) /\ snd (starve_c06 s st o (snd (step s o))) = true.
Proof.
  intros [HI Hsync Hpend] HW Hchk.
  destruct (mstep_fields s st o) as (_ & _ & _ & Hst & _).
  unfold Win. rewrite Hst. clear Hst.
  destruct o as [p x| | | |h p x|h start|h|h];
    try (cbn [starve_c06 fst snd]; split; [|reflexivity]; intro h';
         rewrite (bound_step_other n cap s _ h' HI) by (intros; discriminate); apply HW).
  cbn [chk_pop] in Hchk.
  destruct (nth_error (s_handles s) h) as [hd0|] eqn:Hn; [|apply nth_error_None in Hn; lia].
  cbn [step]. destruct (lpop_spec n cap s h start hd0 HI Hn) as [_ _ Hticks Hwin].
  assert (nth_error (map h_tick (s_handles s)) h = Some (h_tick hd0)) as Hnt by (rewrite nth_error_map, Hn; reflexivity).
  assert (forall h', bound (fst (lpop s h start)) h' =
                     if Nat.eqb h' h then fst (tick (h_tick hd0)) mod 61 else bound s h') as Hb.
  { intro h'. unfold bound. rewrite Hticks. destruct (Nat.eqb h' h) eqn:E.
    - apply Nat.eqb_eq in E. subst h'. rewrite nth_error_set_nth_eq; [reflexivity|].
      apply nth_error_lt in Hnt. exact Hnt.
    - apply Nat.eqb_neq in E. rewrite nth_error_set_nth_neq by congruence. reflexivity. }
  pose proof (Z.mod_pos_bound (fst (tick (h_tick hd0))) 61 ltac:(lia)) as Hmb.
  assert (forall v, v <= fst (tick (h_tick hd0)) mod 61 ->
            forall h', get_starve (set_starve (o_starve st) h v) h' <= bound (fst (lpop s h start)) h') as Hset.
  { intros v Hv h'. rewrite get_set_starve, Hb. destruct (Nat.eqb h' h); [lia | apply HW]. }
  unfold starve_c06. rewrite Hsync.
  destruct (is_nil (pm_items (s_shq s))) eqn:Enil; [cbn [fst snd]; split; [apply Hset; lia | reflexivity]|].
  destruct (match snd (lpop s h start) with OItem (Some x) => mem x (pm_items (s_shq s)) | _ => false end) eqn:Emem;
    [cbn [fst snd]; split; [apply Hset; lia | reflexivity]|].
  assert (fst (tick (h_tick hd0)) mod 61 <> 0) as Hne.
  { intro Hz. destruct Hwin as (x & Hr & Hh); [destruct (pm_items (s_shq s)); discriminate | exact Hz|].
    rewrite Hr in Emem. apply pm_head_items in Hh as [t Ht].
    assert (mem x (pm_items (s_shq s)) = true) by (apply mem_In; rewrite Ht; left; reflexivity). congruence. }
  pose proof (tick_mod _ Hne) as Htm.
  pose proof (HW h) as HWh. unfold bound in HWh. rewrite Hnt in HWh.
  cbv zeta. cbn [fst snd]. split; [apply Hset; lia | lia].
Qed.

Theorem c06_model_min : forall n cap ops,
  hist_ok chk_push (init n cap) ops = true -> hist_ok chk_pop (init n cap) ops = true ->
  o_c06 (model_judge n cap ops) = true.
Proof.
  intros n cap ops Hok1 Hok2.
  destruct (judge_inv (fun s st ops => Core n cap s st /\ Win s st /\ o_c06 st = true /\
                         hist_ok chk_push s ops = true /\ hist_ok chk_pop s ops = true)
              n cap ops) as (s' & (_ & _ & H & _) & _).
  - intros s st o ops' (HC & HW & H06 & Hh1 & Hh2).
    apply hist_ok_cons in Hh1 as [Hchk1 Hh1]. apply hist_ok_cons in Hh2 as [Hchk2 Hh2].
    destruct (core_step n cap s st o HC Hchk1) as (HC' & _ & Hb & _).
    destruct (win_step n cap s st o HC HW Hchk2) as [HW' Hw].
    split; [exact HC'|]. split; [exact HW'|]. split; [|split; assumption].
    destruct (mstep_fields s st o) as (_ & _ & _ & _ & _ & _ & _ & ->).
    rewrite H06, Hw, Hb. reflexivity.
  - split; [apply Core_init|]. split; [|split; [reflexivity | split; assumption]].
    intro h. unfold bound. cbn. destruct h; cbn; lia.
  - exact H.
Qed.

(** * C05 *)

Lemma stable_min_in l e : stable_min l = Some e -> In e l.
Proof.
  revert e; induction l as [|[p x] l IH]; intros e; cbn [stable_min]; [discriminate|].
  destruct (stable_min l) as [[q y]|].
  - destruct (q <? p); intro H; injection H as <-; [right; apply IH; reflexivity | left; reflexivity].
  - intro H; injection H as <-. left; reflexivity.
Qed.

Definition fk (k : Z) (e : Z * item) : bool := fst e =? k.

Lemma filter_fk_cons k p y l :
  filter (fk k) ((p, y) :: l) = if p =? k then (p, y) :: filter (fk k) l else filter (fk k) l.
Proof. reflexivity. Qed.

Lemma filter_fk_app k l1 l2 : filter (fk k) (l1 ++ l2) = filter (fk k) l1 ++ filter (fk k) l2.
Proof. apply filter_app. Qed.

Lemma filter_len_le {A} (f : A -> bool) l : (length (filter f l) <= length l)%nat.
Proof. induction l as [|a l IH]; cbn [filter length]; [lia|]. destruct (f a); cbn [length]; lia. Qed.

Lemma stable_min_char l k x T :
  (forall q y, In (q, y) l -> k <= q) ->
  map snd (filter (fk k) l) = x :: T -> stable_min l = Some (k, x).
Proof.
  induction l as [|[p y] l IH]; intros Hlb Hf; [discriminate|].
  rewrite filter_fk_cons in Hf. cbn [stable_min].
  destruct (p =? k) eqn:E.
  - cbn [map snd] in Hf. injection Hf as -> _. assert (p = k) by lia. subst p.
    destruct (stable_min l) as [[q z]|] eqn:Es; [|reflexivity].
    apply stable_min_in in Es. assert (k <= q) by (eapply Hlb; right; exact Es).
    assert (q <? k = false) as -> by lia. reflexivity.
  - rewrite (IH (fun q z Hin => Hlb q z (or_intror Hin)) Hf).
    assert (k <= p) by (eapply Hlb; left; reflexivity).
    assert (k <? p = true) as -> by lia. reflexivity.
Qed.

Lemma pend_remove_filter l k x T :
  NoDup (map snd l) -> map snd (filter (fk k) l) = x :: T ->
  exists l', pend_remove x l = Some l' /\ map snd (filter (fk k) l') = T /\
             (forall k', k' <> k -> filter (fk k') l' = filter (fk k') l) /\
             length l = S (length l').
Proof.
  induction l as [|[p y] l IH]; intros Hnd Hf; [discriminate|].
  cbn [map snd] in Hnd. inversion Hnd as [|? ? Hnin Hnd']; subst.
  rewrite filter_fk_cons in Hf. cbn [pend_remove].
  destruct (x =? y) eqn:Exy.
  - assert (x = y) by lia. subst y. exists l. split; [reflexivity|].
    destruct (p =? k) eqn:E.
    + cbn [map snd] in Hf. injection Hf as Hf. split; [exact Hf|]. split; [|reflexivity].
      intros k' Hk'. rewrite filter_fk_cons. assert (p =? k' = false) as -> by lia. reflexivity.
    + exfalso. apply Hnin.
      assert (In x (map snd (filter (fk k) l))) as Hin by (rewrite Hf; left; reflexivity).
      apply in_map_iff in Hin as ([q z] & Hz & Hin). apply filter_In in Hin as [Hin _].
      apply in_map_iff. exists (q, z). split; assumption.
  - destruct (p =? k) eqn:E.
    + cbn [map snd] in Hf. injection Hf as Hy _. lia.
    + destruct (IH Hnd' Hf) as (l' & -> & HT & Hoth & Hlen). exists ((p, y) :: l'). split; [reflexivity|].
      rewrite filter_fk_cons, E. split; [exact HT|]. split; [|cbn [length]; lia].
      intros k' Hk'. rewrite !filter_fk_cons, (Hoth k' Hk'). reflexivity.
Qed.

(** the single-worker clause: state of the model while the premise holds *)
Definition SIp (s : sys) (single : bool) (pd : pend) : Prop :=
  single = true ->
  pm_items (s_shq s) = [] /\
  ((s_handles s = [] /\ all_local_items s = []) \/
   exists hd, s_handles s = [hd] /\ h_len hd = Z.of_nat (length pd) /\
     (forall j, j <> h_ix hd -> pm_items (local_of s j) = []) /\
     (forall k, pm_get k (local_of s (h_ix hd)) = map snd (filter (fk k) pd))).

Definition SI (s : sys) (st : ostate) : Prop := SIp s (o_single st) (o_pend st).

Lemma lpop_single n cap s hd start :
  Inv n cap s -> s_handles s = [hd] -> pm_items (s_shq s) = [] ->
  (forall j, j <> h_ix hd -> pm_items (local_of s j) = []) ->
  match pm_pop (local_of s (h_ix hd)) with
  | Some (k, x, m) =>
      lpop s 0 start =
      (upd_handle (upd_local (upd_handle s 0 (lpop_hd hd)) (h_ix hd) m) 0 (pop_hd (lpop_hd hd)), OItem (Some x))
  | None =>
      lpop s 0 start = (upd_handle (upd_handle s 0 (lpop_hd hd)) 0 (zero_hd (lpop_hd hd)), OItem None)
  end.
Proof.
  intros HI Hh Hshq Hoth.
  assert (nth_error (s_handles s) 0 = Some hd) as Hn by (rewrite Hh; reflexivity).
  pose proof (Inv_lpop_hd _ _ _ _ _ HI Hn) as [HA H3].
  destruct (lpop_cases s 0 start hd Hn) as [s1 x Hm Hg | k x m Hc Hp | s4 hd2 s6 hd6 r Hc Hp Hs Hpl | s5 r Hc Hp Hs Hg].
  - exfalso. apply gpop_some in Hg as (k & q & Hpp & _). apply pm_pop_items in Hpp.
    rewrite s_shq_upd_handle in Hpp. congruence.
  - rewrite Hp. reflexivity.
  - exfalso. rewrite steal_scan_all_empty in Hs; [discriminate|].
    apply litems_all_nil. intros j _. change (pm_items (local_of s j) = []).
    destruct (Nat.eq_dec j (h_ix hd)) as [->|Hne]; [apply pm_pop_none, Hp | apply Hoth, Hne].
  - rewrite Hp.
    assert (gpop (upd_handle (upd_handle s 0 (lpop_hd hd)) 0 (zero_hd (lpop_hd hd))) =
            (upd_handle (upd_handle s 0 (lpop_hd hd)) 0 (zero_hd (lpop_hd hd)), None)) as Hg'.
    { unfold gpop. pose proof (inv_I2 _ _ _ H3) as H2. unfold I2, pm_count in H2.
      rewrite !s_shq_upd_handle, Hshq in H2. cbn [length] in H2.
      assert (s_shlen (upd_handle (upd_handle s 0 (lpop_hd hd)) 0 (zero_hd (lpop_hd hd))) =? 0 = true) as -> by lia.
      reflexivity. }
    rewrite Hg' in Hg. injection Hg as <- <-. reflexivity.
Qed.

Lemma c5_step n cap s st o :
  Core n cap s st -> (forall z, (tot z s <= 1)%nat) -> SI s st ->
  chk_push s o = true -> chk_fresh s o = true ->
  (forall z, (tot z (fst (step s o)) <= 1)%nat) /\
  SI (fst (step s o)) (mstep s st o) /\
  c05_single s st o (snd (step s o)) = true.
Proof.
  intros [HI Hsync Hpend] Hnd HSI Hchk Hfresh.
  pose proof (inv_nloc _ _ _ HI) as Hnl.
  split.
  { (* distinct ids are preserved *)
    destruct (step_spec n cap s o HI) as [_ Ht].
    rewrite (pushed_of_ok n cap s o HI Hchk) in Ht.
    assert (forall z, (cnt z (pushed_raw o) + tot z s <= 1)%nat) as Hp.
    { intro z. specialize (Hnd z).
      assert (forall x, negb (mem x (all_items s)) = true -> (cnt z [x] + tot z s <= 1)%nat) as Hx.
      { intros x Hm. rewrite cnt_cons, cnt_nil. destruct (Z.eq_dec x z) as [->|Hne].
        - assert (tot z s = 0%nat); [|rewrite one_same; lia].
          destruct (mem z (all_items s)) eqn:Em; [discriminate|].
          assert (~ In z (all_items s)) as Hnin by (rewrite <- mem_In; congruence).
          unfold tot. rewrite cnt_In in Hnin. lia.
        - rewrite one_diff by exact Hne. lia. }
      destruct o; cbn [pushed_raw chk_fresh] in *; try (rewrite cnt_nil; lia); apply Hx, Hfresh. }
    intro z. specialize (Ht z). specialize (Hp z). lia. }
  destruct (mstep_fields s st o) as (_ & Hf2 & Hf3 & _). cbv zeta in Hf2.
  unfold SI. rewrite Hf2, Hf3. clear Hf2 Hf3.
  unfold SI in HSI.
  destruct (o_single st) eqn:Es.
  2:{ (* the premise is already gone *)
    assert (single_step s st o = false) as Hss by (unfold single_step; rewrite Es; reflexivity).
    split; [intro H; congruence|].
    unfold c05_single. rewrite Hss. destruct o; try reflexivity. destruct (snd (step s (LPop h start))); reflexivity. }
  destruct (HSI eq_refl) as [Hshq Hcase]. clear HSI.
  assert (NoDup (map snd (o_pend st))) as Hndp.
  { apply cnt_NoDup. intro z. rewrite Hpend. apply Hnd. }
  destruct o as [p x| | | |h p x|h start|h|h].
  - (* GPush *) split; [|reflexivity]. unfold single_step. rewrite Es. intro H; discriminate.
  - (* GPop *) split; [|reflexivity]. unfold single_step. rewrite Es. intro H; discriminate.
  - (* GLen *) split; [|reflexivity]. intros _. split; [exact Hshq | exact Hcase].
  - (* NewHandle *)
    split; [|reflexivity]. unfold single_step. rewrite Es. cbn [andb]. intro Hlen.
    cbn [step]. destruct (new_handle_spec n cap s HI) as (_ & _ & Hloc & Hsq & Hnh).
    rewrite Hsq. split; [exact Hshq|].
    destruct Hcase as [[Hh Hali]|(hd & Hh & _)]; [|rewrite Hh in Hlen; discriminate].
    assert (o_pend st = []) as Hnil.
    { apply map_snd_nil_cnt. intro z. rewrite Hpend, tot_eq, Hshq, Hali. reflexivity. }
    unfold opend2, opend1. cbn [step popped_of pend_push].
    destruct Hnh as [[_ ->]|(_ & ix & Hix & Hh' & _)].
    + cbn [fst]. left. split; assumption.
    + right. eexists. rewrite Hh in Hh'. split; [exact Hh'|]. cbn [h_len h_ix]. rewrite Hnil.
      split; [reflexivity|].
      assert (forall j, pm_items (local_of (fst (new_handle s)) j) = []) as Hall.
      { intro j. unfold local_of. rewrite Hloc. apply litems_nil_nth, Hali. }
      split; [intros j _; apply Hall|]. intro k. rewrite (pm_items_nil_get k _ (Hall ix)). reflexivity.
  - (* LPush *)
    split; [|reflexivity]. unfold single_step. rewrite Es. cbn [andb]. intro Hprem.
    apply andb_true_iff in Hprem as [Hh0 Hlt]. apply Nat.eqb_eq in Hh0. subst h.
    destruct (chk_push_handle _ _ _ _ Hchk) as [hd0 Hn].
    destruct Hcase as [[Hh _]|(hd & Hh & Hlen & Hoth & Hget)]; [rewrite Hh in Hn; discriminate|].
    rewrite Hh in Hn. injection Hn as <-.
    pose proof (Inv_hd n cap s 0 hd HI ltac:(rewrite Hh; reflexivity)) as [Hix _].
    pose proof (local_of_sorted s (h_ix hd) (inv_wf _ _ _ HI)) as Hsort.
    set (m0 := local_of s (h_ix hd)) in *.
    assert (pm_get p (pm_ensure p m0) = pm_get p m0) as Hge by (apply pm_get_ensure, Hsort).
    cbn [step]. rewrite (lpush_fast s 0 hd p x).
    2:{ rewrite Hh. reflexivity. }
    2:{ lia. }
    2:{ fold m0. rewrite Hge, Hget, map_length.
        pose proof (filter_len_le (fk p) (o_pend st)). pose proof (rcap_ge (s_cap s)). lia. }
    fold m0. cbn [fst snd]. unfold opend2, opend1. cbn [popped_of pend_push].
    rewrite s_shq_upd_handle, s_shq_upd_local. split; [exact Hshq|]. right.
    eexists. split; [rewrite s_handles_upd_handle, s_handles_upd_local, Hh; reflexivity|].
    cbn [h_len h_ix]. split; [rewrite app_length; cbn [length]; lia|].
    split.
    + intros j Hj. rewrite local_of_upd_handle, local_of_upd_other by congruence. apply Hoth, Hj.
    + intro k. rewrite local_of_upd_handle, local_of_upd_same by lia.
      destruct (pm_find_ensure_same p m0) as [r0 Hr0].
      rewrite filter_fk_app, map_app, filter_fk_cons. cbn [filter].
      destruct (Z.eq_dec k p) as [->|Hne].
      * rewrite (pm_get_set_same _ _ _ _ Hr0), Hge, Hget, Z.eqb_refl. reflexivity.
      * rewrite pm_get_set_other by exact Hne. rewrite pm_get_ensure by exact Hsort.
        assert (p =? k = false) as -> by lia. cbn [map]. rewrite app_nil_r. apply Hget.
  - (* LPop *)
    unfold single_step, c05_single. rewrite Es. cbn [andb].
    destruct (Nat.eqb h 0) eqn:Eh.
    2:{ split; [intro; discriminate|]. unfold single_step. rewrite Es, Eh.
        destruct (snd (step s (LPop h start))); reflexivity. }
    apply Nat.eqb_eq in Eh. subst h. cbn [step]. unfold single_step. rewrite Es. cbn [andb Nat.eqb].
    destruct Hcase as [[Hh Hali]|(hd & Hh & Hlen & Hoth & Hget)].
    + (* no handle yet: refused *)
      assert (lpop s 0 start = (s, OBad)) as -> by (unfold lpop; rewrite Hh; reflexivity).
      cbn [fst snd]. split; [|reflexivity]. intros _. split; [exact Hshq|]. left. split; assumption.
    + pose proof (Inv_hd n cap s 0 hd HI ltac:(rewrite Hh; reflexivity)) as [Hix _].
      pose proof (local_of_sorted s (h_ix hd) (inv_wf _ _ _ HI)) as Hsort.
      pose proof (lpop_single n cap s hd start HI Hh Hshq Hoth) as Hl.
      destruct (pm_pop (local_of s (h_ix hd))) as [[[k x] m]|] eqn:Ep; rewrite Hl; clear Hl; cbn [fst snd].
      * destruct (pm_pop_sorted _ _ _ _ Hsort Ep) as (t & Hfind & Hm & Hlow).
        assert (map snd (filter (fk k) (o_pend st)) = x :: t) as Hfk.
        { rewrite <- Hget. apply pm_find_get, Hfind. }
        assert (forall q y, In (q, y) (o_pend st) -> k <= q) as Hlb.
        { intros q y Hin. destruct (Z_lt_le_dec q k) as [Hlt|Hle]; [|exact Hle]. exfalso.
          pose proof (Hlow q Hlt) as Hq. rewrite Hget in Hq.
          assert (In y (map snd (filter (fk q) (o_pend st)))) as Hy.
          { apply in_map_iff. exists (q, y). split; [reflexivity|]. apply filter_In. split; [exact Hin|].
            unfold fk. cbn [fst]. apply Z.eqb_refl. }
          rewrite Hq in Hy. destruct Hy. }
        rewrite (stable_min_char _ _ _ _ Hlb Hfk). cbn [option_map snd option_eqb].
        split; [|apply Z.eqb_refl].
        intros _. rewrite s_shq_upd_handle, s_shq_upd_local, s_shq_upd_handle. split; [exact Hshq|]. right.
        destruct (pend_remove_filter _ _ _ _ Hndp Hfk) as (l' & Hrem & HT & Hothk & Hlen').
        unfold opend2, opend1. cbn [popped_of pend_push]. rewrite Hrem.
        eexists. split; [rewrite s_handles_upd_handle, s_handles_upd_local, s_handles_upd_handle, Hh; reflexivity|].
        cbn [pop_hd lpop_hd h_len h_ix]. split; [unfold sat_sub; lia|]. split.
        -- intros j Hj. rewrite local_of_upd_handle, local_of_upd_other, local_of_upd_handle by congruence.
           apply Hoth, Hj.
        -- intro k'. rewrite local_of_upd_handle, local_of_upd_same by (rewrite s_locals_upd_handle; lia).
           rewrite Hm. destruct (Z.eq_dec k' k) as [->|Hne].
           ++ rewrite (pm_get_set_same _ _ _ _ Hfind). symmetry. exact HT.
           ++ rewrite pm_get_set_other by exact Hne. rewrite Hget, (Hothk k' Hne). reflexivity.
      * assert (pm_items (local_of s (h_ix hd)) = []) as Hemp by (apply pm_pop_none, Ep).
        assert (all_local_items s = []) as Hali.
        { apply litems_all_nil. intros j _. change (pm_items (local_of s j) = []).
          destruct (Nat.eq_dec j (h_ix hd)) as [->|Hne]; [exact Hemp | apply Hoth, Hne]. }
        assert (o_pend st = []) as Hnil.
        { apply map_snd_nil_cnt. intro z. rewrite Hpend, tot_eq, Hshq, Hali. reflexivity. }
        rewrite Hnil. cbn [stable_min option_map option_eqb]. split; [|reflexivity].
        intros _. rewrite !s_shq_upd_handle. split; [exact Hshq|]. right.
        unfold opend2, opend1. cbn [popped_of pend_push]. rewrite Hnil.
        eexists. split; [rewrite !s_handles_upd_handle, Hh; reflexivity|].
        cbn [zero_hd lpop_hd h_len h_ix length]. split; [reflexivity|]. split.
        -- intros j Hj. rewrite !local_of_upd_handle. apply Hoth, Hj.
        -- intro k. rewrite !local_of_upd_handle. rewrite (pm_items_nil_get k _ Hemp). reflexivity.
  - (* LLen *)
    split; [|reflexivity]. intros _.
    assert (fst (step s (LLen h)) = s) as -> by (cbn [step]; destruct (nth_error (s_handles s) h); reflexivity).
    split; [exact Hshq | exact Hcase].
  - (* FullLen *)
    split; [|reflexivity]. intros _.
    assert (fst (step s (FullLen h)) = s) as -> by (cbn [step]; destruct (nth_error (s_handles s) h); reflexivity).
    split; [exact Hshq | exact Hcase].
Qed.

Theorem c05_model_min : forall n cap ops,
  hist_ok chk_push (init n cap) ops = true -> hist_ok chk_fresh (init n cap) ops = true ->
  o_c05 (model_judge n cap ops) = true.
Proof.
  intros n cap ops Hok1 Hok2.
  destruct (judge_inv (fun s st ops => Core n cap s st /\ (forall z, (tot z s <= 1)%nat) /\ SI s st /\
                         o_c05 st = true /\
                         hist_ok chk_push s ops = true /\ hist_ok chk_fresh s ops = true)
              n cap ops) as (s' & (_ & _ & _ & H & _) & _).
  - intros s st o ops' (HC & Hnd & HS & H05 & Hh1 & Hh2).
    apply hist_ok_cons in Hh1 as [Hchk1 Hh1]. apply hist_ok_cons in Hh2 as [Hchk2 Hh2].
    destruct (core_step n cap s st o HC Hchk1) as (HC' & _).
    destruct (c5_step n cap s st o HC Hnd HS Hchk1 Hchk2) as (Hnd' & HS' & Hsingle).
    split; [exact HC'|]. split; [exact Hnd'|]. split; [exact HS'|]. split; [|split; assumption].
    destruct (mstep_fields s st o) as (_ & _ & _ & _ & _ & _ & -> & _).
    rewrite H05, Hsingle. cbn [andb]. unfold c05_container.
    destruct (popped_of o (snd (step s o))) as [x|] eqn:Epop; [|reflexivity].
    rewrite (co_sync _ _ _ _ HC). eapply step_container; [apply HC | exact Epop].
  - split; [apply Core_init|]. split.
    { intro z. unfold tot. rewrite all_items_init. cbn. lia. }
    split; [|split; [reflexivity | split; assumption]].
    intros _. split; [reflexivity|]. left. split; [reflexivity|].
    pose proof (all_items_init n cap) as H. unfold all_items in H. apply app_eq_nil in H. apply H.
  - exact H.
Qed.

(** * A decidable, purely syntactic well-formedness predicate on histories

    [wf_hist n cap ops]: every [LPush h]/[LPop h] names a handle created by an earlier successful
    [NewHandle] (one that happened with [n > 0]), and the pushed item ids are pairwise distinct.
    Nothing else is needed: [LLen]/[FullLen] on unknown handles, any number of [NewHandle]s
    (handles may share a local map), and any [cap] are fine. *)

Definition op_wf (nh : nat) (seen : list item) (o : op) : bool :=
  match o with
  | GPush _ x => negb (mem x seen)
  | LPush h _ x => Nat.ltb h nh && negb (mem x seen)
  | LPop h _ => Nat.ltb h nh
  | _ => true
  end.

Definition nh_next (n nh : nat) (o : op) : nat :=
  match o with
  | NewHandle => match n with O => nh | S _ => S nh end
  | _ => nh
  end.

Fixpoint wf_ops (n nh : nat) (seen : list item) (ops : list op) : bool :=
  match ops with
  | [] => true
  | o :: ops' => op_wf nh seen o && wf_ops n (nh_next n nh o) (pushed_raw o ++ seen) ops'
  end.

Definition wf_hist (n : nat) (cap : Z) (ops : list op) : bool := wf_ops n 0 [] ops.

Lemma handles_len_step n cap s o :
  Inv n cap s -> length (s_handles (fst (step s o))) = nh_next n (length (s_handles s)) o.
Proof.
  intro HI. destruct o as [p x| | | |h p x|h start|h|h]; cbn [step nh_next].
  - reflexivity.
  - destruct (gpop s) as [s' [y|]] eqn:Eg; cbn [fst].
    + apply gpop_some in Eg as (k & q & _ & ->). reflexivity.
    + apply gpop_none in Eg as ->. reflexivity.
  - reflexivity.
  - destruct (new_handle_spec n cap s HI) as (_ & _ & _ & _ & [[-> ->]|(Hn & ix & _ & Hh & _)]); [reflexivity|].
    rewrite Hh, app_length. cbn [length]. destruct n; [congruence | lia].
  - rewrite <- (map_length h_tick), (ticks_lpush n cap s h p x HI), map_length. reflexivity.
  - destruct (nth_error (s_handles s) h) as [hd0|] eqn:Hn.
    + destruct (lpop_spec n cap s h start hd0 HI Hn) as [_ _ Hticks _].
      rewrite <- (map_length h_tick), Hticks, set_nth_length, map_length. reflexivity.
    + unfold lpop. rewrite Hn. reflexivity.
  - destruct (nth_error (s_handles s) h); reflexivity.
  - destruct (nth_error (s_handles s) h); reflexivity.
Qed.

Lemma pushed_of_le z o r : (cnt z (pushed_of o r) <= cnt z (pushed_raw o))%nat.
Proof. unfold pushed_of, pushed_raw. destruct r, o; rewrite ?cnt_nil; lia. Qed.

Lemma step_items_incl n cap s o x :
  Inv n cap s -> In x (all_items (fst (step s o))) -> In x (pushed_raw o ++ all_items s).
Proof.
  intros HI Hin. destruct (step_spec n cap s o HI) as [_ Ht]. specialize (Ht x).
  pose proof (pushed_of_le x o (snd (step s o))) as Hle.
  apply cnt_In in Hin. apply cnt_In. rewrite cnt_app. unfold tot in Ht. lia.
Qed.

Lemma op_wf_chk s nh seen o :
  length (s_handles s) = nh -> (forall x, In x (all_items s) -> In x seen) ->
  op_wf nh seen o = true ->
  chk_push s o = true /\ chk_pop s o = true /\ chk_fresh s o = true.
Proof.
  intros Hnh Hseen Hwf.
  assert (forall x, negb (mem x seen) = true -> negb (mem x (all_items s)) = true) as Hfr.
  { intros x Hx. destruct (mem x (all_items s)) eqn:Em; [|reflexivity].
    apply mem_In, Hseen, mem_In in Em. rewrite Em in Hx. discriminate. }
  destruct o as [p x| | | |h p x|h start|h|h]; cbn [op_wf chk_push chk_pop chk_fresh] in *; subst nh;
    repeat split; auto.
  - apply andb_true_iff in Hwf. tauto.
  - apply andb_true_iff in Hwf as [_ Hwf]. auto.
Qed.

Lemma wf_ops_ok n cap : forall ops s nh seen,
  Inv n cap s -> length (s_handles s) = nh -> (forall x, In x (all_items s) -> In x seen) ->
  wf_ops n nh seen ops = true ->
  hist_ok chk_push s ops = true /\ hist_ok chk_pop s ops = true /\ hist_ok chk_fresh s ops = true.
Proof.
  induction ops as [|o ops IH]; intros s nh seen HI Hnh Hseen Hwf; [repeat split; reflexivity|].
  cbn [wf_ops] in Hwf. apply andb_true_iff in Hwf as [Hop Hrest].
  destruct (op_wf_chk s nh seen o Hnh Hseen Hop) as (H1 & H2 & H3).
  destruct (IH (fst (step s o)) (nh_next n nh o) (pushed_raw o ++ seen)) as (I1 & I2' & I3); try assumption.
  - apply Inv_step, HI.
  - rewrite (handles_len_step n cap s o HI), Hnh. reflexivity.
  - intros x Hx. apply (step_items_incl n cap s o x HI) in Hx. apply in_app_iff in Hx as [Hx|Hx];
      apply in_app_iff; [left; exact Hx | right; apply Hseen, Hx].
  - cbn [hist_ok]. rewrite H1, H2, H3, I1, I2', I3. repeat split; reflexivity.
Qed.

Lemma wf_hist_ok n cap ops :
  wf_hist n cap ops = true ->
  hist_ok chk_push (init n cap) ops = true /\ hist_ok chk_pop (init n cap) ops = true /\
  hist_ok chk_fresh (init n cap) ops = true.
Proof.
  intro H. apply (wf_ops_ok n cap ops (init n cap) 0%nat []); [apply Inv_init | reflexivity | | exact H].
  intros x Hx. rewrite all_items_init in Hx. destruct Hx.
Qed.

(** * 5, 6, 7 under [wf_hist] (the original statements are false, see below) *)

Theorem c03_model : forall n cap ops,
  0 <= cap -> wf_hist n cap ops = true -> o_c03 (model_judge n cap ops) = true.
Proof. intros n cap ops _ H. apply c03_model_min, (wf_hist_ok n cap ops H). Qed.

Theorem c06_model : forall n cap ops,
  0 <= cap -> wf_hist n cap ops = true -> o_c06 (model_judge n cap ops) = true.
Proof. intros n cap ops _ H. apply c06_model_min; apply (wf_hist_ok n cap ops H). Qed.

Theorem c05_model : forall n cap ops,
  0 <= cap -> wf_hist n cap ops = true -> o_c05 (model_judge n cap ops) = true.
Proof. intros n cap ops _ H. apply c05_model_min; apply (wf_hist_ok n cap ops H). Qed.

(** everything at once, no condition on [cap] *)
Theorem model_all : forall n cap ops,
  wf_hist n cap ops = true ->
  let st := model_judge n cap ops in
  o_sync st = true /\ o_c03 st = true /\ o_c04 st = true /\ o_c05 st = true /\ o_c06 st = true.
Proof.
  intros n cap ops H. cbv zeta. destruct (wf_hist_ok n cap ops H) as (H1 & H2 & H3).
  split; [apply model_sync|]. split; [apply c03_model_min, H1|]. split; [apply c04_model|].
  split; [apply c05_model_min; assumption | apply c06_model_min; assumption].
Qed.

(** * The original statements of 5, 6, 7 are refuted by concrete histories *)

Theorem c03_model_original_false :
  ~ (forall n cap ops, 0 <= cap -> o_c03 (model_judge n cap ops) = true).
Proof.
  intro H. specialize (H 1%nat 4 [NewHandle; LPush 7 0 1; LPop 0 0%nat] ltac:(lia)).
  vm_compute in H. discriminate.
Qed.

Theorem c06_model_original_false :
  ~ (forall n cap ops, 0 <= cap -> o_c06 (model_judge n cap ops) = true).
Proof.
  intro H. specialize (H 1%nat 4 (GPush 0 1 :: repeat (LPop 0 0%nat) 61) ltac:(lia)).
  vm_compute in H. discriminate.
Qed.

Theorem c05_model_original_false :
  ~ (forall n cap ops, 0 <= cap -> o_c05 (model_judge n cap ops) = true).
Proof.
  intro H.
  specialize (H 1%nat 4 [NewHandle; LPush 0 5 7; LPush 0 1 7; LPush 0 3 8; LPop 0 0%nat; LPop 0 0%nat] ltac:(lia)).
  vm_compute in H. discriminate.
Qed.

(** * Tick arithmetic *)

Fixpoint tick_iter (t : Z) (j : nat) : Z * Z :=
  match j with O => (t, t) | S j' => let '(t', _) := tick_iter t j' in tick t' end.

Lemma tick_iter_closed t0 j :
  0 <= t0 <= U32MAX -> Z.of_nat j <= U32MAX ->
  tick_iter t0 j =
  if t0 + Z.of_nat j <=? U32MAX then (t0 + Z.of_nat j, t0 + Z.of_nat j)
  else (t0 + Z.of_nat j - U32MAX - 1, t0 + Z.of_nat j - U32MAX - 1).
Proof.
  intros Ht. induction j as [|j IH]; intro Hj.
  - cbn [tick_iter]. replace (t0 + Z.of_nat 0) with t0 by lia.
    assert (t0 <=? U32MAX = true) as -> by lia. reflexivity.
  - cbn [tick_iter]. rewrite IH by lia. unfold tick.
    destruct (t0 + Z.of_nat j <=? U32MAX) eqn:E1.
    + destruct (t0 + Z.of_nat j =? U32MAX) eqn:E2.
      * assert (t0 + Z.of_nat (S j) <=? U32MAX = false) as -> by lia.
        f_equal; lia.
      * assert (t0 + Z.of_nat (S j) <=? U32MAX = true) as -> by lia.
        f_equal; lia.
    + assert (t0 + Z.of_nat j - U32MAX - 1 =? U32MAX = false) as -> by lia.
      assert (t0 + Z.of_nat (S j) <=? U32MAX = false) as -> by lia.
      f_equal; lia.
Qed.

Theorem tick_window : forall t0, 0 <= t0 <= U32MAX ->
  exists j, (1 <= j <= 61)%nat /\ (snd (tick_iter t0 j)) mod 61 = 0.
Proof.
  intros t0 Ht.
  assert (U32MAX = 4294967295) as HU by reflexivity.
  pose proof (Z.mod_pos_bound t0 61 ltac:(lia)) as Hm.
  set (j1 := 61 - t0 mod 61).
  destruct (Z_le_gt_dec (t0 + j1) U32MAX) as [Hle|Hgt].
  - exists (Z.to_nat j1). split; [unfold j1; lia|].
    rewrite tick_iter_closed by (unfold j1 in *; lia).
    rewrite Z2Nat.id by (unfold j1; lia).
    assert (t0 + j1 <=? U32MAX = true) as -> by lia.
    cbn [snd]. unfold j1.
    replace (t0 + (61 - t0 mod 61)) with (t0 - t0 mod 61 + 1 * 61) by lia.
    rewrite Z.mod_add by lia.
    rewrite Zminus_mod_idemp_r. replace (t0 - t0) with 0 by lia. reflexivity.
  - exists (Z.to_nat (U32MAX + 1 - t0)). split; [unfold j1 in *; lia|].
    rewrite tick_iter_closed by (unfold j1 in *; lia).
    rewrite Z2Nat.id by lia.
    assert (t0 + (U32MAX + 1 - t0) <=? U32MAX = false) as -> by lia.
    cbn [snd]. replace (t0 + (U32MAX + 1 - t0) - U32MAX - 1) with 0 by lia. reflexivity.
Qed.

Print Assumptions step_never_diverges.
Print Assumptions run_never_diverges.
Print Assumptions model_sync.
Print Assumptions c04_model.
Print Assumptions c03_model.
Print Assumptions c06_model.
Print Assumptions c05_model.
Print Assumptions c03_model_min.
Print Assumptions c06_model_min.
Print Assumptions c05_model_min.
Print Assumptions model_all.
Print Assumptions c03_model_original_false.
Print Assumptions c06_model_original_false.
Print Assumptions c05_model_original_false.
Print Assumptions tick_window.
