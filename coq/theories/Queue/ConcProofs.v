(** Proofs about the small-step concurrent model [Conc]: for ALL programs, thread counts and
    schedules. The method is one invariant ([inv]) carried along an arbitrary schedule.
    The last section refutes the OLD counter protocol (load; store (load + 1)). *)
From Coq Require Import Permutation ZifyBool ZifyNat.
From OCV Require Import Base.Prelude Queue.PMap Queue.OWSLemmas Queue.Conc.
Open Scope Z_scope.

(** * Ghost quantities of a state *)

(** items stolen but whose pop has not returned yet *)
Definition held (s : cst) : list item :=
  flat_map (fun t => match t_pc t with PopDec x => [x] | _ => [] end) (c_thr s).
Definition returned (s : cst) : list item := flat_map (fun t => somes (t_res t)) (c_thr s).
(** counted, not yet inserted *)
Definition inflight_push (s : cst) : Z :=
  Z.of_nat (length (filter (fun t => match t_pc t with PushIns _ _ => true | _ => false end) (c_thr s))).
Definition inflight_dec (s : cst) : Z := Z.of_nat (length (held s)).

(** items a thread still has to insert: the one it has counted, and those of its remaining calls *)
Definition pushes (p : list call) : list item :=
  flat_map (fun c => match c with CPush _ x => [x] | CPop => [] end) p.
Definition pend (t : thread) : list item :=
  match t_pc t with PushIns _ x => [x] | _ => [] end ++ pushes (t_prog t).
Definition pending (s : cst) : list item := flat_map pend (c_thr s).

(** * Lists: replacing one element, sums over a split list *)

Lemma cset_nth_split {A} (l : list A) i t :
  nth_error l i = Some t ->
  exists l1 l2, l = l1 ++ t :: l2 /\ forall t', set_nth i t' l = l1 ++ t' :: l2.
Proof.
  intro H. apply nth_error_split in H as (l1 & l2 & -> & <-).
  exists l1, l2. split; [reflexivity|]. intro t'. unfold set_nth.
  rewrite firstn_app, Nat.sub_diag, firstn_all, skipn_app, Nat.sub_diag, skipn_all.
  cbn [firstn skipn app]. rewrite app_nil_r. reflexivity.
Qed.

Lemma cnt_fm_split {A} (f : A -> list Z) z l1 t l2 :
  cnt z (flat_map f (l1 ++ t :: l2)) = (cnt z (flat_map f l1) + cnt z (f t) + cnt z (flat_map f l2))%nat.
Proof. rewrite flat_map_app. cbn [flat_map]. rewrite !cnt_app. lia. Qed.

Lemma len_fm_split {A B} (f : A -> list B) l1 t l2 :
  length (flat_map f (l1 ++ t :: l2)) = (length (flat_map f l1) + length (f t) + length (flat_map f l2))%nat.
Proof. rewrite flat_map_app. cbn [flat_map]. rewrite !app_length. lia. Qed.

Lemma len_filter_split {A} (p : A -> bool) l1 t l2 :
  length (filter p (l1 ++ t :: l2)) =
  (length (filter p l1) + (if p t then 1 else 0) + length (filter p l2))%nat.
Proof.
  rewrite filter_app, app_length. cbn [filter]. destruct (p t); cbn [length]; lia.
Qed.

Lemma somes_snoc_some res x : somes (res ++ [Some x]) = somes res ++ [x].
Proof. unfold somes. rewrite flat_map_app. reflexivity. Qed.

Lemma somes_snoc_none res : somes (res ++ [None]) = somes res.
Proof. unfold somes. rewrite flat_map_app. cbn [flat_map app]. apply app_nil_r. Qed.

Lemma pushes_cons_push p x rest : pushes (CPush p x :: rest) = x :: pushes rest.
Proof. reflexivity. Qed.

Lemma pushes_cons_pop rest : pushes (CPop :: rest) = pushes rest.
Proof. reflexivity. Qed.

(** * The priority map under the steps *)

Lemma next_entry_In last m k r : next_entry last m = Some (k, r) -> In (k, r) m.
Proof.
  induction m as [|[k0 r0] m IH]; cbn [next_entry]; [discriminate|].
  destruct last as [l|].
  - destruct (l <? k0); intro H; [injection H as <- <-; left; reflexivity | right; auto].
  - intro H; injection H as <- <-; left; reflexivity.
Qed.

Lemma next_entry_find last m k r : pm_sorted m -> next_entry last m = Some (k, r) -> pm_find k m = Some r.
Proof. intros HS H. apply pm_sorted_in_find; [exact HS | eapply next_entry_In, H]. Qed.

Lemma pm_sorted_push k x m : pm_sorted m -> pm_sorted (pm_push k x m).
Proof. intro HS. unfold pm_push. apply pm_sorted_set, pm_sorted_ensure, HS. Qed.

Lemma cnt_pm_steal z k x r m :
  pm_find k m = Some (x :: r) ->
  cnt z (pm_items m) = (one z x + cnt z (pm_items (pm_set k r m)))%nat.
Proof.
  intro H. pose proof (cnt_pm_set z k r (x :: r) m H) as Hc. rewrite cnt_cons in Hc. lia.
Qed.

Lemma pm_count_steal k x r m :
  pm_find k m = Some (x :: r) -> pm_count (pm_set k r m) = pm_count m - 1.
Proof.
  intro H. unfold pm_count.
  assert (length (pm_items m) = length (x :: pm_items (pm_set k r m))) as ->.
  { apply cnt_length. intro z. rewrite cnt_cons. apply cnt_pm_steal, H. }
  cbn [length]. lia.
Qed.

(** * The invariant *)

Record inv (P : list item) (s : cst) : Prop := {
  inv_sorted : pm_sorted (c_shq s);
  inv_cons : forall z, cnt z (c_inserted s) =
                       (cnt z (pm_items (c_shq s)) + cnt z (held s) + cnt z (returned s))%nat;
  inv_len : c_len s = pm_count (c_shq s) + inflight_push s + inflight_dec s;
  inv_pend : forall z, cnt z P = (cnt z (c_inserted s) + cnt z (pending s))%nat
}.

Lemma held_mk progs : held (mk_cst progs) = [].
Proof.
  unfold held, mk_cst. cbn [c_thr].
  induction progs as [|p progs IH]; cbn [map flat_map t_pc app]; [reflexivity | exact IH].
Qed.

Lemma returned_mk progs : returned (mk_cst progs) = [].
Proof.
  unfold returned, mk_cst. cbn [c_thr].
  induction progs as [|p progs IH]; cbn [map flat_map t_res app somes]; [reflexivity | exact IH].
Qed.

Lemma inflight_push_mk progs : inflight_push (mk_cst progs) = 0.
Proof.
  unfold inflight_push, mk_cst. cbn [c_thr].
  induction progs as [|p progs IH]; cbn [map filter t_pc]; [reflexivity | exact IH].
Qed.

Lemma pending_mk progs : pending (mk_cst progs) = pushed_of progs.
Proof.
  unfold pending, mk_cst, pushed_of. cbn [c_thr].
  induction progs as [|p progs IH]; cbn [map flat_map]; [reflexivity|].
  rewrite IH. unfold pend. cbn [t_pc t_prog app]. reflexivity.
Qed.

Lemma inv_init progs : inv (pushed_of progs) (mk_cst progs).
Proof.
  constructor.
  - apply pm_sorted_nil.
  - intro z. rewrite held_mk, returned_mk. reflexivity.
  - unfold inflight_dec. rewrite inflight_push_mk, held_mk. reflexivity.
  - intro z. rewrite pending_mk. reflexivity.
Qed.

Ltac inv_norm :=
  unfold held, returned, inflight_push, inflight_dec, held, pending in *;
  cbn [c_shq c_len c_thr c_inserted] in *;
  rewrite ?cnt_fm_split, ?len_fm_split, ?len_filter_split in *;
  unfold pend in *;
  cbn [t_pc t_prog t_res] in *;
  rewrite ?somes_snoc_some, ?somes_snoc_none, ?pushes_cons_push, ?pushes_cons_pop in *;
  cbn [app length] in *;
  rewrite ?cnt_app, ?cnt_cons, ?cnt_nil, ?app_length in *;
  cbn [length] in *.

Lemma inv_step P s i : inv P s -> inv P (cstep s i).
Proof.
  intros [Hs Hc Hl Hp]. unfold cstep.
  destruct (nth_error (c_thr s) i) as [t|] eqn:Hn; [|constructor; assumption].
  destruct (cset_nth_split _ _ _ Hn) as (l1 & l2 & Hthr & Hset).
  destruct s as [q n thr ins]. cbn [c_shq c_len c_thr c_inserted] in *. subst thr.
  destruct t as [pc prog res]. cbn [t_pc t_prog t_res].
  destruct pc as [|p x|last|x].
  - (* Idle *)
    destruct prog as [|[p x|] rest].
    + constructor; assumption.
    + (* fetch_add *)
      rewrite Hset. constructor; cbn [c_shq c_len c_thr c_inserted].
      * exact Hs.
      * intro z. specialize (Hc z). inv_norm. lia.
      * inv_norm. lia.
      * intro z. specialize (Hp z). inv_norm. lia.
    + (* load *)
      destruct (n =? 0) eqn:En; rewrite Hset; constructor; cbn [c_shq c_len c_thr c_inserted];
        try exact Hs;
        try (intro z; specialize (Hc z); specialize (Hp z); inv_norm; lia);
        try (inv_norm; lia).
  - (* PushIns: the injector push *)
    rewrite Hset. constructor; cbn [c_shq c_len c_thr c_inserted].
    + apply pm_sorted_push, Hs.
    + intro z. specialize (Hc z). inv_norm. rewrite cnt_pm_push. lia.
    + inv_norm. rewrite pm_count_push. lia.
    + intro z. specialize (Hp z). inv_norm. lia.
  - (* PopScan: one steal attempt *)
    destruct (next_entry last q) as [[k [|x r]]|] eqn:Hne; rewrite Hset.
    + constructor; cbn [c_shq c_len c_thr c_inserted];
        try exact Hs;
        try (intro z; specialize (Hc z); specialize (Hp z); inv_norm; lia);
        try (inv_norm; lia).
    + pose proof (next_entry_find _ _ _ _ Hs Hne) as Hf.
      constructor; cbn [c_shq c_len c_thr c_inserted].
      * apply pm_sorted_set, Hs.
      * intro z. specialize (Hc z). pose proof (cnt_pm_steal z _ _ _ _ Hf) as Hst. inv_norm. lia.
      * inv_norm. rewrite (pm_count_steal _ _ _ _ Hf). lia.
      * intro z. specialize (Hp z). inv_norm. lia.
    + constructor; cbn [c_shq c_len c_thr c_inserted];
        try exact Hs;
        try (intro z; specialize (Hc z); specialize (Hp z); inv_norm; lia);
        try (inv_norm; lia).
  - (* PopDec: fetch_sub *)
    rewrite Hset. constructor; cbn [c_shq c_len c_thr c_inserted].
    + exact Hs.
    + intro z. specialize (Hc z). inv_norm. lia.
    + inv_norm. lia.
    + intro z. specialize (Hp z). inv_norm. lia.
Qed.

Lemma inv_run P sched : forall s, inv P s -> inv P (crun s sched).
Proof.
  unfold crun. induction sched as [|i sched IH]; intros s H; cbn [fold_left]; [exact H|].
  apply IH, inv_step, H.
Qed.

Lemma inv_reach progs sched : inv (pushed_of progs) (crun (mk_cst progs) sched).
Proof. apply inv_run, inv_init. Qed.

(** * T1, T2, T6: every reachable state *)

Theorem conc_conservation : forall progs sched, let s := crun (mk_cst progs) sched in
  Permutation (c_inserted s) (pm_items (c_shq s) ++ held s ++ returned s).
Proof.
  intros progs sched s. subst s. apply cnt_perm. intro z.
  rewrite (inv_cons _ _ (inv_reach progs sched) z). rewrite !cnt_app. lia.
Qed.

Theorem conc_len : forall progs sched, let s := crun (mk_cst progs) sched in
  c_len s = pm_count (c_shq s) + inflight_push s + inflight_dec s.
Proof. intros progs sched s. apply (inv_len _ _ (inv_reach progs sched)). Qed.

Theorem conc_pop_at_most_once : forall progs sched x, let s := crun (mk_cst progs) sched in
  (count_occ Z.eq_dec (returned s ++ held s) x <= count_occ Z.eq_dec (c_inserted s) x)%nat.
Proof.
  intros progs sched x s. subst s. pose proof (inv_cons _ _ (inv_reach progs sched) x) as H.
  set (s := crun (mk_cst progs) sched) in *.
  change (cnt x (returned s ++ held s) <= cnt x (c_inserted s))%nat. rewrite cnt_app. lia.
Qed.

(** * Quiescence *)

Lemma finished_inv t : finished t = true -> t_pc t = Idle /\ t_prog t = [].
Proof.
  unfold finished. destruct (t_pc t); try discriminate. destruct (t_prog t); [auto | discriminate].
Qed.

Lemma quiescent_held s : quiescent s = true -> held s = [].
Proof.
  unfold quiescent, held. induction (c_thr s) as [|t l IH]; cbn [forallb flat_map]; [reflexivity|].
  intro H. apply andb_true_iff in H as [Ht Hl]. apply finished_inv in Ht as [-> _].
  rewrite (IH Hl). reflexivity.
Qed.

Lemma quiescent_inflight_push s : quiescent s = true -> inflight_push s = 0.
Proof.
  unfold quiescent, inflight_push.
  induction (c_thr s) as [|t l IH]; cbn [forallb filter]; [reflexivity|].
  intro H. apply andb_true_iff in H as [Ht Hl]. apply finished_inv in Ht as [-> _]. exact (IH Hl).
Qed.

Lemma quiescent_pending s : quiescent s = true -> pending s = [].
Proof.
  unfold quiescent, pending. induction (c_thr s) as [|t l IH]; cbn [forallb flat_map]; [reflexivity|].
  intro H. apply andb_true_iff in H as [Ht Hl]. apply finished_inv in Ht as [Hpc Hpr].
  rewrite (IH Hl). unfold pend. rewrite Hpc, Hpr. reflexivity.
Qed.

Lemma inv_quiescent P s :
  inv P s -> quiescent s = true ->
  c_len s = pm_count (c_shq s) /\
  forall z, cnt z P = (cnt z (pm_items (c_shq s)) + cnt z (returned s))%nat.
Proof.
  intros [Hs Hc Hl Hp] Hq. split.
  - rewrite Hl. unfold inflight_dec. rewrite (quiescent_inflight_push _ Hq), (quiescent_held _ Hq).
    cbn [length]. lia.
  - intro z. rewrite (Hp z), (Hc z), (quiescent_pending _ Hq), (quiescent_held _ Hq), !cnt_nil. lia.
Qed.

Theorem conc_quiescent : forall progs sched, let s := crun (mk_cst progs) sched in
  quiescent s = true ->
  c_len s = pm_count (c_shq s) /\ Permutation (pushed_of progs) (pm_items (c_shq s) ++ returned s).
Proof.
  intros progs sched s Hq. subst s.
  destruct (inv_quiescent _ _ (inv_reach progs sched) Hq) as [Hl Hc].
  split; [exact Hl|]. apply cnt_perm. intro z. rewrite cnt_app. apply Hc.
Qed.

(** * The observed outcome *)

Lemma drain_all n : forall q, n = length (pm_items q) -> drain n q = pm_items q.
Proof.
  induction n as [|n IH]; intros q Hn; cbn [drain].
  - symmetry. apply length_zero_iff_nil. symmetry. exact Hn.
  - destruct (pm_pop q) as [[[k x] q']|] eqn:Hpop.
    + pose proof (pm_pop_items _ _ _ _ Hpop) as Hi. rewrite Hi in *. cbn [length] in Hn.
      f_equal. apply IH. lia.
    + apply pm_pop_none in Hpop. rewrite Hpop in Hn. discriminate.
Qed.

Lemma count_occ_z_cnt x l : count_occ_z x l = cnt x l.
Proof.
  induction l as [|y l IH]; cbn [count_occ_z]; [reflexivity|].
  rewrite cnt_cons, IH. unfold one. destruct (Z.eq_dec y x) as [E|E].
  - subst. rewrite Z.eqb_refl. reflexivity.
  - assert (x =? y = false) as -> by lia. reflexivity.
Qed.

Lemma returned_observe s : flat_map somes (map t_res (c_thr s)) = returned s.
Proof.
  unfold returned. induction (c_thr s) as [|t l IH]; cbn [map flat_map]; [reflexivity|].
  rewrite IH. reflexivity.
Qed.

Lemma inv_outcome_ok P s : inv P s -> quiescent s = true -> outcome_ok P (observe s) = true.
Proof.
  intros Hinv Hq. destruct (inv_quiescent _ _ Hinv Hq) as [Hl Hc].
  assert (o_drained (observe s) = pm_items (c_shq s)) as Hd.
  { unfold observe. cbn [o_drained]. apply drain_all. rewrite Hl. unfold pm_count. lia. }
  unfold outcome_ok. rewrite Hd. apply andb_true_iff. split.
  - apply forallb_forall. intros x _. apply Nat.eqb_eq.
    rewrite !count_occ_z_cnt. unfold observe. cbn [o_res]. rewrite returned_observe.
    rewrite cnt_app, (Hc x). lia.
  - unfold observe. cbn [o_len]. rewrite Hl. unfold pm_count. lia.
Qed.

Theorem conc_outcome_ok : forall progs sched, let s := crun (mk_cst progs) sched in
  quiescent s = true -> outcome_ok (pushed_of progs) (observe s) = true.
Proof. intros progs sched s Hq. apply inv_outcome_ok; [apply inv_reach | exact Hq]. Qed.

(** * The exhaustive enumeration only returns observations of complete runs *)

Lemma enabled_nil_quiescent s : enabled s = [] -> quiescent s = true.
Proof.
  unfold enabled, quiescent. intro He. apply forallb_forall. intros t Ht.
  apply In_nth_error in Ht as [i Hi].
  assert (In i (seq 0 (length (c_thr s)))) as Hin.
  { apply in_seq. split; [lia|]. cbn [plus]. apply nth_error_Some. congruence. }
  destruct (finished t) eqn:Hf; [reflexivity|].
  assert (In i []) as Hbad; [|destruct Hbad].
  rewrite <- He. apply filter_In. split; [exact Hin|]. rewrite Hi, Hf. reflexivity.
Qed.

Lemma all_outcomes_run fuel : forall s o,
  In o (all_outcomes fuel s) ->
  exists sched, quiescent (crun s sched) = true /\ o = observe (crun s sched).
Proof.
  induction fuel as [|f IH]; intros s o Hin; cbn [all_outcomes] in Hin; [destruct Hin|].
  destruct (enabled s) as [|i0 en] eqn:He.
  - destruct Hin as [<-|[]]. exists []. split; [apply enabled_nil_quiescent, He | reflexivity].
  - apply in_flat_map in Hin as (i & _ & Hi). apply IH in Hi as (sched & Hq & Ho).
    exists (i :: sched). split; assumption.
Qed.

Theorem conc_all_outcomes_ok : forall fuel progs o,
  In o (all_outcomes fuel (mk_cst progs)) -> outcome_ok (pushed_of progs) o = true.
Proof.
  intros fuel progs o Hin. apply all_outcomes_run in Hin as (sched & Hq & ->).
  apply conc_outcome_ok, Hq.
Qed.

(** * Non-vacuity: a complete run in which the popper's scan passes an entry that is empty and a
      push lands in that entry afterwards. Thread 0 pushes 10, thread 1 pushes 11 (same
      priority 1), thread 2 pops twice. Schedule: thread 0 counts and inserts; thread 2 loads,
      steals 10, decrements; thread 1 counts (len = 1 again); thread 2 loads 1, its scan finds the
      entry of key 1 EMPTY and moves past it; thread 1 inserts 11 into that entry; thread 2 finds no
      further entry and returns [None] although the counter was 1. Nothing is lost: the final
      counter is 1 and a drain returns 11. *)
Definition nv_progs : list (list call) := [[CPush 1 10]; [CPush 1 11]; [CPop; CPop]].
Definition nv_sched : list nat := [0; 0; 2; 2; 2; 1; 2; 2; 1; 2]%nat.

Example conc_nonvacuous :
  let s := crun (mk_cst nv_progs) nv_sched in
  (* after the 8th step the popper has passed the empty entry and the push has not landed *)
  let mid := crun (mk_cst nv_progs) (firstn 8 nv_sched) in
  c_shq mid = [(1, [])] /\ c_len mid = 1 /\
  map t_pc (c_thr mid) = [Idle; PushIns 1 11; PopScan (Some 1)] /\
  quiescent s = true /\
  observe s = {| o_res := [[]; []; [Some 10; None]]; o_len := 1; o_drained := [11] |} /\
  outcome_ok (pushed_of nv_progs) (observe s) = true /\
  In (observe s) (all_outcomes 20 (mk_cst nv_progs)).
Proof. vm_compute. repeat split; auto 20. Qed.

(** * Refutation of the OLD protocol (finding "shared_len_lost_update")

    The old push did [injector.push(x); let v = len.load(); len.store(v + 1)]: the counter update is
    two separate accesses. The model below is [cstep] with that one change (the pop side is as
    before). Two pushers, both loads before both stores: one increment is lost, and at quiescence
    the counter under-reports the queue for ever. *)

Inductive opc :=
| OIdle
| OPushLoad                        (* inserted, about to load the counter *)
| OPushStore (v : Z)               (* loaded v, about to store v + 1 *)
| OPopScan (last : option Z)
| OPopDec (x : item).

Record othread := { ot_pc : opc; ot_prog : list call; ot_res : list (option item) }.
Record ost := { oc_shq : pmap; oc_len : Z; oc_thr : list othread }.

Definition mk_ost (progs : list (list call)) : ost :=
  {| oc_shq := []; oc_len := 0;
     oc_thr := map (fun p => {| ot_pc := OIdle; ot_prog := p; ot_res := [] |}) progs |}.

Definition ofinished (t : othread) : bool :=
  match ot_pc t, ot_prog t with OIdle, [] => true | _, _ => false end.

Definition cstep_old (s : ost) (i : nat) : ost :=
  match nth_error (oc_thr s) i with
  | None => s
  | Some t =>
      let upd (pc' : opc) (prog' : list call) (res' : list (option item)) (q : pmap) (n : Z) :=
        {| oc_shq := q; oc_len := n;
           oc_thr := set_nth i {| ot_pc := pc'; ot_prog := prog'; ot_res := res' |} (oc_thr s) |} in
      match ot_pc t with
      | OIdle =>
          match ot_prog t with
          | [] => s
          | CPush p x :: rest => upd OPushLoad rest (ot_res t) (pm_push p x (oc_shq s)) (oc_len s)
          | CPop :: rest =>
              if oc_len s =? 0
              then upd OIdle rest (ot_res t ++ [None]) (oc_shq s) (oc_len s)
              else upd (OPopScan None) rest (ot_res t) (oc_shq s) (oc_len s)
          end
      | OPushLoad => upd (OPushStore (oc_len s)) (ot_prog t) (ot_res t) (oc_shq s) (oc_len s)
      | OPushStore v => upd OIdle (ot_prog t) (ot_res t) (oc_shq s) (v + 1)
      | OPopScan last =>
          match next_entry last (oc_shq s) with
          | None => upd OIdle (ot_prog t) (ot_res t ++ [None]) (oc_shq s) (oc_len s)
          | Some (k, []) => upd (OPopScan (Some k)) (ot_prog t) (ot_res t) (oc_shq s) (oc_len s)
          | Some (k, x :: r) => upd (OPopDec x) (ot_prog t) (ot_res t) (pm_set k r (oc_shq s)) (oc_len s)
          end
      | OPopDec x => upd OIdle (ot_prog t) (ot_res t ++ [Some x]) (oc_shq s) (oc_len s - 1)
      end
  end.

Definition crun_old (s : ost) (sched : list nat) : ost := fold_left cstep_old sched s.
Definition quiescent_old (s : ost) : bool := forallb ofinished (oc_thr s).

(** two pushers; schedule: insert, insert, load, load, store, store *)
Theorem old_protocol_loses_updates : exists progs sched,
  let s := crun_old (mk_ost progs) sched in
  quiescent_old s = true /\ oc_len s <> pm_count (oc_shq s).
Proof.
  exists [[CPush 0 1]; [CPush 0 2]], [0; 1; 0; 1; 0; 1]%nat.
  vm_compute. split; [reflexivity | discriminate].
Qed.

(** the exact values: the counter says 1, the queue holds 2 *)
Example old_protocol_values :
  let s := crun_old (mk_ost [[CPush 0 1]; [CPush 0 2]]) [0; 1; 0; 1; 0; 1]%nat in
  oc_len s = 1 /\ pm_items (oc_shq s) = [1; 2].
Proof. vm_compute. split; reflexivity. Qed.

(** the same programs under the CURRENT protocol, under every schedule: counter exact *)
Example new_protocol_same_programs : forall sched,
  let s := crun (mk_cst [[CPush 0 1]; [CPush 0 2]]) sched in
  quiescent s = true -> c_len s = pm_count (c_shq s).
Proof. intros sched s Hq. apply (conc_quiescent _ sched Hq). Qed.
