(** The oracle step split into named components, and the invariant principle for
    [orun s st ops (run s ops)] (the oracle judging the model's own observations). *)
From OCV Require Import Base.Prelude Queue.PMap Queue.OWS Queue.OWSOracle.
From OCV Require Import Queue.OWSLemmas Queue.OWSModel Queue.OWSInv Queue.OWSStep.
From Coq Require Import ZifyBool ZifyNat Permutation Sorted.
Open Scope Z_scope.

Definition opend1 (st : ostate) (o : op) : pend := pend_push o (o_pend st).

Definition opend2 (st : ostate) (o : op) (io : obs) : pend :=
  match popped_of o io with
  | Some x => match pend_remove x (opend1 st o) with Some r => r | None => opend1 st o end
  | None => opend1 st o
  end.

Definition c03_pop (st : ostate) (o : op) (io : obs) : bool :=
  match popped_of o io with
  | Some x => match pend_remove x (opend1 st o) with Some _ => true | None => false end
  | None => true
  end.

Definition idle_ok (st : ostate) (o : op) (io : obs) : bool :=
  match o, io with
  | LPop _ _, OItem None => is_nil (opend1 st o)
  | _, _ => true
  end.

Definition c03_len (s : sys) (st : ostate) (o : op) (io : obs) : bool :=
  match o, io with
  | GLen, ONum n => if o_sync st then n =? pm_count (s_shq s) else true
  | FullLen _, ONum n => if o_sync st then n =? Z.of_nat (length (all_items s)) else true
  | _, _ => true
  end.

Definition c05_single (s : sys) (st : ostate) (o : op) (io : obs) : bool :=
  match o, io with
  | LPop _ _, OItem r =>
      if single_step s st o then option_eqb Z.eqb r (option_map snd (stable_min (o_pend st))) else true
  | _, _ => true
  end.

Definition c05_container (s : sys) (st : ostate) (o : op) (io : obs) : bool :=
  match popped_of o io with
  | Some x => if o_sync st then container_ok s x else true
  | None => true
  end.

Definition starve_c06 (s : sys) (st : ostate) (o : op) (io : obs) : list Z * bool :=
  match o with
  | LPop h _ =>
      if o_sync st then
        if is_nil (pm_items (s_shq s)) then (set_starve (o_starve st) h 0, true)
        else if match io with OItem (Some x) => mem x (pm_items (s_shq s)) | _ => false end
             then (set_starve (o_starve st) h 0, true)
             else let v := get_starve (o_starve st) h + 1 in
                  (set_starve (o_starve st) h v, v <? 61)
      else (o_starve st, true)
  | _ => (o_starve st, true)
  end.

Lemma ostep_eq s st o io :
  ostep s st o io =
  (fst (step s o),
   {| o_sync := o_sync st && obs_eqb (snd (step s o)) io;
      o_pend := opend2 st o io;
      o_single := single_step s st o;
      o_starve := fst (starve_c06 s st o io);
      o_c03 := o_c03 st && c03_pop st o io && idle_ok st o io && c03_len s st o io;
      o_c04 := o_c04 st && negb (obs_eqb io ODiverged);
      o_c05 := o_c05 st && c05_single s st o io && c05_container s st o io;
      o_c06 := o_c06 st && snd (starve_c06 s st o io) && idle_ok st o io |}).
Proof.
  unfold ostep, opend2, c03_pop, idle_ok, c03_len, c05_single, c05_container, starve_c06, opend1.
  destruct (step s o) as [s' mo]. cbn [fst snd].
  destruct (popped_of o io) as [x|].
  - destruct (pend_remove x (pend_push o (o_pend st))) as [r|];
      match goal with |- context [match ?X with pair _ _ => _ end] => destruct X end; reflexivity.
  - match goal with |- context [match ?X with pair _ _ => _ end] => destruct X end; reflexivity.
Qed.

Lemma obs_eqb_refl r : obs_eqb r r = true.
Proof.
  destruct r as [|[x|]|n| |]; cbn [obs_eqb option_eqb]; try reflexivity; apply Z.eqb_refl.
Qed.

(** the oracle step on the model's own observation *)
Definition mstep (s : sys) (st : ostate) (o : op) : ostate := snd (ostep s st o (snd (step s o))).

Lemma orun_model_cons s st o ops :
  orun s st (o :: ops) (run s (o :: ops)) = orun (fst (step s o)) (mstep s st o) ops (run (fst (step s o)) ops).
Proof.
  rewrite run_cons. cbn [orun]. unfold mstep.
  pose proof (step_never_diverges s o) as Hnd.
  rewrite (ostep_eq s st o (snd (step s o))). cbn [snd].
  destruct (snd (step s o)); try reflexivity. congruence.
Qed.

Lemma orun_model_inv (P : sys -> ostate -> list op -> Prop) :
  (forall s st o ops, P s st (o :: ops) -> P (fst (step s o)) (mstep s st o) ops) ->
  forall ops s st, P s st ops ->
  exists s' st', orun s st ops (run s ops) = (s', st', true) /\ P s' st' [].
Proof.
  intros Hstep ops; induction ops as [|o ops IH]; intros s st HP.
  - exists s, st. split; [reflexivity | exact HP].
  - rewrite orun_model_cons. apply IH, Hstep, HP.
Qed.

(** fields of [mstep] *)
Lemma mstep_fields s st o :
  let io := snd (step s o) in
  o_sync (mstep s st o) = o_sync st /\
  o_pend (mstep s st o) = opend2 st o io /\
  o_single (mstep s st o) = single_step s st o /\
  o_starve (mstep s st o) = fst (starve_c06 s st o io) /\
  o_c03 (mstep s st o) = o_c03 st && c03_pop st o io && idle_ok st o io && c03_len s st o io /\
  o_c04 (mstep s st o) = o_c04 st /\
  o_c05 (mstep s st o) = o_c05 st && c05_single s st o io && c05_container s st o io /\
  o_c06 (mstep s st o) = o_c06 st && snd (starve_c06 s st o io) && idle_ok st o io.
Proof.
  cbv zeta. unfold mstep. rewrite ostep_eq. cbn [snd o_sync o_pend o_single o_starve o_c03 o_c04 o_c05 o_c06].
  rewrite obs_eqb_refl, andb_true_r.
  assert (negb (obs_eqb (snd (step s o)) ODiverged) = true) as ->.
  { pose proof (step_never_diverges s o) as H. destruct (snd (step s o)); try reflexivity. congruence. }
  rewrite andb_true_r. repeat split; reflexivity.
Qed.

(** * history-level pending list *)

Lemma cnt_pend_push z o l :
  cnt z (map snd (pend_push o l)) =
  (cnt z (match o with GPush _ x => [x] | LPush _ _ x => [x] | _ => [] end) + cnt z (map snd l))%nat.
Proof.
  destruct o; cbn [pend_push]; rewrite ?map_app, ?cnt_app; cbn [map snd]; rewrite ?cnt_nil; lia.
Qed.

Lemma pend_remove_some x l :
  In x (map snd l) ->
  exists r, pend_remove x l = Some r /\
            (forall z, cnt z (map snd l) = (one z x + cnt z (map snd r))%nat) /\
            length l = S (length r).
Proof.
  induction l as [|[p y] l IH]; cbn [map snd In pend_remove]; [tauto|].
  intro Hin. destruct (x =? y) eqn:E.
  - assert (x = y) by lia. subst y. exists l. split; [reflexivity|]. split; [|reflexivity].
    intro z. rewrite cnt_cons. reflexivity.
  - destruct Hin as [Hin|Hin]; [lia|]. destruct (IH Hin) as (r & -> & Hc & Hl).
    exists ((p, y) :: r). split; [reflexivity|]. split; [|cbn [length]; lia].
    intro z. cbn [map snd]. rewrite !cnt_cons, (Hc z). lia.
Qed.

Lemma map_snd_nil_cnt (l : pend) : (forall z, cnt z (map snd l) = 0%nat) -> l = [].
Proof.
  intro H. apply cnt_all0_nil in H. destruct l; [reflexivity | discriminate].
Qed.
