(** Sequential model of core/src/common/work_steal.rs ([WorkStealQueue] + [LocalQueue]) as of the
    current tree (shared counter: [fetch_add] before the injector push, [fetch_sub] after a
    successful steal): one step per public call, the random start index of the steal scan is an
    input. One ring ([st3::fifo::Worker]) per local queue, oldest item first; a handle
    ([LocalQueue]) is a reference to one ring plus its own tick. The handle's [len()] is derived
    from the ring ([capacity - spare_capacity]), there is no separate counter.
    The only unbounded loop ([WorkStealQueue::pop]'s [loop] around [Injector::steal]) carries fuel;
    exhaustion is the observation [ODiverged]. *)
From OCV Require Import Base.Prelude Queue.PMap.
From OCV Require Queue.OWS.
Open Scope Z_scope.

Record handle := { h_ix : nat; h_tick : Z }.

Record sys := {
  s_cap : Z;                (* local_capacity as requested *)
  s_shq : list item;        (* shared_queue : Injector, oldest first *)
  s_shlen : Z;              (* shared len counter *)
  s_locals : list ring;     (* local_queues *)
  s_handles : list handle;  (* LocalQueue values handed out so far *)
  s_index : Z               (* round-robin index of local_queue() *)
}.

Definition init (n : nat) (cap : Z) : sys :=
  {| s_cap := cap; s_shq := []; s_shlen := 0; s_locals := repeat [] n; s_handles := []; s_index := 0 |}.

Inductive op :=
| GPush (x : item)
| GPop
| GLen
| GEmpty
| NewHandle
| LPush (h : nat) (x : item)
| LPop (h : nat) (start : nat)
| LLen (h : nat)
| LFull (h : nat)
| LEmpty (h : nat).

Inductive obs :=
| OUnit
| OItem (x : option item)
| ONum (n : Z)
| OBool (b : bool)
| ODiverged
| OBad.                      (* malformed op, e.g. unknown handle: the harness refuses it too *)

Definition obs_eqb (a b : obs) : bool :=
  match a, b with
  | OUnit, OUnit => true
  | OItem x, OItem y => option_eqb Z.eqb x y
  | ONum x, ONum y => x =? y
  | OBool x, OBool y => Bool.eqb x y
  | ODiverged, ODiverged => true
  | OBad, OBad => true
  | _, _ => false
  end.

(** [Worker::new(local_capacity)] allocates [next_power_of_two] slots; [capacity()] reports that *)
Definition rcap (cap : Z) : Z := next_pow2 cap.
(** [capacity().saturating_add(1).saturating_div(2)] *)
Definition half (c : Z) : Z := (c + 1) / 2.
Definition rlen (r : ring) : Z := Z.of_nat (length r).
(** [spare_capacity()] of a ring *)
Definition spare (s : sys) (r : ring) : Z := rcap (s_cap s) - rlen r.
(** [LocalQueue::len()]: [capacity().saturating_sub(spare_capacity())] *)
Definition hlen (s : sys) (r : ring) : Z := sat_sub (rcap (s_cap s)) (spare s r).

Definition upd_handle (s : sys) (h : nat) (hd : handle) : sys :=
  {| s_cap := s_cap s; s_shq := s_shq s; s_shlen := s_shlen s; s_locals := s_locals s;
     s_handles := OWS.set_nth h hd (s_handles s); s_index := s_index s |}.
Definition upd_local (s : sys) (i : nat) (r : ring) : sys :=
  {| s_cap := s_cap s; s_shq := s_shq s; s_shlen := s_shlen s; s_locals := OWS.set_nth i r (s_locals s);
     s_handles := s_handles s; s_index := s_index s |}.
Definition upd_shared (s : sys) (q : list item) (n : Z) : sys :=
  {| s_cap := s_cap s; s_shq := q; s_shlen := n; s_locals := s_locals s;
     s_handles := s_handles s; s_index := s_index s |}.

Definition local_of (s : sys) (i : nat) : ring := nth i (s_locals s) [].

(** [WorkStealQueue::push]: count first, then the injector push *)
Definition gpush (s : sys) (x : item) : sys :=
  upd_shared s (s_shq s ++ [x]) (s_shlen s + 1).

(** [Injector::steal] as one call sees it; a single caller never gets [Retry] *)
Inductive steal_res := StSuccess (x : item) (q : list item) | StEmpty | StRetry.
Definition inj_steal (q : list item) : steal_res :=
  match q with [] => StEmpty | x :: q' => StSuccess x q' end.

(** the [loop] of [WorkStealQueue::pop]; [None] = fuel ran out *)
Fixpoint gpop_loop (fuel : nat) (s : sys) : option (sys * option item) :=
  match fuel with
  | O => None
  | S f =>
      match inj_steal (s_shq s) with
      | StSuccess x q => Some (upd_shared s q (s_shlen s - 1), Some x)
      | StRetry => gpop_loop f s
      | StEmpty => Some (s, None)
      end
  end.

(** [WorkStealQueue::pop]: fast path on the counter, then the steal loop *)
Definition gpop (s : sys) : option (sys * option item) :=
  if s_shlen s =? 0 then Some (s, None) else gpop_loop 1 s.

(** the [for _ in 0..count] loop of [LocalQueue::push]: pop the ring, push to the shared queue;
    a round whose pop finds nothing moves nothing *)
Fixpoint move_half (count : nat) (s : sys) (ix : nat) : sys :=
  match count with
  | O => s
  | S c =>
      match local_of s ix with
      | [] => move_half c s ix
      | y :: r => move_half c (gpush (upd_local s ix r) y) ix
      end
  end.

(** [LocalQueue::push]: the ring refuses the item when it holds [capacity()] items; then half of
    [len()] goes to the shared queue, followed by the new item *)
Definition lpush (s : sys) (h : nat) (x : item) : sys * obs :=
  match nth_error (s_handles s) h with
  | None => (s, OBad)
  | Some hd =>
      let r := local_of s (h_ix hd) in
      if rlen r <? rcap (s_cap s) then (upd_local s (h_ix hd) (r ++ [x]), OUnit)
      else
        let count := Z.to_nat (hlen s r / 2) in
        (gpush (move_half count s (h_ix hd)) x, OUnit)
  end.

(** the number of items one [Stealer::steal] moves: the closure's
    [n.min(max_steal()).min((len(another) + 1) / 2)], then st3's [min(free slots of dest)] and
    [min(n)]; 0 makes the call fail *)
Definition steal_count (s : sys) (own victim : ring) : Z :=
  let n := rlen victim in
  let max_steal := sat_sub (half (rcap (s_cap s))) (hlen s own) in
  let free := spare s own in
  Z.min (Z.min (Z.min (Z.min n max_steal) ((n + 1) / 2)) free) n.

(** the sibling scan: [order] = the indices start, start+1, ... (mod n) still to visit. The
    pointer comparison meant to skip the thief's own ring compares two stack slots and is never
    true; the own ring is visited like any other (it is empty here). Success: the moved items sit
    at the back of the thief's ring. *)
Fixpoint steal_scan (order : list nat) (s : sys) (ix : nat) : option sys :=
  match order with
  | [] => None
  | j :: rest =>
      let own := local_of s ix in
      if spare s own <? half (rcap (s_cap s)) then None      (* !can_steal(): break *)
      else
        match local_of s j with
        | [] => steal_scan rest s ix                          (* another.is_empty(): continue *)
        | (_ :: _) as v =>
            let cnt := steal_count s own v in
            if cnt <=? 0 then steal_scan rest s ix            (* steal failed: next sibling *)
            else
              let c := Z.to_nat cnt in
              let s1 := upd_local s j (skipn c v) in
              Some (upd_local s1 ix (local_of s1 ix ++ firstn c v))
        end
  end.

(** [self.queue.pop()] on the ring of local queue [ix] *)
Definition ring_pop (s : sys) (ix : nat) : sys * option item :=
  match local_of s ix with
  | [] => (s, None)
  | x :: r => (upd_local s ix r, Some x)
  end.

(** [LocalQueue::pop] after the tick and the shared-first attempt: own ring, sibling scan, shared queue *)
Definition lpop_rest (s : sys) (ix : nat) (start : nat) : sys * obs :=
  match ring_pop s ix with
  | (s2, Some x) => (s2, OItem (Some x))
  | (s2, None) =>
      (* try_lock succeeds: the flag is per handle and is released before every return *)
      let n := length (s_locals s2) in
      match steal_scan (OWS.scan_order n start) s2 ix with
      | Some s3 => let '(s4, r) := ring_pop s3 ix in (s4, OItem r)
      | None =>
          match gpop s2 with
          | None => (s2, ODiverged)
          | Some (s3, r) => (s3, OItem r)
          end
      end
  end.

(** [LocalQueue::pop] *)
Definition lpop (s : sys) (h : nat) (start : nat) : sys * obs :=
  match nth_error (s_handles s) h with
  | None => (s, OBad)
  | Some hd0 =>
      let '(t', tv) := OWS.tick (h_tick hd0) in
      let ix := h_ix hd0 in
      let s := upd_handle s h {| h_ix := ix; h_tick := t' |} in
      let first := if tv mod 61 =? 0 then gpop s else Some (s, None) in
      match first with
      | None => (s, ODiverged)
      | Some (s1, Some x) => (s1, OItem (Some x))
      | Some (s1, None) => lpop_rest s1 ix start
      end
  end.

Definition new_handle (s : sys) : sys * obs :=
  match length (s_locals s) with
  | O => (s, OBad)
  | n =>
      let ix := Z.to_nat (s_index s mod Z.of_nat n) in
      ({| s_cap := s_cap s; s_shq := s_shq s; s_shlen := s_shlen s; s_locals := s_locals s;
          s_handles := s_handles s ++ [{| h_ix := ix; h_tick := 0 |}];
          s_index := s_index s + 1 |}, ONum (Z.of_nat (length (s_handles s))))
  end.

Definition is_nil {A} (l : list A) : bool := match l with [] => true | _ => false end.

Definition with_handle (s : sys) (h : nat) (f : ring -> obs) : sys * obs :=
  match nth_error (s_handles s) h with
  | Some hd => (s, f (local_of s (h_ix hd)))
  | None => (s, OBad)
  end.

Definition step (s : sys) (o : op) : sys * obs :=
  match o with
  | GPush x => (gpush s x, OUnit)
  | GPop => match gpop s with Some (s', r) => (s', OItem r) | None => (s, ODiverged) end
  | GLen => (s, ONum (s_shlen s))
  | GEmpty => (s, OBool (s_shlen s =? 0))
  | NewHandle => new_handle s
  | LPush h x => lpush s h x
  | LPop h start => lpop s h start
  | LLen h => with_handle s h (fun r => ONum (hlen s r))
  | LFull h => with_handle s h (fun r => OBool (spare s r =? 0))
  | LEmpty h => with_handle s h (fun r => OBool (is_nil r))
  end.

(** run, stopping at the first divergence (the real call never returns) *)
Fixpoint run (s : sys) (ops : list op) : list obs :=
  match ops with
  | [] => []
  | o :: ops' =>
      let '(s', r) := step s o in
      match r with
      | ODiverged => [ODiverged]
      | _ => r :: run s' ops'
      end
  end.
