(** Per-step facts of the model: invariant preservation, conservation of items, what a pop
    returns (container head, idle means empty, tick window). *)
From OCV Require Import Base.Prelude Queue.PMap Queue.OWS Queue.OWSOracle
  Queue.OWSLemmas Queue.OWSModel Queue.OWSInv.
From Coq Require Import ZifyBool ZifyNat Permutation Sorted.
Open Scope Z_scope.

Definition olist (o : option item) : list item := match o with Some x => [x] | None => [] end.

Definition pushed_of (o : op) (r : obs) : list item :=
  match r with
  | OBad => []
  | _ => match o with GPush _ x => [x] | LPush _ _ x => [x] | _ => [] end
  end.

(** * lpop: the steal branch returns the head of a victim *)

Lemma Inv_lpop_hd n cap s h hd0 :
  Inv n cap s -> nth_error (s_handles s) h = Some hd0 ->
  Inv n cap (upd_handle s h (lpop_hd hd0)) /\
  Inv n cap (upd_handle (upd_handle s h (lpop_hd hd0)) h (zero_hd (lpop_hd hd0))).
Proof.
  intros HI Hn. pose proof (Inv_hd _ _ _ _ _ HI Hn) as [Hix Hlen].
  assert (Inv n cap (upd_handle s h (lpop_hd hd0))) as HA.
  { apply Inv_upd_handle; [exact HI|]. split; cbn [lpop_hd h_ix h_len]; assumption. }
  split; [exact HA|]. apply Inv_upd_handle; [exact HA|].
  split; cbn [zero_hd lpop_hd h_ix h_len]; [assumption | lia].
Qed.

Lemma steal_victim n cap s3 hd j s4 hd2 :
  Inv n cap s3 -> (h_ix hd < n)%nat -> (j < n)%nat -> h_len hd = 0 -> 1 <= cap ->
  pm_items (local_of s3 (h_ix hd)) = [] ->
  steal_from (local_of s3 j) s3 hd j = Some (s4, hd2) ->
  exists k x m' mm, pm_pop (local_of s3 j) = Some (k, x, m') /\
                    pm_pop (local_of s4 (h_ix hd2)) = Some (k, x, mm) /\ h_ix hd2 = h_ix hd.
Proof.
  intros HI Hown Hj Hlen Hcap Hemp Hs.
  pose proof (inv_nloc _ _ _ HI) as Hnl. pose proof (inv_wf _ _ _ HI) as Hw.
  destruct (pm_pop (local_of s3 j)) as [[[k x] m']|] eqn:Ep.
  - assert (j <> h_ix hd) as Hne.
    { intros ->. apply pm_pop_none in Hemp. congruence. }
    destruct (steal_from_first (local_of s3 j) s3 hd j k x m' Hw ltac:(lia) ltac:(lia) Hne Hemp Hlen
                ltac:(rewrite (inv_cap _ _ _ HI); exact Hcap)) as (s4' & hd2' & mm & Hs' & Hp & Hi); [|exact Ep|].
    + intros k' r' Hin. apply pm_sorted_in_find; [apply local_of_sorted, Hw | exact Hin].
    + rewrite Hs in Hs'. injection Hs' as <- <-. eauto 8.
  - apply pm_pop_none in Ep. rewrite (steal_from_empty _ _ _ _ Ep) in Hs. discriminate.
Qed.

Lemma steal_victim_none n cap s3 hd j :
  Inv n cap s3 -> (h_ix hd < n)%nat -> (j < n)%nat -> h_len hd = 0 -> 1 <= cap ->
  pm_items (local_of s3 (h_ix hd)) = [] ->
  steal_from (local_of s3 j) s3 hd j = None -> pm_items (local_of s3 j) = [].
Proof.
  intros HI Hown Hj Hlen Hcap Hemp Hs.
  pose proof (inv_nloc _ _ _ HI) as Hnl. pose proof (inv_wf _ _ _ HI) as Hw.
  destruct (pm_pop (local_of s3 j)) as [[[k x] m']|] eqn:Ep; [|apply pm_pop_none, Ep].
  destruct (Nat.eq_dec j (h_ix hd)) as [->|Hne]; [exact Hemp|].
  destruct (steal_from_first (local_of s3 j) s3 hd j k x m' Hw ltac:(lia) ltac:(lia) Hne Hemp Hlen
              ltac:(rewrite (inv_cap _ _ _ HI); exact Hcap)) as (s4' & hd2' & mm & Hs' & Hp & Hi); [|exact Ep|].
  - intros k' r' Hin. apply pm_sorted_in_find; [apply local_of_sorted, Hw | exact Hin].
  - congruence.
Qed.

(** everything the oracle-level proofs need to know about one [lpop] *)
Record lpop_facts (n : nat) (cap : Z) (s : sys) (h : nat) (hd0 : handle) (s' : sys) (r : obs) : Prop := {
  lf_inv : Inv n cap s';
  lf_item : exists ox, r = OItem ox /\
      (forall z, tot z s = (cnt z (olist ox) + tot z s')%nat) /\
      (forall x, ox = Some x ->
         pm_head (s_shq s) = Some x \/ exists j, (j < n)%nat /\ pm_head (local_of s j) = Some x) /\
      (ox = None -> all_items s = []);
  lf_ticks : map h_tick (s_handles s') = set_nth h (fst (tick (h_tick hd0))) (map h_tick (s_handles s));
  lf_window : pm_items (s_shq s) <> [] -> fst (tick (h_tick hd0)) mod 61 = 0 ->
      exists x, r = OItem (Some x) /\ pm_head (s_shq s) = Some x
}.

Lemma map_set_nth {A B} (f : A -> B) i x l : map f (set_nth i x l) = set_nth i (f x) (map f l).
Proof.
  revert l; induction i as [|i IH]; intros [|a l]; try reflexivity.
  rewrite !set_nth_S. cbn [map]. rewrite set_nth_S, IH. reflexivity.
Qed.

Lemma set_nth_set_nth {A} i (a b : A) l : set_nth i a (set_nth i b l) = set_nth i a l.
Proof.
  revert l; induction i as [|i IH]; intros [|x l]; try reflexivity.
  rewrite !set_nth_S, IH. reflexivity.
Qed.

Lemma set_nth_same {A} i (x : A) l : nth_error l i = Some x -> set_nth i x l = l.
Proof.
  revert l; induction i as [|i IH]; intros [|a l]; cbn [nth_error]; try discriminate.
  - intro H. injection H as ->. reflexivity.
  - intro H. rewrite set_nth_S, IH by exact H. reflexivity.
Qed.

Lemma ticks_upd_handle s h hd :
  map h_tick (s_handles (upd_handle s h hd)) = set_nth h (h_tick hd) (map h_tick (s_handles s)).
Proof. rewrite s_handles_upd_handle. apply map_set_nth. Qed.

Lemma lpop_spec n cap s h start hd0 :
  Inv n cap s -> nth_error (s_handles s) h = Some hd0 ->
  lpop_facts n cap s h hd0 (fst (lpop s h start)) (snd (lpop s h start)).
Proof.
  intros HI Hn.
  pose proof (Inv_hd _ _ _ _ _ HI Hn) as [Hix Hlen].
  pose proof (Inv_lpop_hd _ _ _ _ _ HI Hn) as [HA H3].
  pose proof (inv_nloc _ _ _ HI) as Hnl.
  set (hdA := lpop_hd hd0) in *. set (sA := upd_handle s h hdA) in *.
  set (s3 := upd_handle sA h (zero_hd hdA)) in *.
  assert (h_tick hdA = fst (tick (h_tick hd0))) as HtA by reflexivity.
  assert (h_ix hdA = h_ix hd0) as HiA by reflexivity.
  (* the window fact holds whenever the shared consult cannot have failed *)
  assert (forall (r : obs),
            (h_tick hdA mod 61 <> 0 \/ gpop sA = (sA, None)) ->
            pm_items (s_shq s) <> [] -> fst (tick (h_tick hd0)) mod 61 = 0 ->
            exists x, r = OItem (Some x) /\ pm_head (s_shq s) = Some x) as Hwin.
  { intros r [Hc|Hc] Hne Hm; [congruence|].
    apply (gpop_none_items _ _ (inv_I2 _ _ _ HA)) in Hc. contradiction. }
  destruct (lpop_cases s h start hd0 Hn) as [s1 x Hm Hg | k x m Hc Hp | s4 hd2 s6 hd6 r Hc Hp Hs Hpl | s5 r Hc Hp Hs Hg];
    cbn [fst snd].
  - (* shared *)
    fold hdA sA in Hg, Hm.
    destruct (Inv_gpop _ _ _ _ _ HA Hg) as [HI1 Ht].
    pose proof (gpop_some _ _ _ Hg) as (k & q & Hpp & Hs1).
    constructor.
    + exact HI1.
    + exists (Some x). split; [reflexivity|]. split; [exact Ht|]. split; [|discriminate].
      intros x' Hx. injection Hx as <-. left. eapply pm_pop_head, Hpp.
    + rewrite Hs1, s_handles_upd_shared. unfold sA. rewrite ticks_upd_handle. reflexivity.
    + intros _ _. exists x. split; [reflexivity|]. eapply pm_pop_head, Hpp.
  - (* own *)
    fold hdA sA in Hc |- *.
    destruct (Inv_pop_local_some n cap sA h hdA k x m HA ltac:(split; assumption) Hp) as [HI2 Ht].
    constructor.
    + exact HI2.
    + exists (Some x). split; [reflexivity|]. split; [|split; [|discriminate]].
      * intro z. cbn [olist]. rewrite cnt_cons, cnt_nil, Nat.add_0_r. exact (Ht z).
      * intros x' Hx. injection Hx as <-. right. exists (h_ix hd0). split; [exact Hix|].
        eapply pm_pop_head, Hp.
    + rewrite ticks_upd_handle, s_handles_upd_local. unfold sA. rewrite ticks_upd_handle, set_nth_set_nth.
      reflexivity.
    + apply Hwin, Hc.
  - (* steal *)
    fold hdA sA s3 in Hc, Hs |- *.
    apply steal_scan_some in Hs as (j & Hin & Hsf & Hhalf).
    assert (j < n)%nat as Hj.
    { pose proof (scan_order_lt (length (s_locals s)) start) as HF. rewrite Forall_forall in HF.
      rewrite <- Hnl. apply HF, Hin. }
    assert (1 <= cap) as Hcap.
    { cbn [zero_hd h_len] in Hhalf. rewrite (inv_cap _ _ _ H3) in Hhalf.
      destruct (Z_le_gt_dec cap 0) as [Hle|Hgt]; [|lia].
      pose proof (half_cap_nonpos _ Hle). lia. }
    assert (pm_items (local_of s3 (h_ix (zero_hd hdA))) = []) as Hemp by (apply pm_pop_none, Hp).
    destruct (steal_victim n cap s3 (zero_hd hdA) j s4 hd2 H3 Hix Hj eq_refl Hcap Hemp Hsf)
      as (k & x & m' & mm & Hpj & Hp4 & Hi2).
    pose proof (inv_wf _ _ _ H3) as Hw3.
    destruct (steal_from_moves (local_of s3 j) s3 (zero_hd hdA) j s4 hd2 Hw3 ltac:(rewrite (inv_nloc _ _ _ H3); exact Hix)
                ltac:(rewrite (inv_nloc _ _ _ H3); exact Hj) Hsf) as (Hmv & _ & Hl2 & Ht2).
    assert (hd_ok n hd2) as Hok2.
    { split; [rewrite Hi2; exact Hix | cbn [zero_hd h_len] in Hl2; lia]. }
    assert (Inv n cap (upd_handle s4 h hd2)) as HI5.
    { apply Inv_upd_handle; [eapply Inv_moves; eassumption | exact Hok2]. }
    rewrite (pop_local_some (upd_handle s4 h hd2) h hd2 k x mm Hp4) in Hpl. injection Hpl as <- _ <-.
    destruct (Inv_pop_local_some n cap (upd_handle s4 h hd2) h hd2 k x mm HI5 Hok2 Hp4) as [HI6 Ht6].
    constructor.
    + exact HI6.
    + exists (Some x). split; [reflexivity|]. split; [|split; [|discriminate]].
      * intro z. cbn [olist]. rewrite cnt_cons, cnt_nil, Nat.add_0_r, <- (Ht6 z), tot_upd_handle, (moves_tot _ _ z Hmv).
        reflexivity.
      * intros x' Hx. injection Hx as <-. right. exists j. split; [exact Hj|].
        eapply pm_pop_head, Hpj.
    + rewrite ticks_upd_handle, s_handles_upd_local, ticks_upd_handle, (mv_handles _ _ Hmv).
      unfold s3, sA. rewrite !ticks_upd_handle, !set_nth_set_nth.
      cbn [pop_hd h_tick]. rewrite Ht2. reflexivity.
    + apply Hwin, Hc.
  - (* fallback *)
    fold hdA sA s3 in Hc, Hs, Hg |- *.
    destruct (Inv_gpop _ _ _ _ _ H3 Hg) as [HI5 Ht].
    constructor.
    + exact HI5.
    + exists r. split; [reflexivity|]. split; [exact Ht|]. split.
      * intros x Hx. subst r. left. apply gpop_some in Hg as (k & q & Hpp & _).
        eapply pm_pop_head, Hpp.
      * intros ->.
        pose proof (gpop_none_items _ _ (inv_I2 _ _ _ H3) Hg) as Hsh.
        assert (pm_items (local_of s (h_ix hd0)) = []) as Hemp by (apply pm_pop_none, Hp).
        assert (all_local_items s = []) as Hloc.
        { destruct (Z_le_gt_dec cap 0) as [Hle|Hgt]; [apply (inv_cap0 _ _ _ HI), Hle|].
          apply steal_scan_none in Hs as [Hs|Hs].
          - cbn [zero_hd h_len] in Hs. rewrite (inv_cap _ _ _ H3) in Hs.
            pose proof (half_cap_pos cap ltac:(lia)). lia.
          - apply litems_all_nil. intros j Hj0.
            assert (j < n)%nat as Hj by (rewrite <- Hnl; exact Hj0).
            apply (steal_victim_none n cap s3 (zero_hd hdA) j H3 Hix Hj eq_refl ltac:(lia) Hemp).
            apply Hs. apply scan_order_all. lia. }
        unfold all_items. rewrite Hloc. change (s_shq s) with (s_shq s3). rewrite Hsh. reflexivity.
    + apply gpop_none in Hg as Hs5 || idtac.
      destruct r as [x|].
      * apply gpop_some in Hg as (k & q & _ & ->). autorewrite with sys.
        unfold s3, sA. rewrite !ticks_upd_handle, set_nth_set_nth. reflexivity.
      * apply gpop_none in Hg as ->.
        unfold s3, sA. rewrite !ticks_upd_handle, set_nth_set_nth. reflexivity.
    + apply Hwin, Hc.
Qed.

(** * The whole step *)

Lemma full_len_eq s : I2 s -> full_len s = Z.of_nat (length (all_items s)).
Proof.
  unfold I2, full_len, all_items. intros ->. rewrite app_length.
  assert (fold_right Z.add 0 (map pm_count (s_locals s)) = Z.of_nat (length (all_local_items s))) as ->.
  { unfold all_local_items. induction (s_locals s) as [|m ls IH]; [reflexivity|].
    cbn [map fold_right concat]. rewrite app_length, IH. unfold pm_count. lia. }
  unfold pm_count. lia.
Qed.

Lemma new_handle_spec n cap s :
  Inv n cap s ->
  Inv n cap (fst (new_handle s)) /\ all_items (fst (new_handle s)) = all_items s /\
  s_locals (fst (new_handle s)) = s_locals s /\ s_shq (fst (new_handle s)) = s_shq s /\
  ((n = 0%nat /\ new_handle s = (s, OBad)) \/
   (n <> 0%nat /\ exists ix, (ix < n)%nat /\
      s_handles (fst (new_handle s)) = s_handles s ++ [{| h_ix := ix; h_len := 0; h_tick := 0 |}] /\
      snd (new_handle s) = ONum (Z.of_nat (length (s_handles s))))).
Proof.
  intros HI. pose proof (inv_nloc _ _ _ HI) as Hnl. unfold new_handle. rewrite Hnl.
  destruct n as [|n'].
  - cbn [fst]. split; [exact HI|]. do 3 (split; [reflexivity|]). left. split; reflexivity.
  - cbn [fst snd]. set (ix := Z.to_nat (s_index s mod Z.of_nat (S n'))).
    assert (ix < S n')%nat as Hix.
    { unfold ix. pose proof (Z.mod_pos_bound (s_index s) (Z.of_nat (S n')) ltac:(lia)). lia. }
    split.
    + destruct HI as [c nl i2 w hdf c0]. constructor; cbn [s_cap s_locals s_handles s_shq s_shlen]; try assumption.
      apply Forall_app. split; [exact hdf|]. constructor; [|constructor].
      split; cbn [h_ix h_len]; [exact Hix | lia].
    + do 3 (split; [reflexivity|]). right. split; [lia|]. exists ix.
      split; [exact Hix|]. split; reflexivity.
Qed.

Lemma step_spec n cap s o :
  Inv n cap s ->
  Inv n cap (fst (step s o)) /\
  forall z, (cnt z (pushed_of o (snd (step s o))) + tot z s =
             cnt z (olist (popped_of o (snd (step s o)))) + tot z (fst (step s o)))%nat.
Proof.
  intro HI. destruct o as [p x| | | |h p x|h start|h|h]; cbn [step].
  - cbn [fst snd pushed_of popped_of olist]. split; [apply Inv_gpush, HI|].
    intro z. rewrite tot_gpush, cnt_cons, cnt_nil. lia.
  - destruct (gpop s) as [s' r] eqn:Eg. cbn [fst snd pushed_of].
    destruct (Inv_gpop _ _ _ _ _ HI Eg) as [HI' Ht]. split; [exact HI'|].
    intro z. rewrite (Ht z), cnt_nil. destruct r; reflexivity.
  - cbn [fst snd pushed_of popped_of olist]. split; [exact HI | intro z; lia].
  - destruct (new_handle_spec n cap s HI) as (HI' & Hall & _ & _ & Hcase). split; [exact HI'|].
    intro z. unfold tot. rewrite Hall.
    destruct Hcase as [[_ ->]|(_ & ix & _ & _ & Hobs)]; [|rewrite Hobs]; cbn [snd pushed_of popped_of olist]; lia.
  - destruct (nth_error (s_handles s) h) as [hd|] eqn:Hn.
    + destruct (lpush_spec n cap s h hd p x HI Hn) as (Hr & HI' & Ht).
      split; [exact HI'|]. intro z. rewrite Hr, (Ht z). cbn [pushed_of popped_of olist].
      rewrite cnt_cons, cnt_nil. lia.
    + rewrite (lpush_bad _ _ _ _ Hn). cbn [fst snd pushed_of popped_of olist].
      split; [exact HI | intro z; lia].
  - destruct (nth_error (s_handles s) h) as [hd0|] eqn:Hn.
    + destruct (lpop_spec n cap s h start hd0 HI Hn) as [HI' (ox & Hr & Ht & _) _ _].
      split; [exact HI'|]. intro z. rewrite Hr, (Ht z). cbn [pushed_of popped_of].
      destruct ox; cbn [olist]; rewrite ?cnt_nil; lia.
    + unfold lpop. rewrite Hn. cbn [fst snd pushed_of popped_of olist].
      split; [exact HI | intro z; lia].
  - destruct (nth_error (s_handles s) h); cbn [fst snd pushed_of popped_of olist];
      (split; [exact HI | intro z; lia]).
  - destruct (nth_error (s_handles s) h); cbn [fst snd pushed_of popped_of olist];
      (split; [exact HI | intro z; lia]).
Qed.

Lemma Inv_step n cap s o : Inv n cap s -> Inv n cap (fst (step s o)).
Proof. intro HI. apply (step_spec n cap s o HI). Qed.

(** the popped item is the head of one of the containers *)
Lemma step_container n cap s o x :
  Inv n cap s -> popped_of o (snd (step s o)) = Some x -> container_ok s x = true.
Proof.
  intros HI Hpop.
  assert (pm_head (s_shq s) = Some x \/ exists j, (j < n)%nat /\ pm_head (local_of s j) = Some x) as Hhead.
  { destruct o as [p y| | | |h p y|h start|h|h]; cbn [step] in Hpop.
    - discriminate.
    - destruct (gpop s) as [s' r] eqn:Eg. cbn [snd popped_of] in Hpop. destruct r as [y|]; [|discriminate].
      injection Hpop as ->. left. apply gpop_some in Eg as (k & q & Hp & _). eapply pm_pop_head, Hp.
    - discriminate.
    - destruct (snd (new_handle s)); discriminate.
    - destruct (snd (lpush s h p y)); discriminate.
    - destruct (nth_error (s_handles s) h) as [hd0|] eqn:Hn.
      + destruct (lpop_spec n cap s h start hd0 HI Hn) as [_ (ox & Hr & _ & Hh & _) _ _].
        rewrite Hr in Hpop. cbn [popped_of] in Hpop. destruct ox as [y|]; [|discriminate].
        injection Hpop as ->. apply Hh. reflexivity.
      + unfold lpop in Hpop. rewrite Hn in Hpop. discriminate.
    - destruct (nth_error (s_handles s) h); discriminate.
    - destruct (nth_error (s_handles s) h); discriminate. }
  unfold container_ok. destruct (mem x (all_items s)); [|reflexivity].
  unfold head_is. destruct Hhead as [Hh|(j & Hj & Hh)].
  - rewrite Hh. cbn [option_eqb]. rewrite Z.eqb_refl. reflexivity.
  - apply orb_true_iff. right. apply existsb_exists. exists (local_of s j). split.
    + apply local_of_in. rewrite (inv_nloc _ _ _ HI). exact Hj.
    + rewrite Hh. cbn [option_eqb]. apply Z.eqb_refl.
Qed.

(** ticks of the handles after a step that is not an [LPop] *)
Lemma ticks_lpush n cap s h p x :
  Inv n cap s -> map h_tick (s_handles (fst (lpush s h p x))) = map h_tick (s_handles s).
Proof.
  intro HI. destruct (nth_error (s_handles s) h) as [hd|] eqn:Hn; [|rewrite (lpush_bad _ _ _ _ Hn); reflexivity].
  pose proof (Inv_hd _ _ _ _ _ HI Hn) as [Hix Hlen].
  pose proof (inv_wf _ _ _ HI) as Hw. pose proof (inv_nloc _ _ _ HI) as Hnl.
  assert (nth_error (map h_tick (s_handles s)) h = Some (h_tick hd)) as Hnt by (rewrite nth_error_map, Hn; reflexivity).
  unfold lpush. rewrite Hn.
  destruct (s_cap s <=? h_len hd).
  - destruct (push_to_global_spec s h hd p x Hw ltac:(lia)) as (s1 & hd' & Hm & -> & _ & _ & Ht').
    cbn [fst]. rewrite s_handles_gpush, ticks_upd_handle, (mv_handles _ _ Hm), Ht'. apply set_nth_same, Hnt.
  - destruct (rcap (s_cap s) <=? _).
    + pose proof (moves_ensure s (h_ix hd) p Hw) as Hm0.
      destruct (push_to_global_spec _ h hd p x (mv_wf _ _ Hm0) ltac:(rewrite nloc_upd_local; lia))
        as (s1 & hd' & Hm & -> & _ & _ & Ht').
      cbn [fst]. rewrite s_handles_gpush, ticks_upd_handle, (mv_handles _ _ Hm), Ht'.
      rewrite s_handles_upd_local. apply set_nth_same, Hnt.
    + cbn [fst]. rewrite ticks_upd_handle, s_handles_upd_local. cbn [h_tick]. apply set_nth_same, Hnt.
Qed.

(** the fast path of a local push *)
Lemma lpush_fast s h hd p x :
  nth_error (s_handles s) h = Some hd -> h_len hd < s_cap s ->
  Z.of_nat (length (pm_get p (pm_ensure p (local_of s (h_ix hd))))) < rcap (s_cap s) ->
  lpush s h p x =
  (upd_handle (upd_local s (h_ix hd)
     (pm_set p (pm_get p (pm_ensure p (local_of s (h_ix hd))) ++ [x]) (pm_ensure p (local_of s (h_ix hd)))))
     h {| h_ix := h_ix hd; h_len := h_len hd + 1; h_tick := h_tick hd |}, OUnit).
Proof.
  intros Hn H1 H2. unfold lpush. rewrite Hn.
  assert (s_cap s <=? h_len hd = false) as -> by lia.
  assert (rcap (s_cap s) <=? Z.of_nat (length (pm_get p (pm_ensure p (local_of s (h_ix hd))))) = false) as -> by lia.
  reflexivity.
Qed.
