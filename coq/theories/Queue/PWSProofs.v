(** Theorems about the plain work-steal queue model judged by its own oracle: for every
    well-formed history the three flags (C03, C04, C06) hold, no call diverges, the lockstep
    tracker stays in sync with the model's own run. The tick-window theorem of the ordered queue
    ([OWSProofs.tick_window]) is about the same [tick] function and is reused as is. *)
From OCV Require Import Base.Prelude Queue.PMap Queue.PWS Queue.PWSOracle Queue.PWSLemmas.
From OCV Require Queue.OWS Queue.OWSOracle Queue.OWSProofs.
From OCV Require Import Queue.OWSLemmas.
From Coq Require Import ZifyBool ZifyNat Permutation.
Open Scope Z_scope.

Definition model_judge (n : nat) (cap : Z) (ops : list op) : ostate :=
  fst (judge_all n cap ops (run (init n cap) ops)).

(** * the oracle step split into named components *)

Definition opend1 (st : ostate) (o : op) : list item := pend_push o (o_pend st).

Definition opend2 (st : ostate) (o : op) (io : obs) : list item :=
  match popped_of o io with
  | Some x => match OWSOracle.remove1 x (opend1 st o) with Some r => r | None => opend1 st o end
  | None => opend1 st o
  end.

Definition c03_pop (st : ostate) (o : op) (io : obs) : bool :=
  match popped_of o io with
  | Some x => match OWSOracle.remove1 x (opend1 st o) with Some _ => true | None => false end
  | None => true
  end.

Definition idle_ok (st : ostate) (o : op) (io : obs) : bool :=
  match o, io with
  | LPop _ _, OItem None => is_nil (opend1 st o)
  | _, _ => true
  end.

Definition c03_len (s : sys) (st : ostate) (o : op) (io : obs) : bool :=
  match o, io with
  | GLen, ONum n => if o_sync st then n =? Z.of_nat (length (s_shq s)) else true
  | GEmpty, OBool b => if o_sync st then Bool.eqb b (is_nil (s_shq s)) else true
  | _, _ => true
  end.

Definition starve_c06 (s : sys) (st : ostate) (o : op) (io : obs) : list Z * bool :=
  match o with
  | LPop h _ =>
      if o_sync st then
        if is_nil (s_shq s) then (OWSOracle.set_starve (o_starve st) h 0, true)
        else if match io with OItem (Some x) => OWSOracle.mem x (s_shq s) | _ => false end
             then (OWSOracle.set_starve (o_starve st) h 0, true)
             else let v := OWSOracle.get_starve (o_starve st) h + 1 in
                  (OWSOracle.set_starve (o_starve st) h v, v <? 61)
      else (o_starve st, true)
  | _ => (o_starve st, true)
  end.

Lemma ostep_eq s st o io :
  ostep s st o io =
  (fst (step s o),
   {| o_sync := o_sync st && obs_eqb (snd (step s o)) io;
      o_pend := opend2 st o io;
      o_starve := fst (starve_c06 s st o io);
      o_c03 := o_c03 st && c03_pop st o io && idle_ok st o io && c03_len s st o io;
      o_c04 := o_c04 st && negb (obs_eqb io ODiverged);
      o_c06 := o_c06 st && snd (starve_c06 s st o io) && idle_ok st o io |}).
Proof.
  unfold ostep, opend2, c03_pop, idle_ok, c03_len, starve_c06, opend1.
  destruct (step s o) as [s' mo]. cbn [fst snd].
  destruct (popped_of o io) as [x|].
  - destruct (OWSOracle.remove1 x (pend_push o (o_pend st))) as [r|];
      match goal with |- context [match ?X with pair _ _ => _ end] => destruct X end; reflexivity.
  - match goal with |- context [match ?X with pair _ _ => _ end] => destruct X end; reflexivity.
Qed.

Lemma obs_eqb_refl r : obs_eqb r r = true.
Proof.
  destruct r as [|[x|]|n|b| |]; cbn [obs_eqb option_eqb]; try reflexivity;
    [apply Z.eqb_refl | apply Z.eqb_refl | destruct b; reflexivity].
Qed.

(** the oracle step on the model's own observation *)
Definition mstep (s : sys) (st : ostate) (o : op) : ostate := snd (ostep s st o (snd (step s o))).

Lemma orun_model_cons s st o ops :
  orun s st (o :: ops) (run s (o :: ops)) = orun (fst (step s o)) (mstep s st o) ops (run (fst (step s o)) ops).
Proof.
  rewrite run_cons. cbn [orun]. unfold mstep.
  pose proof (step_never_diverges s o) as Hnd.
  rewrite (ostep_eq s st o (snd (step s o))). cbn [snd].
  destruct (snd (step s o)); try reflexivity. congruence.
Qed.

Lemma orun_model_inv (P : sys -> ostate -> list op -> Prop) :
  (forall s st o ops, P s st (o :: ops) -> P (fst (step s o)) (mstep s st o) ops) ->
  forall ops s st, P s st ops ->
  exists s' st', orun s st ops (run s ops) = (s', st', true) /\ P s' st' [].
Proof.
  intros Hstep ops; induction ops as [|o ops IH]; intros s st HP.
  - exists s, st. split; [reflexivity | exact HP].
  - rewrite orun_model_cons. apply IH, Hstep, HP.
Qed.

Lemma mstep_fields s st o :
  let io := snd (step s o) in
  o_sync (mstep s st o) = o_sync st /\
  o_pend (mstep s st o) = opend2 st o io /\
  o_starve (mstep s st o) = fst (starve_c06 s st o io) /\
  o_c03 (mstep s st o) = o_c03 st && c03_pop st o io && idle_ok st o io && c03_len s st o io /\
  o_c04 (mstep s st o) = o_c04 st /\
  o_c06 (mstep s st o) = o_c06 st && snd (starve_c06 s st o io) && idle_ok st o io.
Proof.
  cbv zeta. unfold mstep. rewrite ostep_eq. cbn [snd o_sync o_pend o_starve o_c03 o_c04 o_c06].
  rewrite obs_eqb_refl, andb_true_r.
  assert (negb (obs_eqb (snd (step s o)) ODiverged) = true) as ->.
  { pose proof (step_never_diverges s o) as H. destruct (snd (step s o)); try reflexivity. congruence. }
  rewrite andb_true_r. repeat split; reflexivity.
Qed.

Lemma judge_inv (P : sys -> ostate -> list op -> Prop) n cap ops :
  (forall s st o ops, P s st (o :: ops) -> P (fst (step s o)) (mstep s st o) ops) ->
  P (init n cap) ostate0 ops ->
  exists s', P s' (model_judge n cap ops) [] /\
             snd (judge_all n cap ops (run (init n cap) ops)) = true.
Proof.
  intros Hstep H0.
  destruct (orun_model_inv P Hstep ops _ _ H0) as (s' & st' & Hrun & HP).
  unfold model_judge, judge_all. rewrite Hrun. cbn [fst snd]. eauto.
Qed.

(** * the tracker never loses the model's own run; no divergence is ever observed *)

Theorem model_sync : forall n cap ops,
  o_sync (model_judge n cap ops) = true /\
  snd (judge_all n cap ops (run (init n cap) ops)) = true.
Proof.
  intros n cap ops.
  destruct (judge_inv (fun _ st _ => o_sync st = true) n cap ops) as (s' & H & Hshape).
  - intros s st o ops' H. destruct (mstep_fields s st o) as (-> & _). exact H.
  - reflexivity.
  - split; assumption.
Qed.

Theorem c04_model : forall n cap ops, o_c04 (model_judge n cap ops) = true.
Proof.
  intros n cap ops.
  destruct (judge_inv (fun _ st _ => o_c04 st = true) n cap ops) as (s' & H & _).
  - intros s st o ops' H. destruct (mstep_fields s st o) as (_ & _ & _ & _ & -> & _). exact H.
  - reflexivity.
  - exact H.
Qed.

(** * premises on histories, checked along the model run *)

Fixpoint hist_ok (chk : sys -> op -> bool) (s : sys) (ops : list op) : bool :=
  match ops with
  | [] => true
  | o :: ops' => chk s o && hist_ok chk (fst (step s o)) ops'
  end.

(** the handle of a local push exists *)
Definition chk_push (s : sys) (o : op) : bool :=
  match o with LPush h _ => Nat.ltb h (length (s_handles s)) | _ => true end.
(** the handle of a local pop exists *)
Definition chk_pop (s : sys) (o : op) : bool :=
  match o with LPop h _ => Nat.ltb h (length (s_handles s)) | _ => true end.

Lemma hist_ok_cons chk s o ops :
  hist_ok chk s (o :: ops) = true -> chk s o = true /\ hist_ok chk (fst (step s o)) ops = true.
Proof. cbn [hist_ok]. intro H. apply andb_true_iff in H. exact H. Qed.

(** * history-level pending list *)

Lemma cnt_pend_push z o l : cnt z (pend_push o l) = (cnt z (pushed_raw o) + cnt z l)%nat.
Proof. destruct o; cbn [pend_push pushed_raw]; rewrite ?cnt_app, ?cnt_cons, ?cnt_nil; lia. Qed.

Lemma remove1_some x l :
  In x l -> exists r, OWSOracle.remove1 x l = Some r /\ (forall z, cnt z l = (one z x + cnt z r)%nat).
Proof.
  induction l as [|y l IH]; cbn [In OWSOracle.remove1]; [tauto|].
  intro Hin. destruct (x =? y) eqn:E.
  - assert (x = y) by lia. subst y. exists l. split; [reflexivity|]. intro z. apply cnt_cons.
  - destruct Hin as [Hin|Hin]; [lia|]. destruct (IH Hin) as (r & -> & Hc).
    exists (y :: r). split; [reflexivity|]. intro z. rewrite !cnt_cons, (Hc z). lia.
Qed.

Lemma chk_push_handle s h x : chk_push s (LPush h x) = true -> exists hd, nth_error (s_handles s) h = Some hd.
Proof.
  cbn [chk_push]. intro H. destruct (nth_error (s_handles s) h) as [hd|] eqn:E; [eauto|].
  apply nth_error_None in E. lia.
Qed.

Lemma pushed_of_ok n s o :
  Inv n s -> chk_push s o = true -> pushed_of o (snd (step s o)) = pushed_raw o.
Proof.
  intros HI Hc. destruct o as [x| | | | |h x|h start|h|h|h]; cbn [pushed_raw]; try reflexivity;
    try (unfold pushed_of; destruct (snd (step s _)); reflexivity).
  destruct (chk_push_handle _ _ _ Hc) as [hd Hn]. cbn [step].
  destruct (lpush_spec n s h hd x HI Hn) as (-> & _). reflexivity.
Qed.

(** * the core invariant: tracker in sync, state invariant, pending list = queue contents *)

Record Core (n : nat) (s : sys) (st : ostate) : Prop := {
  co_inv : Inv n s;
  co_sync : o_sync st = true;
  co_pend : forall z, cnt z (o_pend st) = tot z s
}.

Lemma Core_init n cap : Core n (init n cap) ostate0.
Proof.
  constructor; [apply Inv_init | reflexivity |].
  intro z. unfold tot. rewrite all_items_init. reflexivity.
Qed.

Lemma core_step n s st o :
  Core n s st -> chk_push s o = true ->
  Core n (fst (step s o)) (mstep s st o) /\
  c03_pop st o (snd (step s o)) = true /\
  idle_ok st o (snd (step s o)) = true /\
  c03_len s st o (snd (step s o)) = true.
Proof.
  intros [HI Hsync Hpend] Hchk.
  destruct (step_spec n s o HI) as [HI' Ht].
  rewrite (pushed_of_ok n s o HI Hchk) in Ht.
  destruct (mstep_fields s st o) as (Hf1 & Hf2 & _).
  assert (forall z, cnt z (opend1 st o) = (cnt z (pushed_raw o) + tot z s)%nat) as Hp1.
  { intro z. unfold opend1. rewrite cnt_pend_push, Hpend. reflexivity. }
  assert ((forall z, cnt z (opend2 st o (snd (step s o))) = tot z (fst (step s o))) /\
          c03_pop st o (snd (step s o)) = true) as [Hp2 Hc03].
  { unfold opend2, c03_pop. destruct (popped_of o (snd (step s o))) as [x|] eqn:Epop.
    - cbn [olist_of] in Ht.
      assert (In x (opend1 st o)) as Hin.
      { apply cnt_In. rewrite Hp1. specialize (Ht x). rewrite cnt_cons, one_same in Ht. lia. }
      destruct (remove1_some x _ Hin) as (r & -> & Hc). split; [|reflexivity].
      intro z. specialize (Ht z). specialize (Hc z). rewrite Hp1 in Hc.
      rewrite cnt_cons, cnt_nil in Ht. lia.
    - split; [|reflexivity]. intro z. specialize (Ht z). cbn [olist_of] in Ht. rewrite cnt_nil in Ht.
      rewrite Hp1. lia. }
  split; [constructor; [exact HI' | rewrite Hf1; exact Hsync | rewrite Hf2; exact Hp2]|].
  split; [exact Hc03|]. split.
  - (* idle *)
    unfold idle_ok. destruct o as [x| | | | |h x|h start|h|h|h]; try reflexivity.
    cbn [step]. destruct (snd (lpop s h start)) as [|[y|]|v|b| |] eqn:Er; try reflexivity.
    destruct (nth_error (s_handles s) h) as [hd0|] eqn:Hn.
    + destruct (lpop_spec n s h start hd0 HI Hn) as [_ (ox & Hr & _ & Hnone) _ _].
      rewrite Er in Hr. injection Hr as <-. specialize (Hnone eq_refl).
      assert (o_pend st = []) as Hnil.
      { apply cnt_all0_nil. intro z. rewrite Hpend. unfold tot. rewrite Hnone. reflexivity. }
      unfold opend1. cbn [pend_push]. rewrite Hnil. reflexivity.
    + rewrite (lpop_bad s h start Hn) in Er. discriminate.
  - (* lengths *)
    unfold c03_len. rewrite Hsync. pose proof (inv_len _ _ HI) as H2.
    destruct o as [x| | | | |h x|h start|h|h|h]; cbn [step snd]; try reflexivity.
    + lia.
    + destruct (s_shq s); cbn [length is_nil] in *; [assert (s_shlen s =? 0 = true) as -> by lia
                                                    | assert (s_shlen s =? 0 = false) as -> by lia]; reflexivity.
Qed.

(** * C03 *)

Theorem c03_model_min : forall n cap ops,
  hist_ok chk_push (init n cap) ops = true -> o_c03 (model_judge n cap ops) = true.
Proof.
  intros n cap ops Hok.
  destruct (judge_inv (fun s st ops => Core n s st /\ o_c03 st = true /\ hist_ok chk_push s ops = true)
              n cap ops) as (s' & (_ & H & _) & _).
  - intros s st o ops' (HC & H03 & Hh). apply hist_ok_cons in Hh as [Hchk Hh].
    destruct (core_step n s st o HC Hchk) as (HC' & Ha & Hb & Hc).
    split; [exact HC'|]. split; [|exact Hh].
    destruct (mstep_fields s st o) as (_ & _ & _ & -> & _).
    rewrite H03, Ha, Hb, Hc. reflexivity.
  - split; [apply Core_init|]. split; [reflexivity | exact Hok].
  - exact H.
Qed.

(** * C06 *)

Definition bound (s : sys) (h : nat) : Z :=
  match nth_error (map h_tick (s_handles s)) h with Some t => t mod 61 | None => 0 end.

Definition Win (s : sys) (st : ostate) : Prop :=
  forall h, OWSOracle.get_starve (o_starve st) h <= bound s h.

Lemma ticks_step_other n s o :
  Inv n s -> (forall h st, o <> LPop h st) ->
  map h_tick (s_handles (fst (step s o))) = map h_tick (s_handles s) \/
  map h_tick (s_handles (fst (step s o))) = map h_tick (s_handles s) ++ [0].
Proof.
  intros HI Hnp. destruct o as [x| | | | |h x|h start|h|h|h]; cbn [step].
  - left. reflexivity.
  - left. rewrite (gpop_eq n s HI). destruct (gpop'_spec n s HI) as (_ & _ & G3 & _).
    destruct (gpop' s) as [s' r]; cbn [fst] in *. rewrite (sl_handles _ _ G3). reflexivity.
  - left. reflexivity.
  - left. reflexivity.
  - destruct (new_handle_spec n s HI) as (_ & _ & _ & [(_ & -> & _)|(_ & ix & ->)]); [left; reflexivity|].
    right. rewrite map_app. reflexivity.
  - left. destruct (nth_error (s_handles s) h) as [hd|] eqn:Hn.
    + destruct (lpush_spec n s h hd x HI Hn) as (_ & _ & _ & ->). reflexivity.
    + rewrite (lpush_bad s h x Hn). reflexivity.
  - exfalso. eapply Hnp. reflexivity.
  - left. rewrite with_handle_fst. reflexivity.
  - left. rewrite with_handle_fst. reflexivity.
  - left. rewrite with_handle_fst. reflexivity.
Qed.

Lemma bound_step_other n s o h' :
  Inv n s -> (forall h st, o <> LPop h st) -> bound (fst (step s o)) h' = bound s h'.
Proof.
  intros HI Hnp. unfold bound. destruct (ticks_step_other n s o HI Hnp) as [-> | ->]; [reflexivity|].
  destruct (lt_dec h' (length (map h_tick (s_handles s)))) as [Hlt|Hge].
  - rewrite nth_error_app1 by exact Hlt. reflexivity.
  - rewrite nth_error_app2 by lia.
    assert (nth_error (map h_tick (s_handles s)) h' = None) as -> by (apply nth_error_None; lia).
    destruct (h' - length (map h_tick (s_handles s)))%nat as [|[|k]]; reflexivity.
Qed.

Lemma win_step n s st o :
  Core n s st -> Win s st -> chk_pop s o = true ->
  Win (fst (step s o)) (mstep s st o) /\ snd (starve_c06 s st o (snd (step s o))) = true.
Proof.
  intros [HI Hsync Hpend] HW Hchk.
  destruct (mstep_fields s st o) as (_ & _ & Hst & _).
  unfold Win. rewrite Hst. clear Hst.
  destruct o as [x| | | | |h x|h start|h|h|h];
    try (cbn [starve_c06 fst snd]; split; [|reflexivity]; intro h';
         rewrite (bound_step_other n s _ h' HI) by (intros; discriminate); apply HW).
  cbn [chk_pop] in Hchk.
  destruct (nth_error (s_handles s) h) as [hd0|] eqn:Hn; [|apply nth_error_None in Hn; lia].
  cbn [step]. destruct (lpop_spec n s h start hd0 HI Hn) as [_ _ Hticks Hwin].
  assert (nth_error (map h_tick (s_handles s)) h = Some (h_tick hd0)) as Hnt by (rewrite nth_error_map, Hn; reflexivity).
  assert (forall h', bound (fst (lpop s h start)) h' =
                     if Nat.eqb h' h then fst (OWS.tick (h_tick hd0)) mod 61 else bound s h') as Hb.
  { intro h'. unfold bound. rewrite Hticks. destruct (Nat.eqb h' h) eqn:E.
    - apply Nat.eqb_eq in E. subst h'. rewrite nth_error_set_nth_eq; [reflexivity|].
      apply nth_error_lt in Hnt. exact Hnt.
    - apply Nat.eqb_neq in E. rewrite nth_error_set_nth_neq by congruence. reflexivity. }
  pose proof (Z.mod_pos_bound (fst (OWS.tick (h_tick hd0))) 61 ltac:(lia)) as Hmb.
  assert (forall v, v <= fst (OWS.tick (h_tick hd0)) mod 61 ->
            forall h', OWSOracle.get_starve (OWSOracle.set_starve (o_starve st) h v) h' <= bound (fst (lpop s h start)) h') as Hset.
  { intros v Hv h'. rewrite OWSProofs.get_set_starve, Hb. destruct (Nat.eqb h' h); [lia | apply HW]. }
  unfold starve_c06. rewrite Hsync.
  destruct (is_nil (s_shq s)) eqn:Enil; [cbn [fst snd]; split; [apply Hset; lia | reflexivity]|].
  destruct (match snd (lpop s h start) with OItem (Some x) => OWSOracle.mem x (s_shq s) | _ => false end) eqn:Emem;
    [cbn [fst snd]; split; [apply Hset; lia | reflexivity]|].
  assert (fst (OWS.tick (h_tick hd0)) mod 61 <> 0) as Hne.
  { intro Hz. destruct Hwin as (x & Hr & Hh); [destruct (s_shq s); discriminate | exact Hz|].
    rewrite Hr in Emem.
    assert (OWSOracle.mem x (s_shq s) = true).
    { apply mem_In. destruct (s_shq s) as [|y q]; [discriminate|]. cbn [hd_error] in Hh. injection Hh as ->. left. reflexivity. }
    congruence. }
  pose proof (OWSProofs.tick_mod _ Hne) as Htm.
  pose proof (HW h) as HWh. unfold bound in HWh. rewrite Hnt in HWh.
  cbv zeta. cbn [fst snd]. split; [apply Hset; lia | lia].
Qed.

Theorem c06_model_min : forall n cap ops,
  hist_ok chk_push (init n cap) ops = true -> hist_ok chk_pop (init n cap) ops = true ->
  o_c06 (model_judge n cap ops) = true.
Proof.
  intros n cap ops Hok1 Hok2.
  destruct (judge_inv (fun s st ops => Core n s st /\ Win s st /\ o_c06 st = true /\
                         hist_ok chk_push s ops = true /\ hist_ok chk_pop s ops = true)
              n cap ops) as (s' & (_ & _ & H & _) & _).
  - intros s st o ops' (HC & HW & H06 & Hh1 & Hh2).
    apply hist_ok_cons in Hh1 as [Hchk1 Hh1]. apply hist_ok_cons in Hh2 as [Hchk2 Hh2].
    destruct (core_step n s st o HC Hchk1) as (HC' & _ & Hb & _).
    destruct (win_step n s st o HC HW Hchk2) as [HW' Hw].
    split; [exact HC'|]. split; [exact HW'|]. split; [|split; assumption].
    destruct (mstep_fields s st o) as (_ & _ & _ & _ & _ & ->).
    rewrite H06, Hw, Hb. reflexivity.
  - split; [apply Core_init|]. split; [|split; [reflexivity | split; assumption]].
    intro h. unfold bound. cbn. destruct h; cbn; lia.
  - exact H.
Qed.

(** * well-formed histories ([wf_hist] is defined next to the oracle, Queue/PWSOracle.v) *)

Lemma handles_len_step n s o :
  Inv n s -> length (s_handles (fst (step s o))) = nh_next n (length (s_handles s)) o.
Proof.
  intro HI. destruct o as [x| | | | |h x|h start|h|h|h]; cbn [nh_next step].
  - reflexivity.
  - rewrite (gpop_eq n s HI). destruct (gpop'_spec n s HI) as (_ & _ & G3 & _).
    destruct (gpop' s) as [s' r]; cbn [fst] in *. rewrite (sl_handles _ _ G3). reflexivity.
  - reflexivity.
  - reflexivity.
  - destruct (new_handle_spec n s HI) as (_ & _ & _ & [(-> & -> & _)|(Hn & ix & ->)]); [reflexivity|].
    rewrite app_length. cbn [length]. destruct n; [congruence | lia].
  - destruct (nth_error (s_handles s) h) as [hd|] eqn:Hn.
    + destruct (lpush_spec n s h hd x HI Hn) as (_ & _ & _ & ->). reflexivity.
    + rewrite (lpush_bad s h x Hn). reflexivity.
  - destruct (nth_error (s_handles s) h) as [hd0|] eqn:Hn.
    + destruct (lpop_spec n s h start hd0 HI Hn) as [_ _ Hticks _].
      rewrite <- (map_length h_tick), Hticks, set_nth_length, map_length. reflexivity.
    + rewrite (lpop_bad s h start Hn). reflexivity.
  - rewrite with_handle_fst. reflexivity.
  - rewrite with_handle_fst. reflexivity.
  - rewrite with_handle_fst. reflexivity.
Qed.

Lemma op_wf_chk s nh seen o :
  length (s_handles s) = nh -> op_wf nh seen o = true -> chk_push s o = true /\ chk_pop s o = true.
Proof.
  intros Hnh Hwf. destruct o as [x| | | | |h x|h start|h|h|h]; cbn [op_wf chk_push chk_pop] in *; subst nh;
    repeat split; auto.
  apply andb_true_iff in Hwf. tauto.
Qed.

Lemma wf_ops_ok n : forall ops s nh seen,
  Inv n s -> length (s_handles s) = nh -> wf_ops n nh seen ops = true ->
  hist_ok chk_push s ops = true /\ hist_ok chk_pop s ops = true.
Proof.
  induction ops as [|o ops IH]; intros s nh seen HI Hnh Hwf; [split; reflexivity|].
  cbn [wf_ops] in Hwf. apply andb_true_iff in Hwf as [Hop Hrest].
  destruct (op_wf_chk s nh seen o Hnh Hop) as (H1 & H2).
  destruct (IH (fst (step s o)) (nh_next n nh o) (pushed_raw o ++ seen)) as (I1 & I2); try assumption.
  - apply Inv_step, HI.
  - rewrite (handles_len_step n s o HI), Hnh. reflexivity.
  - cbn [hist_ok]. rewrite H1, H2, I1, I2. split; reflexivity.
Qed.

Lemma wf_hist_ok n cap ops :
  wf_hist n cap ops = true ->
  hist_ok chk_push (init n cap) ops = true /\ hist_ok chk_pop (init n cap) ops = true.
Proof. intro H. apply (wf_ops_ok n ops (init n cap) 0%nat []); [apply Inv_init | reflexivity | exact H]. Qed.

(** * the three flags under [wf_hist] *)

Theorem c03_model : forall n cap ops,
  wf_hist n cap ops = true -> o_c03 (model_judge n cap ops) = true.
Proof. intros n cap ops H. apply c03_model_min, (wf_hist_ok n cap ops H). Qed.

Theorem c06_model : forall n cap ops,
  wf_hist n cap ops = true -> o_c06 (model_judge n cap ops) = true.
Proof. intros n cap ops H. apply c06_model_min; apply (wf_hist_ok n cap ops H). Qed.

Theorem model_all : forall n cap ops,
  wf_hist n cap ops = true ->
  let st := model_judge n cap ops in
  o_sync st = true /\ o_c03 st = true /\ o_c04 st = true /\ o_c06 st = true.
Proof.
  intros n cap ops H. cbv zeta. destruct (wf_hist_ok n cap ops H) as (H1 & H2).
  split; [apply model_sync|]. split; [apply c03_model_min, H1|]. split; [apply c04_model|].
  apply c06_model_min; assumption.
Qed.

(** the premise cannot be dropped: the history-level oracle counts calls that the code (and the
    model) refuse because the handle does not exist *)
Theorem c03_model_wf_needed : ~ (forall n cap ops, o_c03 (model_judge n cap ops) = true).
Proof.
  intro H. specialize (H 1%nat 4 [NewHandle; LPush 7 1; LPop 0 0%nat]).
  vm_compute in H. discriminate.
Qed.

Theorem c06_model_wf_needed : ~ (forall n cap ops, o_c06 (model_judge n cap ops) = true).
Proof.
  intro H. specialize (H 1%nat 4 (GPush 1 :: repeat (LPop 0 0%nat) 61)).
  vm_compute in H. discriminate.
Qed.

(** * the same facts stated on states, without the oracle *)

Fixpoint final (s : sys) (ops : list op) : sys :=
  match ops with [] => s | o :: ops' => final (fst (step s o)) ops' end.
(** items accepted by the queue / items returned by pops along the model run *)
Fixpoint pushed_all (s : sys) (ops : list op) : list item :=
  match ops with [] => [] | o :: ops' => pushed_of o (snd (step s o)) ++ pushed_all (fst (step s o)) ops' end.
Fixpoint popped_all (s : sys) (ops : list op) : list item :=
  match ops with
  | [] => []
  | o :: ops' => olist_of (popped_of o (snd (step s o))) ++ popped_all (fst (step s o)) ops'
  end.

Definition reachable (n : nat) (cap : Z) (s : sys) : Prop := exists ops, s = final (init n cap) ops.

Lemma Inv_final n : forall ops s, Inv n s -> Inv n (final s ops).
Proof. induction ops as [|o ops IH]; intros s HI; [exact HI | apply IH, Inv_step, HI]. Qed.

Lemma reachable_Inv n cap s : reachable n cap s -> Inv n s.
Proof. intros [ops ->]. apply Inv_final, Inv_init. Qed.

Lemma conservation_from n : forall ops s, Inv n s -> forall z,
  (cnt z (popped_all s ops) + tot z (final s ops) = cnt z (pushed_all s ops) + tot z s)%nat.
Proof.
  induction ops as [|o ops IH]; intros s HI z; [reflexivity|].
  cbn [popped_all pushed_all final]. rewrite !cnt_app.
  destruct (step_spec n s o HI) as [HI' Ht]. specialize (IH _ HI' z). specialize (Ht z). lia.
Qed.

(** everything pushed is either popped or still held: nothing lost, nothing invented *)
Theorem conservation : forall n cap ops,
  Permutation (pushed_all (init n cap) ops)
              (popped_all (init n cap) ops ++ all_items (final (init n cap) ops)).
Proof.
  intros n cap ops. apply cnt_perm. intro z. rewrite cnt_app.
  pose proof (conservation_from n ops (init n cap) (Inv_init n cap) z) as H.
  unfold tot in H at 2. rewrite all_items_init, cnt_nil in H. unfold tot in H. lia.
Qed.

(** distinct pushed ids: no item is popped twice, and no popped item is still held *)
Theorem at_most_once : forall n cap ops,
  NoDup (pushed_all (init n cap) ops) ->
  NoDup (popped_all (init n cap) ops ++ all_items (final (init n cap) ops)).
Proof. intros n cap ops H. eapply Permutation_NoDup; [apply conservation | exact H]. Qed.

(** an idle local pop on a reachable state means the shared queue and every ring are empty *)
Theorem idle_pop_means_empty : forall n cap s h start,
  reachable n cap s -> snd (lpop s h start) = OItem None -> all_items s = [].
Proof.
  intros n cap s h start Hr Hp. pose proof (reachable_Inv _ _ _ Hr) as HI.
  destruct (nth_error (s_handles s) h) as [hd0|] eqn:Hn.
  - destruct (lpop_spec n s h start hd0 HI Hn) as [_ (ox & Hres & _ & Hnone) _ _].
    rewrite Hp in Hres. injection Hres as <-. apply Hnone. reflexivity.
  - rewrite (lpop_bad s h start Hn) in Hp. discriminate.
Qed.

(** the shared counter is exact on every reachable state *)
Theorem shared_len_exact : forall n cap s,
  reachable n cap s -> s_shlen s = Z.of_nat (length (s_shq s)).
Proof. intros n cap s Hr. apply (reachable_Inv _ _ _ Hr). Qed.

(** a pop whose tick is a multiple of 61 returns the head of a non-empty shared queue, whatever
    the handle's own ring holds *)
Theorem tick_pop_serves_shared : forall n cap s h start hd x q,
  reachable n cap s -> nth_error (s_handles s) h = Some hd -> s_shq s = x :: q ->
  fst (OWS.tick (h_tick hd)) mod 61 = 0 -> snd (lpop s h start) = OItem (Some x).
Proof.
  intros n cap s h start hd x q Hr Hn Hq Hz. pose proof (reachable_Inv _ _ _ Hr) as HI.
  destruct (lpop_spec n s h start hd HI Hn) as [_ _ _ Hwin].
  destruct Hwin as (y & Hres & Hh); [rewrite Hq; discriminate | exact Hz|].
  rewrite Hq in Hh. cbn [hd_error] in Hh. injection Hh as ->. exact Hres.
Qed.

Print Assumptions step_never_diverges.
Print Assumptions run_never_diverges.
Print Assumptions model_sync.
Print Assumptions c04_model.
Print Assumptions c03_model.
Print Assumptions c06_model.
Print Assumptions model_all.
Print Assumptions conservation.
Print Assumptions idle_pop_means_empty.
Print Assumptions tick_pop_serves_shared.
