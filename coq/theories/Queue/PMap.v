(** Priority maps as the queue code uses [crossbeam_skiplist::SkipMap<c_longlong, _>]: a list of
    (key, FIFO list) sorted by strictly ascending key; [get_or_insert_with] adds an empty entry
    and entries are never removed. A FIFO list is oldest-first. *)
From OCV Require Import Base.Prelude.
Open Scope Z_scope.

Definition item := Z.
Definition ring := list item.
Definition pmap := list (Z * ring).

(** ensure key [k] is present (with an empty ring if new) *)
Fixpoint pm_ensure (k : Z) (m : pmap) : pmap :=
  match m with
  | [] => [(k, [])]
  | (k', r) :: m' =>
      if k <? k' then (k, []) :: m
      else if k =? k' then m
      else (k', r) :: pm_ensure k m'
  end.

Fixpoint pm_find (k : Z) (m : pmap) : option ring :=
  match m with
  | [] => None
  | (k', r) :: m' => if k =? k' then Some r else pm_find k m'
  end.

Definition pm_get (k : Z) (m : pmap) : ring :=
  match pm_find k m with Some r => r | None => [] end.

(** replace the ring under an existing key *)
Fixpoint pm_set (k : Z) (r : ring) (m : pmap) : pmap :=
  match m with
  | [] => []
  | (k', r') :: m' => if k =? k' then (k', r) :: m' else (k', r') :: pm_set k r m'
  end.

(** append [x] to the ring under [k] (creating the entry) *)
Definition pm_push (k : Z) (x : item) (m : pmap) : pmap :=
  let m1 := pm_ensure k m in pm_set k (pm_get k m1 ++ [x]) m1.

(** pop the oldest item of the first non-empty ring in ascending key order *)
Fixpoint pm_pop (m : pmap) : option (Z * item * pmap) :=
  match m with
  | [] => None
  | (k, []) :: m' =>
      match pm_pop m' with
      | Some (k', x, m'') => Some (k', x, (k, []) :: m'')
      | None => None
      end
  | (k, x :: r) :: m' => Some (k, x, (k, r) :: m')
  end.

(** first non-empty entry in ascending key order *)
Fixpoint pm_first (m : pmap) : option (Z * ring) :=
  match m with
  | [] => None
  | (k, []) :: m' => pm_first m'
  | (k, r) :: _ => Some (k, r)
  end.

Definition pm_items (m : pmap) : list item := concat (map snd m).
Definition pm_count (m : pmap) : Z := Z.of_nat (length (pm_items m)).
Definition pm_keys (m : pmap) : list Z := map fst m.
Definition pm_all_empty (m : pmap) : bool := forallb (fun e => match snd e with [] => true | _ => false end) m.

(** head of the map in pop order, without removing it *)
Definition pm_head (m : pmap) : option item :=
  match pm_pop m with Some (_, x, _) => Some x | None => None end.

Fixpoint sortedZ (l : list Z) : bool :=
  match l with
  | [] => true
  | [_] => true
  | a :: ((b :: _) as l') => (a <? b) && sortedZ l'
  end.
Definition pm_wf (m : pmap) : bool := sortedZ (pm_keys m).

(** smallest power of two >= max n 1 : [usize::next_power_of_two] *)
Definition next_pow2 (n : Z) : Z := 2 ^ Z.log2_up (Z.max n 1).
