(** Properties C03–C06 as executable oracles over an observed sequential history of the ordered
    queue. The model ([OWS.step]) is advanced in lockstep only as a container tracker: clauses
    that need to know which container holds what are evaluated while the observed results still
    agree with the tracker ("in sync"); history-only clauses are evaluated throughout. *)
From OCV Require Import Base.Prelude Queue.PMap Queue.OWS.
Open Scope Z_scope.

Fixpoint remove1 (x : item) (l : list item) : option (list item) :=
  match l with
  | [] => None
  | y :: l' => if x =? y then Some l'
               else match remove1 x l' with Some r => Some (y :: r) | None => None end
  end.

Fixpoint mem (x : item) (l : list item) : bool :=
  match l with [] => false | y :: l' => (x =? y) || mem x l' end.

(** pending work as the history tells it: (priority, item) in push order *)
Definition pend := list (Z * item).

Fixpoint pend_remove (x : item) (l : pend) : option pend :=
  match l with
  | [] => None
  | (p, y) :: l' => if x =? y then Some l'
                    else match pend_remove x l' with Some r => Some ((p, y) :: r) | None => None end
  end.

(** first element of minimal priority *)
Fixpoint stable_min (l : pend) : option (Z * item) :=
  match l with
  | [] => None
  | (p, x) :: l' =>
      match stable_min l' with
      | Some (q, y) => if q <? p then Some (q, y) else Some (p, x)
      | None => Some (p, x)
      end
  end.

Definition all_local_items (s : sys) : list item := List.concat (map pm_items (s_locals s)).
Definition all_items (s : sys) : list item := pm_items (s_shq s) ++ all_local_items s.

Definition head_is (m : pmap) (x : item) : bool := option_eqb Z.eqb (pm_head m) (Some x).

(** if [x] is held by some container of [s], it is the (priority, arrival) minimum — the item
    [pm_pop] would return — of one of them (the shared queue or some handle's rings). With the
    distinct item ids the harness uses this says: [x] is the minimum of the container holding it. *)
Definition container_ok (s : sys) (x : item) : bool :=
  if mem x (all_items s)
  then head_is (s_shq s) x || existsb (fun m => head_is m x) (s_locals s)
  else true.

Record ostate := {
  o_sync : bool;          (* observations so far agree with the tracker *)
  o_pend : pend;          (* history-level pending items *)
  o_single : bool;        (* premise of the single-worker clause still holds *)
  o_starve : list Z;      (* per handle: consecutive pops not served from a non-empty shared queue *)
  o_c03 : bool; o_c04 : bool; o_c05 : bool; o_c06 : bool
}.

Definition ostate0 : ostate :=
  {| o_sync := true; o_pend := []; o_single := true; o_starve := [];
     o_c03 := true; o_c04 := true; o_c05 := true; o_c06 := true |}.

Definition get_starve (l : list Z) (h : nat) : Z := nth h l 0.
Fixpoint set_starve (l : list Z) (h : nat) (v : Z) : list Z :=
  match h, l with
  | O, [] => [v]
  | O, _ :: t => v :: t
  | S h', [] => 0 :: set_starve [] h' v
  | S h', a :: t => a :: set_starve t h' v
  end.

Definition is_nil {A} (l : list A) : bool := match l with [] => true | _ => false end.

(** the item an observed pop returned, if any *)
Definition popped_of (o : op) (io : obs) : option item :=
  match o, io with
  | GPop, OItem (Some x) => Some x
  | LPop _ _, OItem (Some x) => Some x
  | _, _ => None
  end.

Definition pend_push (o : op) (l : pend) : pend :=
  match o with
  | GPush p x => l ++ [(p, x)]
  | LPush _ p x => l ++ [(p, x)]
  | _ => l
  end.

(** single-worker premise: one handle, no shared pushes, never more than [cap] queued *)
Definition single_step (s : sys) (st : ostate) (o : op) : bool :=
  o_single st &&
  match o with
  | GPush _ _ => false
  | GPop => false
  | NewHandle => Nat.eqb (length (s_handles s)) 0
  | LPush h _ _ => Nat.eqb h 0 && (Z.of_nat (length (o_pend st)) <? s_cap s)
  | LPop h _ => Nat.eqb h 0
  | _ => true
  end.

(** one observed step. Clauses:
    C03  a pop returns only an item that is pending (never lost, never twice); an idle local pop
         ([None]) means nothing at all is pending, so draining returns exactly what was pending;
         the shared length and the full length are exact.
    C04  no call diverges.
    C05  a popped item is the (priority, arrival) minimum of a container that holds it; with one
         worker and at most [cap] queued, it is the stable minimum of everything pending.
    C06  with the shared queue non-empty, a handle is served from it within 61 consecutive pops;
         an idle pop means nothing is pending anywhere. *)
Definition ostep (s : sys) (st : ostate) (o : op) (io : obs) : sys * ostate :=
  let '(s', mo) := step s o in
  let sync' := o_sync st && obs_eqb mo io in
  let c04 := negb (obs_eqb io ODiverged) in
  let popped := popped_of o io in
  let pend1 := pend_push o (o_pend st) in
  let '(pend2, c03_pop) :=
    match popped with
    | Some x => match pend_remove x pend1 with
                | Some r => (r, true)
                | None => (pend1, false)
                end
    | None => (pend1, true)
    end in
  let idle_ok :=
    match o, io with
    | LPop _ _, OItem None => is_nil pend1
    | _, _ => true
    end in
  let c03_len :=
    match o, io with
    | GLen, ONum n => if o_sync st then n =? pm_count (s_shq s) else true
    | FullLen _, ONum n => if o_sync st then n =? Z.of_nat (length (all_items s)) else true
    | _, _ => true
    end in
  let single' := single_step s st o in
  let c05_single :=
    match o, io with
    | LPop _ _, OItem r =>
        if single' then option_eqb Z.eqb r (option_map snd (stable_min (o_pend st))) else true
    | _, _ => true
    end in
  let c05_container :=
    match popped with
    | Some x => if o_sync st then container_ok s x else true
    | None => true
    end in
  let '(starve', c06_win) :=
    match o with
    | LPop h _ =>
        if o_sync st then
          if is_nil (pm_items (s_shq s)) then (set_starve (o_starve st) h 0, true)
          else if match io with OItem (Some x) => mem x (pm_items (s_shq s)) | _ => false end
               then (set_starve (o_starve st) h 0, true)
               else let v := get_starve (o_starve st) h + 1 in
                    (set_starve (o_starve st) h v, v <? 61)
        else (o_starve st, true)
    | _ => (o_starve st, true)
    end in
  (s', {| o_sync := sync'; o_pend := pend2; o_single := single'; o_starve := starve';
          o_c03 := o_c03 st && c03_pop && idle_ok && c03_len;
          o_c04 := o_c04 st && c04;
          o_c05 := o_c05 st && c05_single && c05_container;
          o_c06 := o_c06 st && c06_win && idle_ok |}).

Fixpoint orun (s : sys) (st : ostate) (ops : list op) (impl : list obs) : sys * ostate * bool :=
  match ops, impl with
  | [], [] => (s, st, true)
  | o :: ops', io :: impl' =>
      let '(s', st') := ostep s st o io in
      match io with
      | ODiverged => (s', st', is_nil impl')
      | _ => orun s' st' ops' impl'
      end
  | _, _ => (s, st, false)      (* observation list of the wrong length *)
  end.

(** verdict for a whole observed history; the flag says whether the observation list had the
    right shape (one observation per op, nothing after a divergence) *)
Definition judge_all (n : nat) (cap : Z) (ops : list op) (impl : list obs) : ostate * bool :=
  let '(_, st, shape) := orun (init n cap) ostate0 ops impl in (st, shape).

(** * Model branch coverage of a history (statistics only) *)
Definition tag_overflow := 0%nat. Definition tag_steal := 1%nat. Definition tag_tick := 2%nat.
Definition tag_idle := 3%nat. Definition tag_sharedpop := 5%nat.
Definition add_tag (t : nat) (l : list nat) : list nat := if existsb (Nat.eqb t) l then l else t :: l.

Definition step_tags (s : sys) (o : op) (t0 : list nat) : list nat :=
  let '(s', mo) := step s o in
  match o with
  | LPush _ _ _ => if s_shlen s <? s_shlen s' then add_tag tag_overflow t0 else t0
  | LPop h _ =>
      let t := match nth_error (s_handles s') h with
               | Some hd => if h_tick hd mod 61 =? 0 then add_tag tag_tick t0 else t0
               | None => t0 end in
      let t := match mo with OItem None => add_tag tag_idle t | _ => t end in
      let t := if s_shlen s' <? s_shlen s then add_tag tag_sharedpop t else t in
      let own := match nth_error (s_handles s') h with Some hd => h_ix hd | None => O end in
      if existsb (fun jab => negb (Nat.eqb (fst jab) own)
                             && negb (pm_count (fst (snd jab)) =? pm_count (snd (snd jab))))
                 (combine (seq 0 (length (s_locals s))) (combine (s_locals s) (s_locals s')))
      then add_tag tag_steal t else t
  | _ => t0
  end.

Fixpoint run_tags (s : sys) (ops : list op) (t : list nat) : list nat :=
  match ops with
  | [] => t
  | o :: ops' =>
      let '(s', r) := step s o in
      match r with ODiverged => t | _ => run_tags s' ops' (step_tags s o t) end
  end.
