(** Small-step concurrent model of the SHARED queue of both work-steal queues
    ([WorkStealQueue::push/pop], [OrderedWorkStealQueue::push_with_priority/pop]): any number of
    threads, one step per access to shared memory (the points of the harness shim): the atomic
    counter ([fetch_add], [load], [fetch_sub]) and the injector calls ([push], [steal]).
    The plain queue is the special case in which every priority is 0 (one injector). *)
From OCV Require Import Base.Prelude Queue.PMap.
Open Scope Z_scope.

Inductive call := CPush (p : Z) (x : item) | CPop.

Inductive pc :=
| Idle                              (* between calls *)
| PushIns (p : Z) (x : item)        (* counted (fetch_add done), about to push into the injector *)
| PopScan (last : option Z)         (* len was non-zero; next: steal from the first injector with key > last *)
| PopDec (x : item).                (* stole x, about to fetch_sub *)

Record thread := { t_pc : pc; t_prog : list call; t_res : list (option item) }.

Record cst := {
  c_shq : pmap;
  c_len : Z;
  c_thr : list thread;
  c_inserted : list item      (* ghost: items whose injector push has happened, in order *)
}.

Definition mk_cst (progs : list (list call)) : cst :=
  {| c_shq := []; c_len := 0;
     c_thr := map (fun p => {| t_pc := Idle; t_prog := p; t_res := [] |}) progs;
     c_inserted := [] |}.

Definition set_nth {A} (n : nat) (x : A) (l : list A) : list A :=
  firstn n l ++ match skipn n l with [] => [] | _ :: t => x :: t end.

(** first entry with key greater than [last] *)
Fixpoint next_entry (last : option Z) (m : pmap) : option (Z * ring) :=
  match m with
  | [] => None
  | (k, r) :: m' =>
      match last with
      | Some l => if l <? k then Some (k, r) else next_entry last m'
      | None => Some (k, r)
      end
  end.

Definition finished (t : thread) : bool :=
  match t_pc t, t_prog t with Idle, [] => true | _, _ => false end.

(** one step of thread [i]; a finished or unknown thread does not move *)
Definition cstep (s : cst) (i : nat) : cst :=
  match nth_error (c_thr s) i with
  | None => s
  | Some t =>
      let upd (t' : thread) (q : pmap) (n : Z) (ins : list item) :=
        {| c_shq := q; c_len := n; c_thr := set_nth i t' (c_thr s); c_inserted := ins |} in
      match t_pc t with
      | Idle =>
          match t_prog t with
          | [] => s
          | CPush p x :: rest =>
              (* fetch_add(1) *)
              upd {| t_pc := PushIns p x; t_prog := rest; t_res := t_res t |} (c_shq s) (c_len s + 1) (c_inserted s)
          | CPop :: rest =>
              (* is_empty(): load *)
              if c_len s =? 0
              then upd {| t_pc := Idle; t_prog := rest; t_res := t_res t ++ [None] |} (c_shq s) (c_len s) (c_inserted s)
              else upd {| t_pc := PopScan None; t_prog := rest; t_res := t_res t |} (c_shq s) (c_len s) (c_inserted s)
          end
      | PushIns p x =>
          upd {| t_pc := Idle; t_prog := t_prog t; t_res := t_res t |} (pm_push p x (c_shq s)) (c_len s) (c_inserted s ++ [x])
      | PopScan last =>
          match next_entry last (c_shq s) with
          | None => upd {| t_pc := Idle; t_prog := t_prog t; t_res := t_res t ++ [None] |} (c_shq s) (c_len s) (c_inserted s)
          | Some (k, []) => upd {| t_pc := PopScan (Some k); t_prog := t_prog t; t_res := t_res t |} (c_shq s) (c_len s) (c_inserted s)
          | Some (k, x :: r) =>
              upd {| t_pc := PopDec x; t_prog := t_prog t; t_res := t_res t |} (pm_set k r (c_shq s)) (c_len s) (c_inserted s)
          end
      | PopDec x =>
          (* fetch_sub(1) *)
          upd {| t_pc := Idle; t_prog := t_prog t; t_res := t_res t ++ [Some x] |} (c_shq s) (c_len s - 1) (c_inserted s)
      end
  end.

Definition crun (s : cst) (sched : list nat) : cst := fold_left cstep sched s.

Definition quiescent (s : cst) : bool := forallb finished (c_thr s).

(** what an execution is observed to produce: per-thread results, the reported length, and
    what a sequential drain then returns *)
Fixpoint drain (fuel : nat) (q : pmap) : list item :=
  match fuel with
  | O => []
  | S f => match pm_pop q with Some (_, x, q') => x :: drain f q' | None => [] end
  end.

Record outcome := { o_res : list (list (option item)); o_len : Z; o_drained : list item }.

(** the real drain goes through [pop], whose fast path stops at [len = 0] *)
Definition observe (s : cst) : outcome :=
  {| o_res := map t_res (c_thr s); o_len := c_len s;
     o_drained := drain (Z.to_nat (Z.max (c_len s) 0)) (c_shq s) |}.

(** all executions, depth first over the enabled threads (exhaustive: every step strictly
    consumes one of finitely many remaining points) *)
Definition enabled (s : cst) : list nat :=
  filter (fun i => match nth_error (c_thr s) i with Some t => negb (finished t) | None => false end)
         (seq 0 (length (c_thr s))).

Fixpoint all_outcomes (fuel : nat) (s : cst) : list outcome :=
  match fuel with
  | O => []
  | S f =>
      match enabled s with
      | [] => [observe s]
      | en => flat_map (fun i => all_outcomes f (cstep s i)) en
      end
  end.

(** points a program can still take: push = 2, pop <= 2 + number of priorities pushed *)
Definition prog_points (nkeys : nat) (p : list call) : nat :=
  fold_right Nat.add O (map (fun c => match c with CPush _ _ => 2 | CPop => 3 + nkeys end)%nat p).

(** the property, per outcome: nothing lost, nothing twice, length exact *)
Fixpoint count_occ_z (x : item) (l : list item) : nat :=
  match l with [] => O | y :: r => (if x =? y then 1 else 0) + count_occ_z x r end.

Definition somes (l : list (option item)) : list item :=
  flat_map (fun o => match o with Some x => [x] | None => [] end) l.

Definition outcome_ok (pushed : list item) (o : outcome) : bool :=
  let got := flat_map somes (o_res o) ++ o_drained o in
  forallb (fun x => Nat.eqb (count_occ_z x got) (count_occ_z x pushed)) (pushed ++ got)
  && (o_len o =? Z.of_nat (length (o_drained o))).

Definition pushed_of (progs : list (list call)) : list item :=
  flat_map (fun p => flat_map (fun c => match c with CPush _ x => [x] | CPop => [] end) p) progs.
