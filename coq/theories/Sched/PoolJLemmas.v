(** Small facts used by the step lemmas of the simulation invariant. *)
From OCV Require Import Base.Prelude Misc.Time Queue.PMap Queue.OWS Queue.OWSOracle Queue.OWSLemmas Queue.OWSModel.
From OCV Require Import Coroutine.Co Coroutine.CoLemmas Sched.Sched Sched.Pool Sched.PoolOracle Sched.PoolBase Sched.PoolWf Sched.PoolQ Sched.PoolJ.
From Coq Require Import ZifyBool ZifyNat.
Open Scope Z_scope.

(** * live workers *)
Lemma nlive_nonneg ws : 0 <= nlive ws.
Proof. unfold nlive. lia. Qed.

Lemma nlive_app ws ws' : nlive (ws ++ ws') = nlive ws + nlive ws'.
Proof. unfold nlive. rewrite filter_app, app_length. lia. Qed.

Lemma nlive_cons k ws : nlive (k :: ws) = (if live k then 1 else 0) + nlive ws.
Proof. unfold nlive. cbn [filter]. destruct (live k); cbn [length]; lia. Qed.

Lemma nlive_set_nth ws w k k' :
  nth_error ws w = Some k ->
  nlive (set_nth w k' ws) = nlive ws - (if live k then 1 else 0) + (if live k' then 1 else 0).
Proof.
  revert w. induction ws as [|a ws IH]; intros [|w]; cbn [nth_error]; try discriminate.
  - intro H. injection H as ->. rewrite set_nth_cons_0, !nlive_cons. lia.
  - intro H. rewrite set_nth_cons_S, !nlive_cons, (IH _ H). lia.
Qed.

Lemma nlive_pos ws w k : nth_error ws w = Some k -> live k = true -> 1 <= nlive ws.
Proof.
  revert w. induction ws as [|a ws IH]; intros [|w]; cbn [nth_error]; try discriminate.
  - intros H Hl. injection H as ->. rewrite nlive_cons, Hl. pose proof (nlive_nonneg ws). lia.
  - intros H Hl. rewrite nlive_cons. specialize (IH _ H Hl). destruct (live a); lia.
Qed.

Lemma nlive_zero ws w k : nlive ws = 0 -> nth_error ws w = Some k -> live k = false.
Proof.
  intros H0 Hn. destruct (live k) eqn:E; [|reflexivity]. pose proof (nlive_pos _ _ _ Hn E). lia.
Qed.

(** * the suspend heaps *)
Lemma hpc_nil w : hpc [] w = 0%nat.
Proof. reflexivity. Qed.

Lemma hpc_cons ts i l w : hpc ((ts, i) :: l) w = ((if Nat.eq_dec i w then 1 else 0) + hpc l w)%nat.
Proof. unfold hpc. cbn [map snd count_occ]. destruct (Nat.eq_dec i w); lia. Qed.

Lemma hpc_app l1 l2 w : hpc (l1 ++ l2) w = (hpc l1 w + hpc l2 w)%nat.
Proof. unfold hpc. rewrite map_app, count_occ_app. reflexivity. Qed.

Lemma hpc_snoc l ts i w : hpc (l ++ [(ts, i)]) w = (hpc l w + (if Nat.eq_dec i w then 1 else 0))%nat.
Proof. rewrite hpc_app, hpc_cons, hpc_nil. lia. Qed.

Lemma hpc_In l ts w : In (ts, w) l -> (1 <= hpc l w)%nat.
Proof.
  intro H. unfold hpc. assert (In w (map snd l)) as Hin by (apply in_map_iff; exists (ts, w); auto).
  apply (count_occ_In Nat.eq_dec) in Hin. lia.
Qed.

Lemma hpc_zero_notin l ts w : hpc l w = 0%nat -> ~ In (ts, w) l.
Proof. intros H Hin. apply hpc_In in Hin. lia. Qed.

Lemma hpc_one_unique l w a b : hpc l w = 1%nat -> In (a, w) l -> In (b, w) l -> a = b.
Proof.
  induction l as [|[t i] l IH]; cbn [In]; [tauto|]. rewrite hpc_cons.
  intros H [Ha|Ha] [Hb|Hb].
  - congruence.
  - injection Ha as -> ->. apply hpc_In in Hb. destruct (Nat.eq_dec w w); lia.
  - injection Hb as -> ->. apply hpc_In in Ha. destruct (Nat.eq_dec w w); lia.
  - destruct (Nat.eq_dec i w); [apply hpc_In in Ha; lia|]. apply IH; assumption.
Qed.

Lemma heap_min_In l e : heap_min l = Some e -> In e l.
Proof.
  revert e. induction l as [|[t i] l IH]; intros e; cbn [heap_min]; [discriminate|].
  destruct (heap_min l) as [[t' i']|].
  - destruct (t' <? t); intro H; injection H as <-; [right; apply IH; reflexivity | left; reflexivity].
  - intro H. injection H as <-. left. reflexivity.
Qed.

Lemma heap_min_le l t i : heap_min l = Some (t, i) -> forall t' i', In (t', i') l -> t <= t'.
Proof.
  revert t i. induction l as [|[a j] l IH]; intros t i; cbn [heap_min]; [discriminate|].
  destruct (heap_min l) as [[t0 i0]|] eqn:E.
  - destruct (t0 <? a) eqn:E2; intro H; injection H as <- <-; intros t' i' [Hin|Hin].
    + injection Hin as <- <-. lia.
    + eapply (IH _ _ eq_refl); eauto.
    + injection Hin as <- <-. lia.
    + specialize (IH _ _ eq_refl _ _ Hin). lia.
  - intro H. injection H as <- <-. intros t' i' [Hin|Hin]; [injection Hin as <- <-; lia|].
    destruct l as [|[b k] l]; [destruct Hin|]. cbn [heap_min] in E. destruct (heap_min l) as [[? ?]|]; [destruct (_ <? _)|]; discriminate.
Qed.

Lemma heap_min_None l : heap_min l = None -> l = [].
Proof.
  destruct l as [|[a j] l]; [reflexivity|]. cbn [heap_min]. destruct (heap_min l) as [[? ?]|]; [destruct (_ <? _)|]; discriminate.
Qed.

Lemma hpc_heap_remove l ts i w : In (ts, i) l ->
  (hpc (heap_remove (ts, i) l) w + (if Nat.eq_dec i w then 1 else 0) = hpc l w)%nat.
Proof.
  induction l as [|[t j] l IH]; cbn [In heap_remove fst snd]; [tauto|].
  intros [H|H].
  - injection H as -> ->. rewrite Z.eqb_refl, Nat.eqb_refl. cbn [andb]. rewrite hpc_cons. lia.
  - destruct ((t =? ts) && Nat.eqb j i) eqn:E.
    + apply andb_true_iff in E as [E1 E2]. apply Nat.eqb_eq in E2. subst. rewrite hpc_cons. lia.
    + rewrite !hpc_cons. specialize (IH H). lia.
Qed.

Lemma heap_remove_In l e e' : In e' (heap_remove e l) -> In e' l.
Proof.
  induction l as [|[t j] l IH]; cbn [heap_remove]; [tauto|].
  destruct ((t =? fst e) && Nat.eqb j (snd e)); cbn [In]; tauto.
Qed.

Lemma heap_remove_In_other l ts i ts' i' : i <> i' -> In (ts', i') l -> In (ts', i') (heap_remove (ts, i) l).
Proof.
  intro Hne. induction l as [|[t j] l IH]; cbn [heap_remove In fst snd]; [tauto|].
  destruct ((t =? ts) && Nat.eqb j i) eqn:E.
  - apply andb_true_iff in E as [_ E2]. apply Nat.eqb_eq in E2. subst.
    intros [H|H]; [injection H as _ <-; congruence | exact H].
  - cbn [In]. tauto.
Qed.

Lemma heap_remove_length l e : In e l -> length l = S (length (heap_remove e l)).
Proof.
  destruct e as [ts i]. induction l as [|[t j] l IH]; cbn [In heap_remove fst snd]; [tauto|].
  intros [H|H].
  - injection H as -> ->. rewrite Z.eqb_refl, Nat.eqb_refl. reflexivity.
  - destruct ((t =? ts) && Nat.eqb j i); [reflexivity|]. cbn [length]. rewrite (IH H). reflexivity.
Qed.

(** * the task tracker *)
Lemma tkn_set_same tk i k : (i < length tk)%nat -> tkn (set_nth i k tk) i = k.
Proof. intro H. unfold tkn. apply nth_set_nth_same, H. Qed.

Lemma tkn_set_other tk i j k : i <> j -> tkn (set_nth i k tk) j = tkn tk j.
Proof. intro H. unfold tkn. apply nth_set_nth_other. congruence. Qed.

Lemma tkn_snoc_old tk k i : (i < length tk)%nat -> tkn (tk ++ [k]) i = tkn tk i.
Proof. intro H. unfold tkn. apply app_nth1, H. Qed.

Lemma tkn_snoc_new tk k : tkn (tk ++ [k]) (length tk) = k.
Proof. unfold tkn. rewrite app_nth2 by lia. rewrite Nat.sub_diag. reflexivity. Qed.

Lemma tkn_out tk i : (length tk <= i)%nat -> tkn tk i = ttrk0 0 false.
Proof. intro H. unfold tkn. apply nth_overflow, H. Qed.

(** * worker states *)
Lemma wst_set_same ws w k : (w < length ws)%nat -> wst (set_nth w k ws) w = k_st k.
Proof. intro H. unfold wst. rewrite nth_error_set_nth_same by exact H. reflexivity. Qed.

Lemma wst_set_other ws w k w' : w <> w' -> wst (set_nth w k ws) w' = wst ws w'.
Proof. intro H. unfold wst. rewrite nth_error_set_nth_other by congruence. reflexivity. Qed.

Lemma wst_app_old ws ws' w : (w < length ws)%nat -> wst (ws ++ ws') w = wst ws w.
Proof. intro H. unfold wst. rewrite nth_error_app1 by exact H. reflexivity. Qed.

Lemma is_hole_none w : is_hole None w = false.
Proof. reflexivity. Qed.

Lemma is_hole_some_eq v w : is_hole (Some v) w = true <-> v = w.
Proof. cbn [is_hole]. apply Nat.eqb_eq. Qed.

Lemma nth_error_snoc_old {A} (l : list A) a i x : nth_error l i = Some x -> nth_error (l ++ [a]) i = Some x.
Proof. intro H. rewrite nth_error_app1; [exact H | eapply nth_error_Some_lt, H]. Qed.

Lemma nth_error_snoc_cases {A} (l : list A) a i x :
  nth_error (l ++ [a]) i = Some x -> nth_error l i = Some x \/ (i = length l /\ x = a).
Proof.
  intro H. destruct (lt_dec i (length l)) as [Hlt|Hge].
  - rewrite nth_error_app1 in H by exact Hlt. left. exact H.
  - rewrite nth_error_app2 in H by lia. destruct (i - length l)%nat as [|n] eqn:E.
    + cbn in H. injection H as <-. right. split; [lia | reflexivity].
    + cbn in H. destruct n; discriminate.
Qed.

(** * sat arithmetic *)
Lemma sat_add64_mono a d : a <= U64MAX -> 0 <= d -> a <= sat_add64 a d /\ sat_add64 a d <= U64MAX.
Proof. unfold sat_add64. lia. Qed.

Lemma sat_add64_le a b d : a <= b -> sat_add64 a d <= sat_add64 b d.
Proof. unfold sat_add64. lia. Qed.

(** * projections of the tracker updates *)
Lemma po_tasks_flag t n b : po_tasks (flag t n b) = po_tasks t. Proof. reflexivity. Qed.
Lemma po_pools_flag t n b : po_pools (flag t n b) = po_pools t. Proof. reflexivity. Qed.
Lemma po_workers_flag t n b : po_workers (flag t n b) = po_workers t. Proof. reflexivity. Qed.
Lemma po_clock_flag t n b : po_clock (flag t n b) = po_clock t. Proof. reflexivity. Qed.
Lemma po_tasks_sett t i k : po_tasks (sett t i k) = set_nth i k (po_tasks t). Proof. reflexivity. Qed.
Lemma po_pools_sett t i k : po_pools (sett t i k) = po_pools t. Proof. reflexivity. Qed.
Lemma po_workers_sett t i k : po_workers (sett t i k) = po_workers t. Proof. reflexivity. Qed.
Lemma po_clock_sett t i k : po_clock (sett t i k) = po_clock t. Proof. reflexivity. Qed.
Lemma po_c01_sett t i k : po_c01 (sett t i k) = po_c01 t. Proof. reflexivity. Qed.
Lemma po_c02_sett t i k : po_c02 (sett t i k) = po_c02 t. Proof. reflexivity. Qed.
Lemma po_c11_sett t i k : po_c11 (sett t i k) = po_c11 t. Proof. reflexivity. Qed.
Lemma po_c12_sett t i k : po_c12 (sett t i k) = po_c12 t. Proof. reflexivity. Qed.
Lemma po_c13_sett t i k : po_c13 (sett t i k) = po_c13 t. Proof. reflexivity. Qed.
Lemma po_tasks_setp t i k : po_tasks (setp t i k) = po_tasks t. Proof. reflexivity. Qed.
Lemma po_pools_setp t i k : po_pools (setp t i k) = set_nth i k (po_pools t). Proof. reflexivity. Qed.
Lemma po_workers_setp t i k : po_workers (setp t i k) = po_workers t. Proof. reflexivity. Qed.
Lemma po_clock_setp t i k : po_clock (setp t i k) = po_clock t. Proof. reflexivity. Qed.
Lemma po_c01_setp t i k : po_c01 (setp t i k) = po_c01 t. Proof. reflexivity. Qed.
Lemma po_c02_setp t i k : po_c02 (setp t i k) = po_c02 t. Proof. reflexivity. Qed.
Lemma po_c11_setp t i k : po_c11 (setp t i k) = po_c11 t. Proof. reflexivity. Qed.
Lemma po_c12_setp t i k : po_c12 (setp t i k) = po_c12 t. Proof. reflexivity. Qed.
Lemma po_c13_setp t i k : po_c13 (setp t i k) = po_c13 t. Proof. reflexivity. Qed.
Lemma po_tasks_unquiet t : po_tasks (unquiet t) = po_tasks t. Proof. reflexivity. Qed.
Lemma po_workers_unquiet t : po_workers (unquiet t) = po_workers t. Proof. reflexivity. Qed.
Lemma po_clock_unquiet t : po_clock (unquiet t) = po_clock t. Proof. reflexivity. Qed.
Lemma po_c01_unquiet t : po_c01 (unquiet t) = po_c01 t. Proof. reflexivity. Qed.
Lemma po_c02_unquiet t : po_c02 (unquiet t) = po_c02 t. Proof. reflexivity. Qed.
Lemma po_c11_unquiet t : po_c11 (unquiet t) = po_c11 t. Proof. reflexivity. Qed.
Lemma po_c12_unquiet t : po_c12 (unquiet t) = po_c12 t. Proof. reflexivity. Qed.
Lemma po_c13_unquiet t : po_c13 (unquiet t) = po_c13 t. Proof. reflexivity. Qed.
Lemma po_c01_flag t n b : po_c01 (flag t n b) = if Nat.eqb n 1 then po_c01 t && b else po_c01 t. Proof. reflexivity. Qed.
Lemma po_c02_flag t n b : po_c02 (flag t n b) = if Nat.eqb n 2 then po_c02 t && b else po_c02 t. Proof. reflexivity. Qed.
Lemma po_c11_flag t n b : po_c11 (flag t n b) = if Nat.eqb n 11 then po_c11 t && b else po_c11 t. Proof. reflexivity. Qed.
Lemma po_c12_flag t n b : po_c12 (flag t n b) = if Nat.eqb n 12 then po_c12 t && b else po_c12 t. Proof. reflexivity. Qed.
Lemma po_c13_flag t n b : po_c13 (flag t n b) = if Nat.eqb n 13 then po_c13 t && b else po_c13 t. Proof. reflexivity. Qed.

#[export] Hint Rewrite po_tasks_flag po_pools_flag po_workers_flag po_clock_flag po_tasks_sett po_pools_sett
  po_workers_sett po_clock_sett po_c01_sett po_c02_sett po_c11_sett po_c12_sett po_c13_sett
  po_tasks_setp po_pools_setp po_workers_setp po_clock_setp po_c01_setp po_c02_setp po_c11_setp po_c12_setp po_c13_setp
  po_tasks_unquiet po_workers_unquiet po_clock_unquiet po_c01_unquiet po_c02_unquiet po_c11_unquiet po_c12_unquiet po_c13_unquiet
  po_c01_flag po_c02_flag po_c11_flag po_c12_flag po_c13_flag : potr.

Lemma gett_tkn t i : gett t i = tkn (po_tasks t) i.
Proof. reflexivity. Qed.

Lemma po_pools_unquiet_nth t :
  nth 0 (po_pools (unquiet t)) ptrk0 =
  let k := nth 0 (po_pools t) ptrk0 in
  {| pt_rank := pt_rank k; pt_stop_called := pt_stop_called k; pt_stop_ok := pt_stop_ok k; pt_quiet := false; pt_alive := pt_alive k |}.
Proof.
  cbn [unquiet po_pools]. destruct (po_pools t) as [|k l]; reflexivity.
Qed.

Lemma po_pools_unquiet_len t : length (po_pools (unquiet t)) = length (po_pools t).
Proof. cbn [unquiet po_pools]. apply map_length. Qed.

(** the pool part of the tracker is not touched by events *)
Lemma po_pools_pev t e : po_pools (pev t e) = po_pools t.
Proof.
  destruct e as [l w c old|i b]; cbn [pev].
  - destruct c; reflexivity.
  - destruct b; reflexivity.
Qed.

Lemma po_pools_fold_pev evs t : po_pools (fold_left pev evs t) = po_pools t.
Proof.
  revert t. induction evs as [|e evs IH]; intro t; cbn [fold_left]; [reflexivity|].
  rewrite IH. apply po_pools_pev.
Qed.

Lemma fold_pev_app a b t : fold_left pev (a ++ b) t = fold_left pev b (fold_left pev a t).
Proof. apply fold_left_app. Qed.

(** events that the tracker ignores *)
Lemma pev_yield t i y r : pev t (EB i (BYield y r)) = t. Proof. reflexivity. Qed.
Lemma pev_res t i b : pev t (EB i (BRes b)) = t. Proof. reflexivity. Qed.
Lemma pev_log t i n : pev t (EB i (BLog n)) = t. Proof. reflexivity. Qed.

Lemma tres_eqb_refl r : tres_eqb r r = true.
Proof.
  destruct r as [v|m]; cbn [tres_eqb]; [apply Z.eqb_refl|].
  destruct m as [m| |]; cbn [tmsg_eqb]; try reflexivity. apply msg_eqb_refl.
Qed.

(** * creation times *)
Lemma CR_mono c c' ws : CR c ws -> c <= c' -> CR c' ws.
Proof. intros H Hc w k Hk. specialize (H w k Hk). lia. Qed.

Lemma CR_set c ws w k k' : CR c ws -> nth_error ws w = Some k -> k_create k' <= c -> CR c (set_nth w k' ws).
Proof.
  intros H Hk Hc v kv Hv. destruct (Nat.eq_dec v w) as [->|Hne].
  - rewrite nth_error_set_nth_same in Hv by (eapply nth_error_Some_lt, Hk). injection Hv as <-. exact Hc.
  - rewrite nth_error_set_nth_other in Hv by exact Hne. eapply H, Hv.
Qed.

Lemma CR_set_same c ws w k k' : CR c ws -> nth_error ws w = Some k -> k_create k' = k_create k -> CR c (set_nth w k' ws).
Proof. intros H Hk E. eapply CR_set; [exact H | exact Hk|]. rewrite E. eapply H, Hk. Qed.

Lemma CR_snoc c ws k : CR c ws -> k_create k <= c -> CR c (ws ++ [k]).
Proof.
  intros H Hc v kv Hv. destruct (nth_error_snoc_cases _ _ _ _ Hv) as [Hv'|[_ ->]]; [eapply H, Hv' | exact Hc].
Qed.
