(** Well-formedness of scheduler histories for C10 ([wf_sched]), decidable from the inputs.

    - every submitted body keeps the coroutine API contract ([bwf]): it yields only in state
      Running or inside a syscall parked with [SSuspend], it ends (returns, panics, cancels
      itself) only in state Running, it never reaches the internal [IUnreachable], and the
      ticks it executes do not move the virtual clock backwards;
    - the virtual clock is a u64 and a [Clock] op never moves it backwards. The clock a [Clock]
      op is compared with is the clock of the model run (bodies tick it), which is a function of
      the inputs. *)
From OCV Require Import Base.Prelude Misc.Time Queue.PMap Queue.OWS Coroutine.Co Sched.Sched.
Open Scope Z_scope.

Definition is_running (s : cstate) : bool := match s with Running => true | _ => false end.

(** [bwf s body]: running [body] from state [s] (Running, or a Syscall state) keeps the contract.
    A yield made in [Syscall _ n (SSuspend _)] is resumed in [Syscall _ n STimeout] or
    [Syscall _ n SCallback], which behave alike. *)
Fixpoint bwf (s : cstate) (body : list instr) : bool :=
  match body with
  | [] => is_running s
  | ins :: rest =>
      match ins with
      | ISuspend _ | IDelay _ _ | IUntil _ _ =>
          match s with
          | Running => bwf Running rest
          | Syscall y n (SSuspend _) => bwf (Syscall y n STimeout) rest
          | _ => false
          end
      | ICancel => is_running s
      | ISyscall y n st =>
          match s with
          | Running => bwf (Syscall y n st) rest
          | Syscall _ orig _ => if orig =? n then bwf (Syscall y n st) rest else bwf s rest
          | _ => false
          end
      | IRunning =>
          match s with
          | Running => bwf Running rest
          | Syscall _ _ SExecuting => bwf Running rest
          | Syscall _ _ _ => bwf s rest
          | _ => false
          end
      | ITick d => (0 <=? d) && bwf s rest
      | ILog _ => bwf s rest
      | IReturn _ | IPanic _ => is_running s
      | IUnreachable => false
      end
  end.

Definition wf_op (s : sched) (o : sop) : bool :=
  match o with
  | Submit body _ => bwf Running body
  | Clock c => (w_clock (sc_w s) <=? c) && (c <=? U64MAX)
  | _ => true
  end.

Fixpoint wf_run (s : sched) (ops : list sop) : bool :=
  match ops with
  | [] => true
  | o :: ops' => wf_op s o && wf_run (fst (sstep s o)) ops'
  end.

Definition wf_gen (nl : nat) (clock : Z) (ops : list sop) : bool :=
  (clock <=? U64MAX) && wf_run (sched0 clock nl) ops.

Definition wf_sched (clock : Z) (ops : list sop) : bool := wf_gen 1 clock ops.
