(** The example history of PoolExample satisfies the strongest premise too. *)
From OCV Require Import Base.Prelude Misc.Time Queue.PMap Queue.OWS Coroutine.Co Coroutine.CoOracle Sched.Sched Sched.Pool Sched.PoolOracle.
From OCV Require Import Sched.PoolWf Sched.PoolRun Sched.PoolProofs Sched.PoolTerm Sched.PoolIdleRun Sched.PoolExample.
Open Scope Z_scope.

Example ex_wfc : wf_pool1c 0 ex_cfg ex_ops = true.
Proof. vm_compute. reflexivity. Qed.
