(** The bystander oracle (Sched/PoolBystander.v) against the single-pool model: what its tracker
    knows of which worker carries which task is what the model's workers hold. *)
From OCV Require Import Base.Prelude Misc.Time Queue.PMap Queue.OWS Coroutine.Co Coroutine.CoOracle Coroutine.CoLemmas Sched.Sched Sched.Pool Sched.PoolOracle Sched.PoolBystander.
From OCV Require Import Sched.PoolBase Sched.PoolWf Sched.PoolQ Sched.PoolJ Sched.PoolJLemmas Sched.PoolUnfold Sched.PoolMeasure Sched.PoolJStep.
From Coq Require Import ZifyBool ZifyNat.
Open Scope Z_scope.

Record BI (ws : list worker) (b : bytrk) : Prop := {
  bi_nd : NoDup (map fst (by_carry b));
  bi_hold : forall w i, lookup_nat w (by_carry b) = Some i -> exists k rest, nth_error ws w = Some k /\ k_task k = Some (i, rest);
  bi_ok : by_ok b = true
}.

(** a cancel of a started task was requested through [PCancel] *)
Definition BR (t : potr) (b : bytrk) : Prop :=
  forall i, tt_cancel1 (tkn (po_tasks t) i) = true -> PoolBystander.mem_nat i (by_requested b) = true.

Definition tids_same (ws ws' : list worker) : Prop :=
  forall v k, nth_error ws v = Some k -> exists k', nth_error ws' v = Some k' /\ tid k' = tid k.

Lemma tids_same_refl ws : tids_same ws ws.
Proof. intros v k H. eauto. Qed.

Lemma tids_same_trans a b c : tids_same a b -> tids_same b c -> tids_same a c.
Proof. intros H1 H2 v k Hk. destruct (H1 v k Hk) as (k' & Hk' & E). destruct (H2 v k' Hk') as (k'' & Hk'' & E'). exists k''. split; [exact Hk'' | congruence]. Qed.

Lemma tids_same_app ws l : tids_same ws (ws ++ l).
Proof. intros v k H. exists k. split; [|reflexivity]. rewrite nth_error_app1; [exact H | eapply nth_error_Some_lt, H]. Qed.

Lemma tids_same_set ws w k k' : nth_error ws w = Some k -> tid k' = tid k -> tids_same ws (set_nth w k' ws).
Proof.
  intros Hk Et v kv Hv. destruct (Nat.eq_dec v w) as [->|Hne].
  - rewrite Hk in Hv. injection Hv as <-. exists k'. split; [|exact Et]. apply nth_error_set_nth_same. eapply nth_error_Some_lt, Hk.
  - exists kv. split; [|reflexivity]. rewrite nth_error_set_nth_other by exact Hne. exact Hv.
Qed.

Lemma BI_tids ws ws' b : BI ws b -> tids_same ws ws' -> BI ws' b.
Proof.
  intros [Hnd Hh Hok] Ht. constructor; [exact Hnd | | exact Hok].
  intros w i Hl. destruct (Hh w i Hl) as (k & rest & Hk & Htask). destruct (Ht w k Hk) as (k' & Hk' & E).
  apply tid_some in Htask. rewrite <- E in Htask. apply tid_some_inv in Htask as [rest' Ht']. eauto.
Qed.

(** lookups in filtered association lists with distinct keys *)
Lemma lookup_In (w : nat) (l : list (nat * nat)) i : lookup_nat w l = Some i -> In (w, i) l.
Proof.
  induction l as [|[a c] l IH]; cbn [lookup_nat]; [discriminate|]. destruct (Nat.eqb w a) eqn:E.
  - apply Nat.eqb_eq in E. subst. intro H. injection H as ->. left. reflexivity.
  - intro H. right. apply IH, H.
Qed.

Lemma lookup_NoDup_In (w : nat) (l : list (nat * nat)) i : NoDup (map fst l) -> In (w, i) l -> lookup_nat w l = Some i.
Proof.
  induction l as [|[a c] l IH]; cbn [lookup_nat map fst In]; [tauto|]. intros Hnd [H|H].
  - injection H as -> ->. rewrite Nat.eqb_refl. reflexivity.
  - inversion Hnd as [|? ? Hn Hd]; subst. destruct (Nat.eqb w a) eqn:E.
    + apply Nat.eqb_eq in E. subst. exfalso. apply Hn. apply in_map_iff. exists (a, i). auto.
    + apply IH; assumption.
Qed.

Lemma filter_keys_NoDup (f : nat * nat -> bool) l : NoDup (map fst l) -> NoDup (map fst (filter f l)).
Proof.
  induction l as [|[a c] l IH]; cbn [filter map fst]; [constructor|]. intro H. inversion H as [|? ? Hn Hd]; subst.
  destruct (f (a, c)); [|apply IH, Hd]. cbn [map fst]. constructor; [|apply IH, Hd].
  intro Hin. apply Hn. apply in_map_iff in Hin as (e & Ee & He). apply filter_In in He as [He _]. apply in_map_iff. eauto.
Qed.

Lemma lookup_filter (f : nat * nat -> bool) w l i :
  NoDup (map fst l) -> lookup_nat w (filter f l) = Some i -> lookup_nat w l = Some i /\ f (w, i) = true.
Proof.
  intros Hnd H. apply lookup_In in H. apply filter_In in H as [H1 H2]. split; [apply lookup_NoDup_In; assumption | exact H2].
Qed.

(** * the events *)
Lemma BI_start ws b w k k' i : BI ws b -> nth_error ws w = Some k -> k_task k' = Some (i, nth i [] []) \/ (exists r, k_task k' = Some (i, r)) ->
  BI (set_nth w k' ws) (by_ev b (EB i (BStart (Z.of_nat w)))).
Proof.
  intros [Hnd Hh Hok] Hk Ht. assert (exists r, k_task k' = Some (i, r)) as [r Hr] by (destruct Ht as [H|H]; eauto). clear Ht.
  cbn [by_ev]. rewrite Nat2Z.id. constructor; cbn [by_carry by_ok]; [| |exact Hok].
  - cbn [map fst]. constructor; [|apply filter_keys_NoDup, Hnd].
    intro Hin. apply in_map_iff in Hin as ([a c] & Ea & Hin). cbn [fst] in Ea. subst a. apply filter_In in Hin as [_ Hf]. cbn [fst] in Hf.
    rewrite Nat.eqb_refl in Hf. discriminate.
  - intros v j. cbn [lookup_nat]. destruct (Nat.eqb v w) eqn:E.
    + apply Nat.eqb_eq in E. subst v. intro H. injection H as <-. exists k', r. split; [|exact Hr].
      apply nth_error_set_nth_same. eapply nth_error_Some_lt, Hk.
    + apply Nat.eqb_neq in E. intro H. apply (lookup_filter _ _ _ _ Hnd) in H as [H _]. destruct (Hh v j H) as (kv & rest & Hv & Htv).
      exists kv, rest. split; [|exact Htv]. rewrite nth_error_set_nth_other by exact E. exact Hv.
Qed.

Lemma BI_end ws b w k i rest e :
  BI ws b -> nth_error ws w = Some k -> k_task k = Some (i, rest) ->
  (forall v kv r, v <> w -> nth_error ws v = Some kv -> k_task kv = Some (i, r) -> False) ->
  (exists v, e = EB i (BRet v)) \/ (exists pk, e = EB i (BPanic pk)) ->
  BI (set_nth w (with_task k None) ws) (by_ev b e).
Proof.
  intros [Hnd Hh Hok] Hk Ht Hinj He.
  assert (by_ev b e = {| by_requested := by_requested b; by_self := by_self b;
                         by_carry := filter (fun wt => negb (Nat.eqb (snd wt) i)) (by_carry b); by_ok := by_ok b |}) as ->.
  { destruct He as [[v ->]|[pk ->]]; reflexivity. }
  constructor; cbn [by_carry by_ok]; [apply filter_keys_NoDup, Hnd | | exact Hok].
  intros v j H. apply (lookup_filter _ _ _ _ Hnd) in H as [H Hf]. cbn [snd] in Hf. apply negb_true_iff, Nat.eqb_neq in Hf.
  destruct (Hh v j H) as (kv & r & Hv & Htv). assert (v <> w) as Hne.
  { intros ->. rewrite Hk in Hv. injection Hv as <-. congruence. }
  exists kv, r. split; [|exact Htv]. rewrite nth_error_set_nth_other by exact Hne. exact Hv.
Qed.

Lemma BI_cancelled ws ws' b w l old :
  BI ws b -> tids_same ws ws' ->
  (forall i, lookup_nat w (by_carry b) = Some i -> PoolBystander.mem_nat i (by_requested b) = true) ->
  BI ws' (by_ev b (EL l w (CbChanged Cancelled) old)).
Proof.
  intros HB Ht Hreq. pose proof (BI_tids _ _ _ HB Ht) as [Hnd Hh Hok]. cbn [by_ev].
  destruct (lookup_nat w (by_carry b)) as [i|] eqn:El; [|constructor; assumption].
  constructor; cbn [by_carry by_ok].
  - apply filter_keys_NoDup, Hnd.
  - intros v j H. apply (lookup_filter _ _ _ _ Hnd) in H as [H _]. apply Hh, H.
  - rewrite Hok, (Hreq i eq_refl). reflexivity.
Qed.

(** events the bystander tracker ignores *)
Definition by_inert (e : ev) : Prop := forall b, by_ev b e = b.

Lemma by_inert_EL l w new old : new <> Cancelled -> by_inert (EL l w (CbChanged new) old).
Proof. intros H b. cbn [by_ev]. destruct new; try reflexivity. contradiction. Qed.

Lemma by_inert_res i ok : by_inert (EB i (BRes ok)). Proof. intro b. reflexivity. Qed.
Lemma by_inert_tick i d : by_inert (EB i (BTick d)). Proof. intro b. reflexivity. Qed.
Lemma by_inert_log i n : by_inert (EB i (BLog n)). Proof. intro b. reflexivity. Qed.
Lemma by_inert_yield i y r : r <> RCancel -> by_inert (EB i (BYield y r)).
Proof. intros H b. cbn [by_ev]. destruct r; try reflexivity. contradiction. Qed.

Lemma fold_by_inert evs b : Forall by_inert evs -> fold_left by_ev evs b = b.
Proof. intro H. revert b. induction H as [|e evs He _ IH]; intro b; [reflexivity|]. cbn [fold_left]. rewrite He. apply IH. Qed.

(** the requests survive events *)
Lemma by_requested_ev b e : by_requested (by_ev b e) = by_requested b.
Proof.
  destruct e as [l w c old|i bb]; cbn [by_ev].
  - destruct c as [new| | | | | | |]; try reflexivity. destruct new; try reflexivity. destruct (lookup_nat w (by_carry b)); reflexivity.
  - destruct bb as [p|p|y r|ok|d|n|v|pk]; try reflexivity. destruct r; reflexivity.
Qed.

Lemma by_requested_fold evs b : by_requested (fold_left by_ev evs b) = by_requested b.
Proof. revert b. induction evs as [|e evs IH]; intro b; [reflexivity|]. cbn [fold_left]. rewrite IH. apply by_requested_ev. Qed.

Lemma cancel1_pev t e i : tt_cancel1 (tkn (po_tasks (pev t e)) i) = tt_cancel1 (tkn (po_tasks t) i).
Proof.
  destruct e as [l w c old|j bb]; cbn [pev].
  - destruct c; reflexivity.
  - destruct bb as [p|p|y r|ok|d|n|v|pk]; try reflexivity; autorewrite with potr; rewrite ?gett_tkn;
      (destruct (Nat.eq_dec i j) as [->|Hne];
       [destruct (lt_dec j (length (po_tasks t))) as [Hl|Hg];
        [rewrite tkn_set_same by exact Hl; reflexivity
        |unfold set_nth; rewrite firstn_all2, skipn_all2 by lia; rewrite app_nil_r; reflexivity]
       |rewrite tkn_set_other by congruence; reflexivity]).
Qed.

Lemma cancel1_fold evs t i : tt_cancel1 (tkn (po_tasks (fold_left pev evs t)) i) = tt_cancel1 (tkn (po_tasks t) i).
Proof. revert t. induction evs as [|e evs IH]; intro t; [reflexivity|]. cbn [fold_left]. rewrite IH. apply cancel1_pev. Qed.

Lemma BR_fold t b evs : BR t b -> BR (fold_left pev evs t) (fold_left by_ev evs b).
Proof. intros H i Hc. rewrite cancel1_fold in Hc. rewrite by_requested_fold. apply H, Hc. Qed.

(** * the model's primitives keep the task ids of the workers they do not touch *)
Lemma try_grow_tids x : length (pw_pools x) = 1%nat -> tids_same (pw_workers x) (pw_workers (try_grow x 0)).
Proof.
  intro Hp. destruct (try_grow_cases x Hp) as [[-> _]|(_ & _ & Hg)]; [apply tids_same_refl|].
  rewrite (gr_ws _ _ Hg). apply tids_same_app.
Qed.

Lemma k_change_tids x w new x' e :
  length (pw_pools x) = 1%nat -> pw_cur x = 0%nat -> k_change x w new = (x', e) -> tids_same (pw_workers x) (pw_workers x').
Proof.
  intros Hp Hcur E. unfold k_change in E. destruct (get_worker x w) as [k|] eqn:Hk; [|injection E as <- _; apply tids_same_refl].
  injection E as <- _.
  change {| k_st := new; k_create := k_create k; k_task := k_task k; k_tpool := k_tpool k; k_dead := k_dead k |} with (with_st k new).
  set (x1 := upd_worker x w (with_st k new)).
  assert (tids_same (pw_workers x) (pw_workers x1)) as H1.
  { unfold x1. autorewrite with pw. eapply tids_same_set; [exact Hk | reflexivity]. }
  assert (pw_cur x1 = 0%nat) as Hc1 by exact Hcur. assert (length (pw_pools x1) = 1%nat) as Hp1 by exact Hp.
  unfold creator. rewrite Hc1. destruct new as [| |y ts|y n st| |r|m]; try exact H1.
  - eapply tids_same_trans; [exact H1 | apply try_grow_tids, Hp1].
  - eapply tids_same_trans; [exact H1 | apply try_grow_tids, Hp1].
  - eapply tids_same_trans; [exact H1|]. set (x2 := upd_pool x1 0 _).
    change (pw_workers x1) with (pw_workers x2). apply try_grow_tids. unfold x2. rewrite pools_len_upd_pool. exact Hp1.
  - eapply tids_same_trans; [exact H1|]. set (x2 := upd_pool x1 0 _).
    change (pw_workers x1) with (pw_workers x2). apply try_grow_tids. unfold x2. rewrite pools_len_upd_pool. exact Hp1.
Qed.

Lemma finish_workers x w k i r xf :
  length (pw_pools x) = 1%nat ->
  finish_task (upd_worker x w (with_task k None)) 0 i r = FinOk xf ->
  pw_workers (upd_pool xf 0 (p_with_popfail 0)) = set_nth w (with_task k None) (pw_workers x).
Proof.
  intros Hp E. set (xa := upd_worker x w (with_task k None)) in *.
  assert (length (pw_pools xa) = 1%nat) as Hpa by exact Hp.
  pose proof (finish_task_post xa i r Hpa) as Hpost. cbv zeta in Hpost. rewrite E in Hpost. autorewrite with pw.
  destruct Hpost as [(_ & Hu)|(_ & _ & Hu)]; rewrite (up_ws _ _ _ _ _ _ _ Hu); reflexivity.
Qed.
