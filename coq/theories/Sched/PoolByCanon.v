(** The bystander oracle's verdict does not depend on the worker-id canonicalisation of the observed
    history: the tracker only uses worker ids as keys of [by_carry], and renaming them by first
    appearance is an injection on the ids seen so far. *)
From OCV Require Import Base.Prelude Misc.Time Queue.PMap Queue.OWS Coroutine.Co Coroutine.CoOracle Sched.Sched Sched.Pool Sched.PoolOracle Sched.PoolBystander Sched.PoolCanon.
From Coq Require Import ZifyBool ZifyNat.
Open Scope Z_scope.

(** * Renaming through a canon map *)
Definition ren (m : list (nat * nat)) (w : nat) : nat :=
  match lookup_nat w m with Some c => c | None => w end.

Definition renc (m : list (nat * nat)) (l : list (nat * nat)) : list (nat * nat) :=
  map (fun wt => (ren m (fst wt), snd wt)) l.

Definition renb (m : list (nat * nat)) (b : bytrk) : bytrk :=
  {| by_requested := by_requested b; by_self := by_self b; by_carry := renc m (by_carry b); by_ok := by_ok b |}.

(** the map is injective on its domain, with range below its length *)
Definition MI (m : list (nat * nat)) : Prop :=
  (forall w c, lookup_nat w m = Some c -> (c < length m)%nat) /\
  (forall w w' c, lookup_nat w m = Some c -> lookup_nat w' m = Some c -> w = w').

(** every key of the carry list is in the domain of the map *)
Definition KD (m : list (nat * nat)) (l : list (nat * nat)) : Prop :=
  forall wt, In wt l -> lookup_nat (fst wt) m <> None.

(** [m'] extends [m] *)
Definition ext (m m' : list (nat * nat)) : Prop :=
  forall w c, lookup_nat w m = Some c -> lookup_nat w m' = Some c.

Lemma MI_nil : MI [].
Proof. split; cbn [lookup_nat]; intros; discriminate. Qed.

Lemma MI_WI : forall m, MI m <-> WI m [] [].
Proof.
  intros m. split.
  - intros [Hrng Hinj]. unfold WI. repeat split; try assumption.
    + cbn [length]. lia.
    + intros w c _. rewrite !nth_nil_Ready. reflexivity.
    + intros w _. apply nth_nil_Ready.
  - intros (Hrng & Hinj & _). split; assumption.
Qed.

Lemma MI_see : forall m w, MI m -> MI (see m w).
Proof. intros m w HM. apply MI_WI. apply WI_see. apply MI_WI. exact HM. Qed.

Lemma ext_refl : forall m, ext m m.
Proof. intros m w c H. exact H. Qed.

Lemma ext_trans : forall m1 m2 m3, ext m1 m2 -> ext m2 m3 -> ext m1 m3.
Proof. intros m1 m2 m3 H12 H23 w c H. apply H23. apply H12. exact H. Qed.

Lemma ext_see : forall m w, ext m (see m w).
Proof.
  intros m w k c Hk. unfold see. destruct (lookup_nat w m) as [v|] eqn:E; [exact Hk|].
  rewrite lookup_app, Hk. reflexivity.
Qed.

Lemma ext_dom : forall m m' w, ext m m' -> lookup_nat w m <> None -> lookup_nat w m' <> None.
Proof.
  intros m m' w He Hw. destruct (lookup_nat w m) as [c|] eqn:E; [|congruence].
  rewrite (He w c E). discriminate.
Qed.

Lemma ext_ren : forall m m' w, ext m m' -> lookup_nat w m <> None -> ren m' w = ren m w.
Proof.
  intros m m' w He Hw. unfold ren. destruct (lookup_nat w m) as [c|] eqn:E; [|congruence].
  rewrite (He w c E). reflexivity.
Qed.

Lemma KD_nil : forall m, KD m [].
Proof. intros m wt []. Qed.

Lemma KD_ext : forall m m' l, ext m m' -> KD m l -> KD m' l.
Proof. intros m m' l He HK wt Hin. eapply ext_dom; [exact He|]. apply HK. exact Hin. Qed.

Lemma KD_filter : forall m f l, KD m l -> KD m (filter f l).
Proof. intros m f l HK wt Hin. apply filter_In in Hin. apply HK. apply Hin. Qed.

Lemma KD_cons : forall m w t l, lookup_nat w m <> None -> KD m l -> KD m ((w, t) :: l).
Proof.
  intros m w t l Hw HK wt [<-|Hin]; [exact Hw|]. apply HK. exact Hin.
Qed.

Lemma KD_tail : forall m a l, KD m (a :: l) -> KD m l.
Proof. intros m a l HK wt Hin. apply HK. right. exact Hin. Qed.

Lemma renc_ext : forall m m' l, ext m m' -> KD m l -> renc m' l = renc m l.
Proof.
  intros m m' l He HK. unfold renc. apply map_ext_in. intros wt Hin.
  rewrite (ext_ren m m' (fst wt) He); [reflexivity|]. apply HK. exact Hin.
Qed.

Lemma renb_ext : forall m m' b, ext m m' -> KD m (by_carry b) -> renb m' b = renb m b.
Proof. intros m m' b He HK. unfold renb. rewrite (renc_ext m m' _ He HK). reflexivity. Qed.

Lemma ren_inj : forall m w w', MI m -> lookup_nat w m <> None -> lookup_nat w' m <> None ->
  ren m w = ren m w' -> w = w'.
Proof.
  intros m w w' [_ Hinj] Hw Hw' Heq. unfold ren in Heq.
  destruct (lookup_nat w m) as [c|] eqn:E; [|congruence].
  destruct (lookup_nat w' m) as [c'|] eqn:E'; [|congruence].
  subst c'. eapply Hinj; eassumption.
Qed.

Lemma ren_eqb : forall m w w', MI m -> lookup_nat w m <> None -> lookup_nat w' m <> None ->
  Nat.eqb (ren m w) (ren m w') = Nat.eqb w w'.
Proof.
  intros m w w' HM Hw Hw'. destruct (Nat.eqb_spec w w') as [->|Hne].
  - apply Nat.eqb_refl.
  - apply Nat.eqb_neq. intros Heq. apply Hne. eapply ren_inj; eassumption.
Qed.

Lemma lookup_renc : forall m w l, MI m -> lookup_nat w m <> None -> KD m l ->
  lookup_nat (ren m w) (renc m l) = lookup_nat w l.
Proof.
  intros m w l HM Hw. induction l as [|[a t] r IH]; intros HK.
  - reflexivity.
  - cbn [renc map fst snd lookup_nat]. fold (renc m r).
    rewrite ren_eqb; [|exact HM|exact Hw|apply (HK (a, t)); left; reflexivity].
    destruct (Nat.eqb w a); [reflexivity|]. apply IH. eapply KD_tail. exact HK.
Qed.

Lemma filter_fst_renc : forall m w l, MI m -> lookup_nat w m <> None -> KD m l ->
  filter (fun wt => negb (Nat.eqb (fst wt) (ren m w))) (renc m l)
  = renc m (filter (fun wt => negb (Nat.eqb (fst wt) w)) l).
Proof.
  intros m w l HM Hw. induction l as [|[a t] r IH]; intros HK.
  - reflexivity.
  - cbn [renc map fst snd filter]. fold (renc m r).
    rewrite ren_eqb; [|exact HM|apply (HK (a, t)); left; reflexivity|exact Hw].
    rewrite IH by (eapply KD_tail; exact HK).
    destruct (Nat.eqb a w); cbn [negb]; reflexivity.
Qed.

Lemma filter_snd_renc : forall m t l,
  filter (fun wt => negb (Nat.eqb (snd wt) t)) (renc m l)
  = renc m (filter (fun wt => negb (Nat.eqb (snd wt) t)) l).
Proof.
  intros m t l. induction l as [|[a u] r IH].
  - reflexivity.
  - cbn [renc map fst snd filter]. fold (renc m r). rewrite IH.
    destruct (Nat.eqb u t); cbn [negb]; reflexivity.
Qed.

(** * One event *)
Definition ren_ev (m : list (nat * nat)) (e : ev) : ev :=
  match e with
  | EL l w c old => EL l (ren m w) c old
  | EB t (BStart p) => EB t (BStart (Z.of_nat (ren m (Z.to_nat p))))
  | _ => e
  end.

Definition ev_dom (m : list (nat * nat)) (e : ev) : Prop :=
  match e with
  | EL _ w _ _ => lookup_nat w m <> None
  | EB _ (BStart p) => lookup_nat (Z.to_nat p) m <> None
  | _ => True
  end.

Lemma see_dom : forall m w, lookup_nat w (see m w) <> None.
Proof. intros m w. destruct (see_lookup m w) as [v Hv]. rewrite Hv. discriminate. Qed.

Lemma canon_ev_snd : forall m e, snd (canon_ev m e) = ren_ev (fst (canon_ev m e)) e.
Proof. intros m e. destruct e as [l w c old | t b]; [|destruct b]; reflexivity. Qed.

Lemma canon_ev_dom : forall m e, ev_dom (fst (canon_ev m e)) e.
Proof.
  intros m e. destruct e as [l w c old | t b]; [|destruct b]; cbn [canon_ev fst ev_dom];
    try exact I; apply see_dom.
Qed.

Lemma canon_ev_ext : forall m e, ext m (fst (canon_ev m e)).
Proof.
  intros m e. destruct e as [l w c old | t b]; [|destruct b]; cbn [canon_ev fst];
    try apply ext_refl; apply ext_see.
Qed.

Lemma canon_ev_MI : forall m e, MI m -> MI (fst (canon_ev m e)).
Proof.
  intros m e HM. destruct e as [l w c old | t b]; [|destruct b]; cbn [canon_ev fst];
    try exact HM; apply MI_see; exact HM.
Qed.

Lemma by_ev_ren : forall m b e, MI m -> KD m (by_carry b) -> ev_dom m e ->
  by_ev (renb m b) (ren_ev m e) = renb m (by_ev b e).
Proof.
  intros m b e HM HK Hd. destruct e as [l w c old | t bb].
  - cbn [ev_dom] in Hd. cbn [ren_ev].
    destruct c as [new| | | | | | r | msg]; try reflexivity.
    destruct new; try reflexivity.
    cbn [by_ev renb by_carry by_requested by_self by_ok].
    rewrite (lookup_renc m w (by_carry b) HM Hd HK).
    destruct (lookup_nat w (by_carry b)) as [t|]; [|reflexivity].
    unfold renb. cbn [by_carry by_requested by_self by_ok].
    rewrite (filter_fst_renc m w (by_carry b) HM Hd HK). reflexivity.
  - destruct bb as [p | p | y r | ok | d | k | v | k]; try reflexivity.
    + cbn [ev_dom] in Hd. cbn [ren_ev by_ev]. cbv zeta. rewrite Nat2Z.id.
      unfold renb. cbn [by_carry by_requested by_self by_ok].
      rewrite (filter_fst_renc m (Z.to_nat p) (by_carry b) HM Hd HK). reflexivity.
    + destruct r; reflexivity.
    + cbn [ren_ev by_ev]. unfold renb. cbn [by_carry by_requested by_self by_ok].
      rewrite filter_snd_renc. reflexivity.
    + cbn [ren_ev by_ev]. unfold renb. cbn [by_carry by_requested by_self by_ok].
      rewrite filter_snd_renc. reflexivity.
Qed.

Lemma by_ev_KD : forall m b e, KD m (by_carry b) -> ev_dom m e -> KD m (by_carry (by_ev b e)).
Proof.
  intros m b e HK Hd. destruct e as [l w c old | t bb].
  - destruct c as [new| | | | | | r | msg]; try exact HK.
    destruct new; try exact HK.
    cbn [by_ev]. destruct (lookup_nat w (by_carry b)) as [t|]; [|exact HK].
    cbn [by_carry]. apply KD_filter. exact HK.
  - destruct bb as [p | p | y r | ok | d | k | v | k]; try exact HK.
    + cbn [ev_dom] in Hd. cbn [by_ev]. cbv zeta. cbn [by_carry].
      apply KD_cons; [exact Hd|]. apply KD_filter. exact HK.
    + destruct r; exact HK.
    + cbn [by_ev by_carry]. apply KD_filter. exact HK.
    + cbn [by_ev by_carry]. apply KD_filter. exact HK.
Qed.

Lemma by_ev_canon : forall m b e, MI m -> KD m (by_carry b) ->
  by_ev (renb m b) (snd (canon_ev m e)) = renb (fst (canon_ev m e)) (by_ev b e) /\
  KD (fst (canon_ev m e)) (by_carry (by_ev b e)).
Proof.
  intros m b e HM HK.
  pose proof (canon_ev_ext m e) as He. pose proof (canon_ev_MI m e HM) as HM'.
  pose proof (canon_ev_dom m e) as Hd. pose proof (KD_ext _ _ _ He HK) as HK'.
  rewrite canon_ev_snd. rewrite <- (renb_ext m (fst (canon_ev m e)) b He HK).
  split.
  - apply by_ev_ren; assumption.
  - apply by_ev_KD; assumption.
Qed.

(** * Event lists *)
Lemma fold_by_canon : forall evs m b, MI m -> KD m (by_carry b) ->
  fold_left by_ev (snd (canon_evs m evs)) (renb m b)
    = renb (fst (canon_evs m evs)) (fold_left by_ev evs b) /\
  MI (fst (canon_evs m evs)) /\
  KD (fst (canon_evs m evs)) (by_carry (fold_left by_ev evs b)) /\
  ext m (fst (canon_evs m evs)).
Proof.
  induction evs as [|e r IH]; intros m b HM HK.
  - cbn [canon_evs fst snd fold_left]. split; [reflexivity|]. split; [exact HM|]. split; [exact HK|]. apply ext_refl.
  - rewrite canon_evs_cons. cbn [fst snd fold_left].
    destruct (by_ev_canon m b e HM HK) as [Heq HK1]. rewrite Heq.
    destruct (IH (fst (canon_ev m e)) (by_ev b e) (canon_ev_MI m e HM) HK1) as (Hf & HM2 & HK2 & He2).
    split; [exact Hf|]. split; [exact HM2|]. split; [exact HK2|].
    eapply ext_trans; [apply canon_ev_ext | exact He2].
Qed.

(** * One step *)
Definition with_evs (ob : pobs) (e : list ev) : pobs :=
  match ob with OPass r _ => OPass r e | OStop r _ => OStop r e | _ => ob end.

Lemma by_step_canon : forall o ob m b, MI m -> KD m (by_carry b) ->
  by_step (renb m b) o (with_evs ob (snd (canon_evs m (pevs ob))))
    = renb (fst (canon_evs m (pevs ob))) (by_step b o ob) /\
  MI (fst (canon_evs m (pevs ob))) /\
  KD (fst (canon_evs m (pevs ob))) (by_carry (by_step b o ob)).
Proof.
  intros o ob m b HM HK.
  destruct (fold_by_canon (pevs ob) m b HM HK) as (Hf & HM2 & HK2 & He2).
  assert (Hp : pevs (with_evs ob (snd (canon_evs m (pevs ob)))) = snd (canon_evs m (pevs ob))).
  { destruct ob; reflexivity. }
  destruct o; cbn [by_step]; rewrite ?Hp; try (split; [exact Hf|]; split; [exact HM2 | exact HK2]).
  (* PCancel *)
  cbn [by_carry]. split; [|split; [exact HM2|eapply KD_ext; eassumption]].
  unfold renb. cbn [by_carry by_requested by_self by_ok].
  rewrite (renc_ext m _ (by_carry b) He2 HK). reflexivity.
Qed.

(** * The run *)
Lemma by_run_canon_gen : forall obs ops m b, MI m -> KD m (by_carry b) ->
  by_ok (by_run (renb m b) ops (cut_div (canon_obs m obs))) = by_ok (by_run b ops (cut_div obs)).
Proof.
  induction obs as [|ob obs IH]; intros ops m b HM HK.
  - cbn [canon_obs cut_div]. destruct ops; reflexivity.
  - destruct ops as [|o ops].
    { destruct (cut_div (canon_obs m (ob :: obs))); destruct (cut_div (ob :: obs)); reflexivity. }
    destruct (by_step_canon o ob m b HM HK) as (Hs & HM2 & HK2).
    destruct ob as [ok | r evs | r | r evs | n | s | ]; cbn [pevs with_evs canon_evs fst snd] in Hs, HM2, HK2.
    + cbn [canon_obs cut_div by_run]. rewrite Hs. apply IH; assumption.
    + cbn [canon_obs]. destruct (canon_evs m evs) as [m1 e1]. cbn [fst snd] in Hs, HM2, HK2.
      destruct r; cbn [cut_div by_run]; rewrite Hs; try (apply IH; assumption).
      destruct ops; reflexivity.
    + cbn [canon_obs cut_div by_run]. rewrite Hs. apply IH; assumption.
    + cbn [canon_obs]. destruct (canon_evs m evs) as [m1 e1]. cbn [fst snd] in Hs, HM2, HK2.
      destruct r; cbn [cut_div by_run]; rewrite Hs; try (apply IH; assumption).
      destruct ops; reflexivity.
    + cbn [canon_obs cut_div by_run]. rewrite Hs. apply IH; assumption.
    + cbn [canon_obs cut_div by_run]. rewrite Hs. apply IH; assumption.
    + cbn [canon_obs cut_div by_run]. rewrite Hs. apply IH; assumption.
Qed.

Theorem bystander_canon : forall ops obs,
  bystander_ok ops (cut_div (canon_obs [] obs)) = bystander_ok ops (cut_div obs).
Proof.
  intros ops obs. unfold bystander_ok.
  change by0 with (renb [] by0) at 1.
  apply by_run_canon_gen; [exact MI_nil | apply KD_nil].
Qed.

Print Assumptions bystander_canon.
