(** Model of core/src/scheduler.rs ([Scheduler]): [do_schedule] / [check_ready] / [try_resume]
    over the suspend heap, the syscall map and the syscall-suspend heap. The scheduling logic is
    written once, generically over the "world" [X] that holds the coroutines, the clock, the
    (process-global) ready queue and the (process-global) cancel set, because the same logic
    drives plain coroutines (this file, [sched]) and pool workers (Sched/Pool.v). *)
From OCV Require Import Base.Prelude Misc.Time Queue.PMap Queue.OWS Coroutine.Co.
Open Scope Z_scope.

(** the containers a [Scheduler] owns *)
Record sdata := {
  sd_suspend : list (Z * nat);       (* suspend heap: (wake-up time, coroutine), insertion order *)
  sd_syscall : list nat;             (* syscall map keys *)
  sd_sys_suspend : list (Z * nat);   (* syscall-suspend heap *)
  sd_gone : list nat                 (* coroutines dropped by a cancel or an error *)
}.
Definition sdata0 : sdata := {| sd_suspend := []; sd_syscall := []; sd_sys_suspend := []; sd_gone := [] |}.

(** heaps: pop an entry with the smallest time (the earliest inserted among equals; the order
    the real [BinaryHeap] yields equal keys in is not fixed, histories keep keys distinct) *)
Fixpoint heap_min (l : list (Z * nat)) : option (Z * nat) :=
  match l with
  | [] => None
  | (t, i) :: r =>
      match heap_min r with
      | Some (t', i') => if t' <? t then Some (t', i') else Some (t, i)
      | None => Some (t, i)
      end
  end.

Fixpoint heap_remove (e : Z * nat) (l : list (Z * nat)) : list (Z * nat) :=
  match l with
  | [] => []
  | (t, i) :: r => if (t =? fst e) && Nat.eqb i (snd e) then r else (t, i) :: heap_remove e r
  end.

Definition mem_nat (i : nat) (l : list nat) : bool := existsb (Nat.eqb i) l.
Fixpoint remove_nat (i : nat) (l : list nat) : list nat :=
  match l with [] => [] | j :: r => if Nat.eqb i j then r else j :: remove_nat i r end.

Inductive pass_res :=
| PassOk (left : Z) (results : list (nat * res))   (* results: ROk (Complete v) / ROk (Error m) per id *)
| PassErr
| PassUnwound
| PassDiverged.

Section Generic.
  Variable X : Type.
  Variable x_clock : X -> Z.
  Variable x_state : X -> nat -> option cstate.           (* state of coroutine i *)
  Variable x_change : X -> nat -> cstate -> X * list ev.   (* change_state + callbacks *)
  Variable x_resume : X -> nat -> X * res * list ev.       (* coroutine.resume() *)
  Variable x_push : X -> nat -> X.                         (* self.ready.push(co) *)
  Variable x_pop : X -> X * option nat.                    (* self.ready.pop() *)
  Variable x_cancelled : X -> nat -> bool.                 (* CANCEL_COROUTINES.contains *)
  Variable x_uncancel : X -> nat -> X.                     (* CANCEL_COROUTINES.remove *)

  Inductive cres := COk (x : X) (d : sdata) (acc : list ev) | CErr (x : X) (d : sdata) (acc : list ev)
                  | CPanic (x : X) (d : sdata) (acc : list ev).

  (** coroutine [i].ready() for an entry leaving the suspend heap; [None] = Err *)
  Definition co_ready (x : X) (i : nat) : option (X * list ev) :=
    match x_state x i with
    | None => None
    | Some s =>
        match tr_ready (x_clock x) s with
        | Some (Some new) => Some (x_change x i new)
        | Some None => Some (x, [])
        | None => None
        end
    end.

  (** first loop of [check_ready]: move every due entry of the suspend heap to the ready queue *)
  Fixpoint check_suspend (fuel : nat) (x : X) (d : sdata) (acc : list ev) : cres :=
    match fuel with
    | O => COk x d acc
    | S f =>
        match heap_min (sd_suspend d) with
        | None => COk x d acc
        | Some (ts, i) =>
            if x_clock x <? ts then COk x d acc
            else
              let d1 := {| sd_suspend := heap_remove (ts, i) (sd_suspend d); sd_syscall := sd_syscall d;
                           sd_sys_suspend := sd_sys_suspend d; sd_gone := sd_gone d |} in
              match co_ready x i with
              | None => CErr x d1 acc   (* ready()? failed: the item (and its coroutine) is dropped *)
              | Some (x2, e) => check_suspend f (x_push x2 i) d1 (acc ++ e)
              end
        end
    end.

  (** second loop: syscall-suspend entries that are due time out *)
  Fixpoint check_sys (fuel : nat) (x : X) (d : sdata) (acc : list ev) : cres :=
    match fuel with
    | O => COk x d acc
    | S f =>
        match heap_min (sd_sys_suspend d) with
        | None => COk x d acc
        | Some (ts, i) =>
            if x_clock x <? ts then COk x d acc
            else
              let d1 := {| sd_suspend := sd_suspend d; sd_syscall := sd_syscall d;
                           sd_sys_suspend := heap_remove (ts, i) (sd_sys_suspend d); sd_gone := sd_gone d |} in
              if mem_nat i (sd_syscall d1) then
                let d2 := {| sd_suspend := sd_suspend d1; sd_syscall := remove_nat i (sd_syscall d1);
                             sd_sys_suspend := sd_sys_suspend d1; sd_gone := sd_gone d1 |} in
                match x_state x i with
                | Some (Syscall y n (SSuspend _)) =>
                    let '(x', e) := x_change x i (Syscall y n STimeout) in
                    check_sys f (x_push x' i) d2 (acc ++ e)
                | _ => CPanic x d2 acc     (* unreachable!() in the source: a panic *)
                end
              else check_sys f x d1 acc
        end
    end.

  Definition check_ready (x : X) (d : sdata) (acc : list ev) : cres :=
    match check_suspend (S (length (sd_suspend d))) x d acc with
    | COk x1 d1 acc1 => check_sys (S (length (sd_sys_suspend d1))) x1 d1 acc1
    | r => r
    end.

  (** [do_schedule] *)
  Fixpoint do_schedule (fuel : nat) (x : X) (d : sdata) (deadline : Z) (results : list (nat * res))
           (acc : list ev) : X * sdata * pass_res * list ev :=
    match fuel with
    | O => (x, d, PassDiverged, acc)
    | S f =>
        let lft := sat_sub deadline (x_clock x) in
        if lft =? 0 then (x, d, PassOk 0 results, acc)
        else
          match check_ready x d acc with
          | CErr x1 d1 acc1 => (x1, d1, PassErr, acc1)
          | CPanic x1 d1 acc1 => (x1, d1, PassUnwound, acc1)
          | COk x1 d1 acc1 =>
              match x_pop x1 with
              | (x2, None) => (x2, d1, PassOk lft results, acc1)
              | (x2, Some i) =>
                  if x_cancelled x2 i then
                    (* dropped, and reported to its listeners as Cancelled *)
                    let d2 := {| sd_suspend := sd_suspend d1; sd_syscall := sd_syscall d1;
                                 sd_sys_suspend := sd_sys_suspend d1; sd_gone := i :: sd_gone d1 |} in
                    let '(x3, e) := x_change (x_uncancel x2 i) i Cancelled in
                    do_schedule f x3 d2 deadline results (acc1 ++ e)
                  else
                    let '(x3, r, e) := x_resume x2 i in
                    let acc2 := acc1 ++ e in
                    match r with
                    | ROk (Syscall _ _ st) =>
                        let d2 := {| sd_suspend := sd_suspend d1;
                                     sd_syscall := if mem_nat i (sd_syscall d1) then sd_syscall d1 else i :: sd_syscall d1;
                                     sd_sys_suspend := match st with
                                                       | SSuspend ts => sd_sys_suspend d1 ++ [(ts, i)]
                                                       | _ => sd_sys_suspend d1
                                                       end;
                                     sd_gone := sd_gone d1 |} in
                        do_schedule f x3 d2 deadline results acc2
                    | ROk (Suspend _ ts) =>
                        if x_clock x3 <? ts then
                          let d2 := {| sd_suspend := sd_suspend d1 ++ [(ts, i)]; sd_syscall := sd_syscall d1;
                                       sd_sys_suspend := sd_sys_suspend d1; sd_gone := sd_gone d1 |} in
                          do_schedule f x3 d2 deadline results acc2
                        else do_schedule f (x_push x3 i) d1 deadline results acc2
                    | ROk Cancelled => do_schedule f x3 d1 deadline results acc2
                    | ROk (Complete v) => do_schedule f x3 d1 deadline (results ++ [(i, ROk (Complete v))]) acc2
                    | ROk (Error m) => do_schedule f x3 d1 deadline (results ++ [(i, ROk (Error m))]) acc2
                    | _ =>
                        (* resume()? failed or an unexpected state: the coroutine is dropped, Err returned *)
                        (x3, {| sd_suspend := sd_suspend d1; sd_syscall := sd_syscall d1;
                                sd_sys_suspend := sd_sys_suspend d1; sd_gone := i :: sd_gone d1 |}, PassErr, acc2)
                    end
              end
          end
    end.

  (** [try_resume(co_id)] *)
  Definition try_resume (x : X) (d : sdata) (i : nat) : X * sdata * res * list ev :=
    if mem_nat i (sd_syscall d) then
      let d1 := {| sd_suspend := sd_suspend d; sd_syscall := remove_nat i (sd_syscall d);
                   sd_sys_suspend := sd_sys_suspend d; sd_gone := sd_gone d |} in
      match x_state x i with
      | Some (Syscall y n (SSuspend _)) =>
          let '(x', e) := x_change x i (Syscall y n SCallback) in
          (x_push x' i, d1, RUnit, e)
      | _ => (x, d1, RUnwound, [])     (* unreachable!(): the coroutine was taken out of the map and is lost *)
      end
    else (x, d, RUnit, []).
End Generic.

(** * The stand-alone scheduler: plain instruction-list coroutines *)

Record world := {
  w_thr : thr;          (* the coroutines, the clock, the request deques *)
  w_q : sys;            (* ready queue: handle 0 of the shared coroutine queue *)
  w_prio : list Z;      (* priority of coroutine i (None = 0) *)
  w_cancel : list nat   (* CANCEL_COROUTINES *)
}.

Definition ready_cap : Z := 256.

Definition w_clock (w : world) : Z := t_clock (w_thr w).
Definition w_state (w : world) (i : nat) : option cstate := option_map c_st (nth_error (t_cos (w_thr w)) i).
Definition with_thr (w : world) (t : thr) : world :=
  {| w_thr := t; w_q := w_q w; w_prio := w_prio w; w_cancel := w_cancel w |}.
Definition w_change (w : world) (i : nat) (new : cstate) : world * list ev :=
  match nth_error (t_cos (w_thr w)) i with
  | Some c => let '(t', e) := apply_change (w_thr w) i c new in (with_thr w t', e)
  | None => (w, [])
  end.
(** the unit parameter is not observable; the model passes the clock so that the body's
    start/got events carry the time of the resumption *)
Definition w_resume (w : world) (i : nat) : world * res * list ev :=
  let '(t', r, e) := resume (w_thr w) i (t_clock (w_thr w)) in (with_thr w t', r, e).
Definition prio_of (w : world) (i : nat) : Z := nth i (w_prio w) 0.
Definition w_push (w : world) (i : nat) : world :=
  {| w_thr := w_thr w; w_q := fst (lpush (w_q w) 0 (prio_of w i) (Z.of_nat i)); w_prio := w_prio w; w_cancel := w_cancel w |}.
Definition w_pop (w : world) : world * option nat :=
  match lpop (w_q w) 0 0 with
  | (q, OItem (Some x)) => ({| w_thr := w_thr w; w_q := q; w_prio := w_prio w; w_cancel := w_cancel w |}, Some (Z.to_nat x))
  | (q, _) => ({| w_thr := w_thr w; w_q := q; w_prio := w_prio w; w_cancel := w_cancel w |}, None)
  end.
Definition w_cancelled (w : world) (i : nat) : bool := mem_nat i (w_cancel w).
Definition w_uncancel (w : world) (i : nat) : world :=
  {| w_thr := w_thr w; w_q := w_q w; w_prio := w_prio w; w_cancel := remove_nat i (w_cancel w) |}.

Record sched := { sc_w : world; sc_d : sdata }.

Definition sched0 (clock : Z) (nl : nat) : sched :=
  {| sc_w := {| w_thr := mk_thr clock [] nl; w_q := fst (new_handle (OWS.init 1 ready_cap)); w_prio := []; w_cancel := [] |};
     sc_d := sdata0 |}.

(** [submit_raw_co] *)
Definition submit (s : sched) (body : list instr) (prio : option Z) : sched :=
  let w := sc_w s in
  let t := w_thr w in
  let i := length (t_cos t) in
  let t' := {| t_clock := t_clock t; t_ts := t_ts t; t_cn := t_cn t;
               t_cos := t_cos t ++ [{| c_st := Ready; c_body := body; c_started := false; c_dead := false |}];
               t_nl := t_nl t |} in
  let w1 := {| w_thr := t'; w_q := w_q w; w_prio := w_prio w ++ [match prio with Some p => p | None => 0 end];
               w_cancel := w_cancel w |} in
  {| sc_w := w_push w1 i; sc_d := sc_d s |}.

(** an upper bound on the number of loop iterations of one pass: every iteration pops a
    coroutine, and a popped coroutine is dropped or executes at least one instruction or ends *)
Definition pass_fuel (s : sched) : nat :=
  S (fold_right Nat.add O (map (fun c => S (S (length (c_body c)))) (t_cos (w_thr (sc_w s))))).

Inductive sop :=
| Submit (body : list instr) (prio : option Z)
| Pass (deadline : Z)                 (* try_timeout_schedule(deadline) *)
| TryResume (i : nat)
| Cancel (i : nat)                    (* Scheduler::try_cancel_coroutine(id of i) *)
| Clock (c : Z).

Inductive sobs :=
| SUnit
| SPass (r : pass_res) (evs : list ev)
| SCall (r : res) (evs : list ev).

Definition sstep (s : sched) (o : sop) : sched * sobs :=
  match o with
  | Submit body prio => (submit s body prio, SUnit)
  | Pass deadline =>
      let '(w', d', r, e) :=
        do_schedule world w_clock w_state w_change w_resume w_push w_pop w_cancelled w_uncancel
                    (pass_fuel s) (sc_w s) (sc_d s) deadline [] [] in
      ({| sc_w := w'; sc_d := d' |}, SPass r e)
  | TryResume i =>
      let '(w', d', r, e) := try_resume world w_state w_change w_push (sc_w s) (sc_d s) i in
      ({| sc_w := w'; sc_d := d' |}, SCall r e)
  | Cancel i =>
      let w := sc_w s in
      ({| sc_w := {| w_thr := w_thr w; w_q := w_q w; w_prio := w_prio w;
                     w_cancel := if mem_nat i (w_cancel w) then w_cancel w else i :: w_cancel w |};
          sc_d := sc_d s |}, SUnit)
  | Clock c => ({| sc_w := with_thr (sc_w s) (upd_clock (w_thr (sc_w s)) c); sc_d := sc_d s |}, SUnit)
  end.

Fixpoint srun (s : sched) (ops : list sop) : list sobs :=
  match ops with
  | [] => []
  | o :: ops' => let '(s', r) := sstep s o in r :: srun s' ops'
  end.
