(** Model of core/src/scheduler.rs ([Scheduler]): ready queue = one handle of the ordered
    work-steal queue (model [Queue.OWS]), suspend heap, syscall map + syscall-suspend heap, the
    process-global cancel set, [do_schedule]/[check_ready]/[try_resume]. Coroutines are the
    instruction-list coroutines of [Coroutine.Co] (unit parameter and yield, numeric result);
    a coroutine's id is its submission index. *)
From OCV Require Import Base.Prelude Misc.Time Queue.PMap Queue.OWS Coroutine.Co.
Open Scope Z_scope.

Record sched := {
  sc_thr : thr;                      (* the coroutines, the clock, the request deques *)
  sc_q : sys;                        (* ready queue (handle 0 of the shared coroutine queue) *)
  sc_prio : list Z;                  (* priority of coroutine i (None = 0) *)
  sc_suspend : list (Z * nat);       (* suspend heap: (wake-up time, coroutine), insertion order *)
  sc_syscall : list nat;             (* syscall map keys *)
  sc_sys_suspend : list (Z * nat);   (* syscall-suspend heap *)
  sc_cancel : list nat;              (* CANCEL_COROUTINES *)
  sc_gone : list nat                 (* coroutines dropped by a cancel or an error *)
}.

Definition ready_cap : Z := 256.

Definition sched0 (clock : Z) (nl : nat) : sched :=
  {| sc_thr := mk_thr clock [] nl;
     sc_q := fst (new_handle (OWS.init 1 ready_cap));
     sc_prio := []; sc_suspend := []; sc_syscall := []; sc_sys_suspend := []; sc_cancel := []; sc_gone := [] |}.

Definition with_thr (s : sched) (t : thr) : sched :=
  {| sc_thr := t; sc_q := sc_q s; sc_prio := sc_prio s; sc_suspend := sc_suspend s; sc_syscall := sc_syscall s;
     sc_sys_suspend := sc_sys_suspend s; sc_cancel := sc_cancel s; sc_gone := sc_gone s |}.
Definition with_q (s : sched) (q : sys) : sched :=
  {| sc_thr := sc_thr s; sc_q := q; sc_prio := sc_prio s; sc_suspend := sc_suspend s; sc_syscall := sc_syscall s;
     sc_sys_suspend := sc_sys_suspend s; sc_cancel := sc_cancel s; sc_gone := sc_gone s |}.

Definition prio_of (s : sched) (i : nat) : Z := nth i (sc_prio s) 0.

(** [self.ready.push(co)] *)
Definition ready_push (s : sched) (i : nat) : sched :=
  with_q s (fst (lpush (sc_q s) 0 (prio_of s i) (Z.of_nat i))).

(** [self.ready.pop()] *)
Definition ready_pop (s : sched) : sched * option nat :=
  match lpop (sc_q s) 0 0 with
  | (q, OItem (Some x)) => (with_q s q, Some (Z.to_nat x))
  | (q, _) => (with_q s q, None)
  end.

(** [submit_raw_co] *)
Definition submit (s : sched) (body : list instr) (prio : option Z) : sched :=
  let t := sc_thr s in
  let i := length (t_cos t) in
  let t' := {| t_clock := t_clock t; t_ts := t_ts t; t_cn := t_cn t;
               t_cos := t_cos t ++ [{| c_st := Ready; c_body := body; c_started := false; c_dead := false |}];
               t_nl := t_nl t |} in
  let s1 := {| sc_thr := t'; sc_q := sc_q s; sc_prio := sc_prio s ++ [match prio with Some p => p | None => 0 end];
               sc_suspend := sc_suspend s; sc_syscall := sc_syscall s; sc_sys_suspend := sc_sys_suspend s;
               sc_cancel := sc_cancel s; sc_gone := sc_gone s |} in
  ready_push s1 i.

(** heaps: pop an entry with the smallest time (the earliest inserted among equals; the order
    the real [BinaryHeap] yields equal keys in is not fixed, histories keep keys distinct) *)
Fixpoint heap_min (l : list (Z * nat)) : option (Z * nat) :=
  match l with
  | [] => None
  | (t, i) :: r =>
      match heap_min r with
      | Some (t', i') => if t' <? t then Some (t', i') else Some (t, i)
      | None => Some (t, i)
      end
  end.

Fixpoint heap_remove (e : Z * nat) (l : list (Z * nat)) : list (Z * nat) :=
  match l with
  | [] => []
  | (t, i) :: r => if (t =? fst e) && Nat.eqb i (snd e) then r else (t, i) :: heap_remove e r
  end.

Definition mem_nat (i : nat) (l : list nat) : bool := existsb (Nat.eqb i) l.
Fixpoint remove_nat (i : nat) (l : list nat) : list nat :=
  match l with [] => [] | j :: r => if Nat.eqb i j then r else j :: remove_nat i r end.

Inductive cres := COk (s : sched) (acc : list ev) | CErr (s : sched) (acc : list ev) | CPanic (s : sched) (acc : list ev).   (* check_ready: Ok / Err / unreachable!() *)

(** coroutine [i].ready() from the suspend heap; [None] = Err *)
Definition co_ready (s : sched) (i : nat) : option (sched * list ev) :=
  match nth_error (t_cos (sc_thr s)) i with
  | None => None
  | Some c =>
      match tr_ready (t_clock (sc_thr s)) (c_st c) with
      | Some (Some new) => let '(t', e) := apply_change (sc_thr s) i c new in Some (with_thr s t', e)
      | Some None => Some (s, [])
      | None => None
      end
  end.

(** first loop of [check_ready]: move every due entry of the suspend heap to the ready queue *)
Fixpoint check_suspend (fuel : nat) (s : sched) (acc : list ev) : cres :=
  match fuel with
  | O => COk s acc
  | S f =>
      match heap_min (sc_suspend s) with
      | None => COk s acc
      | Some (ts, i) =>
          if t_clock (sc_thr s) <? ts then COk s acc
          else
            let s1 := {| sc_thr := sc_thr s; sc_q := sc_q s; sc_prio := sc_prio s;
                         sc_suspend := heap_remove (ts, i) (sc_suspend s); sc_syscall := sc_syscall s;
                         sc_sys_suspend := sc_sys_suspend s; sc_cancel := sc_cancel s; sc_gone := sc_gone s |} in
            match co_ready s1 i with
            | None => CErr s1 acc  (* ready()? failed: the item (and its coroutine) is dropped, Err returned *)
            | Some (s2, e) => check_suspend f (ready_push s2 i) (acc ++ e)
            end
      end
  end.

(** second loop: syscall-suspend entries that are due time out *)
Fixpoint check_sys (fuel : nat) (s : sched) (acc : list ev) : cres :=
  match fuel with
  | O => COk s acc
  | S f =>
      match heap_min (sc_sys_suspend s) with
      | None => COk s acc
      | Some (ts, i) =>
          if t_clock (sc_thr s) <? ts then COk s acc
          else
            let s1 := {| sc_thr := sc_thr s; sc_q := sc_q s; sc_prio := sc_prio s; sc_suspend := sc_suspend s;
                         sc_syscall := sc_syscall s; sc_sys_suspend := heap_remove (ts, i) (sc_sys_suspend s);
                         sc_cancel := sc_cancel s; sc_gone := sc_gone s |} in
            if mem_nat i (sc_syscall s1) then
              let s2 := {| sc_thr := sc_thr s1; sc_q := sc_q s1; sc_prio := sc_prio s1; sc_suspend := sc_suspend s1;
                           sc_syscall := remove_nat i (sc_syscall s1); sc_sys_suspend := sc_sys_suspend s1;
                           sc_cancel := sc_cancel s1; sc_gone := sc_gone s1 |} in
              match nth_error (t_cos (sc_thr s2)) i with
              | Some c =>
                  match c_st c with
                  | Syscall y n (SSuspend _) =>
                      let '(t', e) := apply_change (sc_thr s2) i c (Syscall y n STimeout) in
                      check_sys f (ready_push (with_thr s2 t') i) (acc ++ e)
                  | _ => CPanic s2 acc   (* unreachable!() in the source: a panic *)
                  end
              | None => CPanic s2 acc
              end
            else check_sys f s1 acc
      end
  end.

Definition check_ready (s : sched) (acc : list ev) : cres :=
  match check_suspend (S (length (sc_suspend s))) s acc with
  | COk s1 acc1 => check_sys (S (length (sc_sys_suspend s1))) s1 acc1
  | r => r
  end.

Inductive pass_res :=
| PassOk (left : Z) (results : list (nat * res))   (* results: ROk (Complete v) / ROk (Error m) per id *)
| PassErr
| PassUnwound
| PassDiverged.

(** [do_schedule] *)
Fixpoint do_schedule (fuel : nat) (s : sched) (deadline : Z) (results : list (nat * res)) (acc : list ev)
  : sched * pass_res * list ev :=
  match fuel with
  | O => (s, PassDiverged, acc)
  | S f =>
      let left := sat_sub deadline (t_clock (sc_thr s)) in
      if left =? 0 then (s, PassOk 0 results, acc)
      else
        match check_ready s acc with
        | CErr s1 acc1 => (s1, PassErr, acc1)
        | CPanic s1 acc1 => (s1, PassUnwound, acc1)
        | COk s1 acc1 =>
            match ready_pop s1 with
            | (s2, None) => (s2, PassOk left results, acc1)
            | (s2, Some i) =>
                if mem_nat i (sc_cancel s2) then
                  let s3 := {| sc_thr := sc_thr s2; sc_q := sc_q s2; sc_prio := sc_prio s2; sc_suspend := sc_suspend s2;
                               sc_syscall := sc_syscall s2; sc_sys_suspend := sc_sys_suspend s2;
                               sc_cancel := remove_nat i (sc_cancel s2); sc_gone := i :: sc_gone s2 |} in
                  do_schedule f s3 deadline results acc1
                else
                  (* the unit parameter is not observable; the model passes the clock so that the body's
                     start/got events carry the time of the resumption *)
                  let '(t', r, e) := resume (sc_thr s2) i (t_clock (sc_thr s2)) in
                  let s3 := with_thr s2 t' in
                  let acc2 := acc1 ++ e in
                  match r with
                  | ROk (Syscall _ _ st) =>
                      let s4 := {| sc_thr := sc_thr s3; sc_q := sc_q s3; sc_prio := sc_prio s3; sc_suspend := sc_suspend s3;
                                   sc_syscall := if mem_nat i (sc_syscall s3) then sc_syscall s3 else i :: sc_syscall s3;
                                   sc_sys_suspend := match st with
                                                     | SSuspend ts => sc_sys_suspend s3 ++ [(ts, i)]
                                                     | _ => sc_sys_suspend s3
                                                     end;
                                   sc_cancel := sc_cancel s3; sc_gone := sc_gone s3 |} in
                      do_schedule f s4 deadline results acc2
                  | ROk (Suspend _ ts) =>
                      if t_clock (sc_thr s3) <? ts then
                        let s4 := {| sc_thr := sc_thr s3; sc_q := sc_q s3; sc_prio := sc_prio s3;
                                     sc_suspend := sc_suspend s3 ++ [(ts, i)]; sc_syscall := sc_syscall s3;
                                     sc_sys_suspend := sc_sys_suspend s3; sc_cancel := sc_cancel s3; sc_gone := sc_gone s3 |} in
                        do_schedule f s4 deadline results acc2
                      else do_schedule f (ready_push s3 i) deadline results acc2
                  | ROk Cancelled => do_schedule f s3 deadline results acc2
                  | ROk (Complete v) => do_schedule f s3 deadline (results ++ [(i, ROk (Complete v))]) acc2
                  | ROk (Error m) => do_schedule f s3 deadline (results ++ [(i, ROk (Error m))]) acc2
                  | _ =>
                      (* resume()? failed or an unexpected state: the coroutine is dropped, Err returned *)
                      ({| sc_thr := sc_thr s3; sc_q := sc_q s3; sc_prio := sc_prio s3; sc_suspend := sc_suspend s3;
                          sc_syscall := sc_syscall s3; sc_sys_suspend := sc_sys_suspend s3; sc_cancel := sc_cancel s3;
                          sc_gone := i :: sc_gone s3 |}, PassErr, acc2)
                  end
            end
        end
  end.

(** an upper bound on the number of loop iterations of one pass: every iteration pops a
    coroutine, and a popped coroutine is dropped or executes at least one instruction or ends *)
Definition pass_fuel (s : sched) : nat :=
  S (fold_right Nat.add O (map (fun c => S (S (length (c_body c)))) (t_cos (sc_thr s)))).

(** [try_resume(co_id)] *)
Definition try_resume (s : sched) (i : nat) : sched * res * list ev :=
  if mem_nat i (sc_syscall s) then
    let s1 := {| sc_thr := sc_thr s; sc_q := sc_q s; sc_prio := sc_prio s; sc_suspend := sc_suspend s;
                 sc_syscall := remove_nat i (sc_syscall s); sc_sys_suspend := sc_sys_suspend s;
                 sc_cancel := sc_cancel s; sc_gone := sc_gone s |} in
    match nth_error (t_cos (sc_thr s1)) i with
    | Some c =>
        match c_st c with
        | Syscall y n (SSuspend _) =>
            let '(t', e) := apply_change (sc_thr s1) i c (Syscall y n SCallback) in
            (ready_push (with_thr s1 t') i, RUnit, e)
        | _ => (s1, RUnwound, [])     (* unreachable!(): the coroutine was taken out of the map and is lost *)
        end
    | None => (s1, RUnwound, [])
    end
  else (s, RUnit, []).

Inductive sop :=
| Submit (body : list instr) (prio : option Z)
| Pass (deadline : Z)                 (* try_timeout_schedule(deadline) *)
| TryResume (i : nat)
| Cancel (i : nat)                    (* Scheduler::try_cancel_coroutine(id of i) *)
| Clock (c : Z).

Inductive sobs :=
| SUnit
| SPass (r : pass_res) (evs : list ev)
| SCall (r : res) (evs : list ev).

Definition sstep (s : sched) (o : sop) : sched * sobs :=
  match o with
  | Submit body prio => (submit s body prio, SUnit)
  | Pass deadline =>
      let '(s', r, e) := do_schedule (pass_fuel s) s deadline [] [] in (s', SPass r e)
  | TryResume i => let '(s', r, e) := try_resume s i in (s', SCall r e)
  | Cancel i =>
      ({| sc_thr := sc_thr s; sc_q := sc_q s; sc_prio := sc_prio s; sc_suspend := sc_suspend s;
          sc_syscall := sc_syscall s; sc_sys_suspend := sc_sys_suspend s;
          sc_cancel := if mem_nat i (sc_cancel s) then sc_cancel s else i :: sc_cancel s; sc_gone := sc_gone s |}, SUnit)
  | Clock c => (with_thr s (upd_clock (sc_thr s) c), SUnit)
  end.

Fixpoint srun (s : sched) (ops : list sop) : list sobs :=
  match ops with
  | [] => []
  | o :: ops' => let '(s', r) := sstep s o in r :: srun s' ops'
  end.
