(** Proofs about the wait/notify protocol ([Sched/Join.v]) for ALL schedules. The state space is
    finite: the set of states reachable under any schedule is computed once ([reach]), shown closed
    under every step by [vm_compute], and every run is shown to stay inside it; properties are then
    checked on that finite set and lifted to all schedules. *)
From OCV Require Import Base.Prelude Sched.Join.
Open Scope Z_scope.

Definition wpc_eqb (a b : wpc) : bool :=
  match a, b with
  | W1, W1 | W2, W2 | W2b, W2b | W3, W3 | W4, W4 => true
  | WDone g t, WDone g' t' => Bool.eqb g g' && Bool.eqb t t'
  | _, _ => false
  end.
Definition cpc_eqb (a b : cpc) : bool :=
  match a, b with C1, C1 | C2, C2 | CDone, CDone => true | _, _ => false end.
Definition jst_eqb (a b : jst) : bool :=
  Bool.eqb (j_result a) (j_result b) && Bool.eqb (j_entry a) (j_entry b) && Bool.eqb (j_pending a) (j_pending b)
  && wpc_eqb (j_w a) (j_w b) && cpc_eqb (j_c a) (j_c b).

Lemma wpc_eqb_eq a b : wpc_eqb a b = true -> a = b.
Proof.
  destruct a, b; cbn; try discriminate; try reflexivity.
  intro H. apply andb_true_iff in H as [H1 H2]. apply eqb_prop in H1, H2. subst. reflexivity.
Qed.
Lemma cpc_eqb_eq a b : cpc_eqb a b = true -> a = b.
Proof. destruct a, b; cbn; try discriminate; reflexivity. Qed.
Lemma jst_eqb_eq a b : jst_eqb a b = true -> a = b.
Proof.
  destruct a as [r e p w c], b as [r' e' p' w' c']; unfold jst_eqb; cbn [j_result j_entry j_pending j_w j_c].
  intro H. repeat (apply andb_true_iff in H as [H ?]).
  apply eqb_prop in H. repeat match goal with X : Bool.eqb _ _ = true |- _ => apply eqb_prop in X end.
  match goal with X : wpc_eqb _ _ = true |- _ => apply wpc_eqb_eq in X end.
  match goal with X : cpc_eqb _ _ = true |- _ => apply cpc_eqb_eq in X end.
  subst. reflexivity.
Qed.
Lemma jst_eqb_refl a : jst_eqb a a = true.
Proof.
  destruct a as [r e p w c]; unfold jst_eqb; cbn [j_result j_entry j_pending j_w j_c].
  rewrite !eqb_reflx. destruct w as [| | | | |g t], c; cbn; rewrite ?eqb_reflx; reflexivity.
Qed.

Definition jmem (s : jst) (l : list jst) : bool := existsb (jst_eqb s) l.
Lemma jmem_In s l : jmem s l = true -> In s l.
Proof.
  unfold jmem. intro H. apply existsb_exists in H as (x & Hx & He). apply jst_eqb_eq in He. subst. exact Hx.
Qed.
Lemma In_jmem s l : In s l -> jmem s l = true.
Proof. intro H. apply existsb_exists. exists s. split; [exact H | apply jst_eqb_refl]. Qed.

Definition moves : list who := [Waiter; Completer; Timeout].

(** breadth-first closure with fuel *)
Fixpoint close (p : proto) (fuel : nat) (seen frontier : list jst) : list jst :=
  match fuel with
  | O => seen
  | S f =>
      let next := flat_map (fun s => map (jstep p s) moves) frontier in
      let fresh := fold_left (fun acc s => if jmem s seen || jmem s acc then acc else acc ++ [s]) next [] in
      match fresh with
      | [] => seen
      | _ => close p f (seen ++ fresh) fresh
      end
  end.

Definition reach (p : proto) : list jst := close p 40 [j0] [j0].

Definition closed (p : proto) (R : list jst) : bool :=
  jmem j0 R && forallb (fun s => forallb (fun a => jmem (jstep p s a) R) moves) R.

Lemma reach_closed_repaired : closed Repaired (reach Repaired) = true.
Proof. vm_compute. reflexivity. Qed.
Lemma reach_closed_old : closed Old (reach Old) = true.
Proof. vm_compute. reflexivity. Qed.

Lemma closed_run p R : closed p R = true -> forall sched s, In s R -> In (fold_left (jstep p) sched s) R.
Proof.
  intros Hc. apply andb_true_iff in Hc as [_ Hstep]. rewrite forallb_forall in Hstep.
  induction sched as [|a sched IH]; intros s Hs; [exact Hs|].
  cbn [fold_left]. apply IH. specialize (Hstep s Hs). rewrite forallb_forall in Hstep.
  apply jmem_In. apply Hstep. destruct a; cbn; auto.
Qed.

Lemma run_in p R : closed p R = true -> forall sched, In (jrun p sched) R.
Proof.
  intros Hc sched. unfold jrun. apply (closed_run p R Hc).
  unfold closed in Hc. apply andb_true_iff in Hc as [H0 _]. apply jmem_In. exact H0.
Qed.

(** lifting a decidable property from a closed finite set to every schedule *)
Lemma lift p R (P : jst -> bool) :
  closed p R = true -> forallb P R = true -> forall sched, P (jrun p sched) = true.
Proof.
  intros Hc HP sched. rewrite forallb_forall in HP. apply HP. apply (run_in p R Hc).
Qed.

(** * The properties *)

(** no lost wake-up, for every interleaving of the waiter, the completer and the timeout *)
Theorem no_lost_wakeup : forall sched, lost_wakeup (jrun Repaired sched) = false.
Proof.
  intro sched. apply negb_true_iff.
  apply (lift Repaired (reach Repaired) (fun s => negb (lost_wakeup s)) reach_closed_repaired). vm_compute. reflexivity.
Qed.

(** prompt: once the task has completed, a waiter that has not returned yet can proceed without
    waiting for its timeout *)
Definition prompt_ok (s : jst) : bool :=
  match j_c s with
  | CDone => match j_w s with WDone _ _ => true | _ => waiter_enabled s end
  | _ => true
  end.
Theorem prompt : forall sched, prompt_ok (jrun Repaired sched) = true.
Proof. intro sched. apply (lift Repaired (reach Repaired) prompt_ok reach_closed_repaired). vm_compute. reflexivity. Qed.

(** a result is handed out only after the completer inserted it, and at most once *)
Definition own_result_ok (s : jst) : bool :=
  match j_w s with
  | WDone true _ => negb (cpc_eqb (j_c s) C1) && negb (j_result s)
  | _ => true
  end.
Theorem own_result : forall p sched, own_result_ok (jrun p sched) = true.
Proof.
  intros [|] sched.
  - apply (lift Repaired (reach Repaired) own_result_ok reach_closed_repaired). vm_compute. reflexivity.
  - apply (lift Old (reach Old) own_result_ok reach_closed_old). vm_compute. reflexivity.
Qed.

(** a timed-out wait without a result: the task had not completed when the timeout fired; in the
    final state this shows as "the result is still there or the completer has not inserted yet" *)
Definition timeout_ok (s : jst) : bool :=
  match j_w s with
  | WDone false true => true
  | WDone false false => false     (* woken by a notification yet no result: impossible with one waiter *)
  | _ => true
  end.
Theorem woken_means_result : forall sched, timeout_ok (jrun Repaired sched) = true.
Proof. intro sched. apply (lift Repaired (reach Repaired) timeout_ok reach_closed_repaired). vm_compute. reflexivity. Qed.

(** the protocol before the repair loses the wake-up: the task completes between the waiter's
    first check and its registration *)
Theorem old_protocol_lost_wakeup : exists sched, lost_wakeup (jrun Old sched) = true.
Proof. exists [Waiter; Completer; Completer; Waiter]. vm_compute. reflexivity. Qed.

Example join_nonvacuous :
  List.length (reach Repaired) = 23%nat /\
  jrun Repaired [Waiter; Completer; Completer; Waiter; Waiter] =
    {| j_result := false; j_entry := false; j_pending := true; j_w := WDone true false; j_c := CDone |}.
Proof. split; vm_compute; reflexivity. Qed.

(** * A task that has finished before the wait begins: the wait never reports a timeout, whatever
    its wait time (the [Timeout] move is enabled at every step, so a zero or already expired
    deadline is included) *)
Definition step_closed (p : proto) (R : list jst) : bool :=
  forallb (fun s => forallb (fun a => jmem (jstep p s a) R) moves) R.

Lemma step_closed_run p R : step_closed p R = true -> forall sched s, In s R -> In (fold_left (jstep p) sched s) R.
Proof.
  intros Hstep. unfold step_closed in Hstep. rewrite forallb_forall in Hstep.
  induction sched as [|a sched IH]; intros s Hs; [exact Hs|].
  cbn [fold_left]. apply IH. specialize (Hstep s Hs). rewrite forallb_forall in Hstep.
  apply jmem_In. apply Hstep. destruct a; cbn; auto.
Qed.

(** the completer has inserted the result (its first step) before anything else happens *)
Definition j_finished : jst := jstep Repaired j0 Completer.
Definition reach_finished : list jst := close Repaired 40 [j_finished] [j_finished].

Definition not_timed_out_empty (s : jst) : bool :=
  match j_w s with WDone false _ => false | _ => true end.

Theorem finished_task_never_times_out : forall sched,
  not_timed_out_empty (fold_left (jstep Repaired) sched j_finished) = true.
Proof.
  intro sched.
  assert (Hc : step_closed Repaired reach_finished = true) by (vm_compute; reflexivity).
  assert (HP : forallb not_timed_out_empty reach_finished = true) by (vm_compute; reflexivity).
  rewrite forallb_forall in HP. apply HP. apply (step_closed_run Repaired reach_finished Hc).
  vm_compute. auto.
Qed.

(** and the waiter does get it as soon as it moves: one waiter step from any such state where it has
    not returned yet ends the wait with the result *)
Theorem finished_task_first_check_succeeds :
  j_w (jstep Repaired j_finished Waiter) = WDone true false.
Proof. vm_compute. reflexivity. Qed.

(** a wait that reports a timeout without a result: at that moment the result was not in the map
    (the task had not finished, or its result had been handed out) *)
Theorem timeout_only_without_result : forall s,
  j_w s = W3 -> j_w (jstep Repaired s Timeout) = WDone false true -> j_result s = false.
Proof.
  intros s Hw. cbn [jstep]. rewrite Hw. destruct (j_result s); cbn; [discriminate | reflexivity].
Qed.
