(** The scheduling pass keeps the simulation invariant. *)
From OCV Require Import Base.Prelude Misc.Time Queue.PMap Queue.OWS Queue.OWSOracle Queue.OWSLemmas Queue.OWSModel Queue.OWSStep.
From OCV Require Import Coroutine.Co Coroutine.CoLemmas Sched.Sched Sched.Pool Sched.PoolOracle Sched.PoolBase Sched.PoolWf Sched.PoolQ Sched.PoolJ Sched.PoolJLemmas Sched.PoolCanon Sched.PoolUnfold Sched.PoolMeasure Sched.PoolJStep Sched.PoolJLoop Sched.PoolCount Sched.PoolBound Sched.PoolJPass Sched.PoolJHole.
From Coq Require Import ZifyBool ZifyNat.
Open Scope Z_scope.

Section Sched.
Variable mx : Z.
Variable kp : Z.

Lemma G_set_live_None x w k new :
  G mx x None -> get_worker x w = Some k -> live k = true -> terminal new = false ->
  G mx (upd_worker x w (with_st k new)) None.
Proof.
  intros HG Hk Hl Hnew. unfold get_worker in Hk.
  assert (w < length (pw_workers x))%nat as Hlt by (eapply nth_error_Some_lt, Hk).
  destruct HG as [HG|[HG|(v & kv & Hv & Hlv & [Hc|[Hc _]])]]; [left; exact HG | right; left; exact HG | | discriminate].
  right. right. autorewrite with pw. destruct (Nat.eq_dec v w) as [->|Hne].
  - exists w, (with_st k new). rewrite nth_error_set_nth_same by exact Hlt. rewrite Hk in Hv. injection Hv as <-.
    split; [reflexivity|]. split; [unfold live; cbn [with_st k_st]; rewrite Hnew; reflexivity | left; exact Hc].
  - exists v, kv. rewrite nth_error_set_nth_other by exact Hne. auto.
Qed.

Lemma G_push x w h : G mx x h -> G mx (k_push 0 x w) h.
Proof. apply G_frame; reflexivity. Qed.

Lemma G_set_cq x q h : G mx x h -> G mx (set_cq x q) h.
Proof. apply G_frame; reflexivity. Qed.

(** * the potential of a pass: [psi] when there is no keep-alive; otherwise [psi] weighs more than
    all the idle rounds ([ipot]) that may follow a working round *)
Definition ibound : Z := mx * kcap kp + mx.
Definition pot (x : pw) (d : sdata) : Z := if kp <=? 0 then psi x d else (ibound + 1) * psi x d + ipot mx kp x.

Lemma ipot_bounds tnt x d h t : J mx kp tnt x d h t -> 0 <= ipot mx kp x <= ibound.
Proof.
  intro HJ. pose proof (j_p _ _ _ _ _ _ _ _ HJ) as HP. destruct (jp_keep _ _ _ _ HP) as (_ & _ & Hcr & Hpf).
  pose proof (jp_mx _ _ _ _ HP) as Hmx.
  pose proof (phimax_nonneg kp (pw_clock x) (pw_workers x)) as H1. pose proof (phimax_bound kp (pw_clock x) (pw_workers x) Hcr) as H2.
  unfold ipot, ibound, phix, pfx, pfc. nia.
Qed.

Lemma ibound_nonneg tnt x d h t : J mx kp tnt x d h t -> 0 <= ibound.
Proof. intro HJ. pose proof (ipot_bounds tnt x d h t HJ). lia. Qed.

Lemma pot_dec a a' i i' :
  0 <= i -> i' <= ibound -> 0 <= ibound ->
  (a' + 1 <= a \/ (0 < kp /\ a' <= a /\ i' + 1 <= i)) ->
  (if kp <=? 0 then a' else (ibound + 1) * a' + i') + 1 <= (if kp <=? 0 then a else (ibound + 1) * a + i).
Proof. intros H1 H2 H3 H. destruct (kp <=? 0) eqn:E; [lia|]. nia. Qed.

Lemma pot_le a a' i i' :
  0 <= i -> i' <= ibound -> 0 <= ibound ->
  a' <= a -> (a' = a -> i' = i) ->
  (if kp <=? 0 then a' else (ibound + 1) * a' + i') <= (if kp <=? 0 then a else (ibound + 1) * a + i).
Proof.
  intros H1 H2 H3 H4 H5. destruct (kp <=? 0) eqn:E; [lia|]. destruct (Z.eq_dec a' a) as [->|Hne]; [rewrite (H5 eq_refl); lia|]. nia.
Qed.

Lemma ipot_push x w : ipot mx kp (k_push 0 x w) = ipot mx kp x.
Proof. reflexivity. Qed.

(** * check_suspend *)
Lemma k_change_ready x i k : get_worker x i = Some k ->
  k_change x i Ready = (upd_worker x i (with_st k Ready), [EL 0 i (CbChanged Ready) (k_st k)]).
Proof. intro Hk. unfold k_change. rewrite Hk. reflexivity. Qed.

Lemma parked_facts_ready k y ts : k_st k = Suspend y ts -> parked_facts k -> parked_facts (with_st k Ready).
Proof.
  intros Est (Hd & Ht & m & Hm & Hb). rewrite Est in Hm. cbn [pmode] in Hm. injection Hm as <-.
  split; [exact Hd|]. split; [exact Ht|]. exists MRun. split; [reflexivity|]. cbn [with_st k_task k_st].
  destruct (k_task k) as [[j rest]|]; [exact Hb | auto].
Qed.

Lemma csusp_J : forall fuel tnt x d acc t,
  J mx kp tnt x d None t -> quiet_off t -> G mx x None -> pw_ts x = [] ->
  exists x' d' evs, csusp fuel x d acc = COk pw x' d' (acc ++ evs) /\
    J mx kp tnt x' d' None (fold_left pev evs t) /\ G mx x' None /\ pw_ts x' = [] /\ pw_clock x' = pw_clock x /\
    ((length (sd_suspend d) < fuel)%nat -> forall ts w, In (ts, w) (sd_suspend d') -> pw_clock x < ts) /\
    psi x' d' = psi x d /\ ipot mx kp x' = ipot mx kp x.
Proof.
  induction fuel as [|f IH]; intros tnt x d acc t HJ Hq HG Hts.
  - exists x, d, []. cbn [csusp check_suspend fold_left]. rewrite app_nil_r. split; [reflexivity|]. split; [exact HJ|]. split; [exact HG|]. split; [exact Hts|]. split; [reflexivity|]. split; [|split; reflexivity]. intro H. exfalso. lia.
  - rewrite csusp_S. destruct (heap_min (sd_suspend d)) as [[ts i]|] eqn:Emin.
    2:{ exists x, d, []. rewrite app_nil_r. split; [reflexivity|]. cbn [fold_left].
        split; [exact HJ|]. split; [exact HG|]. split; [exact Hts|]. split; [reflexivity|]. split; [|split; reflexivity].
        intros _ ts w Hin. apply heap_min_None in Emin. rewrite Emin in Hin. destruct Hin. }
    destruct (pw_clock x <? ts) eqn:Ecl.
    { exists x, d, []. rewrite app_nil_r. split; [reflexivity|]. cbn [fold_left].
      split; [exact HJ|]. split; [exact HG|]. split; [exact Hts|]. split; [reflexivity|]. split; [|split; reflexivity].
      intros _ ts' w Hin. pose proof (heap_min_le _ _ _ Emin _ _ Hin). lia. }
    pose proof (heap_min_In _ _ Emin) as Hin.
    destruct (J_open_susp mx kp tnt x d t ts i HJ Hin) as (k & y & Hk & Est & Hl & Hp & HJ1).
    unfold co_ready, k_state. rewrite Hk. cbn [option_map]. rewrite Est. cbn [tr_ready].
    assert (ts <=? pw_clock x = true) as -> by lia.
    rewrite (k_change_ready x i k Hk). rewrite Est.
    set (x1 := upd_worker x i (with_st k Ready)). set (e := EL 0 i (CbChanged Ready) (Suspend y ts)).
    assert (J mx kp tnt x1 (d_rm_susp d (ts, i)) (Some i) (pev t e)) as HJ2.
    { unfold x1, e. rewrite <- Est. apply J_set_live; [exact HJ1 | exact Hk | exact Hl | reflexivity]. }
    assert (get_worker x1 i = Some (with_st k Ready)) as Hk1.
    { unfold x1. apply get_worker_upd_worker_same. eapply get_worker_lt, Hk. }
    assert (J mx kp tnt (k_push 0 x1 i) (d_rm_susp d (ts, i)) None (pev t e)) as HJ3.
    { eapply J_close_push; [exact HJ2 | exact Hk1 | reflexivity | eapply parked_facts_ready; eassumption | left; reflexivity]. }
    destruct (IH tnt (k_push 0 x1 i) (d_rm_susp d (ts, i)) (acc ++ [e]) (pev t e) HJ3)
      as (x' & d' & evs & Ec & HJ' & HG' & Hts' & Ecl' & Hfut & Hpsi & Hipot).
    + unfold quiet_off. rewrite po_pools_pev. exact Hq.
    + apply G_push. unfold x1. apply G_set_live_None; [exact HG | exact Hk | exact Hl | reflexivity].
    + exact Hts.
    + exists x', d', (e :: evs). rewrite Ec. split; [rewrite <- app_assoc; reflexivity|]. cbn [fold_left].
      split; [exact HJ'|]. split; [exact HG'|]. split; [exact Hts'|]. split; [exact Ecl'|]. split; [|split].
      * intros Hlen. apply Hfut. unfold d_rm_susp. cbn [sd_suspend]. rewrite (heap_remove_length _ _ Hin) in Hlen. lia.
      * rewrite Hpsi. unfold psi, k_push, d_rm_susp. cbn [sd_sys_suspend]. autorewrite with pw.
        change (rho (set_cq x1 _)) with (rho x1). unfold x1.
        rewrite (rho_upd_worker_same x i k (with_st k Ready) Hk); [reflexivity | unfold live; cbn [with_st k_st]; rewrite Est; reflexivity | reflexivity].
      * rewrite Hipot, ipot_push. unfold x1. apply ipot_set_live; [exact Hk | exact Hl | reflexivity].
Qed.

(** * check_sys *)
Lemma parked_facts_timeout k y n ts :
  k_st k = Syscall y n (SSuspend ts) -> parked_facts k -> parked_facts (with_st k (Syscall y n STimeout)).
Proof.
  intros Est (Hd & Ht & m & Hm & Hb). rewrite Est in Hm. cbn [pmode] in Hm. injection Hm as <-.
  split; [exact Hd|]. split; [exact Ht|]. exists (MWoken n). split; [reflexivity|]. cbn [with_st k_task k_st].
  destruct (k_task k) as [[j rest]|]; [exact Hb|]. destruct Hb as [Hb _]. discriminate.
Qed.

Lemma csys_J : forall fuel tnt x d acc t,
  J mx kp tnt x d None t -> quiet_off t -> G mx x None -> pw_ts x = [] ->
  exists x' d' evs, csys fuel x d acc = COk pw x' d' (acc ++ evs) /\
    J mx kp tnt x' d' None (fold_left pev evs t) /\ G mx x' None /\ pw_ts x' = [] /\ pw_clock x' = pw_clock x /\
    sd_suspend d' = sd_suspend d /\
    ((length (sd_sys_suspend d) < fuel)%nat -> forall ts w, In (ts, w) (sd_sys_suspend d') -> pw_clock x < ts) /\
    psi x' d' <= psi x d /\ (psi x' d' = psi x d -> ipot mx kp x' = ipot mx kp x).
Proof.
  induction fuel as [|f IH]; intros tnt x d acc t HJ Hq HG Hts.
  - exists x, d, []. cbn [csys check_sys fold_left]. rewrite app_nil_r. split; [reflexivity|].
    split; [exact HJ|]. split; [exact HG|]. split; [exact Hts|]. split; [reflexivity|]. split; [reflexivity|]. split; [|split; [lia | reflexivity]]. intro H. exfalso. lia.
  - rewrite csys_S. destruct (heap_min (sd_sys_suspend d)) as [[ts i]|] eqn:Emin.
    2:{ exists x, d, []. rewrite app_nil_r. split; [reflexivity|]. cbn [fold_left].
        split; [exact HJ|]. split; [exact HG|]. split; [exact Hts|]. split; [reflexivity|]. split; [reflexivity|]. split; [|split; [lia | reflexivity]].
        intros _ ts w Hin. apply heap_min_None in Emin. rewrite Emin in Hin. destruct Hin. }
    destruct (pw_clock x <? ts) eqn:Ecl.
    { exists x, d, []. rewrite app_nil_r. split; [reflexivity|]. cbn [fold_left].
      split; [exact HJ|]. split; [exact HG|]. split; [exact Hts|]. split; [reflexivity|]. split; [reflexivity|]. split; [|split; [lia | reflexivity]].
      intros _ ts' w Hin. pose proof (heap_min_le _ _ _ Emin _ _ Hin). lia. }
    pose proof (heap_min_In _ _ Emin) as Hin.
    destruct (J_open_sys mx kp tnt x d t ts i HJ Hin) as (k & y & n & Hk & Est & Hl & Hp & Hmap & HJ1).
    assert (mem_nat i (sd_syscall d) = true) as -> by (apply mem_nat_In, Hmap).
    unfold k_state. rewrite Hk. cbn [option_map]. rewrite Est.
    destruct (J_k_change mx kp tnt x (d_rm_sys d (ts, i)) i t k (Syscall y n STimeout) HJ1 Hq Hk Hl ltac:(discriminate))
      as (x1 & Ekc & HJ2 & Hm2 & Hk2 & HG2a & _ & _).
    destruct (k_change_rho x i k (Syscall y n STimeout) x1 _ (jp_pools _ _ _ _ (j_p _ _ _ _ _ _ _ _ HJ1)) (jp_cur _ _ _ _ (j_p _ _ _ _ _ _ _ _ HJ1)) Hk Hl Ekc) as [Hr2 _].
    cbn [terminal creator_grows] in Hr2.
    rewrite Ekc. rewrite Est in HJ2 |- *. set (e := EL 0 i (CbChanged (Syscall y n STimeout)) (Syscall y n (SSuspend ts))) in *.
    destruct Hm2 as [M1 M2 M3 M4 M5 M6].
    assert (J mx kp tnt (k_push 0 x1 i) (d_rm_sys d (ts, i)) None (pev t e)) as HJ3.
    { eapply J_close_push; [exact HJ2 | exact Hk2 | reflexivity | eapply parked_facts_timeout; eassumption | right; right; exists y, n; reflexivity]. }
    destruct (IH tnt (k_push 0 x1 i) (d_rm_sys d (ts, i)) (acc ++ [e]) (pev t e) HJ3)
      as (x' & d' & evs & Ec & HJ' & HG' & Hts' & Ecl' & Esu & Hfut & Hpsi & _).
    + unfold quiet_off. rewrite po_pools_pev. exact Hq.
    + apply G_push, HG2a. reflexivity.
    + unfold k_push. autorewrite with pw. congruence.
    + assert (psi (k_push 0 x1 i) (d_rm_sys d (ts, i)) + 1 <= psi x d) as Hstep.
      { unfold psi, k_push, d_rm_sys. cbn [sd_sys_suspend]. autorewrite with pw.
        change (rho (set_cq x1 _)) with (rho x1). rewrite M1. pose proof (heap_remove_length _ _ Hin) as Hlen. lia. }
      exists x', d', (e :: evs). rewrite Ec. split; [rewrite <- app_assoc; reflexivity|]. cbn [fold_left].
      split; [exact HJ'|]. split; [exact HG'|]. split; [exact Hts'|].
      split; [rewrite Ecl'; unfold k_push; autorewrite with pw; exact M4|]. split; [exact Esu|]. split; [|split].
      * intros Hlen ts' w' Hin'. rewrite <- M4. apply (Hfut ltac:(unfold d_rm_sys; cbn [sd_sys_suspend]; rewrite (heap_remove_length _ _ Hin) in Hlen; lia) ts' w').
        exact Hin'.
      * lia.
      * intro E. exfalso. lia.
Qed.

(** * check_ready *)
Lemma cready_J tnt x d acc t :
  J mx kp tnt x d None t -> quiet_off t -> G mx x None -> pw_ts x = [] ->
  exists x' d' evs, cready x d acc = COk pw x' d' (acc ++ evs) /\
    J mx kp tnt x' d' None (fold_left pev evs t) /\ G mx x' None /\ pw_ts x' = [] /\ pw_clock x' = pw_clock x /\
    (forall ts w, In (ts, w) (sd_suspend d') -> pw_clock x < ts) /\
    (forall ts w, In (ts, w) (sd_sys_suspend d') -> pw_clock x < ts) /\
    psi x' d' <= psi x d /\ (psi x' d' = psi x d -> ipot mx kp x' = ipot mx kp x).
Proof.
  intros HJ Hq HG Hts. rewrite cready_eq.
  destruct (csusp_J (S (length (sd_suspend d))) tnt x d acc t HJ Hq HG Hts) as (x1 & d1 & e1 & E1 & HJ1 & HG1 & Hts1 & Ec1 & F1 & P1 & I1).
  rewrite E1.
  destruct (csys_J (S (length (sd_sys_suspend d1))) tnt x1 d1 (acc ++ e1) (fold_left pev e1 t) HJ1 (quiet_off_fold _ _ Hq) HG1 Hts1)
    as (x2 & d2 & e2 & E2 & HJ2 & HG2 & Hts2 & Ec2 & Esu & F2 & P2 & I2).
  rewrite E2. exists x2, d2, (e1 ++ e2). rewrite app_assoc, fold_pev_app. split; [reflexivity|].
  split; [exact HJ2|]. split; [exact HG2|]. split; [exact Hts2|]. split; [congruence|]. split; [|split; [|split]].
  - rewrite Esu. apply F1. lia.
  - intros ts w Hin. rewrite <- Ec1. apply (F2 ltac:(lia) ts w Hin).
  - lia.
  - intro E. rewrite I2 by lia. exact I1.
Qed.

(** * a cancelled worker is dropped *)
Lemma Jc_uncancel_frame tnt cc x d h t w : Jc mx kp tnt cc x d h t -> Jc mx kp tnt cc (k_uncancel x w) d h t.
Proof.
  intros [HQ HL HP HS HT HR HW]. unfold k_uncancel. constructor; autorewrite with pw; try assumption.
  destruct HP as [P1 P2 P3 P4 P5 P6 P7 P8 P9 P10 P11 P12]. constructor; autorewrite with pw; assumption.
Qed.

Lemma Jc_cc_shrink tnt cc x d h t w k :
  Jc mx kp tnt cc x d h t -> get_worker x w = Some k -> live k = false -> Jc mx kp tnt (remove_nat w cc) x d h t.
Proof.
  intros [HQ HL HP HS HT HR HW] Hk Hl. constructor; try assumption.
  destruct HT as [Hlen Hq Hta Hhold Hinj Hmode Htb Hte Ht3 Htf Hrtnd Hrt Hrts Hrt3 Hcc Hc0 Hctb Hsuf Hfin Hccnd Hccb]. constructor; try assumption.
  - intros v kv i rest Hv Hlv Hin Hkv. eapply Htf; try eassumption. eapply remove_nat_In, Hin.
  - intros v kv i rest Hv Hlv Hkv Hc1. apply remove_nat_In_other; [|eapply Hcc; eassumption].
    intros ->. unfold get_worker in Hk. rewrite Hk in Hv. injection Hv as <-. congruence.
  - apply remove_nat_NoDup, Hccnd.
  - intros v Hv. apply Hccb. eapply remove_nat_In, Hv.
Qed.

Lemma remove_nat_length w l : In w l -> S (length (remove_nat w l)) = length l.
Proof.
  induction l as [|a l IH]; cbn [remove_nat In]; [tauto|]. destruct (Nat.eqb w a) eqn:E.
  - intros _. reflexivity.
  - apply Nat.eqb_neq in E. intros [H|H]; [congruence|]. cbn [length]. rewrite (IH H). reflexivity.
Qed.

Lemma J_drop tnt x d w t k :
  J mx kp tnt x d (Some w) t -> quiet_off t -> get_worker x w = Some k -> live k = true -> In w (pw_cancel_cos x) ->
  exists x3, k_change (k_uncancel x w) w Cancelled = (x3, [EL 0 w (CbChanged Cancelled) (k_st k)]) /\
    J mx kp tnt x3 (d_gone d w) None (pev t (EL 0 w (CbChanged Cancelled) (k_st k))) /\ G mx x3 None /\
    pw_ts x3 = pw_ts x /\ pw_clock x3 = pw_clock x /\
    rho x3 <= rho x /\ S (length (pw_cancel_cos x3)) = length (pw_cancel_cos x).
Proof.
  intros HJ Hq Hk Hl Hin.
  pose proof (Jc_uncancel_frame tnt _ x d (Some w) t w HJ) as HJu.
  assert (get_worker (k_uncancel x w) w = Some k) as Hku by exact Hk.
  destruct (Jc_k_change mx kp tnt _ (k_uncancel x w) d w t k Cancelled HJu Hq Hku Hl) as (x3 & E & HJ3 & Hm & Hk3 & HGa & _ & _).
  { intros _. destruct (k_task k) as [[i rest]|] eqn:Et; [right | left; reflexivity].
    exists i, rest. split; [reflexivity|]. eapply (jt_tf _ _ _ _ _ _ _ _ (j_t _ _ _ _ _ _ _ _ HJ)); eassumption. }
  exists x3. split; [exact E|]. destruct Hm as [M1 M2 M3 M4 M5 M6].
  assert (J mx kp tnt x3 d (Some w) (pev t (EL 0 w (CbChanged Cancelled) (k_st k)))) as HJ3'.
  { unfold J. rewrite M1. unfold k_uncancel at 1. autorewrite with pw.
    eapply Jc_cc_shrink; [exact HJ3 | exact Hk3 | reflexivity]. }
  split; [eapply (J_close_dead mx kp tnt x3 d (d_gone d w) w _ _ HJ3' Hk3); reflexivity|].
  split; [apply HGa; reflexivity|]. split; [rewrite M2; reflexivity|]. split; [rewrite M4; reflexivity|].
  destruct (k_change_rho (k_uncancel x w) w k Cancelled x3 _ (jp_pools _ _ _ _ (j_p _ _ _ _ _ _ _ _ HJ)) (jp_cur _ _ _ _ (j_p _ _ _ _ _ _ _ _ HJ)) Hku Hl E) as [Hr _].
  cbn [terminal creator_grows] in Hr. change (rho (k_uncancel x w)) with (rho x) in Hr. split; [lia|].
  rewrite M1. unfold k_uncancel. autorewrite with pw. apply remove_nat_length, Hin.
Qed.

(** * do_schedule *)
Definition quiescent (x : pw) (d : sdata) : Prop :=
  all_items (pw_cq x) = [] /\
  (forall ts w, In (ts, w) (sd_suspend d) -> pw_clock x < ts) /\
  (forall ts w, In (ts, w) (sd_sys_suspend d) -> pw_clock x < ts).

Definition dsched_ok (tnt : bool) (t : potr) (acc : list ev) (fuel : nat) (pot0 c0 : Z) (res : pw * sdata * pass_res * list ev) : Prop :=
  let '(x', d', r, acc') := res in
  exists evs, acc' = acc ++ evs /\
    match r with
    | PassOk l _ => J mx kp tnt x' d' None (fold_left pev evs t) /\ G mx x' None /\ pw_ts x' = [] /\ 0 <= l /\ (0 < l -> quiescent x' d') /\
                    c0 <= pw_clock x'
    | PassErr => pw_spin x' = true /\ ~ low kp x' /\ exists ws, JW ws (fold_left pev evs t) tnt
    | PassUnwound => False
    | PassDiverged => J mx kp tnt x' d' None (fold_left pev evs t) /\ pw_ts x' = [] /\ c0 <= pw_clock x' /\
                      (low kp x' -> Z.of_nat fuel <= pot0)
    end.

Lemma dsched_ok_chain tnt t acc e fuel pot0 c0 res :
  dsched_ok tnt (fold_left pev e t) (acc ++ e) fuel pot0 c0 res -> dsched_ok tnt t acc fuel pot0 c0 res.
Proof.
  destruct res as [[[x' d'] r] acc']. cbn [dsched_ok]. intros (evs & -> & H). exists (e ++ evs).
  rewrite app_assoc, fold_pev_app. split; [reflexivity | exact H].
Qed.

Lemma dsched_ok_step tnt t acc f pot1 pot0 c1 c0 res :
  dsched_ok tnt t acc f pot1 c1 res -> (kp <= 0 \/ c1 < U64MAX -> pot1 + 1 <= pot0) -> c0 <= c1 -> dsched_ok tnt t acc (S f) pot0 c0 res.
Proof.
  destruct res as [[[x' d'] r] acc']. cbn [dsched_ok]. intros (evs & -> & H) Hle Hc. exists evs. split; [reflexivity|].
  destruct r; try exact H.
  - destruct H as (H1 & H2 & H3 & H4 & H5 & H6). repeat (split; [assumption|]). lia.
  - destruct H as (H1 & H2 & H3 & H4). split; [exact H1|]. split; [exact H2|]. split; [lia|]. intro Hlow. specialize (H4 Hlow).
    assert (kp <= 0 \/ c1 < U64MAX) as Hl1 by (unfold low in Hlow; lia). specialize (Hle Hl1). lia.
Qed.

Lemma psi_nonneg x d : 0 <= psi x d.
Proof. unfold psi. pose proof (rho_nonneg x). lia. Qed.

Lemma placed_parked k i rest :
  k_dead k = false -> k_tpool k = 0%nat -> k_task k = Some (i, rest) ->
  ((exists ts, k_st k = Suspend 0 ts /\ body_from MRun rest = true) \/
   (exists y n ts, k_st k = Syscall y n (SSuspend ts) /\ body_from (MWoken n) rest = true)) ->
  parked_facts k.
Proof.
  intros Hd Ht Hk Hc. split; [exact Hd|]. split; [exact Ht|]. rewrite Hk.
  destruct Hc as [(ts & -> & Hb)|(y & n & ts & -> & Hb)]; cbn [pmode]; eauto.
Qed.

Lemma pot_nonneg tnt x d h t : J mx kp tnt x d h t -> 0 <= pot x d.
Proof.
  intro HJ. pose proof (ipot_bounds tnt x d h t HJ). pose proof (psi_nonneg x d). unfold pot. destruct (kp <=? 0); [lia | nia].
Qed.

Lemma dsched_J : forall fuel tnt x d deadline results acc t,
  J mx kp tnt x d None t -> quiet_off t -> G mx x None -> pw_ts x = [] ->
  dsched_ok tnt t acc fuel (pot x d) (pw_clock x) (dsched fuel x d deadline results acc).
Proof.
  induction fuel as [|f IH]; intros tnt x d deadline results acc t HJ Hq HG Hts.
  - cbn [dsched do_schedule dsched_ok]. exists []. rewrite app_nil_r. cbn [fold_left]. pose proof (pot_nonneg tnt x d None t HJ).
    split; [reflexivity|]. split; [exact HJ|]. split; [exact Hts|]. split; [lia|]. intros _. cbn. lia.
  - rewrite dsched_S. cbv zeta. destruct (sat_sub deadline (pw_clock x) =? 0) eqn:Elft.
    { cbn [dsched_ok]. exists []. rewrite app_nil_r. cbn [fold_left]. split; [reflexivity|].
      split; [exact HJ|]. split; [exact HG|]. split; [exact Hts|]. split; [lia|]. split; [|lia]. intro H. exfalso. lia. }
    destruct (cready_J tnt x d acc t HJ Hq HG Hts) as (x1 & d1 & e1 & Ecr & HJ1 & HG1 & Hts1 & Ecl1 & F1 & F2 & P1 & I1).
    rewrite Ecr. apply (dsched_ok_chain tnt t acc e1). set (t1 := fold_left pev e1 t) in *.
    assert (quiet_off t1) as Hq1 by (apply quiet_off_fold, Hq).
    pose proof (ipot_bounds tnt x d None t HJ) as Hib. pose proof (ipot_bounds tnt x1 d1 None t1 HJ1) as Hib1.
    assert (pot x1 d1 <= pot x d) as Hpot1.
    { unfold pot. apply pot_le; solve [lia | exact I1]. }
    unfold k_pop. pose proof (jq_c _ _ (j_q _ _ _ _ _ _ _ _ HJ1)) as HQc.
    destruct (lpop (pw_cq x1) 0 0) as [q r] eqn:Epop.
    destruct (Q1_lpop_cases _ _ _ _ HQc Epop) as [HQ' [(z & -> & Hcnt)|(-> & Hnil & Hnil')]].
    + (* a worker is popped *)
      destruct (J_open_cq mx kp tnt x1 d1 t1 q z HJ1 HQ' Hcnt) as (w & k & -> & Hk & Hl & Hp & Hres & HJ2).
      rewrite Nat2Z.id. set (x2 := set_cq x1 q) in *.
      assert (get_worker x2 w = Some k) as Hk2 by exact Hk.
      assert (psi x2 d1 = psi x1 d1) as Ep2 by reflexivity.
      assert (ipot mx kp x2 = ipot mx kp x1) as Ei2 by reflexivity.
      unfold k_cancelled. destruct (mem_nat w (pw_cancel_cos x2)) eqn:Ecc.
      * (* dropped *)
        apply mem_nat_In in Ecc.
        destruct (J_drop tnt x2 d1 w t1 k HJ2 Hq1 Hk2 Hl Ecc) as (x3 & Ekc & HJ3 & HG3 & Hts3 & Ecl3 & Hr3 & Hc3).
        rewrite Ekc. apply (dsched_ok_chain tnt t1 (acc ++ e1) [EL 0 w (CbChanged Cancelled) (k_st k)]).
        pose proof (ipot_bounds _ _ _ _ _ HJ3) as Hib3.
        eapply dsched_ok_step; [apply IH| |].
        -- exact HJ3.
        -- unfold quiet_off. cbn [fold_left]. rewrite po_pools_pev. exact Hq1.
        -- exact HG3.
        -- rewrite Hts3. exact Hts1.
        -- intros _. etransitivity; [|exact Hpot1]. unfold pot. apply pot_dec; try lia. left.
           unfold psi in *. unfold d_gone. cbn [sd_sys_suspend]. lia.
        -- rewrite Ecl3. change (pw_clock x2) with (pw_clock x1). lia.
      * (* resumed *)
        apply mem_nat_false in Ecc.
        assert (parked_ok x2 w) as Hpk.
        { destruct Hp as (Hd & Ht & m & Hm & Hb). exists k, m. repeat (split; [assumption|]). exact Hb. }
        destruct (k_resume_J mx kp tnt x2 d1 w t1 HJ2 Hq1 ltac:(apply G_None_any, G_set_cq, HG1) Hpk Ecc Hts1)
          as (x3 & r & e & Ekr & [(HJ3 & HG3 & Hts3 & Ecc3 & (k' & Hk' & -> & Hpl) & Hr3 & Hc3)|(-> & Hspin & Hhigh & Hjw)]).
        2:{ (* the worker naps for ever at the end of time *)
            rewrite Ekr. apply (dsched_ok_chain tnt t1 (acc ++ e1) e). cbn [dsched_ok]. exists []. rewrite app_nil_r. cbn [fold_left].
            split; [reflexivity|]. split; [exact Hspin|]. split; [exact Hhigh | exact Hjw]. }
        assert (pw_clock x <= pw_clock x3) as Hc3' by (change (pw_clock x2) with (pw_clock x1) in Hc3; lia).
        rewrite Ekr. apply (dsched_ok_chain tnt t1 (acc ++ e1) e).
        assert (quiet_off (fold_left pev e t1)) as Hq3 by (apply quiet_off_fold, Hq1).
        assert (low kp x3 ->
                (rho x3 + 1 + sys_cost (ROk (k_st k')) + 2 * Z.of_nat (length (sd_sys_suspend d1)) + 2 * Z.of_nat (length (pw_cancel_cos x3)) <= psi x1 d1) \/
                (0 < kp /\ sys_cost (ROk (k_st k')) = 0 /\
                 rho x3 + 2 * Z.of_nat (length (sd_sys_suspend d1)) + 2 * Z.of_nat (length (pw_cancel_cos x3)) <= psi x1 d1 /\
                 ipot mx kp x3 + 1 <= ipot mx kp x1)) as Hpsi3.
        { intro Hlow. destruct (Hr3 Hlow) as [Ha|(Hkpos & Hb1 & Hb2 & Hb3)]; [left | right].
          - unfold psi in *. rewrite Ecc3. lia.
          - split; [exact Hkpos|]. split; [exact Hb2|]. unfold psi, idle_dec in *. rewrite Ecc3. split; lia. }
        destruct Hpl as [(Hl' & v & Est)|[(Hl' & Hd' & Ht' & i & rest & Htask & Hc)|(Hl' & Hd' & Ht' & Htask & Est)]].
        -- (* completed *)
           rewrite Est in *. assert (J mx kp tnt x3 d1 None (fold_left pev e t1)) as HJ4.
           { eapply (J_close_dead mx kp tnt x3 d1 d1 w _ _ HJ3 Hk' Hl'); reflexivity. }
           pose proof (ipot_bounds _ _ _ _ _ HJ4) as Hib4.
           eapply dsched_ok_step; [apply IH; [exact HJ4 | exact Hq3 | exact HG3 | exact Hts3]| |exact Hc3'].
           intro Hlow. etransitivity; [|exact Hpot1]. unfold pot. apply pot_dec; try lia.
           destruct (Hpsi3 Hlow) as [Ha|(Hkpos & Hs0 & Hb1 & Hb2)]; [left | right; split; [exact Hkpos|]]; unfold psi in *; cbn [sys_cost] in *; lia.
        -- pose proof (placed_parked k' i rest Hd' Ht' Htask Hc) as Hp'.
           destruct Hc as [(ts & Est & Hb)|(y & n & ts & Est & Hb)]; rewrite Est in *.
           ++ destruct (pw_clock x3 <? ts) eqn:Ects.
              ** assert (J mx kp tnt x3 (d_add_susp d1 (ts, w)) None (fold_left pev e t1)) as HJ4
                   by (eapply (J_close_susp mx kp tnt x3 d1 w _ k' 0 ts HJ3 Hk' Est Hp')).
                 pose proof (ipot_bounds _ _ _ _ _ HJ4) as Hib4.
                 eapply dsched_ok_step; [apply IH; [exact HJ4 | exact Hq3 | exact HG3 | exact Hts3]| |exact Hc3'].
                 intro Hlow. etransitivity; [|exact Hpot1]. unfold pot. apply pot_dec; try lia.
                 destruct (Hpsi3 Hlow) as [Ha|(Hkpos & Hs0 & Hb1 & Hb2)]; [left | right; split; [exact Hkpos|]]; unfold psi, d_add_susp in *; cbn [sd_sys_suspend sys_cost] in *; lia.
              ** assert (J mx kp tnt (k_push 0 x3 w) d1 None (fold_left pev e t1)) as HJ4.
                 { eapply (J_close_push mx kp tnt x3 d1 w _ k' HJ3 Hk' Hl' Hp'). right. left. exists 0, ts. split; [exact Est | lia]. }
                 pose proof (ipot_bounds _ _ _ _ _ HJ4) as Hib4. rewrite ipot_push in Hib4.
                 eapply dsched_ok_step; [apply IH; [exact HJ4 | exact Hq3 | apply G_push, HG3 | exact Hts3]| |exact Hc3'].
                 intro Hlow. etransitivity; [|exact Hpot1]. unfold pot. rewrite ipot_push. apply pot_dec; try lia.
                 change (psi (k_push 0 x3 w) d1) with (psi x3 d1).
                 destruct (Hpsi3 Hlow) as [Ha|(Hkpos & Hs0 & Hb1 & Hb2)]; [left | right; split; [exact Hkpos|]]; unfold psi in *; cbn [sys_cost] in *; lia.
           ++ assert (J mx kp tnt x3 (d_add_sys d1 w ts) None (fold_left pev e t1)) as HJ4
                by (eapply (J_close_sys mx kp tnt x3 d1 w _ k' y n ts HJ3 Hk' Est Hp')).
              pose proof (ipot_bounds _ _ _ _ _ HJ4) as Hib4.
              eapply dsched_ok_step; [apply IH; [exact HJ4 | exact Hq3 | exact HG3 | exact Hts3]| |exact Hc3'].
              intro Hlow. etransitivity; [|exact Hpot1]. unfold pot. apply pot_dec; try lia.
              destruct (Hpsi3 Hlow) as [Ha|(Hkpos & Hs0 & Hb1 & Hb2)]; [left | exfalso; cbn [sys_cost] in Hs0; lia].
              unfold psi, d_add_sys in *. cbn [sd_sys_suspend sys_cost] in *. rewrite app_length. cbn [length]. lia.
        -- (* an idle worker yielded: back into the queue at once *)
           rewrite Est in *.
           assert (parked_facts k') as Hp'.
           { split; [exact Hd'|]. split; [exact Ht'|]. exists MRun. rewrite Est, Htask. cbn [pmode]. auto. }
           pose proof (jp_keep _ _ _ _ (j_p _ _ _ _ _ _ _ _ HJ3)) as (_ & Hc0 & _).
           assert (pw_clock x3 <? 0 = false) as -> by lia.
           assert (J mx kp tnt (k_push 0 x3 w) d1 None (fold_left pev e t1)) as HJ4.
           { eapply (J_close_push mx kp tnt x3 d1 w _ k' HJ3 Hk' Hl' Hp'). right. left. exists 0, 0. split; [exact Est | lia]. }
           pose proof (ipot_bounds _ _ _ _ _ HJ4) as Hib4. rewrite ipot_push in Hib4.
           eapply dsched_ok_step; [apply IH; [exact HJ4 | exact Hq3 | apply G_push, HG3 | exact Hts3]| |exact Hc3'].
           intro Hlow. etransitivity; [|exact Hpot1]. unfold pot. rewrite ipot_push. apply pot_dec; try lia.
           change (psi (k_push 0 x3 w) d1) with (psi x3 d1).
           destruct (Hpsi3 Hlow) as [Ha|(Hkpos & Hs0 & Hb1 & Hb2)]; [left | right; split; [exact Hkpos|]]; unfold psi in *; cbn [sys_cost] in *; lia.
    + (* nothing is ready: the pass ends *)
      cbn [dsched_ok]. exists []. rewrite app_nil_r. cbn [fold_left]. split; [reflexivity|].
      assert (J mx kp tnt (set_cq x1 q) d1 None t1) as HJ2.
      { apply (J_reloc mx kp tnt x1 q d1 d1 None None t1 HJ1 HQ').
        - rewrite Hnil'. rewrite <- Hnil. apply (j_l _ _ _ _ _ _ _ _ HJ1).
        - apply (j_t _ _ _ _ _ _ _ _ HJ1). }
      split; [exact HJ2|]. split; [apply G_set_cq, HG1|]. split; [exact Hts1|].
      unfold sat_sub in *. split; [lia|]. split; [|autorewrite with pw; lia]. intros _. unfold quiescent. autorewrite with pw. rewrite Ecl1. auto.
Qed.

(** * the whole pass *)
Definition Jop (tnt : bool) (x : pw) (t : potr) : Prop := J mx kp tnt x (p_sd (get_pool x 0)) None t /\ pw_ts x = [].

Lemma J_set_cur tnt x d h t : J mx kp tnt x d h t -> J mx kp tnt (set_cur x 0) d h t.
Proof.
  intros [HQ HL HP HS HT HR HW]. constructor; autorewrite with pw; try assumption.
  destruct HP as [P1 P2 P3 P4 P5 P6 P7 P8 P9 P10 P11 P12]. constructor; autorewrite with pw; auto.
Qed.

Lemma J_with_sd tnt x d h t d' : J mx kp tnt x d h t -> J mx kp tnt (upd_pool x 0 (p_with_sd d')) d h t.
Proof.
  intros HJ. pose proof HJ as [HQ HL HP HS HT HR HW].
  assert (length (pw_pools x) = 1%nat) as Hp by apply (jp_pools _ _ _ _ HP).
  assert (get_pool (upd_pool x 0 (p_with_sd d')) 0 = p_with_sd d' (get_pool x 0)) as E by (apply get_pool_upd_pool_same; lia).
  constructor; autorewrite with pw; rewrite ?E; autorewrite with pw; try assumption.
  destruct HP as [P1 P2 P3 P4 P5 P6 P7 P8 P9 P10 P11 P12].
  constructor; autorewrite with pw; rewrite ?E; autorewrite with pw; auto. rewrite set_nth_length. exact P1.
Qed.

Lemma p_sd_try_grow x : length (pw_pools x) = 1%nat -> p_sd (get_pool (try_grow x 0) 0) = p_sd (get_pool x 0).
Proof.
  intro Hp. destruct (try_grow_cases x Hp) as [[-> _]|(_ & _ & Hg)]; [reflexivity|]. rewrite (gr_pool _ _ Hg). reflexivity.
Qed.

(** the potential of a pass is below the fuel the model gives it *)
Lemma NoDup_bounded_length (l : list nat) n : NoDup l -> (forall v, In v l -> (v < n)%nat) -> (length l <= n)%nat.
Proof.
  intros Hnd Hb. rewrite <- (seq_length n 0). apply NoDup_incl_length; [exact Hnd|]. intros v Hv. apply in_seq. specialize (Hb v Hv). lia.
Qed.

Definition pass_base (x : pw) : nat := (S (S (wfuel x)) * S (S (length (pw_workers x) + length (pw_tbody x))))%nat.

Lemma psi_bound tnt x d t : J mx kp tnt x d None t -> psi x d < Z.of_nat (pass_base x).
Proof.
  intro HJ. pose proof (rho_bound mx kp tnt x d None t HJ) as Hr. pose proof (j_l _ _ _ _ _ _ _ _ HJ) as HL. pose proof (j_t _ _ _ _ _ _ _ _ HJ) as HT.
  assert (length (pw_cancel_cos x) <= length (pw_workers x))%nat as Hc.
  { apply NoDup_bounded_length; [apply (jt_ccnd _ _ _ _ _ _ _ _ HT) | apply (jt_ccb _ _ _ _ _ _ _ _ HT)]. }
  assert (length (sd_sys_suspend d) <= length (pw_workers x))%nat as Hs.
  { rewrite <- (map_length snd). apply NoDup_bounded_length.
    - apply (NoDup_count_occ Nat.eq_dec). intro w. destruct (in_dec Nat.eq_dec w (map snd (sd_sys_suspend d))) as [Hin|Hnin].
      + apply in_map_iff in Hin as ([ts v] & Ev & Hin). cbn [snd] in Ev. subst v.
        destruct (JL_in_sys _ _ _ _ _ _ HL Hin) as (k & y & n & _ & _ & _ & _ & H1 & _). unfold hpc in H1. lia.
      + rewrite (proj1 (count_occ_not_In Nat.eq_dec _ _) Hnin). lia.
    - intros v Hv. apply in_map_iff in Hv as ([ts v'] & Ev & Hin). cbn [snd] in Ev. subst v'. apply (jl_sys _ _ _ _ _ HL _ _ Hin). }
  unfold psi, pass_base, wfuel. fold (btotal (pw_tbody x)). set (KR := keep_rounds x).
  set (B := btotal (pw_tbody x)) in *. set (W := length (pw_workers x)) in *. set (T := length (pw_tbody x)) in *.
  assert (B = 0 \/ 1 <= T)%nat as HBT.
  { unfold B, T, btotal. destruct (pw_tbody x); [left; reflexivity | right; cbn [length]; lia]. }
  nia.
Qed.

Lemma pot_bound tnt x d t : J mx kp tnt x d None t -> pot x d < Z.of_nat (pass_fuel_p x).
Proof.
  intro HJ. pose proof (psi_bound tnt x d t HJ) as Hb. pose proof (keep_rounds_kcap mx kp tnt x d None t HJ) as Ek.
  pose proof (ipot_bounds tnt x d None t HJ) as Hi. pose proof (psi_nonneg x d) as Hp0.
  pose proof (j_p _ _ _ _ _ _ _ _ HJ) as HP. pose proof (jp_mx _ _ _ _ HP) as Hmx. pose proof (kcap_nonneg kp) as Hk0.
  unfold pass_fuel_p. fold (pass_base x). rewrite (jp_cur _ _ _ _ HP), (jp_max _ _ _ _ HP). unfold pot.
  destruct (kp <=? 0) eqn:E.
  - unfold kcap in Ek. rewrite E in Ek. destruct (keep_rounds x); [exact Hb | lia].
  - unfold kcap in Ek, Hk0. rewrite E in Ek, Hk0. destruct (keep_rounds x) as [|n] eqn:Ekr; [lia|].
    set (kr := S n) in *. unfold ibound, kcap in *. rewrite E in *. rewrite <- Ek in *.
    rewrite Nat2Z.inj_mul, Nat2Z.inj_add, Nat2Z.inj_add, Nat2Z.inj_mul, Nat2Z.inj_succ. rewrite Z2Nat.id by lia.
    replace (Z.max 1 mx) with mx by lia. change (Z.of_nat 3) with 3. nia.
Qed.

Definition ppass_ok (tnt : bool) (x : pw) (t : potr) (res : pw * pres * list ev) : Prop :=
  let '(x', r, e) := res in
  match r with
  | PLeft l => Jop tnt x' (fold_left pev e t) /\ G mx x' None /\ 0 <= l /\ (0 < l -> quiescent x' (p_sd (get_pool x' 0))) /\
               pw_clock x <= pw_clock x'
  | PErrStopped => x' = x /\ e = [] /\ p_state (get_pool x 0) = PStopped
  | PDiverged => ~ low kp x' /\ exists ws, JW ws (fold_left pev e t) tnt   (* only at the end of time *)
  | PErr | PUnwound => False
  end.

Lemma ppass_tail_J tnt x0 x1 t deadline :
  J mx kp tnt x1 (p_sd (get_pool x1 0)) None t -> quiet_off t -> G mx x1 None -> pw_ts x1 = [] -> pw_clock x0 <= pw_clock x1 ->
  ppass_ok tnt x0 t (let '(x2, d2, r, e) := dsched (pass_fuel_p x1) x1 (p_sd (get_pool x1 0)) deadline [] [] in ppass_tail x2 d2 r e).
Proof.
  intros HJ1 Hq HG1 Hts1 Hc01.
  pose proof (dsched_J (pass_fuel_p x1) tnt x1 (p_sd (get_pool x1 0)) deadline [] [] t HJ1 Hq HG1 Hts1) as Hok.
  pose proof (pot_bound tnt x1 _ t HJ1) as Hpb.
  destruct (dsched (pass_fuel_p x1) x1 (p_sd (get_pool x1 0)) deadline [] []) as [[[x2 d2] r] e].
  cbn [dsched_ok] in Hok. destruct Hok as (evs & Ee & Hok). cbn [app] in Ee. subst e. unfold ppass_tail. cbv zeta.
  destruct r as [l rs| | |]; try contradiction.
  2:{ (* a worker naps for ever *)
      destruct Hok as (Hspin & Hhigh & Hjw). autorewrite with pw. rewrite Hspin. cbn [ppass_ok]. autorewrite with pw. auto. }
  - destruct Hok as (HJ2 & HG2 & Hts2 & Hl & Hqs & Hc2).
    pose proof (J_with_sd tnt x2 d2 None _ d2 HJ2) as HJ3.
    assert (length (pw_pools x2) = 1%nat) as Hp2 by apply (jp_pools _ _ _ _ (j_p _ _ _ _ _ _ _ _ HJ2)).
    assert (get_pool (upd_pool x2 0 (p_with_sd d2)) 0 = p_with_sd d2 (get_pool x2 0)) as Eq by (apply get_pool_upd_pool_same; lia).
    rewrite (jp_spin _ _ _ _ (j_p _ _ _ _ _ _ _ _ HJ3)). cbn [ppass_ok]. unfold Jop. rewrite Eq. autorewrite with pw.
    split; [split; [exact HJ3 | exact Hts2]|]. split.
    + unfold G in *. autorewrite with pw. rewrite Eq. autorewrite with pw. exact HG2.
    + split; [exact Hl|]. split; [|lia]. intro Hpos. destruct (Hqs Hpos) as (Q1' & Q2 & Q3). split; [exact Q1' | split; assumption].
  - destruct Hok as (HJ2 & Hts2 & Hc2 & Hf).
    assert (~ low kp x2) as Hhigh by (intro Hlow; specialize (Hf Hlow); lia).
    autorewrite with pw. rewrite (jp_spin _ _ _ _ (j_p _ _ _ _ _ _ _ _ HJ2)). cbn [ppass_ok]. autorewrite with pw.
    split; [exact Hhigh|]. exists (pw_workers x2). apply (j_w _ _ _ _ _ _ _ _ HJ2).
Qed.

Lemma ppass_J tnt x t deadline :
  Jop tnt x t -> quiet_off t -> ppass_ok tnt x t (ppass x 0 deadline).
Proof.
  intros [HJ Hts] Hq. rewrite ppass_eq.
  set (x1 := set_cur (try_grow x 0) 0).
  destruct (J_try_grow mx kp tnt x _ None t HJ Hq) as [HJg HGg].
  assert (J mx kp tnt x1 (p_sd (get_pool x1 0)) None t) as HJ1.
  { unfold x1. autorewrite with pw. rewrite (p_sd_try_grow x (jp_pools _ _ _ _ (j_p _ _ _ _ _ _ _ _ HJ))). apply J_set_cur, HJg. }
  assert (G mx x1 None) as HG1.
  { unfold x1. eapply (G_frame mx (try_grow x 0)); [reflexivity | reflexivity | reflexivity | exact HGg]. }
  assert (pw_ts x1 = []) as Hts1.
  { unfold x1. autorewrite with pw. rewrite (sm_ts _ _ (try_grow_misc x (jp_pools _ _ _ _ (j_p _ _ _ _ _ _ _ _ HJ)))). exact Hts. }
  destruct (p_state (get_pool x 0)) eqn:Est.
  - apply ppass_tail_J; try assumption. unfold x1. autorewrite with pw.
    rewrite (sm_clock _ _ (try_grow_misc x (jp_pools _ _ _ _ (j_p _ _ _ _ _ _ _ _ HJ)))). lia.
  - apply ppass_tail_J; try assumption. unfold x1. autorewrite with pw.
    rewrite (sm_clock _ _ (try_grow_misc x (jp_pools _ _ _ _ (j_p _ _ _ _ _ _ _ _ HJ)))). lia.
  - cbn [ppass_ok]. auto.
Qed.

End Sched.
