(** The measures are bounded by the fuel the model gives its loops. *)
From OCV Require Import Base.Prelude Misc.Time Queue.PMap Queue.OWS Queue.OWSOracle Queue.OWSLemmas Queue.OWSModel.
From OCV Require Import Coroutine.Co Coroutine.CoLemmas Sched.Sched Sched.Pool Sched.PoolOracle Sched.PoolBase Sched.PoolWf Sched.PoolQ Sched.PoolJ Sched.PoolJLemmas Sched.PoolMeasure Sched.PoolCount.
From Coq Require Import ZifyBool ZifyNat Permutation.
Open Scope Z_scope.

(** * sums over distinct indices *)
Definition isum (g : nat -> nat) (l : list nat) : nat := fold_right (fun i a => (g i + a)%nat) O l.

Lemma isum_cons g i l : isum g (i :: l) = (g i + isum g l)%nat.
Proof. reflexivity. Qed.

Lemma isum_app g l1 l2 : isum g (l1 ++ l2) = (isum g l1 + isum g l2)%nat.
Proof. induction l1 as [|i l1 IH]; [reflexivity|]. cbn [app]. rewrite !isum_cons, IH. lia. Qed.

Lemma isum_le g g' l : (forall i, In i l -> (g i <= g' i)%nat) -> (isum g l <= isum g' l)%nat.
Proof.
  induction l as [|i l IH]; intro H; [reflexivity|]. rewrite !isum_cons.
  pose proof (H i (or_introl eq_refl)). specialize (IH (fun j Hj => H j (or_intror Hj))). lia.
Qed.

Lemma isum_sub g : forall n l, NoDup l -> (forall i, In i l -> (i < n)%nat) -> (isum g l <= isum g (seq 0 n))%nat.
Proof.
  induction n as [|n IH]; intros l Hnd Hb.
  - destruct l as [|i l]; [reflexivity|]. specialize (Hb i (or_introl eq_refl)). lia.
  - rewrite seq_S, isum_app. cbn [plus isum fold_right]. destruct (in_dec Nat.eq_dec n l) as [Hin|Hnin].
    + apply in_split in Hin as (l1 & l2 & ->). rewrite isum_app, isum_cons.
      pose proof (NoDup_remove_1 _ _ _ Hnd) as Hnd'. pose proof (NoDup_remove_2 _ _ _ Hnd) as Hn2.
      assert (isum g (l1 ++ l2) <= isum g (seq 0 n))%nat as H.
      { apply IH; [exact Hnd'|]. intros i Hi. assert (In i (l1 ++ n :: l2)) as Hi'.
        { apply in_app_iff in Hi. apply in_app_iff. cbn [In]. tauto. }
        specialize (Hb i Hi'). assert (i <> n) by (intros ->; contradiction). lia. }
      rewrite isum_app in H. lia.
    + assert (isum g l <= isum g (seq 0 n))%nat as H.
      { apply IH; [exact Hnd|]. intros i Hi. specialize (Hb i Hi). assert (i <> n) by (intros ->; contradiction). lia. }
      lia.
Qed.

Lemma isum_seq_map {A} (f : A -> nat) (d : A) (l : list A) :
  isum (fun i => f (nth i l d)) (seq 0 (length l)) = fold_right Nat.add O (map f l).
Proof.
  induction l as [|a l IH]; [reflexivity|]. cbn [length map fold_right]. rewrite <- cons_seq, <- seq_shift, isum_cons. cbn [nth].
  rewrite <- IH. f_equal. generalize (seq 0 (length l)). intro s. induction s as [|x s IHs]; [reflexivity|].
  cbn [map]. rewrite !isum_cons, IHs. reflexivity.
Qed.

(** the bodies' total, as [wfuel] counts it *)
Definition btotal (tb : list (list instr)) : nat := fold_right Nat.add O (map (fun b => S (S (length b))) tb).

Lemma isum_blen_le tb l : NoDup l -> (forall i, In i l -> (i < length tb)%nat) ->
  (isum (fun i => blen tb i + 2) l <= btotal tb)%nat.
Proof.
  intros Hnd Hb. unfold btotal. rewrite <- (isum_seq_map (fun b => S (S (length b))) [] tb).
  etransitivity; [apply (isum_sub _ (length tb) l Hnd Hb)|]. apply isum_le. intros i _. unfold blen. lia.
Qed.

Lemma qsum_isum tb l : qsum tb l = isum (fun i => blen tb i + 2)%nat (map Z.to_nat l).
Proof. induction l as [|z l IH]; [reflexivity|]. cbn [map]. rewrite qsum_cons, isum_cons, IH. lia. Qed.

(** * the tasks claimed by the queue and by the live workers are distinct *)
Lemma NoDup_map_to_nat (l : list Z) : NoDup l -> (forall z, In z l -> 0 <= z) -> NoDup (map Z.to_nat l).
Proof.
  induction 1 as [|z l Hn Hd IH]; intro Hp; cbn [map]; [constructor|]. constructor.
  - intro Hin. apply in_map_iff in Hin as (y & Ey & Hy). apply Hn.
    assert (y = z) as -> by (pose proof (Hp y (or_intror Hy)); pose proof (Hp z (or_introl eq_refl)); lia). exact Hy.
  - apply IH. intros y Hy. apply Hp. right. exact Hy.
Qed.

Lemma held_ids_inv ws i : In i (held_ids ws) -> exists w k rest, nth_error ws w = Some k /\ live k = true /\ k_task k = Some (i, rest).
Proof.
  unfold held_ids. intro H. apply in_flat_map in H as (k & Hk & Hi). apply In_nth_error in Hk as [w Hw].
  destruct (live k) eqn:El; [|destruct Hi]. destruct (k_task k) as [[j rest]|] eqn:Et; [|destruct Hi].
  destruct Hi as [<-|[]]. eauto 6.
Qed.

Lemma held_ids_NoDup ws :
  (forall w w' k k' i r r', nth_error ws w = Some k -> nth_error ws w' = Some k' ->
     k_task k = Some (i, r) -> k_task k' = Some (i, r') -> w = w') ->
  NoDup (held_ids ws).
Proof.
  induction ws as [|k ws IH]; intro Hinj; [constructor|].
  assert (NoDup (held_ids ws)) as Hnd.
  { apply IH. intros w w' a a' i r r' H1 H2 H3 H4. assert (S w = S w') as E by (eapply (Hinj (S w) (S w')); eassumption). lia. }
  unfold held_ids in *. cbn [flat_map]. destruct (live k) eqn:El; [|exact Hnd].
  destruct (k_task k) as [[i r]|] eqn:Et; [|exact Hnd]. cbn [app]. constructor; [|exact Hnd].
  intro Hin. destruct (held_ids_inv ws i Hin) as (w' & k' & r' & H1 & _ & H3).
  assert (0 = S w')%nat as E by (eapply (Hinj 0%nat (S w') k k'); [reflexivity | exact H1 | exact Et | exact H3]). discriminate.
Qed.

Lemma wsum_le_held tb ws :
  (forall k i rest, In k ws -> k_task k = Some (i, rest) -> (length rest <= blen tb i)%nat) ->
  (wsum ws <= isum (fun i => blen tb i + 2) (held_ids ws))%nat.
Proof.
  induction ws as [|k ws IH]; intro H; [reflexivity|]. rewrite wsum_cons. unfold held_ids in *. cbn [flat_map]. rewrite isum_app.
  specialize (IH (fun a i r Ha => H a i r (or_intror Ha))). unfold wwork, tasklen.
  destruct (live k); [|cbn [isum fold_right]; lia]. destruct (k_task k) as [[i rest]|] eqn:Et; [|cbn [isum fold_right]; lia].
  pose proof (H k i rest (or_introl eq_refl) Et). cbn [isum fold_right]. lia.
Qed.

Lemma NoDup_app_intro {A} (l1 l2 : list A) : NoDup l1 -> NoDup l2 -> (forall a, In a l1 -> ~ In a l2) -> NoDup (l1 ++ l2).
Proof.
  induction 1 as [|a l1 Hn Hd IH]; intros H2 Hdis; [exact H2|]. cbn [app]. constructor.
  - rewrite in_app_iff. intros [H|H]; [contradiction | apply (Hdis a (or_introl eq_refl) H)].
  - apply IH; [exact H2|]. intros b Hb. apply Hdis. right. exact Hb.
Qed.

Section Bound.
Variable mx : Z.
Variable kp : Z.

Lemma claimed_ok tnt x d h t :
  J mx kp tnt x d h t ->
  let ids := map Z.to_nat (all_items (pw_tq x)) ++ held_ids (pw_workers x) in
  NoDup ids /\ (forall i, In i ids -> (i < length (pw_tbody x))%nat).
Proof.
  intros HJ. pose proof (j_t _ _ _ _ _ _ _ _ HJ) as HT. cbv zeta.
  assert (forall z, In z (all_items (pw_tq x)) -> exists i, z = Z.of_nat i /\ (i < length (pw_tbody x))%nat) as Hq.
  { intros z Hz. destruct (jt_q _ _ _ _ _ _ _ _ HT z Hz) as (i & -> & Hi & _). eauto. }
  split.
  - apply NoDup_app_intro.
    + apply NoDup_map_to_nat.
      * apply cnt_NoDup. intro z. destruct (In_dec Z.eq_dec z (all_items (pw_tq x))) as [Hz|Hz].
        -- destruct (jt_q _ _ _ _ _ _ _ _ HT z Hz) as (i & _ & _ & Hc & _). lia.
        -- rewrite (notin_cnt0 _ _ Hz). lia.
      * intros z Hz. destruct (Hq z Hz) as (i & -> & _). lia.
    + apply held_ids_NoDup. apply (jt_inj _ _ _ _ _ _ _ _ HT).
    + intros i Hi Hh. apply in_map_iff in Hi as (z & <- & Hz). destruct (Hq z Hz) as (j & -> & Hj). rewrite Nat2Z.id in Hh.
      destruct (held_ids_inv _ _ Hh) as (w & k & rest & Hw & _ & Hk).
      destruct (jt_hold _ _ _ _ _ _ _ _ HT _ _ _ _ Hw Hk) as (_ & _ & _ & _ & _ & Hn). contradiction.
  - intros i Hi. apply in_app_iff in Hi as [Hi|Hi].
    + apply in_map_iff in Hi as (z & <- & Hz). destruct (Hq z Hz) as (j & -> & Hj). rewrite Nat2Z.id. exact Hj.
    + destruct (held_ids_inv _ _ Hi) as (w & k & rest & Hw & _ & Hk). apply (jt_hold _ _ _ _ _ _ _ _ HT _ _ _ _ Hw Hk).
Qed.

Lemma filter_len_le {A} (f : A -> bool) (l : list A) : (length (filter f l) <= length l)%nat.
Proof. induction l as [|a l IH]; [reflexivity|]. cbn [filter]. destruct (f a); cbn [length]; lia. Qed.

Lemma wsum_member ws w k : nth_error ws w = Some k -> (wwork k <= wsum ws)%nat.
Proof.
  revert w. induction ws as [|a ws IH]; intros [|w]; cbn [nth_error]; try discriminate; rewrite wsum_cons.
  - intro H. injection H as ->. lia.
  - intro H. specialize (IH _ H). lia.
Qed.

Lemma work_bound tnt x d h t :
  J mx kp tnt x d h t -> (qsum (pw_tbody x) (all_items (pw_tq x)) + wsum (pw_workers x) <= btotal (pw_tbody x))%nat.
Proof.
  intro HJ. destruct (claimed_ok tnt x d h t HJ) as [Hnd Hb]. cbv zeta in Hnd, Hb.
  pose proof (isum_blen_le (pw_tbody x) _ Hnd Hb) as H. rewrite isum_app, <- qsum_isum in H.
  assert (wsum (pw_workers x) <= isum (fun i => blen (pw_tbody x) i + 2) (held_ids (pw_workers x)))%nat as Hw.
  { apply wsum_le_held. intros k i rest Hk Ht. apply In_nth_error in Hk as [w Hw].
    apply (jt_suf _ _ _ _ _ _ _ _ (j_t _ _ _ _ _ _ _ _ HJ) _ _ _ _ Hw Ht). }
  lia.
Qed.

Lemma mu_bound tnt x d h t w k :
  J mx kp tnt x d h t -> get_worker x w = Some k -> live k = true -> (mu x k <= wfuel x)%nat.
Proof.
  intros HJ Hk Hl. pose proof (work_bound tnt x d h t HJ) as H. pose proof (wsum_member _ _ _ Hk) as Hm.
  rewrite (wwork_live k Hl) in Hm. unfold mu, wfuel. fold (btotal (pw_tbody x)). lia.
Qed.

Lemma keep_rounds_kcap tnt x d h t : J mx kp tnt x d h t -> Z.of_nat (keep_rounds x) = kcap kp.
Proof.
  intro HJ. pose proof (j_p _ _ _ _ _ _ _ _ HJ) as HP. unfold keep_rounds, kcap. rewrite (jp_cur _ _ _ _ HP).
  destruct (jp_keep _ _ _ _ HP) as (-> & _ & _ & _). cbv zeta. destruct (kp <=? 0) eqn:E; [reflexivity|].
  pose proof (Z.div_pos kp 1000000 ltac:(lia) ltac:(lia)). lia.
Qed.

Lemma mu2_bound tnt x d h t w k :
  J mx kp tnt x d h t -> get_worker x w = Some k -> live k = true -> (mu2 kp x k <= wfuel x)%nat.
Proof.
  intros HJ Hk Hl. pose proof (work_bound tnt x d h t HJ) as H. pose proof (wsum_member _ _ _ Hk) as Hm.
  rewrite (wwork_live k Hl) in Hm. pose proof (keep_rounds_kcap tnt x d h t HJ) as Ek.
  destruct (jp_keep _ _ _ _ (j_p _ _ _ _ _ _ _ _ HJ)) as (_ & _ & Hcr & _).
  pose proof (rem_bound kp (pw_clock x) k (Hcr w k Hk)) as Hr. pose proof (rem_nonneg kp (pw_clock x) k).
  unfold mu2, mu, wfuel. fold (btotal (pw_tbody x)). lia.
Qed.

Lemma rho_bound tnt x d h t :
  J mx kp tnt x d h t -> rho x <= 3 * Z.of_nat (btotal (pw_tbody x)) + Z.of_nat (length (pw_workers x)).
Proof.
  intro HJ. pose proof (work_bound tnt x d h t HJ) as H. unfold rho, nlive.
  pose proof (filter_len_le live (pw_workers x)). lia.
Qed.

Lemma rho_nonneg x : 0 <= rho x.
Proof. unfold rho. pose proof (nlive_nonneg (pw_workers x)). lia. Qed.

End Bound.
