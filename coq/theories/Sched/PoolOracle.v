(** Observation equality and worker-id canonicalisation for pool histories, and the oracles of
    the pool properties (added below as they are built). *)
From OCV Require Import Base.Prelude Misc.Time Queue.PMap Queue.OWS Coroutine.Co Coroutine.CoOracle Sched.Sched Sched.Pool.
Open Scope Z_scope.

Definition pevs (o : pobs) : list ev :=
  match o with OPass _ e => e | OStop _ e => e | _ => [] end.

(** workers are named by creation index in the model and by first appearance in the harness:
    rename the model's ids by first appearance *)
Fixpoint lookup_nat (k : nat) (m : list (nat * nat)) : option nat :=
  match m with [] => None | (a, b) :: r => if Nat.eqb k a then Some b else lookup_nat k r end.

Definition see (m : list (nat * nat)) (w : nat) : list (nat * nat) :=
  match lookup_nat w m with Some _ => m | None => m ++ [(w, length m)] end.

Definition canon_ev (m : list (nat * nat)) (e : ev) : list (nat * nat) * ev :=
  match e with
  | EL l w c old => let m' := see m w in (m', EL l (match lookup_nat w m' with Some v => v | None => w end) c old)
  | EB t (BStart p) =>
      let w := Z.to_nat p in
      let m' := see m w in (m', EB t (BStart (Z.of_nat (match lookup_nat w m' with Some v => v | None => w end))))
  | _ => (m, e)
  end.

Fixpoint canon_evs (m : list (nat * nat)) (l : list ev) : list (nat * nat) * list ev :=
  match l with
  | [] => (m, [])
  | e :: r => let '(m1, e1) := canon_ev m e in let '(m2, r2) := canon_evs m1 r in (m2, e1 :: r2)
  end.

Fixpoint canon_obs (m : list (nat * nat)) (l : list pobs) : list pobs :=
  match l with
  | [] => []
  | OPass r e :: rest => let '(m1, e1) := canon_evs m e in OPass r e1 :: canon_obs m1 rest
  | OStop r e :: rest => let '(m1, e1) := canon_evs m e in OStop r e1 :: canon_obs m1 rest
  | o :: rest => o :: canon_obs m rest
  end.

Definition tmsg_eqb (a b : tmsg) : bool :=
  match a, b with
  | TM x, TM y => msg_eqb x y | TMStopped, TMStopped => true | TMCancelled, TMCancelled => true | _, _ => false
  end.
Definition tres_eqb (a b : tres) : bool :=
  match a, b with TOk x, TOk y => x =? y | TErr x, TErr y => tmsg_eqb x y | _, _ => false end.
Definition wres_eqb (a b : wres) : bool :=
  match a, b with
  | WVal x, WVal y => tres_eqb x y | WTimeout, WTimeout => true | WNone, WNone => true | _, _ => false
  end.
Definition pres_eqb (a b : pres) : bool :=
  match a, b with
  | PLeft x, PLeft y => x =? y | PErrStopped, PErrStopped => true | PErr, PErr => true
  | PUnwound, PUnwound => true | PDiverged, PDiverged => true | _, _ => false
  end.
Definition stopres_eqb (a b : stopres) : bool :=
  match a, b with
  | StopOk, StopOk => true | StopTimeout, StopTimeout => true | StopErr, StopErr => true
  | StopUnwound, StopUnwound => true | StopDiverged, StopDiverged => true | _, _ => false
  end.
Definition pstate_eqb (a b : pstate) : bool :=
  match a, b with PRunning, PRunning => true | PStopping, PStopping => true | PStopped, PStopped => true | _, _ => false end.

Definition pobs_eqb (a b : pobs) : bool :=
  match a, b with
  | OSubmit x, OSubmit y => Bool.eqb x y
  | OPass PDiverged _, OPass PDiverged _ => true     (* nothing is observed of a call that never returns *)
  | OStop StopDiverged _, OStop StopDiverged _ => true
  | OPass r e, OPass r' e' => pres_eqb r r' && list_eqb ev_eqb e e'
  | OWait r, OWait r' => wres_eqb r r'
  | OStop r e, OStop r' e' => stopres_eqb r r' && list_eqb ev_eqb e e'
  | ONumP x, ONumP y => x =? y
  | OState x, OState y => pstate_eqb x y
  | OUnitP, OUnitP => true
  | _, _ => false
  end.

(** after a divergence nothing more is observed *)
Fixpoint cut_div (l : list pobs) : list pobs :=
  match l with
  | [] => []
  | OPass PDiverged e :: _ => [OPass PDiverged e]
  | OStop StopDiverged e :: _ => [OStop StopDiverged e]
  | o :: r => o :: cut_div r
  end.

(** * The pool properties as oracles over observed histories
    A specification tracker (tasks, workers as the recording listener saw them, pools, clock);
    it never calls the pool model. Clauses that speak about quiescence ("after a pass that was
    not cut by its deadline") are evaluated for single-pool histories; with several pools sharing
    the process-wide queues only the per-call clauses apply. *)

Record ttrk := {
  tt_pool : nat; tt_accepted : bool;
  tt_started : nat; tt_fin : option tres; tt_fincount : nat;
  tt_cancel0 : bool;        (* cancel requested before it started *)
  tt_cancel1 : bool;        (* cancel requested while it was started and unfinished *)
  tt_consumed : bool;       (* its result was handed out or discarded *)
  tt_cleaned : bool;        (* clean_task_result was called while it had no result: the result will be discarded *)
  tt_withdrawn : bool       (* ... and that happened after a cancel-before-start request, which it withdraws *)
}.
Definition ttrk0 (p : nat) (acc : bool) : ttrk :=
  {| tt_pool := p; tt_accepted := acc; tt_started := 0; tt_fin := None; tt_fincount := 0; tt_cancel0 := false;
     tt_cancel1 := false; tt_consumed := false; tt_cleaned := false; tt_withdrawn := false |}.

Record ptrk := {
  pt_rank : nat;            (* last state seen: 0 Running 1 Stopping 2 Stopped *)
  pt_stop_called : bool;
  pt_stop_ok : bool;
  pt_quiet : bool;          (* the last scheduling call on it was a pass not cut by its deadline *)
  pt_alive : Z              (* workers legitimately parked when that pass ended *)
}.
Definition ptrk0 : ptrk := {| pt_rank := 0; pt_stop_called := false; pt_stop_ok := false; pt_quiet := false; pt_alive := 0 |}.

Record potr := {
  po_clock : Z;
  po_tasks : list ttrk;
  po_workers : list cstate;      (* state last reported for worker i *)
  po_pools : list ptrk;
  po_c01 : bool; po_c02 : bool; po_c11 : bool; po_c12 : bool; po_c13 : bool
}.

Definition gett (t : potr) (i : nat) : ttrk := nth i (po_tasks t) (ttrk0 0 false).
Definition getp (t : potr) (i : nat) : ptrk := nth i (po_pools t) ptrk0.
Definition sett (t : potr) (i : nat) (k : ttrk) : potr :=
  {| po_clock := po_clock t; po_tasks := set_nth i k (po_tasks t); po_workers := po_workers t; po_pools := po_pools t;
     po_c01 := po_c01 t; po_c02 := po_c02 t; po_c11 := po_c11 t; po_c12 := po_c12 t; po_c13 := po_c13 t |}.
Definition setp (t : potr) (i : nat) (k : ptrk) : potr :=
  {| po_clock := po_clock t; po_tasks := po_tasks t; po_workers := po_workers t; po_pools := set_nth i k (po_pools t);
     po_c01 := po_c01 t; po_c02 := po_c02 t; po_c11 := po_c11 t; po_c12 := po_c12 t; po_c13 := po_c13 t |}.
Definition flag (t : potr) (which : nat) (b : bool) : potr :=
  {| po_clock := po_clock t; po_tasks := po_tasks t; po_workers := po_workers t; po_pools := po_pools t;
     po_c01 := if Nat.eqb which 1 then po_c01 t && b else po_c01 t;
     po_c02 := if Nat.eqb which 2 then po_c02 t && b else po_c02 t;
     po_c11 := if Nat.eqb which 11 then po_c11 t && b else po_c11 t;
     po_c12 := if Nat.eqb which 12 then po_c12 t && b else po_c12 t;
     po_c13 := if Nat.eqb which 13 then po_c13 t && b else po_c13 t |}.

Fixpoint set_nth_ext {A} (d : A) (n : nat) (x : A) (l : list A) : list A :=
  match n, l with
  | O, [] => [x]
  | O, _ :: r => x :: r
  | S n', [] => d :: set_nth_ext d n' x []
  | S n', a :: r => a :: set_nth_ext d n' x r
  end.

Definition unquiet (t : potr) : potr :=
  {| po_clock := po_clock t; po_tasks := po_tasks t; po_workers := po_workers t;
     po_pools := map (fun k => {| pt_rank := pt_rank k; pt_stop_called := pt_stop_called k; pt_stop_ok := pt_stop_ok k;
                                 pt_quiet := false; pt_alive := pt_alive k |}) (po_pools t);
     po_c01 := po_c01 t; po_c02 := po_c02 t; po_c11 := po_c11 t; po_c12 := po_c12 t; po_c13 := po_c13 t |}.

(** one event of a pass or a stop *)
Definition pev (t : potr) (e : ev) : potr :=
  match e with
  | EL _ w (CbChanged new) _ =>
      {| po_clock := po_clock t; po_tasks := po_tasks t; po_workers := set_nth_ext Ready w new (po_workers t);
         po_pools := po_pools t; po_c01 := po_c01 t; po_c02 := po_c02 t; po_c11 := po_c11 t; po_c12 := po_c12 t;
         po_c13 := po_c13 t |}
  | EL _ _ _ _ => t
  | EB i b =>
      let k := gett t i in
      match b with
      | BTick d =>
          {| po_clock := sat_add64 (po_clock t) d; po_tasks := po_tasks t; po_workers := po_workers t; po_pools := po_pools t;
             po_c01 := po_c01 t; po_c02 := po_c02 t; po_c11 := po_c11 t; po_c12 := po_c12 t; po_c13 := po_c13 t |}
      | BStart _ =>
          (* a task starts at most once, only if it was accepted, never after a cancel that came first
             (cleaning its handle afterwards withdraws the request, if it was still queued: see PClean) *)
          let t1 := flag t 1 (tt_accepted k && Nat.eqb (tt_started k) 0) in
          let t2 := flag t1 13 (negb (tt_cancel0 k) || tt_withdrawn k) in
          sett t2 i {| tt_pool := tt_pool k; tt_accepted := tt_accepted k; tt_started := S (tt_started k); tt_fin := tt_fin k;
                       tt_fincount := tt_fincount k; tt_cancel0 := tt_cancel0 k; tt_cancel1 := tt_cancel1 k;
                       tt_consumed := tt_consumed k; tt_cleaned := tt_cleaned k; tt_withdrawn := tt_withdrawn k |}
      | BRet v =>
          let t1 := flag t 1 (Nat.eqb (tt_fincount k) 0) in
          sett t1 i {| tt_pool := tt_pool k; tt_accepted := tt_accepted k; tt_started := tt_started k; tt_fin := Some (TOk v);
                       tt_fincount := S (tt_fincount k); tt_cancel0 := tt_cancel0 k; tt_cancel1 := tt_cancel1 k;
                       tt_consumed := tt_consumed k; tt_cleaned := tt_cleaned k; tt_withdrawn := tt_withdrawn k |}
      | BPanic pk =>
          let t1 := flag t 1 (Nat.eqb (tt_fincount k) 0) in
          sett t1 i {| tt_pool := tt_pool k; tt_accepted := tt_accepted k; tt_started := tt_started k;
                       tt_fin := Some (TErr (TM (panic_msg pk)));
                       tt_fincount := S (tt_fincount k); tt_cancel0 := tt_cancel0 k; tt_cancel1 := tt_cancel1 k;
                       tt_consumed := tt_consumed k; tt_cleaned := tt_cleaned k; tt_withdrawn := tt_withdrawn k |}
      | _ => t
      end
  end.

(** a worker that is legitimately waiting when a pass ends with time left *)
Definition parked (clock : Z) (s : cstate) : bool :=
  match s with
  | Suspend _ t => clock <? t
  | Syscall _ _ (SSuspend t) => clock <? t
  | Syscall _ _ _ => true
  | _ => false
  end.

Definition task_done (k : ttrk) : bool :=
  negb (tt_accepted k) || negb (is_none (tt_fin k)) || tt_cancel0 k || tt_cancel1 k.
Definition task_waiting (k : ttrk) : bool :=   (* accepted, never started, not cancelled *)
  tt_accepted k && Nat.eqb (tt_started k) 0 && negb (tt_cancel0 k).

(** for the "stop must not wait out its timeout" clause: a cancel-before-start that a later clean
    withdrew does not settle the task (it may still run) *)
Definition task_settled (k : ttrk) : bool :=
  negb (tt_accepted k) || negb (is_none (tt_fin k)) || (tt_cancel0 k && negb (tt_withdrawn k)) || tt_cancel1 k.

Definition count_true {A} (f : A -> bool) (l : list A) : Z := Z.of_nat (length (filter f l)).

(** what a wait/take may return for task [i] asked on pool [p] *)
Definition expect_result (t : potr) (p i : nat) (npools : nat) (r : wres) (timeout_form : wres) : potr :=
  let k := gett t i in
  match r with
  | WVal v =>
      let own := match tt_fin k with
                 | Some o => tres_eqb v o
                 | None => false
                 end in
      let cancelled := tres_eqb v (TErr TMCancelled) && tt_cancel0 k && Nat.eqb (tt_started k) 0 in
      (* after a stop, a waiter that registered for a result that is not there (never produced, or
         handed out before) is told so *)
      let stopped := tres_eqb v (TErr TMStopped) && pt_stop_called (getp t p) && (is_none (tt_fin k) || tt_consumed k || tt_cleaned k) in
      let t1 := flag t 2 (((own || cancelled) && negb (tt_consumed k)) || stopped) in
      sett t1 i {| tt_pool := tt_pool k; tt_accepted := tt_accepted k; tt_started := tt_started k; tt_fin := tt_fin k;
                   tt_fincount := tt_fincount k; tt_cancel0 := tt_cancel0 k; tt_cancel1 := tt_cancel1 k;
                   tt_consumed := true; tt_cleaned := tt_cleaned k; tt_withdrawn := tt_withdrawn k |}
  | _ =>
      (* no result: only if the task has not finished, or its result is gone already *)
      let t1 := flag t 2 (is_none (tt_fin k) || tt_consumed k || tt_cleaned k) in
      (* a task cancelled before it started, once the pool had a full pass, has an error waiting *)
      flag t1 13 (negb (tt_cancel0 k && Nat.eqb (tt_started k) 0 && Nat.eqb npools 1 && pt_quiet (getp t p)
                        && (pt_alive (getp t p) =? 0)     (* no worker was parked: the queue was drained *)
                        && negb (tt_consumed k) && negb (tt_cleaned k)))
  end.

Definition postep (npools : nat) (maxes : list Z) (t : potr) (o : pop) (ob : pobs) : potr :=
  match o, ob with
  | PSubmit p _ _, OSubmit ok =>
      let t1 := flag t 12 (negb (pt_stop_called (getp t p) && ok)) in     (* no acceptance once stopping began *)
      let t2 := unquiet t1 in
      {| po_clock := po_clock t2; po_tasks := po_tasks t2 ++ [ttrk0 p ok]; po_workers := po_workers t2; po_pools := po_pools t2;
         po_c01 := po_c01 t2; po_c02 := po_c02 t2; po_c11 := po_c11 t2; po_c12 := po_c12 t2; po_c13 := po_c13 t2 |}
  | PPass p _, OPass r evs =>
      let t1 := fold_left pev evs (unquiet t) in
      match r with
      | PLeft l =>
          if (0 <? l) && Nat.eqb npools 1 then
            let alive := count_true (parked (po_clock t1)) (po_workers t1) in
            (* not stranded: whatever is still waiting to start is waiting for a worker slot *)
            let waiting := existsb task_waiting (po_tasks t1) in
            let t2 := flag t1 1 (negb waiting || (nth p maxes 0 <=? alive)) in
            (* started tasks are finished, cancelled, or their worker is legitimately parked *)
            let unfinished := count_true (fun k => tt_accepted k && negb (Nat.eqb (tt_started k) 0) && is_none (tt_fin k)
                                                   && negb (tt_cancel1 k)) (po_tasks t1) in
            let t3 := flag t2 1 (unfinished <=? alive) in
            let k := getp t3 p in
            setp t3 p {| pt_rank := pt_rank k; pt_stop_called := pt_stop_called k; pt_stop_ok := pt_stop_ok k;
                         pt_quiet := true; pt_alive := alive |}
          else t1
      | PErrStopped => flag t1 12 (pt_stop_ok (getp t1 p))     (* refused only once stopped *)
      | PDiverged => flag (flag t1 1 false) 11 false           (* a pass that never returns strands everything *)
      | _ => flag t1 1 false
      end
  | PWait p i, OWait r => expect_result t p i npools r WTimeout
  | PTake p i, OWait r => expect_result t p i npools r WNone
  | PClean _ i, OUnitP =>
      let k := gett t i in
      if negb (is_none (tt_fin k)) && negb (tt_consumed k) && negb (tt_cleaned k) then
        (* the result is there: it is taken and dropped *)
        sett (unquiet t) i {| tt_pool := tt_pool k; tt_accepted := tt_accepted k; tt_started := tt_started k; tt_fin := tt_fin k;
                              tt_fincount := tt_fincount k; tt_cancel0 := tt_cancel0 k; tt_cancel1 := tt_cancel1 k;
                              tt_consumed := true; tt_cleaned := tt_cleaned k; tt_withdrawn := tt_withdrawn k |}
      else
        (* no result to take: whatever the task produces later is discarded, and a
           cancel-before-start request made earlier is withdrawn (if the task was still queued;
           the tracker cannot see that, so the request stays recorded for the liveness clauses) *)
        sett (unquiet t) i {| tt_pool := tt_pool k; tt_accepted := tt_accepted k; tt_started := tt_started k; tt_fin := tt_fin k;
                              tt_fincount := tt_fincount k;
                              tt_cancel0 := tt_cancel0 k;
                              tt_cancel1 := tt_cancel1 k;
                              tt_consumed := tt_consumed k; tt_cleaned := true;
                              tt_withdrawn := tt_withdrawn k || tt_cancel0 k |}
  | PCancel i, OUnitP =>
      let k := gett t i in
      if negb (tt_accepted k) || negb (is_none (tt_fin k)) then t
      else
        sett (unquiet t) i {| tt_pool := tt_pool k; tt_accepted := tt_accepted k; tt_started := tt_started k; tt_fin := tt_fin k;
                              tt_fincount := tt_fincount k;
                              tt_cancel0 := tt_cancel0 k || Nat.eqb (tt_started k) 0;
                              tt_cancel1 := tt_cancel1 k || negb (Nat.eqb (tt_started k) 0);
                              tt_consumed := tt_consumed k; tt_cleaned := tt_cleaned k; tt_withdrawn := tt_withdrawn k |}
  | PStop p dur, OStop r evs =>
      let all_done_before := forallb task_settled (po_tasks t) in
      let t0 := unquiet t in
      let k0 := getp t0 p in
      let t1 := fold_left pev evs (setp t0 p {| pt_rank := pt_rank k0; pt_stop_called := true; pt_stop_ok := pt_stop_ok k0;
                                                pt_quiet := false; pt_alive := pt_alive k0 |}) in
      match r with
      | StopOk =>
          (* success only when every task accepted by this pool has run or was cancelled *)
          let t2 := flag t1 12 (Nat.ltb 1 npools
                                || forallb (fun k => negb (Nat.eqb (tt_pool k) p) || task_done k) (po_tasks t1)) in
          let k := getp t2 p in
          setp t2 p {| pt_rank := pt_rank k; pt_stop_called := true; pt_stop_ok := true; pt_quiet := false; pt_alive := 0 |}
      | StopTimeout =>
          (* with nothing left to do, no worker legitimately asleep and some time to act in, a stop
             must not wait out its timeout *)
          flag t1 11 (Nat.ltb 1 npools || negb all_done_before || (dur <=? 0)
                      || (0 <? count_true (parked (po_clock t1)) (po_workers t1))
                      || (U64MAX <? po_clock t + dur))     (* the deadline saturates: no time to act in *)
      | StopDiverged => flag (flag t1 11 false) 1 false
      | _ => flag t1 12 false
      end
  | PGetRunning p, ONumP n =>
      let k := getp t p in
      let t1 := flag t 11 ((0 <=? n) && (n <=? nth p maxes 0)) in
      let t2 := if pt_quiet k && Nat.eqb npools 1 then flag t1 11 (n =? pt_alive k) else t1 in
      if pt_stop_ok k then flag t2 11 (n =? 0) else t2
  | PSize _, ONumP _ => t
  | PGetState p, OState s =>
      let rank := match s with PRunning => 0 | PStopping => 1 | PStopped => 2 end%nat in
      let k := getp t p in
      let t1 := flag t 12 (Nat.leb (pt_rank k) rank
                           && (negb (pt_stop_called k) || Nat.leb 1 rank)
                           && (negb (pt_stop_ok k) || Nat.eqb rank 2)) in
      setp t1 p {| pt_rank := rank; pt_stop_called := pt_stop_called k; pt_stop_ok := pt_stop_ok k;
                   pt_quiet := pt_quiet k; pt_alive := pt_alive k |}
  | PClock c, OUnitP =>
      {| po_clock := c; po_tasks := po_tasks t; po_workers := po_workers t; po_pools := po_pools t;
         po_c01 := po_c01 t; po_c02 := po_c02 t; po_c11 := po_c11 t; po_c12 := po_c12 t; po_c13 := po_c13 t |}
  | _, _ => flag (flag (flag (flag (flag t 1 false) 2 false) 11 false) 12 false) 13 false
  end.

Fixpoint porun (npools : nat) (maxes : list Z) (t : potr) (ops : list pop) (obs : list pobs) : potr * bool :=
  match ops, obs with
  | [], [] => (t, true)
  | o :: ops', ob :: obs' =>
      let t' := postep npools maxes t o ob in
      match ob with
      | OPass PDiverged _ | OStop StopDiverged _ => (t', is_nil obs')
      | _ => porun npools maxes t' ops' obs'
      end
  | _, _ => (t, false)
  end.

Definition judge_pool (clock : Z) (cfgs : list (Z * Z * Z)) (ops : list pop) (obs : list pobs) : potr * bool :=
  porun (length cfgs) (map (fun c => snd (fst c)) cfgs)
        {| po_clock := clock; po_tasks := []; po_workers := []; po_pools := repeat ptrk0 (length cfgs);
           po_c01 := true; po_c02 := true; po_c11 := true; po_c12 := true; po_c13 := true |} ops obs.
