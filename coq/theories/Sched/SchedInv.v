(** The simulation invariant between the scheduler model ([sched]) and the oracle's tracker
    ([mkT clock ks]): where every coroutine sits (ready queue / suspend heap / syscall map /
    nowhere), what the tracker knows about it, and the rules to re-establish the invariant
    after a step that concerns one coroutine. *)
From OCV Require Import Base.Prelude Misc.Time Queue.PMap Queue.OWS Coroutine.Co Coroutine.CoOracle
  Coroutine.CoLemmas Sched.Sched Sched.SchedOracle Sched.SchedWf Sched.SchedQueue Sched.SchedBase
  Sched.SchedTrk Sched.SchedRun.
From Coq Require Import ZifyBool ZifyNat.
Open Scope Z_scope.

Definition S_thr (s : sched) : thr := w_thr (sc_w s).
Definition S_cos (s : sched) : list co := t_cos (w_thr (sc_w s)).
Definition S_R (s : sched) : list nat := rdy (sc_w s).
Definition S_H (s : sched) : list (Z * nat) := sd_suspend (sc_d s).
Definition S_Y (s : sched) : list nat := sd_syscall (sc_d s).
Definition S_SH (s : sched) : list (Z * nat) := sd_sys_suspend (sc_d s).
Definition S_C (s : sched) : list nat := w_cancel (sc_w s).

Inductive place := PNone | PReady | PHeap | PSys.

Definition at_place (s : sched) (j : nat) (p : place) : Prop :=
  cn j (S_R s) = (match p with PReady => 1 | _ => 0 end)%nat /\
  cn j (map snd (S_H s)) = (match p with PHeap => 1 | _ => 0 end)%nat /\
  cn j (S_Y s) = (match p with PSys => 1 | _ => 0 end)%nat.

Definition common (s : sched) (j : nat) (c : co) (k : strk) : Prop :=
  q_fin k = None /\ c_dead c = false /\ bwf (nxt (c_st c)) (c_body c) = true /\
  (q_cancel k = true -> In j (S_C s)).

Inductive costat (s : sched) (clk : Z) (j : nat) (c : co) (k : strk) : Prop :=
| CS_inactive :
    at_place s j PNone -> is_terminal (c_st c) = true -> (q_fin k = None -> c_st c = Cancelled) ->
    costat s clk j c k
| CS_ready :
    at_place s j PReady -> common s j c k -> runnable clk (c_st c) ->
    (forall w, q_wake k = Some w -> w <= clk) -> costat s clk j c k
| CS_heap y ts :
    at_place s j PHeap -> common s j c k -> c_st c = Suspend y ts -> In (ts, j) (S_H s) ->
    (forall w, q_wake k = Some w -> w = ts) -> costat s clk j c k
| CS_sys y n ts :
    at_place s j PSys -> common s j c k -> c_st c = Syscall y n (SSuspend ts) -> In (ts, j) (S_SH s) ->
    q_wake k = None -> costat s clk j c k.

Definition coinv (s : sched) (clk : Z) (ks : list strk) (j : nat) : Prop :=
  match nth_error (S_cos s) j with
  | None => at_place s j PNone
  | Some c => q_st (gk ks j) = c_st c /\ q_mal (gk ks j) = false /\ costat s clk j c (gk ks j)
  end.

Record ginv (nl : nat) (s : sched) (clk : Z) (ks : list strk) : Prop := {
  g_clock : t_clock (S_thr s) = clk;
  g_u64 : clk <= U64MAX;
  g_ts : t_ts (S_thr s) = [];
  g_cn : t_cn (S_thr s) = [];
  g_nl : t_nl (S_thr s) = nl;
  g_len : length ks = length (S_cos s);
  g_q : qok (w_q (sc_w s));
  g_co : forall j, coinv s clk ks j
}.

(** * frame *)

Definition agree (j : nat) (s s' : sched) : Prop :=
  cn j (S_R s') = cn j (S_R s) /\
  cn j (map snd (S_H s')) = cn j (map snd (S_H s)) /\
  cn j (S_Y s') = cn j (S_Y s) /\
  (forall t, In (t, j) (S_H s) -> In (t, j) (S_H s')) /\
  (In j (S_Y s) -> forall t, In (t, j) (S_SH s) -> In (t, j) (S_SH s')) /\
  (In j (S_C s) -> In j (S_C s')).

Lemma agree_refl j s : agree j s s.
Proof. unfold agree. repeat split; auto. Qed.

Lemma at_place_agree s s' j p : agree j s s' -> at_place s j p -> at_place s' j p.
Proof. intros (H1 & H2 & H3 & _) (A1 & A2 & A3). unfold at_place. rewrite H1, H2, H3. auto. Qed.

Lemma common_agree s s' j c k : agree j s s' -> common s j c k -> common s' j c k.
Proof. intros (_ & _ & _ & _ & _ & H6) (A1 & A2 & A3 & A4). unfold common. repeat split; auto. Qed.

Lemma runnable_mono clk clk' st : clk <= clk' -> runnable clk st -> runnable clk' st.
Proof. intro Hle. destruct st as [| |y ts|y n []| | |]; cbn [runnable]; auto. lia. Qed.

Lemma costat_frame s s' clk clk' j c k :
  costat s clk j c k -> agree j s s' -> clk <= clk' -> costat s' clk' j c k.
Proof.
  intros H Ha Hle. pose proof Ha as (H1 & H2 & H3 & H4 & H5 & H6).
  destruct H as [Hp Ht Hf | Hp Hc Hr Hw | y ts Hp Hc Hs Hin Hw | y n ts Hp Hc Hs Hin Hw].
  - apply CS_inactive; [eapply at_place_agree; eassumption | assumption | assumption].
  - apply CS_ready; [eapply at_place_agree; eassumption | eapply common_agree; eassumption
                    | eapply runnable_mono; eassumption | intros w E; specialize (Hw w E); lia].
  - eapply CS_heap; [eapply at_place_agree; eassumption | eapply common_agree; eassumption
                    | exact Hs | apply H4, Hin | exact Hw].
  - eapply CS_sys; [eapply at_place_agree; eassumption | eapply common_agree; eassumption
                   | exact Hs | | exact Hw].
    apply H5; [|exact Hin]. destruct Hp as (_ & _ & Hy). apply cn_In. lia.
Qed.

Lemma coinv_frame s s' clk clk' ks ks' j :
  coinv s clk ks j -> agree j s s' -> clk <= clk' ->
  nth_error (S_cos s') j = nth_error (S_cos s) j -> gk ks' j = gk ks j -> coinv s' clk' ks' j.
Proof.
  unfold coinv. intros H Ha Hle Hn Hg. rewrite Hn, Hg.
  destruct (nth_error (S_cos s) j) as [c|].
  - destruct H as (A & B & C). repeat split; try assumption. eapply costat_frame; eassumption.
  - eapply at_place_agree; eassumption.
Qed.

(** re-establish the invariant after a step that concerns coroutine [i] only *)
Lemma ginv_update nl s clk ks s' clk' i c' k' :
  ginv nl s clk ks ->
  t_clock (S_thr s') = clk' -> clk <= clk' -> clk' <= U64MAX ->
  t_ts (S_thr s') = [] -> t_cn (S_thr s') = [] -> t_nl (S_thr s') = nl ->
  S_cos s' = set_nth i c' (S_cos s) -> (i < length (S_cos s))%nat ->
  qok (w_q (sc_w s')) ->
  (forall j, j <> i -> agree j s s') ->
  q_st k' = c_st c' -> q_mal k' = false -> costat s' clk' i c' k' ->
  ginv nl s' clk' (set_nth i k' ks).
Proof.
  intros [G1 G2 G3 G4 G5 G6 G7 G8] H1 H2 H3 H4 H5 H6 Hcos Hi Hq Hag Hst Hm Hco.
  constructor; try assumption.
  - rewrite set_nth_length, Hcos, set_nth_length. exact G6.
  - intro j. destruct (Nat.eq_dec j i) as [->|Hne].
    + unfold coinv. rewrite Hcos, nth_error_set_nth_same by exact Hi.
      rewrite gk_set_same by lia. auto.
    + eapply coinv_frame; [apply G8 | apply Hag, Hne | exact H2 | | ].
      * rewrite Hcos. apply nth_error_set_nth_other. congruence.
      * apply gk_set_other. congruence.
Qed.

(** ... and after a step that changes no coroutine and no tracker entry *)
Lemma ginv_frame nl s clk ks s' clk' :
  ginv nl s clk ks ->
  t_clock (S_thr s') = clk' -> clk <= clk' -> clk' <= U64MAX ->
  t_ts (S_thr s') = [] -> t_cn (S_thr s') = [] -> t_nl (S_thr s') = nl ->
  S_cos s' = S_cos s -> qok (w_q (sc_w s')) ->
  (forall j, agree j s s') ->
  ginv nl s' clk' ks.
Proof.
  intros [G1 G2 G3 G4 G5 G6 G7 G8] H1 H2 H3 H4 H5 H6 Hcos Hq Hag.
  constructor; try assumption.
  - rewrite Hcos. exact G6.
  - intro j. eapply coinv_frame; [apply G8 | apply Hag | exact H2 | rewrite Hcos; reflexivity | reflexivity].
Qed.

(** * reading the invariant *)

Lemma ginv_co nl s clk ks j c :
  ginv nl s clk ks -> nth_error (S_cos s) j = Some c ->
  q_st (gk ks j) = c_st c /\ q_mal (gk ks j) = false /\ costat s clk j c (gk ks j).
Proof. intros G Hn. pose proof (g_co _ _ _ _ G j) as H. unfold coinv in H. rewrite Hn in H. exact H. Qed.

Lemma ginv_lt_R nl s clk ks j : ginv nl s clk ks -> (cn j (S_R s) > 0)%nat -> (j < length (S_cos s))%nat.
Proof.
  intros G Hc. pose proof (g_co _ _ _ _ G j) as H. unfold coinv in H.
  destruct (nth_error (S_cos s) j) as [c|] eqn:E; [eapply nth_error_Some_lt; exact E|].
  destruct H as (A & _). lia.
Qed.

Lemma ginv_lt_H nl s clk ks j :
  ginv nl s clk ks -> (cn j (map snd (S_H s)) > 0)%nat -> (j < length (S_cos s))%nat.
Proof.
  intros G Hc. pose proof (g_co _ _ _ _ G j) as H. unfold coinv in H.
  destruct (nth_error (S_cos s) j) as [c|] eqn:E; [eapply nth_error_Some_lt; exact E|].
  destruct H as (_ & A & _). lia.
Qed.

Lemma ginv_lt_Y nl s clk ks j : ginv nl s clk ks -> (cn j (S_Y s) > 0)%nat -> (j < length (S_cos s))%nat.
Proof.
  intros G Hc. pose proof (g_co _ _ _ _ G j) as H. unfold coinv in H.
  destruct (nth_error (S_cos s) j) as [c|] eqn:E; [eapply nth_error_Some_lt; exact E|].
  destruct H as (_ & _ & A). lia.
Qed.

(** which constructor applies is determined by where the coroutine sits *)
Lemma costat_ready s clk j c k :
  costat s clk j c k -> (cn j (S_R s) > 0)%nat ->
  at_place s j PReady /\ common s j c k /\ runnable clk (c_st c) /\ (forall w, q_wake k = Some w -> w <= clk).
Proof.
  intros H Hc. destruct H as [Hp _ _ | Hp Hcm Hr Hw | y ts Hp _ _ _ _ | y n ts Hp _ _ _ _];
    try (destruct Hp as (A & _); lia). auto.
Qed.

Lemma costat_heap s clk j c k :
  costat s clk j c k -> (cn j (map snd (S_H s)) > 0)%nat ->
  exists y ts, at_place s j PHeap /\ common s j c k /\ c_st c = Suspend y ts /\ In (ts, j) (S_H s) /\
               (forall w, q_wake k = Some w -> w = ts).
Proof.
  intros H Hc. destruct H as [Hp _ _ | Hp _ _ _ | y ts Hp Hcm Hs Hin Hw | y n ts Hp _ _ _ _];
    try (destruct Hp as (_ & A & _); lia). eauto 8.
Qed.

Lemma costat_sys s clk j c k :
  costat s clk j c k -> (cn j (S_Y s) > 0)%nat ->
  exists y n ts, at_place s j PSys /\ common s j c k /\ c_st c = Syscall y n (SSuspend ts) /\
                 In (ts, j) (S_SH s) /\ q_wake k = None.
Proof.
  intros H Hc. destruct H as [Hp _ _ | Hp _ _ _ | y ts Hp _ _ _ _ | y n ts Hp Hcm Hs Hin Hw];
    try (destruct Hp as (_ & _ & A); lia). eauto 10.
Qed.

(** * the measure that bounds the number of iterations of a pass *)

Definition wt (c : co) : nat := if is_terminal (c_st c) then 0%nat else (2 + length (c_body c))%nat.
Definition mu (cos : list co) : nat := fold_right Nat.add 0%nat (map wt cos).

Lemma mu_set_nth cos i c c' :
  nth_error cos i = Some c -> (mu (set_nth i c' cos) + wt c = mu cos + wt c')%nat.
Proof.
  revert i; induction cos as [|a cos IH]; intros [|i]; cbn [nth_error]; try discriminate.
  - intro H. injection H as ->. rewrite set_nth_cons_0. unfold mu. cbn [map fold_right]. lia.
  - intro H. rewrite set_nth_cons_S. unfold mu in *. cbn [map fold_right]. specialize (IH i H). lia.
Qed.

Lemma pass_fuel_mu s : (mu (S_cos s) < pass_fuel s)%nat.
Proof.
  unfold pass_fuel, S_cos, mu. induction (t_cos (w_thr (sc_w s))) as [|a l IH]; cbn [map fold_right]; [lia|].
  unfold wt at 1. destruct (is_terminal (c_st a)); lia.
Qed.

(** [w_change] on an existing coroutine *)
Lemma w_change_some w i c new :
  nth_error (t_cos (w_thr w)) i = Some c ->
  w_change w i new = (with_thr w (upd_co (w_thr w) i (with_st c new)),
                      change_events (t_nl (w_thr w)) i (c_st c) new).
Proof. intro H. unfold w_change. rewrite H. reflexivity. Qed.
