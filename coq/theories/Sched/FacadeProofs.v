(** Proofs about the facade mapping ([Sched/Facade.v]) and its oracle ([Sched/FacadeOracle.v]). *)
From Coq Require Import String.
From Coq Require Import ZifyBool.
From OCV Require Import Base.Prelude Misc.Time Coroutine.Co Sched.Pool Sched.JoinHandle Sched.Facade Sched.FacadeOracle.
Open Scope Z_scope.

(** addresses the ABI can carry: a [Box] is never null, and [c_longlong] ends at [I64MAX] *)
Definition ptr_ok (ptr : Z) : bool := (0 <? ptr) && (ptr <=? I64MAX).

Definition mkj (dl now : Z) (fin : option Z) : jhjoin := {| jj_deadline := dl; jj_now := now; jj_fin_at := fin |}.

Lemma call_deadline_now_total : forall now c, exists dl, call_deadline FNow now c = Some dl.
Proof.
  intros now [|d]; cbn [call_deadline]; [eexists; reflexivity|].
  destruct (d <=? U64MAX); eexists; reflexivity.
Qed.

Lemma cell_outcome : forall o,
  match task_main FNow o with CellOk v => FVal v | CellErr m => FErr m end = own_outcome o.
Proof. intros [v|[m|m|]]; reflexivity. Qed.

Lemma abi_ptr : forall ptr, ptr_ok ptr = true -> abi_of (JHVal (core_result ptr)) = Some ptr.
Proof.
  intros ptr H. unfold ptr_ok in H. apply andb_true_iff in H as [H1 H2].
  unfold abi_of, core_result. apply Z.ltb_lt in H1. apply Z.leb_le in H2.
  destruct (ptr <? 0) eqn:E; [apply Z.ltb_lt in E; lia|].
  destruct (ptr <=? I64MAX) eqn:E2; [reflexivity|apply Z.leb_gt in E2; lia].
Qed.

(** one step, fresh or not, finished or not: the four cases *)
Lemma step_finished_fresh : forall ver o ptr s c now fin dl,
  ptr_ok ptr = true -> call_deadline ver now c = Some dl ->
  fs_consumed s = false -> fs_freed s = false ->
  finished_by_deadline (mkj dl now fin) = true ->
  facade_step ver true ptr o s c now fin
  = (match task_main ver o with CellOk v => FVal v | CellErr m => FErr m end,
     {| fs_consumed := true; fs_freed := true |}).
Proof.
  intros ver o ptr s c now fin dl Hp Hd Hc Hf Hfin. unfold facade_step. rewrite Hd.
  unfold jh_step. cbn [negb]. unfold mkj in Hfin. rewrite Hfin, Hc. cbn [negb andb].
  rewrite (abi_ptr _ Hp). unfold ptr_ok in Hp. apply andb_true_iff in Hp as [H1 H2].
  apply Z.ltb_lt in H1.
  destruct (ptr <? 0) eqn:E; [apply Z.ltb_lt in E; lia|].
  destruct (ptr =? 0) eqn:E0; [apply Z.eqb_eq in E0; lia|].
  rewrite Z.eqb_refl, Hf. cbn [negb andb]. reflexivity.
Qed.

Lemma step_not_available : forall ver o ptr s c now fin dl,
  call_deadline ver now c = Some dl ->
  finished_by_deadline (mkj dl now fin) && negb (fs_consumed s) = false ->
  facade_step ver true ptr o s c now fin = (FFailed, s).
Proof.
  intros ver o ptr s c now fin dl Hd H. unfold facade_step. rewrite Hd.
  unfold jh_step. cbn [negb]. unfold mkj in H. rewrite H. cbn [abi_of].
  cbn. destruct s; reflexivity.
Qed.

(** * The property at this layer *)

(** a finished task's facade join returns exactly the task's own value, or its panic message:
    every outcome, every call ([join], [timeout_join] with any duration), every clock *)
Theorem facade_finished_returns_own : forall o ptr c now fin dl,
  ptr_ok ptr = true -> call_deadline FNow now c = Some dl ->
  finished_by_deadline (mkj dl now fin) = true ->
  fst (facade_step FNow true ptr o fs0 c now fin) = own_outcome o.
Proof.
  intros o ptr c now fin dl Hp Hd Hfin.
  rewrite (step_finished_fresh FNow o ptr fs0 c now fin dl Hp Hd eq_refl eq_refl Hfin).
  cbn [fst]. apply cell_outcome.
Qed.

(** in particular a task that finished before the call: zero, expired and oversized durations included *)
Theorem facade_expired_deadline_still_returns : forall o ptr c now f,
  ptr_ok ptr = true -> f <= now ->
  fst (facade_step FNow true ptr o fs0 c now (Some f)) = own_outcome o.
Proof.
  intros o ptr c now f Hp Hf. destruct (call_deadline_now_total now c) as [dl Hd].
  apply (facade_finished_returns_own o ptr c now (Some f) dl Hp Hd).
  unfold finished_by_deadline, mkj. cbn. apply orb_true_iff. left. apply Z.leb_le. exact Hf.
Qed.

(** a failure is reported only if the task had not finished by the deadline *)
Theorem facade_timeout_only_if_unfinished : forall o ptr c now fin dl,
  ptr_ok ptr = true -> call_deadline FNow now c = Some dl ->
  fst (facade_step FNow true ptr o fs0 c now fin) = FFailed ->
  finished_by_deadline (mkj dl now fin) = false.
Proof.
  intros o ptr c now fin dl Hp Hd H.
  destruct (finished_by_deadline (mkj dl now fin)) eqn:E; [|reflexivity].
  rewrite (facade_finished_returns_own o ptr c now fin dl Hp Hd E) in H.
  destruct o as [v|[m|m|]]; discriminate.
Qed.

(** * Sequences of calls on one handle: memory safety of the unboxing, outcome handed out once *)

Definition fs_inv (s : fstate) : Prop := fs_freed s = true -> fs_consumed s = true.

Lemma step_cases : forall o ptr s c now fin,
  ptr_ok ptr = true -> fs_inv s ->
  (facade_step FNow true ptr o s c now fin = (FFailed, s))
  \/ (fs_consumed s = false /\
      facade_step FNow true ptr o s c now fin = (own_outcome o, {| fs_consumed := true; fs_freed := true |})).
Proof.
  intros o ptr s c now fin Hp Hinv. destruct (call_deadline_now_total now c) as [dl Hd].
  destruct (finished_by_deadline (mkj dl now fin) && negb (fs_consumed s)) eqn:E.
  - right. apply andb_true_iff in E as [E1 E2]. apply negb_true_iff in E2.
    assert (Hf : fs_freed s = false).
    { destruct (fs_freed s) eqn:F; [|reflexivity]. rewrite (Hinv F) in E2. discriminate. }
    split; [exact E2|].
    rewrite (step_finished_fresh FNow o ptr s c now fin dl Hp Hd E2 Hf E1). rewrite cell_outcome. reflexivity.
  - left. apply (step_not_available FNow o ptr s c now fin dl Hd E).
Qed.

Lemma own_is_outcome : forall o, is_outcome (own_outcome o) = true.
Proof. intros [v|[m|m|]]; reflexivity. Qed.

(** no call ever unboxes a wrong or freed address, aborts, panics or yields [Ok(None)] *)
Theorem facade_run_safe : forall o ptr cs s,
  ptr_ok ptr = true -> fs_inv s ->
  Forall (fun r => r = FFailed \/ r = own_outcome o) (facade_run FNow true ptr o s cs).
Proof.
  intros o ptr cs. induction cs as [|c cs IH]; intros s Hp Hinv; cbn [facade_run]; [constructor|].
  destruct (step_cases o ptr s (fc_call c) (fc_now c) (fc_fin c) Hp Hinv) as [H|[Hc H]]; rewrite H.
  - constructor; [left; reflexivity|]. apply IH; assumption.
  - constructor; [right; reflexivity|]. apply IH; [assumption|]. intros _. reflexivity.
Qed.

Lemma run_consumed : forall o ptr cs s,
  ptr_ok ptr = true -> fs_inv s -> fs_consumed s = true ->
  filter is_outcome (facade_run FNow true ptr o s cs) = [].
Proof.
  intros o ptr cs. induction cs as [|c cs IH]; intros s Hp Hinv Hc; cbn [facade_run]; [reflexivity|].
  destruct (step_cases o ptr s (fc_call c) (fc_now c) (fc_fin c) Hp Hinv) as [H|[Hc' H]].
  - rewrite H. cbn [filter is_outcome]. apply IH; assumption.
  - rewrite Hc in Hc'. discriminate.
Qed.

(** the task's outcome is handed out (and its box freed) at most once, however often the handle is asked *)
Theorem facade_handed_out_once : forall o ptr cs s,
  ptr_ok ptr = true -> fs_inv s ->
  (List.length (filter is_outcome (facade_run FNow true ptr o s cs)) <= 1)%nat.
Proof.
  intros o ptr cs. induction cs as [|c cs IH]; intros s Hp Hinv; cbn [facade_run]; [cbn; lia|].
  destruct (step_cases o ptr s (fc_call c) (fc_now c) (fc_fin c) Hp Hinv) as [H|[Hc H]]; rewrite H.
  - cbn [filter is_outcome]. apply IH; assumption.
  - cbn [filter]. rewrite own_is_outcome. cbn [List.length].
    rewrite (run_consumed o ptr cs _ Hp); [cbn; lia| intros _; reflexivity | reflexivity].
Qed.

(** * The oracle accepts every run of the model *)

Lemma outcome_matches_own : forall o, outcome_matches o (own_outcome o) = true.
Proof. intros [v|[m|m|]]; cbn; try apply String.eqb_refl; reflexivity. Qed.

(** the oracle's "finished by the end of the requested wait" is the model's, for the code as it is *)
Lemma finished_in_time_spec : forall c dl,
  call_deadline FNow (fc_now c) (fc_call c) = Some dl ->
  finished_by_deadline (mkj dl (fc_now c) (fc_fin c)) = finished_in_time c.
Proof.
  intros c dl Hd. unfold finished_by_deadline, finished_in_time, mkj. cbn [jj_fin_at jj_now jj_deadline].
  destruct (fc_fin c) as [f|]; [|reflexivity].
  destruct (fc_call c) as [|d]; cbn [call_deadline] in Hd.
  - inversion Hd; subst. reflexivity.
  - destruct (d <=? U64MAX) eqn:E; inversion Hd; subst.
    + apply Z.leb_le in E. rewrite Z.min_l by exact E. reflexivity.
    + apply Z.leb_gt in E. rewrite Z.min_r by lia. reflexivity.
Qed.

Lemma fprop_run : forall o ptr cs s,
  ptr_ok ptr = true -> fs_inv s ->
  fprop o (fs_consumed s) (combine cs (facade_run FNow true ptr o s cs)) = true.
Proof.
  intros o ptr cs. induction cs as [|c cs IH]; intros s Hp Hinv; cbn [facade_run]; [reflexivity|].
  destruct (call_deadline_now_total (fc_now c) (fc_call c)) as [dl Hd].
  destruct (finished_by_deadline (mkj dl (fc_now c) (fc_fin c)) && negb (fs_consumed s)) eqn:E.
  - apply andb_true_iff in E as [E1 E2]. apply negb_true_iff in E2.
    assert (Hf : fs_freed s = false).
    { destruct (fs_freed s) eqn:F; [|reflexivity]. rewrite (Hinv F) in E2. discriminate. }
    rewrite (step_finished_fresh FNow o ptr s _ _ _ dl Hp Hd E2 Hf E1). rewrite cell_outcome.
    cbn [combine fprop]. rewrite E2.
    assert (IH' := IH {| fs_consumed := true; fs_freed := true |} Hp (fun _ => eq_refl)). cbn [fs_consumed] in IH'.
    destruct (own_outcome o) eqn:Eo; try (destruct o as [v0|[m0|m0|]]; discriminate);
      rewrite <- Eo, outcome_matches_own, IH'; reflexivity.
  - rewrite (step_not_available FNow o ptr s _ _ _ dl Hd E). cbn [combine fprop].
    rewrite (IH s Hp Hinv), andb_true_r.
    destruct (fs_consumed s); [apply orb_true_r|]. cbn [negb] in E. rewrite andb_true_r in E.
    rewrite <- (finished_in_time_spec c dl Hd), E. reflexivity.
Qed.

Theorem facade_oracle_ok : forall o ptr cs,
  ptr_ok ptr = true -> fprop o false (combine cs (facade_run FNow true ptr o fs0 cs)) = true.
Proof. intros o ptr cs Hp. apply (fprop_run o ptr cs fs0 Hp). intros H. discriminate. Qed.

(** * What the mapping cannot represent *)

(** an address above [I64MAX]: [expect("overflow")] inside an [extern "C"] function, the process aborts *)
Theorem facade_ptr_overflow_aborts : forall ver o ptr c now fin dl,
  I64MAX < ptr -> call_deadline ver now c = Some dl ->
  finished_by_deadline (mkj dl now fin) = true ->
  fst (facade_step ver true ptr o fs0 c now fin) = FAbort.
Proof.
  intros ver o ptr c now fin dl Hp Hd Hfin. unfold facade_step. rewrite Hd.
  unfold jh_step. cbn [negb fs0 fs_consumed]. unfold mkj in Hfin. rewrite Hfin. cbn [negb andb].
  unfold abi_of, core_result. unfold I64MAX in *.
  destruct (ptr <? 0) eqn:E; [apply Z.ltb_lt in E; lia|].
  destruct (ptr <=? 9223372036854775807) eqn:E2; [apply Z.leb_le in E2; lia|]. reflexivity.
Qed.

(** a settled task whose core-level result is an error (cancelled before it ran, pool stopped) reads
    exactly like a wait that timed out and like an invalid handle: all three are [-1] *)
Theorem facade_error_conflation : forall (m : tmsg) j,
  finished_by_deadline j = true ->
  abi_of (fst (jh_step true (TErr m) false j)) = abi_of JHTimedOut
  /\ abi_of JHTimedOut = abi_of JHInvalid.
Proof. intros m j H. unfold jh_step. cbn [negb]. rewrite H. cbn. split; reflexivity. Qed.

(** a payload that is not a string is reported with a fixed text, the same a task gets that
    panics with that text: the outcome is not determined by what is returned *)
Theorem facade_payload_not_injective :
  UPanic PayOther <> UPanic (PayStatic no_message)
  /\ own_outcome (UPanic PayOther) = own_outcome (UPanic (PayStatic no_message))
  /\ forall ptr s c now fin,
       facade_step FNow true ptr (UPanic PayOther) s c now fin
       = facade_step FNow true ptr (UPanic (PayStatic no_message)) s c now fin.
Proof. split; [discriminate|]. split; reflexivity. Qed.

(** [Ok(None)] is never what a facade task yields (its core-level result is always [Some(address)]) *)
Theorem facade_never_none : forall o ptr cs,
  ptr_ok ptr = true -> ~ In FNone (facade_run FNow true ptr o fs0 cs).
Proof.
  intros o ptr cs Hp Hin.
  assert (H := facade_run_safe o ptr cs fs0 Hp (fun H => ltac:(discriminate))).
  rewrite Forall_forall in H. destruct (H _ Hin) as [E|E]; [discriminate|].
  destruct o as [v|[m|m|]]; discriminate.
Qed.

(** * The code before the repairs *)

(** a task that panicked with a formatted message ([String] payload) was reported without it *)
Theorem facade_refuted_old_string_payload : exists o c now fin dl,
  call_deadline FOld now c = Some dl /\ finished_by_deadline (mkj dl now fin) = true
  /\ fst (facade_step FOld true 4096 o fs0 c now fin) <> own_outcome o.
Proof.
  exists (UPanic (PayString "task 5 failed: code=35")), FCJoin, 1000, (Some 0), U64MAX.
  split; [reflexivity|]. split; [reflexivity|]. vm_compute. discriminate.
Qed.

(** [timeout_join(Duration::MAX)] panicked in the facade even for a finished task *)
Theorem facade_refuted_old_duration_overflow : forall o ptr now f d,
  U64MAX < d -> fst (facade_step FOld true ptr o fs0 (FCTimeout d) now (Some f)) = FPanic.
Proof.
  intros o ptr now f d H. unfold facade_step, call_deadline.
  destruct (d <=? U64MAX) eqn:E; [apply Z.leb_le in E; lia|]. reflexivity.
Qed.

(** apart from those two the old code and the repaired code agree *)
Theorem facade_old_agrees_elsewhere : forall o ptr s c now fin,
  (forall m, o <> UPanic (PayString m)) -> (forall d, c = FCTimeout d -> d <= U64MAX) ->
  facade_step FOld true ptr o s c now fin = facade_step FNow true ptr o s c now fin.
Proof.
  intros o ptr s c now fin Ho Hc. unfold facade_step.
  assert (Hd : call_deadline FOld now c = call_deadline FNow now c).
  { destruct c as [|d]; [reflexivity|]. cbn [call_deadline].
    specialize (Hc d eq_refl). destruct (d <=? U64MAX) eqn:E; [reflexivity|apply Z.leb_gt in E; lia]. }
  rewrite Hd. destruct o as [v|[m|m|]]; try reflexivity. exfalso. apply (Ho m). reflexivity.
Qed.

(** * [any_timeout_join] / [any_join] *)

Lemma best_member : forall now dl hs t v, best now dl hs = Some (t, v) ->
  exists h, In h hs /\ ah_out h = URet v /\ fin_by now dl h = true /\ seen_at now h = t.
Proof.
  intros now dl hs. induction hs as [|h r IH]; intros t v H; cbn [best] in H; [discriminate|].
  destruct (ah_out h) as [v0|p] eqn:Eo.
  - destruct (fin_by now dl h) eqn:Ef.
    + destruct (best now dl r) as [[t' v']|] eqn:Eb.
      * destruct (seen_at now h <=? t') eqn:El.
        -- inversion H; subst. exists h. repeat split; auto. left; reflexivity.
        -- inversion H; subst. destruct (IH _ _ eq_refl) as [h' [Hin Hrest]]. exists h'. split; [right; exact Hin|exact Hrest].
      * inversion H; subst. exists h. repeat split; auto. left; reflexivity.
    + destruct (IH _ _ H) as [h' [Hin Hrest]]. exists h'. split; [right; exact Hin|exact Hrest].
  - destruct (IH _ _ H) as [h' [Hin Hrest]]. exists h'. split; [right; exact Hin|exact Hrest].
Qed.

Lemma best_none : forall now dl hs, best now dl hs = None ->
  forall h, In h hs -> fin_by now dl h = true -> is_panic (ah_out h) = true.
Proof.
  intros now dl hs. induction hs as [|h r IH]; intros H h' Hin Hf; [destruct Hin|].
  cbn [best] in H. destruct Hin as [->|Hin].
  - destruct (ah_out h') as [v0|p] eqn:Eo; [|reflexivity]. rewrite Hf in H.
    destruct (best now dl r) as [[t' v']|]; [destruct (seen_at now h' <=? t')|]; discriminate.
  - apply IH; auto. destruct (ah_out h) as [v0|p]; [|exact H].
    destruct (fin_by now dl h); [|exact H].
    destruct (best now dl r) as [[t' v']|]; [destruct (seen_at now h <=? t')|]; discriminate.
Qed.

(** the value-handle that wins is the earliest one *)
Lemma best_earliest : forall now dl hs t v, best now dl hs = Some (t, v) ->
  forall h, In h hs -> is_panic (ah_out h) = false -> fin_by now dl h = true -> t <= seen_at now h.
Proof.
  intros now dl hs. induction hs as [|h r IH]; intros t v H h' Hin Hp Hf; [destruct Hin|].
  cbn [best] in H. destruct Hin as [->|Hin].
  - destruct (ah_out h') as [v0|p] eqn:Eo; [|discriminate]. rewrite Hf in H.
    destruct (best now dl r) as [[t' v']|].
    + destruct (seen_at now h' <=? t') eqn:El; inversion H; subst; [lia|]. apply Z.leb_gt in El. lia.
    + inversion H; subst. lia.
  - destruct (ah_out h) as [v0|p].
    + destruct (fin_by now dl h).
      * destruct (best now dl r) as [[t' v']|] eqn:Eb.
        -- destruct (seen_at now h <=? t') eqn:El; inversion H; subst.
           ++ apply Z.leb_le in El. specialize (IH _ _ eq_refl h' Hin Hp Hf). lia.
           ++ apply (IH _ _ eq_refl h' Hin Hp Hf).
        -- exfalso. assert (Hx := best_none now dl r Eb h' Hin Hf). rewrite Hx in Hp. discriminate.
      * apply (IH _ _ H h' Hin Hp Hf).
    + apply (IH _ _ H h' Hin Hp Hf).
Qed.

(** a value returned is the value of one of the handles, whose task finished by the deadline *)
Theorem any_value_is_a_members : forall ver now dur hs v,
  any_model ver now dur hs = AVal v ->
  exists h, In h hs /\ ah_out h = URet v /\ fin_by now (any_deadline now dur) h = true.
Proof.
  intros ver now dur hs v H. unfold any_model in H. destruct hs as [|h0 r]; [discriminate|].
  set (hs := h0 :: r) in *. set (dl := any_deadline now dur) in *.
  assert (Hb : exists t, best now dl hs = Some (t, v)).
  { destruct ver; [destruct (dl <=? now); [discriminate|]|];
      (destruct (best now dl hs) as [[t v']|]; [inversion H; subst; eexists; reflexivity|destruct (dl =? U64MAX); discriminate]). }
  destruct Hb as [t Hb]. destruct (best_member _ _ _ _ _ Hb) as [h [Hin [Ho [Hf _]]]].
  exists h. auto.
Qed.

(** outside the defect branch (no panicked task's outcome is dropped) the property holds: if any
    handle's task finishes by the deadline — before the call included, whatever the duration — a
    value of such a handle is returned; failure or divergence only if none did; the oracle accepts *)
Theorem any_holds_outside : forall now dur hs,
  any_swallows now dur hs = false ->
  let dl := any_deadline now dur in
  (forall h, In h hs -> fin_by now dl h = true -> exists v, any_model FNow now dur hs = AVal v)
  /\ ((any_model FNow now dur hs = AFailed \/ any_model FNow now dur hs = ADiverged) ->
      forall h, In h hs -> fin_by now dl h = false)
  /\ any_prop (flags_of now dl hs) (any_model FNow now dur hs) = true.
Proof.
  intros now dur hs Hs dl.
  assert (Hnone : best now dl hs = None -> forall h, In h hs -> fin_by now dl h = false).
  { intros Hb h Hin. destruct (fin_by now dl h) eqn:Ef; [|reflexivity].
    assert (Hp := best_none now dl hs Hb h Hin Ef).
    unfold any_swallows in Hs. fold dl in Hs. rewrite Hb in Hs.
    assert (Hx : existsb (fun h0 => is_panic (ah_out h0) && fin_by now dl h0 && true) hs = true).
    { apply existsb_exists. exists h. split; [exact Hin|]. rewrite Hp, Ef. reflexivity. }
    rewrite Hx in Hs. discriminate. }
  assert (Hmodel : any_model FNow now dur hs =
                   match hs with [] => ANone | _ => match best now dl hs with Some (_, v) => AVal v
                                                  | None => if dl =? U64MAX then ADiverged else AFailed end end).
  { unfold any_model. destruct hs; [reflexivity|]. fold dl. destruct (dl <=? now); reflexivity. }
  split; [|split].
  - intros h Hin Hf. rewrite Hmodel. destruct hs as [|h0 r]; [destruct Hin|].
    destruct (best now dl (h0 :: r)) as [[t v]|] eqn:Eb; [eexists; reflexivity|].
    rewrite (Hnone eq_refl h Hin) in Hf. discriminate.
  - intros Hr h Hin. rewrite Hmodel in Hr. destruct hs as [|h0 r]; [destruct Hin|].
    destruct (best now dl (h0 :: r)) as [[t v]|] eqn:Eb; [destruct Hr; discriminate|].
    apply (Hnone eq_refl h Hin).
  - rewrite Hmodel. destruct hs as [|h0 r]; [reflexivity|].
    destruct (best now dl (h0 :: r)) as [[t v]|] eqn:Eb.
    + destruct (best_member _ _ _ _ _ Eb) as [h [Hin [Ho [Hf _]]]].
      cbn [any_prop]. apply existsb_exists. exists {| af_out := ah_out h;
        af_before := match ah_fin h with Some f => f <=? now | None => false end; af_after := fin_by now dl h |}.
      split; [unfold flags_of; apply in_map_iff; exists h; split; [reflexivity|exact Hin]|].
      cbn. rewrite Ho, Hf, String.eqb_refl. reflexivity.
    + assert (Hb : existsb af_before (flags_of now dl (h0 :: r)) = false).
      { destruct (existsb af_before (flags_of now dl (h0 :: r))) eqn:Ex; [|reflexivity].
        apply existsb_exists in Ex as [fl [Hin Hbf]]. unfold flags_of in Hin. apply in_map_iff in Hin as [h [<- Hin]].
        cbn in Hbf. assert (Hf := Hnone eq_refl h Hin). unfold fin_by in Hf.
        destruct (ah_fin h) as [f|]; [|discriminate]. rewrite Hbf in Hf. discriminate. }
      destruct (dl =? U64MAX); cbn [any_prop]; rewrite Hb; reflexivity.
Qed.

(** the winner is the earliest finisher among the handles that yield a value *)
Theorem any_returns_earliest : forall now dur hs v,
  any_model FNow now dur hs = AVal v ->
  exists hw, In hw hs /\ ah_out hw = URet v /\
    forall h, In h hs -> is_panic (ah_out h) = false -> fin_by now (any_deadline now dur) h = true ->
              seen_at now hw <= seen_at now h.
Proof.
  intros now dur hs v H. unfold any_model in H. destruct hs as [|h0 r]; [discriminate|].
  set (hs := h0 :: r) in *. set (dl := any_deadline now dur) in *.
  assert (Hb : exists t, best now dl hs = Some (t, v)).
  { destruct (dl <=? now);
      (destruct (best now dl hs) as [[t v']|]; [inversion H; subst; eexists; reflexivity|destruct (dl =? U64MAX); discriminate]). }
  destruct Hb as [t Hb]. destruct (best_member _ _ _ _ _ Hb) as [hw [Hin [Ho [Hf Ht]]]].
  exists hw. split; [exact Hin|]. split; [exact Ho|]. intros h Hh Hp Hfh. rewrite Ht.
  apply (best_earliest _ _ _ _ _ Hb h Hh Hp Hfh).
Qed.

(** the defect branch, as the code is: a single task that PANICKED before the call; [any_join]
    (unlimited) never returns, [any_timeout_join] reports a time-out; the message is dropped *)
Theorem any_refuted_swallows_panic : exists now hs,
  any_swallows now 1000000000 hs = true /\ any_swallows now (U64MAX + 1) hs = true
  /\ (forall h, In h hs -> exists f, ah_fin h = Some f /\ f <= now)
  /\ any_model FNow now (U64MAX + 1) hs = ADiverged
  /\ any_model FNow now 1000000000 hs = AFailed
  /\ any_prop (flags_of now (any_deadline now 1000000000) hs) (any_model FNow now 1000000000 hs) = false.
Proof.
  exists 1000, [{| ah_out := UPanic (PayStatic "boom"); ah_fin := Some 10 |}].
  repeat split; try (vm_compute; reflexivity).
  intros h [<-|[]]. exists 10. split; [reflexivity|lia].
Qed.

(** before the repair: no time left meant "timed out" without asking, also for a finished task *)
Theorem any_refuted_old_zero_duration : exists now hs,
  (forall h, In h hs -> exists f, ah_fin h = Some f /\ f <= now /\ is_panic (ah_out h) = false)
  /\ any_model FOld now 0 hs = AFailed /\ any_model FNow now 0 hs = AVal "7".
Proof.
  exists 1000, [{| ah_out := URet "7"; ah_fin := Some 10 |}].
  split; [|split; vm_compute; reflexivity].
  intros h [<-|[]]. exists 10. repeat split; [lia].
Qed.
