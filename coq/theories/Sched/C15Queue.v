(** C15: what the pool proofs need to know about the two work-steal queues of a single pool
    (one local queue, one handle): a bag of items. Derived from the queue invariant and the
    conservation lemmas of the queue group (Queue/OWSInv, Queue/OWSStep). *)
From OCV Require Import Base.Prelude Queue.PMap Queue.OWS Queue.OWSOracle Queue.OWSLemmas Queue.OWSModel
  Queue.OWSInv Queue.OWSStep Sched.Pool.
From Coq Require Import ZifyBool ZifyNat Permutation.
Open Scope Z_scope.

Definition QOK (s : sys) : Prop := Inv 1 queue_cap s /\ length (s_handles s) = 1%nat.

Lemma QOK_handle s : QOK s -> exists hd, nth_error (s_handles s) 0 = Some hd.
Proof.
  intros [_ H]. destruct (s_handles s) as [|hd l]; [discriminate|]. exists hd. reflexivity.
Qed.

Lemma QOK_init : QOK (add_handles 1 (OWS.init 1 queue_cap)).
Proof.
  cbn [add_handles Nat.max]. pose proof (Inv_init 1 queue_cap) as HI.
  destruct (new_handle_spec 1 queue_cap _ HI) as (HI' & _ & _ & _ & [[H _]|(_ & ix & _ & Hh & _)]); [discriminate|].
  split; [exact HI'|]. rewrite Hh. reflexivity.
Qed.

Lemma all_items_init : all_items (add_handles 1 (OWS.init 1 queue_cap)) = [].
Proof. reflexivity. Qed.

Lemma perm_of_tot s s' l :
  (forall z, tot z s' = (cnt z l + tot z s)%nat) -> Permutation (all_items s') (l ++ all_items s).
Proof.
  intro H. apply cnt_perm. intro z. rewrite cnt_app. apply H.
Qed.

Lemma lpush_handles s h p x n cap :
  Inv n cap s -> length (s_handles (fst (lpush s h p x))) = length (s_handles s).
Proof.
  intro HI. unfold lpush. destruct (nth_error (s_handles s) h) as [hd|] eqn:Hn; [|reflexivity].
  pose proof (Inv_hd _ _ _ _ _ HI Hn) as [Hix Hlen].
  pose proof (inv_wf _ _ _ HI) as Hw. pose proof (inv_nloc _ _ _ HI) as Hnl.
  destruct (s_cap s <=? h_len hd).
  - destruct (push_to_global_spec s h hd p x Hw ltac:(lia)) as (s1 & hd' & Hm & -> & _).
    cbn [fst]. autorewrite with sys. rewrite OWSLemmas.set_nth_length, (mv_handles _ _ Hm). reflexivity.
  - set (m1 := pm_ensure p (local_of s (h_ix hd))).
    destruct (rcap (s_cap s) <=? Z.of_nat (length (pm_get p m1))).
    + pose proof (moves_ensure s (h_ix hd) p Hw) as Hm0. fold m1 in Hm0.
      destruct (push_to_global_spec (upd_local s (h_ix hd) m1) h hd p x (mv_wf _ _ Hm0)
                  ltac:(rewrite nloc_upd_local; lia)) as (s1 & hd' & Hm & -> & _).
      cbn [fst]. autorewrite with sys. rewrite OWSLemmas.set_nth_length, (mv_handles _ _ Hm). reflexivity.
    + cbn [fst]. autorewrite with sys. apply OWSLemmas.set_nth_length.
Qed.

(** push: the item is added *)
Lemma q_push s p x :
  QOK s -> QOK (fst (lpush s 0 p x)) /\ Permutation (all_items (fst (lpush s 0 p x))) (x :: all_items s).
Proof.
  intros [HI Hh]. destruct (QOK_handle s (conj HI Hh)) as [hd Hn].
  destruct (lpush_spec 1 queue_cap s 0 hd p x HI Hn) as (_ & HI' & Ht).
  split; [split; [exact HI'|]|].
  - rewrite (lpush_handles s 0 p x _ _ HI). exact Hh.
  - apply (perm_of_tot s _ [x]). intro z. rewrite (Ht z), cnt_cons, cnt_nil. lia.
Qed.

(** pop: an item of the bag is removed; [None] exactly when the bag is empty *)
Lemma q_pop s start :
  QOK s ->
  exists s' ox, lpop s 0 start = (s', OItem ox) /\ QOK s' /\
    match ox with
    | Some x => Permutation (all_items s) (x :: all_items s')
    | None => all_items s = [] /\ all_items s' = []
    end.
Proof.
  intros [HI Hh]. destruct (QOK_handle s (conj HI Hh)) as [hd Hn].
  destruct (lpop_spec 1 queue_cap s 0 start hd HI Hn) as [HI' (ox & Hr & Ht & _ & Hnone) Htick _].
  destruct (lpop s 0 start) as [s' r] eqn:E. cbn [fst snd] in *. subst r.
  exists s', ox. split; [reflexivity|]. split.
  - split; [exact HI'|]. apply (f_equal (@length Z)) in Htick.
    rewrite OWSLemmas.set_nth_length, !map_length in Htick. lia.
  - destruct ox as [x|].
    + apply (perm_of_tot s' s [x]). intro z. rewrite (Ht z). cbn [olist]. lia.
    + specialize (Hnone eq_refl). split; [exact Hnone|].
      apply cnt_all0_nil. intro z. specialize (Ht z). unfold tot in Ht. rewrite Hnone in Ht.
      cbn [olist] in Ht. rewrite !cnt_nil in Ht. lia.
Qed.

Lemma q_len s : QOK s -> full_len s = Z.of_nat (length (all_items s)).
Proof. intros [HI _]. apply full_len_eq, (inv_I2 _ _ _ HI). Qed.
