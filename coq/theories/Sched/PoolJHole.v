(** Taking a worker out of the scheduler's containers (the ready queue, the suspend heap, the
    syscall map) and putting it back. *)
From OCV Require Import Base.Prelude Misc.Time Queue.PMap Queue.OWS Queue.OWSOracle Queue.OWSLemmas Queue.OWSModel Queue.OWSStep.
From OCV Require Import Coroutine.Co Coroutine.CoLemmas Sched.Sched Sched.Pool Sched.PoolOracle Sched.PoolBase Sched.PoolWf Sched.PoolQ Sched.PoolJ Sched.PoolJLemmas Sched.PoolCanon Sched.PoolUnfold Sched.PoolJStep Sched.PoolJLoop.
From Coq Require Import ZifyBool ZifyNat.
Open Scope Z_scope.

Lemma nowhere_dext cqi d d' w :
  hpc (sd_suspend d') w = hpc (sd_suspend d) w -> hpc (sd_sys_suspend d') w = hpc (sd_sys_suspend d) w ->
  (In w (sd_syscall d') -> In w (sd_syscall d)) -> nowhere cqi d w -> nowhere cqi d' w.
Proof. unfold nowhere. intros -> -> H. tauto. Qed.

Lemma loc_ok_dext c cqi d d' w s :
  hpc (sd_suspend d') w = hpc (sd_suspend d) w ->
  (forall ts, In (ts, w) (sd_suspend d) -> In (ts, w) (sd_suspend d')) ->
  hpc (sd_sys_suspend d') w = hpc (sd_sys_suspend d) w ->
  (forall ts, In (ts, w) (sd_sys_suspend d) -> In (ts, w) (sd_sys_suspend d')) ->
  (In w (sd_syscall d') <-> In w (sd_syscall d)) ->
  loc_ok c cqi d w s -> loc_ok c cqi d' w s.
Proof.
  intros E1 H1 E2 H2 H3. destruct s as [| |y ts|y n st| |r|m]; cbn [loc_ok]; try (destruct st; cbn [loc_ok]);
    try rewrite E1; try rewrite E2; try rewrite H3; try tauto;
    try (apply nowhere_dext; [exact E1 | exact E2 | apply H3]).
  - intros (A & B & [C|(C1 & C2 & C3)]); (split; [exact A|]; split; [exact B|]); [left; exact C | right; auto].
  - intros (A & B & C & D & E). auto 10.
Qed.

Lemma JL_dgone c ws cqi d d' h :
  sd_suspend d' = sd_suspend d -> sd_syscall d' = sd_syscall d -> sd_sys_suspend d' = sd_sys_suspend d ->
  JL c ws cqi d h -> JL c ws cqi d' h.
Proof.
  intros E1 E2 E3 [Hloc Hhole Hcq Hsu Hsy Hmap]. constructor; rewrite ?E1, ?E2, ?E3; try assumption.
  - intros w k Hn Hh. apply (loc_ok_dext c cqi d); rewrite ?E1, ?E2, ?E3; auto; try tauto.
  - intros w Hh. destruct (Hhole w Hh) as [Hn Hlt]. split; [|exact Hlt].
    apply (nowhere_dext cqi d); rewrite ?E1, ?E2, ?E3; auto.
Qed.

Lemma is_hole_some_false v w : is_hole (Some v) w = false <-> v <> w.
Proof. cbn [is_hole]. apply Nat.eqb_neq. Qed.

(** the worker found in a container is what the container says *)
Lemma JL_in_susp c ws cqi d ts i :
  JL c ws cqi d None -> In (ts, i) (sd_suspend d) ->
  exists k y, nth_error ws i = Some k /\ k_st k = Suspend y ts /\
    cqc cqi i = 0%nat /\ hpc (sd_suspend d) i = 1%nat /\ hpc (sd_sys_suspend d) i = 0%nat /\ ~ In i (sd_syscall d).
Proof.
  intros HL Hin. pose proof (jl_susp _ _ _ _ _ HL _ _ Hin) as Hlt.
  destruct (nth_error ws i) as [k|] eqn:Hn; [|apply nth_error_None in Hn; lia].
  pose proof (jl_loc _ _ _ _ _ HL _ _ Hn eq_refl) as Hloc. pose proof (hpc_In _ _ _ Hin) as Hge.
  exists k. destruct (k_st k) as [| |y ts'|y n st| |r|m]; cbn [loc_ok] in Hloc; try (destruct st; cbn [loc_ok] in Hloc);
    unfold nowhere in Hloc; try (exfalso; lia); try contradiction.
  destruct Hloc as (A & B & [(C1 & C2 & C3)|(C1 & C2 & C3)]); [lia|].
  exists y. rewrite (hpc_one_unique _ _ _ _ C2 C3 Hin). auto 10.
Qed.

Lemma JL_in_sys c ws cqi d ts i :
  JL c ws cqi d None -> In (ts, i) (sd_sys_suspend d) ->
  exists k y n, nth_error ws i = Some k /\ k_st k = Syscall y n (SSuspend ts) /\
    cqc cqi i = 0%nat /\ hpc (sd_suspend d) i = 0%nat /\ hpc (sd_sys_suspend d) i = 1%nat /\ In i (sd_syscall d).
Proof.
  intros HL Hin. pose proof (jl_sys _ _ _ _ _ HL _ _ Hin) as Hlt.
  destruct (nth_error ws i) as [k|] eqn:Hn; [|apply nth_error_None in Hn; lia].
  pose proof (jl_loc _ _ _ _ _ HL _ _ Hn eq_refl) as Hloc. pose proof (hpc_In _ _ _ Hin) as Hge.
  exists k. destruct (k_st k) as [| |y ts'|y n st| |r|m]; cbn [loc_ok] in Hloc; try (destruct st; cbn [loc_ok] in Hloc);
    unfold nowhere in Hloc; try (exfalso; lia); try contradiction.
  destruct Hloc as (A & B & C & D & E). exists y, n. rewrite (hpc_one_unique _ _ _ _ C D Hin). auto 10.
Qed.

Lemma JL_in_cq c ws cqi d w :
  JL c ws cqi d None -> In (Z.of_nat w) cqi ->
  exists k, nth_error ws w = Some k /\
    (k_st k = Ready \/ (exists y ts, k_st k = Suspend y ts /\ ts <= c) \/ (exists y n, k_st k = Syscall y n STimeout)) /\
    cqc cqi w = 1%nat /\ hpc (sd_suspend d) w = 0%nat /\ hpc (sd_sys_suspend d) w = 0%nat /\ ~ In w (sd_syscall d).
Proof.
  intros HL Hin. destruct (jl_cq _ _ _ _ _ HL _ Hin) as (v & Ev & Hlt). apply Nat2Z.inj in Ev. subst v.
  destruct (nth_error ws w) as [k|] eqn:Hn; [|apply nth_error_None in Hn; lia].
  pose proof (jl_loc _ _ _ _ _ HL _ _ Hn eq_refl) as Hloc.
  assert (1 <= cqc cqi w)%nat as Hge by (apply In_cnt_pos, Hin).
  exists k. split; [reflexivity|].
  destruct (k_st k) as [| |y ts'|y n st| |r|m]; cbn [loc_ok] in Hloc; try (destruct st; cbn [loc_ok] in Hloc);
    unfold nowhere in Hloc; try (exfalso; lia); try contradiction.
  - split; [left; reflexivity | tauto].
  - destruct Hloc as (A & B & [(C1 & C2 & C3)|(C1 & C2 & C3)]); [|lia]. split; [right; left; eauto | tauto].
  - split; [right; right; eauto | tauto].
Qed.

(** nothing changes for the workers other than [i] *)
Definition loc_frame (i : nat) (cqi cqi' : list Z) (d d' : sdata) : Prop :=
  forall w, w <> i ->
    cqc cqi' w = cqc cqi w /\
    hpc (sd_suspend d') w = hpc (sd_suspend d) w /\
    (forall ts, In (ts, w) (sd_suspend d) -> In (ts, w) (sd_suspend d')) /\
    hpc (sd_sys_suspend d') w = hpc (sd_sys_suspend d) w /\
    (forall ts, In (ts, w) (sd_sys_suspend d) -> In (ts, w) (sd_sys_suspend d')) /\
    (In w (sd_syscall d') <-> In w (sd_syscall d)).

Lemma JL_reloc c ws cqi cqi' d d' h h' i :
  JL c ws cqi d h -> loc_frame i cqi cqi' d d' ->
  (h = None \/ h = Some i) -> (h' = None \/ h' = Some i) -> (i < length ws)%nat ->
  (h' = Some i -> nowhere cqi' d' i) ->
  (h' = None -> forall k, nth_error ws i = Some k -> loc_ok c cqi' d' i (k_st k)) ->
  (forall z, In z cqi' -> In z cqi \/ z = Z.of_nat i) ->
  (forall ts w, In (ts, w) (sd_suspend d') -> In (ts, w) (sd_suspend d) \/ w = i) ->
  (forall ts w, In (ts, w) (sd_sys_suspend d') -> In (ts, w) (sd_sys_suspend d) \/ w = i) ->
  NoDup (sd_syscall d') -> (forall w, In w (sd_syscall d') -> In w (sd_syscall d) \/ w = i) ->
  JL c ws cqi' d' h'.
Proof.
  intros [Hloc Hhole Hcq Hsu Hsy [Hnd Hmap]] Hfr Hh Hh' Hi Hnw Hlok Vcq Vsu Vsy Vnd Vmap.
  constructor.
  - intros w k Hn Hhw. destruct (Nat.eq_dec w i) as [->|Hne].
    + destruct Hh' as [->| ->]; [apply Hlok; auto|]. cbn [is_hole] in Hhw. rewrite Nat.eqb_refl in Hhw. discriminate.
    + destruct (Hfr w Hne) as (F1 & F2 & F3 & F4 & F5 & F6).
      apply (loc_ok_ext c c cqi); [exact F1 | lia|]. apply (loc_ok_dext c cqi d); auto.
      apply Hloc; [exact Hn|]. destruct Hh as [->| ->]; [reflexivity|]. apply is_hole_some_false. congruence.
  - intros w Ew. subst h'. destruct Hh' as [E|E]; [discriminate|]. injection E as ->. split; [apply Hnw; reflexivity | exact Hi].
  - intros z Hz. destruct (Vcq z Hz) as [H| ->]; [apply Hcq, H | eauto].
  - intros ts w Hin. destruct (Vsu ts w Hin) as [H| ->]; [eapply Hsu, H | exact Hi].
  - intros ts w Hin. destruct (Vsy ts w Hin) as [H| ->]; [eapply Hsy, H | exact Hi].
  - split; [exact Vnd|]. intros w Hin. destruct (Vmap w Hin) as [H| ->]; [apply Hmap, H | exact Hi].
Qed.

Lemma JT_hole ws tqi tb tk ct cc rt h h' :
  JT ws tqi tb tk ct cc rt h ->
  (forall w k, nth_error ws w = Some k -> live k = true -> is_hole h' w = false -> is_hole h w = true ->
     k_dead k = false /\ k_tpool k = 0%nat /\
     exists m, pmode (k_st k) = Some m /\
       match k_task k with Some (_, rest) => body_from m rest = true | None => m = MRun /\ (k_st k = Ready \/ k_st k = Suspend 0 0) end) ->
  JT ws tqi tb tk ct cc rt h'.
Proof.
  intros [Hlen Hq Hta Hhold Hinj Hmode Htb Hte Ht3 Htf Hrtnd Hrt Hrts Hrt3 Hcc Hc0 Hctb Hsuf Hfin Hccnd Hccb] Hnew.
  constructor; try assumption.
  intros w k Hn Hl Hh'. destruct (is_hole h w) eqn:E; [eapply Hnew; eassumption | eapply Hmode; eassumption].
Qed.

Section Hole.
Variable mx : Z.
Variable kp : Z.

Lemma J_reloc tnt x cq' d d' h h' t :
  J mx kp tnt x d h t -> Q1 cq' ->
  JL (pw_clock x) (pw_workers x) (all_items cq') d' h' ->
  JT (pw_workers x) (all_items (pw_tq x)) (pw_tbody x) (po_tasks t) (pw_cancel_tasks x) (pw_cancel_cos x) (pw_running_tasks x) h' ->
  J mx kp tnt (set_cq x cq') d' h' t.
Proof.
  intros [[HQt HQc] HL HP HS HT HR HW] HQ' HL' HT'. constructor; autorewrite with pw; try assumption.
  - constructor; assumption.
  - destruct HP as [P1 P2 P3 P4 P5 P6 P7 P8 P9 P10 P11 P12]. constructor; autorewrite with pw; assumption.
Qed.

Lemma set_cq_same x : set_cq x (pw_cq x) = x.
Proof. destruct x; reflexivity. Qed.

Lemma J_reloc_d tnt x d d' h h' t :
  J mx kp tnt x d h t ->
  JL (pw_clock x) (pw_workers x) (all_items (pw_cq x)) d' h' ->
  JT (pw_workers x) (all_items (pw_tq x)) (pw_tbody x) (po_tasks t) (pw_cancel_tasks x) (pw_cancel_cos x) (pw_running_tasks x) h' ->
  J mx kp tnt x d' h' t.
Proof.
  intros HJ HL' HT'. rewrite <- (set_cq_same x). apply (J_reloc tnt x (pw_cq x) d d' h h' t HJ); try assumption.
  apply (jq_c _ _ (j_q _ _ _ _ _ _ _ _ HJ)).
Qed.

(** facts about a parked worker, as [jt_mode] states them *)
Definition parked_facts (k : worker) : Prop :=
  k_dead k = false /\ k_tpool k = 0%nat /\
  exists m, pmode (k_st k) = Some m /\
    match k_task k with Some (_, rest) => body_from m rest = true | None => m = MRun /\ (k_st k = Ready \/ k_st k = Suspend 0 0) end.

Lemma JT_open ws tqi tb tk ct cc rt i : JT ws tqi tb tk ct cc rt None -> JT ws tqi tb tk ct cc rt (Some i).
Proof. intro HT. apply (JT_hole _ _ _ _ _ _ _ None); [exact HT|]. intros w k _ _ _ H. discriminate. Qed.

Lemma JT_close ws tqi tb tk ct cc rt i :
  JT ws tqi tb tk ct cc rt (Some i) -> (forall k, nth_error ws i = Some k -> live k = true -> parked_facts k) ->
  JT ws tqi tb tk ct cc rt None.
Proof.
  intros HT Hp. apply (JT_hole _ _ _ _ _ _ _ (Some i)); [exact HT|]. intros w k Hn Hl _ Hh.
  apply is_hole_some_eq in Hh. subst w. apply Hp; assumption.
Qed.

(** * leaving the suspend heap *)

Lemma J_open_susp tnt x d t ts i :
  J mx kp tnt x d None t -> In (ts, i) (sd_suspend d) ->
  exists k y, get_worker x i = Some k /\ k_st k = Suspend y ts /\ live k = true /\ parked_facts k /\
    J mx kp tnt x (d_rm_susp d (ts, i)) (Some i) t.
Proof.
  intros HJ Hin. pose proof (j_l _ _ _ _ _ _ _ _ HJ) as HL.
  destruct (JL_in_susp _ _ _ _ _ _ HL Hin) as (k & y & Hk & Est & C1 & C2 & C3 & C4).
  assert (live k = true) as Hl by (unfold live; rewrite Est; reflexivity).
  exists k, y. split; [exact Hk|]. split; [exact Est|]. split; [exact Hl|].
  split; [apply (jt_mode _ _ _ _ _ _ _ _ (j_t _ _ _ _ _ _ _ _ HJ) _ _ Hk Hl eq_refl)|].
  apply (J_reloc_d tnt x d _ None (Some i) t HJ); [|apply JT_open, (j_t _ _ _ _ _ _ _ _ HJ)].
  apply (JL_reloc _ _ _ _ d _ None (Some i) i HL); unfold d_rm_susp.
  - intros w Hne. cbn [sd_suspend sd_syscall sd_sys_suspend snd]. split; [reflexivity|]. split.
    + pose proof (hpc_heap_remove (sd_suspend d) ts i w Hin) as H. revert H. destruct (Nat.eq_dec i w); [congruence | lia].
    + split; [intros ts' H; apply heap_remove_In_other; [congruence | exact H]|]. tauto.
  - left. reflexivity.
  - right. reflexivity.
  - eapply nth_error_Some_lt, Hk.
  - intros _. unfold nowhere. cbn [sd_suspend sd_syscall sd_sys_suspend]. split; [exact C1|]. split; [|auto].
    pose proof (hpc_heap_remove (sd_suspend d) ts i i Hin) as H. revert H. destruct (Nat.eq_dec i i); [lia | congruence].
  - discriminate.
  - intros z H. left. exact H.
  - cbn [sd_suspend]. intros ts' w H. left. eapply heap_remove_In, H.
  - cbn [sd_sys_suspend]. intros ts' w H. left. exact H.
  - apply (jl_map _ _ _ _ _ HL).
  - cbn [sd_syscall]. intros w H. left. exact H.
Qed.

(** * leaving the syscall map *)

Lemma J_open_sys tnt x d t ts i :
  J mx kp tnt x d None t -> In (ts, i) (sd_sys_suspend d) ->
  exists k y n, get_worker x i = Some k /\ k_st k = Syscall y n (SSuspend ts) /\ live k = true /\ parked_facts k /\
    In i (sd_syscall d) /\ J mx kp tnt x (d_rm_sys d (ts, i)) (Some i) t.
Proof.
  intros HJ Hin. pose proof (j_l _ _ _ _ _ _ _ _ HJ) as HL.
  destruct (JL_in_sys _ _ _ _ _ _ HL Hin) as (k & y & n & Hk & Est & C1 & C2 & C3 & C4).
  assert (live k = true) as Hl by (unfold live; rewrite Est; reflexivity).
  destruct (jl_map _ _ _ _ _ HL) as [Hnd Hmap].
  exists k, y, n. split; [exact Hk|]. split; [exact Est|]. split; [exact Hl|].
  split; [apply (jt_mode _ _ _ _ _ _ _ _ (j_t _ _ _ _ _ _ _ _ HJ) _ _ Hk Hl eq_refl)|]. split; [exact C4|].
  apply (J_reloc_d tnt x d _ None (Some i) t HJ); [|apply JT_open, (j_t _ _ _ _ _ _ _ _ HJ)].
  apply (JL_reloc _ _ _ _ d _ None (Some i) i HL); unfold d_rm_sys.
  - intros w Hne. cbn [sd_suspend sd_syscall sd_sys_suspend snd]. split; [reflexivity|]. split; [reflexivity|]. split; [tauto|]. split.
    + pose proof (hpc_heap_remove (sd_sys_suspend d) ts i w Hin) as H. revert H. destruct (Nat.eq_dec i w); [congruence | lia].
    + split; [intros ts' H; apply heap_remove_In_other; [congruence | exact H]|].
      split; [apply remove_nat_In | apply remove_nat_In_other; congruence].
  - left. reflexivity.
  - right. reflexivity.
  - eapply nth_error_Some_lt, Hk.
  - intros _. unfold nowhere. cbn [sd_suspend sd_syscall sd_sys_suspend snd]. split; [exact C1|]. split; [exact C2|]. split.
    + pose proof (hpc_heap_remove (sd_sys_suspend d) ts i i Hin) as H. revert H. destruct (Nat.eq_dec i i); [lia | congruence].
    + apply remove_nat_NoDup_notin, Hnd.
  - discriminate.
  - intros z H. left. exact H.
  - cbn [sd_suspend]. intros ts' w H. left. exact H.
  - cbn [sd_sys_suspend]. intros ts' w H. left. eapply heap_remove_In, H.
  - cbn [sd_syscall snd]. apply remove_nat_NoDup, Hnd.
  - cbn [sd_syscall snd]. intros w H. left. eapply remove_nat_In, H.
Qed.

Lemma loc_frame_refl i cqi d : loc_frame i cqi cqi d d.
Proof. intros w _. tauto. Qed.

(** * leaving the ready queue *)
Lemma J_open_cq tnt x d t q' z :
  J mx kp tnt x d None t -> Q1 q' ->
  (forall y, cnt y (all_items (pw_cq x)) = (one y z + cnt y (all_items q'))%nat) ->
  exists w k, z = Z.of_nat w /\ get_worker x w = Some k /\ live k = true /\ parked_facts k /\
    (k_st k = Ready \/ (exists y ts, k_st k = Suspend y ts /\ ts <= pw_clock x) \/ (exists y n, k_st k = Syscall y n STimeout)) /\
    J mx kp tnt (set_cq x q') d (Some w) t.
Proof.
  intros HJ HQ' Hcnt. pose proof (j_l _ _ _ _ _ _ _ _ HJ) as HL.
  assert (In z (all_items (pw_cq x))) as Hz.
  { apply cnt_In. specialize (Hcnt z). rewrite one_same in Hcnt. lia. }
  destruct (jl_cq _ _ _ _ _ HL _ Hz) as (w & -> & Hlt).
  destruct (JL_in_cq _ _ _ _ _ HL Hz) as (k & Hk & Hres & C1 & C2 & C3 & C4).
  assert (live k = true) as Hl.
  { unfold live. destruct Hres as [->|[(y & ts & -> & _)|(y & n & ->)]]; reflexivity. }
  exists w, k. split; [reflexivity|]. split; [exact Hk|]. split; [exact Hl|].
  split; [apply (jt_mode _ _ _ _ _ _ _ _ (j_t _ _ _ _ _ _ _ _ HJ) _ _ Hk Hl eq_refl)|]. split; [exact Hres|].
  apply (J_reloc tnt x q' d d None (Some w) t HJ HQ'); [|apply JT_open, (j_t _ _ _ _ _ _ _ _ HJ)].
  apply (JL_reloc _ _ _ _ d d None (Some w) w HL).
  - intros v Hne. split; [|tauto]. unfold cqc. specialize (Hcnt (Z.of_nat v)). rewrite one_diff in Hcnt by lia. lia.
  - left. reflexivity.
  - right. reflexivity.
  - exact Hlt.
  - intros _. unfold nowhere. split; [|auto]. unfold cqc in *. specialize (Hcnt (Z.of_nat w)). rewrite one_same in Hcnt. lia.
  - discriminate.
  - intros y Hy. left. apply cnt_In. apply cnt_In in Hy. specialize (Hcnt y). lia.
  - intros ts v H. left. exact H.
  - intros ts v H. left. exact H.
  - apply (jl_map _ _ _ _ _ HL).
  - intros v H. left. exact H.
Qed.

(** * going back: to the ready queue *)
Lemma J_close_push tnt x d w t k :
  J mx kp tnt x d (Some w) t -> get_worker x w = Some k -> live k = true -> parked_facts k ->
  (k_st k = Ready \/ (exists y ts, k_st k = Suspend y ts /\ ts <= pw_clock x) \/ (exists y n, k_st k = Syscall y n STimeout)) ->
  J mx kp tnt (k_push 0 x w) d None t.
Proof.
  intros HJ Hk Hl Hp Hst. pose proof (j_l _ _ _ _ _ _ _ _ HJ) as HL. unfold k_push.
  destruct (Q1_lpush (pw_cq x) 0 (Z.of_nat w) (jq_c _ _ (j_q _ _ _ _ _ _ _ _ HJ))) as [HQ' Hcnt].
  destruct (jl_hole _ _ _ _ _ HL w eq_refl) as [(N1 & N2 & N3 & N4) Hlt].
  apply (J_reloc tnt x _ d d (Some w) None t HJ HQ').
  - apply (JL_reloc _ _ _ _ d d (Some w) None w HL).
    + intros v Hne. split; [|tauto]. unfold cqc. rewrite Hcnt, one_diff by lia. reflexivity.
    + right. reflexivity.
    + left. reflexivity.
    + exact Hlt.
    + discriminate.
    + intros _ k' Hk'. unfold get_worker in Hk. rewrite Hk in Hk'. injection Hk' as <-.
      assert (cqc (all_items (fst (lpush (pw_cq x) 0 0 (Z.of_nat w)))) w = 1%nat) as Hc.
      { unfold cqc in *. rewrite Hcnt, one_same. lia. }
      destruct Hst as [->|[(y & ts & -> & Hle)|(y & n & ->)]]; cbn [loc_ok]; auto 10.
    + intros y Hy. apply cnt_In in Hy. rewrite Hcnt in Hy. destruct (Z.eq_dec y (Z.of_nat w)) as [->|Hne]; [right; reflexivity|].
      left. apply cnt_In. rewrite one_diff in Hy by congruence. lia.
    + intros ts v H. left. exact H.
    + intros ts v H. left. exact H.
    + apply (jl_map _ _ _ _ _ HL).
    + intros v H. left. exact H.
  - apply (JT_close _ _ _ _ _ _ _ w (j_t _ _ _ _ _ _ _ _ HJ)). intros k' Hk' _. unfold get_worker in Hk. rewrite Hk in Hk'.
    injection Hk' as <-. exact Hp.
Qed.

(** * going back: to the suspend heap *)

Lemma J_close_susp tnt x d w t k y ts :
  J mx kp tnt x d (Some w) t -> get_worker x w = Some k -> k_st k = Suspend y ts -> parked_facts k ->
  J mx kp tnt x (d_add_susp d (ts, w)) None t.
Proof.
  intros HJ Hk Est Hp. pose proof (j_l _ _ _ _ _ _ _ _ HJ) as HL.
  destruct (jl_hole _ _ _ _ _ HL w eq_refl) as [(N1 & N2 & N3 & N4) Hlt].
  apply (J_reloc_d tnt x d _ (Some w) None t HJ).
  - apply (JL_reloc _ _ _ _ d _ (Some w) None w HL); unfold d_add_susp.
    + intros v Hne. cbn [sd_suspend sd_syscall sd_sys_suspend]. split; [reflexivity|]. split.
      * rewrite hpc_snoc. destruct (Nat.eq_dec w v); [congruence | lia].
      * split; [intros ts' H; apply in_app_iff; left; exact H | tauto].
    + right. reflexivity.
    + left. reflexivity.
    + exact Hlt.
    + discriminate.
    + intros _ k' Hk'. unfold get_worker in Hk. rewrite Hk in Hk'. injection Hk' as <-. rewrite Est.
      cbn [loc_ok sd_suspend sd_syscall sd_sys_suspend]. split; [exact N3|]. split; [exact N4|]. right.
      split; [exact N1|]. split; [rewrite hpc_snoc; destruct (Nat.eq_dec w w); [lia | congruence]|].
      apply in_app_iff. right. left. reflexivity.
    + intros z H. left. exact H.
    + cbn [sd_suspend]. intros ts' v H. apply in_app_iff in H as [H|[H|[]]]; [left; exact H | injection H as _ <-; right; reflexivity].
    + cbn [sd_sys_suspend]. intros ts' v H. left. exact H.
    + apply (jl_map _ _ _ _ _ HL).
    + cbn [sd_syscall]. intros v H. left. exact H.
  - apply (JT_close _ _ _ _ _ _ _ w (j_t _ _ _ _ _ _ _ _ HJ)). intros k' Hk' _. unfold get_worker in Hk. rewrite Hk in Hk'.
    injection Hk' as <-. exact Hp.
Qed.

(** * going back: to the syscall map and its heap *)

Lemma J_close_sys tnt x d w t k y n ts :
  J mx kp tnt x d (Some w) t -> get_worker x w = Some k -> k_st k = Syscall y n (SSuspend ts) -> parked_facts k ->
  J mx kp tnt x (d_add_sys d w ts) None t.
Proof.
  intros HJ Hk Est Hp. pose proof (j_l _ _ _ _ _ _ _ _ HJ) as HL.
  destruct (jl_hole _ _ _ _ _ HL w eq_refl) as [(N1 & N2 & N3 & N4) Hlt].
  destruct (jl_map _ _ _ _ _ HL) as [Hnd Hmap].
  assert (mem_nat w (sd_syscall d) = false) as Em by (apply mem_nat_false, N4).
  apply (J_reloc_d tnt x d _ (Some w) None t HJ).
  - apply (JL_reloc _ _ _ _ d _ (Some w) None w HL); unfold d_add_sys; rewrite ?Em.
    + intros v Hne. cbn [sd_suspend sd_syscall sd_sys_suspend]. split; [reflexivity|]. split; [reflexivity|]. split; [tauto|]. split.
      * rewrite hpc_snoc. destruct (Nat.eq_dec w v); [congruence | lia].
      * split; [intros ts' H; apply in_app_iff; left; exact H|]. cbn [In]. split; [intros [H|H]; [congruence | exact H] | tauto].
    + right. reflexivity.
    + left. reflexivity.
    + exact Hlt.
    + discriminate.
    + intros _ k' Hk'. unfold get_worker in Hk. rewrite Hk in Hk'. injection Hk' as <-. rewrite Est.
      cbn [loc_ok sd_suspend sd_syscall sd_sys_suspend]. split; [exact N1|]. split; [exact N2|].
      split; [rewrite hpc_snoc; destruct (Nat.eq_dec w w); [lia | congruence]|].
      split; [apply in_app_iff; right; left; reflexivity | left; reflexivity].
    + intros z H. left. exact H.
    + cbn [sd_suspend]. intros ts' v H. left. exact H.
    + cbn [sd_sys_suspend]. intros ts' v H. apply in_app_iff in H as [H|[H|[]]]; [left; exact H | injection H as _ <-; right; reflexivity].
    + cbn [sd_syscall]. constructor; assumption.
    + cbn [sd_syscall]. intros v [H|H]; [right; congruence | left; exact H].
  - apply (JT_close _ _ _ _ _ _ _ w (j_t _ _ _ _ _ _ _ _ HJ)). intros k' Hk' _. unfold get_worker in Hk. rewrite Hk in Hk'.
    injection Hk' as <-. exact Hp.
Qed.

(** * the worker ended: it goes nowhere *)
Lemma J_close_dead tnt x d d' w t k :
  J mx kp tnt x d (Some w) t -> get_worker x w = Some k -> live k = false ->
  sd_suspend d' = sd_suspend d -> sd_syscall d' = sd_syscall d -> sd_sys_suspend d' = sd_sys_suspend d ->
  J mx kp tnt x d' None t.
Proof.
  intros HJ Hk Hl E1 E2 E3. pose proof (j_l _ _ _ _ _ _ _ _ HJ) as HL.
  destruct (jl_hole _ _ _ _ _ HL w eq_refl) as [Hnw Hlt].
  apply (J_reloc_d tnt x d _ (Some w) None t HJ).
  - apply (JL_dgone _ _ _ d d' None E1 E2 E3).
    apply (JL_reloc _ _ _ _ d d (Some w) None w HL).
    + apply loc_frame_refl.
    + right. reflexivity.
    + left. reflexivity.
    + exact Hlt.
    + discriminate.
    + intros _ k' Hk'. unfold get_worker in Hk. rewrite Hk in Hk'. injection Hk' as <-.
      unfold live in Hl. destruct (k_st k); try discriminate; exact Hnw.
    + intros z H. left. exact H.
    + intros ts v H. left. exact H.
    + intros ts v H. left. exact H.
    + apply (jl_map _ _ _ _ _ HL).
    + intros v H. left. exact H.
  - apply (JT_close _ _ _ _ _ _ _ w (j_t _ _ _ _ _ _ _ _ HJ)). intros k' Hk' Hl'. unfold get_worker in Hk. rewrite Hk in Hk'.
    injection Hk' as <-. congruence.
Qed.

End Hole.
