(** The pool oracle's verdict does not depend on the worker-id canonicalisation of the observed
    history: [po_workers] is only ever read through counts of non-[Ready] states, and renaming the
    worker ids by first appearance is an injection that preserves those counts. *)
From OCV Require Import Base.Prelude Misc.Time Queue.PMap Queue.OWS Coroutine.Co Coroutine.CoOracle Sched.Sched Sched.Pool Sched.PoolOracle.
From Coq Require Import ZifyBool ZifyNat.
Open Scope Z_scope.

(* everything of the tracker except po_workers *)
Definition potr_sim (a b : potr) : Prop :=
  po_clock a = po_clock b /\ po_tasks a = po_tasks b /\ po_pools a = po_pools b /\
  po_c01 a = po_c01 b /\ po_c02 a = po_c02 b /\ po_c11 a = po_c11 b /\ po_c12 a = po_c12 b /\ po_c13 a = po_c13 b.

(** * The tracker with its worker list replaced *)
Definition withw (t : potr) (l : list cstate) : potr :=
  {| po_clock := po_clock t; po_tasks := po_tasks t; po_workers := l; po_pools := po_pools t;
     po_c01 := po_c01 t; po_c02 := po_c02 t; po_c11 := po_c11 t; po_c12 := po_c12 t; po_c13 := po_c13 t |}.

Lemma sim_withw : forall t l, potr_sim (withw t l) t.
Proof. intros t l. unfold potr_sim. cbn [withw po_clock po_tasks po_pools po_c01 po_c02 po_c11 po_c12 po_c13]. repeat split. Qed.

Lemma withw_self : forall t, withw t (po_workers t) = t.
Proof. intros t. destruct t. reflexivity. Qed.

Lemma flag_workers : forall t n b, po_workers (flag t n b) = po_workers t.
Proof. reflexivity. Qed.
Lemma sett_workers : forall t i k, po_workers (sett t i k) = po_workers t.
Proof. reflexivity. Qed.
Lemma setp_workers : forall t i k, po_workers (setp t i k) = po_workers t.
Proof. reflexivity. Qed.
Lemma unquiet_workers : forall t, po_workers (unquiet t) = po_workers t.
Proof. reflexivity. Qed.
Lemma flag_withw : forall t l n b, flag (withw t l) n b = withw (flag t n b) l.
Proof. reflexivity. Qed.
Lemma sett_withw : forall t l i k, sett (withw t l) i k = withw (sett t i k) l.
Proof. reflexivity. Qed.
Lemma setp_withw : forall t l i k, setp (withw t l) i k = withw (setp t i k) l.
Proof. reflexivity. Qed.
Lemma unquiet_withw : forall t l, unquiet (withw t l) = withw (unquiet t) l.
Proof. reflexivity. Qed.

(** * List lemmas on [set_nth_ext] with the default as padding *)
Lemma nth_nil_Ready : forall j, nth j (@nil cstate) Ready = Ready.
Proof. intros j. destruct j; reflexivity. Qed.

Lemma nth_set_same : forall i x l, nth i (set_nth_ext Ready i x l) Ready = x.
Proof.
  induction i as [|i IH]; intros x l; destruct l as [|a r]; cbn [set_nth_ext nth]; try reflexivity; apply IH.
Qed.

Lemma nth_set_other : forall i j x l, i <> j -> nth j (set_nth_ext Ready i x l) Ready = nth j l Ready.
Proof.
  induction i as [|i IH]; intros j x l Hij; destruct l as [|a r]; destruct j as [|j]; cbn [set_nth_ext nth];
    try reflexivity; try congruence.
  - apply nth_nil_Ready.
  - rewrite IH by congruence. apply nth_nil_Ready.
  - apply IH. congruence.
Qed.

Lemma length_set : forall (d : cstate) i x l, length (set_nth_ext d i x l) = Nat.max (length l) (S i).
Proof.
  intros d. induction i as [|i IH]; intros x l; destruct l as [|a r]; cbn [set_nth_ext length].
  - reflexivity.
  - lia.
  - rewrite IH. cbn [length]. lia.
  - rewrite IH. lia.
Qed.

Lemma count_cons : forall (f : cstate -> bool) a l,
  count_true f (a :: l) = (if f a then 1 else 0) + count_true f l.
Proof.
  intros f a l. unfold count_true. cbn [filter]. destruct (f a); cbn [length]; lia.
Qed.

Lemma count_nil : forall (f : cstate -> bool), count_true f [] = 0.
Proof. reflexivity. Qed.

Lemma count_set : forall (f : cstate -> bool) new, f Ready = false -> forall i l,
  count_true f (set_nth_ext Ready i new l) + (if f (nth i l Ready) then 1 else 0)
  = count_true f l + (if f new then 1 else 0).
Proof.
  intros f new HR. induction i as [|i IH]; intros l; destruct l as [|a r]; cbn [set_nth_ext nth];
    rewrite ?count_cons, ?count_nil, ?HR.
  - lia.
  - lia.
  - specialize (IH []). rewrite nth_nil_Ready, HR, count_nil in IH. lia.
  - specialize (IH r). lia.
Qed.

Lemma parked_Ready : forall c, parked c Ready = false.
Proof. reflexivity. Qed.

(** * The canon map *)
Lemma lookup_app : forall k a b m,
  lookup_nat k (m ++ [(a, b)]) =
  match lookup_nat k m with Some v => Some v | None => if Nat.eqb k a then Some b else None end.
Proof.
  intros k a b. induction m as [|[x y] m IH]; cbn [lookup_nat app].
  - reflexivity.
  - destruct (Nat.eqb k x); [reflexivity | apply IH].
Qed.

Lemma see_lookup : forall m w, exists v, lookup_nat w (see m w) = Some v.
Proof.
  intros m w. unfold see. destruct (lookup_nat w m) as [v|] eqn:E.
  - exists v. exact E.
  - exists (length m). rewrite lookup_app, E, Nat.eqb_refl. reflexivity.
Qed.

(** the invariant between the canon map, the raw worker list and the canonical one *)
Definition WI (m : list (nat * nat)) (lr lc : list cstate) : Prop :=
  (forall w c, lookup_nat w m = Some c -> (c < length m)%nat) /\
  (forall w w' c, lookup_nat w m = Some c -> lookup_nat w' m = Some c -> w = w') /\
  (length lc <= length m)%nat /\
  (forall w c, lookup_nat w m = Some c -> nth w lr Ready = nth c lc Ready) /\
  (forall w, lookup_nat w m = None -> nth w lr Ready = Ready) /\
  (forall f : cstate -> bool, f Ready = false -> count_true f lr = count_true f lc).

Lemma WI_nil : WI [] [] [].
Proof.
  unfold WI. repeat split; cbn [lookup_nat length]; intros; try discriminate; try lia; try reflexivity.
  apply nth_nil_Ready.
Qed.

Lemma WI_see : forall m lr lc w, WI m lr lc -> WI (see m w) lr lc.
Proof.
  intros m lr lc w HW. unfold see. destruct (lookup_nat w m) as [v|] eqn:E; [exact HW|].
  destruct HW as (Hrng & Hinj & Hlen & Hsome & Hnone & Hcnt).
  unfold WI. rewrite app_length. cbn [length].
  split; [|split; [|split; [|split; [|split]]]].
  - intros w1 c H1. rewrite lookup_app in H1. destruct (lookup_nat w1 m) as [v1|] eqn:E1.
    + injection H1 as <-. apply Hrng in E1. lia.
    + destruct (Nat.eqb w1 w); [|discriminate]. injection H1 as <-. lia.
  - intros w1 w2 c H1 H2. rewrite lookup_app in H1, H2.
    destruct (lookup_nat w1 m) as [v1|] eqn:E1; destruct (lookup_nat w2 m) as [v2|] eqn:E2.
    + injection H1 as <-. injection H2 as <-. eapply Hinj; eassumption.
    + injection H1 as <-. destruct (Nat.eqb w2 w); [|discriminate]. injection H2 as H2. apply Hrng in E1. lia.
    + injection H2 as <-. destruct (Nat.eqb w1 w); [|discriminate]. injection H1 as H1. apply Hrng in E2. lia.
    + destruct (Nat.eqb_spec w1 w) as [->|]; [|discriminate].
      destruct (Nat.eqb_spec w2 w) as [->|]; [|discriminate]. reflexivity.
  - lia.
  - intros w1 c H1. rewrite lookup_app in H1. destruct (lookup_nat w1 m) as [v1|] eqn:E1.
    + injection H1 as <-. apply Hsome. exact E1.
    + destruct (Nat.eqb_spec w1 w) as [->|]; [|discriminate]. injection H1 as <-.
      rewrite (Hnone w E). rewrite nth_overflow by lia. reflexivity.
  - intros w1 H1. rewrite lookup_app in H1. destruct (lookup_nat w1 m) as [v1|] eqn:E1; [discriminate|].
    apply Hnone. exact E1.
  - exact Hcnt.
Qed.

Lemma WI_set : forall m lr lc w c new, WI m lr lc -> lookup_nat w m = Some c ->
  WI m (set_nth_ext Ready w new lr) (set_nth_ext Ready c new lc).
Proof.
  intros m lr lc w c new HW Hw.
  destruct HW as (Hrng & Hinj & Hlen & Hsome & Hnone & Hcnt).
  unfold WI. split; [exact Hrng|]. split; [exact Hinj|].
  split; [|split; [|split]].
  - rewrite length_set. apply Hrng in Hw. lia.
  - intros w1 c1 H1. destruct (Nat.eq_dec w w1) as [<-|Hne].
    + rewrite Hw in H1. injection H1 as <-. rewrite !nth_set_same. reflexivity.
    + assert (Hc : c <> c1).
      { intros <-. apply Hne. eapply Hinj; eassumption. }
      rewrite !nth_set_other by assumption. apply Hsome. exact H1.
  - intros w1 H1. assert (Hne : w <> w1) by (intros <-; congruence).
    rewrite nth_set_other by assumption. apply Hnone. exact H1.
  - intros f HR. pose proof (count_set f new HR w lr) as Cr. pose proof (count_set f new HR c lc) as Cc.
    rewrite (Hsome w c Hw) in Cr. rewrite (Hcnt f HR) in Cr. lia.
Qed.

(** * One event *)
Definition pevw (l : list cstate) (e : ev) : list cstate :=
  match e with EL _ w (CbChanged new) _ => set_nth_ext Ready w new l | _ => l end.

Lemma pev_workers : forall t e, po_workers (pev t e) = pevw (po_workers t) e.
Proof. intros t e. destruct e as [l w c old | i b]; [destruct c | destruct b]; reflexivity. Qed.

Lemma pev_canon : forall m e t lc,
  pev (withw t lc) (snd (canon_ev m e)) = withw (pev t e) (pevw lc (snd (canon_ev m e))).
Proof. intros m e t lc. destruct e as [l w c old | i b]; [destruct c | destruct b]; reflexivity. Qed.

Lemma WI_canon_ev_ext : forall m e lr lc, WI m lr lc -> WI (fst (canon_ev m e)) lr lc.
Proof.
  intros m e lr lc HW. destruct e as [l w c old | i b]; [|destruct b]; cbn [canon_ev fst]; try exact HW;
    apply WI_see; exact HW.
Qed.

Lemma WI_pevw : forall m e lr lc, WI m lr lc ->
  WI (fst (canon_ev m e)) (pevw lr e) (pevw lc (snd (canon_ev m e))).
Proof.
  intros m e lr lc HW. destruct e as [l w c old | i b].
  - cbn [canon_ev fst snd]. destruct (see_lookup m w) as [v Hv]. rewrite Hv.
    pose proof (WI_see m lr lc w HW) as HW'.
    destruct c; cbn [pevw]; try exact HW'. apply WI_set; assumption.
  - destruct b; cbn [canon_ev fst snd pevw]; try exact HW. apply WI_see. exact HW.
Qed.

(** * Event lists *)
Lemma canon_evs_cons : forall m e r,
  canon_evs m (e :: r) =
  (fst (canon_evs (fst (canon_ev m e)) r), snd (canon_ev m e) :: snd (canon_evs (fst (canon_ev m e)) r)).
Proof.
  intros m e r. cbn [canon_evs]. destruct (canon_ev m e) as [m1 e1]. cbn [fst snd].
  destruct (canon_evs m1 r) as [m2 r2]. reflexivity.
Qed.

Lemma WI_canon_evs_ext : forall evs m lr lc, WI m lr lc -> WI (fst (canon_evs m evs)) lr lc.
Proof.
  induction evs as [|e r IH]; intros m lr lc HW.
  - exact HW.
  - rewrite canon_evs_cons. cbn [fst]. apply IH. apply WI_canon_ev_ext. exact HW.
Qed.

Lemma fold_canon : forall evs m t lc, WI m (po_workers t) lc ->
  exists lc', fold_left pev (snd (canon_evs m evs)) (withw t lc) = withw (fold_left pev evs t) lc' /\
              WI (fst (canon_evs m evs)) (po_workers (fold_left pev evs t)) lc'.
Proof.
  induction evs as [|e r IH]; intros m t lc HW.
  - exists lc. split; [reflexivity | exact HW].
  - rewrite canon_evs_cons. cbn [fst snd fold_left]. rewrite pev_canon. apply IH.
    rewrite pev_workers. apply WI_pevw. exact HW.
Qed.

(** * One step of the oracle *)
Lemma clock_withw : forall t l, po_clock (withw t l) = po_clock t.
Proof. reflexivity. Qed.
Lemma tasks_withw : forall t l, po_tasks (withw t l) = po_tasks t.
Proof. reflexivity. Qed.
Lemma pools_withw : forall t l, po_pools (withw t l) = po_pools t.
Proof. reflexivity. Qed.
Lemma workers_withw : forall t l, po_workers (withw t l) = l.
Proof. reflexivity. Qed.
Lemma gett_withw : forall t l i, gett (withw t l) i = gett t i.
Proof. reflexivity. Qed.
Lemma getp_withw : forall t l i, getp (withw t l) i = getp t i.
Proof. reflexivity. Qed.

Lemma WI_cnt : forall m lr lc, WI m lr lc ->
  forall f : cstate -> bool, f Ready = false -> count_true f lr = count_true f lc.
Proof. intros m lr lc HW. apply HW. Qed.

Ltac split_ifs :=
  repeat match goal with |- context [if ?c then _ else _] => destruct c end.

Ltac push_withw :=
  rewrite ?unquiet_withw, ?gett_withw, ?getp_withw, ?tasks_withw, ?pools_withw, ?clock_withw, ?workers_withw,
          ?setp_withw, ?sett_withw, ?flag_withw.

(** observations without events *)
Definition no_evs (ob : pobs) : bool :=
  match ob with OPass _ _ | OStop _ _ => false | _ => true end.

Lemma expect_result_withw : forall t lc p i npools r tf,
  expect_result (withw t lc) p i npools r tf = withw (expect_result t p i npools r tf) lc.
Proof.
  intros t lc p i npools r tf. unfold expect_result. cbv zeta. push_withw.
  destruct r; split_ifs; reflexivity.
Qed.
Lemma expect_result_workers : forall t p i npools r tf,
  po_workers (expect_result t p i npools r tf) = po_workers t.
Proof. intros t p i npools r tf. unfold expect_result. cbv zeta. destruct r; split_ifs; reflexivity. Qed.

Lemma postep_noev_withw : forall npools maxes t lc o ob, no_evs ob = true ->
  postep npools maxes (withw t lc) o ob = withw (postep npools maxes t o ob) lc.
Proof.
  intros npools maxes t lc o ob Hne.
  destruct o; destruct ob; try discriminate Hne; try reflexivity; cbn [postep]; cbv zeta;
    try apply expect_result_withw; push_withw; split_ifs; reflexivity.
Qed.

Lemma postep_noev_workers : forall npools maxes t o ob, no_evs ob = true ->
  po_workers (postep npools maxes t o ob) = po_workers t.
Proof.
  intros npools maxes t o ob Hne.
  destruct o; destruct ob; try discriminate Hne; try reflexivity; cbn [postep]; cbv zeta;
    try apply expect_result_workers; split_ifs; reflexivity.
Qed.

(** the part of a pass or stop step after its events were folded: it reads the worker list only
    through counts of [parked] states *)
Ltac tail_withw t1 Hcnt :=
  push_withw;
  try rewrite <- (Hcnt (parked (po_clock t1)) (parked_Ready _));
  reflexivity.

Lemma postep_opass : forall npools maxes m t lc o r evs, WI m (po_workers t) lc ->
  exists lc',
    postep npools maxes (withw t lc) o (OPass r (snd (canon_evs m evs)))
    = withw (postep npools maxes t o (OPass r evs)) lc' /\
    WI (fst (canon_evs m evs)) (po_workers (postep npools maxes t o (OPass r evs))) lc'.
Proof.
  intros npools maxes m t lc o r evs HW.
  destruct o;
    try (exists lc; split; [reflexivity | apply WI_canon_evs_ext; exact HW]).
  cbn [postep]. cbv zeta. rewrite unquiet_withw.
  destruct (fold_canon evs m (unquiet t) lc HW) as (lc' & Hf & HW').
  exists lc'. rewrite Hf. clear Hf.
  pose proof (WI_cnt _ _ _ HW') as Hcnt.
  set (t1 := fold_left pev evs (unquiet t)) in *. clearbody t1.
  split.
  - destruct r; split_ifs; tail_withw t1 Hcnt.
  - match goal with |- WI _ (po_workers ?X) _ => assert (Hw : po_workers X = po_workers t1) end.
    { destruct r; split_ifs; reflexivity. }
    rewrite Hw. exact HW'.
Qed.

Lemma postep_ostop : forall npools maxes m t lc o r evs, WI m (po_workers t) lc ->
  exists lc',
    postep npools maxes (withw t lc) o (OStop r (snd (canon_evs m evs)))
    = withw (postep npools maxes t o (OStop r evs)) lc' /\
    WI (fst (canon_evs m evs)) (po_workers (postep npools maxes t o (OStop r evs))) lc'.
Proof.
  intros npools maxes m t lc o r evs HW.
  destruct o;
    try (exists lc; split; [reflexivity | apply WI_canon_evs_ext; exact HW]).
  cbn [postep]. cbv zeta. rewrite ?unquiet_withw, ?getp_withw, ?setp_withw.
  match goal with
  | |- context [fold_left pev (snd (canon_evs m evs)) (withw ?X lc)] =>
      assert (HWX : WI m (po_workers X) lc) by exact HW;
      destruct (fold_canon evs m X lc HWX) as (lc' & Hf & HW');
      exists lc'; rewrite Hf; clear Hf;
      pose proof (WI_cnt _ _ _ HW') as Hcnt;
      set (t1 := fold_left pev evs X) in *; clearbody t1
  end.
  split.
  - destruct r; split_ifs; tail_withw t1 Hcnt.
  - match goal with |- WI _ (po_workers ?X) _ => assert (Hw : po_workers X = po_workers t1) end.
    { destruct r; split_ifs; reflexivity. }
    rewrite Hw. exact HW'.
Qed.

(** * The run *)
Lemma porun_canon_gen : forall npools maxes obs ops m t lc, WI m (po_workers t) lc ->
  exists lc',
    porun npools maxes (withw t lc) ops (cut_div (canon_obs m obs)) =
    (withw (fst (porun npools maxes t ops (cut_div obs))) lc', snd (porun npools maxes t ops (cut_div obs))).
Proof.
  intros npools maxes. induction obs as [|ob obs IH]; intros ops m t lc HW.
  - cbn [canon_obs cut_div]. exists lc. destruct ops; reflexivity.
  - destruct ob as [ok | r evs | r | r evs | n | s | ].
    + cbn [canon_obs cut_div]. destruct ops as [|o ops]; [exists lc; reflexivity|]. cbn [porun].
      rewrite postep_noev_withw by reflexivity. apply IH. rewrite postep_noev_workers by reflexivity. exact HW.
    + cbn [canon_obs]. destruct (canon_evs m evs) as [m1 e1] eqn:E.
      destruct ops as [|o ops]; [exists lc; destruct r; reflexivity|].
      destruct (postep_opass npools maxes m t lc o r evs HW) as (lc' & Hp & HW').
      rewrite E in Hp, HW'. cbn [fst snd] in Hp, HW'.
      destruct r; cbn [cut_div porun]; rewrite Hp;
        try (apply IH; exact HW').
      exists lc'. reflexivity.
    + cbn [canon_obs cut_div]. destruct ops as [|o ops]; [exists lc; reflexivity|]. cbn [porun].
      rewrite postep_noev_withw by reflexivity. apply IH. rewrite postep_noev_workers by reflexivity. exact HW.
    + cbn [canon_obs]. destruct (canon_evs m evs) as [m1 e1] eqn:E.
      destruct ops as [|o ops]; [exists lc; destruct r; reflexivity|].
      destruct (postep_ostop npools maxes m t lc o r evs HW) as (lc' & Hp & HW').
      rewrite E in Hp, HW'. cbn [fst snd] in Hp, HW'.
      destruct r; cbn [cut_div porun]; rewrite Hp;
        try (apply IH; exact HW').
      exists lc'. reflexivity.
    + cbn [canon_obs cut_div]. destruct ops as [|o ops]; [exists lc; reflexivity|]. cbn [porun].
      rewrite postep_noev_withw by reflexivity. apply IH. rewrite postep_noev_workers by reflexivity. exact HW.
    + cbn [canon_obs cut_div]. destruct ops as [|o ops]; [exists lc; reflexivity|]. cbn [porun].
      rewrite postep_noev_withw by reflexivity. apply IH. rewrite postep_noev_workers by reflexivity. exact HW.
    + cbn [canon_obs cut_div]. destruct ops as [|o ops]; [exists lc; reflexivity|]. cbn [porun].
      rewrite postep_noev_withw by reflexivity. apply IH. rewrite postep_noev_workers by reflexivity. exact HW.
Qed.

Theorem porun_canon : forall npools maxes ops obs t,
  po_workers t = [] ->
  potr_sim (fst (porun npools maxes t ops (cut_div (canon_obs [] obs))))
           (fst (porun npools maxes t ops (cut_div obs))) /\
  snd (porun npools maxes t ops (cut_div (canon_obs [] obs))) = snd (porun npools maxes t ops (cut_div obs)).
Proof.
  intros npools maxes ops obs t Hw.
  assert (HW : WI [] (po_workers t) []) by (rewrite Hw; exact WI_nil).
  destruct (porun_canon_gen npools maxes obs ops [] t [] HW) as (lc' & Hp).
  rewrite <- Hw in Hp at 1. rewrite withw_self in Hp. rewrite Hp. cbn [fst snd].
  split; [apply sim_withw | reflexivity].
Qed.

Corollary judge_pool_canon : forall clock cfgs ops obs,
  potr_sim (fst (judge_pool clock cfgs ops (cut_div (canon_obs [] obs))))
           (fst (judge_pool clock cfgs ops (cut_div obs))) /\
  snd (judge_pool clock cfgs ops (cut_div (canon_obs [] obs))) = snd (judge_pool clock cfgs ops (cut_div obs)).
Proof.
  intros clock cfgs ops obs. unfold judge_pool. apply porun_canon. reflexivity.
Qed.

Print Assumptions porun_canon.
Print Assumptions judge_pool_canon.
