(** Measures for the termination of the worker loop and of the scheduling pass. *)
From OCV Require Import Base.Prelude Misc.Time Queue.PMap Queue.OWS Queue.OWSOracle Queue.OWSLemmas Queue.OWSModel.
From OCV Require Import Coroutine.Co Coroutine.CoLemmas Sched.Sched Sched.Pool Sched.PoolBase Sched.PoolWf Sched.PoolQ Sched.PoolJ Sched.PoolJLemmas.
From Coq Require Import ZifyBool ZifyNat Permutation.
Open Scope Z_scope.

(** what is left of the task a worker holds (plus one for finishing it) *)
Definition tasklen (k : worker) : nat := match k_task k with Some (_, rest) => S (length rest) | None => O end.
Definition wwork (k : worker) : nat := if live k then tasklen k else O.
Definition wsum (ws : list worker) : nat := fold_right (fun k a => (wwork k + a)%nat) O ws.

(** the work queued: the whole body of every queued task, plus two (pop, finish) *)
Definition blen (tb : list (list instr)) (i : nat) : nat := length (nth i tb []).
Definition qsum (tb : list (list instr)) (l : list Z) : nat := fold_right (fun z a => (blen tb (Z.to_nat z) + 2 + a)%nat) O l.

Definition rho (x : pw) : Z :=
  3 * Z.of_nat (qsum (pw_tbody x) (all_items (pw_tq x)) + wsum (pw_workers x)) + nlive (pw_workers x).

(** fuel the worker loop needs from where worker [w] is *)
Definition mu (x : pw) (k : worker) : nat := (tasklen k + qsum (pw_tbody x) (all_items (pw_tq x)) + 1)%nat.

(** the potential of a pass *)
Definition psi (x : pw) (d : sdata) : Z :=
  rho x + 2 * Z.of_nat (length (sd_sys_suspend d)) + 2 * Z.of_nat (length (pw_cancel_cos x)).

Lemma wsum_app ws ws' : wsum (ws ++ ws') = (wsum ws + wsum ws')%nat.
Proof. induction ws as [|k ws IH]; [reflexivity|]. cbn [app wsum fold_right] in *. fold (wsum (ws ++ ws')). fold (wsum ws). rewrite IH. lia. Qed.

Lemma wsum_cons k ws : wsum (k :: ws) = (wwork k + wsum ws)%nat.
Proof. reflexivity. Qed.

Lemma wsum_set_nth ws w k k' : nth_error ws w = Some k -> (wsum (set_nth w k' ws) + wwork k = wsum ws + wwork k')%nat.
Proof.
  revert w. induction ws as [|a ws IH]; intros [|w]; cbn [nth_error]; try discriminate.
  - intro H. injection H as ->. rewrite set_nth_cons_0, !wsum_cons. lia.
  - intro H. rewrite set_nth_cons_S, !wsum_cons. specialize (IH _ H). lia.
Qed.

Lemma qsum_cons tb z l : qsum tb (z :: l) = (blen tb (Z.to_nat z) + 2 + qsum tb l)%nat.
Proof. reflexivity. Qed.

Lemma qsum_perm tb l l' : Permutation l l' -> qsum tb l = qsum tb l'.
Proof.
  induction 1 as [|z l l' H IH|y z l|l1 l2 l3 H1 IH1 H2 IH2]; rewrite ?qsum_cons; try lia; congruence.
Qed.

Lemma qsum_pop tb l l' z : (forall y, cnt y l = (one y z + cnt y l')%nat) -> qsum tb l = (blen tb (Z.to_nat z) + 2 + qsum tb l')%nat.
Proof.
  intro H. rewrite <- qsum_cons. apply qsum_perm. apply cnt_perm. intro y. rewrite cnt_cons. apply H.
Qed.

Lemma qsum_nil tb : qsum tb [] = O.
Proof. reflexivity. Qed.

Definition b2z (b : bool) : Z := if b then 1 else 0.

Lemma nlive_set_nth_b ws w k k' : nth_error ws w = Some k -> nlive (set_nth w k' ws) = nlive ws - b2z (live k) + b2z (live k').
Proof. intro H. rewrite (nlive_set_nth _ _ _ _ H). unfold b2z. reflexivity. Qed.

(** a worker record is replaced *)
Lemma rho_upd_worker x w k k' : get_worker x w = Some k ->
  rho (upd_worker x w k') + 3 * Z.of_nat (wwork k) + b2z (live k) = rho x + 3 * Z.of_nat (wwork k') + b2z (live k').
Proof.
  intro Hk. unfold get_worker in Hk. unfold rho. autorewrite with pw.
  pose proof (wsum_set_nth _ _ _ k' Hk) as H1. rewrite (nlive_set_nth_b _ _ _ k' Hk). lia.
Qed.

(** the same state, the same task: nothing changes *)
Lemma rho_upd_worker_same x w k k' : get_worker x w = Some k -> live k' = live k -> tasklen k' = tasklen k ->
  rho (upd_worker x w k') = rho x.
Proof.
  intros Hk El Et. pose proof (rho_upd_worker x w k k' Hk) as H. unfold wwork in H. rewrite El, Et in H. lia.
Qed.

Lemma wwork_idle k : k_task k = None -> wwork k = O.
Proof. intro H. unfold wwork, tasklen. rewrite H. destruct (live k); reflexivity. Qed.

Lemma wwork_live k : live k = true -> wwork k = tasklen k.
Proof. unfold wwork. intros ->. reflexivity. Qed.

(** * keep-alive: how many 1 ms naps until a worker's keep-alive has expired *)
Definition rem (keep clock : Z) (k : worker) : Z :=
  let dd := k_create k + keep - clock in if dd <=? 0 then 0 else dd / 1000000 + 1.
Definition lrem (keep clock : Z) (k : worker) : Z := if live k then rem keep clock k else 0.
Definition phimax (keep clock : Z) (ws : list worker) : Z := fold_right (fun k a => Z.max (lrem keep clock k) a) 0 ws.
Definition phix (keep : Z) (x : pw) : Z := phimax keep (pw_clock x) (pw_workers x).
(** [Z.of_nat (keep_rounds x)] *)
Definition kcap (keep : Z) : Z := if keep <=? 0 then 0 else keep / 1000000 + 2.
(** how many more idle yields before the next nap *)
Definition pfc (m pf : Z) : Z := Z.max 0 (m - pf).
Definition pfx (m : Z) (x : pw) : Z := pfc m (p_popfail (get_pool x 0)).

Definition mu2 (keep : Z) (x : pw) (k : worker) : nat := (mu x k + Z.to_nat (rem keep (pw_clock x) k))%nat.

Lemma rem_nonneg keep clock k : 0 <= rem keep clock k.
Proof.
  unfold rem. cbv zeta. destruct (_ <=? 0) eqn:E; [lia|].
  pose proof (Z.div_pos (k_create k + keep - clock) 1000000 ltac:(lia) ltac:(lia)). lia.
Qed.

Lemma rem_bound keep clock k : k_create k <= clock -> rem keep clock k <= kcap keep.
Proof.
  intro H. unfold rem, kcap. cbv zeta. destruct (k_create k + keep - clock <=? 0) eqn:E.
  - destruct (keep <=? 0) eqn:Ek; [lia|]. pose proof (Z.div_pos keep 1000000 ltac:(lia) ltac:(lia)). lia.
  - assert (keep <=? 0 = false) as -> by lia.
    pose proof (Z.div_le_mono (k_create k + keep - clock) keep 1000000 ltac:(lia) ltac:(lia)). lia.
Qed.

Lemma rem_mono keep c c' k : c <= c' -> rem keep c' k <= rem keep c k.
Proof.
  intro H. unfold rem. cbv zeta. destruct (k_create k + keep - c' <=? 0) eqn:E'; destruct (k_create k + keep - c <=? 0) eqn:E; try lia.
  all: pose proof (Z.div_le_mono (k_create k + keep - c') (k_create k + keep - c) 1000000 ltac:(lia) ltac:(lia)); lia.
Qed.

(** a nap takes one round off, if there was one *)
Lemma rem_nap keep c k : rem keep (c + 1000000) k <= Z.max 0 (rem keep c k - 1).
Proof.
  unfold rem. cbv zeta. destruct (k_create k + keep - (c + 1000000) <=? 0) eqn:E'; [lia|].
  assert (k_create k + keep - c <=? 0 = false) as -> by lia.
  replace (k_create k + keep - (c + 1000000)) with ((k_create k + keep - c) + (-1) * 1000000) by lia.
  rewrite Z.div_add by lia. lia.
Qed.

Lemma rem_pos keep c k : 0 < k_create k + keep - c -> 1 <= rem keep c k.
Proof.
  intro H. unfold rem. cbv zeta. assert (k_create k + keep - c <=? 0 = false) as -> by lia.
  pose proof (Z.div_pos (k_create k + keep - c) 1000000 ltac:(lia) ltac:(lia)). lia.
Qed.

Lemma kcap_nonneg keep : 0 <= kcap keep.
Proof. unfold kcap. destruct (keep <=? 0) eqn:E; [lia|]. pose proof (Z.div_pos keep 1000000 ltac:(lia) ltac:(lia)). lia. Qed.

Lemma lrem_nonneg keep c k : 0 <= lrem keep c k.
Proof. unfold lrem. destruct (live k); [apply rem_nonneg | lia]. Qed.

Lemma phimax_cons keep c k ws : phimax keep c (k :: ws) = Z.max (lrem keep c k) (phimax keep c ws).
Proof. reflexivity. Qed.

Lemma phimax_nonneg keep c ws : 0 <= phimax keep c ws.
Proof. induction ws as [|k ws IH]; [cbn; lia|]. rewrite phimax_cons. lia. Qed.

Lemma phimax_ge keep c ws w k : nth_error ws w = Some k -> lrem keep c k <= phimax keep c ws.
Proof.
  revert w. induction ws as [|a ws IH]; intros [|w]; cbn [nth_error]; try discriminate; rewrite phimax_cons.
  - intro H. injection H as ->. lia.
  - intro H. specialize (IH _ H). lia.
Qed.

Lemma phimax_le keep c ws b : 0 <= b -> (forall w k, nth_error ws w = Some k -> lrem keep c k <= b) -> phimax keep c ws <= b.
Proof.
  intros Hb. induction ws as [|a ws IH]; intro H; [cbn; lia|]. rewrite phimax_cons.
  pose proof (H O a eq_refl). specialize (IH (fun w k Hk => H (S w) k Hk)). lia.
Qed.

Lemma phimax_bound keep c ws : (forall w k, nth_error ws w = Some k -> k_create k <= c) -> phimax keep c ws <= kcap keep.
Proof.
  intro H. apply phimax_le; [apply kcap_nonneg|]. intros w k Hk. unfold lrem. destruct (live k); [|apply kcap_nonneg].
  apply rem_bound. eapply H, Hk.
Qed.

Lemma phimax_mono keep c c' ws : c <= c' -> phimax keep c' ws <= phimax keep c ws.
Proof.
  intro H. induction ws as [|a ws IH]; [cbn; lia|]. rewrite !phimax_cons.
  assert (lrem keep c' a <= lrem keep c a) by (unfold lrem; destruct (live a); [apply rem_mono, H | lia]). lia.
Qed.

Lemma phimax_nap keep c ws : phimax keep (c + 1000000) ws <= Z.max 0 (phimax keep c ws - 1).
Proof.
  induction ws as [|a ws IH]; [cbn; lia|]. rewrite !phimax_cons.
  assert (lrem keep (c + 1000000) a <= Z.max 0 (lrem keep c a - 1)).
  { unfold lrem. destruct (live a); [apply rem_nap | lia]. }
  lia.
Qed.

(** a worker record is replaced by one created at the same time, as alive as before *)
Lemma phimax_set_nth keep c ws w k k' :
  nth_error ws w = Some k -> live k' = live k -> k_create k' = k_create k -> phimax keep c (set_nth w k' ws) = phimax keep c ws.
Proof.
  intros Hk El Ec. revert w Hk. induction ws as [|a ws IH]; intros [|w]; cbn [nth_error]; try discriminate.
  - intro H. injection H as ->. rewrite set_nth_cons_0, !phimax_cons. unfold lrem, rem. rewrite El, Ec. reflexivity.
  - intro H. rewrite set_nth_cons_S, !phimax_cons. rewrite (IH _ H). reflexivity.
Qed.

Lemma pfc_nonneg m pf : 0 <= pfc m pf.
Proof. unfold pfc. lia. Qed.

(** no nap of a keep-alive period is cut short by the end of time ([u64::MAX]); vacuous without keep-alive *)
Definition low (keep : Z) (x : pw) : Prop := keep <= 0 \/ pw_clock x < U64MAX.

Lemma low_dec keep x : {low keep x} + {~ low keep x}.
Proof.
  unfold low. destruct (Z_le_gt_dec keep 0) as [H|H]; [left; left; exact H|].
  destruct (Z_lt_le_dec (pw_clock x) U64MAX) as [H'|H']; [left; right; exact H' | right; lia].
Qed.

Lemma low_clock keep x x' : pw_clock x <= pw_clock x' -> low keep x' -> low keep x.
Proof. unfold low. lia. Qed.
