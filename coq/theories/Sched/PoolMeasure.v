(** Measures for the termination of the worker loop and of the scheduling pass. *)
From OCV Require Import Base.Prelude Misc.Time Queue.PMap Queue.OWS Queue.OWSOracle Queue.OWSLemmas Queue.OWSModel.
From OCV Require Import Coroutine.Co Coroutine.CoLemmas Sched.Sched Sched.Pool Sched.PoolBase Sched.PoolWf Sched.PoolQ Sched.PoolJ Sched.PoolJLemmas.
From Coq Require Import ZifyBool ZifyNat Permutation.
Open Scope Z_scope.

(** what is left of the task a worker holds (plus one for finishing it) *)
Definition tasklen (k : worker) : nat := match k_task k with Some (_, rest) => S (length rest) | None => O end.
Definition wwork (k : worker) : nat := if live k then tasklen k else O.
Definition wsum (ws : list worker) : nat := fold_right (fun k a => (wwork k + a)%nat) O ws.

(** the work queued: the whole body of every queued task, plus two (pop, finish) *)
Definition blen (tb : list (list instr)) (i : nat) : nat := length (nth i tb []).
Definition qsum (tb : list (list instr)) (l : list Z) : nat := fold_right (fun z a => (blen tb (Z.to_nat z) + 2 + a)%nat) O l.

Definition rho (x : pw) : Z :=
  3 * Z.of_nat (qsum (pw_tbody x) (all_items (pw_tq x)) + wsum (pw_workers x)) + nlive (pw_workers x).

(** fuel the worker loop needs from where worker [w] is *)
Definition mu (x : pw) (k : worker) : nat := (tasklen k + qsum (pw_tbody x) (all_items (pw_tq x)) + 1)%nat.

(** the potential of a pass *)
Definition psi (x : pw) (d : sdata) : Z :=
  rho x + 2 * Z.of_nat (length (sd_sys_suspend d)) + 2 * Z.of_nat (length (pw_cancel_cos x)).

Lemma wsum_app ws ws' : wsum (ws ++ ws') = (wsum ws + wsum ws')%nat.
Proof. induction ws as [|k ws IH]; [reflexivity|]. cbn [app wsum fold_right] in *. fold (wsum (ws ++ ws')). fold (wsum ws). rewrite IH. lia. Qed.

Lemma wsum_cons k ws : wsum (k :: ws) = (wwork k + wsum ws)%nat.
Proof. reflexivity. Qed.

Lemma wsum_set_nth ws w k k' : nth_error ws w = Some k -> (wsum (set_nth w k' ws) + wwork k = wsum ws + wwork k')%nat.
Proof.
  revert w. induction ws as [|a ws IH]; intros [|w]; cbn [nth_error]; try discriminate.
  - intro H. injection H as ->. rewrite set_nth_cons_0, !wsum_cons. lia.
  - intro H. rewrite set_nth_cons_S, !wsum_cons. specialize (IH _ H). lia.
Qed.

Lemma qsum_cons tb z l : qsum tb (z :: l) = (blen tb (Z.to_nat z) + 2 + qsum tb l)%nat.
Proof. reflexivity. Qed.

Lemma qsum_perm tb l l' : Permutation l l' -> qsum tb l = qsum tb l'.
Proof.
  induction 1 as [|z l l' H IH|y z l|l1 l2 l3 H1 IH1 H2 IH2]; rewrite ?qsum_cons; try lia; congruence.
Qed.

Lemma qsum_pop tb l l' z : (forall y, cnt y l = (one y z + cnt y l')%nat) -> qsum tb l = (blen tb (Z.to_nat z) + 2 + qsum tb l')%nat.
Proof.
  intro H. rewrite <- qsum_cons. apply qsum_perm. apply cnt_perm. intro y. rewrite cnt_cons. apply H.
Qed.

Lemma qsum_nil tb : qsum tb [] = O.
Proof. reflexivity. Qed.

Definition b2z (b : bool) : Z := if b then 1 else 0.

Lemma nlive_set_nth_b ws w k k' : nth_error ws w = Some k -> nlive (set_nth w k' ws) = nlive ws - b2z (live k) + b2z (live k').
Proof. intro H. rewrite (nlive_set_nth _ _ _ _ H). unfold b2z. reflexivity. Qed.

(** a worker record is replaced *)
Lemma rho_upd_worker x w k k' : get_worker x w = Some k ->
  rho (upd_worker x w k') + 3 * Z.of_nat (wwork k) + b2z (live k) = rho x + 3 * Z.of_nat (wwork k') + b2z (live k').
Proof.
  intro Hk. unfold get_worker in Hk. unfold rho. autorewrite with pw.
  pose proof (wsum_set_nth _ _ _ k' Hk) as H1. rewrite (nlive_set_nth_b _ _ _ k' Hk). lia.
Qed.

(** the same state, the same task: nothing changes *)
Lemma rho_upd_worker_same x w k k' : get_worker x w = Some k -> live k' = live k -> tasklen k' = tasklen k ->
  rho (upd_worker x w k') = rho x.
Proof.
  intros Hk El Et. pose proof (rho_upd_worker x w k k' Hk) as H. unfold wwork in H. rewrite El, Et in H. lia.
Qed.

Lemma wwork_idle k : k_task k = None -> wwork k = O.
Proof. intro H. unfold wwork, tasklen. rewrite H. destruct (live k); reflexivity. Qed.

Lemma wwork_live k : live k = true -> wwork k = tasklen k.
Proof. unfold wwork. intros ->. reflexivity. Qed.
