(** One-step unfolding equations of the pool model's loops, with the composite updates named. *)
From OCV Require Import Base.Prelude Misc.Time Queue.PMap Queue.OWS Coroutine.Co Sched.Sched Sched.Pool Sched.PoolBase.
Open Scope Z_scope.

Definition with_st (k : worker) (s : cstate) : worker :=
  {| k_st := s; k_create := k_create k; k_task := k_task k; k_tpool := k_tpool k; k_dead := k_dead k |}.
Definition with_task (k : worker) (tk : option (nat * list instr)) : worker :=
  {| k_st := k_st k; k_create := k_create k; k_task := tk; k_tpool := k_tpool k; k_dead := k_dead k |}.
Definition with_dead (k : worker) : worker :=
  {| k_st := k_st k; k_create := k_create k; k_task := k_task k; k_tpool := k_tpool k; k_dead := true |}.

Definition pop_cancel (x : pw) (p : nat) (q' : sys) (t : nat) : pw :=
  let x1 := set_tq x q' in
  let x2 := set_globals x1 (remove_nat t (pw_cancel_tasks x1)) (pw_cancel_cos x1) (pw_running_tasks x1) in
  let pq := get_pool x2 p in
  let x3 :=
    if mem_nat t (p_nowaits pq)
    then upd_pool x2 p (fun q => p_with_wait (p_waits q) (p_results q) (remove_nat t (p_nowaits q)) q)
    else notify (upd_pool x2 p (fun q => p_with_wait (p_waits q)
                                               (assoc_del t (p_results q) ++ [(t, TErr TMCancelled)])
                                               (p_nowaits q) q)) p t in
  upd_pool x3 p (p_with_popfail 0).

Definition pop_start (x : pw) (p : nat) (q' : sys) (t w : nat) (k : worker) : pw :=
  let x1 := set_tq x q' in
  let x2 := set_globals x1 (pw_cancel_tasks x1) (pw_cancel_cos x1) (assoc_del t (pw_running_tasks x1) ++ [(t, w)]) in
  upd_worker x2 w {| k_st := k_st k; k_create := k_create k; k_task := Some (t, nth t (pw_tbody x2) []); k_tpool := p; k_dead := k_dead k |}.

Definition fin_cont (f : nat) (w : nat) (acc : list ev) (tp : nat) (r : fin) : pw * list ev * wout :=
  match r with
  | FinOk x' => wloop f (upd_pool x' tp (p_with_popfail 0)) w acc
  | FinPanic x' => (x', acc, WPanic POther)
  end.

Lemma wloop_S f x w acc k : get_worker x w = Some k ->
  wloop (S f) x w acc =
  let p := pw_cur x in
  match k_task k with
  | Some (t, []) =>
      fin_cont f w (acc ++ [EB t (BRet 0)]) (k_tpool k) (finish_task (upd_worker x w (with_task k None)) (k_tpool k) t (TOk 0))
  | Some (t, ins :: rest) =>
      let x0 := upd_worker x w (with_task k (Some (t, rest))) in
      match ins with
      | ISuspend y => (x0, acc ++ [EB t (BYield y RNone)], WYield)
      | IDelay y d =>
          (set_req x0 (get_timeout_time (pw_clock x0) d :: pw_ts x0) (pw_cn x0), acc ++ [EB t (BYield y (RDelay d))], WYield)
      | IUntil y ts => (set_req x0 (ts :: pw_ts x0) (pw_cn x0), acc ++ [EB t (BYield y (RUntil ts))], WYield)
      | ICancel =>
          (set_req (upd_worker x w (with_task k (Some (t, [IUnreachable])))) (pw_ts x) (true :: pw_cn x),
           acc ++ [EB t (BYield 0 RCancel)], WYield)
      | ISyscall y name st =>
          match tr_syscall (k_st k) y name st with
          | Some new => let '(x1, e) := k_change x0 w new in wloop f x1 w (acc ++ e ++ [EB t (BRes true)])
          | None => wloop f x0 w (acc ++ [EB t (BRes false)])
          end
      | IRunning =>
          match tr_running (pw_clock x0) (k_st k) with
          | Some (Some new) => let '(x1, e) := k_change x0 w new in wloop f x1 w (acc ++ e ++ [EB t (BRes true)])
          | Some None => wloop f x0 w (acc ++ [EB t (BRes true)])
          | None => wloop f x0 w (acc ++ [EB t (BRes false)])
          end
      | ITick d => wloop f (set_clockp x0 (sat_add64 (pw_clock x0) d)) w (acc ++ [EB t (BTick d)])
      | ILog n => wloop f x0 w (acc ++ [EB t (BLog n)])
      | IReturn v =>
          fin_cont f w (acc ++ [EB t (BRet v)]) (k_tpool k) (finish_task (upd_worker x w (with_task k None)) (k_tpool k) t (TOk v))
      | IPanic pk =>
          fin_cont f w (acc ++ [EB t (BPanic pk)]) (k_tpool k)
                   (finish_task (upd_worker x w (with_task k None)) (k_tpool k) t (TErr (task_msg pk)))
      | IUnreachable =>
          fin_cont f w acc (k_tpool k)
                   (finish_task (upd_worker x w (with_task k None)) (k_tpool k) t (TErr (task_msg PUnreachable)))
      end
  | None =>
      match lpop (pw_tq x) p 0 with
      | (q', OItem (Some tz)) =>
          let t := Z.to_nat tz in
          if mem_nat t (pw_cancel_tasks x) then wloop f (pop_cancel x p q' t) w acc
          else wloop f (pop_start x p q' t w k) w (acc ++ [EB t (BStart (Z.of_nat w))])
      | (q', _) =>
          let x1 := set_tq x q' in
          let pq := get_pool x1 p in
          let running := p_running pq in
          if ((p_keep pq <=? sat_sub (pw_clock x1) (k_create k)) && (p_min pq <? running))
             || negb (match p_state pq with PRunning => true | _ => false end)
          then (x1, acc, WReturn)
          else
            let pf := p_popfail pq + 1 in
            if pf <? running
            then (upd_pool x1 p (p_with_popfail pf), acc, WYield)
            else wloop f (set_clockp (upd_pool x1 p (p_with_popfail 0)) (sat_add64 (pw_clock x1) 1000000)) w acc
      end
  end.
Proof.
  intro Hk. cbn [wloop]. rewrite Hk. reflexivity.
Qed.

(** * k_resume *)
Definition k_dead_mark (x : pw) (w : nat) : pw :=
  match get_worker x w with
  | Some k' => upd_worker x w (with_dead k')
  | None => x
  end.

Definition k_finish (x2 : pw) (w : nat) (ev2 : list ev) (out : wout) : pw * res * list ev :=
  let st2 := match get_worker x2 w with Some k2 => k_st k2 | None => Ready end in
  match out with
  | WYield =>
      match st2 with
      | Running =>
          let '(cancel, cn') := pop_front false (pw_cn x2) in
          if cancel then
            let '(x3, e) := k_change (set_req x2 (pw_ts x2) cn') w Cancelled in
            (x3, ROk Cancelled, ev2 ++ e)
          else
            let '(ts, ts') := pop_front 0 (pw_ts x2) in
            let '(x3, e) := k_change (set_req x2 ts' cn') w (Suspend 0 ts) in
            (x3, ROk (Suspend 0 ts), ev2 ++ e)
      | Syscall y' n s =>
          let '(_, cn') := pop_front false (pw_cn x2) in
          let '(_, ts') := pop_front 0 (pw_ts x2) in
          (set_req x2 ts' cn', ROk (Syscall y' n s), ev2)
      | _ => (x2, RErr, ev2)
      end
  | WReturn =>
      match st2 with
      | Running => let '(x3, e) := k_change (k_dead_mark x2 w) w (Complete (-1)) in (x3, ROk (Complete (-1)), ev2 ++ e)
      | _ => (k_dead_mark x2 w, RErr, ev2)
      end
  | WPanic pk =>
      match st2 with
      | Running =>
          let '(x3, e) := k_change (k_dead_mark x2 w) w (Error (panic_msg pk)) in
          (x3, ROk (Error (panic_msg pk)), ev2 ++ e)
      | _ => (k_dead_mark x2 w, RErr, ev2)
      end
  | WSpin | WFuel => (set_spin x2, RBad, ev2)
  end.

Definition k_defect (x : pw) (w : nat) : pw :=
  if Nat.eqb (nth w (pw_wpool x) (pw_cur x)) (pw_cur x) then x else add_defect x defect_stolen_worker.

Lemma k_resume_eq x w k : get_worker (k_defect x w) w = Some k ->
  k_resume x w =
  let xd := k_defect x w in
  match k_st k with
  | Complete r => (xd, ROk (Complete r), [])
  | Error m => (xd, ROk (Error m), [])
  | _ =>
      match tr_running (pw_clock xd) (k_st k) with
      | None => (xd, RErr, [])
      | Some chg =>
          let '(x1, ev1) := match chg with Some new => k_change xd w new | None => (xd, []) end in
          if k_dead k then (x1, RUnwound, ev1)
          else let '(x2, ev2, out) := wloop (wfuel x1) x1 w ev1 in k_finish x2 w ev2 out
      end
  end.
Proof.
  intro Hk. unfold k_resume. fold (k_defect x w). rewrite Hk. reflexivity.
Qed.

(** * the scheduler instance of pool 0 *)
Definition csusp := check_suspend pw pw_clock k_state k_change (k_push 0).
Definition csys := check_sys pw pw_clock k_state k_change (k_push 0).
Definition cready := check_ready pw pw_clock k_state k_change (k_push 0).
Definition dsched := do_schedule pw pw_clock k_state k_change k_resume (k_push 0) (k_pop 0) k_cancelled k_uncancel.

Definition d_rm_susp (d : sdata) (e : Z * nat) : sdata :=
  {| sd_suspend := heap_remove e (sd_suspend d); sd_syscall := sd_syscall d; sd_sys_suspend := sd_sys_suspend d; sd_gone := sd_gone d |}.
Definition d_rm_sysheap (d : sdata) (e : Z * nat) : sdata :=
  {| sd_suspend := sd_suspend d; sd_syscall := sd_syscall d; sd_sys_suspend := heap_remove e (sd_sys_suspend d); sd_gone := sd_gone d |}.
Definition d_rm_sys (d : sdata) (e : Z * nat) : sdata :=
  {| sd_suspend := sd_suspend d; sd_syscall := remove_nat (snd e) (sd_syscall d);
     sd_sys_suspend := heap_remove e (sd_sys_suspend d); sd_gone := sd_gone d |}.
Definition d_add_susp (d : sdata) (e : Z * nat) : sdata :=
  {| sd_suspend := sd_suspend d ++ [e]; sd_syscall := sd_syscall d; sd_sys_suspend := sd_sys_suspend d; sd_gone := sd_gone d |}.
Definition d_add_sys (d : sdata) (w : nat) (ts : Z) : sdata :=
  {| sd_suspend := sd_suspend d;
     sd_syscall := if mem_nat w (sd_syscall d) then sd_syscall d else w :: sd_syscall d;
     sd_sys_suspend := sd_sys_suspend d ++ [(ts, w)]; sd_gone := sd_gone d |}.
Definition d_gone (d : sdata) (i : nat) : sdata :=
  {| sd_suspend := sd_suspend d; sd_syscall := sd_syscall d; sd_sys_suspend := sd_sys_suspend d; sd_gone := i :: sd_gone d |}.

Lemma csusp_S f x d acc :
  csusp (S f) x d acc =
  match heap_min (sd_suspend d) with
  | None => COk pw x d acc
  | Some (ts, i) =>
      if pw_clock x <? ts then COk pw x d acc
      else match co_ready pw pw_clock k_state k_change x i with
           | None => CErr pw x (d_rm_susp d (ts, i)) acc
           | Some (x2, e) => csusp f (k_push 0 x2 i) (d_rm_susp d (ts, i)) (acc ++ e)
           end
  end.
Proof. reflexivity. Qed.

Lemma csys_S f x d acc :
  csys (S f) x d acc =
  match heap_min (sd_sys_suspend d) with
  | None => COk pw x d acc
  | Some (ts, i) =>
      if pw_clock x <? ts then COk pw x d acc
      else
        if mem_nat i (sd_syscall d) then
          match k_state x i with
          | Some (Syscall y n (SSuspend _)) =>
              let '(x', e) := k_change x i (Syscall y n STimeout) in
              csys f (k_push 0 x' i) (d_rm_sys d (ts, i)) (acc ++ e)
          | _ => CPanic pw x (d_rm_sys d (ts, i)) acc
          end
        else csys f x (d_rm_sysheap d (ts, i)) acc
  end.
Proof. reflexivity. Qed.

Lemma cready_eq x d acc :
  cready x d acc =
  match csusp (S (length (sd_suspend d))) x d acc with
  | COk _ x1 d1 acc1 => csys (S (length (sd_sys_suspend d1))) x1 d1 acc1
  | r => r
  end.
Proof. reflexivity. Qed.

Lemma dsched_S f x d deadline results acc :
  dsched (S f) x d deadline results acc =
  let lft := sat_sub deadline (pw_clock x) in
  if lft =? 0 then (x, d, PassOk 0 results, acc)
  else
    match cready x d acc with
    | CErr _ x1 d1 acc1 => (x1, d1, PassErr, acc1)
    | CPanic _ x1 d1 acc1 => (x1, d1, PassUnwound, acc1)
    | COk _ x1 d1 acc1 =>
        match k_pop 0 x1 with
        | (x2, None) => (x2, d1, PassOk lft results, acc1)
        | (x2, Some i) =>
            if k_cancelled x2 i then
              let '(x3, e) := k_change (k_uncancel x2 i) i Cancelled in
              dsched f x3 (d_gone d1 i) deadline results (acc1 ++ e)
            else
              let '(x3, r, e) := k_resume x2 i in
              let acc2 := acc1 ++ e in
              match r with
              | ROk (Syscall _ _ st) =>
                  let d2 := {| sd_suspend := sd_suspend d1;
                               sd_syscall := if mem_nat i (sd_syscall d1) then sd_syscall d1 else i :: sd_syscall d1;
                               sd_sys_suspend := match st with
                                                 | SSuspend ts => sd_sys_suspend d1 ++ [(ts, i)]
                                                 | _ => sd_sys_suspend d1
                                                 end;
                               sd_gone := sd_gone d1 |} in
                  dsched f x3 d2 deadline results acc2
              | ROk (Suspend _ ts) =>
                  if pw_clock x3 <? ts then dsched f x3 (d_add_susp d1 (ts, i)) deadline results acc2
                  else dsched f (k_push 0 x3 i) d1 deadline results acc2
              | ROk Cancelled => dsched f x3 d1 deadline results acc2
              | ROk (Complete v) => dsched f x3 d1 deadline (results ++ [(i, ROk (Complete v))]) acc2
              | ROk (Error m) => dsched f x3 d1 deadline (results ++ [(i, ROk (Error m))]) acc2
              | _ => (x3, d_gone d1 i, PassErr, acc2)
              end
        end
    end.
Proof. reflexivity. Qed.

Definition ppass_tail (x2 : pw) (d2 : sdata) (r : pass_res) (e : list ev) : pw * pres * list ev :=
  let x3 := upd_pool x2 0 (p_with_sd d2) in
  if pw_spin x3 then (x3, PDiverged, e) else
  match r with
  | PassOk l _ => (x3, PLeft l, e)
  | PassErr => (x3, PErr, e)
  | PassUnwound => (x3, PUnwound, e)
  | PassDiverged => (x3, PDiverged, e)
  end.

Lemma ppass_eq x deadline :
  ppass x 0 deadline =
  match p_state (get_pool x 0) with
  | PStopped => (x, PErrStopped, [])
  | _ =>
      let x1 := set_cur (try_grow x 0) 0 in
      let '(x2, d2, r, e) := dsched (pass_fuel_p x1) x1 (p_sd (get_pool x1 0)) deadline [] [] in
      ppass_tail x2 d2 r e
  end.
Proof.
  unfold ppass, ppass_tail, dsched. destruct (p_state (get_pool x 0)); try reflexivity;
  destruct (do_schedule _ _ _ _ _ _ _ _ _ _ _ _ _ _ _) as [[[x2 d2] r] e]; reflexivity.
Qed.
