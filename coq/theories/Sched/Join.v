(** The wait/notify protocol of [CoroutinePool::wait_task_result] (plain-thread waiter) against
    the completion of the task in [try_run] ([results.insert], then [notify]), one step per access
    to the shared maps. Two protocols: [Repaired] (the code as it is: the waiter takes the result
    once more after registering) and [Old] (before the repair). The completer may run on another
    thread at any point: schedules are arbitrary lists of "who moves". *)
From OCV Require Import Base.Prelude.
Open Scope Z_scope.

Inductive proto := Repaired | Old.

Inductive wpc :=
| W1            (* about to take the result a first time *)
| W2            (* no result seen: about to register in [waits] (pending = true) *)
| W2b           (* registered: about to take the result again (Repaired only) *)
| W3            (* blocked on the condvar until pending = false or the timeout fires *)
| W4            (* woken or timed out: about to take the result *)
| WDone (got : bool) (timed_out : bool).

Inductive cpc :=
| C1            (* about to insert the result *)
| C2            (* about to notify: remove the [waits] entry, clear pending, signal *)
| CDone.

Record jst := {
  j_result : bool;            (* results has the task's result *)
  j_entry : bool;             (* waits has an entry for the task *)
  j_pending : bool;           (* the waiter's flag (true = keep waiting) *)
  j_w : wpc;
  j_c : cpc
}.

Definition j0 : jst := {| j_result := false; j_entry := false; j_pending := true; j_w := W1; j_c := C1 |}.

Inductive who := Waiter | Completer | Timeout.   (* Timeout: the waiter's wait_time runs out *)

Definition jstep (p : proto) (s : jst) (a : who) : jst :=
  match a with
  | Completer =>
      match j_c s with
      | C1 => {| j_result := true; j_entry := j_entry s; j_pending := j_pending s; j_w := j_w s; j_c := C2 |}
      | C2 =>
          if j_entry s
          then {| j_result := j_result s; j_entry := false; j_pending := false; j_w := j_w s; j_c := CDone |}
          else {| j_result := j_result s; j_entry := false; j_pending := j_pending s; j_w := j_w s; j_c := CDone |}
      | CDone => s
      end
  | Waiter =>
      match j_w s with
      | W1 =>
          if j_result s
          then (* take it, notify (removes a stale entry if any), return *)
            {| j_result := false; j_entry := false; j_pending := j_pending s; j_w := WDone true false; j_c := j_c s |}
          else {| j_result := false; j_entry := j_entry s; j_pending := j_pending s; j_w := W2; j_c := j_c s |}
      | W2 =>
          {| j_result := j_result s; j_entry := true; j_pending := true;
             j_w := match p with Repaired => W2b | Old => W3 end; j_c := j_c s |}
      | W2b =>
          if j_result s
          then {| j_result := false; j_entry := false; j_pending := j_pending s; j_w := WDone true false; j_c := j_c s |}
          else {| j_result := false; j_entry := j_entry s; j_pending := j_pending s; j_w := W3; j_c := j_c s |}
      | W3 =>
          (* the condvar lets it through only when pending is false *)
          if j_pending s then s
          else {| j_result := j_result s; j_entry := j_entry s; j_pending := j_pending s; j_w := W4; j_c := j_c s |}
      | W4 =>
          if j_result s
          then {| j_result := false; j_entry := false; j_pending := j_pending s; j_w := WDone true false; j_c := j_c s |}
          else {| j_result := false; j_entry := j_entry s; j_pending := j_pending s; j_w := WDone false false; j_c := j_c s |}
      | WDone _ _ => s
      end
  | Timeout =>
      match j_w s with
      | W3 =>
          (* wait_timeout_while gives up: take the result if it is there, else TimedOut *)
          if j_result s
          then {| j_result := false; j_entry := false; j_pending := j_pending s; j_w := WDone true true; j_c := j_c s |}
          else {| j_result := false; j_entry := j_entry s; j_pending := j_pending s; j_w := WDone false true; j_c := j_c s |}
      | _ => s
      end
  end.

Definition jrun (p : proto) (sched : list who) : jst := fold_left (jstep p) sched j0.

(** the waiter sleeps although the task has completed and nobody will ever wake it *)
Definition lost_wakeup (s : jst) : bool :=
  match j_w s, j_c s with
  | W3, CDone => j_pending s
  | _, _ => false
  end.

(** the waiter can make progress without the timeout *)
Definition waiter_enabled (s : jst) : bool :=
  match j_w s with
  | W3 => negb (j_pending s)
  | WDone _ _ => false
  | _ => true
  end.
