(** C15 proofs, layer 4: the scheduling pass ([check_ready] + the resume loop of [do_schedule])
    under the invariant, then the operations of a history and the main theorem. *)
From OCV Require Import Base.Prelude Misc.Time Queue.PMap Queue.OWS Queue.OWSOracle Queue.OWSLemmas Queue.OWSStep Coroutine.Co
  Sched.Sched Sched.Pool Sched.PoolOracle Sched.C15Oracle Sched.C15Lemmas Sched.C15Queue Sched.C15State Sched.C15Inv Sched.C15Run.
From Coq Require Import ZifyBool ZifyNat Permutation.
Open Scope Z_scope.

(** termination measure of a pass *)
Definition mu (s : cst) (d : sdata) (Q R : list nat) : nat := (mm s Q R + 3 * length (sd_sys_suspend d))%nat.

Definition no_due (s : cst) (d : sdata) : Prop := forall T w, In (T, w) (sd_sys_suspend d) -> c_clock s < T.

Section Pass.
  Variable mx : Z.
  Variable specs : list tspec.

  (** second loop of [check_ready]: every parked worker whose time has come goes to the ready queue *)
  Lemma wake_loop : forall fuel s d tr Q R acc,
    INV mx specs s d tr None None Q R -> GG mx s Q R -> (length (sd_sys_suspend d) < fuel)%nat ->
    exists s' d' e R',
      csys fuel (mkx mx s) d acc = COk _ (mkx mx s') d' (acc ++ e) /\
      INV mx specs s' d' (fold_left pev15 e tr) None None Q R' /\ no_due s' d' /\ GG mx s' Q R' /\
      frame s s' /\ (mu s' d' Q R' <= mu s d Q R)%nat.
  Proof.
    induction fuel as [|f IH]; intros s d tr Q R acc H HG Hfuel; [lia|].
    destruct (heap_min (sd_sys_suspend d)) as [[T w]|] eqn:Hmin.
    2:{ exists s, d, [], R. rewrite app_nil_r. split; [apply csys_done_empty, Hmin|].
        split; [exact H|]. split; [|split; [exact HG | split; [apply frame_refl | lia]]].
        intros T w Hin. apply heap_min_none in Hmin. rewrite Hmin in Hin. destruct Hin. }
    destruct (Z_lt_le_dec (c_clock s) T) as [Hlt|Hle].
    { exists s, d, [], R. rewrite app_nil_r. split; [eapply csys_done_later; eassumption|].
      split; [exact H|]. split; [|split; [exact HG | split; [apply frame_refl | lia]]].
      intros T' w' Hin. pose proof (heap_min_le _ _ Hmin _ Hin) as Hx. cbn [fst] in Hx. lia. }
    (* the earliest entry is due *)
    pose proof (heap_min_in _ _ Hmin) as Hin.
    destruct (i_parked _ _ _ _ _ _ _ _ _ H T w Hin) as (k & t & n & lg & Hk & Hst & Hh & Hsp & Hasl).
    assert (mem_nat w (sd_syscall d) = true) as Hmem.
    { apply mem_nat_In, (i_sc _ _ _ _ _ _ _ _ _ H). unfold parked_ws. apply (in_map snd) in Hin. exact Hin. }
    rewrite (csys_wake mx s d acc f T w k 0 n T Hmin Hle Hmem Hk Hst).
    assert (w < length (c_ws s))%nat as Hwlt by (apply nth_error_Some; congruence).
    (* as invariant moves: out of the heap, new state, grow, into the ready queue *)
    pose proof (inv_unpark mx specs s d tr Q R T w H Hin) as H1.
    rewrite (hold_wtask s w k t n lg Hk Hh) in H1.
    destruct (nodup_cur _ _ _ (i_nd _ _ _ _ _ _ _ _ _ H1)) as [HnR HnP].
    set (k1 := w_st k (Syscall 0 n STimeout)).
    set (tr1 := pev15 tr (EL 0 w (CbChanged (Syscall 0 n STimeout)) (k_st k))).
    assert (INV mx specs (upd_w s w k1) (d_wake d (T, w)) tr1 (Some w) (Some t) Q R) as H2.
    { apply (inv_upd_cur mx specs s _ tr tr1 w (Some t) Q R k k1 H1 Hk).
      - intros t0 Hx. exact Hx.
      - intros t0 T0 n0 lg0 _ [A B C]. constructor; assumption.
      - reflexivity.
      - reflexivity.
      - intro w'. cbn [tr1 pev15 k_workers]. rewrite nth_set_nth_ext. reflexivity.
      - cbn [tr1 pev15 k_workers]. rewrite len_set_nth_ext. pose proof (i_trklen _ _ _ _ _ _ _ _ _ H). lia. }
    rewrite chg_syscall. fold k1.
    destruct (inv_grow mx specs _ _ _ _ _ Q R H2) as (R2 & H3 & HR2 & _).
    pose proof (mm_grow mx specs _ _ _ _ _ Q R R2 H2 HR2) as Hmm3.
    set (s3 := grow mx (upd_w s w k1)) in *.
    assert (nth_error (c_ws s3) w = Some k1) as Hk3.
    { unfold s3. rewrite ws_grow_old by (rewrite len_upd_w; exact Hwlt). apply nth_error_upd_w, Hwlt. }
    destruct (q_push (c_cq s3) 0 (Z.of_nat w) (i_cq _ _ _ _ _ _ _ _ _ H3)) as [Hq4 Hp4].
    assert (hold k1 t n lg) as Hh1 by (destruct Hh as [A B C]; constructor; assumption).
    pose proof (inv_release mx specs s3 _ tr1 w t Q R2 k1 n T lg _ H3 Hk3 eq_refl Hh1 Hsp Hasl Hq4 Hp4) as H4.
    set (s4 := s_cq s3 (fst (lpush (c_cq s3) 0 0 (Z.of_nat w)))) in *.
    assert (length (sd_sys_suspend (d_wake d (T, w))) + 1 = length (sd_sys_suspend d))%nat as HL.
    { pose proof (Permutation_length (heap_remove_perm (T, w) _ Hin)) as Hx. cbn [length] in Hx. cbn [d_wake sd_sys_suspend]. lia. }
    destruct (IH s4 (d_wake d (T, w)) tr1 Q (R2 ++ [w]) (acc ++ [EL 0 w (CbChanged (Syscall 0 n STimeout)) (k_st k)]) H4)
      as (s' & d' & e & R' & Heq & H5 & Hnd5 & HG5 & Hfr5 & Hmu5).
    - right. left. destruct R2; discriminate.
    - lia.
    - exists s', d', (EL 0 w (CbChanged (Syscall 0 n STimeout)) (k_st k) :: e), R'.
      split; [rewrite Heq, <- app_assoc; reflexivity|]. cbn [fold_left]. fold tr1.
      split; [exact H5|]. split; [exact Hnd5|]. split; [exact HG5|]. split.
      + eapply frame_trans; [|exact Hfr5]. unfold s4, s3. eapply frame_trans; [|apply frame_grow]. split; reflexivity.
      + assert (mm s4 Q (R2 ++ [w]) = mm s3 Q R2 + 2)%nat as Hmm4.
        { unfold mm. change (nwk s4 (R2 ++ [w])) with (nwk s3 (R2 ++ [w])). rewrite nwk_app, app_length.
          unfold nwk at 2. cbn [filter]. unfold wokenb at 1. rewrite Hk3. cbn [k1 w_st k_st length]. lia. }
        assert (mm (upd_w s w k1) Q R = mm s Q R) as Hmm2 by (unfold mm; rewrite nwk_upd_cur by exact HnR; reflexivity).
        unfold mu in *. lia.
  Qed.

  (** the resume loop of [do_schedule]: until the ready queue is empty *)
  Lemma pass_loop dl : forall fuel s d tr Q R acc res,
    INV mx specs s d tr None None Q R -> GG mx s Q R -> sat_sub dl (c_clock s) <> 0 -> (mu s d Q R < fuel)%nat ->
    exists s' d' e res' Q',
      dsch fuel (mkx mx s) d dl res acc = (mkx mx s', d', PassOk (sat_sub dl (c_clock s)) res', acc ++ e) /\
      INV mx specs s' d' (fold_left pev15 e tr) None None Q' [] /\ no_due s' d' /\ GG mx s' Q' [] /\ frame s s'.
  Proof.
    induction fuel as [|f IH]; intros s d tr Q R acc res H HG Hlive Hfuel; [lia|].
    destruct (wake_loop (S (length (sd_sys_suspend d))) s d tr Q R acc H HG (Nat.lt_succ_diag_r _))
      as (s1 & d1 & e1 & R1 & Hsys & H1 & Hnd1 & HG1 & Hfr1 & Hmu1).
    set (tr1 := fold_left pev15 e1 tr) in *.
    pose proof (i_susp _ _ _ _ _ _ _ _ _ H) as Hsusp.
    destruct (q_pop (c_cq s1) 0 (i_cq _ _ _ _ _ _ _ _ _ H1)) as (q & ox & Hpop & Hq & Hox).
    destruct ox as [v|].
    2:{ (* nothing runnable: the pass ends *)
        destruct Hox as [Hemp Hemp'].
        rewrite (dsch_end mx s d dl Hsusp s1 d1 acc (acc ++ e1) Hlive Hsys f res q Hpop).
        assert (R1 = []) as ->.
        { pose proof (i_cqi _ _ _ _ _ _ _ _ _ H1) as Hp. rewrite Hemp in Hp. apply Permutation_nil in Hp. destruct R1; [reflexivity | discriminate]. }
        exists (s_cq s1 q), d1, e1, res, Q. split; [reflexivity|].
        split; [apply inv_set_cq; [exact H1 | exact Hq | rewrite Hemp'; constructor]|].
        split; [exact Hnd1|]. split; [exact HG1|]. eapply frame_trans; [exact Hfr1 | split; reflexivity]. }
    (* a runnable worker is taken and resumed *)
    set (w := Z.to_nat v) in *.
    destruct (inv_take mx specs s1 d1 tr1 Q R1 q v H1 Hq Hox) as (R2 & HpR & H2). fold w in HpR, H2.
    set (s2 := s_cq s1 q) in *.
    assert (In w R1) as HwR by (apply (Permutation_in _ (Permutation_sym HpR)); left; reflexivity).
    assert (exists s3 e3 r d' slack,
               k_resume (mkx mx s2) w = (mkx mx s3, r, e3) /\
               resume_post mx specs d1 w s2 Q R2 slack s3 (fold_left pev15 e3 tr1) r d' /\
               (mm s2 Q R2 + slack + 1 <= mm s1 Q R1)%nat) as (s3 & e3 & r & d' & slack & Hres & Hrp & Hsl).
    { destruct (i_runnable _ _ _ _ _ _ _ _ _ H1 w HwR) as (k & Hk & [(Hst & Hnt & Hdd)|(t & n & T & lg & Hst & Hh & Hsp & Hasl)]).
      - assert (wtask s1 w = None) as Hwt by (unfold wtask; rewrite Hk, Hnt; reflexivity).
        rewrite Hwt in H2.
        destruct (resume_ready mx specs d1 w s2 tr1 Q R2 k H2 Hk Hst Hnt Hdd) as (s3 & e3 & r & d' & Hres & Hrp).
        exists s3, e3, r, d', 0%nat. split; [exact Hres|]. split; [exact Hrp|].
        unfold mm. change (nwk s2 R2) with (nwk s1 R2). rewrite (nwk_perm s1 R1 (w :: R2) HpR), nwk_cons.
        apply Permutation_length in HpR. cbn [length] in HpR. lia.
      - rewrite (hold_wtask s1 w k t n lg Hk Hh) in H2.
        destruct (resume_woken mx specs d1 w s2 tr1 Q R2 k t n T lg H2 Hk Hst Hh Hsp Hasl) as (s3 & e3 & r & d' & Hres & Hrp).
        exists s3, e3, r, d', 1%nat. split; [exact Hres|]. split; [exact Hrp|].
        unfold mm. change (nwk s2 R2) with (nwk s1 R2). rewrite (nwk_perm s1 R1 (w :: R2) HpR), nwk_cons.
        unfold wokenb at 1. rewrite Hk, Hst. apply Permutation_length in HpR. cbn [length] in HpR. lia. }
    destruct Hrp as [Hfr3 Hcases].
    assert (c_clock s3 = c_clock s) as Hclk.
    { destruct Hfr3 as [A _]. destruct Hfr1 as [B _]. rewrite A. exact B. }
    assert (frame s s3) as Hfr.
    { eapply frame_trans; [exact Hfr1|]. eapply frame_trans; [|exact Hfr3]. split; reflexivity. }
    destruct Hcases as [(rr & R' & -> & -> & H3 & Hmm3)|(n & T & Q' & R' & -> & -> & H3 & HG3 & Hmm3)].
    - (* the worker completed *)
      rewrite (dsch_exited mx s d dl Hsusp s1 d1 acc (acc ++ e1) Hlive Hsys q v s3 e3 Hpop f res rr Hres). fold w.
      destruct (IH s3 d1 (fold_left pev15 e3 tr1) [] R' ((acc ++ e1) ++ e3) (res ++ [(w, ROk (Complete rr))]) H3)
        as (s' & dd & e & res' & Q'' & Heq & H4 & Hnd4 & HG4 & Hfr4).
      + left. reflexivity.
      + rewrite Hclk. exact Hlive.
      + unfold mu in *. lia.
      + exists s', dd, (e1 ++ e3 ++ e), res', Q''. rewrite Heq, Hclk, <- !app_assoc. split; [reflexivity|].
        rewrite !fold_left_app. split; [exact H4|]. split; [exact Hnd4|]. split; [exact HG4|].
        eapply frame_trans; eassumption.
    - (* the worker parked in a hooked wait *)
      rewrite (dsch_parked mx s d dl Hsusp s1 d1 acc (acc ++ e1) Hlive Hsys q v s3 e3 Hpop f res 0 n T Hres). fold w.
      destruct (IH s3 (d_park d1 T w) (fold_left pev15 e3 tr1) Q' R' ((acc ++ e1) ++ e3) res H3 HG3)
        as (s' & dd & e & res' & Q'' & Heq & H4 & Hnd4 & HG4 & Hfr4).
      + rewrite Hclk. exact Hlive.
      + unfold mu in *. cbn [d_park sd_sys_suspend]. rewrite app_length. cbn [length]. lia.
      + exists s', dd, (e1 ++ e3 ++ e), res', Q''. rewrite Heq, Hclk, <- !app_assoc. split; [reflexivity|].
        rewrite !fold_left_app. split; [exact H4|]. split; [exact Hnd4|]. split; [exact HG4|].
        eapply frame_trans; eassumption.
  Qed.

  (** * The judgement at the end of a full pass *)
  Lemma filter_index {A} (P : A -> bool) (dflt : A) l :
    length (filter P l) = length (filter (fun i => P (nth i l dflt)) (seq 0 (length l))).
  Proof.
    induction l as [|a l IH]; [reflexivity|].
    assert (forall m, length (filter (fun i => P (nth i (a :: l) dflt)) (map S m)) = length (filter (fun i => P (nth i l dflt)) m)) as Hm.
    { induction m as [|x m IHm]; [reflexivity|]. cbn [map filter]. change (nth (S x) (a :: l) dflt) with (nth x l dflt).
      destruct (P (nth x l dflt)); cbn [length]; rewrite IHm; reflexivity. }
    cbn [length seq]. rewrite <- seq_shift. cbn [filter]. change (nth 0 (a :: l) dflt) with a.
    destruct (P a); cbn [length]; rewrite Hm, IH; reflexivity.
  Qed.

  Lemma count_by_index {A} (P : A -> bool) (dflt : A) l idxs :
    NoDup idxs -> (forall i, In i idxs <-> (i < length l)%nat /\ P (nth i l dflt) = true) ->
    length (filter P l) = length idxs.
  Proof.
    intros Hnd Hiff. rewrite (filter_index P dflt). apply Permutation_length. apply NoDup_Permutation.
    - apply NoDup_filter, seq_NoDup.
    - exact Hnd.
    - intro i. rewrite filter_In, in_seq, Hiff. split; [intros [A0 B0]; split; [lia | exact B0] | intros [A0 B0]; split; [lia | exact B0]].
  Qed.

  Lemma pev15_ok tr e : k_ok (pev15 tr e) = k_ok tr.
  Proof. destruct e as [l w c old|t b]; [destruct c; reflexivity|]. destruct b as [| |y r| | | | |]; try reflexivity. destruct r; reflexivity. Qed.

  Lemma fold_pev15_ok e tr : k_ok (fold_left pev15 e tr) = k_ok tr.
  Proof. revert tr. induction e as [|x e IH]; intro tr; [reflexivity|]. cbn [fold_left]. rewrite IH. apply pev15_ok. Qed.

  Lemma judge_ok s d tr Q :
    INV mx specs s d tr None None Q [] -> no_due s d -> GG mx s Q [] ->
    negb (pending tr) || (mx <=? alive tr) = true.
  Proof.
    intros H Hnd HG.
    destruct (pending tr) eqn:Hp; [|reflexivity]. cbn [negb orb].
    (* whoever is pending was never started: every slot is taken *)
    unfold pending in Hp. apply existsb_exists in Hp as (st & Hin & Hst).
    apply In_nth_error in Hin as (t & Ht).
    assert (status tr t = st) as Hstat by (unfold status; apply nth_error_nth, Ht).
    assert (t < length specs)%nat as Htl.
    { rewrite <- (i_len _ _ _ _ _ _ _ _ _ H). apply nth_error_Some. congruence. }
    assert (mx <= c_run s) as Hmx.
    { destruct st as [| |T|]; cbn [pending_stat] in Hst; try discriminate.
      - assert (In t Q) as HQ by (apply (i_Qst _ _ _ _ _ _ _ _ _ H); split; assumption).
        destruct HG as [->|[Hx|Hx]]; [destruct HQ | congruence | exact Hx].
      - apply (i_act _ _ _ _ _ _ _ _ _ H) in Hstat. discriminate.
      - exfalso. destruct (i_asleep _ _ _ _ _ _ _ _ _ H t T Hstat) as (w & k & n & lg & [[]|[[]|Hw]] & _).
        apply Hnd in Hw. rewrite (i_clock _ _ _ _ _ _ _ _ _ H) in Hst. lia. }
    (* ... by a worker that is legitimately blocked *)
    assert (alive tr = Z.of_nat (length (parked_ws d))) as Hal.
    { unfold alive. f_equal. apply (count_by_index _ Ready).
      - pose proof (i_nd _ _ _ _ _ _ _ _ _ H) as Hx. unfold allw in Hx. cbn [curw app] in Hx. exact Hx.
      - intro w. rewrite (i_clock _ _ _ _ _ _ _ _ _ H). split.
        + intro Hin. unfold parked_ws in Hin. apply in_map_iff in Hin as ([T w'] & Hs & Hin). cbn [snd] in Hs. subst w'.
          destruct (i_parked _ _ _ _ _ _ _ _ _ H T w Hin) as (k & t0 & n & lg & Hk & Hks & _).
          pose proof (i_trk _ _ _ _ _ _ _ _ _ H w) as Htr. rewrite Hk, Hks in Htr.
          split.
          * destruct (lt_dec w (length (k_workers tr))) as [Hl|Hl]; [exact Hl|].
            rewrite nth_overflow in Htr by lia. discriminate.
          * rewrite Htr. cbn [blocked]. specialize (Hnd T w Hin). lia.
        + intros [Hl Hb]. pose proof (i_trk _ _ _ _ _ _ _ _ _ H w) as Htr.
          destruct (nth_error (c_ws s) w) as [k|] eqn:Hk.
          * destruct (i_other _ _ _ _ _ _ _ _ _ H w k Hk) as [Hin|[r Hc]].
            -- unfold allw in Hin. cbn [curw app] in Hin. exact Hin.
            -- rewrite Htr, Hc in Hb. discriminate.
          * rewrite Htr in Hb. discriminate. }
    rewrite Hal. rewrite (i_run _ _ _ _ _ _ _ _ _ H) in Hmx. unfold allw in Hmx. cbn [curw app] in Hmx. lia.
  Qed.

  (** * One pass, as an operation *)
  Lemma nodup_bound (l : list nat) n : NoDup l -> (forall x, In x l -> x < n)%nat -> (length l <= n)%nat.
  Proof.
    intros Hnd Hlt. rewrite <- (seq_length n 0). apply NoDup_incl_length; [exact Hnd|].
    intros x Hx. apply in_seq. specialize (Hlt x Hx). lia.
  Qed.

  Lemma nwk_le s R : (nwk s R <= length R)%nat.
  Proof. unfold nwk. induction R as [|x R0 IHR]; [cbn; lia|]. cbn [filter length]. destruct (wokenb s x); cbn [length]; lia. Qed.

  Lemma mu_lt_fuel s d tr Q R :
    INV mx specs s d tr None None Q R -> (mu s d Q R < pass_fuel_p (mkx mx s))%nat.
  Proof.
    intro H. rewrite pass_fuel_p_mkx, wfuel_mkx. unfold mu, mm.
    assert (length Q <= length (c_tb s))%nat as HQ.
    { apply nodup_bound; [apply (i_Qnd _ _ _ _ _ _ _ _ _ H)|]. intros t Ht.
      rewrite (i_tb _ _ _ _ _ _ _ _ _ H), map_length. apply (i_Qst _ _ _ _ _ _ _ _ _ H), Ht. }
    assert (length R + length (sd_sys_suspend d) <= length (c_ws s))%nat as HW.
    { pose proof (nodup_bound _ _ (i_nd _ _ _ _ _ _ _ _ _ H) (i_lt _ _ _ _ _ _ _ _ _ H)) as Hx.
      unfold allw, parked_ws in Hx. cbn [curw app] in Hx. rewrite app_length, map_length in Hx. exact Hx. }
    pose proof (nwk_le s R) as HN.
    set (a := fold_right Nat.add 0%nat (map (fun b : list instr => S (S (length b))) (c_tb s))).
    nia.
  Qed.

  Lemma pass_fuel_pos x : exists f, pass_fuel_p x = S f.
  Proof.
    assert (0 < pass_fuel_p x)%nat as H by (unfold pass_fuel_p; destruct (keep_rounds x); cbv zeta; nia).
    destruct (pass_fuel_p x); [lia | eexists; reflexivity].
  Qed.

  Lemma frame_clock s s' : frame s s' -> c_clock s' = c_clock s.
  Proof. intros [A _]. exact A. Qed.

  Lemma ppass_inv s tr Q R dl :
    INV mx specs s (c_d s) tr None None Q R ->
    exists s' l e Q' R',
      ppass (mkx mx s) 0 dl = (mkx mx s', PLeft l, e) /\ frame s s' /\
      INV mx specs s' (c_d s') (fold_left pev15 e tr) None None Q' R' /\
      (0 < l -> R' = [] /\ no_due s' (c_d s') /\ GG mx s' Q' []) /\ l = sat_sub dl (c_clock s).
  Proof.
    intro H.
    destruct (inv_grow mx specs s (c_d s) tr None None Q R H) as (R0 & H0 & _ & HG0).
    assert (c_d (grow mx s) = c_d s) as Hd.
    { unfold grow. destruct (full_len (c_tq s) =? 0); [reflexivity|]. destruct (mx <=? c_run s); reflexivity. }
    pose proof (frame_grow mx s) as Hfr0.
    destruct (Z.eq_dec (sat_sub dl (c_clock (grow mx s))) 0) as [Hcut|Hlive].
    - (* the deadline has passed already *)
      destruct (pass_fuel_pos (mkx mx (grow mx s))) as [f Hf].
      assert (sd_suspend (c_d (grow mx s)) = []) as Hsusp by (rewrite Hd; apply (i_susp _ _ _ _ _ _ _ _ _ H)).
      pose proof (dsch_cut mx (grow mx s) (c_d (grow mx s)) dl f [] [] Hcut) as Hc. rewrite <- Hf in Hc.
      rewrite (ppass_mk mx s dl _ _ _ _ _ Hc).
      exists (s_d (grow mx s) (c_d (grow mx s))), 0, [], Q, R0. split; [reflexivity|].
      split; [eapply frame_trans; [exact Hfr0 | split; reflexivity]|].
      split; [cbn [fold_left c_d s_d]; rewrite Hd; eapply inv_same; [..|exact H0]; reflexivity|].
      split; [lia|]. rewrite <- (frame_clock _ _ Hfr0). symmetry. exact Hcut.
    - destruct (pass_loop dl (pass_fuel_p (mkx mx (grow mx s))) (grow mx s) (c_d s) tr Q R0 [] [] H0 HG0 Hlive (mu_lt_fuel _ _ _ _ _ H0))
        as (s' & d' & e & res' & Q' & Heq & H1 & Hnd1 & HG1 & Hfr1).
      rewrite <- Hd in Heq at 1. cbn [app] in Heq.
      rewrite (ppass_mk mx s dl _ _ _ _ _ Heq).
      exists (s_d s' d'), (sat_sub dl (c_clock (grow mx s))), e, Q', []. split; [reflexivity|].
      split; [eapply frame_trans; [exact Hfr0|]; eapply frame_trans; [exact Hfr1 | split; reflexivity]|].
      split; [cbn [c_d s_d]; eapply inv_same; [..|exact H1]; reflexivity|].
      split; [intros _; split; [reflexivity|]; split; [exact Hnd1 | exact HG1]|].
      rewrite (frame_clock _ _ Hfr0). reflexivity.
  Qed.
End Pass.
