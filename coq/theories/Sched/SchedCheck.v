(** [check_ready] in lock step with the tracker: due suspend-heap entries become Ready, due
    syscall-suspend entries time out (or are stale and dropped); never an error or a panic;
    afterwards every entry of both heaps is in the future. *)
From OCV Require Import Base.Prelude Misc.Time Queue.PMap Queue.OWS Coroutine.Co Coroutine.CoOracle
  Coroutine.CoLemmas Sched.Sched Sched.SchedOracle Sched.SchedWf Sched.SchedQueue Sched.SchedBase
  Sched.SchedTrk Sched.SchedRun Sched.SchedInv.
From Coq Require Import ZifyBool ZifyNat.
Open Scope Z_scope.

Notation cs := (check_suspend world w_clock w_state w_change w_push).
Notation cy := (check_sys world w_clock w_state w_change w_push).
Notation cr := (check_ready world w_clock w_state w_change w_push).

Lemma rdy_with_thr w t : rdy (with_thr w t) = rdy w. Proof. reflexivity. Qed.

Ltac views := unfold S_R, S_H, S_Y, S_SH, S_C, S_thr, S_cos in *;
              cbn [sc_w sc_d sd_suspend sd_syscall sd_sys_suspend sd_gone] in *.

(** the state after "change the state of [i], then push it" *)
Definition chg_push (s : sched) (i : nat) (c : co) (new : cstate) (d' : sdata) : sched :=
  {| sc_w := w_push (with_thr (sc_w s) (upd_co (w_thr (sc_w s)) i (with_st c new))) i; sc_d := d' |}.

Lemma chg_push_R s i c new d' j :
  qok (w_q (sc_w s)) -> cn j (S_R (chg_push s i c new d')) = (one_if i j + cn j (S_R s))%nat.
Proof.
  intro Hq. unfold chg_push, S_R. cbn [sc_w].
  destruct (w_push_spec (with_thr (sc_w s) (upd_co (w_thr (sc_w s)) i (with_st c new))) i Hq) as [_ H].
  rewrite H, rdy_with_thr. reflexivity.
Qed.

Lemma chg_push_qok s i c new d' : qok (w_q (sc_w s)) -> qok (w_q (sc_w (chg_push s i c new d'))).
Proof.
  intro Hq. unfold chg_push. cbn [sc_w].
  apply (w_push_spec (with_thr (sc_w s) (upd_co (w_thr (sc_w s)) i (with_st c new))) i Hq).
Qed.

Definition d_rm_suspend (d : sdata) (e : Z * nat) : sdata :=
  {| sd_suspend := heap_remove e (sd_suspend d); sd_syscall := sd_syscall d;
     sd_sys_suspend := sd_sys_suspend d; sd_gone := sd_gone d |}.

Lemma cs_step nl s clk ks ts i :
  (1 <= nl)%nat -> ginv nl s clk ks -> heap_min (S_H s) = Some (ts, i) -> ts <= clk ->
  exists c,
    nth_error (S_cos s) i = Some c /\
    co_ready world w_clock w_state w_change (sc_w s) i = Some (w_change (sc_w s) i Ready) /\
    w_change (sc_w s) i Ready
    = (with_thr (sc_w s) (upd_co (w_thr (sc_w s)) i (with_st c Ready)),
       change_events nl i (c_st c) Ready) /\
    (forall fins, fold_left sev (change_events nl i (c_st c) Ready) (mkT clk ks, fins)
                  = (mkT clk (set_nth i (kst (gk ks i) Ready) ks), fins)) /\
    ginv nl (chg_push s i c Ready (d_rm_suspend (sc_d s) (ts, i))) clk (set_nth i (kst (gk ks i) Ready) ks) /\
    mu (S_cos (chg_push s i c Ready (d_rm_suspend (sc_d s) (ts, i)))) = mu (S_cos s).
Proof.
  intros Hnl G Hmin Hle.
  pose proof (heap_min_in _ _ Hmin) as Hin.
  pose proof (cn_snd_In _ _ _ Hin) as Hcn.
  pose proof (ginv_lt_H _ _ _ _ _ G Hcn) as Hlt.
  destruct (nth_error (S_cos s) i) as [c|] eqn:Hn; [|apply nth_error_None in Hn; lia].
  destruct (ginv_co _ _ _ _ _ _ G Hn) as (Hst & Hm & Hco).
  destruct (costat_heap _ _ _ _ _ Hco Hcn) as (y & ts' & Hp & Hcm & Hs & Hin' & Hw).
  assert (ts' = ts) as -> by (destruct Hp as (_ & A & _); eapply cn_snd_unique; eassumption).
  pose proof (g_clock _ _ _ _ G) as Hclk. pose proof (g_nl _ _ _ _ G) as Hnl'.
  pose proof (g_len _ _ _ _ G) as Hlen. pose proof (g_q _ _ _ _ G) as Hq.
  exists c. split; [reflexivity|]. split; [|split; [|split; [|split]]].
  - unfold co_ready, w_state. unfold S_cos in Hn. rewrite Hn. cbn [option_map]. rewrite Hs. cbn [tr_ready].
    unfold w_clock. unfold S_thr in Hclk. rewrite Hclk.
    assert (ts <=? clk = true) as -> by lia. reflexivity.
  - rewrite (w_change_some _ _ _ _ Hn). unfold S_thr in Hnl'. rewrite Hnl'. reflexivity.
  - intro fins. apply sev_change_events; [exact Hnl | lia | exact Hm].
  - eapply (ginv_update nl s clk ks _ clk i (with_st c Ready) (kst (gk ks i) Ready) G);
      try reflexivity; try assumption; try lia.
    + apply (g_u64 _ _ _ _ G).
    + apply (g_ts _ _ _ _ G).
    + apply (g_cn _ _ _ _ G).
    + apply chg_push_qok, Hq.
    + intros j Hne. unfold agree. rewrite chg_push_R by exact Hq. rewrite one_if_diff by congruence.
      unfold chg_push, d_rm_suspend. views.
      pose proof (cn_heap_remove ts i j _ Hin) as Hr. rewrite one_if_diff in Hr by congruence.
      repeat split; try lia; auto.
      intros t Ht. apply heap_remove_keep; [congruence | exact Ht].
    + destruct Hp as (P1 & P2 & P3). destruct Hcm as (C1 & C2 & C3 & C4).
      apply CS_ready.
      * unfold at_place. rewrite chg_push_R by exact Hq. rewrite one_if_same.
        unfold chg_push, d_rm_suspend. views.
        pose proof (cn_heap_remove ts i i _ Hin) as Hr. rewrite one_if_same in Hr.
        repeat split; lia.
      * unfold common. cbn [kst q_fin q_cancel with_st c_dead c_st c_body nxt].
        rewrite Hs in C3. cbn [nxt] in C3. repeat split; assumption.
      * exact I.
      * cbn [kst q_wake]. intros w E. specialize (Hw w E). lia.
  - unfold chg_push. views. cbn [with_thr w_push w_thr upd_co t_cos].
    pose proof (mu_set_nth _ _ _ (with_st c Ready) Hn) as Hmu.
    unfold wt in Hmu. cbn [with_st c_st c_body] in Hmu. rewrite Hs in Hmu. cbn [is_terminal] in Hmu. lia.
Qed.

Definition all_future (clk : Z) (l : list (Z * nat)) : Prop := forall t j, In (t, j) l -> clk < t.

Lemma cs_loop nl : (1 <= nl)%nat -> forall fuel s clk ks,
  ginv nl s clk ks -> (length (S_H s) < fuel)%nat ->
  exists w' d' e ks',
    cs fuel (sc_w s) (sc_d s) [] = COk world w' d' e /\
    (forall fins, fold_left sev e (mkT clk ks, fins) = (mkT clk ks', fins)) /\
    ginv nl {| sc_w := w'; sc_d := d' |} clk ks' /\
    mu (t_cos (w_thr w')) = mu (S_cos s) /\
    all_future clk (sd_suspend d') /\ sd_sys_suspend d' = S_SH s /\ length ks' = length ks.
Proof.
  intro Hnl. induction fuel as [|f IH]; intros s clk ks G Hlen; [lia|].
  cbn [check_suspend]. fold (S_H s).
  destruct (heap_min (S_H s)) as [[ts i]|] eqn:Hmin.
  - pose proof (g_clock _ _ _ _ G) as Hclk. unfold S_thr in Hclk.
    change (w_clock (sc_w s)) with (t_clock (w_thr (sc_w s))). rewrite Hclk.
    destruct (clk <? ts) eqn:Elt.
    + exists (sc_w s), (sc_d s), [], ks.
      assert ({| sc_w := sc_w s; sc_d := sc_d s |} = s) as Es by (destruct s; reflexivity). rewrite Es.
      split; [reflexivity|]. split; [intro; reflexivity|]. split; [exact G|]. split; [reflexivity|].
      split; [|split; reflexivity].
      intros t j Hin. pose proof (heap_min_le _ _ _ Hmin t j Hin). lia.
    + destruct (cs_step nl s clk ks ts i Hnl G Hmin ltac:(lia)) as (c & Hn & Hcr & Hwc & Hfold & G' & Hmu).
      rewrite Hcr, Hwc. cbn [app].
      rewrite check_suspend_acc.
      pose proof (heap_min_in _ _ Hmin) as Hin.
      specialize (IH (chg_push s i c Ready (d_rm_suspend (sc_d s) (ts, i))) clk _ G').
      destruct IH as (w' & d' & e & ks' & Hcs & Hf' & G'' & Hmu' & Hfut & Hsh & HL).
      { unfold chg_push, d_rm_suspend. views. pose proof (heap_remove_length _ _ Hin). lia. }
      unfold chg_push in Hcs at 1 2. cbn [sc_w sc_d] in Hcs. unfold d_rm_suspend in Hcs.
      unfold S_H. rewrite Hcs. cbn [cres_app].
      exists w', d', (change_events nl i (c_st c) Ready ++ e), ks'.
      split; [reflexivity|]. split; [|split; [exact G''|split; [|split; [|split]]]].
      * intro fins. rewrite fold_left_app, Hfold. apply Hf'.
      * rewrite Hmu'. exact Hmu.
      * exact Hfut.
      * rewrite Hsh. reflexivity.
      * rewrite HL. apply set_nth_length.
  - exists (sc_w s), (sc_d s), [], ks.
    assert ({| sc_w := sc_w s; sc_d := sc_d s |} = s) as Es by (destruct s; reflexivity). rewrite Es.
    apply heap_min_none in Hmin.
    split; [reflexivity|]. split; [intro; reflexivity|]. split; [exact G|]. split; [reflexivity|].
    split; [|split; reflexivity].
    intros t j Hin. unfold S_H in Hmin. rewrite Hmin in Hin. destruct Hin.
Qed.

(** * waking a coroutine parked in the syscall map (timeout, or [try_resume]) *)

Lemma sys_wake nl s clk ks i st' d' :
  (1 <= nl)%nat -> ginv nl s clk ks -> (cn i (S_Y s) > 0)%nat -> st' = STimeout \/ st' = SCallback ->
  sd_suspend d' = S_H s -> sd_syscall d' = remove_nat i (S_Y s) ->
  (forall j t, j <> i -> In (t, j) (S_SH s) -> In (t, j) (sd_sys_suspend d')) ->
  exists c y n t',
    nth_error (S_cos s) i = Some c /\ c_st c = Syscall y n (SSuspend t') /\
    (forall fins, fold_left sev (change_events nl i (c_st c) (Syscall y n st')) (mkT clk ks, fins)
                  = (mkT clk (set_nth i (kst (gk ks i) (Syscall y n st')) ks), fins)) /\
    ginv nl (chg_push s i c (Syscall y n st') d') clk (set_nth i (kst (gk ks i) (Syscall y n st')) ks) /\
    mu (S_cos (chg_push s i c (Syscall y n st') d')) = mu (S_cos s).
Proof.
  intros Hnl G Hcn Hst' HdH HdY HdSH.
  pose proof (ginv_lt_Y _ _ _ _ _ G Hcn) as Hlt.
  destruct (nth_error (S_cos s) i) as [c|] eqn:Hn; [|apply nth_error_None in Hn; lia].
  destruct (ginv_co _ _ _ _ _ _ G Hn) as (Hst & Hm & Hco).
  destruct (costat_sys _ _ _ _ _ Hco Hcn) as (y & n & t' & Hp & Hcm & Hs & Hin' & Hw).
  pose proof (g_len _ _ _ _ G) as Hlen. pose proof (g_q _ _ _ _ G) as Hq.
  exists c, y, n, t'. split; [reflexivity|]. split; [exact Hs|]. split; [|split].
  - intro fins. apply sev_change_events; [exact Hnl | lia | exact Hm].
  - eapply (ginv_update nl s clk ks _ clk i (with_st c (Syscall y n st')) (kst (gk ks i) (Syscall y n st')) G);
      try reflexivity; try assumption; try lia.
    + apply (g_clock _ _ _ _ G).
    + apply (g_u64 _ _ _ _ G).
    + apply (g_ts _ _ _ _ G).
    + apply (g_cn _ _ _ _ G).
    + apply (g_nl _ _ _ _ G).
    + apply chg_push_qok, Hq.
    + intros j Hne. unfold agree. rewrite chg_push_R by exact Hq. rewrite one_if_diff by congruence.
      unfold chg_push. views. rewrite HdH, HdY.
      pose proof (cn_remove_nat i j _ Hcn) as Hr. rewrite one_if_diff in Hr by congruence.
      repeat split; try lia; auto.
    + destruct Hp as (P1 & P2 & P3). destruct Hcm as (C1 & C2 & C3 & C4).
      apply CS_ready.
      * unfold at_place. rewrite chg_push_R by exact Hq. rewrite one_if_same.
        unfold chg_push. views. rewrite HdH, HdY.
        pose proof (cn_remove_nat i i _ Hcn) as Hr. rewrite one_if_same in Hr.
        repeat split; lia.
      * unfold common. cbn [kst q_fin q_cancel with_st c_dead c_st c_body nxt].
        rewrite Hs in C3. cbn [nxt] in C3. repeat split; assumption.
      * cbn [with_st c_st runnable]. destruct Hst' as [-> | ->]; exact I.
      * cbn [kst q_wake]. rewrite Hw. discriminate.
  - unfold chg_push. views. cbn [with_thr w_push w_thr upd_co t_cos].
    pose proof (mu_set_nth _ _ _ (with_st c (Syscall y n st')) Hn) as Hmu.
    unfold wt in Hmu. cbn [with_st c_st c_body] in Hmu. rewrite Hs in Hmu. cbn [is_terminal] in Hmu. lia.
Qed.

Definition d_timeout (d : sdata) (e : Z * nat) (i : nat) : sdata :=
  {| sd_suspend := sd_suspend d; sd_syscall := remove_nat i (sd_syscall d);
     sd_sys_suspend := heap_remove e (sd_sys_suspend d); sd_gone := sd_gone d |}.
Definition d_stale (d : sdata) (e : Z * nat) : sdata :=
  {| sd_suspend := sd_suspend d; sd_syscall := sd_syscall d;
     sd_sys_suspend := heap_remove e (sd_sys_suspend d); sd_gone := sd_gone d |}.

Lemma cy_step_stale nl s clk ks ts i :
  ginv nl s clk ks -> mem_nat i (S_Y s) = false ->
  ginv nl {| sc_w := sc_w s; sc_d := d_stale (sc_d s) (ts, i) |} clk ks.
Proof.
  intros G Hmem. apply mem_nat_false_cn in Hmem.
  eapply (ginv_frame nl s clk ks _ clk G); try reflexivity; try lia.
  - apply (g_clock _ _ _ _ G).
  - apply (g_u64 _ _ _ _ G).
  - apply (g_ts _ _ _ _ G).
  - apply (g_cn _ _ _ _ G).
  - apply (g_nl _ _ _ _ G).
  - apply (g_q _ _ _ _ G).
  - intro j. unfold agree, d_stale. views. repeat split; auto.
    intros Hj t Ht. apply heap_remove_keep; [|exact Ht].
    intro E. injection E as -> ->. apply cn_In in Hj. lia.
Qed.

Lemma cy_loop nl : (1 <= nl)%nat -> forall fuel s clk ks,
  ginv nl s clk ks -> (length (S_SH s) < fuel)%nat ->
  exists w' d' e ks',
    cy fuel (sc_w s) (sc_d s) [] = COk world w' d' e /\
    (forall fins, fold_left sev e (mkT clk ks, fins) = (mkT clk ks', fins)) /\
    ginv nl {| sc_w := w'; sc_d := d' |} clk ks' /\
    mu (t_cos (w_thr w')) = mu (S_cos s) /\
    all_future clk (sd_sys_suspend d') /\ sd_suspend d' = S_H s /\ length ks' = length ks.
Proof.
  intro Hnl. induction fuel as [|f IH]; intros s clk ks G Hlen; [lia|].
  assert ({| sc_w := sc_w s; sc_d := sc_d s |} = s) as Es by (destruct s; reflexivity).
  cbn [check_sys]. fold (S_SH s).
  destruct (heap_min (S_SH s)) as [[ts i]|] eqn:Hmin.
  - pose proof (g_clock _ _ _ _ G) as Hclk. unfold S_thr in Hclk.
    change (w_clock (sc_w s)) with (t_clock (w_thr (sc_w s))). rewrite Hclk.
    destruct (clk <? ts) eqn:Elt.
    + exists (sc_w s), (sc_d s), [], ks. rewrite Es.
      split; [reflexivity|]. split; [intro; reflexivity|]. split; [exact G|]. split; [reflexivity|].
      split; [|split; reflexivity].
      intros t j Hin. pose proof (heap_min_le _ _ _ Hmin t j Hin). lia.
    + pose proof (heap_min_in _ _ Hmin) as Hin.
      cbn [sd_syscall sd_suspend sd_sys_suspend sd_gone]. fold (S_Y s).
      destruct (mem_nat i (S_Y s)) eqn:Hmem.
      * apply mem_nat_cn in Hmem.
        destruct (sys_wake nl s clk ks i STimeout (d_timeout (sc_d s) (ts, i) i) Hnl G Hmem (or_introl eq_refl)
                    eq_refl eq_refl) as (c & y & n & t' & Hn & Hs & Hfold & G' & Hmu).
        { intros j t Hne Ht. unfold d_timeout. cbn [sd_sys_suspend]. apply heap_remove_keep; [congruence | exact Ht]. }
        change (w_state (sc_w s) i) with (option_map c_st (nth_error (t_cos (w_thr (sc_w s))) i)).
        unfold S_cos in Hn. rewrite Hn. cbn [option_map]. rewrite Hs.
        rewrite (w_change_some _ _ _ _ Hn).
        pose proof (g_nl _ _ _ _ G) as Hnl'. unfold S_thr in Hnl'. rewrite Hnl'. cbn [app].
        rewrite check_sys_acc.
        specialize (IH (chg_push s i c (Syscall y n STimeout) (d_timeout (sc_d s) (ts, i) i)) clk _ G').
        destruct IH as (w' & d' & e & ks' & Hcs & Hf' & G'' & Hmu' & Hfut & Hsh & HL).
        { unfold chg_push, d_timeout. views. pose proof (heap_remove_length _ _ Hin). lia. }
        unfold chg_push in Hcs at 1 2. cbn [sc_w sc_d] in Hcs. unfold d_timeout in Hcs.
        unfold S_SH, S_Y. rewrite Hcs. cbn [cres_app].
        exists w', d', (change_events nl i (c_st c) (Syscall y n STimeout) ++ e), ks'.
        split; [reflexivity|]. split; [|split; [exact G''|split; [|split; [|split]]]].
        -- intro fins. rewrite fold_left_app, Hfold. apply Hf'.
        -- rewrite Hmu'. exact Hmu.
        -- exact Hfut.
        -- rewrite Hsh. reflexivity.
        -- rewrite HL. apply set_nth_length.
      * pose proof (cy_step_stale nl s clk ks ts i G Hmem) as G'.
        specialize (IH _ clk ks G').
        destruct IH as (w' & d' & e & ks' & Hcs & Hf' & G'' & Hmu' & Hfut & Hsh & HL).
        { unfold d_stale. views. pose proof (heap_remove_length _ _ Hin). lia. }
        cbn [sc_w sc_d] in Hcs. unfold d_stale in Hcs. unfold S_SH, S_Y. rewrite Hcs.
        exists w', d', e, ks'.
        split; [reflexivity|]. split; [exact Hf'|]. split; [exact G''|]. split; [exact Hmu'|].
        split; [exact Hfut | split; [exact Hsh | exact HL]].
  - exists (sc_w s), (sc_d s), [], ks. rewrite Es.
    apply heap_min_none in Hmin.
    split; [reflexivity|]. split; [intro; reflexivity|]. split; [exact G|]. split; [reflexivity|].
    split; [|split; reflexivity].
    intros t j Hin. unfold S_SH in Hmin. rewrite Hmin in Hin. destruct Hin.
Qed.

Lemma cr_spec nl : (1 <= nl)%nat -> forall s clk ks,
  ginv nl s clk ks ->
  exists w' d' e ks',
    cr (sc_w s) (sc_d s) [] = COk world w' d' e /\
    (forall fins, fold_left sev e (mkT clk ks, fins) = (mkT clk ks', fins)) /\
    ginv nl {| sc_w := w'; sc_d := d' |} clk ks' /\
    mu (t_cos (w_thr w')) = mu (S_cos s) /\
    all_future clk (sd_suspend d') /\ all_future clk (sd_sys_suspend d') /\ length ks' = length ks.
Proof.
  intros Hnl s clk ks G. unfold check_ready.
  destruct (cs_loop nl Hnl (S (length (S_H s))) s clk ks G ltac:(lia))
    as (w1 & d1 & e1 & ks1 & Hcs & Hf1 & G1 & Hmu1 & Hfut1 & Hsh1 & HL1).
  fold (S_H s). rewrite Hcs. rewrite check_sys_acc.
  destruct (cy_loop nl Hnl (S (length (sd_sys_suspend d1))) {| sc_w := w1; sc_d := d1 |} clk ks1 G1 ltac:(views; lia))
    as (w2 & d2 & e2 & ks2 & Hcy & Hf2 & G2 & Hmu2 & Hfut2 & Hh2 & HL2).
  cbn [sc_w sc_d] in Hcy. rewrite Hcy. cbn [cres_app].
  exists w2, d2, (e1 ++ e2), ks2.
  split; [reflexivity|]. split; [|split; [exact G2|split; [|split; [|split]]]].
  - intro fins. rewrite fold_left_app, Hf1. apply Hf2.
  - rewrite Hmu2. unfold S_cos. cbn [sc_w]. exact Hmu1.
  - rewrite Hh2. unfold S_H. cbn [sc_d]. exact Hfut1.
  - exact Hfut2.
  - congruence.
Qed.
