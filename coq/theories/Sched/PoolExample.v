(** A non-trivial single-pool history: the premise holds, and the oracle accepts the model's run. *)
From OCV Require Import Base.Prelude Misc.Time Queue.PMap Queue.OWS Coroutine.Co Coroutine.CoOracle Sched.Sched Sched.Pool Sched.PoolOracle.
From OCV Require Import Sched.PoolWf Sched.PoolJOps2 Sched.PoolRun Sched.PoolProofs.
Open Scope Z_scope.

(** a hooked sleep, as the generator emits it *)
Definition hooked_sleep (n t : Z) : list instr :=
  [ISyscall 0 n SExecuting; ISyscall 0 n (SSuspend t); IUntil 0 t; ISyscall 0 n SExecuting; IRunning].

Definition ex_cfg : Z * Z * Z := (0, 2, 0).

Definition ex_ops : list pop :=
  [ PSubmit 0 [ILog 1; ISuspend 0; ITick 5; IReturn 7] None;                         (* 0: suspends, returns *)
    PSubmit 0 (ILog 2 :: hooked_sleep 9 100 ++ [IDelay 0 50; IPanic (PStatic 3)]) (Some 1);   (* 1: sleeps, delays, panics *)
    PSubmit 0 [IReturn 1] None;                                                      (* 2: cancelled before it starts *)
    PSubmit 0 [IUntil 0 1000000000; IReturn 4] None;                                 (* 3: cancelled while suspended *)
    PCancel 2;
    PWait 0 0;                                                                       (* registered before it ran *)
    PGetRunning 0; PSize 0; PGetState 0;
    PPass 0 50;
    PGetRunning 0;
    PWait 0 0; PTake 0 0;
    PClock 120;
    PPass 0 200;
    PWait 0 2;                                                                       (* the cancelled-before-start error *)
    PCancel 3;
    PClean 0 1;
    PClock 400;
    PPass 0 1000;
    PWait 0 1; PWait 0 3;
    PSubmit 0 [] None;                                                               (* 4: empty body *)
    PStop 0 2000000;                                                                 (* times out: worker of task 3 sleeps *)
    PGetState 0; PSubmit 0 [IReturn 9] None;                                         (* rejected *)
    PClock 1000000001;
    PStop 0 3000000;                                                                 (* succeeds *)
    PGetState 0; PGetRunning 0; PWait 0 4; PTake 0 4; PPass 0 U64MAX; PStop 0 0 ].

Example ex_wf : wf_pool1 0 ex_cfg ex_ops = true.
Proof. vm_compute. reflexivity. Qed.

Example ex_flags :
  let t := fst (self_flags 0 [ex_cfg] ex_ops) in
  (po_c01 t, po_c02 t, po_c11 t, po_c12 t, po_c13 t, snd (self_flags 0 [ex_cfg] ex_ops)) = (true, true, true, true, true, true).
Proof. vm_compute. reflexivity. Qed.

Example ex_extra : nodiv (pw0 0 [ex_cfg]) ex_ops = true /\ stops_prompt 2 (pw0 0 [ex_cfg]) (potr0 0 1) ex_ops = true.
Proof. vm_compute. split; reflexivity. Qed.

(** what the model observes (for the reader) *)
Eval vm_compute in cut_div (canon_obs [] (prun (pw0 0 [ex_cfg]) ex_ops)).
