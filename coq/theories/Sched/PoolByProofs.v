(** The bystander oracle (the "no other task" half of C13) accepts every single-pool history of the model. *)
From OCV Require Import Base.Prelude Misc.Time Queue.PMap Queue.OWS Coroutine.Co Coroutine.CoOracle Sched.Sched Sched.Pool Sched.PoolOracle Sched.PoolBystander Sched.PoolBase Sched.PoolWf Sched.PoolJ Sched.PoolJSched Sched.PoolRun Sched.PoolBy Sched.PoolByOps Sched.PoolByCanon Sched.PoolExample.
Open Scope Z_scope.

Lemma BI_init ws : BI ws by0.
Proof. constructor; [constructor | intros w i H; discriminate | reflexivity]. Qed.

Lemma BR_init clock n : BR (potr0 clock n) by0.
Proof. intros i H. unfold tkn in H. cbn [potr0 po_tasks] in H. destruct i; discriminate. Qed.

(** on the raw observations (the model's own worker ids) *)
Theorem bystander_raw1 : forall clock cfg ops, wf_pool1 clock cfg ops = true ->
  bystander_ok ops (cut_div (prun (pw0 clock [cfg]) ops)) = true.
Proof.
  intros clock cfg ops Hwf. unfold wf_pool1 in Hwf. apply andb_true_iff in Hwf as [Hcfg Hhist].
  unfold bystander_ok.
  apply (run_B (snd (fst cfg)) (snd cfg) ops (pw0 clock [cfg]) (potr0 clock 1) false by0 (Jop_init clock cfg Hcfg) Hhist (BI_init _) (BR_init _ _)).
Qed.

(** on the observations as the harness sees them (worker ids renamed by first appearance) *)
Theorem bystander_model1 : forall clock cfg ops, wf_pool1 clock cfg ops = true ->
  bystander_ok ops (cut_div (canon_obs [] (prun (pw0 clock [cfg]) ops))) = true.
Proof. intros clock cfg ops Hwf. rewrite bystander_canon. apply bystander_raw1, Hwf. Qed.

(** the example history of PoolExample (it cancels task 3 while its worker is suspended) *)
Example ex_bystander : bystander_ok ex_ops (cut_div (canon_obs [] (prun (pw0 0 [ex_cfg]) ex_ops))) = true.
Proof. vm_compute. reflexivity. Qed.

Print Assumptions bystander_raw1.
Print Assumptions bystander_model1.
