(** Projection lemmas for the record updates of [Sched.Pool], and small facts about the list
    helpers the pool model uses. No reasoning about the runtime here. *)
From OCV Require Import Base.Prelude Misc.Time Queue.PMap Queue.OWS Coroutine.Co Coroutine.CoLemmas Sched.Sched Sched.Pool.
From Coq Require Import ZifyBool ZifyNat.
Open Scope Z_scope.

Lemma pw_clock_set_pools x ps : pw_clock (set_pools x ps) = pw_clock x. Proof. reflexivity. Qed.
Lemma pw_ts_set_pools x ps : pw_ts (set_pools x ps) = pw_ts x. Proof. reflexivity. Qed.
Lemma pw_cn_set_pools x ps : pw_cn (set_pools x ps) = pw_cn x. Proof. reflexivity. Qed.
Lemma pw_workers_set_pools x ps : pw_workers (set_pools x ps) = pw_workers x. Proof. reflexivity. Qed.
Lemma pw_wpool_set_pools x ps : pw_wpool (set_pools x ps) = pw_wpool x. Proof. reflexivity. Qed.
Lemma pw_tq_set_pools x ps : pw_tq (set_pools x ps) = pw_tq x. Proof. reflexivity. Qed.
Lemma pw_cq_set_pools x ps : pw_cq (set_pools x ps) = pw_cq x. Proof. reflexivity. Qed.
Lemma pw_tbody_set_pools x ps : pw_tbody (set_pools x ps) = pw_tbody x. Proof. reflexivity. Qed.
Lemma pw_tprio_set_pools x ps : pw_tprio (set_pools x ps) = pw_tprio x. Proof. reflexivity. Qed.
Lemma pw_pools_set_pools x ps : pw_pools (set_pools x ps) = ps. Proof. reflexivity. Qed.
Lemma pw_cur_set_pools x ps : pw_cur (set_pools x ps) = pw_cur x. Proof. reflexivity. Qed.
Lemma pw_cancel_tasks_set_pools x ps : pw_cancel_tasks (set_pools x ps) = pw_cancel_tasks x. Proof. reflexivity. Qed.
Lemma pw_cancel_cos_set_pools x ps : pw_cancel_cos (set_pools x ps) = pw_cancel_cos x. Proof. reflexivity. Qed.
Lemma pw_running_tasks_set_pools x ps : pw_running_tasks (set_pools x ps) = pw_running_tasks x. Proof. reflexivity. Qed.
Lemma pw_spin_set_pools x ps : pw_spin (set_pools x ps) = pw_spin x. Proof. reflexivity. Qed.
Lemma pw_tpool_set_pools x ps : pw_tpool (set_pools x ps) = pw_tpool x. Proof. reflexivity. Qed.
Lemma pw_defects_set_pools x ps : pw_defects (set_pools x ps) = pw_defects x. Proof. reflexivity. Qed.
Lemma pw_clock_set_workers x ws : pw_clock (set_workers x ws) = pw_clock x. Proof. reflexivity. Qed.
Lemma pw_ts_set_workers x ws : pw_ts (set_workers x ws) = pw_ts x. Proof. reflexivity. Qed.
Lemma pw_cn_set_workers x ws : pw_cn (set_workers x ws) = pw_cn x. Proof. reflexivity. Qed.
Lemma pw_workers_set_workers x ws : pw_workers (set_workers x ws) = ws. Proof. reflexivity. Qed.
Lemma pw_wpool_set_workers x ws : pw_wpool (set_workers x ws) = pw_wpool x. Proof. reflexivity. Qed.
Lemma pw_tq_set_workers x ws : pw_tq (set_workers x ws) = pw_tq x. Proof. reflexivity. Qed.
Lemma pw_cq_set_workers x ws : pw_cq (set_workers x ws) = pw_cq x. Proof. reflexivity. Qed.
Lemma pw_tbody_set_workers x ws : pw_tbody (set_workers x ws) = pw_tbody x. Proof. reflexivity. Qed.
Lemma pw_tprio_set_workers x ws : pw_tprio (set_workers x ws) = pw_tprio x. Proof. reflexivity. Qed.
Lemma pw_pools_set_workers x ws : pw_pools (set_workers x ws) = pw_pools x. Proof. reflexivity. Qed.
Lemma pw_cur_set_workers x ws : pw_cur (set_workers x ws) = pw_cur x. Proof. reflexivity. Qed.
Lemma pw_cancel_tasks_set_workers x ws : pw_cancel_tasks (set_workers x ws) = pw_cancel_tasks x. Proof. reflexivity. Qed.
Lemma pw_cancel_cos_set_workers x ws : pw_cancel_cos (set_workers x ws) = pw_cancel_cos x. Proof. reflexivity. Qed.
Lemma pw_running_tasks_set_workers x ws : pw_running_tasks (set_workers x ws) = pw_running_tasks x. Proof. reflexivity. Qed.
Lemma pw_spin_set_workers x ws : pw_spin (set_workers x ws) = pw_spin x. Proof. reflexivity. Qed.
Lemma pw_tpool_set_workers x ws : pw_tpool (set_workers x ws) = pw_tpool x. Proof. reflexivity. Qed.
Lemma pw_defects_set_workers x ws : pw_defects (set_workers x ws) = pw_defects x. Proof. reflexivity. Qed.
Lemma pw_clock_set_tq x q : pw_clock (set_tq x q) = pw_clock x. Proof. reflexivity. Qed.
Lemma pw_ts_set_tq x q : pw_ts (set_tq x q) = pw_ts x. Proof. reflexivity. Qed.
Lemma pw_cn_set_tq x q : pw_cn (set_tq x q) = pw_cn x. Proof. reflexivity. Qed.
Lemma pw_workers_set_tq x q : pw_workers (set_tq x q) = pw_workers x. Proof. reflexivity. Qed.
Lemma pw_wpool_set_tq x q : pw_wpool (set_tq x q) = pw_wpool x. Proof. reflexivity. Qed.
Lemma pw_tq_set_tq x q : pw_tq (set_tq x q) = q. Proof. reflexivity. Qed.
Lemma pw_cq_set_tq x q : pw_cq (set_tq x q) = pw_cq x. Proof. reflexivity. Qed.
Lemma pw_tbody_set_tq x q : pw_tbody (set_tq x q) = pw_tbody x. Proof. reflexivity. Qed.
Lemma pw_tprio_set_tq x q : pw_tprio (set_tq x q) = pw_tprio x. Proof. reflexivity. Qed.
Lemma pw_pools_set_tq x q : pw_pools (set_tq x q) = pw_pools x. Proof. reflexivity. Qed.
Lemma pw_cur_set_tq x q : pw_cur (set_tq x q) = pw_cur x. Proof. reflexivity. Qed.
Lemma pw_cancel_tasks_set_tq x q : pw_cancel_tasks (set_tq x q) = pw_cancel_tasks x. Proof. reflexivity. Qed.
Lemma pw_cancel_cos_set_tq x q : pw_cancel_cos (set_tq x q) = pw_cancel_cos x. Proof. reflexivity. Qed.
Lemma pw_running_tasks_set_tq x q : pw_running_tasks (set_tq x q) = pw_running_tasks x. Proof. reflexivity. Qed.
Lemma pw_spin_set_tq x q : pw_spin (set_tq x q) = pw_spin x. Proof. reflexivity. Qed.
Lemma pw_tpool_set_tq x q : pw_tpool (set_tq x q) = pw_tpool x. Proof. reflexivity. Qed.
Lemma pw_defects_set_tq x q : pw_defects (set_tq x q) = pw_defects x. Proof. reflexivity. Qed.
Lemma pw_clock_set_cq x q : pw_clock (set_cq x q) = pw_clock x. Proof. reflexivity. Qed.
Lemma pw_ts_set_cq x q : pw_ts (set_cq x q) = pw_ts x. Proof. reflexivity. Qed.
Lemma pw_cn_set_cq x q : pw_cn (set_cq x q) = pw_cn x. Proof. reflexivity. Qed.
Lemma pw_workers_set_cq x q : pw_workers (set_cq x q) = pw_workers x. Proof. reflexivity. Qed.
Lemma pw_wpool_set_cq x q : pw_wpool (set_cq x q) = pw_wpool x. Proof. reflexivity. Qed.
Lemma pw_tq_set_cq x q : pw_tq (set_cq x q) = pw_tq x. Proof. reflexivity. Qed.
Lemma pw_cq_set_cq x q : pw_cq (set_cq x q) = q. Proof. reflexivity. Qed.
Lemma pw_tbody_set_cq x q : pw_tbody (set_cq x q) = pw_tbody x. Proof. reflexivity. Qed.
Lemma pw_tprio_set_cq x q : pw_tprio (set_cq x q) = pw_tprio x. Proof. reflexivity. Qed.
Lemma pw_pools_set_cq x q : pw_pools (set_cq x q) = pw_pools x. Proof. reflexivity. Qed.
Lemma pw_cur_set_cq x q : pw_cur (set_cq x q) = pw_cur x. Proof. reflexivity. Qed.
Lemma pw_cancel_tasks_set_cq x q : pw_cancel_tasks (set_cq x q) = pw_cancel_tasks x. Proof. reflexivity. Qed.
Lemma pw_cancel_cos_set_cq x q : pw_cancel_cos (set_cq x q) = pw_cancel_cos x. Proof. reflexivity. Qed.
Lemma pw_running_tasks_set_cq x q : pw_running_tasks (set_cq x q) = pw_running_tasks x. Proof. reflexivity. Qed.
Lemma pw_spin_set_cq x q : pw_spin (set_cq x q) = pw_spin x. Proof. reflexivity. Qed.
Lemma pw_tpool_set_cq x q : pw_tpool (set_cq x q) = pw_tpool x. Proof. reflexivity. Qed.
Lemma pw_defects_set_cq x q : pw_defects (set_cq x q) = pw_defects x. Proof. reflexivity. Qed.
Lemma pw_clock_set_clockp x c : pw_clock (set_clockp x c) = c. Proof. reflexivity. Qed.
Lemma pw_ts_set_clockp x c : pw_ts (set_clockp x c) = pw_ts x. Proof. reflexivity. Qed.
Lemma pw_cn_set_clockp x c : pw_cn (set_clockp x c) = pw_cn x. Proof. reflexivity. Qed.
Lemma pw_workers_set_clockp x c : pw_workers (set_clockp x c) = pw_workers x. Proof. reflexivity. Qed.
Lemma pw_wpool_set_clockp x c : pw_wpool (set_clockp x c) = pw_wpool x. Proof. reflexivity. Qed.
Lemma pw_tq_set_clockp x c : pw_tq (set_clockp x c) = pw_tq x. Proof. reflexivity. Qed.
Lemma pw_cq_set_clockp x c : pw_cq (set_clockp x c) = pw_cq x. Proof. reflexivity. Qed.
Lemma pw_tbody_set_clockp x c : pw_tbody (set_clockp x c) = pw_tbody x. Proof. reflexivity. Qed.
Lemma pw_tprio_set_clockp x c : pw_tprio (set_clockp x c) = pw_tprio x. Proof. reflexivity. Qed.
Lemma pw_pools_set_clockp x c : pw_pools (set_clockp x c) = pw_pools x. Proof. reflexivity. Qed.
Lemma pw_cur_set_clockp x c : pw_cur (set_clockp x c) = pw_cur x. Proof. reflexivity. Qed.
Lemma pw_cancel_tasks_set_clockp x c : pw_cancel_tasks (set_clockp x c) = pw_cancel_tasks x. Proof. reflexivity. Qed.
Lemma pw_cancel_cos_set_clockp x c : pw_cancel_cos (set_clockp x c) = pw_cancel_cos x. Proof. reflexivity. Qed.
Lemma pw_running_tasks_set_clockp x c : pw_running_tasks (set_clockp x c) = pw_running_tasks x. Proof. reflexivity. Qed.
Lemma pw_spin_set_clockp x c : pw_spin (set_clockp x c) = pw_spin x. Proof. reflexivity. Qed.
Lemma pw_tpool_set_clockp x c : pw_tpool (set_clockp x c) = pw_tpool x. Proof. reflexivity. Qed.
Lemma pw_defects_set_clockp x c : pw_defects (set_clockp x c) = pw_defects x. Proof. reflexivity. Qed.
Lemma pw_clock_set_req x ts cn : pw_clock (set_req x ts cn) = pw_clock x. Proof. reflexivity. Qed.
Lemma pw_ts_set_req x ts cn : pw_ts (set_req x ts cn) = ts. Proof. reflexivity. Qed.
Lemma pw_cn_set_req x ts cn : pw_cn (set_req x ts cn) = cn. Proof. reflexivity. Qed.
Lemma pw_workers_set_req x ts cn : pw_workers (set_req x ts cn) = pw_workers x. Proof. reflexivity. Qed.
Lemma pw_wpool_set_req x ts cn : pw_wpool (set_req x ts cn) = pw_wpool x. Proof. reflexivity. Qed.
Lemma pw_tq_set_req x ts cn : pw_tq (set_req x ts cn) = pw_tq x. Proof. reflexivity. Qed.
Lemma pw_cq_set_req x ts cn : pw_cq (set_req x ts cn) = pw_cq x. Proof. reflexivity. Qed.
Lemma pw_tbody_set_req x ts cn : pw_tbody (set_req x ts cn) = pw_tbody x. Proof. reflexivity. Qed.
Lemma pw_tprio_set_req x ts cn : pw_tprio (set_req x ts cn) = pw_tprio x. Proof. reflexivity. Qed.
Lemma pw_pools_set_req x ts cn : pw_pools (set_req x ts cn) = pw_pools x. Proof. reflexivity. Qed.
Lemma pw_cur_set_req x ts cn : pw_cur (set_req x ts cn) = pw_cur x. Proof. reflexivity. Qed.
Lemma pw_cancel_tasks_set_req x ts cn : pw_cancel_tasks (set_req x ts cn) = pw_cancel_tasks x. Proof. reflexivity. Qed.
Lemma pw_cancel_cos_set_req x ts cn : pw_cancel_cos (set_req x ts cn) = pw_cancel_cos x. Proof. reflexivity. Qed.
Lemma pw_running_tasks_set_req x ts cn : pw_running_tasks (set_req x ts cn) = pw_running_tasks x. Proof. reflexivity. Qed.
Lemma pw_spin_set_req x ts cn : pw_spin (set_req x ts cn) = pw_spin x. Proof. reflexivity. Qed.
Lemma pw_tpool_set_req x ts cn : pw_tpool (set_req x ts cn) = pw_tpool x. Proof. reflexivity. Qed.
Lemma pw_defects_set_req x ts cn : pw_defects (set_req x ts cn) = pw_defects x. Proof. reflexivity. Qed.
Lemma pw_clock_set_cur x p : pw_clock (set_cur x p) = pw_clock x. Proof. reflexivity. Qed.
Lemma pw_ts_set_cur x p : pw_ts (set_cur x p) = pw_ts x. Proof. reflexivity. Qed.
Lemma pw_cn_set_cur x p : pw_cn (set_cur x p) = pw_cn x. Proof. reflexivity. Qed.
Lemma pw_workers_set_cur x p : pw_workers (set_cur x p) = pw_workers x. Proof. reflexivity. Qed.
Lemma pw_wpool_set_cur x p : pw_wpool (set_cur x p) = pw_wpool x. Proof. reflexivity. Qed.
Lemma pw_tq_set_cur x p : pw_tq (set_cur x p) = pw_tq x. Proof. reflexivity. Qed.
Lemma pw_cq_set_cur x p : pw_cq (set_cur x p) = pw_cq x. Proof. reflexivity. Qed.
Lemma pw_tbody_set_cur x p : pw_tbody (set_cur x p) = pw_tbody x. Proof. reflexivity. Qed.
Lemma pw_tprio_set_cur x p : pw_tprio (set_cur x p) = pw_tprio x. Proof. reflexivity. Qed.
Lemma pw_pools_set_cur x p : pw_pools (set_cur x p) = pw_pools x. Proof. reflexivity. Qed.
Lemma pw_cur_set_cur x p : pw_cur (set_cur x p) = p. Proof. reflexivity. Qed.
Lemma pw_cancel_tasks_set_cur x p : pw_cancel_tasks (set_cur x p) = pw_cancel_tasks x. Proof. reflexivity. Qed.
Lemma pw_cancel_cos_set_cur x p : pw_cancel_cos (set_cur x p) = pw_cancel_cos x. Proof. reflexivity. Qed.
Lemma pw_running_tasks_set_cur x p : pw_running_tasks (set_cur x p) = pw_running_tasks x. Proof. reflexivity. Qed.
Lemma pw_spin_set_cur x p : pw_spin (set_cur x p) = pw_spin x. Proof. reflexivity. Qed.
Lemma pw_tpool_set_cur x p : pw_tpool (set_cur x p) = pw_tpool x. Proof. reflexivity. Qed.
Lemma pw_defects_set_cur x p : pw_defects (set_cur x p) = pw_defects x. Proof. reflexivity. Qed.
Lemma pw_clock_set_globals x ct cc rt : pw_clock (set_globals x ct cc rt) = pw_clock x. Proof. reflexivity. Qed.
Lemma pw_ts_set_globals x ct cc rt : pw_ts (set_globals x ct cc rt) = pw_ts x. Proof. reflexivity. Qed.
Lemma pw_cn_set_globals x ct cc rt : pw_cn (set_globals x ct cc rt) = pw_cn x. Proof. reflexivity. Qed.
Lemma pw_workers_set_globals x ct cc rt : pw_workers (set_globals x ct cc rt) = pw_workers x. Proof. reflexivity. Qed.
Lemma pw_wpool_set_globals x ct cc rt : pw_wpool (set_globals x ct cc rt) = pw_wpool x. Proof. reflexivity. Qed.
Lemma pw_tq_set_globals x ct cc rt : pw_tq (set_globals x ct cc rt) = pw_tq x. Proof. reflexivity. Qed.
Lemma pw_cq_set_globals x ct cc rt : pw_cq (set_globals x ct cc rt) = pw_cq x. Proof. reflexivity. Qed.
Lemma pw_tbody_set_globals x ct cc rt : pw_tbody (set_globals x ct cc rt) = pw_tbody x. Proof. reflexivity. Qed.
Lemma pw_tprio_set_globals x ct cc rt : pw_tprio (set_globals x ct cc rt) = pw_tprio x. Proof. reflexivity. Qed.
Lemma pw_pools_set_globals x ct cc rt : pw_pools (set_globals x ct cc rt) = pw_pools x. Proof. reflexivity. Qed.
Lemma pw_cur_set_globals x ct cc rt : pw_cur (set_globals x ct cc rt) = pw_cur x. Proof. reflexivity. Qed.
Lemma pw_cancel_tasks_set_globals x ct cc rt : pw_cancel_tasks (set_globals x ct cc rt) = ct. Proof. reflexivity. Qed.
Lemma pw_cancel_cos_set_globals x ct cc rt : pw_cancel_cos (set_globals x ct cc rt) = cc. Proof. reflexivity. Qed.
Lemma pw_running_tasks_set_globals x ct cc rt : pw_running_tasks (set_globals x ct cc rt) = rt. Proof. reflexivity. Qed.
Lemma pw_spin_set_globals x ct cc rt : pw_spin (set_globals x ct cc rt) = pw_spin x. Proof. reflexivity. Qed.
Lemma pw_tpool_set_globals x ct cc rt : pw_tpool (set_globals x ct cc rt) = pw_tpool x. Proof. reflexivity. Qed.
Lemma pw_defects_set_globals x ct cc rt : pw_defects (set_globals x ct cc rt) = pw_defects x. Proof. reflexivity. Qed.
Lemma pw_clock_set_spin x : pw_clock (set_spin x) = pw_clock x. Proof. reflexivity. Qed.
Lemma pw_ts_set_spin x : pw_ts (set_spin x) = pw_ts x. Proof. reflexivity. Qed.
Lemma pw_cn_set_spin x : pw_cn (set_spin x) = pw_cn x. Proof. reflexivity. Qed.
Lemma pw_workers_set_spin x : pw_workers (set_spin x) = pw_workers x. Proof. reflexivity. Qed.
Lemma pw_wpool_set_spin x : pw_wpool (set_spin x) = pw_wpool x. Proof. reflexivity. Qed.
Lemma pw_tq_set_spin x : pw_tq (set_spin x) = pw_tq x. Proof. reflexivity. Qed.
Lemma pw_cq_set_spin x : pw_cq (set_spin x) = pw_cq x. Proof. reflexivity. Qed.
Lemma pw_tbody_set_spin x : pw_tbody (set_spin x) = pw_tbody x. Proof. reflexivity. Qed.
Lemma pw_tprio_set_spin x : pw_tprio (set_spin x) = pw_tprio x. Proof. reflexivity. Qed.
Lemma pw_pools_set_spin x : pw_pools (set_spin x) = pw_pools x. Proof. reflexivity. Qed.
Lemma pw_cur_set_spin x : pw_cur (set_spin x) = pw_cur x. Proof. reflexivity. Qed.
Lemma pw_cancel_tasks_set_spin x : pw_cancel_tasks (set_spin x) = pw_cancel_tasks x. Proof. reflexivity. Qed.
Lemma pw_cancel_cos_set_spin x : pw_cancel_cos (set_spin x) = pw_cancel_cos x. Proof. reflexivity. Qed.
Lemma pw_running_tasks_set_spin x : pw_running_tasks (set_spin x) = pw_running_tasks x. Proof. reflexivity. Qed.
Lemma pw_spin_set_spin x : pw_spin (set_spin x) = true. Proof. reflexivity. Qed.
Lemma pw_tpool_set_spin x : pw_tpool (set_spin x) = pw_tpool x. Proof. reflexivity. Qed.
Lemma pw_defects_set_spin x : pw_defects (set_spin x) = pw_defects x. Proof. reflexivity. Qed.
Lemma pw_clock_add_defect x dd : pw_clock (add_defect x dd) = pw_clock x. Proof. reflexivity. Qed.
Lemma pw_ts_add_defect x dd : pw_ts (add_defect x dd) = pw_ts x. Proof. reflexivity. Qed.
Lemma pw_cn_add_defect x dd : pw_cn (add_defect x dd) = pw_cn x. Proof. reflexivity. Qed.
Lemma pw_workers_add_defect x dd : pw_workers (add_defect x dd) = pw_workers x. Proof. reflexivity. Qed.
Lemma pw_wpool_add_defect x dd : pw_wpool (add_defect x dd) = pw_wpool x. Proof. reflexivity. Qed.
Lemma pw_tq_add_defect x dd : pw_tq (add_defect x dd) = pw_tq x. Proof. reflexivity. Qed.
Lemma pw_cq_add_defect x dd : pw_cq (add_defect x dd) = pw_cq x. Proof. reflexivity. Qed.
Lemma pw_tbody_add_defect x dd : pw_tbody (add_defect x dd) = pw_tbody x. Proof. reflexivity. Qed.
Lemma pw_tprio_add_defect x dd : pw_tprio (add_defect x dd) = pw_tprio x. Proof. reflexivity. Qed.
Lemma pw_pools_add_defect x dd : pw_pools (add_defect x dd) = pw_pools x. Proof. reflexivity. Qed.
Lemma pw_cur_add_defect x dd : pw_cur (add_defect x dd) = pw_cur x. Proof. reflexivity. Qed.
Lemma pw_cancel_tasks_add_defect x dd : pw_cancel_tasks (add_defect x dd) = pw_cancel_tasks x. Proof. reflexivity. Qed.
Lemma pw_cancel_cos_add_defect x dd : pw_cancel_cos (add_defect x dd) = pw_cancel_cos x. Proof. reflexivity. Qed.
Lemma pw_running_tasks_add_defect x dd : pw_running_tasks (add_defect x dd) = pw_running_tasks x. Proof. reflexivity. Qed.
Lemma pw_spin_add_defect x dd : pw_spin (add_defect x dd) = pw_spin x. Proof. reflexivity. Qed.
Lemma pw_tpool_add_defect x dd : pw_tpool (add_defect x dd) = pw_tpool x. Proof. reflexivity. Qed.
Lemma pw_defects_add_defect x dd : pw_defects (add_defect x dd) = (if existsb (Nat.eqb dd) (pw_defects x) then pw_defects x else dd :: pw_defects x). Proof. reflexivity. Qed.
Lemma pw_clock_upd_pool x p f : pw_clock (upd_pool x p f) = pw_clock x. Proof. reflexivity. Qed.
Lemma pw_ts_upd_pool x p f : pw_ts (upd_pool x p f) = pw_ts x. Proof. reflexivity. Qed.
Lemma pw_cn_upd_pool x p f : pw_cn (upd_pool x p f) = pw_cn x. Proof. reflexivity. Qed.
Lemma pw_workers_upd_pool x p f : pw_workers (upd_pool x p f) = pw_workers x. Proof. reflexivity. Qed.
Lemma pw_wpool_upd_pool x p f : pw_wpool (upd_pool x p f) = pw_wpool x. Proof. reflexivity. Qed.
Lemma pw_tq_upd_pool x p f : pw_tq (upd_pool x p f) = pw_tq x. Proof. reflexivity. Qed.
Lemma pw_cq_upd_pool x p f : pw_cq (upd_pool x p f) = pw_cq x. Proof. reflexivity. Qed.
Lemma pw_tbody_upd_pool x p f : pw_tbody (upd_pool x p f) = pw_tbody x. Proof. reflexivity. Qed.
Lemma pw_tprio_upd_pool x p f : pw_tprio (upd_pool x p f) = pw_tprio x. Proof. reflexivity. Qed.
Lemma pw_pools_upd_pool x p f : pw_pools (upd_pool x p f) = set_nth p (f (get_pool x p)) (pw_pools x). Proof. reflexivity. Qed.
Lemma pw_cur_upd_pool x p f : pw_cur (upd_pool x p f) = pw_cur x. Proof. reflexivity. Qed.
Lemma pw_cancel_tasks_upd_pool x p f : pw_cancel_tasks (upd_pool x p f) = pw_cancel_tasks x. Proof. reflexivity. Qed.
Lemma pw_cancel_cos_upd_pool x p f : pw_cancel_cos (upd_pool x p f) = pw_cancel_cos x. Proof. reflexivity. Qed.
Lemma pw_running_tasks_upd_pool x p f : pw_running_tasks (upd_pool x p f) = pw_running_tasks x. Proof. reflexivity. Qed.
Lemma pw_spin_upd_pool x p f : pw_spin (upd_pool x p f) = pw_spin x. Proof. reflexivity. Qed.
Lemma pw_tpool_upd_pool x p f : pw_tpool (upd_pool x p f) = pw_tpool x. Proof. reflexivity. Qed.
Lemma pw_defects_upd_pool x p f : pw_defects (upd_pool x p f) = pw_defects x. Proof. reflexivity. Qed.
Lemma pw_clock_upd_worker x w k : pw_clock (upd_worker x w k) = pw_clock x. Proof. reflexivity. Qed.
Lemma pw_ts_upd_worker x w k : pw_ts (upd_worker x w k) = pw_ts x. Proof. reflexivity. Qed.
Lemma pw_cn_upd_worker x w k : pw_cn (upd_worker x w k) = pw_cn x. Proof. reflexivity. Qed.
Lemma pw_workers_upd_worker x w k : pw_workers (upd_worker x w k) = set_nth w k (pw_workers x). Proof. reflexivity. Qed.
Lemma pw_wpool_upd_worker x w k : pw_wpool (upd_worker x w k) = pw_wpool x. Proof. reflexivity. Qed.
Lemma pw_tq_upd_worker x w k : pw_tq (upd_worker x w k) = pw_tq x. Proof. reflexivity. Qed.
Lemma pw_cq_upd_worker x w k : pw_cq (upd_worker x w k) = pw_cq x. Proof. reflexivity. Qed.
Lemma pw_tbody_upd_worker x w k : pw_tbody (upd_worker x w k) = pw_tbody x. Proof. reflexivity. Qed.
Lemma pw_tprio_upd_worker x w k : pw_tprio (upd_worker x w k) = pw_tprio x. Proof. reflexivity. Qed.
Lemma pw_pools_upd_worker x w k : pw_pools (upd_worker x w k) = pw_pools x. Proof. reflexivity. Qed.
Lemma pw_cur_upd_worker x w k : pw_cur (upd_worker x w k) = pw_cur x. Proof. reflexivity. Qed.
Lemma pw_cancel_tasks_upd_worker x w k : pw_cancel_tasks (upd_worker x w k) = pw_cancel_tasks x. Proof. reflexivity. Qed.
Lemma pw_cancel_cos_upd_worker x w k : pw_cancel_cos (upd_worker x w k) = pw_cancel_cos x. Proof. reflexivity. Qed.
Lemma pw_running_tasks_upd_worker x w k : pw_running_tasks (upd_worker x w k) = pw_running_tasks x. Proof. reflexivity. Qed.
Lemma pw_spin_upd_worker x w k : pw_spin (upd_worker x w k) = pw_spin x. Proof. reflexivity. Qed.
Lemma pw_tpool_upd_worker x w k : pw_tpool (upd_worker x w k) = pw_tpool x. Proof. reflexivity. Qed.
Lemma pw_defects_upd_worker x w k : pw_defects (upd_worker x w k) = pw_defects x. Proof. reflexivity. Qed.
Lemma get_worker_set_pools x ps i : get_worker (set_pools x ps) i = get_worker x i. Proof. reflexivity. Qed.
Lemma get_pool_set_workers x ws i : get_pool (set_workers x ws) i = get_pool x i. Proof. reflexivity. Qed.
Lemma get_pool_set_tq x q i : get_pool (set_tq x q) i = get_pool x i. Proof. reflexivity. Qed.
Lemma get_worker_set_tq x q i : get_worker (set_tq x q) i = get_worker x i. Proof. reflexivity. Qed.
Lemma get_pool_set_cq x q i : get_pool (set_cq x q) i = get_pool x i. Proof. reflexivity. Qed.
Lemma get_worker_set_cq x q i : get_worker (set_cq x q) i = get_worker x i. Proof. reflexivity. Qed.
Lemma get_pool_set_clockp x c i : get_pool (set_clockp x c) i = get_pool x i. Proof. reflexivity. Qed.
Lemma get_worker_set_clockp x c i : get_worker (set_clockp x c) i = get_worker x i. Proof. reflexivity. Qed.
Lemma get_pool_set_req x ts cn i : get_pool (set_req x ts cn) i = get_pool x i. Proof. reflexivity. Qed.
Lemma get_worker_set_req x ts cn i : get_worker (set_req x ts cn) i = get_worker x i. Proof. reflexivity. Qed.
Lemma get_pool_set_cur x p i : get_pool (set_cur x p) i = get_pool x i. Proof. reflexivity. Qed.
Lemma get_worker_set_cur x p i : get_worker (set_cur x p) i = get_worker x i. Proof. reflexivity. Qed.
Lemma get_pool_set_globals x ct cc rt i : get_pool (set_globals x ct cc rt) i = get_pool x i. Proof. reflexivity. Qed.
Lemma get_worker_set_globals x ct cc rt i : get_worker (set_globals x ct cc rt) i = get_worker x i. Proof. reflexivity. Qed.
Lemma get_pool_set_spin x i : get_pool (set_spin x) i = get_pool x i. Proof. reflexivity. Qed.
Lemma get_worker_set_spin x i : get_worker (set_spin x) i = get_worker x i. Proof. reflexivity. Qed.
Lemma get_pool_add_defect x dd i : get_pool (add_defect x dd) i = get_pool x i. Proof. reflexivity. Qed.
Lemma get_worker_add_defect x dd i : get_worker (add_defect x dd) i = get_worker x i. Proof. reflexivity. Qed.
Lemma get_worker_upd_pool x p f i : get_worker (upd_pool x p f) i = get_worker x i. Proof. reflexivity. Qed.
Lemma get_pool_upd_worker x w k i : get_pool (upd_worker x w k) i = get_pool x i. Proof. reflexivity. Qed.
#[export] Hint Rewrite pw_clock_set_pools pw_ts_set_pools pw_cn_set_pools pw_workers_set_pools pw_wpool_set_pools pw_tq_set_pools pw_cq_set_pools pw_tbody_set_pools pw_tprio_set_pools pw_pools_set_pools pw_cur_set_pools pw_cancel_tasks_set_pools pw_cancel_cos_set_pools pw_running_tasks_set_pools pw_spin_set_pools pw_tpool_set_pools pw_defects_set_pools pw_clock_set_workers pw_ts_set_workers pw_cn_set_workers pw_workers_set_workers pw_wpool_set_workers pw_tq_set_workers pw_cq_set_workers pw_tbody_set_workers pw_tprio_set_workers pw_pools_set_workers pw_cur_set_workers pw_cancel_tasks_set_workers pw_cancel_cos_set_workers pw_running_tasks_set_workers pw_spin_set_workers pw_tpool_set_workers pw_defects_set_workers pw_clock_set_tq pw_ts_set_tq pw_cn_set_tq pw_workers_set_tq pw_wpool_set_tq pw_tq_set_tq pw_cq_set_tq pw_tbody_set_tq pw_tprio_set_tq pw_pools_set_tq pw_cur_set_tq pw_cancel_tasks_set_tq pw_cancel_cos_set_tq pw_running_tasks_set_tq pw_spin_set_tq pw_tpool_set_tq pw_defects_set_tq pw_clock_set_cq pw_ts_set_cq pw_cn_set_cq pw_workers_set_cq pw_wpool_set_cq pw_tq_set_cq pw_cq_set_cq pw_tbody_set_cq pw_tprio_set_cq pw_pools_set_cq pw_cur_set_cq pw_cancel_tasks_set_cq pw_cancel_cos_set_cq pw_running_tasks_set_cq pw_spin_set_cq pw_tpool_set_cq pw_defects_set_cq pw_clock_set_clockp pw_ts_set_clockp pw_cn_set_clockp pw_workers_set_clockp pw_wpool_set_clockp pw_tq_set_clockp pw_cq_set_clockp pw_tbody_set_clockp pw_tprio_set_clockp pw_pools_set_clockp pw_cur_set_clockp pw_cancel_tasks_set_clockp pw_cancel_cos_set_clockp pw_running_tasks_set_clockp pw_spin_set_clockp pw_tpool_set_clockp pw_defects_set_clockp pw_clock_set_req pw_ts_set_req pw_cn_set_req pw_workers_set_req pw_wpool_set_req pw_tq_set_req pw_cq_set_req pw_tbody_set_req pw_tprio_set_req pw_pools_set_req pw_cur_set_req pw_cancel_tasks_set_req pw_cancel_cos_set_req pw_running_tasks_set_req pw_spin_set_req pw_tpool_set_req pw_defects_set_req pw_clock_set_cur pw_ts_set_cur pw_cn_set_cur pw_workers_set_cur pw_wpool_set_cur pw_tq_set_cur pw_cq_set_cur pw_tbody_set_cur pw_tprio_set_cur pw_pools_set_cur pw_cur_set_cur pw_cancel_tasks_set_cur pw_cancel_cos_set_cur pw_running_tasks_set_cur pw_spin_set_cur pw_tpool_set_cur pw_defects_set_cur pw_clock_set_globals pw_ts_set_globals pw_cn_set_globals pw_workers_set_globals pw_wpool_set_globals pw_tq_set_globals pw_cq_set_globals pw_tbody_set_globals pw_tprio_set_globals pw_pools_set_globals pw_cur_set_globals pw_cancel_tasks_set_globals pw_cancel_cos_set_globals pw_running_tasks_set_globals pw_spin_set_globals pw_tpool_set_globals pw_defects_set_globals pw_clock_set_spin pw_ts_set_spin pw_cn_set_spin pw_workers_set_spin pw_wpool_set_spin pw_tq_set_spin pw_cq_set_spin pw_tbody_set_spin pw_tprio_set_spin pw_pools_set_spin pw_cur_set_spin pw_cancel_tasks_set_spin pw_cancel_cos_set_spin pw_running_tasks_set_spin pw_spin_set_spin pw_tpool_set_spin pw_defects_set_spin pw_clock_add_defect pw_ts_add_defect pw_cn_add_defect pw_workers_add_defect pw_wpool_add_defect pw_tq_add_defect pw_cq_add_defect pw_tbody_add_defect pw_tprio_add_defect pw_pools_add_defect pw_cur_add_defect pw_cancel_tasks_add_defect pw_cancel_cos_add_defect pw_running_tasks_add_defect pw_spin_add_defect pw_tpool_add_defect pw_defects_add_defect pw_clock_upd_pool pw_ts_upd_pool pw_cn_upd_pool pw_workers_upd_pool pw_wpool_upd_pool pw_tq_upd_pool pw_cq_upd_pool pw_tbody_upd_pool pw_tprio_upd_pool pw_pools_upd_pool pw_cur_upd_pool pw_cancel_tasks_upd_pool pw_cancel_cos_upd_pool pw_running_tasks_upd_pool pw_spin_upd_pool pw_tpool_upd_pool pw_defects_upd_pool pw_clock_upd_worker pw_ts_upd_worker pw_cn_upd_worker pw_workers_upd_worker pw_wpool_upd_worker pw_tq_upd_worker pw_cq_upd_worker pw_tbody_upd_worker pw_tprio_upd_worker pw_pools_upd_worker pw_cur_upd_worker pw_cancel_tasks_upd_worker pw_cancel_cos_upd_worker pw_running_tasks_upd_worker pw_spin_upd_worker pw_tpool_upd_worker pw_defects_upd_worker get_worker_set_pools get_pool_set_workers get_pool_set_tq get_worker_set_tq get_pool_set_cq get_worker_set_cq get_pool_set_clockp get_worker_set_clockp get_pool_set_req get_worker_set_req get_pool_set_cur get_worker_set_cur get_pool_set_globals get_worker_set_globals get_pool_set_spin get_worker_set_spin get_pool_add_defect get_worker_add_defect get_worker_upd_pool get_pool_upd_worker : pw.
Lemma p_state_p_with_running n q : p_state (p_with_running n q) = p_state q. Proof. reflexivity. Qed.
Lemma p_sd_p_with_running n q : p_sd (p_with_running n q) = p_sd q. Proof. reflexivity. Qed.
Lemma p_running_p_with_running n q : p_running (p_with_running n q) = n. Proof. reflexivity. Qed.
Lemma p_popfail_p_with_running n q : p_popfail (p_with_running n q) = p_popfail q. Proof. reflexivity. Qed.
Lemma p_min_p_with_running n q : p_min (p_with_running n q) = p_min q. Proof. reflexivity. Qed.
Lemma p_max_p_with_running n q : p_max (p_with_running n q) = p_max q. Proof. reflexivity. Qed.
Lemma p_keep_p_with_running n q : p_keep (p_with_running n q) = p_keep q. Proof. reflexivity. Qed.
Lemma p_waits_p_with_running n q : p_waits (p_with_running n q) = p_waits q. Proof. reflexivity. Qed.
Lemma p_results_p_with_running n q : p_results (p_with_running n q) = p_results q. Proof. reflexivity. Qed.
Lemma p_nowaits_p_with_running n q : p_nowaits (p_with_running n q) = p_nowaits q. Proof. reflexivity. Qed.
Lemma p_state_p_with_popfail n q : p_state (p_with_popfail n q) = p_state q. Proof. reflexivity. Qed.
Lemma p_sd_p_with_popfail n q : p_sd (p_with_popfail n q) = p_sd q. Proof. reflexivity. Qed.
Lemma p_running_p_with_popfail n q : p_running (p_with_popfail n q) = p_running q. Proof. reflexivity. Qed.
Lemma p_popfail_p_with_popfail n q : p_popfail (p_with_popfail n q) = n. Proof. reflexivity. Qed.
Lemma p_min_p_with_popfail n q : p_min (p_with_popfail n q) = p_min q. Proof. reflexivity. Qed.
Lemma p_max_p_with_popfail n q : p_max (p_with_popfail n q) = p_max q. Proof. reflexivity. Qed.
Lemma p_keep_p_with_popfail n q : p_keep (p_with_popfail n q) = p_keep q. Proof. reflexivity. Qed.
Lemma p_waits_p_with_popfail n q : p_waits (p_with_popfail n q) = p_waits q. Proof. reflexivity. Qed.
Lemma p_results_p_with_popfail n q : p_results (p_with_popfail n q) = p_results q. Proof. reflexivity. Qed.
Lemma p_nowaits_p_with_popfail n q : p_nowaits (p_with_popfail n q) = p_nowaits q. Proof. reflexivity. Qed.
Lemma p_state_p_with_sd d q : p_state (p_with_sd d q) = p_state q. Proof. reflexivity. Qed.
Lemma p_sd_p_with_sd d q : p_sd (p_with_sd d q) = d. Proof. reflexivity. Qed.
Lemma p_running_p_with_sd d q : p_running (p_with_sd d q) = p_running q. Proof. reflexivity. Qed.
Lemma p_popfail_p_with_sd d q : p_popfail (p_with_sd d q) = p_popfail q. Proof. reflexivity. Qed.
Lemma p_min_p_with_sd d q : p_min (p_with_sd d q) = p_min q. Proof. reflexivity. Qed.
Lemma p_max_p_with_sd d q : p_max (p_with_sd d q) = p_max q. Proof. reflexivity. Qed.
Lemma p_keep_p_with_sd d q : p_keep (p_with_sd d q) = p_keep q. Proof. reflexivity. Qed.
Lemma p_waits_p_with_sd d q : p_waits (p_with_sd d q) = p_waits q. Proof. reflexivity. Qed.
Lemma p_results_p_with_sd d q : p_results (p_with_sd d q) = p_results q. Proof. reflexivity. Qed.
Lemma p_nowaits_p_with_sd d q : p_nowaits (p_with_sd d q) = p_nowaits q. Proof. reflexivity. Qed.
Lemma p_state_p_with_state s q : p_state (p_with_state s q) = s. Proof. reflexivity. Qed.
Lemma p_sd_p_with_state s q : p_sd (p_with_state s q) = p_sd q. Proof. reflexivity. Qed.
Lemma p_running_p_with_state s q : p_running (p_with_state s q) = p_running q. Proof. reflexivity. Qed.
Lemma p_popfail_p_with_state s q : p_popfail (p_with_state s q) = p_popfail q. Proof. reflexivity. Qed.
Lemma p_min_p_with_state s q : p_min (p_with_state s q) = p_min q. Proof. reflexivity. Qed.
Lemma p_max_p_with_state s q : p_max (p_with_state s q) = p_max q. Proof. reflexivity. Qed.
Lemma p_keep_p_with_state s q : p_keep (p_with_state s q) = p_keep q. Proof. reflexivity. Qed.
Lemma p_waits_p_with_state s q : p_waits (p_with_state s q) = p_waits q. Proof. reflexivity. Qed.
Lemma p_results_p_with_state s q : p_results (p_with_state s q) = p_results q. Proof. reflexivity. Qed.
Lemma p_nowaits_p_with_state s q : p_nowaits (p_with_state s q) = p_nowaits q. Proof. reflexivity. Qed.
Lemma p_state_p_with_wait ws rs nw q : p_state (p_with_wait ws rs nw q) = p_state q. Proof. reflexivity. Qed.
Lemma p_sd_p_with_wait ws rs nw q : p_sd (p_with_wait ws rs nw q) = p_sd q. Proof. reflexivity. Qed.
Lemma p_running_p_with_wait ws rs nw q : p_running (p_with_wait ws rs nw q) = p_running q. Proof. reflexivity. Qed.
Lemma p_popfail_p_with_wait ws rs nw q : p_popfail (p_with_wait ws rs nw q) = p_popfail q. Proof. reflexivity. Qed.
Lemma p_min_p_with_wait ws rs nw q : p_min (p_with_wait ws rs nw q) = p_min q. Proof. reflexivity. Qed.
Lemma p_max_p_with_wait ws rs nw q : p_max (p_with_wait ws rs nw q) = p_max q. Proof. reflexivity. Qed.
Lemma p_keep_p_with_wait ws rs nw q : p_keep (p_with_wait ws rs nw q) = p_keep q. Proof. reflexivity. Qed.
Lemma p_waits_p_with_wait ws rs nw q : p_waits (p_with_wait ws rs nw q) = ws. Proof. reflexivity. Qed.
Lemma p_results_p_with_wait ws rs nw q : p_results (p_with_wait ws rs nw q) = rs. Proof. reflexivity. Qed.
Lemma p_nowaits_p_with_wait ws rs nw q : p_nowaits (p_with_wait ws rs nw q) = nw. Proof. reflexivity. Qed.
#[export] Hint Rewrite p_state_p_with_running p_sd_p_with_running p_running_p_with_running p_popfail_p_with_running p_min_p_with_running p_max_p_with_running p_keep_p_with_running p_waits_p_with_running p_results_p_with_running p_nowaits_p_with_running p_state_p_with_popfail p_sd_p_with_popfail p_running_p_with_popfail p_popfail_p_with_popfail p_min_p_with_popfail p_max_p_with_popfail p_keep_p_with_popfail p_waits_p_with_popfail p_results_p_with_popfail p_nowaits_p_with_popfail p_state_p_with_sd p_sd_p_with_sd p_running_p_with_sd p_popfail_p_with_sd p_min_p_with_sd p_max_p_with_sd p_keep_p_with_sd p_waits_p_with_sd p_results_p_with_sd p_nowaits_p_with_sd p_state_p_with_state p_sd_p_with_state p_running_p_with_state p_popfail_p_with_state p_min_p_with_state p_max_p_with_state p_keep_p_with_state p_waits_p_with_state p_results_p_with_state p_nowaits_p_with_state p_state_p_with_wait p_sd_p_with_wait p_running_p_with_wait p_popfail_p_with_wait p_min_p_with_wait p_max_p_with_wait p_keep_p_with_wait p_waits_p_with_wait p_results_p_with_wait p_nowaits_p_with_wait : pw.

(** * get_pool / upd_pool, get_worker / upd_worker *)

Lemma get_pool_upd_pool_same x p f :
  (p < length (pw_pools x))%nat -> get_pool (upd_pool x p f) p = f (get_pool x p).
Proof. intro H. unfold get_pool at 1, upd_pool. rewrite pw_pools_set_pools. apply nth_set_nth_same, H. Qed.

Lemma get_pool_upd_pool_other x p f i : p <> i -> get_pool (upd_pool x p f) i = get_pool x i.
Proof. intro H. unfold get_pool, upd_pool. rewrite pw_pools_set_pools. apply nth_set_nth_other. congruence. Qed.

Lemma upd_pool_out x p f : (length (pw_pools x) <= p)%nat -> pw_pools (upd_pool x p f) = pw_pools x.
Proof.
  intro H. rewrite pw_pools_upd_pool. unfold set_nth.
  rewrite firstn_all2 by lia. rewrite skipn_all2 by lia. apply app_nil_r.
Qed.

Lemma pools_len_upd_pool x p f : length (pw_pools (upd_pool x p f)) = length (pw_pools x).
Proof. rewrite pw_pools_upd_pool. apply set_nth_length. Qed.

Lemma get_worker_upd_worker_same x w k :
  (w < length (pw_workers x))%nat -> get_worker (upd_worker x w k) w = Some k.
Proof. intro H. unfold get_worker. rewrite pw_workers_upd_worker. apply nth_error_set_nth_same, H. Qed.

Lemma get_worker_upd_worker_other x w k i : w <> i -> get_worker (upd_worker x w k) i = get_worker x i.
Proof. intro H. unfold get_worker. rewrite pw_workers_upd_worker. apply nth_error_set_nth_other. congruence. Qed.

Lemma workers_len_upd_worker x w k : length (pw_workers (upd_worker x w k)) = length (pw_workers x).
Proof. rewrite pw_workers_upd_worker. apply set_nth_length. Qed.

Lemma get_worker_lt x w k : get_worker x w = Some k -> (w < length (pw_workers x))%nat.
Proof. apply nth_error_Some_lt. Qed.

Lemma get_worker_None x w : get_worker x w = None <-> (length (pw_workers x) <= w)%nat.
Proof. apply nth_error_None. Qed.

(** * mem_nat / remove_nat / assoc *)

Lemma mem_nat_In i l : mem_nat i l = true <-> In i l.
Proof.
  unfold mem_nat. rewrite existsb_exists. split.
  - intros (j & Hj & E). apply Nat.eqb_eq in E. subst. exact Hj.
  - intro H. exists i. split; [exact H | apply Nat.eqb_refl].
Qed.

Lemma mem_nat_false i l : mem_nat i l = false <-> ~ In i l.
Proof. rewrite <- mem_nat_In. destruct (mem_nat i l); split; congruence. Qed.

Lemma remove_nat_In i j l : In j (remove_nat i l) -> In j l.
Proof.
  induction l as [|a l IH]; cbn [remove_nat]; [tauto|].
  destruct (Nat.eqb i a); cbn [In]; tauto.
Qed.

Lemma remove_nat_In_other i j l : i <> j -> In j l -> In j (remove_nat i l).
Proof.
  intro Hne. induction l as [|a l IH]; cbn [remove_nat In]; [tauto|].
  destruct (Nat.eqb i a) eqn:E.
  - apply Nat.eqb_eq in E. subst. intros [H|H]; [congruence | exact H].
  - cbn [In]. tauto.
Qed.

Lemma remove_nat_NoDup i l : NoDup l -> NoDup (remove_nat i l).
Proof.
  induction 1 as [|a l Hn Hd IH]; cbn [remove_nat]; [constructor|].
  destruct (Nat.eqb i a); [exact Hd|]. constructor; [|exact IH].
  intro H. apply Hn. eapply remove_nat_In, H.
Qed.

Lemma remove_nat_NoDup_notin i l : NoDup l -> ~ In i (remove_nat i l).
Proof.
  induction 1 as [|a l Hn Hd IH]; cbn [remove_nat]; [tauto|].
  destruct (Nat.eqb i a) eqn:E.
  - apply Nat.eqb_eq in E. subst. exact Hn.
  - apply Nat.eqb_neq in E. cbn [In]. intros [H|H]; [congruence | tauto].
Qed.

Lemma remove_nat_notin i l : ~ In i l -> remove_nat i l = l.
Proof.
  induction l as [|a l IH]; cbn [remove_nat In]; [reflexivity|].
  intro H. destruct (Nat.eqb i a) eqn:E.
  - apply Nat.eqb_eq in E. subst. tauto.
  - rewrite IH by tauto. reflexivity.
Qed.

Lemma assoc_get_In {A} k (l : list (nat * A)) v : assoc_get k l = Some v -> In (k, v) l.
Proof.
  induction l as [|[k' v'] l IH]; cbn [assoc_get]; [discriminate|].
  destruct (Nat.eqb k k') eqn:E.
  - apply Nat.eqb_eq in E. subst. intro H. injection H as ->. left. reflexivity.
  - intro H. right. apply IH, H.
Qed.

Lemma assoc_get_None {A} k (l : list (nat * A)) : assoc_get k l = None <-> ~ In k (map fst l).
Proof.
  induction l as [|[k' v'] l IH]; cbn [assoc_get map fst In]; [tauto|].
  destruct (Nat.eqb k k') eqn:E.
  - apply Nat.eqb_eq in E. subst. split; [discriminate | tauto].
  - apply Nat.eqb_neq in E. rewrite IH. split; [intros H [H1|H1]; [congruence | tauto] | tauto].
Qed.

Lemma assoc_get_NoDup_In {A} k (l : list (nat * A)) v :
  NoDup (map fst l) -> In (k, v) l -> assoc_get k l = Some v.
Proof.
  induction l as [|[k' v'] l IH]; cbn [assoc_get map fst In]; [tauto|].
  intros Hnd [H|H].
  - injection H as -> ->. rewrite Nat.eqb_refl. reflexivity.
  - inversion Hnd as [|? ? Hn Hd]; subst. destruct (Nat.eqb k k') eqn:E.
    + apply Nat.eqb_eq in E. subst. exfalso. apply Hn. apply in_map_iff. exists (k', v). split; [reflexivity | exact H].
    + apply IH; assumption.
Qed.

Lemma assoc_del_In {A} k (l : list (nat * A)) e : In e (assoc_del k l) -> In e l.
Proof.
  induction l as [|[k' v'] l IH]; cbn [assoc_del]; [tauto|].
  destruct (Nat.eqb k k'); cbn [In]; tauto.
Qed.

Lemma assoc_del_In_other {A} k (l : list (nat * A)) k' v : k <> k' -> In (k', v) l -> In (k', v) (assoc_del k l).
Proof.
  intro Hne. induction l as [|[k2 v2] l IH]; cbn [assoc_del In]; [tauto|].
  destruct (Nat.eqb k k2) eqn:E.
  - apply Nat.eqb_eq in E. subst. intros [H|H]; [injection H as <- _; congruence | exact H].
  - cbn [In]. tauto.
Qed.

Lemma assoc_del_keys_incl {A} k (l : list (nat * A)) j : In j (map fst (assoc_del k l)) -> In j (map fst l).
Proof.
  rewrite !in_map_iff. intros (e & He & Hin). exists e. split; [exact He | eapply assoc_del_In, Hin].
Qed.

Lemma assoc_del_NoDup {A} k (l : list (nat * A)) : NoDup (map fst l) -> NoDup (map fst (assoc_del k l)).
Proof.
  induction l as [|[k' v'] l IH]; cbn [assoc_del map fst]; [constructor|].
  intro H. inversion H as [|? ? Hn Hd]; subst.
  destruct (Nat.eqb k k'); [exact Hd|]. cbn [map fst]. constructor; [|apply IH, Hd].
  intro Hin. apply Hn. eapply assoc_del_keys_incl, Hin.
Qed.

Lemma assoc_del_NoDup_notin {A} k (l : list (nat * A)) : NoDup (map fst l) -> ~ In k (map fst (assoc_del k l)).
Proof.
  induction l as [|[k' v'] l IH]; cbn [assoc_del map fst]; [tauto|].
  intro H. inversion H as [|? ? Hn Hd]; subst.
  destruct (Nat.eqb k k') eqn:E.
  - apply Nat.eqb_eq in E. subst. exact Hn.
  - apply Nat.eqb_neq in E. cbn [map fst In]. intros [H1|H1]; [congruence | exact (IH Hd H1)].
Qed.

Lemma assoc_get_del_same {A} k (l : list (nat * A)) : NoDup (map fst l) -> assoc_get k (assoc_del k l) = None.
Proof. intro H. apply assoc_get_None, assoc_del_NoDup_notin, H. Qed.

Lemma assoc_get_del_other {A} k k' (l : list (nat * A)) : k <> k' -> assoc_get k' (assoc_del k l) = assoc_get k' l.
Proof.
  intro Hne. induction l as [|[k2 v2] l IH]; cbn [assoc_del assoc_get]; [reflexivity|].
  destruct (Nat.eqb k k2) eqn:E.
  - apply Nat.eqb_eq in E. subst. destruct (Nat.eqb k' k2) eqn:E2; [apply Nat.eqb_eq in E2; congruence | reflexivity].
  - cbn [assoc_get]. rewrite IH. reflexivity.
Qed.

Lemma assoc_get_app {A} k (l1 l2 : list (nat * A)) :
  assoc_get k (l1 ++ l2) = match assoc_get k l1 with Some v => Some v | None => assoc_get k l2 end.
Proof.
  induction l1 as [|[k' v'] l1 IH]; cbn [app assoc_get]; [reflexivity|].
  destruct (Nat.eqb k k'); [reflexivity | exact IH].
Qed.

Lemma map_fst_app {A B} (l1 l2 : list (A * B)) : map fst (l1 ++ l2) = map fst l1 ++ map fst l2.
Proof. apply map_app. Qed.

Lemma NoDup_snoc {A} (l : list A) a : NoDup l -> ~ In a l -> NoDup (l ++ [a]).
Proof.
  intros Hd Hn. induction Hd as [|b l Hb Hd IH]; cbn [app]; [constructor; [tauto | constructor]|].
  constructor.
  - rewrite in_app_iff. cbn [In]. intros [H|[H|[]]]; [tauto | subst; apply Hn; left; reflexivity].
  - apply IH. intro H. apply Hn. right. exact H.
Qed.
