(** The operations of a history keep the simulation invariant (all but the pass, done before). *)
From OCV Require Import Base.Prelude Misc.Time Queue.PMap Queue.OWS Queue.OWSOracle Queue.OWSLemmas Queue.OWSModel Queue.OWSStep.
From OCV Require Import Coroutine.Co Coroutine.CoOracle Coroutine.CoLemmas Sched.Sched Sched.Pool Sched.PoolOracle Sched.PoolBase Sched.PoolWf Sched.PoolQ Sched.PoolJ Sched.PoolJLemmas Sched.PoolCanon Sched.PoolUnfold Sched.PoolJStep Sched.PoolJLoop Sched.PoolJPass Sched.PoolJHole Sched.PoolJSched.
From Coq Require Import ZifyBool ZifyNat.
Open Scope Z_scope.

(** the task clauses do not read [tt_consumed], [tt_cleaned], [tt_pool] *)
Record tk_same (a b : ttrk) : Prop := {
  ts_acc : tt_accepted a = tt_accepted b; ts_st : tt_started a = tt_started b; ts_fin : tt_fin a = tt_fin b;
  ts_fc : tt_fincount a = tt_fincount b; ts_c0 : tt_cancel0 a = tt_cancel0 b; ts_c1 : tt_cancel1 a = tt_cancel1 b;
  ts_wd : tt_withdrawn a = tt_withdrawn b
}.

Lemma tk_same_refl a : tk_same a a.
Proof. constructor; reflexivity. Qed.

Lemma JT_tk_ext ws tqi tb tk tk' ct cc rt h :
  JT ws tqi tb tk ct cc rt h -> length tk' = length tk -> (forall j, tk_same (tkn tk' j) (tkn tk j)) ->
  JT ws tqi tb tk' ct cc rt h.
Proof.
  intros [Hlen Hq Hta Hhold Hinj Hmode Htb Hte Ht3 Htf Hrtnd Hrt Hrts Hrt3 Hcc Hc0 Hctb Hsuf Hfin Hccnd Hccb] El Hs.
  assert (forall j, tt_accepted (tkn tk' j) = tt_accepted (tkn tk j)) as E1 by (intro j; apply Hs).
  assert (forall j, tt_started (tkn tk' j) = tt_started (tkn tk j)) as E2 by (intro j; apply Hs).
  assert (forall j, tt_fin (tkn tk' j) = tt_fin (tkn tk j)) as E3 by (intro j; apply Hs).
  assert (forall j, tt_fincount (tkn tk' j) = tt_fincount (tkn tk j)) as E4 by (intro j; apply Hs).
  assert (forall j, tt_cancel0 (tkn tk' j) = tt_cancel0 (tkn tk j)) as E5 by (intro j; apply Hs).
  assert (forall j, tt_cancel1 (tkn tk' j) = tt_cancel1 (tkn tk j)) as E6 by (intro j; apply Hs).
  assert (forall j, tt_withdrawn (tkn tk' j) = tt_withdrawn (tkn tk j)) as E7 by (intro j; apply Hs).
  constructor; try assumption.
  - congruence.
  - intros z Hz. destruct (Hq z Hz) as (i & Hi). exists i. rewrite E1, E2, E3, E4, E6. exact Hi.
  - intros i. rewrite E1, E2, E5. apply Hta.
  - intros w k i rest Hn Hk. rewrite E1, E2, E3, E4. eapply Hhold; eassumption.
  - intros i. rewrite E1, E2, E3, E6. apply Htb.
  - intros i. rewrite E5, E7. apply Hte.
  - intros i. rewrite E5. apply Ht3.
  - intros w k i rest. rewrite E6. apply Htf.
  - intros i w. rewrite E2. apply Hrts.
  - intros w k i rest. rewrite E6. apply Hcc.
  - intros i. rewrite E1, E5. apply Hc0.
  - intros i r. rewrite E3. apply Hfin.
Qed.

(** * a task is submitted *)
Lemma tkn_snoc tk k0 i :
  tkn (tk ++ [k0]) i = if Nat.ltb i (length tk) then tkn tk i else if Nat.eqb i (length tk) then k0 else ttrk0 0 false.
Proof.
  destruct (Nat.ltb i (length tk)) eqn:E1.
  - apply Nat.ltb_lt in E1. apply tkn_snoc_old, E1.
  - apply Nat.ltb_ge in E1. destruct (Nat.eqb i (length tk)) eqn:E2.
    + apply Nat.eqb_eq in E2. subst. apply tkn_snoc_new.
    + apply Nat.eqb_neq in E2. apply tkn_out. rewrite app_length. cbn [length]. lia.
Qed.

Lemma tkn_snoc_lt tk k0 i : (i < length tk)%nat -> tkn (tk ++ [k0]) i = tkn tk i.
Proof. apply tkn_snoc_old. Qed.

Lemma tkn_snoc_ge tk k0 i : (length tk <= i)%nat -> tkn (tk ++ [k0]) i = (if Nat.eqb i (length tk) then k0 else ttrk0 0 false) /\ tkn tk i = ttrk0 0 false.
Proof.
  intro H. rewrite tkn_snoc. assert (Nat.ltb i (length tk) = false) as -> by (apply Nat.ltb_ge, H).
  split; [reflexivity | apply tkn_out, H].
Qed.

Lemma JT_submit ws tqi tqi' tb tk ct cc rt h body b :
  JT ws tqi tb tk ct cc rt h ->
  (match b return Prop with
   | true => (forall y, cnt y tqi' = (one y (Z.of_nat (length tb)) + cnt y tqi)%nat) /\ body_from MRun body = true
   | false => tqi' = tqi
   end) ->
  JT ws tqi' (tb ++ [body]) (tk ++ [ttrk0 0 b]) ct cc rt h.
Proof.
  intros [Hlen Hq Hta Hhold Hinj Hmode Htb Hte Ht3 Htf Hrtnd Hrt Hrts Hrt3 Hcc Hc0 Hctb Hsuf Hfin Hccnd Hccb] Hb.
  set (n := length tb) in *.
  assert (forall i, (i < n)%nat -> tkn (tk ++ [ttrk0 0 b]) i = tkn tk i) as Hold.
  { intros i Hi. apply tkn_snoc_lt. lia. }
  assert (tkn (tk ++ [ttrk0 0 b]) n = ttrk0 0 b) as Hnew by (rewrite <- Hlen; apply tkn_snoc_new).
  assert (forall i, (i < n)%nat -> nth i (tb ++ [body]) [] = nth i tb []) as Hbo by (intros i Hi; apply app_nth1; exact Hi).
  assert (forall z, In z tqi -> exists i, z = Z.of_nat i /\ (i < n)%nat) as Hlt.
  { intros z Hz. destruct (Hq z Hz) as (i & -> & Hi & _). eauto. }
  assert (forall z, In z tqi' -> In z tqi \/ (b = true /\ z = Z.of_nat n)) as Hin'.
  { intros z Hz. destruct b; [|left; rewrite <- Hb; exact Hz]. destruct Hb as [Hc _].
    apply cnt_In in Hz. rewrite Hc in Hz. destruct (Z.eq_dec z (Z.of_nat n)) as [->|Hne]; [right; auto|].
    rewrite one_diff in Hz by congruence. left. apply cnt_In. lia. }
  assert (forall z, In z tqi -> In z tqi') as Hin.
  { intros z Hz. destruct b; [|rewrite Hb; exact Hz]. destruct Hb as [Hc _]. apply cnt_In. rewrite Hc. apply cnt_In in Hz. lia. }
  assert (forall i, (i < n)%nat -> In (Z.of_nat i) tqi' -> In (Z.of_nat i) tqi) as Hback.
  { intros i Hi Hz. destruct (Hin' _ Hz) as [H|[_ H]]; [exact H|]. apply Nat2Z.inj in H. lia. }
  assert (forall i w, In (i, w) rt -> (i < n)%nat) as Hrtb.
  { intros i w Hin0. destruct (Hrts _ _ Hin0) as [H _]. destruct (lt_dec i n) as [Hl|Hge]; [exact Hl|].
    rewrite tkn_out in H by lia. cbn in H. congruence. }
  assert (forall w k i rest, nth_error ws w = Some k -> k_task k = Some (i, rest) -> (i < n)%nat) as Hhb.
  { intros w k i rest Hn Hk. apply (Hhold _ _ _ _ Hn Hk). }
  constructor; try assumption.
  - rewrite !app_length. cbn [length]. lia.
  - intros z Hz. rewrite app_length. cbn [length]. destruct (Hin' z Hz) as [Hz0|[-> ->]].
    + destruct (Hq z Hz0) as (i & -> & Hi & Hc & H1). exists i. rewrite (Hold i Hi), (Hbo i Hi).
      split; [reflexivity|]. split; [lia|]. split; [|exact H1].
      destruct b; [|rewrite Hb; exact Hc]. destruct Hb as [Hcnt _]. rewrite Hcnt, one_diff by lia. exact Hc.
    + destruct Hb as [Hcnt Hbody]. exists n. rewrite Hnew. fold n. split; [reflexivity|]. split; [lia|]. split.
      * rewrite Hcnt, one_same. rewrite notin_cnt0; [reflexivity|]. intro H. destruct (Hlt _ H) as (i & E & Hi). apply Nat2Z.inj in E. lia.
      * cbn [ttrk0 tt_accepted tt_started tt_fin tt_fincount tt_cancel1]. unfold n. rewrite nth_middle. auto 10.
  - intros i. rewrite app_length. cbn [length]. intros Hi. destruct (lt_dec i n) as [Hl|Hge].
    + rewrite (Hold i Hl). intros H1 H2 H3. apply Hin, Hta; assumption.
    + assert (i = n) as -> by (fold n in Hi; lia). rewrite Hnew. cbn [ttrk0 tt_accepted]. intros ->.
      intros _ _. destruct Hb as [Hcnt _]. apply cnt_In. rewrite Hcnt, one_same. lia.
  - intros w k i rest Hn Hk. pose proof (Hhb _ _ _ _ Hn Hk) as Hi. rewrite (Hold i Hi), app_length. cbn [length].
    destruct (Hhold _ _ _ _ Hn Hk) as (H1 & H2 & H3 & H4 & H5 & H6). split; [lia|]. repeat (split; [assumption|]).
    intro Hz. apply H6, Hback; assumption.
  - intros i. rewrite app_length. cbn [length]. intros Hi. destruct (lt_dec i n) as [Hl|Hge].
    + rewrite (Hold i Hl). apply Htb, Hl.
    + assert (i = n) as -> by (fold n in Hi; lia). rewrite Hnew. cbn [ttrk0 tt_started]. congruence.
  - intros i Hz. destruct (Hin' _ Hz) as [Hz0|[-> E]].
    + destruct (Hlt _ Hz0) as (j & E & Hj). apply Nat2Z.inj in E. subst j. rewrite (Hold i Hj). apply Hte, Hz0.
    + apply Nat2Z.inj in E. subst i. rewrite Hnew. cbn [ttrk0 tt_cancel0]. discriminate.
  - intros i Hc Hz. pose proof (Hctb _ Hc) as Hi. fold n in Hi. rewrite (Hold i Hi). apply Ht3; [exact Hc | apply Hback; assumption].
  - intros w k i rest Hn Hl Hin0 Hk. rewrite (Hold i (Hhb _ _ _ _ Hn Hk)). eapply Htf; eassumption.
  - intros i w Hin0. rewrite (Hold i (Hrtb _ _ Hin0)). apply Hrts, Hin0.
  - intros w k i rest Hn Hl Hk. rewrite (Hold i (Hhb _ _ _ _ Hn Hk)). eapply Hcc; eassumption.
  - intros i. destruct (lt_dec i n) as [Hl|Hge]; [rewrite (Hold i Hl); apply Hc0|].
    destruct (tkn_snoc_ge tk (ttrk0 0 b) i ltac:(lia)) as [-> _]. destruct (Nat.eqb i (length tk)); cbn; discriminate.
  - intros i Hc. rewrite app_length. cbn [length]. specialize (Hctb _ Hc). lia.
  - intros w k i rest Hn Hk. rewrite (Hbo i (Hhb _ _ _ _ Hn Hk)). eapply Hsuf; eassumption.
  - intros i r. destruct (lt_dec i n) as [Hl|Hge].
    + rewrite (Hold i Hl), (Hbo i Hl). apply Hfin.
    + destruct (tkn_snoc_ge tk (ttrk0 0 b) i ltac:(lia)) as [-> _]. destruct (Nat.eqb i (length tk)); cbn; discriminate.
Qed.

Lemma JR_submit W R N pst tqi tqi' tk b :
  JR W R N pst tqi tk ->
  (forall z, In z tqi -> exists i, z = Z.of_nat i /\ (i < length tk)%nat) ->
  (forall z, In z tqi -> In z tqi') ->
  (forall z, In z tqi' -> In z tqi \/ (b = true /\ z = Z.of_nat (length tk))) ->
  (b = true -> In (Z.of_nat (length tk)) tqi') ->
  JR W R N pst tqi' (tk ++ [ttrk0 0 b]).
Proof.
  intros [Hrnd Hwnd Htg Htg2 Htg3 Htn Htw Hcons] Hlt Hin Hin' Hnew.
  set (n := length tk) in *.
  assert (forall i, (i < n)%nat -> tkn (tk ++ [ttrk0 0 b]) i = tkn tk i) as Hold by (intros i Hi; apply tkn_snoc_lt; exact Hi).
  assert (forall i, (n <= i)%nat -> tkn tk i = ttrk0 0 false /\
            tt_fin (tkn (tk ++ [ttrk0 0 b]) i) = None /\ tt_consumed (tkn (tk ++ [ttrk0 0 b]) i) = false /\
            tt_cleaned (tkn (tk ++ [ttrk0 0 b]) i) = false /\ tt_cancel0 (tkn (tk ++ [ttrk0 0 b]) i) = false) as Hge.
  { intros i Hi. destruct (tkn_snoc_ge tk (ttrk0 0 b) i Hi) as [-> E]. split; [exact E|].
    destruct (Nat.eqb i (length tk)); cbn; auto. }
  assert (forall i, (i < n)%nat -> ~ In (Z.of_nat i) tqi -> ~ In (Z.of_nat i) tqi') as Hfwd.
  { intros i Hi Hn Hz. destruct (Hin' _ Hz) as [H|[_ H]]; [contradiction|]. apply Nat2Z.inj in H. lia. }
  constructor; try assumption.
  - intros i r Hr. destruct (lt_dec i n) as [Hl|Hg].
    + rewrite (Hold i Hl). destruct (Htg i r Hr) as [(H1 & [H2|(H2 & H3 & H4 & H5)])|H]; [auto | | auto].
      left. split; [exact H1|]. right. auto using Hfwd.
    + destruct (Hge i ltac:(lia)) as (E0 & E1 & E2 & E3 & E4).
      destruct (Htg i r Hr) as [(H1 & [H2|(H2 & H3 & H4 & H5)])|(H1 & H2 & H3)]; rewrite E0 in *; try discriminate.
      right. rewrite E1. auto.
  - intros i. destruct (lt_dec i n) as [Hl|Hg]; [rewrite (Hold i Hl); apply Htg2|].
    destruct (Hge i ltac:(lia)) as (_ & E1 & _). congruence.
  - intros i. rewrite app_length. cbn [length]. intro Hi. destruct (lt_dec i n) as [Hl|Hg].
    + rewrite (Hold i Hl). intros H1 H2 H3. apply Htg3; auto; intro Hz; apply H3, Hin, Hz.
    + assert (i = n) as -> by (fold n in Hi; lia). unfold n. rewrite tkn_snoc_new. cbn [ttrk0 tt_accepted].
      intros -> _ H3. exfalso. apply H3, Hnew. reflexivity.
  - intros i Hi. destruct (lt_dec i n) as [Hl|Hg]; [rewrite (Hold i Hl); apply Htn, Hi|].
    exfalso. specialize (Htn i Hi). destruct (Hge i ltac:(lia)) as (E0 & _). rewrite E0 in Htn. discriminate.
  - intros i Hi. destruct (lt_dec i n) as [Hl|Hg]; [rewrite (Hold i Hl); apply Htw, Hi|].
    destruct (Hge i ltac:(lia)) as (_ & E1 & _). left. exact E1.
  - intros i. destruct (lt_dec i n) as [Hl|Hg].
    + rewrite (Hold i Hl). intro Hc. destruct (Hcons i Hc) as [H|[[H1 H2]|H]]; [auto | | auto]. right. left. auto using Hfwd.
    + destruct (Hge i ltac:(lia)) as (_ & _ & E2 & _). congruence.
Qed.

(** * a result is taken *)
Definition cons_rec (k : ttrk) : ttrk :=
  {| tt_pool := tt_pool k; tt_accepted := tt_accepted k; tt_started := tt_started k; tt_fin := tt_fin k;
     tt_fincount := tt_fincount k; tt_cancel0 := tt_cancel0 k; tt_cancel1 := tt_cancel1 k;
     tt_consumed := true; tt_cleaned := tt_cleaned k; tt_withdrawn := tt_withdrawn k |}.

Lemma tk_same_set tk i k' : tk_same k' (tkn tk i) -> forall j, tk_same (tkn (set_nth i k' tk) j) (tkn tk j).
Proof.
  intros Hs j. destruct (Nat.eq_dec j i) as [->|Hne].
  - destruct (lt_dec i (length tk)) as [Hl|Hg].
    + rewrite tkn_set_same by exact Hl. exact Hs.
    + unfold set_nth. rewrite firstn_all2, skipn_all2 by lia. rewrite app_nil_r. apply tk_same_refl.
  - rewrite tkn_set_other by congruence. apply tk_same_refl.
Qed.

Lemma JR_take W R N pst tqi tk i r :
  JR W R N pst tqi tk -> In (i, r) R -> (i < length tk)%nat ->
  JR W (assoc_del i R) N pst tqi (set_nth i (cons_rec (tkn tk i)) tk).
Proof.
  intros HR Hin Hi. pose proof HR as [Hrnd Hwnd Htg Htg2 Htg3 Htn Htw Hcons].
  assert (forall j, j <> i -> tkn (set_nth i (cons_rec (tkn tk i)) tk) j = tkn tk j) as Ho.
  { intros j Hj. apply tkn_set_other. congruence. }
  assert (tkn (set_nth i (cons_rec (tkn tk i)) tk) i = cons_rec (tkn tk i)) as Hs by (apply tkn_set_same, Hi).
  constructor; try assumption.
  - apply assoc_del_NoDup, Hrnd.
  - intros j r' Hr. assert (j <> i) as Hji.
    { intros ->. apply (assoc_del_NoDup_notin i R Hrnd). apply in_map_iff. exists (i, r'). auto. }
    rewrite (Ho j Hji). apply Htg. eapply assoc_del_In, Hr.
  - intros j. destruct (Nat.eq_dec j i) as [->|Hji].
    + rewrite Hs. cbn [cons_rec tt_consumed]. discriminate.
    + rewrite (Ho j Hji), assoc_get_del_other by congruence. apply Htg2.
  - intros j. rewrite set_nth_length. destruct (Nat.eq_dec j i) as [->|Hji].
    + rewrite Hs. cbn [cons_rec tt_consumed]. discriminate.
    + rewrite (Ho j Hji), assoc_get_del_other by congruence. apply Htg3.
  - intros j Hj. destruct (Nat.eq_dec j i) as [->|Hji].
    + rewrite Hs. cbn [cons_rec tt_cleaned]. apply Htn, Hj.
    + rewrite (Ho j Hji). apply Htn, Hj.
  - intros j Hj. destruct (Nat.eq_dec j i) as [->|Hji].
    + rewrite Hs. cbn [cons_rec tt_consumed]. auto.
    + rewrite (Ho j Hji). apply Htw, Hj.
  - intros j. destruct (Nat.eq_dec j i) as [->|Hji].
    + rewrite Hs. cbn [cons_rec tt_fin tt_started]. intros _.
      destruct (Htg i r Hin) as [(H1 & [H2|(H2 & H3 & H4 & H5)])|(H1 & H2 & H3)]; [left; congruence | auto | auto].
    + rewrite (Ho j Hji). apply Hcons.
Qed.

Lemma JR_waits_remove W R N pst tqi tk i : JR W R N pst tqi tk -> JR (remove_nat i W) R N pst tqi tk.
Proof.
  intros [Hrnd Hwnd Htg Htg2 Htg3 Htn Htw Hcons]. constructor; try assumption.
  - apply remove_nat_NoDup, Hwnd.
  - intros j Hj. apply Htw. eapply remove_nat_In, Hj.
Qed.

Lemma JR_waits_add W R N pst tqi tk i :
  JR W R N pst tqi tk -> (tt_fin (tkn tk i) = None \/ tt_consumed (tkn tk i) = true \/ tt_cleaned (tkn tk i) = true) ->
  JR (if mem_nat i W then W else W ++ [i]) R N pst tqi tk.
Proof.
  intros HR Hc. destruct (mem_nat i W) eqn:Em; [exact HR|]. apply mem_nat_false in Em.
  destruct HR as [Hrnd Hwnd Htg Htg2 Htg3 Htn Htw Hcons]. constructor; try assumption.
  - apply NoDup_snoc; assumption.
  - intros j Hj. apply in_app_iff in Hj as [Hj|[<-|[]]]; [apply Htw, Hj | exact Hc].
Qed.

(** the verdict of the oracle on a result that is handed out *)
Lemma JR_result_flag W R N pst tqi tk i r (called : bool) :
  JR W R N pst tqi tk -> In (i, r) R -> (pst = PStopped -> called = true) ->
  ((match tt_fin (tkn tk i) with Some o => tres_eqb r o | None => false end ||
    tres_eqb r (TErr TMCancelled) && tt_cancel0 (tkn tk i) && Nat.eqb (tt_started (tkn tk i)) 0) && negb (tt_consumed (tkn tk i)) ||
   tres_eqb r (TErr TMStopped) && called && (is_none (tt_fin (tkn tk i)) || tt_consumed (tkn tk i) || tt_cleaned (tkn tk i))) = true.
Proof.
  intros HR Hin Hc. destruct (jr_tg _ _ _ _ _ _ HR _ _ Hin) as [(H1 & [H2|(H2 & H3 & H4 & H5)])|(H1 & H2 & H3)].
  - rewrite H1, H2, tres_eqb_refl. reflexivity.
  - subst r. rewrite H1, H3, H4. cbn. rewrite orb_true_r. reflexivity.
  - subst r. rewrite (Hc H2). cbn [tres_eqb tmsg_eqb andb]. apply orb_true_iff. right.
    destruct H3 as [H3|[H3|H3]]; rewrite H3; cbn; rewrite ?orb_true_r; reflexivity.
Qed.

(** * the handle of a task is cleaned *)
Definition clean_rec (k : ttrk) : ttrk :=
  {| tt_pool := tt_pool k; tt_accepted := tt_accepted k; tt_started := tt_started k; tt_fin := tt_fin k;
     tt_fincount := tt_fincount k; tt_cancel0 := tt_cancel0 k; tt_cancel1 := tt_cancel1 k;
     tt_consumed := tt_consumed k; tt_cleaned := true; tt_withdrawn := tt_withdrawn k || tt_cancel0 k |}.

Lemma JT_clean ws tqi tb tk ct ct' cc rt h i :
  JT ws tqi tb tk ct cc rt h -> (i < length tk)%nat ->
  (forall j, j <> i -> In j ct -> In j ct') -> (forall j, In j ct' -> In j ct) ->
  JT ws tqi tb (set_nth i (clean_rec (tkn tk i)) tk) ct' cc rt h.
Proof.
  intros [Hlen Hq Hta Hhold Hinj Hmode Htb Hte Ht3 Htf Hrtnd Hrt Hrts Hrt3 Hcc Hc0 Hctb Hsuf Hfin Hccnd Hccb] Hi Hc1 Hc2.
  set (tk' := set_nth i (clean_rec (tkn tk i)) tk).
  assert (forall j, tt_accepted (tkn tk' j) = tt_accepted (tkn tk j) /\ tt_started (tkn tk' j) = tt_started (tkn tk j) /\
                    tt_fin (tkn tk' j) = tt_fin (tkn tk j) /\ tt_fincount (tkn tk' j) = tt_fincount (tkn tk j) /\
                    tt_cancel0 (tkn tk' j) = tt_cancel0 (tkn tk j) /\ tt_cancel1 (tkn tk' j) = tt_cancel1 (tkn tk j)) as Hs.
  { intro j. unfold tk'. destruct (Nat.eq_dec j i) as [->|Hne].
    - rewrite tkn_set_same by exact Hi. cbn. auto 10.
    - rewrite tkn_set_other by congruence. auto 10. }
  assert (forall j, tt_accepted (tkn tk' j) = tt_accepted (tkn tk j)) as E1 by (intro j; apply Hs).
  assert (forall j, tt_started (tkn tk' j) = tt_started (tkn tk j)) as E2 by (intro j; apply Hs).
  assert (forall j, tt_fin (tkn tk' j) = tt_fin (tkn tk j)) as E3 by (intro j; apply Hs).
  assert (forall j, tt_fincount (tkn tk' j) = tt_fincount (tkn tk j)) as E4 by (intro j; apply Hs).
  assert (forall j, tt_cancel0 (tkn tk' j) = tt_cancel0 (tkn tk j)) as E5 by (intro j; apply Hs).
  assert (forall j, tt_cancel1 (tkn tk' j) = tt_cancel1 (tkn tk j)) as E6 by (intro j; apply Hs).
  constructor; try assumption.
  - unfold tk'. rewrite set_nth_length. exact Hlen.
  - intros z Hz. destruct (Hq z Hz) as (j & Hj). exists j. rewrite E1, E2, E3, E4, E6. exact Hj.
  - intros j. rewrite E1, E2, E5. apply Hta.
  - intros w k j rest Hn Hk. rewrite E1, E2, E3, E4. eapply Hhold; eassumption.
  - intros j. rewrite E1, E2, E3, E6. apply Htb.
  - intros j Hz. rewrite E5. intros H0 Hw. destruct (Nat.eq_dec j i) as [->|Hne].
    + exfalso. unfold tk' in Hw. rewrite tkn_set_same in Hw by exact Hi. cbn [clean_rec tt_withdrawn] in Hw. rewrite H0, orb_true_r in Hw. discriminate.
    + unfold tk' in Hw. rewrite tkn_set_other in Hw by congruence. apply Hc1; [exact Hne | apply Hte; assumption].
  - intros j Hj Hz. rewrite E5. apply Ht3; [apply Hc2, Hj | exact Hz].
  - intros w k j rest. rewrite E6. apply Htf.
  - intros j w. rewrite E2. apply Hrts.
  - intros w k j rest. rewrite E6. apply Hcc.
  - intros j. rewrite E1, E5. apply Hc0.
  - intros j Hj. apply Hctb, Hc2, Hj.
  - intros j r. rewrite E3. apply Hfin.
Qed.

Lemma JR_clean W R R' N N' pst tqi tk i :
  JR W R N pst tqi tk -> (i < length tk)%nat ->
  NoDup (map fst R') -> (forall j r, In (j, r) R' -> In (j, r) R /\ j <> i) -> (forall j, j <> i -> assoc_get j R' = assoc_get j R) ->
  (forall j, In j N' -> j = i \/ In j N) ->
  JR W R' N' pst tqi (set_nth i (clean_rec (tkn tk i)) tk).
Proof.
  intros [Hrnd Hwnd Htg Htg2 Htg3 Htn Htw Hcons] Hi Hnd HR1 HR2 HN.
  assert (forall j, j <> i -> tkn (set_nth i (clean_rec (tkn tk i)) tk) j = tkn tk j) as Ho.
  { intros j Hj. apply tkn_set_other. congruence. }
  assert (tkn (set_nth i (clean_rec (tkn tk i)) tk) i = clean_rec (tkn tk i)) as Hs by (apply tkn_set_same, Hi).
  constructor; try assumption.
  - intros j r Hr. destruct (HR1 _ _ Hr) as [Hr0 Hne]. rewrite (Ho j Hne). apply Htg, Hr0.
  - intros j. destruct (Nat.eq_dec j i) as [->|Hne].
    + rewrite Hs. cbn [clean_rec tt_cleaned]. discriminate.
    + rewrite (Ho j Hne), (HR2 j Hne). apply Htg2.
  - intros j. rewrite set_nth_length. destruct (Nat.eq_dec j i) as [->|Hne].
    + rewrite Hs. cbn [clean_rec tt_cleaned]. discriminate.
    + rewrite (Ho j Hne), (HR2 j Hne). apply Htg3.
  - intros j Hj. destruct (Nat.eq_dec j i) as [->|Hne].
    + rewrite Hs. reflexivity.
    + rewrite (Ho j Hne). destruct (HN j Hj) as [->|H]; [congruence | apply Htn, H].
  - intros j Hj. destruct (Nat.eq_dec j i) as [->|Hne].
    + rewrite Hs. cbn [clean_rec tt_cleaned]. auto.
    + rewrite (Ho j Hne). apply Htw, Hj.
  - intros j. destruct (Nat.eq_dec j i) as [->|Hne].
    + rewrite Hs. cbn [clean_rec tt_consumed tt_fin tt_started]. apply Hcons.
    + rewrite (Ho j Hne). apply Hcons.
Qed.

(** * a cancellation is requested *)
Definition cancel_rec (k : ttrk) : ttrk :=
  {| tt_pool := tt_pool k; tt_accepted := tt_accepted k; tt_started := tt_started k; tt_fin := tt_fin k;
     tt_fincount := tt_fincount k;
     tt_cancel0 := tt_cancel0 k || Nat.eqb (tt_started k) 0;
     tt_cancel1 := tt_cancel1 k || negb (Nat.eqb (tt_started k) 0);
     tt_consumed := tt_consumed k; tt_cleaned := tt_cleaned k; tt_withdrawn := tt_withdrawn k |}.

(** the tracker entry of [i] changes in [tt_cancel0]/[tt_cancel1] only, upwards *)
Definition tk_cancel (tk tk' : list ttrk) (i : nat) (c0 c1 : bool) : Prop :=
  length tk' = length tk /\
  (forall j, j <> i -> tkn tk' j = tkn tk j) /\
  tt_accepted (tkn tk' i) = tt_accepted (tkn tk i) /\ tt_started (tkn tk' i) = tt_started (tkn tk i) /\
  tt_fin (tkn tk' i) = tt_fin (tkn tk i) /\ tt_fincount (tkn tk' i) = tt_fincount (tkn tk i) /\
  tt_consumed (tkn tk' i) = tt_consumed (tkn tk i) /\ tt_cleaned (tkn tk' i) = tt_cleaned (tkn tk i) /\
  tt_withdrawn (tkn tk' i) = tt_withdrawn (tkn tk i) /\
  tt_cancel0 (tkn tk' i) = tt_cancel0 (tkn tk i) || c0 /\ tt_cancel1 (tkn tk' i) = tt_cancel1 (tkn tk i) || c1.

Lemma tk_cancel_refl tk i : tk_cancel tk tk i false false.
Proof. unfold tk_cancel. rewrite !orb_false_r. auto 12. Qed.

Lemma tk_cancel_set tk i : (i < length tk)%nat ->
  tk_cancel tk (set_nth i (cancel_rec (tkn tk i)) tk) i (Nat.eqb (tt_started (tkn tk i)) 0) (negb (Nat.eqb (tt_started (tkn tk i)) 0)).
Proof.
  intro Hi. unfold tk_cancel. rewrite set_nth_length. split; [reflexivity|].
  split; [intros j Hj; apply tkn_set_other; congruence|]. rewrite tkn_set_same by exact Hi. cbn. auto 12.
Qed.

Lemma JR_cancel W R N pst tqi tk tk' i c0 c1 : JR W R N pst tqi tk -> tk_cancel tk tk' i c0 c1 -> JR W R N pst tqi tk'.
Proof.
  intros [Hrnd Hwnd Htg Htg2 Htg3 Htn Htw Hcons] (El & Ho & A1 & A2 & A3 & A4 & A5 & A6 & A7 & A8 & A9).
  assert (forall j, tt_fin (tkn tk' j) = tt_fin (tkn tk j) /\ tt_started (tkn tk' j) = tt_started (tkn tk j) /\
                    tt_consumed (tkn tk' j) = tt_consumed (tkn tk j) /\ tt_cleaned (tkn tk' j) = tt_cleaned (tkn tk j) /\
                    tt_accepted (tkn tk' j) = tt_accepted (tkn tk j) /\
                    (tt_cancel0 (tkn tk j) = true -> tt_cancel0 (tkn tk' j) = true)) as Hs.
  { intro j. destruct (Nat.eq_dec j i) as [->|Hne]; [|rewrite (Ho j Hne); auto 10].
    repeat (split; [assumption|]). rewrite A8. intros ->. reflexivity. }
  constructor; try assumption.
  - intros j r Hr. destruct (Hs j) as (E1 & E2 & E3 & E4 & E5 & E6). rewrite E1, E2, E3, E4.
    destruct (Htg j r Hr) as [(H1 & [H2|(H2 & H3 & H4 & H5)])|H]; auto 10.
  - intros j. destruct (Hs j) as (E1 & E2 & E3 & E4 & E5 & E6). rewrite E1, E3, E4. apply Htg2.
  - intros j. destruct (Hs j) as (E1 & E2 & E3 & E4 & E5 & E6). rewrite El, E2, E3, E4, E5. apply Htg3.
  - intros j Hj. destruct (Hs j) as (E1 & E2 & E3 & E4 & E5 & E6). rewrite E4. apply Htn, Hj.
  - intros j Hj. destruct (Hs j) as (E1 & E2 & E3 & E4 & E5 & E6). rewrite E1, E3, E4. apply Htw, Hj.
  - intros j. destruct (Hs j) as (E1 & E2 & E3 & E4 & E5 & E6). rewrite E1, E2, E3. apply Hcons.
Qed.

Lemma JT_cancel ws tqi tb tk tk' ct ct' cc cc' rt h i c0 c1 :
  JT ws tqi tb tk ct cc rt h -> tk_cancel tk tk' i c0 c1 -> (i < length tb)%nat ->
  (forall j, In j ct -> In j ct') -> (forall j, In j ct' -> In j ct \/ j = i) -> (forall v, In v cc -> In v cc') ->
  (c0 = true -> tt_accepted (tkn tk i) = true /\ In i ct') ->
  (In i ct' -> ~ In i ct -> In (Z.of_nat i) tqi -> c0 = true) ->
  (c1 = true -> tt_started (tkn tk i) <> 0%nat) ->
  (c1 = true -> tt_cancel1 (tkn tk i) = false ->
   forall v kv rest, nth_error ws v = Some kv -> live kv = true -> k_task kv = Some (i, rest) -> In v cc') ->
  (forall v, In v cc' -> ~ In v cc -> forall kv j rest, nth_error ws v = Some kv -> live kv = true -> k_task kv = Some (j, rest) ->
     j = i /\ tt_cancel1 (tkn tk i) || c1 = true) ->
  NoDup cc' -> (forall v, In v cc' -> (v < length ws)%nat) ->
  JT ws tqi tb tk' ct' cc' rt h.
Proof.
  intros [Hlen Hq Hta Hhold Hinj Hmode Htb Hte Ht3 Htf Hrtnd Hrt Hrts Hrt3 Hcc Hc0 Hctb Hsuf Hfin Hccnd Hccb]
         (El & Ho & A1 & A2 & A3 & A4 & A5 & A6 & A7 & A8 & A9) Hi Ict Ict' Icc C0 C0' C1 C1' Cnew Hnd' Hb'.
  assert (forall j, tt_accepted (tkn tk' j) = tt_accepted (tkn tk j) /\ tt_started (tkn tk' j) = tt_started (tkn tk j) /\
                    tt_fin (tkn tk' j) = tt_fin (tkn tk j) /\ tt_fincount (tkn tk' j) = tt_fincount (tkn tk j) /\
                    tt_withdrawn (tkn tk' j) = tt_withdrawn (tkn tk j)) as Hs.
  { intro j. destruct (Nat.eq_dec j i) as [->|Hne]; [auto 10 | rewrite (Ho j Hne); auto 10]. }
  assert (forall j, tt_accepted (tkn tk' j) = tt_accepted (tkn tk j)) as E1 by (intro j; apply Hs).
  assert (forall j, tt_started (tkn tk' j) = tt_started (tkn tk j)) as E2 by (intro j; apply Hs).
  assert (forall j, tt_fin (tkn tk' j) = tt_fin (tkn tk j)) as E3 by (intro j; apply Hs).
  assert (forall j, tt_fincount (tkn tk' j) = tt_fincount (tkn tk j)) as E4 by (intro j; apply Hs).
  assert (forall j, tt_withdrawn (tkn tk' j) = tt_withdrawn (tkn tk j)) as E7 by (intro j; apply Hs).
  assert (forall j, tt_cancel0 (tkn tk j) = true -> tt_cancel0 (tkn tk' j) = true) as M0.
  { intro j. destruct (Nat.eq_dec j i) as [->|Hne]; [rewrite A8; intros ->; reflexivity | rewrite (Ho j Hne); auto]. }
  assert (forall j, tt_cancel1 (tkn tk j) = true -> tt_cancel1 (tkn tk' j) = true) as M1.
  { intro j. destruct (Nat.eq_dec j i) as [->|Hne]; [rewrite A9; intros ->; reflexivity | rewrite (Ho j Hne); auto]. }
  constructor; try assumption.
  - congruence.
  - intros z Hz. destruct (Hq z Hz) as (j & -> & Hj & Hc & H1 & H2 & H3 & H4 & H5 & H6). exists j.
    rewrite E1, E2, E3, E4. split; [reflexivity|]. repeat (split; [assumption|]).
    destruct (Nat.eq_dec j i) as [->|Hne]; [|rewrite (Ho j Hne); exact H6].
    rewrite A9, H6. destruct c1; [|reflexivity]. exfalso. apply (C1 eq_refl). exact H2.
  - intros j Hj. rewrite E1, E2. intros H1 H2 H3. apply Hta; try assumption.
    destruct (tt_cancel0 (tkn tk j)) eqn:E; [|reflexivity]. rewrite (M0 j E) in H3. discriminate.
  - intros w k j rest Hn Hk. rewrite E1, E2, E3, E4. eapply Hhold; eassumption.
  - intros j Hj. rewrite E1, E2, E3. intros H1 H2 H3 H4. apply Htb; try assumption.
    destruct (tt_cancel1 (tkn tk j)) eqn:E; [|reflexivity]. rewrite (M1 j E) in H4. discriminate.
  - intros j Hz. rewrite E7. intros H0 Hw. destruct (Nat.eq_dec j i) as [->|Hne].
    + rewrite A8 in H0. destruct (tt_cancel0 (tkn tk i)) eqn:E; [apply Ict, Hte; assumption|].
      cbn [orb] in H0. apply (C0 H0).
    + rewrite (Ho j Hne) in H0. apply Ict, Hte; assumption.
  - intros j Hj Hz. destruct (Ict' j Hj) as [Hj0| ->].
    + apply M0, Ht3; assumption.
    + destruct (In_dec Nat.eq_dec i ct) as [Hi0|Hi0]; [apply M0, Ht3; assumption|].
      rewrite A8, (C0' Hj Hi0 Hz). apply orb_true_r.
  - intros v kv j rest Hv Hlv Hin Hkv. destruct (In_dec Nat.eq_dec v cc) as [Hv0|Hv0].
    + apply M1. eapply Htf; eassumption.
    + destruct (Cnew v Hin Hv0 _ _ _ Hv Hlv Hkv) as [-> H]. rewrite A9. exact H.
  - intros j w. rewrite E2. apply Hrts.
  - intros v kv j rest Hv Hlv Hkv Hc. destruct (Nat.eq_dec j i) as [->|Hne].
    + rewrite A9 in Hc. destruct (tt_cancel1 (tkn tk i)) eqn:E; [apply Icc; eapply Hcc; eassumption|].
      cbn [orb] in Hc. eapply (C1' Hc eq_refl); eassumption.
    + rewrite (Ho j Hne) in Hc. apply Icc. eapply Hcc; eassumption.
  - intros j. rewrite E1. destruct (Nat.eq_dec j i) as [->|Hne]; [|rewrite (Ho j Hne); apply Hc0].
    rewrite A8. destruct (tt_cancel0 (tkn tk i)) eqn:E; [intros _; apply Hc0, E|]. cbn [orb]. intro H. apply (C0 H).
  - intros j Hj. destruct (Ict' j Hj) as [Hj0| ->]; [apply Hctb, Hj0 | exact Hi].
  - intros j r. rewrite E3. apply Hfin.
Qed.

Section Ops.
Variable mx : Z.
Variable kp : Z.

Lemma J_tracker_ext tnt tnt' x d h t t' :
  J mx kp tnt x d h t ->
  po_clock t' <= pw_clock x -> po_pools t' = po_pools t -> po_tasks t' = po_tasks t -> po_workers t' = po_workers t ->
  po_c12 t' = true -> po_c01 t' = true -> (tnt' = false -> po_c11 t' = true) -> po_c02 t' = true -> po_c13 t' = true ->
  J mx kp tnt' x d h t'.
Proof.
  intros [HQ HL HP HS HT HR HW] E1 E2 E3 E4 F12 F01 F11 F02 F13.
  constructor; rewrite ?E2, ?E3; try assumption.
  - destruct HP as [P1 P2 P3 P4 P5 P6 P7 P8 P9 P10 P11 P12]. constructor; assumption.
  - destruct HW as [W1 W2 W3 W4 W5 W6]. constructor; try assumption. intro w. rewrite E4. apply W1.
Qed.

Lemma getp0 t : getp t 0 = nth 0 (po_pools t) ptrk0.
Proof. reflexivity. Qed.

(** * the read-only operations *)
Lemma op_getrunning tnt x t :
  Jop mx kp tnt x t -> Jop mx kp tnt (fst (pstep x (PGetRunning 0))) (postep 1 [mx] t (PGetRunning 0) (snd (pstep x (PGetRunning 0)))).
Proof.
  intros [HJ Hts]. cbn [pstep fst snd postep]. split; [|exact Hts].
  pose proof (j_p _ _ _ _ _ _ _ _ HJ) as HP. pose proof (j_s _ _ _ _ _ _ _ _ HJ) as HS. pose proof (j_w _ _ _ _ _ _ _ _ HJ) as HW.
  set (n := p_running (get_pool x 0)). rewrite getp0. set (k := nth 0 (po_pools t) ptrk0) in *.
  assert (0 <= n <= mx) as Hn.
  { unfold n. rewrite (jp_run _ _ _ _ HP). pose proof (nlive_nonneg (pw_workers x)). pose proof (jp_le _ _ _ _ HP) as H1.
    rewrite (jp_run _ _ _ _ HP) in H1. lia. }
  assert ((0 <=? n) && (n <=? nth 0 [mx] 0) = true) as E1 by (cbn [nth]; apply andb_true_iff; split; apply Z.leb_le; lia).
  assert (pt_quiet k = true -> (n =? pt_alive k) = true) as E2.
  { intro Hqk. destruct (js_quiet _ _ _ _ _ HS Hqk) as [H1 _]. unfold n, k. lia. }
  assert (pt_stop_ok k = true -> (n =? 0) = true) as E3.
  { intro Hok. apply (js_ok _ _ _ _ _ HS) in Hok. destruct (js_stopped _ _ _ _ _ HS Hok) as [H1 _]. unfold n. lia. }
  rewrite E1. cbn [Nat.eqb andb].
  destruct (pt_quiet k) eqn:Eq; destruct (pt_stop_ok k) eqn:Eok; rewrite ?(E2 eq_refl), ?(E3 eq_refl), ?andb_true_r;
    (eapply (J_tracker_ext tnt tnt); [exact HJ | | | | | | | | |]; autorewrite with potr; cbn [Nat.eqb];
     try reflexivity; try apply (jp_tclock _ _ _ _ HP); try apply HW; rewrite ?andb_true_r; apply HW).
Qed.

Lemma op_size tnt x t :
  Jop mx kp tnt x t -> Jop mx kp tnt (fst (pstep x (PSize 0))) (postep 1 [mx] t (PSize 0) (snd (pstep x (PSize 0)))).
Proof. intro H. exact H. Qed.

Lemma op_getstate tnt x t :
  Jop mx kp tnt x t -> Jop mx kp tnt (fst (pstep x (PGetState 0))) (postep 1 [mx] t (PGetState 0) (snd (pstep x (PGetState 0)))).
Proof.
  intros [HJ Hts]. cbn [pstep fst snd postep]. split; [|exact Hts].
  pose proof HJ as [HQ HL HP HS HT HR HW]. rewrite getp0. set (k := nth 0 (po_pools t) ptrk0) in *.
  set (pst := p_state (get_pool x 0)) in *.
  set (rank := match pst with PRunning => 0%nat | PStopping => 1%nat | PStopped => 2%nat end).
  assert (rank = prank pst) as Er by (unfold rank; destruct pst; reflexivity).
  destruct HS as [S1 S2 S3 S4 S5 S6 S7]. fold k in S2, S3, S4, S5, S7.
  assert (Nat.leb (pt_rank k) rank && (negb (pt_stop_called k) || Nat.leb 1 rank) && (negb (pt_stop_ok k) || Nat.eqb rank 2) = true) as Ef.
  { rewrite Er. apply andb_true_iff. split; [apply andb_true_iff; split|].
    - apply Nat.leb_le. exact S2.
    - destruct (pt_stop_called k) eqn:E; [|reflexivity]. cbn [negb orb]. specialize (S3 eq_refl). destruct pst; cbn; congruence.
    - destruct (pt_stop_ok k) eqn:E; [|reflexivity]. cbn [negb orb]. assert (pst = PStopped) as E' by (apply S4; reflexivity). rewrite E'. reflexivity. }
  rewrite Ef.
  assert (length (po_pools t) = 1%nat) as Hlen by exact S1.
  destruct (po_pools t) as [|k0 [|k1 l]] eqn:Epk; try discriminate. cbn [nth] in k. 
  constructor; autorewrite with potr; rewrite ?Epk; cbn [set_nth firstn skipn app nth Nat.eqb]; try assumption.
  - constructor; cbn [nth pt_rank pt_stop_called pt_stop_ok pt_quiet pt_alive]; try assumption; try reflexivity.
  - destruct HW as [W1 W2 W3 W4 W5 W6]. constructor; autorewrite with potr; cbn [Nat.eqb]; try assumption.
    rewrite W2. reflexivity.
Qed.

Lemma op_clock tnt x t c :
  Jop mx kp tnt x t -> pw_clock x <= c -> c <= U64MAX ->
  Jop mx kp tnt (fst (pstep x (PClock c))) (postep 1 [mx] t (PClock c) (snd (pstep x (PClock c)))).
Proof.
  intros [HJ Hts] H1 H2. cbn [pstep fst snd postep]. split; [|exact Hts].
  destruct HJ as [HQ HL HP HS HT HR HW]. constructor; autorewrite with pw; try assumption.
  - eapply JL_clock; [exact H1 | exact HL].
  - destruct HP as [P1 P2 P3 P4 P5 P6 P7 P8 P9 P10 P11 P12]. constructor; autorewrite with pw; try assumption.
    + destruct P3 as (Ek & Hc0 & Hcr & Hpf). split; [exact Ek|]. split; [lia|]. split; [eapply CR_mono; [exact Hcr | exact H1] | exact Hpf].
    + cbn [po_clock]. lia.
  - destruct HW as [W1 W2 W3 W4 W5 W6]. constructor; assumption.
Qed.

Lemma unquiet_quiet_off t : quiet_off (unquiet t).
Proof. unfold quiet_off. rewrite po_pools_unquiet_nth. reflexivity. Qed.

Lemma JS_unquiet pst prun tqi tqi' t :
  JS mx pst prun tqi (po_pools t) -> (pst = PStopped -> tqi' = []) -> JS mx pst prun tqi' (po_pools (unquiet t)).
Proof.
  intros [S1 S2 S3 S4 S5 S6 S7] Hst. constructor; rewrite ?po_pools_unquiet_len, ?po_pools_unquiet_nth; cbv zeta;
    cbn [pt_rank pt_stop_called pt_stop_ok pt_quiet pt_alive]; try assumption.
  - intro H. split; [apply (S6 H) | apply Hst, H].
  - discriminate.
Qed.

(** * PSubmit *)
Lemma op_submit tnt x t body prio :
  Jop mx kp tnt x t -> body_from MRun body = true ->
  Jop mx kp tnt (fst (pstep x (PSubmit 0 body prio))) (postep 1 [mx] t (PSubmit 0 body prio) (snd (pstep x (PSubmit 0 body prio)))).
Proof.
  intros [HJ Hts] Hbody. pose proof HJ as [[HQt HQc] HL HP HS HT HR HW].
  set (n := length (pw_tbody x)). set (pr := match prio with Some v => v | None => 0 end).
  assert (length (po_tasks t) = n) as Hlen by apply (jt_len _ _ _ _ _ _ _ _ HT).
  assert (forall z, In z (all_items (pw_tq x)) -> exists i, z = Z.of_nat i /\ (i < length (po_tasks t))%nat) as Hlt.
  { intros z Hz. destruct (jt_q _ _ _ _ _ _ _ _ HT z Hz) as (i & -> & Hi & _). exists i. split; [reflexivity | lia]. }
  cbn [pstep]. destruct (p_state (get_pool x 0)) eqn:Est; cbn [fst snd postep]; rewrite getp0.
  - (* accepted *)
    fold n pr. destruct (Q1_lpush (pw_tq x) pr (Z.of_nat n) HQt) as [HQt' Hcnt].
    assert (pt_stop_called (nth 0 (po_pools t) ptrk0) = false) as Hsc.
    { destruct (pt_stop_called (nth 0 (po_pools t) ptrk0)) eqn:E; [|reflexivity].
      exfalso. apply (js_called _ _ _ _ _ HS E). reflexivity. }
    rewrite Hsc. cbn [andb negb]. split; [|exact Hts].
    constructor; cbn [pw_tq pw_cq pw_clock pw_workers pw_tbody pw_cancel_tasks pw_cancel_cos pw_running_tasks po_clock po_tasks po_pools];
      autorewrite with potr; try assumption.
    + constructor; assumption.
    + destruct HP as [P1 P2 P3 P4 P5 P6 P7 P8 P9 P10 P11 P12]. constructor; assumption.
    + change (get_pool _ 0) with (get_pool x 0). rewrite ?Est. eapply JS_unquiet; [exact HS | congruence].
    + apply (JT_submit _ _ _ _ _ _ _ _ _ body true HT). fold n. split; [exact Hcnt | exact Hbody].
    + change (get_pool _ 0) with (get_pool x 0). rewrite ?Est. apply (JR_submit _ _ _ _ _ _ _ true HR Hlt).
      * intros z Hz. apply cnt_In. rewrite Hcnt. apply cnt_In in Hz. lia.
      * intros z Hz. apply cnt_In in Hz. rewrite Hcnt in Hz. rewrite Hlen.
        destruct (Z.eq_dec z (Z.of_nat n)) as [->|Hne]; [right; auto|]. rewrite one_diff in Hz by congruence. left. apply cnt_In. lia.
      * intros _. rewrite Hlen. apply cnt_In. rewrite Hcnt, one_same. lia.
    + destruct HW as [W1 W2 W3 W4 W5 W6]. constructor; cbn [po_workers po_c12 po_c01 po_c11 po_c02 po_c13]; autorewrite with potr; cbn [Nat.eqb]; try assumption.
      rewrite W2. reflexivity.
  - (* rejected: stopping *)
    rewrite andb_false_r. cbn [negb]. split; [|exact Hts].
    constructor; cbn [pw_tq pw_cq pw_clock pw_workers pw_tbody pw_cancel_tasks pw_cancel_cos pw_running_tasks po_clock po_tasks po_pools];
      autorewrite with potr; try assumption.
    + constructor; assumption.
    + destruct HP as [P1 P2 P3 P4 P5 P6 P7 P8 P9 P10 P11 P12]. constructor; assumption.
    + change (get_pool _ 0) with (get_pool x 0). rewrite ?Est. eapply JS_unquiet; [exact HS | congruence].
    + apply (JT_submit _ _ _ _ _ _ _ _ _ [] false HT). reflexivity.
    + change (get_pool _ 0) with (get_pool x 0). rewrite ?Est. apply (JR_submit _ _ _ _ _ _ _ false HR Hlt); auto. discriminate.
    + destruct HW as [W1 W2 W3 W4 W5 W6]. constructor; cbn [po_workers po_c12 po_c01 po_c11 po_c02 po_c13]; autorewrite with potr; cbn [Nat.eqb]; try assumption.
      rewrite W2. reflexivity.
  - (* rejected: stopped *)
    rewrite andb_false_r. cbn [negb]. split; [|exact Hts].
    constructor; cbn [pw_tq pw_cq pw_clock pw_workers pw_tbody pw_cancel_tasks pw_cancel_cos pw_running_tasks po_clock po_tasks po_pools];
      autorewrite with potr; try assumption.
    + constructor; assumption.
    + destruct HP as [P1 P2 P3 P4 P5 P6 P7 P8 P9 P10 P11 P12]. constructor; assumption.
    + change (get_pool _ 0) with (get_pool x 0). rewrite ?Est. eapply JS_unquiet; [exact HS|]. intros _. apply (js_stopped _ _ _ _ _ HS eq_refl).
    + apply (JT_submit _ _ _ _ _ _ _ _ _ [] false HT). reflexivity.
    + change (get_pool _ 0) with (get_pool x 0). rewrite ?Est. apply (JR_submit _ _ _ _ _ _ _ false HR Hlt); auto. discriminate.
    + destruct HW as [W1 W2 W3 W4 W5 W6]. constructor; cbn [po_workers po_c12 po_c01 po_c11 po_c02 po_c13]; autorewrite with potr; cbn [Nat.eqb]; try assumption.
      rewrite W2. reflexivity.
Qed.

(** a change of the pool record that keeps its configuration, state and count *)
Lemma J_upd_pool_f tnt tnt' x d h t t' f :
  J mx kp tnt x d h t ->
  p_state (f (get_pool x 0)) = p_state (get_pool x 0) -> p_running (f (get_pool x 0)) = p_running (get_pool x 0) ->
  p_min (f (get_pool x 0)) = p_min (get_pool x 0) -> p_max (f (get_pool x 0)) = p_max (get_pool x 0) ->
  p_keep (f (get_pool x 0)) = p_keep (get_pool x 0) -> p_popfail (f (get_pool x 0)) = p_popfail (get_pool x 0) ->
  po_clock t' <= pw_clock x ->
  JS mx (p_state (get_pool x 0)) (p_running (get_pool x 0)) (all_items (pw_tq x)) (po_pools t') ->
  JT (pw_workers x) (all_items (pw_tq x)) (pw_tbody x) (po_tasks t') (pw_cancel_tasks x) (pw_cancel_cos x) (pw_running_tasks x) h ->
  JR (p_waits (f (get_pool x 0))) (p_results (f (get_pool x 0))) (p_nowaits (f (get_pool x 0))) (p_state (get_pool x 0))
     (all_items (pw_tq x)) (po_tasks t') ->
  JW (pw_workers x) t' tnt' ->
  J mx kp tnt' (upd_pool x 0 f) d h t'.
Proof.
  intros HJ E1 E2 E3 E4 E5 E6 Hc HS' HT' HR' HW'. pose proof HJ as [[HQt HQc] HL HP HS HT HR HW].
  assert (length (pw_pools x) = 1%nat) as Hp by apply (jp_pools _ _ _ _ HP).
  assert (upd_post x (upd_pool x 0 f) (pw_workers x) (pw_tq x) (pw_cancel_tasks x) (pw_running_tasks x) (f (get_pool x 0))) as Hu.
  { constructor; autorewrite with pw; try reflexivity; [apply get_pool_upd_pool_same; lia | rewrite set_nth_length; exact Hp]. }
  eapply (J_of_post mx kp tnt' x _ d h t' _ _ _ _ _ Hu); try eassumption.
  - destruct HP as [P1 P2 P3 P4 P5 P6 P7 P8 P9 P10 P11 P12]. constructor; assumption.
  - rewrite E2. apply (jp_run _ _ _ _ HP).
  - rewrite E2. apply (jp_le _ _ _ _ HP).
  - rewrite E1, E2. exact HS'.
  - rewrite E1. exact HR'.
  - destruct (jp_keep _ _ _ _ HP) as (_ & _ & Hcr & Hpf). split; [exact Hcr | rewrite E6; exact Hpf].
Qed.

(** * PWait / PTake *)
Lemma expect_tracker_val tnt x d h t i b :
  J mx kp tnt x d h t -> (i < length (po_tasks t))%nat -> b = true ->
  let t' := sett (flag t 2 b) i (cons_rec (gett t i)) in
  po_clock t' <= pw_clock x /\
  JS mx (p_state (get_pool x 0)) (p_running (get_pool x 0)) (all_items (pw_tq x)) (po_pools t') /\
  JT (pw_workers x) (all_items (pw_tq x)) (pw_tbody x) (po_tasks t') (pw_cancel_tasks x) (pw_cancel_cos x) (pw_running_tasks x) h /\
  JW (pw_workers x) t' tnt.
Proof.
  intros [HQ HL HP HS HT HR HW] Hi ->. cbv zeta. autorewrite with potr. split; [apply (jp_tclock _ _ _ _ HP)|]. split; [exact HS|]. split.
  - apply (JT_tk_ext _ _ _ _ _ _ _ _ _ HT); [apply set_nth_length|]. apply tk_same_set. rewrite gett_tkn. constructor; reflexivity.
  - destruct HW as [W1 W2 W3 W4 W5 W6]. constructor; autorewrite with potr; cbn [Nat.eqb]; try assumption.
    rewrite W5. reflexivity.
Qed.

Lemma expect_none tnt x d t i r :
  J mx kp tnt x d None t -> (i < length (po_tasks t))%nat -> assoc_get i (p_results (get_pool x 0)) = None ->
  r = WTimeout \/ r = WNone ->
  forall tf, J mx kp tnt x d None (expect_result t 0 i 1 r tf) /\ po_tasks (expect_result t 0 i 1 r tf) = po_tasks t /\
  (tt_fin (tkn (po_tasks t) i) = None \/ tt_consumed (tkn (po_tasks t) i) = true \/ tt_cleaned (tkn (po_tasks t) i) = true).
Proof.
  intros HJ Hi' Er Hr tf. pose proof HJ as [HQ HL HP HS HT HR HW].
  assert (is_none (tt_fin (tkn (po_tasks t) i)) || tt_consumed (tkn (po_tasks t) i) || tt_cleaned (tkn (po_tasks t) i) = true) as Hf2.
  { destruct (tt_fin (tkn (po_tasks t) i)) as [o|] eqn:Ef; [|reflexivity]. cbn [is_none orb].
    destruct (tt_consumed (tkn (po_tasks t) i)) eqn:Ec; [reflexivity|]. destruct (tt_cleaned (tkn (po_tasks t) i)) eqn:Ecl; [reflexivity|].
    exfalso. apply (jr_tg2 _ _ _ _ _ _ HR i); congruence. }
  assert (negb (tt_cancel0 (tkn (po_tasks t) i) && Nat.eqb (tt_started (tkn (po_tasks t) i)) 0 && true
                && pt_quiet (nth 0 (po_pools t) ptrk0) && (pt_alive (nth 0 (po_pools t) ptrk0) =? 0)
                && negb (tt_consumed (tkn (po_tasks t) i)) && negb (tt_cleaned (tkn (po_tasks t) i))) = true) as Hf13.
  { apply negb_true_iff. apply not_true_is_false. intro Hall.
    repeat (apply andb_true_iff in Hall as [Hall ?]).
    destruct (js_quiet _ _ _ _ _ HS ltac:(eassumption)) as [Ha Hq0].
    assert (all_items (pw_tq x) = []) as Hnil.
    { destruct Hq0 as [Hq0|Hq0]; [exact Hq0|]. pose proof (jp_mx _ _ _ _ HP). lia. }
    apply (jr_tg3 _ _ _ _ _ _ HR i Hi'); try (apply negb_true_iff; assumption).
    - apply (jt_c0 _ _ _ _ _ _ _ _ HT). assumption.
    - apply Nat.eqb_eq. assumption.
    - rewrite Hnil. intros [].
    - exact Er. }
  assert (forall t', t' = flag (flag t 2 true) 13 true -> J mx kp tnt x d None t' /\ po_tasks t' = po_tasks t) as Hgen.
  { intros t' ->. split; [|reflexivity].
    eapply (J_tracker_ext tnt tnt); [exact HJ | | | | | | | | |]; autorewrite with potr; cbn [Nat.eqb];
      rewrite ?andb_true_r; try reflexivity; try apply (jp_tclock _ _ _ _ HP); apply HW. }
  assert (tt_fin (tkn (po_tasks t) i) = None \/ tt_consumed (tkn (po_tasks t) i) = true \/ tt_cleaned (tkn (po_tasks t) i) = true) as Hd.
  { destruct (tt_fin (tkn (po_tasks t) i)); [|left; reflexivity]. cbn [is_none orb] in Hf2. apply orb_true_iff in Hf2. tauto. }
  destruct Hr as [-> | ->]; cbn [expect_result]; rewrite getp0, !gett_tkn; cbn [Nat.eqb]; rewrite Hf2, Hf13;
    (destruct (Hgen _ eq_refl) as [G1 G2]; split; [exact G1 | split; [exact G2 | exact Hd]]).
Qed.

Lemma op_take tnt x t i :
  Jop mx kp tnt x t -> (i < length (pw_tbody x))%nat ->
  Jop mx kp tnt (fst (pstep x (PTake 0 i))) (postep 1 [mx] t (PTake 0 i) (snd (pstep x (PTake 0 i)))).
Proof.
  intros [HJ Hts] Hi. pose proof HJ as [HQ HL HP HS HT HR HW].
  assert (i < length (po_tasks t))%nat as Hi' by (rewrite (jt_len _ _ _ _ _ _ _ _ HT); exact Hi).
  cbn [pstep]. unfold take. destruct (assoc_get i (p_results (get_pool x 0))) as [r|] eqn:Er; cbn [fst snd postep expect_result].
  - (* a result is handed out *)
    apply assoc_get_In in Er. rewrite getp0.
    pose proof (JR_result_flag _ _ _ _ _ _ i r (pt_stop_called (nth 0 (po_pools t) ptrk0)) HR Er) as Hf. rewrite !gett_tkn.
    rewrite Hf.
    2:{ intro Hst. apply (js_okc _ _ _ _ _ HS). apply (js_ok _ _ _ _ _ HS). exact Hst. }
    destruct (expect_tracker_val tnt x _ None t i true HJ Hi' eq_refl) as (T1 & T2 & T3 & T4). rewrite gett_tkn in *.
    split; [|autorewrite with pw; exact Hts].
    assert (p_sd (get_pool (upd_pool x 0 (fun q => p_with_wait (p_waits q) (assoc_del i (p_results q)) (p_nowaits q) q)) 0) = p_sd (get_pool x 0)) as ->.
    { rewrite get_pool_upd_pool_same by (rewrite (jp_pools _ _ _ _ HP); lia). reflexivity. }
    eapply (J_upd_pool_f tnt tnt x _ None t); try eassumption; autorewrite with pw; try reflexivity.
    autorewrite with potr. eapply JR_take; eassumption.
  - (* nothing there *)
    split; [|exact Hts]. apply (expect_none tnt x _ t i WNone HJ Hi' Er (or_intror eq_refl) WNone).
Qed.

Lemma op_wait tnt x t i :
  Jop mx kp tnt x t -> (i < length (pw_tbody x))%nat ->
  Jop mx kp tnt (fst (pstep x (PWait 0 i))) (postep 1 [mx] t (PWait 0 i) (snd (pstep x (PWait 0 i)))).
Proof.
  intros [HJ Hts] Hi. pose proof HJ as [HQ HL HP HS HT HR HW].
  assert (i < length (po_tasks t))%nat as Hi' by (rewrite (jt_len _ _ _ _ _ _ _ _ HT); exact Hi).
  assert (length (pw_pools x) = 1%nat) as Hp by apply (jp_pools _ _ _ _ HP).
  cbn [pstep]. unfold pwait, take. destruct (assoc_get i (p_results (get_pool x 0))) as [r|] eqn:Er; cbn [fst snd postep expect_result].
  - apply assoc_get_In in Er. rewrite getp0.
    pose proof (JR_result_flag _ _ _ _ _ _ i r (pt_stop_called (nth 0 (po_pools t) ptrk0)) HR Er) as Hf. rewrite !gett_tkn.
    rewrite Hf.
    2:{ intro Hst. apply (js_okc _ _ _ _ _ HS). apply (js_ok _ _ _ _ _ HS). exact Hst. }
    destruct (expect_tracker_val tnt x _ None t i true HJ Hi' eq_refl) as (T1 & T2 & T3 & T4). rewrite gett_tkn in *.
    set (t' := sett (flag t 2 true) i (cons_rec (tkn (po_tasks t) i))) in *.
    set (x1 := upd_pool x 0 (fun q => p_with_wait (p_waits q) (assoc_del i (p_results q)) (p_nowaits q) q)).
    assert (get_pool x1 0 = p_with_wait (p_waits (get_pool x 0)) (assoc_del i (p_results (get_pool x 0))) (p_nowaits (get_pool x 0)) (get_pool x 0)) as Eq1.
    { unfold x1. rewrite get_pool_upd_pool_same by lia. reflexivity. }
    assert (J mx kp tnt x1 (p_sd (get_pool x 0)) None t') as HJ1.
    { unfold x1. eapply (J_upd_pool_f tnt tnt x _ None t); try eassumption; autorewrite with pw; try reflexivity.
      unfold t'. autorewrite with potr. eapply JR_take; eassumption. }
    unfold notify. fold x1. split; [|autorewrite with pw; exact Hts].
    assert (length (pw_pools x1) = 1%nat) as Hp1 by (unfold x1; rewrite pools_len_upd_pool; exact Hp).
    rewrite get_pool_upd_pool_same by lia. rewrite Eq1. autorewrite with pw.
    pose proof HJ1 as [HQ1 HL1 HP1 HS1 HT1 HR1 HW1].
    eapply (J_upd_pool_f tnt tnt x1 _ None t'); try eassumption; rewrite ?Eq1; autorewrite with pw; try reflexivity;
      try apply (jp_tclock _ _ _ _ HP1).
    rewrite Eq1 in HR1. autorewrite with pw in HR1. apply JR_waits_remove, HR1.
  - destruct (expect_none tnt x _ t i WTimeout HJ Hi' Er (or_introl eq_refl) WTimeout) as (HJ1 & Etk & Hd).
    set (t' := expect_result t 0 i 1 WTimeout WTimeout) in *. split; [|autorewrite with pw; exact Hts].
    rewrite get_pool_upd_pool_same by lia. autorewrite with pw.
    pose proof HJ1 as [HQ1 HL1 HP1 HS1 HT1 HR1 HW1].
    eapply (J_upd_pool_f tnt tnt x _ None t'); try eassumption; autorewrite with pw; try reflexivity;
      try apply (jp_tclock _ _ _ _ HP1).
    apply JR_waits_add; [exact HR1 | autorewrite with potr; exact Hd].
Qed.

Lemma JW_sett_unquiet ws t tnt i k : JW ws t tnt -> JW ws (sett (unquiet t) i k) tnt.
Proof. intros [W1 W2 W3 W4 W5 W6]. constructor; autorewrite with potr; assumption. Qed.

(** * PClean *)
Lemma op_clean tnt x t i :
  Jop mx kp tnt x t -> (i < length (pw_tbody x))%nat ->
  Jop mx kp tnt (fst (pstep x (PClean 0 i))) (postep 1 [mx] t (PClean 0 i) (snd (pstep x (PClean 0 i)))).
Proof.
  intros [HJ Hts] Hi. pose proof HJ as [[HQt HQc] HL HP HS HT HR HW].
  assert (i < length (po_tasks t))%nat as Hi' by (rewrite (jt_len _ _ _ _ _ _ _ _ HT); exact Hi).
  assert (length (pw_pools x) = 1%nat) as Hp by apply (jp_pools _ _ _ _ HP).
  cbn [pstep fst snd postep]. rewrite !gett_tkn. unfold pclean, take.
  set (b := negb (is_none (tt_fin (tkn (po_tasks t) i))) && negb (tt_consumed (tkn (po_tasks t) i)) && negb (tt_cleaned (tkn (po_tasks t) i))).
  assert (JS mx (p_state (get_pool x 0)) (p_running (get_pool x 0)) (all_items (pw_tq x)) (po_pools (unquiet t))) as HS'.
  { eapply JS_unquiet; [exact HS|]. intro H. apply (js_stopped _ _ _ _ _ HS H). }
  destruct (assoc_get i (p_results (get_pool x 0))) as [r|] eqn:Er.
  - (* the stored result is dropped *)
    pose proof (assoc_get_In _ _ _ Er) as Hin. split; [|autorewrite with pw; exact Hts].
    rewrite get_pool_upd_pool_same by lia. autorewrite with pw.
    destruct b eqn:Eb.
    + eapply (J_upd_pool_f tnt tnt x _ None t); try eassumption; autorewrite with pw potr; try reflexivity.
      * apply (jp_tclock _ _ _ _ HP).
      * apply (JT_tk_ext _ _ _ _ _ _ _ _ _ HT); [apply set_nth_length|]. apply tk_same_set. constructor; reflexivity.
      * eapply JR_take; eassumption.
      * apply JW_sett_unquiet, HW.
    + eapply (J_upd_pool_f tnt tnt x _ None t); try eassumption; autorewrite with pw potr; try reflexivity.
      * apply (jp_tclock _ _ _ _ HP).
      * apply (JT_clean _ _ _ _ (pw_cancel_tasks x) (pw_cancel_tasks x) _ _ _ i HT Hi'); auto.
      * apply (JR_clean _ _ _ _ _ _ _ _ _ HR Hi').
        -- apply assoc_del_NoDup, (jr_rnd _ _ _ _ _ _ HR).
        -- intros j r' Hr. split; [eapply assoc_del_In, Hr|]. intros ->.
           apply (assoc_del_NoDup_notin i _ (jr_rnd _ _ _ _ _ _ HR)). apply in_map_iff. exists (i, r'). auto.
        -- intros j Hne. apply assoc_get_del_other. congruence.
        -- auto.
      * apply JW_sett_unquiet, HW.
  - (* nothing stored: whatever comes later is discarded, a pending cancel is withdrawn *)
    assert (b = false) as ->.
    { unfold b. destruct (tt_fin (tkn (po_tasks t) i)) as [o|] eqn:Ef; [|reflexivity]. cbn [is_none negb andb].
      destruct (tt_consumed (tkn (po_tasks t) i)) eqn:Ec; [reflexivity|]. destruct (tt_cleaned (tkn (po_tasks t) i)) eqn:Ecl; [reflexivity|].
      exfalso. apply (jr_tg2 _ _ _ _ _ _ HR i); congruence. }
    set (f := fun q => p_with_wait (p_waits q) (p_results q) (if mem_nat i (p_nowaits q) then p_nowaits q else i :: p_nowaits q) q).
    set (xg := set_globals _ _ _ _).
    assert (upd_post x xg (pw_workers x) (pw_tq x) (remove_nat i (pw_cancel_tasks x)) (pw_running_tasks x) (f (get_pool x 0))) as Hu.
    { unfold xg. constructor; autorewrite with pw; try reflexivity; [apply get_pool_upd_pool_same; lia | rewrite set_nth_length; exact Hp]. }
    split; [|rewrite (up_ts _ _ _ _ _ _ _ Hu); exact Hts]. rewrite (up_pool _ _ _ _ _ _ _ Hu).
    eapply (J_of_post mx kp tnt x xg _ None _ _ _ _ _ _ Hu); unfold f; autorewrite with pw potr; try eassumption; try reflexivity.
    + apply (jp_run _ _ _ _ HP).
    + apply (jp_le _ _ _ _ HP).
    + apply (JT_clean _ _ _ _ (pw_cancel_tasks x) _ _ _ _ i HT Hi').
      * intros j Hne Hj. apply remove_nat_In_other; [congruence | exact Hj].
      * intros j Hj. eapply remove_nat_In, Hj.
    + apply (JR_clean _ _ _ _ _ _ _ _ _ HR Hi').
      * apply (jr_rnd _ _ _ _ _ _ HR).
      * intros j r' Hr. split; [exact Hr|]. intros ->. apply assoc_get_None in Er. apply Er. apply in_map_iff. exists (i, r'). auto.
      * reflexivity.
      * intros j Hj. destruct (mem_nat i (p_nowaits (get_pool x 0))); [right; exact Hj|]. destruct Hj as [<-|Hj]; auto.
    + apply JW_sett_unquiet, HW.
    + destruct (jp_keep _ _ _ _ HP) as (_ & _ & Hcr & Hpf). split; [exact Hcr | exact Hpf].
Qed.

(** * PCancel *)
Lemma J_set_globals tnt tnt' x d h t t' ct' cc' :
  J mx kp tnt x d h t -> po_clock t' <= pw_clock x ->
  JS mx (p_state (get_pool x 0)) (p_running (get_pool x 0)) (all_items (pw_tq x)) (po_pools t') ->
  JT (pw_workers x) (all_items (pw_tq x)) (pw_tbody x) (po_tasks t') ct' cc' (pw_running_tasks x) h ->
  JR (p_waits (get_pool x 0)) (p_results (get_pool x 0)) (p_nowaits (get_pool x 0)) (p_state (get_pool x 0))
     (all_items (pw_tq x)) (po_tasks t') ->
  JW (pw_workers x) t' tnt' ->
  J mx kp tnt' (set_globals x ct' cc' (pw_running_tasks x)) d h t'.
Proof.
  intros [HQ HL HP HS HT HR HW] Hc HS' HT' HR' HW'. constructor; autorewrite with pw; try assumption.
  destruct HP as [P1 P2 P3 P4 P5 P6 P7 P8 P9 P10 P11 P12]. constructor; autorewrite with pw; assumption.
Qed.

Lemma op_cancel tnt x t i :
  Jop mx kp tnt x t -> (i < length (pw_tbody x))%nat ->
  Jop mx kp tnt (fst (pstep x (PCancel i))) (postep 1 [mx] t (PCancel i) (snd (pstep x (PCancel i)))).
Proof.
  intros [HJ Hts] Hi. pose proof HJ as [[HQt HQc] HL HP HS HT HR HW].
  assert (i < length (po_tasks t))%nat as Hi' by (rewrite (jt_len _ _ _ _ _ _ _ _ HT); exact Hi).
  cbn [pstep fst snd postep]. rewrite !gett_tkn.
  set (b := negb (tt_accepted (tkn (po_tasks t) i)) || negb (is_none (tt_fin (tkn (po_tasks t) i)))).
  set (t' := if b then t else sett (unquiet t) i (cancel_rec (tkn (po_tasks t) i))).
  assert ((if b then t else sett (unquiet t) i
            {| tt_pool := tt_pool (tkn (po_tasks t) i); tt_accepted := tt_accepted (tkn (po_tasks t) i);
               tt_started := tt_started (tkn (po_tasks t) i); tt_fin := tt_fin (tkn (po_tasks t) i);
               tt_fincount := tt_fincount (tkn (po_tasks t) i);
               tt_cancel0 := tt_cancel0 (tkn (po_tasks t) i) || Nat.eqb (tt_started (tkn (po_tasks t) i)) 0;
               tt_cancel1 := tt_cancel1 (tkn (po_tasks t) i) || negb (Nat.eqb (tt_started (tkn (po_tasks t) i)) 0);
               tt_consumed := tt_consumed (tkn (po_tasks t) i); tt_cleaned := tt_cleaned (tkn (po_tasks t) i);
               tt_withdrawn := tt_withdrawn (tkn (po_tasks t) i) |}) = t') as -> by reflexivity.
  set (c0 := if b then false else Nat.eqb (tt_started (tkn (po_tasks t) i)) 0).
  set (c1 := if b then false else negb (Nat.eqb (tt_started (tkn (po_tasks t) i)) 0)).
  assert (tk_cancel (po_tasks t) (po_tasks t') i c0 c1) as Htk.
  { unfold t', c0, c1. destruct b; [apply tk_cancel_refl|]. autorewrite with potr. apply tk_cancel_set, Hi'. }
  assert (po_clock t' <= pw_clock x) as Hcl.
  { unfold t'. destruct b; autorewrite with potr; apply (jp_tclock _ _ _ _ HP). }
  assert (JS mx (p_state (get_pool x 0)) (p_running (get_pool x 0)) (all_items (pw_tq x)) (po_pools t')) as HS'.
  { unfold t'. destruct b; [exact HS|]. autorewrite with potr. eapply JS_unquiet; [exact HS|]. intro H. apply (js_stopped _ _ _ _ _ HS H). }
  assert (JW (pw_workers x) t' tnt) as HW'.
  { unfold t'. destruct b; [exact HW | apply JW_sett_unquiet, HW]. }
  assert (b = false -> tt_accepted (tkn (po_tasks t) i) = true /\ tt_fin (tkn (po_tasks t) i) = None) as Hb.
  { unfold b. intro H. apply orb_false_iff in H as [H1 H2]. apply negb_false_iff in H1, H2. split; [exact H1|].
    destruct (tt_fin (tkn (po_tasks t) i)); [discriminate | reflexivity]. }
  unfold pcancel. destruct (assoc_get i (pw_running_tasks x)) as [w|] eqn:Ert.
  - (* the task is running: its worker is marked *)
    pose proof (assoc_get_In _ _ _ Ert) as Hin. destruct (jt_rts _ _ _ _ _ _ _ _ HT _ _ Hin) as [Hst Hw].
    split; [|exact Hts]. change (get_pool _ 0) with (get_pool x 0).
    apply (J_set_globals tnt tnt x _ None t t'); try assumption; [|eapply JR_cancel; eassumption].
    eapply (JT_cancel _ _ _ _ _ _ _ _ _ _ _ i c0 c1 HT Htk Hi).
    + auto.
    + auto.
    + intros v Hv. destruct (mem_nat w (pw_cancel_cos x)); [exact Hv | right; exact Hv].
    + unfold c0. destruct b; [discriminate|]. intro H. apply Nat.eqb_eq in H. congruence.
    + intros H1 H2. contradiction.
    + intros _. exact Hst.
    + intros _ _ v kv rest Hv Hlv Hkv.
      pose proof (jt_rt3 _ _ _ _ _ _ _ _ HT _ _ _ _ Hv Hlv Hkv) as Hin'.
      rewrite (assoc_get_NoDup_In _ _ _ (jt_rtnd _ _ _ _ _ _ _ _ HT) Hin') in Ert. injection Ert as ->.
      destruct (mem_nat w (pw_cancel_cos x)) eqn:Em; [apply mem_nat_In, Em | left; reflexivity].
    + intros v Hv Hnv kv j rest Hkv Hlv Htask.
      assert (v = w) as ->.
      { destruct (mem_nat w (pw_cancel_cos x)); [contradiction|]. destruct Hv as [<-|Hv]; [reflexivity | contradiction]. }
      destruct (jt_rt _ _ _ _ _ _ _ _ HT _ _ _ Hin Hkv Hlv) as [rest' Hk']. rewrite Hk' in Htask. injection Htask as <- _.
      split; [reflexivity|]. unfold c1.
      destruct (jt_hold _ _ _ _ _ _ _ _ HT _ _ _ _ Hkv Hk') as (_ & Ha & _ & _ & Hf & _).
      assert (b = false) as -> by (unfold b; rewrite Ha, Hf; reflexivity).
      apply Nat.eqb_neq in Hst. rewrite Hst. apply orb_true_r.
    + destruct (mem_nat w (pw_cancel_cos x)) eqn:Em; [apply (jt_ccnd _ _ _ _ _ _ _ _ HT)|].
      constructor; [apply mem_nat_false, Em | apply (jt_ccnd _ _ _ _ _ _ _ _ HT)].
    + intros v Hv. destruct (mem_nat w (pw_cancel_cos x)); [apply (jt_ccb _ _ _ _ _ _ _ _ HT), Hv|].
      destruct Hv as [<-|Hv]; [exact Hw | apply (jt_ccb _ _ _ _ _ _ _ _ HT), Hv].
  - (* the task is not running: its id is marked *)
    split; [|exact Hts]. change (get_pool _ 0) with (get_pool x 0).
    apply (J_set_globals tnt tnt x _ None t t'); try assumption; [|eapply JR_cancel; eassumption].
    eapply (JT_cancel _ _ _ _ _ _ _ _ _ _ _ i c0 c1 HT Htk Hi).
    + intros j Hj. destruct (mem_nat i (pw_cancel_tasks x)); [exact Hj | right; exact Hj].
    + intros j Hj. destruct (mem_nat i (pw_cancel_tasks x)); [left; exact Hj|]. destruct Hj as [<-|Hj]; auto.
    + auto.
    + unfold c0. destruct b eqn:Eb; [discriminate|]. intros _. split; [apply (Hb eq_refl)|].
      destruct (mem_nat i (pw_cancel_tasks x)) eqn:Em; [apply mem_nat_In, Em | left; reflexivity].
    + intros _ _ Hz. destruct (jt_q _ _ _ _ _ _ _ _ HT _ Hz) as (j & Ej & _ & _ & Ha & Hs0 & Hf & _).
      apply Nat2Z.inj in Ej. subst j. unfold c0. assert (b = false) as -> by (unfold b; rewrite Ha, Hf; reflexivity).
      rewrite Hs0. reflexivity.
    + unfold c1. destruct b; [discriminate|]. intro H. apply negb_true_iff, Nat.eqb_neq in H. exact H.
    + intros _ _ v kv rest Hv Hlv Hkv. exfalso.
      pose proof (jt_rt3 _ _ _ _ _ _ _ _ HT _ _ _ _ Hv Hlv Hkv) as Hin'.
      rewrite (assoc_get_NoDup_In _ _ _ (jt_rtnd _ _ _ _ _ _ _ _ HT) Hin') in Ert. discriminate.
    + intros v Hv Hnv. contradiction.
    + apply (jt_ccnd _ _ _ _ _ _ _ _ HT).
    + apply (jt_ccb _ _ _ _ _ _ _ _ HT).
Qed.

End Ops.
