(** No call of a well-formed single-pool history diverges: the fuel of the worker loop, of the
    scheduling pass and of the stop loop is never exhausted. *)
From OCV Require Import Base.Prelude Misc.Time Queue.PMap Queue.OWS Coroutine.Co Coroutine.CoOracle Sched.Sched Sched.Pool Sched.PoolOracle.
From OCV Require Import Sched.PoolBase Sched.PoolWf Sched.PoolJ Sched.PoolJLemmas Sched.PoolCanon Sched.PoolMeasure Sched.PoolJSched Sched.PoolJOps Sched.PoolJOps2 Sched.PoolRun Sched.PoolProofs Sched.PoolInv.
From Coq Require Import ZifyBool ZifyNat.
Open Scope Z_scope.

(** the clock stays below [u64::MAX] after every operation. Needed only with a keep-alive: an idle
    worker whose keep-alive is pending when the (saturating) clock reaches the end of time naps for
    ever, in the code as in the model. Checked along the model's run, like the [PClock] check. *)
Fixpoint clocks_low (x : pw) (ops : list pop) : bool :=
  match ops with
  | [] => true
  | o :: r => (pw_clock (fst (pstep x o)) <? U64MAX) && clocks_low (fst (pstep x o)) r
  end.

Definition naps_low (clock : Z) (cfg : Z * Z * Z) (ops : list pop) : bool :=
  (snd cfg <=? 0) || clocks_low (pw0 clock [cfg]) ops.

(** (the bound on the stop timeouts that an earlier version needed is implied by [0 <= clock]) *)
Definition durs_ok (ops : list pop) : bool :=
  forallb (fun o => match o with PStop _ dur => dur <=? U64MAX | _ => true end) ops.

Definition wf_pool1t (clock : Z) (cfg : Z * Z * Z) (ops : list pop) : bool := wf_pool1 clock cfg ops && naps_low clock cfg ops.

Lemma op_nodiv mx kp tnt x t o :
  Jop mx kp tnt x t -> op_ok x o = true -> low kp (fst (pstep x o)) -> is_div (snd (pstep x o)) = false.
Proof.
  intros HJ Hok Hlow. destruct o as [p body prio|p dl|p i|p i|p i|i|p dur|p|p|p|c]; cbn [op_ok] in Hok;
    try (apply andb_true_iff in Hok as [Hp Hok]); try (apply Nat.eqb_eq in Hp; subst p); try (apply Nat.eqb_eq in Hok; subst p).
  - cbn [pstep]. destruct (p_state (get_pool x 0)); reflexivity.
  - cbn [pstep] in *. destruct HJ as [HJ Hts].
    pose proof (ppass_J mx kp tnt x (unquiet t) dl (conj (J_unquiet mx kp tnt x _ None t HJ) Hts) (unquiet_quiet_off t)) as H.
    destruct (ppass x 0 dl) as [[x' r] e]. cbn [fst snd ppass_ok] in *. destruct r; try contradiction; try reflexivity.
    destruct H as [Hn _]. contradiction.
  - cbn [pstep]. destruct (pwait x 0 i) as [x' r]. reflexivity.
  - cbn [pstep]. destruct (take x 0 i) as [x' [r|]]; reflexivity.
  - reflexivity.
  - reflexivity.
  - apply (op_stop_nodiv mx kp tnt x t dur HJ Hlow).
  - reflexivity.
  - reflexivity.
  - reflexivity.
  - reflexivity.
Qed.

Lemma run_nodiv mx kp : forall ops x t tnt,
  Jop mx kp tnt x t -> hist_okp x ops = true -> (kp <= 0 \/ clocks_low x ops = true) -> nodiv x ops = true.
Proof.
  induction ops as [|o r IH]; intros x t tnt HJ Hok Hd; [reflexivity|].
  cbn [hist_okp] in Hok. apply andb_true_iff in Hok as [Hok1 Hok2].
  assert (low kp (fst (pstep x o)) /\ (kp <= 0 \/ clocks_low (fst (pstep x o)) r = true)) as [Hlow Hd2].
  { destruct Hd as [Hd|Hd]; [split; left; exact Hd|]. cbn [clocks_low] in Hd. apply andb_true_iff in Hd as [H1 H2].
    split; right; [lia | exact H2]. }
  unfold nodiv. rewrite prun_cons. cbn [forallb].
  pose proof (op_nodiv mx kp tnt x t o HJ Hok1 Hlow) as Hnd. rewrite Hnd. cbn [negb andb].
  pose proof (op_step mx kp tnt x t o HJ Hok1) as Hstep. cbv zeta in Hstep. rewrite Hnd in Hstep.
  apply (IH _ _ _ Hstep Hok2 Hd2).
Qed.

Lemma wft_split clock cfg ops : wf_pool1t clock cfg ops = true -> wf_pool1 clock cfg ops = true /\ naps_low clock cfg ops = true.
Proof. unfold wf_pool1t. intro H. apply andb_true_iff in H. exact H. Qed.

(** the model's run of a well-formed history never diverges *)
Theorem nodiv_model1 : forall clock cfg ops, wf_pool1t clock cfg ops = true -> nodiv (pw0 clock [cfg]) ops = true.
Proof.
  intros clock cfg ops H. destruct (wft_split _ _ _ H) as [Hwf Hd]. destruct (wf_split _ _ _ Hwf) as [Hc Hh].
  apply (run_nodiv (snd (fst cfg)) (snd cfg) ops _ _ false (Jop_init clock cfg Hc) Hh).
  unfold naps_low in Hd. apply orb_true_iff in Hd as [Hd|Hd]; [left; lia | right; exact Hd].
Qed.

(** P5 *)
Theorem c01_model1 : forall clock cfg ops, wf_pool1t clock cfg ops = true ->
  po_c01 (fst (self_flags clock [cfg] ops)) = true.
Proof.
  intros clock cfg ops H. destruct (wft_split _ _ _ H) as [Hwf Hd].
  apply (c01_model1_partial clock cfg ops Hwf (nodiv_model1 clock cfg ops H)).
Qed.

(** P2, still under the prompt-stop premise *)
Theorem c11_model1_stops : forall clock cfg ops, wf_pool1t clock cfg ops = true ->
  stops_prompt (snd (fst cfg)) (pw0 clock [cfg]) (potr0 clock 1) ops = true ->
  po_c11 (fst (self_flags clock [cfg] ops)) = true.
Proof.
  intros clock cfg ops H Hs. destruct (wft_split _ _ _ H) as [Hwf Hd].
  apply (c11_model1_partial clock cfg ops Hwf (nodiv_model1 clock cfg ops H) Hs).
Qed.

(** I2 *)
Theorem count_exact1 : forall clock cfg ops n, wf_pool1t clock cfg ops = true ->
  let x := pfinal (pw0 clock [cfg]) (firstn n ops) in
  p_running (get_pool x 0) = live_workers x /\ 0 <= p_running (get_pool x 0) <= snd (fst cfg).
Proof.
  intros clock cfg ops n H. destruct (wft_split _ _ _ H) as [Hwf Hd].
  apply (count_exact1_partial clock cfg ops n Hwf (nodiv_model1 clock cfg ops H)).
Qed.

(** I3 *)
Theorem result_own1 : forall clock cfg ops n, wf_pool1t clock cfg ops = true ->
  let x := pfinal (pw0 clock [cfg]) (firstn n ops) in
  forall i r, In (i, r) (p_results (get_pool x 0)) ->
    r = body_outcome (nth i (pw_tbody x) []) \/ r = TErr TMCancelled \/ (r = TErr TMStopped /\ p_state (get_pool x 0) = PStopped).
Proof.
  intros clock cfg ops n H. destruct (wft_split _ _ _ H) as [Hwf Hd].
  apply (result_own1_partial clock cfg ops n Hwf (nodiv_model1 clock cfg ops H)).
Qed.

Print Assumptions nodiv_model1.
Print Assumptions c01_model1.
Print Assumptions c11_model1_stops.
Print Assumptions count_exact1.
Print Assumptions result_own1.
