(** No call of a well-formed single-pool history diverges: the fuel of the worker loop, of the
    scheduling pass and of the stop loop is never exhausted. *)
From OCV Require Import Base.Prelude Misc.Time Queue.PMap Queue.OWS Coroutine.Co Coroutine.CoOracle Sched.Sched Sched.Pool Sched.PoolOracle.
From OCV Require Import Sched.PoolBase Sched.PoolWf Sched.PoolJ Sched.PoolJLemmas Sched.PoolCanon Sched.PoolJSched Sched.PoolJOps Sched.PoolJOps2 Sched.PoolRun Sched.PoolProofs Sched.PoolInv.
From Coq Require Import ZifyBool ZifyNat.
Open Scope Z_scope.

(** the timeout of every stop fits a u64 (the loop of [do_stop] is given [dur / 1ms + 2] rounds) *)
Definition durs_ok (ops : list pop) : bool :=
  forallb (fun o => match o with PStop _ dur => dur <=? U64MAX | _ => true end) ops.

Definition wf_pool1t (clock : Z) (cfg : Z * Z * Z) (ops : list pop) : bool := wf_pool1 clock cfg ops && durs_ok ops.

Lemma op_nodiv mx tnt x t o :
  Jop mx tnt x t -> op_ok x o = true -> (match o with PStop _ dur => dur <=? U64MAX | _ => true end) = true ->
  is_div (snd (pstep x o)) = false.
Proof.
  intros HJ Hok Hd. destruct o as [p body prio|p dl|p i|p i|p i|i|p dur|p|p|p|c]; cbn [op_ok] in Hok;
    try (apply andb_true_iff in Hok as [Hp Hok]); try (apply Nat.eqb_eq in Hp; subst p); try (apply Nat.eqb_eq in Hok; subst p).
  - cbn [pstep]. destruct (p_state (get_pool x 0)); reflexivity.
  - cbn [pstep]. destruct HJ as [HJ Hts].
    pose proof (ppass_J mx tnt x (unquiet t) dl (conj (J_unquiet mx tnt x _ None t HJ) Hts) (unquiet_quiet_off t)) as H.
    destruct (ppass x 0 dl) as [[x' r] e]. cbn [snd ppass_ok] in *. destruct r; try contradiction; reflexivity.
  - cbn [pstep]. destruct (pwait x 0 i) as [x' r]. reflexivity.
  - cbn [pstep]. destruct (take x 0 i) as [x' [r|]]; reflexivity.
  - reflexivity.
  - reflexivity.
  - apply (op_stop_nodiv mx tnt x t dur HJ). lia.
  - reflexivity.
  - reflexivity.
  - reflexivity.
  - reflexivity.
Qed.

Lemma run_nodiv mx : forall ops x t tnt,
  Jop mx tnt x t -> hist_okp x ops = true -> durs_ok ops = true -> nodiv x ops = true.
Proof.
  induction ops as [|o r IH]; intros x t tnt HJ Hok Hd; [reflexivity|].
  cbn [hist_okp] in Hok. apply andb_true_iff in Hok as [Hok1 Hok2].
  unfold durs_ok in Hd. cbn [forallb] in Hd. apply andb_true_iff in Hd as [Hd1 Hd2].
  unfold nodiv. rewrite prun_cons. cbn [forallb].
  pose proof (op_nodiv mx tnt x t o HJ Hok1 Hd1) as Hnd. rewrite Hnd. cbn [negb andb].
  pose proof (op_step mx tnt x t o HJ Hok1) as Hstep. cbv zeta in Hstep. rewrite Hnd in Hstep.
  apply (IH _ _ _ Hstep Hok2 Hd2).
Qed.

Lemma wft_split clock cfg ops : wf_pool1t clock cfg ops = true -> wf_pool1 clock cfg ops = true /\ durs_ok ops = true.
Proof. unfold wf_pool1t. intro H. apply andb_true_iff in H. exact H. Qed.

(** the model's run of a well-formed history never diverges *)
Theorem nodiv_model1 : forall clock cfg ops, wf_pool1t clock cfg ops = true -> nodiv (pw0 clock [cfg]) ops = true.
Proof.
  intros clock cfg ops H. destruct (wft_split _ _ _ H) as [Hwf Hd]. destruct (wf_split _ _ _ Hwf) as [Hc Hh].
  apply (run_nodiv (snd (fst cfg)) ops _ _ false (Jop_init clock cfg Hc) Hh Hd).
Qed.

(** P5 *)
Theorem c01_model1 : forall clock cfg ops, wf_pool1t clock cfg ops = true ->
  po_c01 (fst (self_flags clock [cfg] ops)) = true.
Proof.
  intros clock cfg ops H. destruct (wft_split _ _ _ H) as [Hwf Hd].
  apply (c01_model1_partial clock cfg ops Hwf (nodiv_model1 clock cfg ops H)).
Qed.

(** P2, still under the prompt-stop premise *)
Theorem c11_model1_stops : forall clock cfg ops, wf_pool1t clock cfg ops = true ->
  stops_prompt (snd (fst cfg)) (pw0 clock [cfg]) (potr0 clock 1) ops = true ->
  po_c11 (fst (self_flags clock [cfg] ops)) = true.
Proof.
  intros clock cfg ops H Hs. destruct (wft_split _ _ _ H) as [Hwf Hd].
  apply (c11_model1_partial clock cfg ops Hwf (nodiv_model1 clock cfg ops H) Hs).
Qed.

(** I2 *)
Theorem count_exact1 : forall clock cfg ops n, wf_pool1t clock cfg ops = true ->
  let x := pfinal (pw0 clock [cfg]) (firstn n ops) in
  p_running (get_pool x 0) = live_workers x /\ 0 <= p_running (get_pool x 0) <= snd (fst cfg).
Proof.
  intros clock cfg ops n H. destruct (wft_split _ _ _ H) as [Hwf Hd].
  apply (count_exact1_partial clock cfg ops n Hwf (nodiv_model1 clock cfg ops H)).
Qed.

(** I3 *)
Theorem result_own1 : forall clock cfg ops n, wf_pool1t clock cfg ops = true ->
  let x := pfinal (pw0 clock [cfg]) (firstn n ops) in
  forall i r, In (i, r) (p_results (get_pool x 0)) ->
    r = body_outcome (nth i (pw_tbody x) []) \/ r = TErr TMCancelled \/ (r = TErr TMStopped /\ p_state (get_pool x 0) = PStopped).
Proof.
  intros clock cfg ops n H. destruct (wft_split _ _ _ H) as [Hwf Hd].
  apply (result_own1_partial clock cfg ops n Hwf (nodiv_model1 clock cfg ops H)).
Qed.

Print Assumptions nodiv_model1.
Print Assumptions c01_model1.
Print Assumptions c11_model1_stops.
Print Assumptions count_exact1.
Print Assumptions result_own1.
