(** Stand-alone invariants of the single-pool model, read off the simulation invariant. *)
From OCV Require Import Base.Prelude Misc.Time Queue.PMap Queue.OWS Coroutine.Co Coroutine.CoOracle Sched.Sched Sched.Pool Sched.PoolOracle.
From OCV Require Import Sched.PoolBase Sched.PoolWf Sched.PoolJ Sched.PoolJLemmas Sched.PoolJSched Sched.PoolJOps2 Sched.PoolRun Sched.PoolProofs.
From Coq Require Import ZifyBool ZifyNat.
Open Scope Z_scope.

(** the invariant holds after every operation of a well-formed history, as long as no call diverged *)
Lemma run_pfinal mx kp : forall ops x t tnt,
  Jop mx kp tnt x t -> hist_okp x ops = true -> nodiv x ops = true ->
  exists t' tnt', Jop mx kp tnt' (pfinal x ops) t'.
Proof.
  induction ops as [|o r IH]; intros x t tnt HJ Hok Hnd; cbn [pfinal]; [eauto|].
  cbn [hist_okp] in Hok. apply andb_true_iff in Hok as [Hok1 Hok2].
  unfold nodiv in Hnd. rewrite prun_cons in Hnd. cbn [forallb] in Hnd. apply andb_true_iff in Hnd as [Hd Hnd].
  pose proof (op_step mx kp tnt x t o HJ Hok1) as Hstep. cbv zeta in Hstep.
  apply negb_true_iff in Hd. rewrite Hd in Hstep. eapply IH; eassumption.
Qed.

Lemma hist_okp_firstn n : forall ops x, hist_okp x ops = true -> hist_okp x (firstn n ops) = true.
Proof.
  induction n as [|n IH]; intros ops x H; [reflexivity|]. destruct ops as [|o r]; [reflexivity|].
  cbn [firstn hist_okp] in *. apply andb_true_iff in H as [H1 H2]. rewrite H1. apply IH, H2.
Qed.

Lemma nodiv_firstn n : forall ops x, nodiv x ops = true -> nodiv x (firstn n ops) = true.
Proof.
  induction n as [|n IH]; intros ops x H; [reflexivity|]. destruct ops as [|o r]; [reflexivity|].
  cbn [firstn]. unfold nodiv in *. rewrite prun_cons in *. cbn [forallb] in *. apply andb_true_iff in H as [H1 H2].
  rewrite H1. apply IH, H2.
Qed.

(** the worker states that end a worker *)
Definition is_terminal (s : cstate) : bool := match s with Complete _ | Error _ | Cancelled => true | _ => false end.
Definition live_workers (x : pw) : Z := Z.of_nat (length (filter (fun k => negb (is_terminal (k_st k))) (pw_workers x))).

(** I2: the count is exact and bounded, after every operation of every prefix of the history *)
Theorem count_exact1_partial : forall clock cfg ops n, wf_pool1 clock cfg ops = true -> nodiv (pw0 clock [cfg]) ops = true ->
  let x := pfinal (pw0 clock [cfg]) (firstn n ops) in
  p_running (get_pool x 0) = live_workers x /\ 0 <= p_running (get_pool x 0) <= snd (fst cfg).
Proof.
  intros clock cfg ops n Hwf Hnd. destruct (wf_split _ _ _ Hwf) as [Hc Hh]. cbv zeta.
  destruct (run_pfinal (snd (fst cfg)) (snd cfg) (firstn n ops) _ _ false (Jop_init clock cfg Hc) (hist_okp_firstn n _ _ Hh) (nodiv_firstn n _ _ Hnd))
    as (t' & tnt' & [HJ _]).
  pose proof (j_p _ _ _ _ _ _ _ _ HJ) as HP. split.
  - rewrite (jp_run _ _ _ _ HP). reflexivity.
  - pose proof (jp_le _ _ _ _ HP). rewrite (jp_run _ _ _ _ HP) in *. pose proof (nlive_nonneg (pw_workers (pfinal (pw0 clock [cfg]) (firstn n ops)))). lia.
Qed.

(** I3: a stored result is the task's own outcome ([body_outcome]: the first [IReturn v] gives [TOk v], the first
    [IPanic k] gives [TErr (TM (panic_msg k))], falling off the end gives [TOk 0]), or the cancellation error of a
    task that never started, or the stop error, which only a stopped pool hands out *)
Theorem result_own1_partial : forall clock cfg ops n, wf_pool1 clock cfg ops = true -> nodiv (pw0 clock [cfg]) ops = true ->
  let x := pfinal (pw0 clock [cfg]) (firstn n ops) in
  forall i r, In (i, r) (p_results (get_pool x 0)) ->
    r = body_outcome (nth i (pw_tbody x) []) \/ r = TErr TMCancelled \/ (r = TErr TMStopped /\ p_state (get_pool x 0) = PStopped).
Proof.
  intros clock cfg ops n Hwf Hnd. destruct (wf_split _ _ _ Hwf) as [Hc Hh]. cbv zeta.
  destruct (run_pfinal (snd (fst cfg)) (snd cfg) (firstn n ops) _ _ false (Jop_init clock cfg Hc) (hist_okp_firstn n _ _ Hh) (nodiv_firstn n _ _ Hnd))
    as (t' & tnt' & [HJ _]).
  intros i r Hin. destruct (jr_tg _ _ _ _ _ _ (j_r _ _ _ _ _ _ _ _ HJ) _ _ Hin) as [(_ & [H|(H & _)])|(H1 & H2 & _)].
  - left. apply (jt_fin _ _ _ _ _ _ _ _ (j_t _ _ _ _ _ _ _ _ HJ) _ _ H).
  - right. left. exact H.
  - right. right. auto.
Qed.

(** a worker runs what is left of the body of the task it holds *)
Theorem held_suffix1_partial : forall clock cfg ops n, wf_pool1 clock cfg ops = true -> nodiv (pw0 clock [cfg]) ops = true ->
  let x := pfinal (pw0 clock [cfg]) (firstn n ops) in
  forall w k i rest, get_worker x w = Some k -> k_task k = Some (i, rest) ->
    body_outcome rest = body_outcome (nth i (pw_tbody x) []).
Proof.
  intros clock cfg ops n Hwf Hnd. destruct (wf_split _ _ _ Hwf) as [Hc Hh]. cbv zeta.
  destruct (run_pfinal (snd (fst cfg)) (snd cfg) (firstn n ops) _ _ false (Jop_init clock cfg Hc) (hist_okp_firstn n _ _ Hh) (nodiv_firstn n _ _ Hnd))
    as (t' & tnt' & [HJ _]).
  intros w k i rest Hk Ht. apply (jt_suf _ _ _ _ _ _ _ _ (j_t _ _ _ _ _ _ _ _ HJ) _ _ _ _ Hk Ht).
Qed.

Print Assumptions count_exact1_partial.
Print Assumptions result_own1_partial.
