(** C15 proofs, layer 3: what a worker does from the moment it is resumed until it gives up the
    thread, as a statement about [wloop] / [k_resume] on canonical states under the invariant. *)
From OCV Require Import Base.Prelude Misc.Time Queue.PMap Queue.OWS Queue.OWSOracle Queue.OWSLemmas Queue.OWSStep Coroutine.Co
  Sched.Sched Sched.Pool Sched.PoolOracle Sched.C15Oracle Sched.C15Lemmas Sched.C15Queue Sched.C15State Sched.C15Inv.
From Coq Require Import ZifyBool ZifyNat Permutation.
Open Scope Z_scope.

(** * Measures *)
(** part of the pass's termination measure that a worker's run changes *)
Definition mm (s : cst) (Q R : list nat) : nat := (5 * length Q + length R + nwk s R)%nat.

(** fuel a worker needs to run the tasks in [Q] *)
Definition bcost (tb : list (list instr)) (t : nat) : nat := S (S (length (nth t tb []))).
Definition qcost (tb : list (list instr)) (Q : list nat) : nat := list_sum (map (bcost tb) Q).

Lemma list_sum_perm l l' : Permutation l l' -> list_sum l = list_sum l'.
Proof. unfold list_sum. induction 1; cbn [fold_right] in *; lia. Qed.

Lemma qcost_perm tb Q Q' : Permutation Q Q' -> qcost tb Q = qcost tb Q'.
Proof. intro H. unfold qcost. apply list_sum_perm, Permutation_map, H. Qed.

Lemma qcost_cons tb t Q : qcost tb (t :: Q) = (bcost tb t + qcost tb Q)%nat.
Proof. reflexivity. Qed.

Lemma nwk_grow mx specs s d tr cur ct Q R R' :
  INV mx specs s d tr cur ct Q R -> R' = R \/ R' = R ++ [length (c_ws s)] -> nwk (grow mx s) R' = nwk s R.
Proof.
  intros H HR.
  assert (forall w, In w R -> wokenb (grow mx s) w = wokenb s w) as Hold.
  { intros w Hin. unfold wokenb, grow.
    destruct (full_len (c_tq s) =? 0); [reflexivity|]. destruct (mx <=? c_run s); [reflexivity|]. cbn [c_ws].
    rewrite nth_error_app1; [reflexivity|]. apply (i_lt _ _ _ _ _ _ _ _ _ H), in_allw. right. left. exact Hin. }
  destruct HR as [->| ->].
  - apply nwk_ext, Hold.
  - rewrite nwk_app, (nwk_ext _ _ _ Hold). unfold nwk at 2. cbn [filter].
    assert (wokenb (grow mx s) (length (c_ws s)) = false) as ->; [|cbn [length]; lia].
    unfold wokenb, grow. destruct (full_len (c_tq s) =? 0); [|destruct (mx <=? c_run s)].
    + assert (nth_error (c_ws s) (length (c_ws s)) = None) as -> by (apply nth_error_None; lia). reflexivity.
    + assert (nth_error (c_ws s) (length (c_ws s)) = None) as -> by (apply nth_error_None; lia). reflexivity.
    + cbn [c_ws]. rewrite nth_error_app2 by lia. rewrite Nat.sub_diag. reflexivity.
Qed.

Lemma mm_grow mx specs s d tr cur ct Q R R' :
  INV mx specs s d tr cur ct Q R -> R' = R \/ R' = R ++ [length (c_ws s)] -> (mm (grow mx s) Q R' <= mm s Q R + 1)%nat.
Proof.
  intros H HR. unfold mm. rewrite (nwk_grow _ _ _ _ _ _ _ _ _ _ H HR).
  destruct HR as [->| ->]; [lia|]. rewrite app_length. cbn [length]. lia.
Qed.

Lemma nwk_upd_cur s w k R : ~ In w R -> nwk (upd_w s w k) R = nwk s R.
Proof.
  intro Hn. apply nwk_ext. intros w' Hin. unfold wokenb. rewrite nth_error_upd_w_other; [reflexivity|].
  intros ->. contradiction.
Qed.

Lemma upd_w_twice s w k1 k2 : upd_w (upd_w s w k1) w k2 = upd_w s w k2.
Proof.
  unfold upd_w. cbn [c_ws s_ws]. rewrite set_nth_same_def, set_nth_set_nth. reflexivity.
Qed.

(** components no step of a run touches *)
Definition frame (s s' : cst) : Prop := c_clock s' = c_clock s /\ c_tb s' = c_tb s.
Lemma frame_refl s : frame s s. Proof. split; reflexivity. Qed.
Lemma frame_trans s1 s2 s3 : frame s1 s2 -> frame s2 s3 -> frame s1 s3.
Proof. intros [A B] [C D]. split; congruence. Qed.
Lemma frame_grow mx s : frame s (grow mx s).
Proof. unfold frame, grow. destruct (full_len (c_tq s) =? 0); [|destruct (mx <=? c_run s)]; split; reflexivity. Qed.

Definition trk_chg (tr : trk) (w : nat) (new : cstate) (t : nat) : trk :=
  {| k_clock := k_clock tr; k_tasks := Co.set_nth t Active (k_tasks tr);
     k_workers := set_nth_ext Ready w new (k_workers tr); k_judged := k_judged tr; k_ok := k_ok tr |}.

Lemma fold_chg tr w new old t : fold_left pev15 [EL 0 w (CbChanged new) old; EB t (BRes true)] tr = trk_chg tr w new t.
Proof. reflexivity. Qed.

Lemma ws_grow_old mx s w : (w < length (c_ws s))%nat -> nth_error (c_ws (grow mx s)) w = nth_error (c_ws s) w.
Proof.
  intro H. unfold grow. destruct (full_len (c_tq s) =? 0); [reflexivity|]. destruct (mx <=? c_run s); [reflexivity|].
  cbn [c_ws]. apply nth_error_app1, H.
Qed.

Lemma chg_syscall mx s w k y n st : chg mx s w k (Syscall y n st) = grow mx (upd_w s w (w_st k (Syscall y n st))).
Proof. reflexivity. Qed.
Lemma chg_running mx s w k : chg mx s w k Running = upd_w s w (w_st k Running).
Proof. reflexivity. Qed.
Lemma chg_complete mx s w k r :
  chg mx s w k (Complete r) = s_run (upd_w s w (w_st k (Complete r))) (sat_sub (c_run s) 1).
Proof. reflexivity. Qed.

(** * Fuel: the model's own budget covers every run *)
Lemma map_nth_seq {A} (d : A) l : map (fun t => nth t l d) (seq 0 (length l)) = l.
Proof.
  induction l as [|a l IH]; [reflexivity|]. cbn [length seq map nth]. f_equal.
  rewrite <- seq_shift, map_map. exact IH.
Qed.

Lemma qcost_all tb : qcost tb (seq 0 (length tb)) = fold_right Nat.add O (map (fun b => S (S (length b))) tb).
Proof.
  unfold qcost, bcost, list_sum. f_equal.
  rewrite <- (map_nth_seq [] tb) at 2. rewrite map_map. reflexivity.
Qed.

Lemma sum_sub (f : nat -> nat) l m : NoDup l -> incl l m -> (list_sum (map f l) <= list_sum (map f m))%nat.
Proof.
  revert m. induction l as [|a l IH]; intros m Hnd Hin; [cbn; lia|].
  inversion Hnd as [|? ? Hna Hnd']. subst.
  assert (In a m) as Ha by (apply Hin; left; reflexivity).
  destruct (in_split _ _ Ha) as (m1 & m2 & ->).
  assert (incl l (m1 ++ m2)) as Hin'.
  { intros x Hx. assert (In x (m1 ++ a :: m2)) as Hx' by (apply Hin; right; exact Hx).
    apply in_app_iff in Hx'. apply in_app_iff. destruct Hx' as [Hx'|[->|Hx']]; [left; exact Hx' | contradiction | right; exact Hx']. }
  specialize (IH (m1 ++ m2) Hnd' Hin').
  rewrite !map_app in *. cbn [map]. unfold list_sum in *. rewrite !fold_right_app in *. cbn [fold_right].
  assert (forall (x : list nat) acc, fold_right Nat.add acc x = (fold_right Nat.add 0 x + acc)%nat) as Hfa.
  { induction x as [|y x IHx]; intros acc0; cbn [fold_right]; [lia | rewrite IHx; lia]. }
  rewrite (Hfa (map f m1)) in *. cbn [map fold_right]. lia.
Qed.

Lemma qcost_le_wfuel mx s Q :
  NoDup Q -> (forall t, In t Q -> t < length (c_tb s))%nat -> (qcost (c_tb s) Q + 2 <= wfuel (mkx mx s))%nat.
Proof.
  intros Hnd Hlt. rewrite wfuel_mkx. rewrite <- qcost_all.
  assert (qcost (c_tb s) Q <= qcost (c_tb s) (seq 0 (length (c_tb s))))%nat.
  { apply sum_sub; [exact Hnd|]. intros t Ht. apply in_seq. specialize (Hlt t Ht). lia. }
  lia.
Qed.

Section Run.
  Variable mx : Z.
  Variable specs : list tspec.
  Variable d : sdata.
  Variable w : nat.

  (** the current worker performs a state change ([syscall(..)] or [running()]) inside task [t] *)
  Lemma step_chg s tr t Q R k rest new :
    INV mx specs s d tr (Some w) (Some t) Q R ->
    nth_error (c_ws s) w = Some k -> option_map fst (k_task k) = Some t -> (t < length specs)%nat ->
    status tr t <> NotStarted -> status tr t <> Finished ->
    match new with Syscall _ _ _ | Running => True | _ => False end ->
    let k1 := w_st (w_task k (Some (t, rest))) new in
    let s' := chg mx (upd_w s w (w_task k (Some (t, rest)))) w (w_task k (Some (t, rest))) new in
    exists R', INV mx specs s' d (trk_chg tr w new t) (Some w) (Some t) Q R' /\
               nth_error (c_ws s') w = Some k1 /\
               (mm s' Q R' <= mm s Q R + match new with Running => 0 | _ => 1 end)%nat /\ frame s s' /\
               status (trk_chg tr w new t) t = Active /\
               match new with Syscall _ _ _ => GG mx s' Q R' | _ => True end.
  Proof.
    intros H Hk Hkt Htl Hn1 Hn2 Hnew k1 s'.
    assert (w < length (c_ws s))%nat as Hwlt by (apply nth_error_Some; congruence).
    assert (wtask s w = Some t) as Hwt by (unfold wtask; rewrite Hk; exact Hkt).
    destruct (nodup_cur _ _ _ (i_nd _ _ _ _ _ _ _ _ _ H)) as [HnR HnP].
    (* the task is (again) active *)
    pose proof (inv_status mx specs s d tr w t Q R Active H Hwt Htl Hn1 Hn2 (or_introl eq_refl)) as H1.
    set (tr1 := set_status tr t Active) in *.
    assert (status tr1 t = Active) as Hact1.
    { apply status_set_same. rewrite (i_len _ _ _ _ _ _ _ _ _ H). exact Htl. }
    (* the worker's record and what the listener saw *)
    assert (INV mx specs (upd_w s w k1) d (trk_chg tr w new t) (Some w) (Some t) Q R) as H2.
    { apply (inv_upd_cur mx specs s d tr1 (trk_chg tr w new t) w (Some t) Q R k k1 H1 Hk).
      - intros t0. cbn [k1 w_st w_task k_task option_map fst]. intro Hx. rewrite Hkt. exact Hx.
      - intros t0 T n lg Hst [Hx _ _]. exfalso. rewrite Hx in Hkt. cbn [option_map fst] in Hkt. injection Hkt as ->. congruence.
      - reflexivity.
      - reflexivity.
      - intro w'. cbn [trk_chg k_workers]. rewrite nth_set_nth_ext. reflexivity.
      - cbn [trk_chg k_workers]. rewrite len_set_nth_ext. pose proof (i_trklen _ _ _ _ _ _ _ _ _ H). lia. }
    assert (nth_error (c_ws (upd_w s w k1)) w = Some k1) as Hk1 by (apply nth_error_upd_w, Hwlt).
    assert (mm (upd_w s w k1) Q R = mm s Q R) as Hmm by (unfold mm; rewrite nwk_upd_cur by exact HnR; reflexivity).
    unfold s'. destruct new; try contradiction.
    - (* Running *)
      rewrite chg_running, upd_w_twice. fold k1.
      exists R. split; [exact H2|]. split; [exact Hk1|]. split; [lia|]. split; [split; reflexivity|]. split; [|exact I].
      exact Hact1.
    - (* Syscall: the creator listener tries to grow *)
      rewrite chg_syscall, upd_w_twice. fold k1.
      destruct (inv_grow mx specs _ d _ _ _ Q R H2) as (R' & H3 & HR' & HG).
      exists R'. split; [exact H3|]. split.
      + rewrite ws_grow_old by (rewrite len_upd_w; exact Hwlt). exact Hk1.
      + split; [|split; [|split; [exact Hact1 | exact HG]]].
        * pose proof (mm_grow mx specs _ d _ _ _ Q R R' H2 HR') as Hg. lia.
        * eapply frame_trans; [|apply frame_grow]. split; reflexivity.
  Qed.

  (** the current task computes (progress marks) *)
  Lemma run_logs Q R t rest : forall lg s tr k acc f,
    INV mx specs s d tr (Some w) (Some t) Q R ->
    nth_error (c_ws s) w = Some k -> k_task k = Some (t, map ILog lg ++ rest) ->
    status tr t = Active -> (t < length specs)%nat ->
    exists s' e,
      wloop (length lg + f) (mkx mx s) w acc = wloop f (mkx mx s') w (acc ++ e) /\
      INV mx specs s' d (fold_left pev15 e tr) (Some w) (Some t) Q R /\
      nth_error (c_ws s') w = Some (w_task k (Some (t, rest))) /\
      status (fold_left pev15 e tr) t = Active /\ mm s' Q R = mm s Q R /\ frame s s'.
  Proof.
    induction lg as [|n lg IH]; intros s tr k acc f H Hk Hkt Hact Htl.
    - exists s, []. cbn [length Nat.add fold_left map app] in *. rewrite app_nil_r.
      split; [reflexivity|]. split; [exact H|]. split; [|split; [exact Hact|split; [reflexivity | apply frame_refl]]].
      rewrite Hk. f_equal. destruct k as [a1 a2 a3 a4 a5]. cbn [k_task w_task] in *. subst. reflexivity.
    - cbn [map app] in Hkt. cbn [length Nat.add].
      rewrite (wl_log mx s w k Hk (length lg + f) acc t n (map ILog lg ++ rest) Hkt).
      set (k1 := w_task k (Some (t, map ILog lg ++ rest))).
      assert (w < length (c_ws s))%nat as Hwlt by (apply nth_error_Some; congruence).
      assert (wtask s w = Some t) as Hwt by (unfold wtask; rewrite Hk, Hkt; reflexivity).
      destruct (nodup_cur _ _ _ (i_nd _ _ _ _ _ _ _ _ _ H)) as [HnR HnP].
      assert (INV mx specs (upd_w s w k1) d (set_status tr t Active) (Some w) (Some t) Q R) as H1.
      { apply (inv_upd_cur mx specs s d (set_status tr t Active) (set_status tr t Active) w (Some t) Q R k k1).
        - apply (inv_status mx specs s d tr w t Q R Active H Hwt Htl); [congruence | congruence | left; reflexivity].
        - exact Hk.
        - intros t0. cbn [k1 w_task k_task option_map fst]. rewrite Hkt. tauto.
        - intros t0 T n0 lg0 Hst [Hx _ _]. exfalso. rewrite Hx in Hkt. injection Hkt as -> _.
          rewrite status_set_same in Hst by (rewrite (i_len _ _ _ _ _ _ _ _ _ H); exact Htl). discriminate.
        - reflexivity.
        - reflexivity.
        - intro w'. destruct (Nat.eqb w' w) eqn:E; [|reflexivity]. apply Nat.eqb_eq in E. subst w'.
          cbn [k1 w_task k_st]. change (k_workers (set_status tr t Active)) with (k_workers tr).
          rewrite (i_trk _ _ _ _ _ _ _ _ _ H w), Hk. reflexivity.
        - apply (i_trklen _ _ _ _ _ _ _ _ _ H). }
      destruct (IH (upd_w s w k1) (set_status tr t Active) k1 (acc ++ [EB t (BLog n)]) f H1) as (s' & e & Heq & H2 & Hk2 & Hact2 & Hmm & Hfr).
      + apply nth_error_upd_w, Hwlt.
      + reflexivity.
      + apply status_set_same. rewrite (i_len _ _ _ _ _ _ _ _ _ H). exact Htl.
      + exact Htl.
      + exists s', (EB t (BLog n) :: e). rewrite Heq, <- app_assoc. cbn [app fold_left pev15].
        split; [reflexivity|]. split; [exact H2|]. split; [exact Hk2|]. split; [exact Hact2|]. split.
        * rewrite Hmm. unfold mm. rewrite nwk_upd_cur by exact HnR. reflexivity.
        * eapply frame_trans; [|exact Hfr]. split; reflexivity.
  Qed.

  (** ... and returns: its result is stored, the worker is free again *)
  Lemma run_ret Q R t s tr k acc f :
    INV mx specs s d tr (Some w) (Some t) Q R ->
    nth_error (c_ws s) w = Some k -> k_task k = Some (t, []) -> k_tpool k = O ->
    status tr t = Active -> (t < length specs)%nat ->
    exists s',
      wloop (S f) (mkx mx s) w acc = wloop f (mkx mx s') w (acc ++ [EB t (BRet 0)]) /\
      INV mx specs s' d (set_status tr t Finished) (Some w) None Q R /\
      nth_error (c_ws s') w = Some (w_task k None) /\ mm s' Q R = mm s Q R /\ frame s s'.
  Proof.
    intros H Hk Hkt Hkp Hact Htl.
    assert (w < length (c_ws s))%nat as Hwlt by (apply nth_error_Some; congruence).
    assert (wtask s w = Some t) as Hwt by (unfold wtask; rewrite Hk, Hkt; reflexivity).
    destruct (nodup_cur _ _ _ (i_nd _ _ _ _ _ _ _ _ _ H)) as [HnR HnP].
    assert (assoc_get t (c_res s) = None) as Hnr.
    { destruct (assoc_get t (c_res s)) eqn:E; [|reflexivity]. apply (i_res _ _ _ _ _ _ _ _ _ H) in E. destruct E. congruence. }
    rewrite (wl_ret mx s w k Hk f acc t Hkt Hkp (i_tp _ _ _ _ _ _ _ _ _ H t) Hnr).
    eexists. split; [reflexivity|].
    set (tr' := set_status tr t Finished).
    assert (status tr' t = Finished) as Hfin by (apply status_set_same; rewrite (i_len _ _ _ _ _ _ _ _ _ H); exact Htl).
    assert (INV mx specs s d tr' (Some w) (Some t) Q R) as H1.
    { apply (inv_status mx specs s d tr w t Q R Finished H Hwt Htl); [congruence | congruence | right; left; reflexivity]. }
    assert (INV mx specs (upd_w s w (w_task k None)) d tr' (Some w) (Some t) Q R) as H2.
    { apply (inv_upd_cur mx specs s d tr' tr' w (Some t) Q R k (w_task k None) H1 Hk).
      - intros t0. cbn [w_task k_task option_map]. discriminate.
      - intros t0 T n0 lg0 Hst [Hx _ _]. exfalso. rewrite Hx in Hkt. injection Hkt as -> _. congruence.
      - reflexivity.
      - reflexivity.
      - intro w'. destruct (Nat.eqb w' w) eqn:E; [|reflexivity]. apply Nat.eqb_eq in E. subst w'.
        cbn [w_task k_st]. rewrite (i_trk _ _ _ _ _ _ _ _ _ H1 w), Hk. reflexivity.
      - apply (i_trklen _ _ _ _ _ _ _ _ _ H1). }
    pose proof (inv_result mx specs _ d tr' w t Q R (TOk 0) H2 Hfin Htl) as H3.
    split; [|split; [|split]].
    - eapply inv_same; [..|exact H3]; reflexivity.
    - cbn [c_ws s_pf s_res s_rt]. apply nth_error_upd_w, Hwlt.
    - unfold mm. f_equal. change (nwk (upd_w s w (w_task k None)) R = nwk s R). apply nwk_upd_cur, HnR.
    - split; reflexivity.
  Qed.

  Definition dflt_spec : tspec := {| ts_sleep := None; ts_logs := [] |}.

  Lemma body_lookup s t sp : c_tb s = map body_of specs -> nth_error specs t = Some sp -> nth t (c_tb s) [] = body_of sp.
  Proof.
    intros Htb Hsp. rewrite Htb. change (@nil instr) with (body_of dflt_spec). rewrite map_nth.
    f_equal. apply nth_error_nth, Hsp.
  Qed.

  Definition fresh (k : worker) : Prop := k_st k = Running /\ k_task k = None /\ k_dead k = false.

  (** how a run ends: the worker leaves for good ([WReturn], nothing left to do), or it parks in
      a hooked wait ([WYield]) *)
  Definition run_post (s0 : cst) (Q0 R0 : list nat) (slack : nat) (s' : cst) (tr' : trk) (out : wout) : Prop :=
    frame s0 s' /\
    ((out = WReturn /\ exists R' k', INV mx specs s' d tr' (Some w) None [] R' /\ nth_error (c_ws s') w = Some k' /\ fresh k' /\
                                   (mm s' [] R' <= mm s0 Q0 R0 + slack)%nat) \/
     (out = WYield /\ exists Q' R' t n T lg k',
         c_ts s' = [T] /\ INV mx specs (s_ts s' []) d tr' (Some w) (Some t) Q' R' /\
         nth_error (c_ws s') w = Some k' /\ k_st k' = Syscall 0 n (SSuspend T) /\ hold k' t n lg /\
         spec_sleeper specs t n T lg /\ status tr' t = Asleep T /\ GG mx s' Q' R' /\
         (mm s' Q' R' + 3 <= mm s0 Q0 R0 + slack)%nat)).

  Lemma run_post_weaken s0 Q0 R0 s1 Q1 R1 sl0 sl1 s' tr' out :
    frame s0 s1 -> (mm s1 Q1 R1 + sl1 <= mm s0 Q0 R0 + sl0)%nat ->
    run_post s1 Q1 R1 sl1 s' tr' out -> run_post s0 Q0 R0 sl0 s' tr' out.
  Proof.
    intros Hf Hm [Hf' Hc]. split; [eapply frame_trans; eassumption|].
    destruct Hc as [(-> & R' & k' & HI & Hk & Hfr & Hmm)|(-> & Q' & R' & t & n & T & lg & k' & A & B & C & D & E & F & G & HG & Hmm)].
    - left. split; [reflexivity|]. exists R', k'. repeat (split; [assumption|]). lia.
    - right. split; [reflexivity|]. exists Q', R', t, n, T, lg, k'. repeat (split; [assumption|]). lia.
  Qed.

  (** a free worker (state Running, no task) runs until it has nothing to do or parks *)
  Lemma run_fresh : forall n Q, length Q = n -> forall s tr R acc k fuel,
    INV mx specs s d tr (Some w) None Q R ->
    nth_error (c_ws s) w = Some k -> fresh k ->
    (qcost (c_tb s) Q < fuel)%nat ->
    exists s' e out, wloop fuel (mkx mx s) w acc = (mkx mx s', acc ++ e, out) /\
                     run_post s Q R 0 s' (fold_left pev15 e tr) out.
  Proof.
    induction n as [|n IH]; intros Q HQn s tr R acc k fuel H Hk (Hst & Hnt & Hdd) Hfuel.
    all: destruct fuel as [|f]; [lia|].
    all: assert (w < length (c_ws s))%nat as Hwlt by (apply nth_error_Some; congruence).
    all: destruct (nodup_cur _ _ _ (i_nd _ _ _ _ _ _ _ _ _ H)) as [HnR HnP].
    all: destruct (q_pop (c_tq s) 0 (i_tq _ _ _ _ _ _ _ _ _ H)) as (q' & ox & Hpop & Hq' & Hox).
    all: assert (0 < c_run s) as Hrun by (rewrite (i_run _ _ _ _ _ _ _ _ _ H); unfold allw; cbn [curw app length]; lia).
    all: destruct ox as [tz|].
    all: try (destruct Hox as [Hemp Hemp']).
    - (* nothing queued, but the queue returned an item: impossible *)
      exfalso. destruct Q; [|discriminate]. pose proof (i_tqi _ _ _ _ _ _ _ _ _ H) as Hp. cbn [map] in Hp.
      apply Permutation_sym, Permutation_nil in Hp. rewrite Hp in Hox. apply Permutation_nil in Hox. discriminate.
    - (* idle: the worker returns *)
      rewrite (wl_pop_none mx s w k Hk f acc q' Hnt Hpop Hrun).
      exists (s_tq s q'), [], WReturn. rewrite app_nil_r. split; [reflexivity|]. split; [split; reflexivity|]. left.
      split; [reflexivity|]. destruct Q; [|discriminate]. exists R, k.
      split; [apply inv_set_tq; [exact H | exact Hq' | rewrite Hemp'; constructor]|].
      split; [exact Hk|]. split; [repeat split; assumption|]. unfold mm. cbn [length]. change (nwk (s_tq s q') R) with (nwk s R). lia.
    - (* a task starts *)
      set (t := Z.to_nat tz) in *.
      destruct (inv_start mx specs s d tr w Q R q' tz k (nth t (c_tb s) []) H Hq' Hox Hk Hnt) as (Q' & HpQ & Htl & H1).
      fold t in HpQ, Htl, H1.
      rewrite (wl_pop_some mx s w k Hk f acc q' tz Hnt Hpop). fold t.
      set (k1 := {| k_st := k_st k; k_create := k_create k; k_task := Some (t, nth t (c_tb s) []); k_tpool := 0; k_dead := k_dead k |}) in *.
      set (s1 := upd_w (s_rt (s_tq s q') (assoc_del t (c_rt s) ++ [(t, w)])) w k1).
      set (tr1 := set_status tr t Active) in *.
      assert (INV mx specs s1 d tr1 (Some w) (Some t) Q' R) as H1' by (eapply inv_same; [..|exact H1]; reflexivity).
      assert (nth_error (c_ws s1) w = Some k1) as Hk1 by (apply nth_error_upd_w; exact Hwlt).
      assert (status tr1 t = Active) as Hact1 by (apply status_set_same; rewrite (i_len _ _ _ _ _ _ _ _ _ H); exact Htl).
      assert (length Q' = n) as HQ'n by (apply Permutation_length in HpQ; cbn [length] in HpQ; lia).
      assert (mm s1 Q' R + 5 = mm s Q R)%nat as Hmm1.
      { unfold mm, s1. rewrite nwk_upd_cur by exact HnR. change (nwk (s_rt (s_tq s q') _) R) with (nwk s R).
        apply Permutation_length in HpQ. cbn [length] in HpQ. lia. }
      assert (frame s s1) as Hfr1 by (split; reflexivity).
      destruct (nth_error specs t) as [sp|] eqn:Hsp; [|apply nth_error_None in Hsp; lia].
      pose proof (body_lookup s t sp (i_tb _ _ _ _ _ _ _ _ _ H) Hsp) as Hbody.
      rewrite (qcost_perm _ _ _ HpQ), qcost_cons in Hfuel. unfold bcost in Hfuel. rewrite Hbody in Hfuel.
      destruct sp as [[[sn sT]|] lg]; unfold body_of in Hbody, Hfuel; cbn [ts_sleep ts_logs] in Hbody, Hfuel.
      + (* a sleeper: enter the syscall, announce the wait, yield *)
        rewrite app_length in Hfuel. cbn [sleep_block sleep_tail length] in Hfuel.
        destruct f as [|f]; [lia|]. destruct f as [|f]; [lia|]. destruct f as [|f]; [lia|].
        assert (k_task k1 = Some (t, ISyscall 0 sn SExecuting :: (ISyscall 0 sn (SSuspend sT) :: IUntil 0 sT :: sleep_tail sn) ++ map ILog lg)) as Hkt1.
        { cbn [k1 k_task]. rewrite Hbody. reflexivity. }
        rewrite (wl_syscall mx s1 w k1 Hk1 (S (S f)) _ t 0 sn SExecuting _ (Syscall 0 sn SExecuting) Hkt1)
          by (cbn [k1 k_st]; rewrite Hst; reflexivity).
        destruct (step_chg s1 tr1 t Q' R k1 ((ISyscall 0 sn (SSuspend sT) :: IUntil 0 sT :: sleep_tail sn) ++ map ILog lg)
                    (Syscall 0 sn SExecuting) H1' Hk1) as (R2 & H2 & Hk2 & Hmm2 & Hfr2 & Hact2 & _);
          [cbn [k1 k_task option_map fst]; reflexivity | exact Htl | congruence | congruence | exact I |].
        set (s2 := chg mx (upd_w s1 w (w_task k1 (Some (t, (ISyscall 0 sn (SSuspend sT) :: IUntil 0 sT :: sleep_tail sn) ++ map ILog lg)))) w
                       (w_task k1 (Some (t, (ISyscall 0 sn (SSuspend sT) :: IUntil 0 sT :: sleep_tail sn) ++ map ILog lg))) (Syscall 0 sn SExecuting)) in *.
        set (tr2 := trk_chg tr1 w (Syscall 0 sn SExecuting) t) in *.
        set (k2 := w_st (w_task k1 (Some (t, (ISyscall 0 sn (SSuspend sT) :: IUntil 0 sT :: sleep_tail sn) ++ map ILog lg))) (Syscall 0 sn SExecuting)) in *.
        assert (k_task k2 = Some (t, ISyscall 0 sn (SSuspend sT) :: (IUntil 0 sT :: sleep_tail sn) ++ map ILog lg)) as Hkt2 by reflexivity.
        rewrite (wl_syscall mx s2 w k2 Hk2 (S f) _ t 0 sn (SSuspend sT) _ (Syscall 0 sn (SSuspend sT)) Hkt2)
          by (cbn [k2 w_st k_st tr_syscall]; rewrite Z.eqb_refl; reflexivity).
        destruct (step_chg s2 tr2 t Q' R2 k2 ((IUntil 0 sT :: sleep_tail sn) ++ map ILog lg)
                    (Syscall 0 sn (SSuspend sT)) H2 Hk2) as (R3 & H3 & Hk3 & Hmm3 & Hfr3 & Hact3 & HG3);
          [reflexivity | exact Htl | congruence | congruence | exact I |].
        set (s3 := chg mx (upd_w s2 w (w_task k2 (Some (t, (IUntil 0 sT :: sleep_tail sn) ++ map ILog lg)))) w
                       (w_task k2 (Some (t, (IUntil 0 sT :: sleep_tail sn) ++ map ILog lg))) (Syscall 0 sn (SSuspend sT))) in *.
        set (tr3 := trk_chg tr2 w (Syscall 0 sn (SSuspend sT)) t) in *.
        set (k3 := w_st (w_task k2 (Some (t, (IUntil 0 sT :: sleep_tail sn) ++ map ILog lg))) (Syscall 0 sn (SSuspend sT))) in *.
        assert (k_task k3 = Some (t, IUntil 0 sT :: sleep_tail sn ++ map ILog lg)) as Hkt3 by reflexivity.
        rewrite (wl_until mx s3 w k3 Hk3 f _ t 0 sT _ Hkt3).
        set (k4 := w_task k3 (Some (t, sleep_tail sn ++ map ILog lg))).
        assert (w < length (c_ws s3))%nat as Hwlt3 by (apply nth_error_Some; congruence).
        destruct (nodup_cur _ _ _ (i_nd _ _ _ _ _ _ _ _ _ H3)) as [HnR3 HnP3].
        assert (hold k4 t sn lg) as Hh4 by (constructor; [reflexivity | exact Hdd | reflexivity]).
        assert (INV mx specs (upd_w s3 w k4) d tr3 (Some w) (Some t) Q' R3) as H4.
        { apply (inv_upd_cur mx specs s3 d tr3 tr3 w (Some t) Q' R3 k3 k4 H3 Hk3).
          - intros t0 Hx. exact Hx.
          - intros t0 T0 n0 lg0 Hs0 [Hx _ _]. exfalso. rewrite Hkt3 in Hx. discriminate.
          - reflexivity.
          - reflexivity.
          - intro w'. destruct (Nat.eqb w' w) eqn:E; [|reflexivity]. apply Nat.eqb_eq in E. subst w'.
            rewrite (i_trk _ _ _ _ _ _ _ _ _ H3 w), Hk3. reflexivity.
          - apply (i_trklen _ _ _ _ _ _ _ _ _ H3). }
        assert (nth_error (c_ws (upd_w s3 w k4)) w = Some k4) as Hk4 by (apply nth_error_upd_w, Hwlt3).
        set (tr4 := set_status tr3 t (Asleep sT)).
        assert (INV mx specs (upd_w s3 w k4) d tr4 (Some w) (Some t) Q' R3) as H5.
        { apply (inv_status mx specs _ d tr3 w t Q' R3 (Asleep sT) H4).
          - unfold wtask. rewrite Hk4. reflexivity.
          - exact Htl.
          - congruence.
          - congruence.
          - right. right. exists sT, k4, sn, lg. split; [reflexivity|]. split; [exact Hk4 | exact Hh4]. }
        exists (s_ts (upd_w s3 w k4) (sT :: c_ts s3)),
               ([EB t (BStart (Z.of_nat w))] ++ ([EL 0 w (CbChanged (Syscall 0 sn SExecuting)) (k_st k1)] ++ [EB t (BRes true)])
                ++ ([EL 0 w (CbChanged (Syscall 0 sn (SSuspend sT))) (k_st k2)] ++ [EB t (BRes true)]) ++ [EB t (BYield 0 (RUntil sT))]),
               WYield.
        split; [rewrite <- !app_assoc; reflexivity|].
        match goal with |- run_post _ _ _ _ _ ?trx _ => change trx with tr4 end.
        split; [eapply frame_trans; [exact Hfr1|]; eapply frame_trans; [exact Hfr2|]; eapply frame_trans; [exact Hfr3|]; split; reflexivity|].
        right. split; [reflexivity|]. exists Q', R3, t, sn, sT, lg, k4.
        assert (c_ts s3 = []) as Hts3 by apply (i_ts _ _ _ _ _ _ _ _ _ H3).
        split; [cbn [c_ts s_ts]; rewrite Hts3; reflexivity|].
        split; [eapply inv_same; [..|exact H5]; try reflexivity; cbn [c_ts s_ts upd_w s_ws]; rewrite Hts3; reflexivity|].
        split; [exact Hk4|]. split; [reflexivity|]. split; [exact Hh4|]. split; [exact Hsp|].
        split; [apply status_set_same; rewrite (i_len _ _ _ _ _ _ _ _ _ H3); exact Htl|].
        split; [exact HG3|].
        assert (mm (s_ts (upd_w s3 w k4) (sT :: c_ts s3)) Q' R3 = mm s3 Q' R3) as ->.
        { unfold mm. f_equal. change (nwk (upd_w s3 w k4) R3 = nwk s3 R3). apply nwk_upd_cur, HnR3. }
        lia.
      + (* a computing task: progress marks, return, next task *)
        cbn [app] in Hbody, Hfuel.
        assert (k_task k1 = Some (t, map ILog lg ++ [])) as Hkt1 by (cbn [k1 k_task]; rewrite Hbody, app_nil_r; reflexivity).
        rewrite map_length in Hfuel. cbn [app length] in Hfuel.
        replace f with (length lg + S (f - length lg - 1))%nat by lia.
        destruct (run_logs Q' R t [] lg s1 tr1 k1 (acc ++ [EB t (BStart (Z.of_nat w))]) (S (f - length lg - 1)) H1' Hk1 Hkt1 Hact1 Htl)
          as (s2 & e2 & Heq2 & H2 & Hk2 & Hact2 & Hmm2 & Hfr2).
        rewrite Heq2.
        destruct (run_ret Q' R t s2 (fold_left pev15 e2 tr1) (w_task k1 (Some (t, []))) ((acc ++ [EB t (BStart (Z.of_nat w))]) ++ e2)
                    (f - length lg - 1) H2 Hk2) as (s3 & Heq3 & H3 & Hk3 & Hmm3 & Hfr3);
          [reflexivity | reflexivity | exact Hact2 | exact Htl |].
        rewrite Heq3.
        destruct (IH Q' HQ'n s3 (set_status (fold_left pev15 e2 tr1) t Finished) R
                     (((acc ++ [EB t (BStart (Z.of_nat w))]) ++ e2) ++ [EB t (BRet 0)]) (w_task (w_task k1 (Some (t, []))) None)
                     (f - length lg - 1)%nat H3 Hk3) as (s' & e & out & Heq & Hpost).
        * repeat split; [exact Hst | exact Hdd].
        * destruct Hfr2 as [_ Hb2]. destruct Hfr3 as [_ Hb3]. rewrite Hb3, Hb2. change (c_tb s1) with (c_tb s). lia.
        * exists s', ([EB t (BStart (Z.of_nat w))] ++ e2 ++ [EB t (BRet 0)] ++ e), out.
          split; [rewrite Heq, <- !app_assoc; reflexivity|].
          rewrite !fold_left_app.
          eapply run_post_weaken; [| |exact Hpost].
          -- eapply frame_trans; [exact Hfr1|]. eapply frame_trans; eassumption.
          -- lia.
    - (* tasks are queued but the queue is empty: impossible *)
      exfalso. pose proof (i_tqi _ _ _ _ _ _ _ _ _ H) as Hp. rewrite Hemp in Hp. apply Permutation_nil in Hp.
      destruct Q; [discriminate HQn | discriminate Hp].
  Qed.

  (** a worker woken from its hooked wait finishes the sleeper, then goes on as a free worker *)
  Lemma run_woken s tr Q R acc k t n T lg fuel :
    INV mx specs s d tr (Some w) (Some t) Q R ->
    nth_error (c_ws s) w = Some k -> k_st k = Syscall 0 n STimeout -> hold k t n lg ->
    spec_sleeper specs t n T lg -> status tr t = Asleep T ->
    (qcost (c_tb s) Q + length lg + 3 < fuel)%nat ->
    exists s' e out, wloop fuel (mkx mx s) w acc = (mkx mx s', acc ++ e, out) /\
                     run_post s Q R 1 s' (fold_left pev15 e tr) out.
  Proof.
    intros H Hk Hst [Hkt Hdd Hkp] Hsp Hasl Hfuel.
    assert (t < length specs)%nat as Htl by (apply nth_error_Some; unfold spec_sleeper in Hsp; congruence).
    destruct fuel as [|f]; [lia|]. destruct f as [|f]; [lia|].
    cbn [sleep_tail app] in Hkt.
    (* back to Executing *)
    rewrite (wl_syscall mx s w k Hk (S f) acc t 0 n SExecuting _ (Syscall 0 n SExecuting) Hkt)
      by (rewrite Hst; cbn [tr_syscall]; rewrite Z.eqb_refl; reflexivity).
    destruct (step_chg s tr t Q R k (IRunning :: map ILog lg) (Syscall 0 n SExecuting) H Hk) as (R2 & H2 & Hk2 & Hmm2 & Hfr2 & Hact2 & _);
      [rewrite Hkt; reflexivity | exact Htl | congruence | congruence | exact I |].
    set (s2 := chg mx (upd_w s w (w_task k (Some (t, IRunning :: map ILog lg)))) w (w_task k (Some (t, IRunning :: map ILog lg)))
                   (Syscall 0 n SExecuting)) in *.
    set (tr2 := trk_chg tr w (Syscall 0 n SExecuting) t) in *.
    set (k2 := w_st (w_task k (Some (t, IRunning :: map ILog lg))) (Syscall 0 n SExecuting)) in *.
    (* leave the syscall *)
    assert (k_task k2 = Some (t, IRunning :: map ILog lg)) as Hkt2 by reflexivity.
    destruct Hfr2 as [Hcl2 Htb2].
    rewrite (wl_running mx s2 w k2 Hk2 f _ t _ Running Hkt2) by reflexivity.
    destruct (step_chg s2 tr2 t Q R2 k2 (map ILog lg) Running H2 Hk2) as (R3 & H3 & Hk3 & Hmm3 & Hfr3 & Hact3 & _);
      [reflexivity | exact Htl | congruence | congruence | exact I |].
    set (s3 := chg mx (upd_w s2 w (w_task k2 (Some (t, map ILog lg)))) w (w_task k2 (Some (t, map ILog lg))) Running) in *.
    set (tr3 := trk_chg tr2 w Running t) in *.
    set (k3 := w_st (w_task k2 (Some (t, map ILog lg))) Running) in *.
    destruct Hfr3 as [Hcl3 Htb3].
    (* the rest of the task, its return, further tasks *)
    assert (k_task k3 = Some (t, map ILog lg ++ [])) as Hkt3 by (cbn [k3 k2 w_st w_task k_task]; rewrite app_nil_r; reflexivity).
    replace f with (length lg + S (f - length lg - 1))%nat by lia.
    set (acc3 := (acc ++ [EL 0 w (CbChanged (Syscall 0 n SExecuting)) (k_st k)] ++ [EB t (BRes true)]) ++
                 [EL 0 w (CbChanged Running) (k_st k2)] ++ [EB t (BRes true)]).
    destruct (run_logs Q R3 t [] lg s3 tr3 k3 acc3 (S (f - length lg - 1)) H3 Hk3 Hkt3 Hact3 Htl)
      as (s4 & e4 & Heq4 & H4 & Hk4 & Hact4 & Hmm4 & Hfr4).
    rewrite Heq4.
    destruct (run_ret Q R3 t s4 (fold_left pev15 e4 tr3) (w_task k3 (Some (t, []))) (acc3 ++ e4) (f - length lg - 1) H4 Hk4)
      as (s5 & Heq5 & H5 & Hk5 & Hmm5 & Hfr5); [reflexivity | exact Hkp | exact Hact4 | exact Htl |].
    rewrite Heq5.
    destruct (run_fresh (length Q) Q eq_refl s5 (set_status (fold_left pev15 e4 tr3) t Finished) R3 ((acc3 ++ e4) ++ [EB t (BRet 0)])
                (w_task (w_task k3 (Some (t, []))) None) (f - length lg - 1)%nat H5 Hk5) as (s' & e & out & Heq & Hpost).
    - repeat split. exact Hdd.
    - destruct Hfr4 as [_ Hb4]. destruct Hfr5 as [_ Hb5]. rewrite Hb5, Hb4, Htb3, Htb2. lia.
    - exists s', (([EL 0 w (CbChanged (Syscall 0 n SExecuting)) (k_st k)] ++ [EB t (BRes true)]) ++
                  ([EL 0 w (CbChanged Running) (k_st k2)] ++ [EB t (BRes true)]) ++ e4 ++ [EB t (BRet 0)] ++ e), out.
      split; [rewrite Heq; unfold acc3; rewrite <- !app_assoc; reflexivity|].
      rewrite !fold_left_app.
      eapply run_post_weaken; [| |exact Hpost].
      + eapply frame_trans; [split; [exact Hcl2 | exact Htb2]|]. eapply frame_trans; [split; [exact Hcl3 | exact Htb3]|].
        eapply frame_trans; eassumption.
      + lia.
  Qed.

  (** * Resuming a worker taken from the ready queue *)
  Lemma exit_inv s tr Q R k :
    INV mx specs s d tr (Some w) None Q R -> nth_error (c_ws s) w = Some k -> fresh k ->
    let s3 := chg mx (upd_w s w (w_dead k)) w (w_dead k) (Complete (-1)) in
    INV mx specs s3 d (pev15 tr (EL 0 w (CbChanged (Complete (-1))) Running)) None None Q R /\ mm s3 Q R = mm s Q R /\ frame s s3.
  Proof.
    intros H Hk (Hst & Hnt & Hdd) s3.
    assert (w < length (c_ws s))%nat as Hwlt by (apply nth_error_Some; congruence).
    destruct (nodup_cur _ _ _ (i_nd _ _ _ _ _ _ _ _ _ H)) as [HnR HnP].
    unfold s3. rewrite chg_complete, upd_w_twice.
    set (kd := w_st (w_dead k) (Complete (-1))).
    change (c_run (upd_w s w (w_dead k))) with (c_run (upd_w s w kd)).
    assert (INV mx specs (upd_w s w kd) d (pev15 tr (EL 0 w (CbChanged (Complete (-1))) Running)) (Some w) None Q R) as H1.
    { apply (inv_upd_cur mx specs s d tr _ w None Q R k kd H Hk).
      - intros t. cbn [kd w_st w_dead k_task]. rewrite Hnt. tauto.
      - intros t T n lg _ [Hx _ _]. congruence.
      - reflexivity.
      - reflexivity.
      - intro w'. cbn [pev15 k_workers]. rewrite nth_set_nth_ext. reflexivity.
      - cbn [pev15 k_workers]. rewrite len_set_nth_ext. pose proof (i_trklen _ _ _ _ _ _ _ _ _ H). lia. }
    split; [|split; [|split; reflexivity]].
    - apply (inv_drop_cur mx specs (upd_w s w kd) d _ w Q R kd (-1) H1).
      + apply nth_error_upd_w, Hwlt.
      + reflexivity.
      + cbn [kd w_st w_dead k_task]. exact Hnt.
    - unfold mm. f_equal. change (nwk (upd_w s w kd) R = nwk s R). apply nwk_upd_cur, HnR.
  Qed.

  Definition resume_post (s0 : cst) (Q0 R0 : list nat) (slack : nat) (s3 : cst) (tr' : trk) (r : res) (d' : sdata) : Prop :=
    frame s0 s3 /\
    ((exists rr R', r = ROk (Complete rr) /\ d' = d /\ INV mx specs s3 d tr' None None [] R' /\ (mm s3 [] R' <= mm s0 Q0 R0 + slack)%nat) \/
     (exists n T Q' R', r = ROk (Syscall 0 n (SSuspend T)) /\ d' = d_park d T w /\ INV mx specs s3 d' tr' None None Q' R' /\
                        GG mx s3 Q' R' /\ (mm s3 Q' R' + 3 <= mm s0 Q0 R0 + slack)%nat)).

  (** from the end of the run to the end of [resume] *)
  Lemma resume_finish s k c0 s0 Q0 R0 slack s' e out :
    nth w (c_wp s) O = O -> nth_error (c_ws s) w = Some k ->
    match k_st k with Complete _ | Error _ => False | _ => True end ->
    tr_running (c_clock s) (k_st k) = Some c0 -> k_dead k = false ->
    wloop (wfuel (mkx mx (fst (pre_resume mx s w k c0)))) (mkx mx (fst (pre_resume mx s w k c0))) w (snd (pre_resume mx s w k c0))
      = (mkx mx s', snd (pre_resume mx s w k c0) ++ e, out) ->
    forall tr1, run_post s0 Q0 R0 slack s' (fold_left pev15 e tr1) out ->
    exists s3 e3 r d', k_resume (mkx mx s) w = (mkx mx s3, r, snd (pre_resume mx s w k c0) ++ e3) /\
                       resume_post s0 Q0 R0 slack s3 (fold_left pev15 e3 tr1) r d'.
  Proof.
    intros Hwp Hk Hstk Htr Hdd Hwl tr1 [Hfr Hpost].
    destruct Hpost as [(-> & R' & k' & HI & Hk' & Hfresh & Hmm)|(-> & Q' & R' & t & n & T & lg & k' & Hts & HI & Hk' & Hst' & Hh & Hsp & Hasl & HG & Hmm)].
    - (* the worker coroutine completes *)
      rewrite (k_resume_return mx s w k c0 Hwp Hk Hstk Htr Hdd s' _ k' Hk' Hwl (proj1 Hfresh)).
      destruct (exit_inv s' (fold_left pev15 e tr1) [] R' k' HI Hk' Hfresh) as (H3 & Hmm3 & Hfr3).
      eexists _, (e ++ [EL 0 w (CbChanged (Complete (-1))) Running]), _, d. split; [rewrite app_assoc; reflexivity|].
      split; [eapply frame_trans; eassumption|]. left. exists (-1), R'. split; [reflexivity|]. split; [reflexivity|].
      rewrite fold_left_app. split; [exact H3 | lia].
    - (* the worker is parked in its hooked wait *)
      rewrite (k_resume_yield mx s w k c0 Hwp Hk Hstk Htr Hdd s' _ k' Hk' 0 n (SSuspend T) Hwl Hst').
      rewrite Hts. cbn [tl].
      assert (nth_error (c_ws (s_ts s' [])) w = Some k') as Hk'' by exact Hk'.
      pose proof (inv_park mx specs (s_ts s' []) d _ w t Q' R' k' n T lg HI Hk'' Hst' Hh Hsp Hasl) as H3.
      eexists _, e, _, (d_park d T w). split; [reflexivity|].
      split; [eapply frame_trans; [exact Hfr | split; reflexivity]|]. right. exists n, T, Q', R'.
      split; [reflexivity|]. split; [reflexivity|]. split; [exact H3|]. split; [exact HG | exact Hmm].
  Qed.

  (** a ready worker: Ready -> Running, then a free run *)
  Lemma resume_ready s tr Q R k :
    INV mx specs s d tr (Some w) None Q R ->
    nth_error (c_ws s) w = Some k -> k_st k = Ready -> k_task k = None -> k_dead k = false ->
    exists s3 e r d', k_resume (mkx mx s) w = (mkx mx s3, r, e) /\ resume_post s Q R 0 s3 (fold_left pev15 e tr) r d'.
  Proof.
    intros H Hk Hst Hnt Hdd.
    assert (w < length (c_ws s))%nat as Hwlt by (apply nth_error_Some; congruence).
    destruct (nodup_cur _ _ _ (i_nd _ _ _ _ _ _ _ _ _ H)) as [HnR HnP].
    assert (tr_running (c_clock s) (k_st k) = Some (Some Running)) as Htr by (rewrite Hst; reflexivity).
    set (k1 := w_st k Running).
    set (s1 := upd_w s w k1).
    set (tr1 := pev15 tr (EL 0 w (CbChanged Running) Ready)).
    assert (pre_resume mx s w k (Some Running) = (s1, [EL 0 w (CbChanged Running) Ready])) as Hpre.
    { unfold pre_resume. rewrite chg_running, Hst. reflexivity. }
    assert (INV mx specs s1 d tr1 (Some w) None Q R) as H1.
    { apply (inv_upd_cur mx specs s d tr tr1 w None Q R k k1 H Hk).
      - intros t. cbn [k1 w_st k_task]. tauto.
      - intros t T n lg _ [Hx _ _]. congruence.
      - reflexivity.
      - reflexivity.
      - intro w'. cbn [tr1 pev15 k_workers]. rewrite nth_set_nth_ext. reflexivity.
      - cbn [tr1 pev15 k_workers]. rewrite len_set_nth_ext. pose proof (i_trklen _ _ _ _ _ _ _ _ _ H). lia. }
    assert (nth_error (c_ws s1) w = Some k1) as Hk1 by (apply nth_error_upd_w, Hwlt).
    destruct (run_fresh (length Q) Q eq_refl s1 tr1 R [EL 0 w (CbChanged Running) Ready] k1 (wfuel (mkx mx s1)) H1 Hk1)
      as (s' & e & out & Heq & Hpost).
    - repeat split; assumption.
    - pose proof (qcost_le_wfuel mx s1 Q (i_Qnd _ _ _ _ _ _ _ _ _ H1)) as Hq.
      assert (forall t, In t Q -> (t < length (c_tb s1))%nat) as Hlt.
      { intros t Ht. rewrite (i_tb _ _ _ _ _ _ _ _ _ H1), map_length. apply (i_Qst _ _ _ _ _ _ _ _ _ H1), Ht. }
      specialize (Hq Hlt). lia.
    - assert (run_post s Q R 0 s' (fold_left pev15 e tr1) out) as Hpost'.
      { eapply run_post_weaken; [| |exact Hpost]; [split; reflexivity|].
        unfold mm, s1. rewrite nwk_upd_cur by exact HnR. lia. }
      assert (match k_st k with Complete _ | Error _ => False | _ => True end) as Hstk by (rewrite Hst; exact I).
      assert (wloop (wfuel (mkx mx (fst (pre_resume mx s w k (Some Running))))) (mkx mx (fst (pre_resume mx s w k (Some Running)))) w
                    (snd (pre_resume mx s w k (Some Running))) = (mkx mx s', snd (pre_resume mx s w k (Some Running)) ++ e, out)) as Hwl
        by (rewrite Hpre; cbn [fst snd]; exact Heq).
      destruct (resume_finish s k (Some Running) s Q R 0 s' e out (i_wp _ _ _ _ _ _ _ _ _ H w) Hk Hstk Htr Hdd Hwl tr1 Hpost')
        as (s3 & e3 & r & d' & Hres & Hrp).
      + rewrite Hpre in Hres. cbn [snd] in Hres. exists s3, ([EL 0 w (CbChanged Running) Ready] ++ e3), r, d'.
        split; [exact Hres|]. rewrite fold_left_app. exact Hrp.
  Qed.

  (** a woken worker: still in its syscall state (Timeout), no state change on resumption *)
  Lemma resume_woken s tr Q R k t n T lg :
    INV mx specs s d tr (Some w) (Some t) Q R ->
    nth_error (c_ws s) w = Some k -> k_st k = Syscall 0 n STimeout -> hold k t n lg ->
    spec_sleeper specs t n T lg -> status tr t = Asleep T ->
    exists s3 e r d', k_resume (mkx mx s) w = (mkx mx s3, r, e) /\ resume_post s Q R 1 s3 (fold_left pev15 e tr) r d'.
  Proof.
    intros H Hk Hst Hh Hsp Hasl.
    assert (tr_running (c_clock s) (k_st k) = Some None) as Htr by (rewrite Hst; reflexivity).
    assert (pre_resume mx s w k None = (s, [])) as Hpre by reflexivity.
    assert (t < length specs)%nat as Htl by (apply nth_error_Some; unfold spec_sleeper in Hsp; congruence).
    assert (~ In t Q) as HtQ.
    { intro Hin. apply (i_Qst _ _ _ _ _ _ _ _ _ H) in Hin. destruct Hin. congruence. }
    destruct (run_woken s tr Q R [] k t n T lg (wfuel (mkx mx s)) H Hk Hst Hh Hsp Hasl) as (s' & e & out & Heq & Hpost).
    - pose proof (qcost_le_wfuel mx s (t :: Q)) as Hq.
      assert (NoDup (t :: Q)) as Hnd by (constructor; [exact HtQ | apply (i_Qnd _ _ _ _ _ _ _ _ _ H)]).
      assert (forall t0, In t0 (t :: Q) -> (t0 < length (c_tb s))%nat) as Hlt.
      { intros t0 [<-|Ht0]; rewrite (i_tb _ _ _ _ _ _ _ _ _ H), map_length; [exact Htl | apply (i_Qst _ _ _ _ _ _ _ _ _ H), Ht0]. }
      specialize (Hq Hnd Hlt). rewrite qcost_cons in Hq. unfold bcost in Hq.
      rewrite (body_lookup s t _ (i_tb _ _ _ _ _ _ _ _ _ H) Hsp) in Hq. unfold body_of in Hq. cbn [ts_sleep ts_logs] in Hq.
      rewrite app_length, map_length in Hq. cbn [sleep_block sleep_tail length] in Hq. lia.
    - assert (match k_st k with Complete _ | Error _ => False | _ => True end) as Hstk by (rewrite Hst; exact I).
      assert (wloop (wfuel (mkx mx (fst (pre_resume mx s w k None)))) (mkx mx (fst (pre_resume mx s w k None))) w
                    (snd (pre_resume mx s w k None)) = (mkx mx s', snd (pre_resume mx s w k None) ++ e, out)) as Hwl
        by (rewrite Hpre; cbn [fst snd]; exact Heq).
      destruct (resume_finish s k None s Q R 1 s' e out (i_wp _ _ _ _ _ _ _ _ _ H w) Hk Hstk Htr (h_dead _ _ _ _ Hh) Hwl tr Hpost)
        as (s3 & e3 & r & d' & Hres & Hrp).
      + rewrite Hpre in Hres. cbn [snd app] in Hres. exists s3, e3, r, d'. split; [exact Hres | exact Hrp].
  Qed.
End Run.
