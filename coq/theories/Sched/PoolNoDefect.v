(** P7: a single pool never raises the defect tags [defect_stolen_worker] (2) and
    [defect_result_elsewhere] (3), whatever the history: pool indices out of range, clocks going
    backwards and arbitrary task bodies included. *)
From OCV Require Import Base.Prelude Misc.Time Queue.PMap Queue.OWS Queue.OWSOracle Queue.OWSLemmas
  Queue.OWSModel Queue.OWSInv Queue.OWSStep.
From OCV Require Import Coroutine.Co Coroutine.CoLemmas Sched.Sched Sched.Pool Sched.PoolBase.
From Coq Require Import ZifyBool ZifyNat.
Open Scope Z_scope.

(** * 1. The shared queues of a single pool: one local queue, one handle *)

Definition QOK (s : sys) : Prop := Inv 1 queue_cap s /\ length (s_handles s) = 1%nat.

Lemma QOK_pw0 : QOK (add_handles 1 (OWS.init (Nat.max 1 1) queue_cap)).
Proof.
  cbn [add_handles Nat.max].
  destruct (new_handle_spec 1 queue_cap (OWS.init 1 queue_cap) (Inv_init 1 queue_cap))
    as (HI & _ & _ & _ & Hcase).
  split; [exact HI|].
  destruct Hcase as [[Hz _]|(_ & ix & _ & Hh & _)]; [discriminate|].
  rewrite Hh. reflexivity.
Qed.

Lemma items_pw0 : all_items (add_handles 1 (OWS.init (Nat.max 1 1) queue_cap)) = [].
Proof.
  cbn [add_handles Nat.max].
  destruct (new_handle_spec 1 queue_cap (OWS.init 1 queue_cap) (Inv_init 1 queue_cap))
    as (_ & Hall & _).
  rewrite Hall. reflexivity.
Qed.

Lemma QOK_no_handle s h : QOK s -> h <> 0%nat -> nth_error (s_handles s) h = None.
Proof. intros [_ Hl] Hh. apply nth_error_None. lia. Qed.

Lemma lpush_QOK s h p x :
  QOK s ->
  QOK (fst (lpush s h p x)) /\
  (forall z, In z (all_items (fst (lpush s h p x))) -> z = x \/ In z (all_items s)) /\
  (h <> 0%nat -> fst (lpush s h p x) = s).
Proof.
  intros HQ. pose proof HQ as [HI Hl].
  destruct (nth_error (s_handles s) h) as [hd|] eqn:Hn.
  - destruct (lpush_spec 1 queue_cap s h hd p x HI Hn) as (_ & HI' & Ht).
    split; [split; [exact HI'|]|split].
    + pose proof (ticks_lpush 1 queue_cap s h p x HI) as Htk.
      apply (f_equal (@length Z)) in Htk. rewrite !map_length in Htk. lia.
    + intros z Hz. apply cnt_In in Hz. fold (tot z (fst (lpush s h p x))) in Hz.
      rewrite Ht in Hz. unfold one in Hz. destruct (Z.eq_dec x z) as [E|E]; [left; congruence|].
      right. apply cnt_In. exact Hz.
    + intro Hh. rewrite (QOK_no_handle s h HQ Hh) in Hn. discriminate.
  - rewrite (lpush_bad _ _ _ _ Hn). cbn [fst].
    split; [exact HQ|]. split; [intros z Hz; right; exact Hz | reflexivity].
Qed.

Lemma lpop_QOK s h st :
  QOK s ->
  QOK (fst (lpop s h st)) /\
  (forall z, In z (all_items (fst (lpop s h st))) -> In z (all_items s)) /\
  (forall v, snd (lpop s h st) = OItem (Some v) -> In v (all_items s)) /\
  (h <> 0%nat -> lpop s h st = (s, OBad)).
Proof.
  intros HQ. pose proof HQ as [HI Hl].
  destruct (nth_error (s_handles s) h) as [hd0|] eqn:Hn.
  - destruct (lpop_spec 1 queue_cap s h st hd0 HI Hn) as [HI' (ox & Hr & Ht & _) Htk _].
    split; [split; [exact HI'|]|split; [|split]].
    + apply (f_equal (@length Z)) in Htk.
      rewrite OWSLemmas.set_nth_length, !map_length in Htk. lia.
    + intros z Hz. apply cnt_In in Hz. apply cnt_In. fold (tot z s). rewrite (Ht z).
      unfold tot. lia.
    + intros v Hv. rewrite Hr in Hv. injection Hv as ->.
      apply cnt_In. fold (tot v s). rewrite (Ht v). cbn [olist]. rewrite cnt_cons, one_same. lia.
    + intro Hh. rewrite (QOK_no_handle s h HQ Hh) in Hn. discriminate.
  - assert (lpop s h st = (s, OBad)) as E by (unfold lpop; rewrite Hn; reflexivity).
    rewrite E. cbn [fst snd].
    split; [exact HQ|]. split; [intros z Hz; exact Hz|]. split; [discriminate | reflexivity].
Qed.

(** * 2. The invariant *)

(** task [t] exists and was submitted to pool 0 *)
Definition task_ok (tp : list nat) (t : nat) : Prop := nth t tp 0%nat = 0%nat /\ (t < length tp)%nat.

Lemma task_ok_app tp t p : task_ok tp t -> task_ok (tp ++ [p]) t.
Proof.
  intros [H1 H2]. split; [rewrite app_nth1 by exact H2; exact H1 | rewrite app_length; lia].
Qed.

Lemma task_ok_new tp : task_ok (tp ++ [0%nat]) (length tp).
Proof.
  split; [rewrite app_nth2 by lia; rewrite Nat.sub_diag; reflexivity | rewrite app_length; cbn [length]; lia].
Qed.

Definition worker_ok (tp : list nat) (k : worker) : Prop :=
  forall t rest, k_task k = Some (t, rest) -> k_tpool k = 0%nat /\ task_ok tp t.

Record ND (x : pw) : Prop := {
  nd_pools : length (pw_pools x) = 1%nat;
  nd_tq : QOK (pw_tq x);
  nd_cq : QOK (pw_cq x);
  nd_wpool : Forall (fun p => p = 0%nat) (pw_wpool x);
  nd_len : length (pw_tbody x) = length (pw_tpool x);
  nd_items : forall z, In z (all_items (pw_tq x)) -> task_ok (pw_tpool x) (Z.to_nat z);
  nd_work : forall w k, get_worker x w = Some k -> worker_ok (pw_tpool x) k;
  nd_d2 : ~ In defect_stolen_worker (pw_defects x);
  nd_d3 : ~ In defect_result_elsewhere (pw_defects x)
}.

(** the invariant inside a pass of pool 0 *)
Definition NDC (x : pw) : Prop := ND x /\ pw_cur x = 0%nat.

Lemma ND_pw0 clock cfg : ND (pw0 clock [cfg]).
Proof.
  constructor; cbn [pw0 length map pw_pools pw_tq pw_cq pw_wpool pw_tbody pw_tpool pw_defects].
  - reflexivity.
  - exact QOK_pw0.
  - exact QOK_pw0.
  - constructor.
  - reflexivity.
  - intros z Hz. rewrite items_pw0 in Hz. destruct Hz.
  - intros w k Hk. unfold get_worker in Hk. cbn [pw0 length pw_workers] in Hk. destruct w; discriminate.
  - intros [].
  - intros [].
Qed.

(** updates that touch none of the fields the invariant looks at *)
Lemma ND_set_clockp x c : ND x -> ND (set_clockp x c).
Proof. intros [Hpl Htq Hcq Hwp Hlen Hit Hwk Hd2 Hd3]; constructor; assumption. Qed.
Lemma ND_set_req x ts cn : ND x -> ND (set_req x ts cn).
Proof. intros [Hpl Htq Hcq Hwp Hlen Hit Hwk Hd2 Hd3]; constructor; assumption. Qed.
Lemma ND_set_cur x p : ND x -> ND (set_cur x p).
Proof. intros [Hpl Htq Hcq Hwp Hlen Hit Hwk Hd2 Hd3]; constructor; assumption. Qed.
Lemma ND_set_globals x a b c : ND x -> ND (set_globals x a b c).
Proof. intros [Hpl Htq Hcq Hwp Hlen Hit Hwk Hd2 Hd3]; constructor; assumption. Qed.
Lemma ND_set_spin x : ND x -> ND (set_spin x).
Proof. intros [Hpl Htq Hcq Hwp Hlen Hit Hwk Hd2 Hd3]; constructor; assumption. Qed.
Lemma ND_upd_pool x p f : ND x -> ND (upd_pool x p f).
Proof.
  intros [Hpl Htq Hcq Hwp Hlen Hit Hwk Hd2 Hd3]; constructor; try assumption.
  rewrite pools_len_upd_pool. exact Hpl.
Qed.
Lemma ND_notify x p t : ND x -> ND (notify x p t).
Proof. apply ND_upd_pool. Qed.

Lemma ND_upd_worker x w k : ND x -> worker_ok (pw_tpool x) k -> ND (upd_worker x w k).
Proof.
  intros [Hpl Htq Hcq Hwp Hlen Hit Hwk Hd2 Hd3] Hk; constructor; try assumption.
  intros w' k' Hk'. destruct (Nat.eq_dec w w') as [E|E].
  - subst w'. destruct (lt_dec w (length (pw_workers x))) as [Hlt|Hge].
    + rewrite get_worker_upd_worker_same in Hk' by exact Hlt. injection Hk' as <-. exact Hk.
    + apply get_worker_lt in Hk'. rewrite workers_len_upd_worker in Hk'. lia.
  - rewrite get_worker_upd_worker_other in Hk' by exact E. eapply Hwk, Hk'.
Qed.

Lemma ND_set_tq x q :
  ND x -> QOK q -> (forall z, In z (all_items q) -> In z (all_items (pw_tq x))) -> ND (set_tq x q).
Proof.
  intros [Hpl Htq Hcq Hwp Hlen Hit Hwk Hd2 Hd3] HQ Hin; constructor; try assumption.
  intros z Hz. apply Hit, Hin, Hz.
Qed.

Lemma ND_set_cq x q : ND x -> QOK q -> ND (set_cq x q).
Proof. intros [Hpl Htq Hcq Hwp Hlen Hit Hwk Hd2 Hd3] HQ; constructor; assumption. Qed.

Lemma ND_add_defect x d :
  ND x -> d <> defect_stolen_worker -> d <> defect_result_elsewhere -> ND (add_defect x d).
Proof.
  intros [Hpl Htq Hcq Hwp Hlen Hit Hwk Hd2 Hd3] H2 H3; constructor; try assumption.
  - rewrite pw_defects_add_defect. destruct (existsb _ _); [assumption|].
    cbn [In]. intros [E|E]; [congruence | tauto].
  - rewrite pw_defects_add_defect. destruct (existsb _ _); [assumption|].
    cbn [In]. intros [E|E]; [congruence | tauto].
Qed.

(** the same, with [pw_cur = 0] carried along *)
Lemma NDC_set_clockp x c : NDC x -> NDC (set_clockp x c).
Proof. intros [H C]; split; [apply ND_set_clockp, H | exact C]. Qed.
Lemma NDC_set_req x ts cn : NDC x -> NDC (set_req x ts cn).
Proof. intros [H C]; split; [apply ND_set_req, H | exact C]. Qed.
Lemma NDC_set_globals x a b c : NDC x -> NDC (set_globals x a b c).
Proof. intros [H C]; split; [apply ND_set_globals, H | exact C]. Qed.
Lemma NDC_set_spin x : NDC x -> NDC (set_spin x).
Proof. intros [H C]; split; [apply ND_set_spin, H | exact C]. Qed.
Lemma NDC_upd_pool x p f : NDC x -> NDC (upd_pool x p f).
Proof. intros [H C]; split; [apply ND_upd_pool, H | exact C]. Qed.
Lemma NDC_notify x p t : NDC x -> NDC (notify x p t).
Proof. apply NDC_upd_pool. Qed.
Lemma NDC_upd_worker x w k : NDC x -> worker_ok (pw_tpool x) k -> NDC (upd_worker x w k).
Proof. intros [H C] Hk; split; [apply ND_upd_worker; assumption | exact C]. Qed.
Lemma NDC_set_tq x q :
  NDC x -> QOK q -> (forall z, In z (all_items q) -> In z (all_items (pw_tq x))) -> NDC (set_tq x q).
Proof. intros [H C] HQ Hin; split; [apply ND_set_tq; assumption | exact C]. Qed.
Lemma NDC_set_cq x q : NDC x -> QOK q -> NDC (set_cq x q).
Proof. intros [H C] HQ; split; [apply ND_set_cq; assumption | exact C]. Qed.
Lemma NDC_add_defect x d :
  NDC x -> d <> defect_stolen_worker -> d <> defect_result_elsewhere -> NDC (add_defect x d).
Proof. intros [H C] H2 H3; split; [apply ND_add_defect; assumption | exact C]. Qed.

Ltac ndc1 :=
  match goal with
  | |- _ => assumption
  | |- NDC (set_clockp _ _) => apply NDC_set_clockp
  | |- NDC (set_req _ _ _) => apply NDC_set_req
  | |- NDC (set_globals _ _ _ _) => apply NDC_set_globals
  | |- NDC (set_spin _) => apply NDC_set_spin
  | |- NDC (upd_pool _ _ _) => apply NDC_upd_pool
  | |- NDC (notify _ _ _) => apply NDC_notify
  | |- ND (set_clockp _ _) => apply ND_set_clockp
  | |- ND (set_req _ _ _) => apply ND_set_req
  | |- ND (set_globals _ _ _ _) => apply ND_set_globals
  | |- ND (set_spin _) => apply ND_set_spin
  | |- ND (set_cur _ _) => apply ND_set_cur
  | |- ND (upd_pool _ _ _) => apply ND_upd_pool
  | |- ND (notify _ _ _) => apply ND_notify
  end.
Ltac ndc := repeat ndc1.

(** * 3. The pieces of a pass of pool 0 *)

Lemma get_pool_out x p : ND x -> p <> 0%nat -> get_pool x p = mk_pool 0 0 0.
Proof. intros H Hp. unfold get_pool. apply nth_overflow. rewrite (nd_pools x H). lia. Qed.

Lemma try_grow_out x p : ND x -> p <> 0%nat -> try_grow x p = x.
Proof.
  intros H Hp. unfold try_grow. rewrite (get_pool_out x p H Hp).
  destruct (full_len (pw_tq x) =? 0); reflexivity.
Qed.

Lemma pw_cur_try_grow x p : pw_cur (try_grow x p) = pw_cur x.
Proof.
  unfold try_grow. destruct (full_len (pw_tq x) =? 0); [reflexivity|].
  destruct (p_max (get_pool x p) <=? p_running (get_pool x p)); reflexivity.
Qed.

Lemma ND_try_grow0 x : ND x -> ND (try_grow x 0).
Proof.
  intro H. unfold try_grow. destruct (full_len (pw_tq x) =? 0); [exact H|].
  destruct (p_max (get_pool x 0) <=? p_running (get_pool x 0)); [exact H|].
  apply ND_upd_pool.
  match goal with |- ND (set_cq ?y ?q) => assert (ND y) as Hy end.
  { destruct H as [Hpl Htq Hcq Hwp Hlen Hit Hwk Hd2 Hd3]. constructor; cbn [pw_pools pw_tq pw_cq pw_wpool pw_tbody pw_tpool pw_defects]; try assumption.
    - apply Forall_app. split; [assumption|]. constructor; [reflexivity | constructor].
    - intros w k Hk. unfold get_worker in Hk. cbn [pw_workers] in Hk.
      destruct (lt_dec w (length (pw_workers x))) as [Hlt|Hge].
      + rewrite nth_error_app1 in Hk by exact Hlt. eapply Hwk, Hk.
      + rewrite nth_error_app2 in Hk by lia.
        destruct (w - length (pw_workers x))%nat as [|n]; cbn [nth_error] in Hk.
        * injection Hk as <-. intros t rest Ht. discriminate.
        * destruct n; discriminate. }
  apply ND_set_cq; [exact Hy|].
  apply lpush_QOK. exact (nd_cq _ Hy).
Qed.

Lemma NDC_try_grow x : NDC x -> NDC (try_grow x (pw_cur x)).
Proof.
  intros [H C]. rewrite C. split; [apply ND_try_grow0, H | rewrite pw_cur_try_grow; exact C].
Qed.

Lemma NDC_creator x new : NDC x -> NDC (creator x new).
Proof.
  intro H. unfold creator. destruct new; try exact H.
  - apply NDC_try_grow, H.
  - apply NDC_try_grow, H.
  - change (pw_cur x) with (pw_cur (upd_pool x (pw_cur x) (fun q => p_with_running (sat_sub (p_running q) 1) q))) at 2.
    apply NDC_try_grow. ndc.
  - ndc.
  - change (pw_cur x) with (pw_cur (upd_pool x (pw_cur x) (fun q => p_with_running (sat_sub (p_running q) 1) q))) at 2.
    apply NDC_try_grow. ndc.
Qed.

Lemma worker_ok_of x w k k' :
  ND x -> get_worker x w = Some k -> k_task k' = k_task k -> k_tpool k' = k_tpool k ->
  worker_ok (pw_tpool x) k'.
Proof.
  intros H Hk Ht Hp t rest E. rewrite Ht in E. rewrite Hp. exact (nd_work x H w k Hk t rest E).
Qed.

Lemma NDC_k_change x w new : NDC x -> NDC (fst (k_change x w new)).
Proof.
  intro H. unfold k_change. destruct (get_worker x w) as [k|] eqn:Hk; cbn [fst]; [|exact H].
  apply NDC_creator. apply NDC_upd_worker; [exact H|].
  eapply worker_ok_of; [exact (proj1 H) | exact Hk | reflexivity | reflexivity].
Qed.

Definition fin_pw (r : fin) : pw := match r with FinOk x => x | FinPanic x => x end.

Lemma NDC_finish_task x t r : NDC x -> task_ok (pw_tpool x) t -> NDC (fin_pw (finish_task x 0 t r)).
Proof.
  intros H [Ht _]. unfold finish_task. rewrite Ht. cbn [Nat.eqb].
  destruct (mem_nat t _); cbn [fin_pw]; [ndc|].
  destruct (assoc_get t _); cbn [fin_pw]; ndc.
Qed.

Lemma NDC_finish_task_FinOk x t r x' :
  NDC x -> task_ok (pw_tpool x) t -> finish_task x 0 t r = FinOk x' -> NDC x'.
Proof. intros H Ht E. generalize (NDC_finish_task x t r H Ht). rewrite E. exact (fun h => h). Qed.
Lemma NDC_finish_task_FinPanic x t r x' :
  NDC x -> task_ok (pw_tpool x) t -> finish_task x 0 t r = FinPanic x' -> NDC x'.
Proof. intros H Ht E. generalize (NDC_finish_task x t r H Ht). rewrite E. exact (fun h => h). Qed.

Lemma worker_ok_none tp k : k_task k = None -> worker_ok tp k.
Proof. intros E t rest Ht. congruence. Qed.

Lemma worker_ok_some tp k t rest :
  k_task k = Some (t, rest) -> k_tpool k = 0%nat -> task_ok tp t -> worker_ok tp k.
Proof. intros E Hp Ht t' rest' E'. rewrite E in E'. injection E' as <- _. split; assumption. Qed.

(** a worker whose task slot is rewritten *)
Ltac wk_none := apply NDC_upd_worker; [assumption | apply worker_ok_none; reflexivity].
Ltac wk_some := apply NDC_upd_worker; [assumption | eapply worker_ok_some; [reflexivity | reflexivity | assumption]].

(** the three instructions that end the task *)
Ltac fin_branch IH :=
  match goal with
  | |- context [finish_task ?y 0%nat ?t ?r] =>
      let E := fresh "E" in let x' := fresh "x'" in let Hy := fresh "Hy" in
      assert (NDC y) as Hy by wk_none;
      destruct (finish_task y 0%nat t r) as [x'|x'] eqn:E;
      [ apply IH; apply NDC_upd_pool; eapply NDC_finish_task_FinOk; [exact Hy | | exact E]; assumption
      | cbn [fst]; eapply NDC_finish_task_FinPanic; [exact Hy | | exact E]; assumption ]
  end.

Lemma NDC_wloop : forall fuel x w acc, NDC x -> NDC (fst (fst (wloop fuel x w acc))).
Proof.
  induction fuel as [|f IH]; intros x w acc H; cbn [wloop]; [exact H|].
  destruct (get_worker x w) as [k|] eqn:Hk; [|exact H].
  destruct (k_task k) as [[t [|ins rest]]|] eqn:Hkt.
  - destruct (nd_work x (proj1 H) w k Hk t _ Hkt) as [Hp0 Htok]. rewrite Hp0.
    fin_branch IH.
  - destruct (nd_work x (proj1 H) w k Hk t _ Hkt) as [Hp0 Htok]. rewrite Hp0.
    destruct ins.
    + cbn [fst]. wk_some.
    + cbn [fst]. apply NDC_set_req. wk_some.
    + cbn [fst]. apply NDC_set_req. wk_some.
    + cbn [fst]. apply NDC_set_req. wk_some.
    + destruct (tr_syscall (k_st k) y name s) as [new|].
      * match goal with |- context [k_change ?y w new] =>
          pose proof (NDC_k_change y w new ltac:(wk_some)) as H1;
          destruct (k_change y w new) as [x1 e] end.
        cbn [fst] in H1. apply IH, H1.
      * apply IH. wk_some.
    + match goal with |- context [tr_running ?c ?s] => destruct (tr_running c s) as [[new|]|] end.
      * match goal with |- context [k_change ?y w new] =>
          pose proof (NDC_k_change y w new ltac:(wk_some)) as H1;
          destruct (k_change y w new) as [x1 e] end.
        cbn [fst] in H1. apply IH, H1.
      * apply IH. wk_some.
      * apply IH. wk_some.
    + apply IH. apply NDC_set_clockp. wk_some.
    + apply IH. wk_some.
    + fin_branch IH.
    + fin_branch IH.
    + fin_branch IH.
  - destruct H as [HN HC]. rewrite HC.
    destruct (lpop_QOK (pw_tq x) 0 0 (nd_tq x HN)) as (HQ' & Hincl & Hitem & _).
    destruct (lpop (pw_tq x) 0 0) as [q' o] eqn:El. cbn [fst snd] in HQ', Hincl, Hitem.
    assert (NDC (set_tq x q')) as H1 by (apply NDC_set_tq; [split; assumption | exact HQ' | exact Hincl]).
    destruct o as [|[tz|]|n| |].
    2:{ assert (task_ok (pw_tpool x) (Z.to_nat tz)) as Htok by (apply (nd_items x HN), Hitem; reflexivity).
        destruct (mem_nat (Z.to_nat tz) (pw_cancel_tasks (set_tq x q'))).
        - apply IH. apply NDC_upd_pool.
          match goal with |- NDC (if ?b then _ else _) => destruct b end; ndc.
        - apply IH. apply NDC_upd_worker; [ndc|].
          eapply worker_ok_some; [reflexivity | reflexivity | exact Htok]. }
    all: match goal with |- context [if ?b then _ else _] => destruct b end; [cbn [fst]; exact H1|];
         match goal with |- context [if ?b then _ else _] => destruct b end; [cbn [fst]; ndc | apply IH; apply NDC_set_clockp; ndc].
Qed.

Lemma wpool_nth0 x w : ND x -> nth w (pw_wpool x) 0%nat = 0%nat.
Proof.
  intro H. destruct (lt_dec w (length (pw_wpool x))) as [Hlt|Hge].
  - pose proof (nd_wpool x H) as HF. rewrite Forall_forall in HF. apply HF. apply nth_In. exact Hlt.
  - apply nth_overflow. lia.
Qed.

Lemma NDC_dead x w :
  NDC x ->
  NDC (match get_worker x w with
       | Some k' => upd_worker x w {| k_st := k_st k'; k_create := k_create k'; k_task := k_task k';
                                     k_tpool := k_tpool k'; k_dead := true |}
       | None => x end).
Proof.
  intro H. destruct (get_worker x w) as [k'|] eqn:Hk; [|exact H].
  apply NDC_upd_worker; [exact H|].
  eapply worker_ok_of; [exact (proj1 H) | exact Hk | reflexivity | reflexivity].
Qed.

Ltac kr_step Hd :=
  match goal with
  | |- context [pop_front ?d ?l] => destruct (pop_front d l) as [? ?]
  | |- context [k_change ?y ?w ?n] =>
      let H := fresh "Hc" in
      assert (NDC (fst (k_change y w n))) as H by (apply NDC_k_change; first [exact Hd | ndc]);
      destruct (k_change y w n) as [? ?]; cbn [fst] in H
  | |- context [if ?b then _ else _] => destruct b
  end.

Lemma NDC_k_resume x w : NDC x -> NDC (fst (fst (k_resume x w))).
Proof.
  intro H. unfold k_resume. destruct H as [HN HC]. rewrite HC, (wpool_nth0 x w HN). cbn [Nat.eqb].
  assert (NDC x) as H by (split; assumption).
  cbv zeta.
  destruct (get_worker x w) as [k|] eqn:Hk; [|exact H].
  generalize (tr_running (pw_clock x) (k_st k)). intro tr.
  destruct (k_st k); try exact H.
  all: destruct tr as [chg|]; [|exact H].
  all: assert (NDC (fst (match chg with Some new => k_change x w new | None => (x, []) end))) as H1
         by (destruct chg; [apply NDC_k_change, H | exact H]).
  all: destruct (match chg with Some new => k_change x w new | None => (x, []) end) as [x1 ev1]; cbn [fst] in H1.
  all: destruct (k_dead k); [exact H1|].
  all: pose proof (NDC_wloop (wfuel x1) x1 w ev1 H1) as H2.
  all: destruct (wloop (wfuel x1) x1 w ev1) as [[x2 ev2] out]; cbn [fst] in H2.
  all: generalize (NDC_dead x2 w H2); destruct (get_worker x2 w) as [k2|]; intro Hd.
  all: destruct out; try (destruct (k_st k2)); repeat kr_step Hd; cbn [fst]; ndc.
Qed.

(** * 4. The generic scheduler keeps whatever its five callbacks keep *)
Section GenericInv.
  Variable X : Type.
  Variable x_clock : X -> Z.
  Variable x_state : X -> nat -> option cstate.
  Variable x_change : X -> nat -> cstate -> X * list ev.
  Variable x_resume : X -> nat -> X * res * list ev.
  Variable x_push : X -> nat -> X.
  Variable x_pop : X -> X * option nat.
  Variable x_cancelled : X -> nat -> bool.
  Variable x_uncancel : X -> nat -> X.

  Variable P : X -> Prop.
  Hypothesis P_change : forall x i s, P x -> P (fst (x_change x i s)).
  Hypothesis P_resume : forall x i, P x -> P (fst (fst (x_resume x i))).
  Hypothesis P_push : forall x i, P x -> P (x_push x i).
  Hypothesis P_pop : forall x, P x -> P (fst (x_pop x)).
  Hypothesis P_uncancel : forall x i, P x -> P (x_uncancel x i).

  Definition cres_inv (r : cres X) : Prop :=
    match r with COk _ x _ _ => P x | CErr _ x _ _ => P x | CPanic _ x _ _ => P x end.

  Lemma co_ready_inv : forall x i,
    P x -> match co_ready X x_clock x_state x_change x i with Some (x', _) => P x' | None => True end.
  Proof.
    intros x i HP. unfold co_ready.
    destruct (x_state x i) as [s|]; [|exact I].
    destruct (tr_ready (x_clock x) s) as [[new|]|]; [|exact HP|exact I].
    generalize (P_change x i new HP). destruct (x_change x i new) as [x' e]. cbn [fst]. intro H. exact H.
  Qed.

  Lemma check_suspend_inv : forall fuel x d acc,
    P x -> cres_inv (check_suspend X x_clock x_state x_change x_push fuel x d acc).
  Proof.
    induction fuel as [|f IH]; intros x d acc HP; cbn [check_suspend]; [exact HP|].
    destruct (heap_min (sd_suspend d)) as [[ts i]|]; [|exact HP].
    destruct (x_clock x <? ts); [exact HP|].
    generalize (co_ready_inv x i HP).
    destruct (co_ready X x_clock x_state x_change x i) as [[x2 e]|]; intro H2; [|exact HP].
    apply IH. apply P_push. exact H2.
  Qed.

  Lemma check_sys_inv : forall fuel x d acc,
    P x -> cres_inv (check_sys X x_clock x_state x_change x_push fuel x d acc).
  Proof.
    induction fuel as [|f IH]; intros x d acc HP; cbn [check_sys]; [exact HP|].
    destruct (heap_min (sd_sys_suspend d)) as [[ts i]|]; [|exact HP].
    destruct (x_clock x <? ts); [exact HP|].
    cbn [sd_syscall sd_suspend sd_sys_suspend sd_gone].
    destruct (mem_nat i (sd_syscall d)); [|apply IH; exact HP].
    destruct (x_state x i) as [s|]; [|exact HP].
    destruct s as [| | | y n st | | |]; try exact HP.
    destruct st as [| tt | |]; try exact HP.
    generalize (P_change x i (Syscall y n STimeout) HP).
    destruct (x_change x i (Syscall y n STimeout)) as [x' e]. cbn [fst]. intro H'.
    apply IH. apply P_push. exact H'.
  Qed.

  Lemma check_ready_inv : forall x d acc,
    P x -> cres_inv (check_ready X x_clock x_state x_change x_push x d acc).
  Proof.
    intros x d acc HP. unfold check_ready.
    generalize (check_suspend_inv (S (length (sd_suspend d))) x d acc HP).
    destruct (check_suspend X x_clock x_state x_change x_push (S (length (sd_suspend d))) x d acc) as [x1 d1 acc1|x1 d1 acc1|x1 d1 acc1];
      cbn [cres_inv]; intro H1; [|exact H1|exact H1].
    apply check_sys_inv. exact H1.
  Qed.

  Lemma do_schedule_inv : forall fuel x d deadline results acc,
    P x ->
    P (fst (fst (fst (do_schedule X x_clock x_state x_change x_resume x_push x_pop x_cancelled x_uncancel
                                  fuel x d deadline results acc)))).
  Proof.
    induction fuel as [|f IH]; intros x d deadline results acc HP; cbn [do_schedule]; [exact HP|].
    destruct (sat_sub deadline (x_clock x) =? 0); [exact HP|].
    generalize (check_ready_inv x d acc HP).
    destruct (check_ready X x_clock x_state x_change x_push x d acc) as [x1 d1 acc1|x1 d1 acc1|x1 d1 acc1];
      cbn [cres_inv]; intro H1; [|exact H1|exact H1].
    generalize (P_pop x1 H1). destruct (x_pop x1) as [x2 [i|]]; cbn [fst]; intro H2; [|exact H2].
    destruct (x_cancelled x2 i).
    - generalize (P_change (x_uncancel x2 i) i Cancelled (P_uncancel x2 i H2)).
      destruct (x_change (x_uncancel x2 i) i Cancelled) as [x3 e]. cbn [fst]. intro H3.
      apply IH. exact H3.
    - generalize (P_resume x2 i H2). destruct (x_resume x2 i) as [[x3 r] e]. cbn [fst]. intro H3.
      destruct r as [s| | | |]; try exact H3.
      destruct s as [| | y ts | y n st | | v | m]; try exact H3; try (apply IH; exact H3).
      destruct (x_clock x3 <? ts); apply IH; [exact H3 | apply P_push; exact H3].
  Qed.

  (** a scheduler with empty heaps whose ready queue yields nothing resumes nobody *)
  Lemma do_schedule_idle : forall fuel x d deadline results acc x2,
    sd_suspend d = [] -> sd_sys_suspend d = [] -> x_pop x = (x2, None) ->
    let r := do_schedule X x_clock x_state x_change x_resume x_push x_pop x_cancelled x_uncancel
                         fuel x d deadline results acc in
    fst (fst (fst r)) = x \/ fst (fst (fst r)) = x2.
  Proof.
    intros fuel x d deadline results acc x2 Hs Hy Hp. destruct fuel as [|f]; cbn [do_schedule]; [left; reflexivity|].
    destruct (sat_sub deadline (x_clock x) =? 0); [left; reflexivity|].
    unfold check_ready. rewrite Hs. cbn [length check_suspend]. rewrite Hs. cbn [heap_min].
    rewrite Hy. cbn [length check_sys]. rewrite Hy. cbn [heap_min].
    rewrite Hp. right. reflexivity.
  Qed.
End GenericInv.

(** * 5. A pass *)

Lemma NDC_k_push x w : NDC x -> NDC (k_push 0 x w).
Proof. intros [H C]. unfold k_push. apply NDC_set_cq; [split; assumption|]. apply lpush_QOK, (nd_cq x H). Qed.

Lemma NDC_k_pop x : NDC x -> NDC (fst (k_pop 0 x)).
Proof.
  intros [H C]. unfold k_pop.
  destruct (lpop_QOK (pw_cq x) 0 0 (nd_cq x H)) as (HQ & _).
  destruct (lpop (pw_cq x) 0 0) as [q o]. cbn [fst] in HQ.
  assert (NDC (set_cq x q)) as H1 by (apply NDC_set_cq; [split; assumption | exact HQ]).
  destruct o as [|[v|]| | |]; exact H1.
Qed.

Lemma NDC_k_uncancel x w : NDC x -> NDC (k_uncancel x w).
Proof.
  intro H. unfold k_uncancel. apply NDC_add_defect; [ndc | discriminate | discriminate].
Qed.

Lemma k_pop_out x p : ND x -> p <> 0%nat -> k_pop p x = (set_cq x (pw_cq x), None).
Proof.
  intros H Hp. unfold k_pop.
  destruct (lpop_QOK (pw_cq x) p 0 (nd_cq x H)) as (_ & _ & _ & Hout). rewrite (Hout Hp). reflexivity.
Qed.

Lemma ND_pass_core x p dl :
  ND x ->
  ND (fst (fst (fst (do_schedule pw pw_clock k_state k_change k_resume (k_push p) (k_pop p) k_cancelled k_uncancel
                       (pass_fuel_p (set_cur (try_grow x p) p)) (set_cur (try_grow x p) p)
                       (p_sd (get_pool (set_cur (try_grow x p) p) p)) dl [] [])))).
Proof.
  intro H. destruct (Nat.eq_dec p 0) as [->|Hp].
  - apply (do_schedule_inv pw pw_clock k_state k_change k_resume (k_push 0) (k_pop 0) k_cancelled k_uncancel NDC).
    + intros; apply NDC_k_change; assumption.
    + intros; apply NDC_k_resume; assumption.
    + intros; apply NDC_k_push; assumption.
    + intros; apply NDC_k_pop; assumption.
    + intros; apply NDC_k_uncancel; assumption.
    + split; [apply ND_set_cur, ND_try_grow0, H | reflexivity].
  - rewrite (try_grow_out x p H Hp).
    assert (ND (set_cur x p)) as H1 by (apply ND_set_cur, H).
    destruct (do_schedule_idle pw pw_clock k_state k_change k_resume (k_push p) (k_pop p) k_cancelled k_uncancel
                (pass_fuel_p (set_cur x p)) (set_cur x p) (p_sd (get_pool (set_cur x p) p)) dl [] [] _
                ltac:(rewrite (get_pool_out (set_cur x p) p H1 Hp); reflexivity)
                ltac:(rewrite (get_pool_out (set_cur x p) p H1 Hp); reflexivity)
                (k_pop_out (set_cur x p) p H1 Hp)) as [E|E]; rewrite E.
    + exact H1.
    + apply ND_set_cq; [exact H1 | exact (nd_cq _ H1)].
Qed.

Ltac ppass_tac H2 :=
  match goal with
  | |- context [do_schedule ?X ?a1 ?a2 ?a3 ?a4 ?a5 ?a6 ?a7 ?a8 ?fu ?x1 ?sd ?dl ?r0 ?a0] =>
      destruct (do_schedule X a1 a2 a3 a4 a5 a6 a7 a8 fu x1 sd dl r0 a0) as [[[x2 d2] r] e]; cbn [fst] in H2
  end.

Lemma ND_ppass x p dl : ND x -> ND (fst (fst (ppass x p dl))).
Proof.
  intro H. unfold ppass. pose proof (ND_pass_core x p dl H) as H2.
  destruct (p_state (get_pool x p)); [| |exact H].
  - ppass_tac H2. apply (ND_upd_pool _ p (p_with_sd d2)) in H2.
    destruct (pw_spin _); [exact H2|]. destruct r; exact H2.
  - ppass_tac H2. apply (ND_upd_pool _ p (p_with_sd d2)) in H2.
    destruct (pw_spin _); [exact H2|]. destruct r; exact H2.
Qed.

(** * 6. The other operations *)

Lemma ND_take x p t : ND x -> ND (fst (take x p t)).
Proof. intro H. unfold take. destruct (assoc_get t _); cbn [fst]; ndc. Qed.

Lemma ND_pwait x p t : ND x -> ND (fst (pwait x p t)).
Proof.
  intro H. unfold pwait. pose proof (ND_take x p t H) as H1.
  destruct (take x p t) as [x1 [r|]]; cbn [fst] in H1 |- *; ndc.
Qed.

Lemma ND_pclean x p t : ND x -> ND (pclean x p t).
Proof.
  intro H. unfold pclean. pose proof (ND_take x p t H) as H1.
  destruct (take x p t) as [x1 [r|]]; cbn [fst] in H1; ndc.
Qed.

Lemma ND_pcancel x t : ND x -> ND (pcancel x t).
Proof. intro H. unfold pcancel. destruct (assoc_get t _); ndc. Qed.

Lemma ND_do_clean x p : ND x -> ND (do_clean x p).
Proof.
  unfold do_clean. generalize (p_waits (get_pool x p)). intro l. revert x.
  induction l as [|t l IH]; intros x H; cbn [fold_left]; [exact H|].
  apply IH. ndc.
Qed.

Lemma ND_stop_loop : forall fuel x p dl acc, ND x -> ND (fst (fst (stop_loop fuel x p dl acc))).
Proof.
  induction fuel as [|f IH]; intros x p dl acc H; cbn [stop_loop]; [exact H|].
  pose proof (ND_ppass x p dl H) as H1.
  destruct (ppass x p dl) as [[x1 r] e]. cbn [fst] in H1.
  destruct r; try exact H1.
  destruct ((p_running (get_pool x1 p) =? 0) || (sat_sub dl (pw_clock x1) =? 0)).
  - destruct (0 <? p_running (get_pool x1 p)); cbn [fst]; [exact H1|].
    apply ND_do_clean. ndc.
  - apply IH. ndc.
Qed.

Lemma ND_pstop x p dur : ND x -> ND (fst (fst (pstop x p dur))).
Proof.
  intro H. unfold pstop. destruct (p_state (get_pool x p)).
  - apply ND_stop_loop. ndc.
  - apply ND_stop_loop. ndc.
  - cbn [fst]. apply ND_do_clean, H.
Qed.

Lemma ND_submit x p body pr (b : bool) :
  ND x ->
  ND {| pw_clock := pw_clock x; pw_ts := pw_ts x; pw_cn := pw_cn x; pw_workers := pw_workers x;
        pw_wpool := pw_wpool x;
        pw_tq := if b then fst (lpush (pw_tq x) p pr (Z.of_nat (length (pw_tbody x)))) else pw_tq x;
        pw_cq := pw_cq x;
        pw_tbody := pw_tbody x ++ [body]; pw_tprio := pw_tprio x ++ [pr]; pw_pools := pw_pools x;
        pw_cur := pw_cur x; pw_cancel_tasks := pw_cancel_tasks x; pw_cancel_cos := pw_cancel_cos x;
        pw_running_tasks := pw_running_tasks x; pw_spin := pw_spin x; pw_tpool := pw_tpool x ++ [p];
        pw_defects := pw_defects x |}.
Proof.
  intros H. pose proof H as [Hpl Htq Hcq Hwp Hlen Hit Hwk Hd2 Hd3].
  destruct (lpush_QOK (pw_tq x) p pr (Z.of_nat (length (pw_tbody x))) Htq) as (HQ & Hin & Hout).
  constructor; cbn [pw_pools pw_tq pw_cq pw_wpool pw_tbody pw_tpool pw_defects]; try assumption.
  - destruct b; assumption.
  - rewrite !app_length. cbn [length]. lia.
  - intros z Hz.
    assert (In z (all_items (pw_tq x)) \/ (p = 0%nat /\ z = Z.of_nat (length (pw_tbody x)))) as [Hz'|[-> ->]].
    { destruct b; [|left; exact Hz]. destruct (Nat.eq_dec p 0) as [->|Hp].
      - destruct (Hin z Hz) as [E|Hz']; [right; split; [reflexivity | exact E] | left; exact Hz'].
      - rewrite (Hout Hp) in Hz. left. exact Hz. }
    + apply task_ok_app, Hit, Hz'.
    + rewrite Nat2Z.id, Hlen. apply task_ok_new.
  - intros w k Hk t rest Ht. destruct (Hwk w k Hk t rest Ht) as [Hp Hok].
    split; [exact Hp | apply task_ok_app, Hok].
Qed.

Lemma ND_pstep x o : ND x -> ND (fst (pstep x o)).
Proof.
  intro H. destruct o as [p body prio|p dl|p t|p t|p t|t|p dur|p|p|p|c]; cbn [pstep].
  - destruct (p_state (get_pool x p)); cbn [fst].
    + exact (ND_submit x p body (match prio with Some v => v | None => 0 end) true H).
    + exact (ND_submit x p [] 0 false H).
    + exact (ND_submit x p [] 0 false H).
  - pose proof (ND_ppass x p dl H) as H1. destruct (ppass x p dl) as [[x' r] e]. exact H1.
  - pose proof (ND_pwait x p t H) as H1. destruct (pwait x p t) as [x' r]. exact H1.
  - pose proof (ND_take x p t H) as H1. destruct (take x p t) as [x' [r|]]; exact H1.
  - cbn [fst]. apply ND_pclean, H.
  - cbn [fst]. apply ND_pcancel, H.
  - pose proof (ND_pstop x p dur H) as H1. destruct (pstop x p dur) as [[x' r] e]. exact H1.
  - exact H.
  - exact H.
  - exact H.
  - cbn [fst]. ndc.
Qed.

Lemma ND_pfinal : forall ops x, ND x -> ND (pfinal x ops).
Proof.
  induction ops as [|o ops IH]; intros x H; cbn [pfinal]; [exact H|].
  apply IH, ND_pstep, H.
Qed.

(** * 7. The theorem *)

Theorem single_pool_no_defect : forall clock cfg ops,
  ~ In defect_stolen_worker (pw_defects (pfinal (pw0 clock [cfg]) ops)) /\
  ~ In defect_result_elsewhere (pw_defects (pfinal (pw0 clock [cfg]) ops)).
Proof.
  intros clock cfg ops.
  pose proof (ND_pfinal ops (pw0 clock [cfg]) (ND_pw0 clock cfg)) as H.
  split; [exact (nd_d2 _ H) | exact (nd_d3 _ H)].
Qed.

Print Assumptions single_pool_no_defect.
