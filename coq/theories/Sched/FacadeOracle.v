(** Oracle for the facade layer: the property C02 read off what the facade calls returned, without
    running the model of the mapping. *)
From Coq Require Import String.
From OCV Require Import Base.Prelude Misc.Time Coroutine.Co Sched.Pool Sched.JoinHandle Sched.Facade.
Open Scope Z_scope.

Definition fres_eqb (a b : fres) : bool :=
  match a, b with
  | FVal x, FVal y => String.eqb x y
  | FErr x, FErr y => String.eqb x y
  | FNone, FNone | FFailed, FFailed | FAbort, FAbort | FWild, FWild | FPanic, FPanic | FDiverged, FDiverged => true
  | _, _ => false
  end.

Definition ares_eqb (a b : ares) : bool :=
  match a, b with
  | AVal x, AVal y => String.eqb x y
  | ANone, ANone | AFailed, AFailed | ADiverged, ADiverged => true
  | _, _ => false
  end.

(** "its return value, or its panic message as an error"; a payload that is no string has no message
    to compare: any error stands for it *)
Definition outcome_matches (o : uout) (r : fres) : bool :=
  match o, r with
  | URet v, FVal x => String.eqb v x
  | UPanic (PayStatic m), FErr x => String.eqb m x
  | UPanic (PayString m), FErr x => String.eqb m x
  | UPanic PayOther, FErr _ => true
  | _, _ => false
  end.

(** one handle: an outcome handed out is the task's own and is handed out once; a call made after
    the task finished (and before its outcome was handed out) returns it whatever the duration;
    a failure ("join failed"/"timeout join failed") is reported only for a task that had not finished
    by the end of the requested wait (before the call, or within the duration asked for; [join] waits
    without limit), or whose outcome has been handed out; nothing else is ever returned (no [Ok(None)], no abort,
    no panic of the facade function, no divergence) *)
Definition finished_in_time (c : fjcall) : bool :=
  match fc_fin c with
  | Some f =>
      (f <=? fc_now c)
      || match fc_call c with
         | FCJoin => f <=? U64MAX
         | FCTimeout d => f <=? get_timeout_time (fc_now c) (Z.min d U64MAX)
         end
  | None => false
  end.

Fixpoint fprop (o : uout) (handed : bool) (js : list (fjcall * fres)) : bool :=
  match js with
  | [] => true
  | (c, r) :: rest =>
      match r with
      | FVal _ | FErr _ => outcome_matches o r && negb handed && fprop o true rest
      | FFailed => (negb (finished_in_time c) || handed) && fprop o handed rest
      | _ => false
      end
  end.

(** [any_timeout_join]: per handle its outcome, whether it had finished before the call, and whether
    it had finished when the call returned *)
Record aflag := { af_out : uout; af_before : bool; af_after : bool }.

Definition any_prop (hs : list aflag) (r : ares) : bool :=
  match r with
  | AVal v => existsb (fun h => match af_out h with URet x => String.eqb x v && af_after h | _ => false end) hs
  | ANone => match hs with [] => true | _ => false end
  | AFailed | ADiverged => negb (existsb af_before hs)
  end.

Definition flags_of (now dl : Z) (hs : list ahandle) : list aflag :=
  map (fun h => {| af_out := ah_out h;
                   af_before := match ah_fin h with Some f => f <=? now | None => false end;
                   af_after := fin_by now dl h |}) hs.
