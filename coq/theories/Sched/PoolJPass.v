(** Resuming a worker, and a whole scheduling pass, keep the simulation invariant. *)
From OCV Require Import Base.Prelude Misc.Time Queue.PMap Queue.OWS Queue.OWSOracle Queue.OWSLemmas Queue.OWSModel Queue.OWSStep.
From OCV Require Import Coroutine.Co Coroutine.CoLemmas Sched.Sched Sched.Pool Sched.PoolOracle Sched.PoolBase Sched.PoolWf Sched.PoolQ Sched.PoolJ Sched.PoolJLemmas Sched.PoolCanon Sched.PoolUnfold Sched.PoolMeasure Sched.PoolJStep Sched.PoolJLoop Sched.PoolCount Sched.PoolBound.
From Coq Require Import ZifyBool ZifyNat.
Open Scope Z_scope.

Definition resumable (clock : Z) (s : cstate) : Prop :=
  s = Ready \/ (exists y ts, s = Suspend y ts /\ ts <= clock) \/ (exists y n, s = Syscall y n STimeout).

Definition parked_ok (x : pw) (w : nat) : Prop :=
  exists k m, get_worker x w = Some k /\ live k = true /\ k_dead k = false /\ k_tpool k = 0%nat /\
    resumable (pw_clock x) (k_st k) /\ pmode (k_st k) = Some m /\
    match k_task k with Some (_, rest) => body_from m rest = true | None => m = MRun /\ (k_st k = Ready \/ k_st k = Suspend 0 0) end.

(** what the pass needs to know to put the worker back *)
Definition placed (x' : pw) (w : nat) (r : res) : Prop :=
  exists k, get_worker x' w = Some k /\ r = ROk (k_st k) /\
    ((live k = false /\ exists v, k_st k = Complete v) \/
     (live k = true /\ k_dead k = false /\ k_tpool k = 0%nat /\ exists i rest, k_task k = Some (i, rest) /\
       ((exists ts, k_st k = Suspend 0 ts /\ body_from MRun rest = true) \/
        (exists y n ts, k_st k = Syscall y n (SSuspend ts) /\ body_from (MWoken n) rest = true))) \/
     (live k = true /\ k_dead k = false /\ k_tpool k = 0%nat /\ k_task k = None /\ k_st k = Suspend 0 0)).

Section Pass.
Variable mx : Z.
Variable kp : Z.

Lemma J_add_defect tnt x d h t dd : J mx kp tnt x d h t -> J mx kp tnt (add_defect x dd) d h t.
Proof.
  intros [HQ HL HP HS HT HR HW]. constructor; autorewrite with pw; try assumption.
  destruct HP as [P1 P2 P3 P4 P5 P6 P7 P8 P9 P10 P11 P12]. constructor; autorewrite with pw; assumption.
Qed.

Lemma G_drop_hole x w k :
  G mx x (Some w) -> get_worker x w = Some k -> k_task k <> None -> is_sys (k_st k) = true -> G mx x None.
Proof.
  intros [H|[H|(v & kv & Hv & Hl & Hc)]] Hk Ht Hs; [left; exact H | right; left; exact H|].
  right. right. exists v, kv. split; [exact Hv|]. split; [exact Hl|]. left.
  destruct Hc as [Hc|[Hc Hc']]; [exact Hc|]. injection Hc as ->. unfold get_worker in Hk. rewrite Hk in Hv.
  injection Hv as <-. congruence.
Qed.

Lemma J_set_req0 tnt x d h t : J mx kp tnt x d h t -> J mx kp tnt (set_req x [] []) d h t.
Proof.
  intro HJ. pose proof (J_set_req mx kp tnt x d h t [] HJ) as H. rewrite (jp_cn _ _ _ _ (j_p _ _ _ _ _ _ _ _ HJ)) in H. exact H.
Qed.

Lemma pop_front_nil {A} (d : A) : pop_front d (@nil A) = (d, []).
Proof. reflexivity. Qed.

Lemma pop_front_le1 {A} (d : A) l : (length l <= 1)%nat -> snd (pop_front d l) = [].
Proof. destruct l as [|a [|b l]]; cbn; intros; try reflexivity. lia. Qed.

Definition sys_cost (r : res) : Z := match r with ROk (Syscall _ _ _) => 2 | _ => 0 end.

Lemma ipot_set_live x w k new :
  get_worker x w = Some k -> live k = true -> terminal new = false -> ipot mx kp (upd_worker x w (with_st k new)) = ipot mx kp x.
Proof.
  intros Hk Hl Hn. unfold ipot, phix, pfx. autorewrite with pw. unfold get_worker in Hk.
  rewrite (phimax_set_nth kp _ _ w k (with_st k new) Hk); [reflexivity | | reflexivity].
  unfold live in *. cbn [with_st k_st]. rewrite Hn, Hl. reflexivity.
Qed.

(** the three ways [k_finish] ends *)
Lemma k_finish_J tnt x0 x2 d w t evs out :
  J mx kp tnt x2 d (Some w) t -> quiet_off t -> G mx x2 (Some w) -> pw_cancel_cos x2 = pw_cancel_cos x0 ->
  wl_post x2 w out -> out <> WFuel ->
  exists x' r evs', k_finish x2 w evs out = (x', r, evs ++ evs') /\
     J mx kp tnt x' d (Some w) (fold_left pev evs' t) /\ G mx x' None /\ pw_ts x' = [] /\
     pw_cancel_cos x' = pw_cancel_cos x0 /\ placed x' w r /\ rho x' + 1 + sys_cost r <= rho x2 + wl_cost out /\
     pw_clock x' = pw_clock x2 /\
     (out = WYield -> idle_yield x2 w -> rho x' = rho x2 /\ sys_cost r = 0 /\ ipot mx kp x' = ipot mx kp x2).
Proof.
  intros HJ Hq HG Ecc Hpost Hnf. unfold k_finish. destruct out; cbn [wl_post] in Hpost; try contradiction.
  - (* yield *)
    destruct Hpost as [(k & i & rest & Hk & Hl & Hdead & Htp & Hts & Htask & Hcase)|Hidle].
    2:{ (* a plain idle yield *)
      destruct Hidle as (k & Hk & Hl & Hdead & Htp & Hts & Htask & Est & Hnil).
      rewrite Hk, Est. rewrite (jp_cn _ _ _ _ (j_p _ _ _ _ _ _ _ _ HJ)). cbn [pop_front]. rewrite Hts. cbn [pop_front].
      pose proof (J_set_req0 tnt x2 d (Some w) t HJ) as HJ'.
      assert (get_worker (set_req x2 [] []) w = Some k) as Hk' by exact Hk.
      destruct (J_k_change mx kp tnt _ d w t k (Suspend 0 0) HJ' Hq Hk' Hl ltac:(discriminate))
        as (x3 & Ekc & HJ3 & Hm3 & Hk3 & HG3a & _ & _).
      pose proof (k_change_quiet (set_req x2 [] []) w k (Suspend 0 0) (jp_pools _ _ _ _ (j_p _ _ _ _ _ _ _ _ HJ'))
                    (jp_cur _ _ _ _ (j_p _ _ _ _ _ _ _ _ HJ')) Hk' (jq_t _ _ (j_q _ _ _ _ _ _ _ _ HJ')) Hnil eq_refl) as Equiet.
      rewrite Ekc in Equiet. injection Equiet as Ex3.
      assert (rho x3 = rho x2) as Er3.
      { rewrite Ex3. change (rho x2) with (rho (set_req x2 [] [])). apply (rho_upd_worker_same _ w k _ Hk'); [|reflexivity].
        unfold live. cbn [with_st k_st terminal]. rewrite Est. reflexivity. }
      assert (ipot mx kp x3 = ipot mx kp x2) as Ei3.
      { rewrite Ex3. change (ipot mx kp x2) with (ipot mx kp (set_req x2 [] [])). apply ipot_set_live; [exact Hk' | exact Hl | reflexivity]. }
      rewrite Ekc. eexists _, _, _. split; [reflexivity|]. cbn [fold_left].
      split; [exact HJ3|]. split; [apply HG3a; reflexivity|]. destruct Hm3 as [M1 M2 M3 M4 M5 M6].
      split; [rewrite M2; reflexivity|]. split; [rewrite M1; exact Ecc|]. split.
      { exists (with_st k (Suspend 0 0)). split; [exact Hk3|]. split; [reflexivity|]. right. right.
        split; [reflexivity|]. split; [exact Hdead|]. split; [exact Htp|]. split; [exact Htask | reflexivity]. }
      split; [cbn [sys_cost wl_cost]; lia|]. split; [rewrite M4; reflexivity|].
      intros _ _. split; [exact Er3|]. split; [reflexivity | exact Ei3]. }
    destruct Hcase as [[Est Hb]|(y & n & ts & Est & Hb)].
    + rewrite Hk, Est. rewrite (jp_cn _ _ _ _ (j_p _ _ _ _ _ _ _ _ HJ)). cbn [pop_front].
      destruct (pop_front 0 (pw_ts x2)) as [ts ts'] eqn:Ep.
      assert (ts' = []) as -> by (pose proof (pop_front_le1 0 _ Hts) as H; rewrite Ep in H; exact H).
      pose proof (J_set_req0 tnt x2 d (Some w) t HJ) as HJ'.
      assert (get_worker (set_req x2 [] []) w = Some k) as Hk' by exact Hk.
      destruct (J_k_change mx kp tnt _ d w t k (Suspend 0 ts) HJ' Hq Hk' Hl ltac:(discriminate))
        as (x3 & Ekc & HJ3 & Hm3 & Hk3 & HG3a & _ & _).
      destruct (k_change_rho (set_req x2 [] []) w k (Suspend 0 ts) x3 _ (jp_pools _ _ _ _ (j_p _ _ _ _ _ _ _ _ HJ))
                  (jp_cur _ _ _ _ (j_p _ _ _ _ _ _ _ _ HJ)) Hk' Hl Ekc) as [Hr3 _]. cbn [terminal creator_grows] in Hr3.
      change (rho (set_req x2 [] [])) with (rho x2) in Hr3.
      rewrite Ekc. eexists _, _, _. split; [reflexivity|]. cbn [fold_left].
      split; [exact HJ3|]. split; [apply HG3a; reflexivity|]. destruct Hm3 as [M1 M2 M3 M4 M5 M6].
      split; [rewrite M2; reflexivity|]. split; [rewrite M1; exact Ecc|]. split.
      * exists (with_st k (Suspend 0 ts)). split; [exact Hk3|]. split; [reflexivity|]. right. left.
        split; [reflexivity|]. split; [exact Hdead|]. split; [exact Htp|]. exists i, rest. split; [exact Htask|].
        left. exists ts. split; [reflexivity | exact Hb].
      * split; [cbn [sys_cost wl_cost]; lia|]. split; [rewrite M4; reflexivity|].
        intros _ (k2 & Hk2 & _ & _ & _ & _ & Ht2 & _). rewrite Hk in Hk2. injection Hk2 as <-. congruence.
    + rewrite Hk, Est. rewrite (jp_cn _ _ _ _ (j_p _ _ _ _ _ _ _ _ HJ)). cbn [pop_front].
      destruct (pop_front 0 (pw_ts x2)) as [ts0 ts'] eqn:Ep.
      assert (ts' = []) as -> by (pose proof (pop_front_le1 0 _ Hts) as H; rewrite Ep in H; exact H).
      eexists _, _, []. rewrite app_nil_r. split; [reflexivity|]. cbn [fold_left].
      split; [apply J_set_req0, HJ|]. split.
      { eapply (G_frame mx x2); [reflexivity | reflexivity | reflexivity|].
        eapply G_drop_hole; [exact HG | exact Hk | congruence | rewrite Est; reflexivity]. }
      split; [reflexivity|]. split; [exact Ecc|]. split.
      * exists k. split; [exact Hk|]. split; [rewrite Est; reflexivity|]. right. left.
        split; [exact Hl|]. split; [exact Hdead|]. split; [exact Htp|]. exists i, rest. split; [exact Htask|].
        right. exists y, n, ts. split; [exact Est | exact Hb].
      * split; [cbn [sys_cost wl_cost]; change (rho (set_req x2 [] [])) with (rho x2); lia|]. split; [reflexivity|].
        intros _ (k2 & Hk2 & _ & _ & _ & _ & Ht2 & _). rewrite Hk in Hk2. injection Hk2 as <-. congruence.
  - (* the worker exits *)
    destruct Hpost as (k & Hk & Hl & Est & Htask & Hdead & Htp & Hnil & Hts).
    rewrite Hk, Est. unfold k_dead_mark. rewrite Hk.
    assert (J mx kp tnt (upd_worker x2 w (with_dead k)) d (Some w) t) as HJ'.
    { apply (J_hole_upd mx kp tnt x2 d w t k (with_dead k) HJ Hk); [reflexivity | reflexivity | reflexivity|].
      intros i' rest' E. cbn [with_dead k_task] in E. congruence. }
    assert (get_worker (upd_worker x2 w (with_dead k)) w = Some (with_dead k)) as Hk'.
    { apply get_worker_upd_worker_same. eapply get_worker_lt, Hk. }
    destruct (J_k_change mx kp tnt _ d w t (with_dead k) (Complete (-1)) HJ' Hq Hk' Hl ltac:(intros _; left; exact Htask))
      as (x3 & Ekc & HJ3 & Hm3 & Hk3 & _ & _ & HG3c).
    destruct (k_change_rho (upd_worker x2 w (with_dead k)) w (with_dead k) (Complete (-1)) x3 _ (jp_pools _ _ _ _ (j_p _ _ _ _ _ _ _ _ HJ'))
                (jp_cur _ _ _ _ (j_p _ _ _ _ _ _ _ _ HJ')) Hk' Hl Ekc) as [Hr3 _]. cbn [terminal creator_grows] in Hr3.
    assert (rho (upd_worker x2 w (with_dead k)) = rho x2) as Er by (apply (rho_upd_worker_same x2 w k (with_dead k) Hk); reflexivity).
    rewrite Ekc. eexists _, _, _. split; [reflexivity|]. cbn [fold_left]. destruct Hm3 as [M1 M2 M3 M4 M5 M6].
    split; [exact HJ3|]. split; [apply HG3c; exact Hnil|]. split; [rewrite M2; exact Hts|]. split; [rewrite M1; exact Ecc|]. split.
    + exists (with_st (with_dead k) (Complete (-1))). split; [exact Hk3|]. split; [reflexivity|]. left.
      split; [reflexivity | exists (-1); reflexivity].
    + split; [cbn [sys_cost wl_cost]; lia|]. split; [rewrite M4; reflexivity | discriminate].
Qed.

Definition resumed_ok tnt (x0 : pw) (d : sdata) (w : nat) (t : potr) (x' : pw) (r : res) (evs : list ev) : Prop :=
  J mx kp tnt x' d (Some w) (fold_left pev evs t) /\ G mx x' None /\ pw_ts x' = [] /\
  pw_cancel_cos x' = pw_cancel_cos x0 /\ placed x' w r /\
  (low kp x' ->
   rho x' + 1 + sys_cost r <= rho x0 \/ (0 < kp /\ rho x' <= rho x0 /\ sys_cost r = 0 /\ idle_dec mx kp x0 x')) /\
  pw_clock x0 <= pw_clock x'.

(** the other way a resumption ends: a nap hit the end of time ([u64::MAX]), the worker naps for
    ever; what was observed so far still satisfies the oracle's safety flags *)
Definition resume_div tnt (t : potr) (x' : pw) (r : res) (evs : list ev) : Prop :=
  r = RBad /\ pw_spin x' = true /\ ~ low kp x' /\ exists ws, JW ws (fold_left pev evs t) tnt.

Lemma rho_k_defect x w : rho (k_defect x w) = rho x.
Proof. unfold k_defect. destruct (Nat.eqb _ _); reflexivity. Qed.

Lemma wfuel_k_defect x w : wfuel (k_defect x w) = wfuel x.
Proof. unfold k_defect. destruct (Nat.eqb _ _); reflexivity. Qed.

Lemma ipot_k_defect x w : ipot mx kp (k_defect x w) = ipot mx kp x.
Proof. unfold k_defect. destruct (Nat.eqb _ _); reflexivity. Qed.

Lemma k_change_running x w k x1 e :
  get_worker x w = Some k -> k_change x w Running = (x1, e) -> x1 = upd_worker x w (with_st k Running).
Proof. intros Hk E. unfold k_change in E. rewrite Hk in E. injection E as <- _. reflexivity. Qed.

Lemma k_resume_J tnt x d w t :
  J mx kp tnt x d (Some w) t -> quiet_off t -> G mx x (Some w) -> parked_ok x w -> ~ In w (pw_cancel_cos x) -> pw_ts x = [] ->
  exists x' r evs, k_resume x w = (x', r, evs) /\ (resumed_ok tnt x d w t x' r evs \/ resume_div tnt t x' r evs).
Proof.
  intros HJ Hq HG (k & m & Hk & Hl & Hdead & Htp & Hres & Hpm & Hbody) Hncc Hts.
  set (xd := k_defect x w).
  assert (J mx kp tnt xd d (Some w) t /\ get_worker xd w = Some k /\ G mx xd (Some w) /\ pw_cancel_cos xd = pw_cancel_cos x /\
          pw_ts xd = [] /\ pw_clock xd = pw_clock x) as (HJd & Hkd & HGd & Eccd & Htsd & Ecd).
  { unfold xd, k_defect. destruct (Nat.eqb _ _); [auto 10|].
    split; [apply J_add_defect, HJ|]. split; [exact Hk|]. split; [|auto].
    eapply (G_frame mx x); [reflexivity | reflexivity | reflexivity | exact HG]. }
  assert (rho xd = rho x) as Erd by apply rho_k_defect.
  assert (ipot mx kp xd = ipot mx kp x) as Eid by apply ipot_k_defect.
  rewrite (k_resume_eq x w k Hkd). cbv zeta. fold xd.
  (* the part after the first change of state *)
  assert (forall x1 ev1 m1,
            J mx kp tnt x1 d (Some w) (fold_left pev ev1 t) -> G mx x1 (Some w) -> pw_cancel_cos x1 = pw_cancel_cos x ->
            pw_ts x1 = [] -> rho x1 <= rho x -> ipot mx kp x1 <= ipot mx kp x -> pw_clock x <= pw_clock x1 ->
            forall k1, get_worker x1 w = Some k1 -> live k1 = true -> k_dead k1 = false -> k_tpool k1 = 0%nat ->
            imode (k_st k1) = Some m1 -> match k_task k1 with Some (_, rest) => body_from m1 rest = true | None => m1 = MRun end ->
            exists x' r evs, (let '(x2, ev2, out) := wloop (wfuel x1) x1 w ev1 in k_finish x2 w ev2 out) = (x', r, evs) /\
                             (resumed_ok tnt x d w t x' r evs \/ resume_div tnt t x' r evs)) as Htail.
  { intros x1 ev1 m1 HJ1 HG1 Ecc1 Hts1 Hr1 Hi1 Hc1 k1 Hk1 Hl1 Hd1 Htp1 Him1 Hb1.
    destruct (wloop_J mx kp (wfuel x1) tnt x1 d w ev1 (fold_left pev ev1 t) HJ1 (quiet_off_fold _ _ Hq) HG1
                ltac:(eapply hole_ok_intro; eassumption) ltac:(rewrite Ecc1; exact Hncc) Hts1)
      as (x2 & evs & out & Ew & HJ2 & HG2 & Ecc2 & _ & Hc2 & Hpost & HM).
    rewrite Ew.
    pose proof (mu2_bound mx kp tnt x1 d (Some w) _ w k1 HJ1 Hk1 Hl1) as Hmub.
    assert (out = WFuel \/ out <> WFuel) as [->|Hnf'] by (destruct out; auto; right; discriminate).
    - (* out of fuel: only when a nap hit the end of time *)
      exists (set_spin x2), RBad, (ev1 ++ evs). split; [reflexivity|]. right.
      split; [reflexivity|]. split; [reflexivity|]. split.
      + intro Hlow2. change (low kp (set_spin x2)) with (low kp x2) in Hlow2.
        destruct (HM Hlow2) as [_ Hnf]. apply (Hnf k1 Hk1 Hmub). reflexivity.
      + exists (pw_workers x2). rewrite fold_pev_app. apply (j_w _ _ _ _ _ _ _ _ HJ2).
    - destruct (k_finish_J tnt x x2 d w (fold_left pev evs (fold_left pev ev1 t)) (ev1 ++ evs) out HJ2
                  (quiet_off_fold _ _ (quiet_off_fold _ _ Hq)) HG2 ltac:(congruence) Hpost Hnf')
        as (x' & r & evs' & Ef & H1 & H2 & H3 & H4 & H5 & H6 & H7 & H8).
      exists x', r, ((ev1 ++ evs) ++ evs'). split; [exact Ef|]. left. unfold resumed_ok. rewrite !fold_pev_app.
      repeat (split; [assumption|]). split; [|lia]. intros Hlow. assert (low kp x2) as Hlow2 by (unfold low in *; rewrite <- H7; exact Hlow). destruct (HM Hlow2) as [HD _].
      destruct HD as [HA|(Hidle & Ho & Hkpos & Hr & Hdec)]; [left; lia|].
      destruct (H8 Ho Hidle) as (E1 & E2 & E3).
      destruct (Z_lt_le_dec (rho x2) (rho x1)) as [Hlt|Hge]; [left; lia|].
      right. split; [exact Hkpos|]. split; [lia|]. split; [exact E2|]. unfold idle_dec in *. specialize (Hdec ltac:(lia)). lia. }
  destruct Hres as [Est|[(y & ts & Est & Hle)|(y & n & Est)]]; rewrite Est in *.
  - (* Ready *)
    cbn [tr_running].
    destruct (J_k_change mx kp tnt xd d w t k Running HJd Hq Hkd Hl ltac:(discriminate))
      as (x1 & Ekc & HJ1 & Hm1 & Hk1 & _ & HG1b & _).
    destruct (k_change_rho xd w k Running x1 _ (jp_pools _ _ _ _ (j_p _ _ _ _ _ _ _ _ HJd)) (jp_cur _ _ _ _ (j_p _ _ _ _ _ _ _ _ HJd)) Hkd Hl Ekc) as [Hr1 _].
    cbn [terminal creator_grows] in Hr1.
    pose proof (k_change_running xd w k x1 _ Hkd Ekc) as Ex1.
    assert (ipot mx kp x1 = ipot mx kp xd) as Ei1 by (rewrite Ex1; apply ipot_set_live; [exact Hkd | exact Hl | reflexivity]).
    rewrite Ekc, Hdead. rewrite Est. destruct Hm1 as [M1 M2 M3 M4 M5 M6].
    eapply (Htail x1 _ MRun); [exact HJ1 | apply HG1b; auto | congruence | congruence | lia | lia | rewrite M4, Ecd; apply Z.le_refl | exact Hk1 | reflexivity | exact Hdead | exact Htp | reflexivity|].
    cbn [with_st k_task]. cbn [pmode] in Hpm. injection Hpm as <-. destruct (k_task k) as [[i rest]|]; [exact Hbody | apply Hbody].
  - (* Suspend, due *)
    cbn [tr_running]. rewrite Ecd. assert (ts <=? pw_clock x = true) as -> by lia.
    destruct (J_k_change mx kp tnt xd d w t k Running HJd Hq Hkd Hl ltac:(discriminate))
      as (x1 & Ekc & HJ1 & Hm1 & Hk1 & _ & HG1b & _).
    destruct (k_change_rho xd w k Running x1 _ (jp_pools _ _ _ _ (j_p _ _ _ _ _ _ _ _ HJd)) (jp_cur _ _ _ _ (j_p _ _ _ _ _ _ _ _ HJd)) Hkd Hl Ekc) as [Hr1 _].
    cbn [terminal creator_grows] in Hr1.
    pose proof (k_change_running xd w k x1 _ Hkd Ekc) as Ex1.
    assert (ipot mx kp x1 = ipot mx kp xd) as Ei1 by (rewrite Ex1; apply ipot_set_live; [exact Hkd | exact Hl | reflexivity]).
    rewrite Ekc, Hdead. rewrite Est. destruct Hm1 as [M1 M2 M3 M4 M5 M6].
    eapply (Htail x1 _ MRun); [exact HJ1 | apply HG1b; auto | congruence | congruence | lia | lia | rewrite M4, Ecd; apply Z.le_refl | exact Hk1 | reflexivity | exact Hdead | exact Htp | reflexivity|].
    cbn [with_st k_task]. cbn [pmode] in Hpm. injection Hpm as <-. destruct (k_task k) as [[i rest]|]; [exact Hbody | apply Hbody].
  - (* woken from a syscall suspension *)
    cbn [tr_running]. rewrite Hdead. cbn [pmode] in Hpm. injection Hpm as <-.
    eapply (Htail xd [] (MWoken n)); [exact HJd | exact HGd | exact Eccd | exact Htsd | lia | lia | rewrite Ecd; apply Z.le_refl | exact Hkd | exact Hl | exact Hdead | exact Htp | rewrite Est; reflexivity|].
    destruct (k_task k) as [[i rest]|]; [exact Hbody|]. destruct Hbody as [Hb _]. discriminate.
Qed.

End Pass.
