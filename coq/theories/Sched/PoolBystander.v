(** C13, the "no other task" half as an oracle over observed pool histories, independent of the
    pool model: whenever a worker coroutine is reported Cancelled while it carries a task (the task
    started on it and has not returned or panicked since), a cancel of THAT task was requested
    earlier, or the task cancelled itself ([suspender.cancel()]). The tracker only reads the
    operations issued and the events the recording listener and the task bodies produced. *)
From OCV Require Import Base.Prelude Misc.Time Queue.PMap Queue.OWS Coroutine.Co Coroutine.CoOracle Sched.Sched Sched.Pool Sched.PoolOracle.
Open Scope Z_scope.

Record bytrk := {
  by_requested : list nat;          (* tasks for which try_cancel_task was called so far *)
  by_self : list nat;               (* tasks that asked for their own cancellation *)
  by_carry : list (nat * nat);      (* worker -> task it is carrying *)
  by_ok : bool
}.
Definition by0 : bytrk := {| by_requested := []; by_self := []; by_carry := []; by_ok := true |}.

Definition mem_nat (i : nat) (l : list nat) : bool := existsb (Nat.eqb i) l.

Definition by_ev (b : bytrk) (e : ev) : bytrk :=
  match e with
  | EB t (BStart p) =>
      let w := Z.to_nat p in
      {| by_requested := by_requested b; by_self := by_self b;
         by_carry := (w, t) :: filter (fun wt => negb (Nat.eqb (fst wt) w)) (by_carry b); by_ok := by_ok b |}
  | EB t (BRet _) | EB t (BPanic _) =>
      {| by_requested := by_requested b; by_self := by_self b;
         by_carry := filter (fun wt => negb (Nat.eqb (snd wt) t)) (by_carry b); by_ok := by_ok b |}
  | EB t (BYield _ RCancel) =>
      {| by_requested := by_requested b; by_self := t :: by_self b; by_carry := by_carry b; by_ok := by_ok b |}
  | EL _ w (CbChanged Cancelled) _ =>
      match lookup_nat w (by_carry b) with
      | Some t =>
          {| by_requested := by_requested b; by_self := by_self b;
             by_carry := filter (fun wt => negb (Nat.eqb (fst wt) w)) (by_carry b);
             by_ok := by_ok b && (mem_nat t (by_requested b) || mem_nat t (by_self b)) |}
      | None => b
      end
  | _ => b
  end.

Definition by_step (b : bytrk) (o : pop) (ob : pobs) : bytrk :=
  match o with
  | PCancel t =>
      {| by_requested := t :: by_requested b; by_self := by_self b; by_carry := by_carry b; by_ok := by_ok b |}
  | _ => fold_left by_ev (pevs ob) b
  end.

Fixpoint by_run (b : bytrk) (ops : list pop) (obs : list pobs) : bytrk :=
  match ops, obs with
  | o :: ops', ob :: obs' => by_run (by_step b o ob) ops' obs'
  | _, _ => b
  end.

Definition bystander_ok (ops : list pop) (obs : list pobs) : bool := by_ok (by_run by0 ops obs).
