(** With every task settled: a pass leaves the clock alone and ends quiescent; a stop that times
    out leaves its live workers parked. *)
From OCV Require Import Base.Prelude Misc.Time Queue.PMap Queue.OWS Queue.OWSOracle Queue.OWSLemmas Queue.OWSModel Queue.OWSStep.
From OCV Require Import Coroutine.Co Coroutine.CoOracle Coroutine.CoLemmas Sched.Sched Sched.Pool Sched.PoolOracle Sched.PoolBase Sched.PoolWf Sched.PoolQ Sched.PoolJ Sched.PoolJLemmas Sched.PoolUnfold Sched.PoolMeasure Sched.PoolJStep Sched.PoolJLoop Sched.PoolCount Sched.PoolBound Sched.PoolJPass Sched.PoolJHole Sched.PoolJSched Sched.PoolJOps Sched.PoolJOps2 Sched.PoolIdle.
From OCV Require Sched.PoolMono.
From Coq Require Import ZifyBool ZifyNat.
Open Scope Z_scope.

(** * [check_ready] only reports changes of state *)
Lemma csusp_inert : forall fuel x d acc x' d' acc',
  csusp fuel x d acc = COk pw x' d' acc' -> exists evs, acc' = acc ++ evs /\ Forall tinert evs.
Proof.
  induction fuel as [|f IH]; intros x d acc x' d' acc' H.
  - cbn [csusp check_suspend] in H. injection H as _ _ <-. exists []. rewrite app_nil_r. auto.
  - rewrite csusp_S in H. destruct (heap_min (sd_suspend d)) as [[ts i]|].
    2:{ injection H as _ _ <-. exists []. rewrite app_nil_r. auto. }
    destruct (pw_clock x <? ts).
    { injection H as _ _ <-. exists []. rewrite app_nil_r. auto. }
    destruct (co_ready pw pw_clock k_state k_change x i) as [[x2 e]|] eqn:Ecr; [|discriminate].
    destruct (IH _ _ _ _ _ _ H) as (evs & -> & Hin). exists (e ++ evs). rewrite app_assoc. split; [reflexivity|].
    apply Forall_app. split; [|exact Hin].
    unfold co_ready in Ecr. destruct (k_state x i) as [s|]; [|discriminate].
    destruct (tr_ready (pw_clock x) s) as [[new|]|]; [| |discriminate].
    + injection Ecr as Ecr. eapply k_change_inert. exact Ecr.
    + injection Ecr as _ <-. constructor.
Qed.

Lemma csys_inert : forall fuel x d acc x' d' acc',
  csys fuel x d acc = COk pw x' d' acc' -> exists evs, acc' = acc ++ evs /\ Forall tinert evs.
Proof.
  induction fuel as [|f IH]; intros x d acc x' d' acc' H.
  - cbn [csys check_sys] in H. injection H as _ _ <-. exists []. rewrite app_nil_r. auto.
  - rewrite csys_S in H. destruct (heap_min (sd_sys_suspend d)) as [[ts i]|].
    2:{ injection H as _ _ <-. exists []. rewrite app_nil_r. auto. }
    destruct (pw_clock x <? ts).
    { injection H as _ _ <-. exists []. rewrite app_nil_r. auto. }
    destruct (Sched.mem_nat i (sd_syscall d)); [|eapply IH, H].
    destruct (k_state x i) as [[| |y ts'|y n st| |r|m]|]; try discriminate. destruct st; try discriminate.
    destruct (k_change x i (Syscall y n STimeout)) as [x1 e] eqn:Ekc.
    destruct (IH _ _ _ _ _ _ H) as (evs & -> & Hin). exists (e ++ evs). rewrite app_assoc. split; [reflexivity|].
    apply Forall_app. split; [eapply k_change_inert, Ekc | exact Hin].
Qed.

Lemma cready_inert x d acc x' d' acc' :
  cready x d acc = COk pw x' d' acc' -> exists evs, acc' = acc ++ evs /\ Forall tinert evs.
Proof.
  rewrite cready_eq. destruct (csusp _ x d acc) as [x1 d1 acc1| |] eqn:E1; try discriminate. intro H.
  destruct (csusp_inert _ _ _ _ _ _ _ E1) as (e1 & -> & H1). destruct (csys_inert _ _ _ _ _ _ _ H) as (e2 & -> & H2).
  exists (e1 ++ e2). rewrite app_assoc. split; [reflexivity|]. apply Forall_app. auto.
Qed.

Section IdleSched.
Variable mx : Z.
Variable kp : Z.

Definition dsched_okI (acc : list ev) (c0 dl : Z) (res : pw * sdata * pass_res * list ev) : Prop :=
  let '(x', d', r, acc') := res in
  exists evs, acc' = acc ++ evs /\ Forall tinert evs /\ pw_clock x' = c0 /\
    match r with PassOk l _ => l = sat_sub dl c0 | _ => True end.

Lemma dsched_okI_chain acc e c0 dl res : Forall tinert e -> dsched_okI (acc ++ e) c0 dl res -> dsched_okI acc c0 dl res.
Proof.
  destruct res as [[[x' d'] r] acc']. cbn [dsched_okI]. intros He (evs & -> & H1 & H2). exists (e ++ evs).
  rewrite app_assoc. split; [reflexivity|]. split; [apply Forall_app; auto | exact H2].
Qed.

Lemma TS_fold evs t : Forall tinert evs -> TS (po_tasks t) -> TS (po_tasks (fold_left pev evs t)).
Proof. intros H HS. destruct (fold_tinert evs t H) as [-> _]. exact HS. Qed.

Lemma TK_fold evs t : Forall tinert evs -> TK (po_tasks t) -> TK (po_tasks (fold_left pev evs t)).
Proof. intros H HS. destruct (fold_tinert evs t H) as [-> _]. exact HS. Qed.

Lemma dsched_I : forall fuel tnt x d deadline results acc t,
  J mx kp tnt x d None t -> quiet_off t -> G mx x None -> pw_ts x = [] -> TS (po_tasks t) -> TK (po_tasks t) -> stopc t ->
  0 < sat_sub deadline (pw_clock x) ->
  dsched_okI acc (pw_clock x) deadline (dsched fuel x d deadline results acc).
Proof.
  induction fuel as [|f IH]; intros tnt x d deadline results acc t HJ Hq HG Hts HS HK Hsc Hlft.
  - cbn [dsched do_schedule dsched_okI]. exists []. rewrite app_nil_r. auto.
  - rewrite dsched_S. cbv zeta. assert (sat_sub deadline (pw_clock x) =? 0 = false) as -> by lia.
    destruct (cready_J mx kp tnt x d acc t HJ Hq HG Hts) as (x1 & d1 & e1 & Ecr & HJ1 & HG1 & Hts1 & Ecl1 & F1 & F2 & P1).
    destruct (cready_inert _ _ _ _ _ _ Ecr) as (e1' & Ee1 & Hin1). apply app_inv_head in Ee1. subst e1'.
    rewrite Ecr. apply (dsched_okI_chain acc e1 _ _ _ Hin1). set (t1 := fold_left pev e1 t) in *.
    assert (quiet_off t1) as Hq1 by (apply quiet_off_fold, Hq).
    assert (TS (po_tasks t1)) as HS1 by (apply TS_fold; assumption).
    assert (TK (po_tasks t1)) as HK1 by (apply TK_fold; assumption).
    assert (stopc t1) as Hsc1 by (apply stopc_fold, Hsc).
    unfold k_pop. pose proof (jq_c _ _ (j_q _ _ _ _ _ _ _ _ HJ1)) as HQc.
    destruct (lpop (pw_cq x1) 0 0) as [q r] eqn:Epop.
    destruct (Q1_lpop_cases _ _ _ _ HQc Epop) as [HQ' [(z & -> & Hcnt)|(-> & Hnil & Hnil')]].
    + destruct (J_open_cq mx kp tnt x1 d1 t1 q z HJ1 HQ' Hcnt) as (w & k & -> & Hk & Hl & Hp & Hres & HJ2).
      rewrite Nat2Z.id. set (x2 := set_cq x1 q) in *.
      assert (get_worker x2 w = Some k) as Hk2 by exact Hk.
      assert (pw_clock x2 = pw_clock x) as Ecl2 by exact Ecl1.
      unfold k_cancelled. destruct (Sched.mem_nat w (pw_cancel_cos x2)) eqn:Ecc.
      * apply mem_nat_In in Ecc.
        destruct (J_drop mx kp tnt x2 d1 w t1 k HJ2 Hq1 Hk2 Hl Ecc) as (x3 & Ekc & HJ3 & HG3 & Hts3 & Ecl3 & Hr3 & Hc3).
        rewrite Ekc. set (e := EL 0 w (CbChanged Cancelled) (k_st k)) in *.
        assert (Forall tinert [e]) as Hine by (constructor; [apply tinert_EL | constructor]).
        apply (dsched_okI_chain (acc ++ e1) [e] _ _ _ Hine).
        assert (pw_clock x3 = pw_clock x) as Ecl3' by congruence. rewrite <- Ecl3'.
        eapply (IH tnt x3 _ deadline _ _ (fold_left pev [e] t1)).
        -- exact HJ3.
        -- apply quiet_off_fold, Hq1.
        -- exact HG3.
        -- rewrite Hts3. exact Hts1.
        -- apply TS_fold; assumption.
        -- apply TK_fold; assumption.
        -- apply stopc_fold, Hsc1.
        -- rewrite Ecl3'. exact Hlft.
      * apply mem_nat_false in Ecc.
        assert (parked_ok x2 w) as Hpk.
        { destruct Hp as (Hd & Ht & m & Hm & Hb). exists k, m. repeat (split; [assumption|]). exact Hb. }
        assert (G mx x2 (Some w)) as HG2 by (apply G_None_any, G_set_cq, HG1).
        destruct (k_resume_J mx kp tnt x2 d1 w t1 HJ2 Hq1 HG2 Hpk Ecc Hts1)
          as (x3 & r & e & Ekr & Hres3).
        destruct (k_resume_I mx kp tnt x2 d1 w t1 HJ2 Hq1 HG2 Hpk Ecc Hts1 HS1 HK1 Hsc1) as (x3' & r' & e' & Ekr' & Hine & Ecl3).
        rewrite Ekr in Ekr'. injection Ekr' as <- _ <-.
        rewrite Ekr. apply (dsched_okI_chain (acc ++ e1) e _ _ _ Hine).
        destruct Hres3 as [(HJ3 & HG3 & Hts3 & Ecc3 & (k' & Hk' & -> & Hpl) & Hr3 & Hc3)|(-> & _)].
        2:{ cbn [dsched_okI]. exists []. rewrite app_nil_r. split; [reflexivity|]. split; [constructor|]. split; [congruence | exact I]. }
        assert (quiet_off (fold_left pev e t1)) as Hq3 by (apply quiet_off_fold, Hq1).
        assert (TS (po_tasks (fold_left pev e t1))) as HS3 by (apply TS_fold; assumption).
        assert (TK (po_tasks (fold_left pev e t1))) as HK3 by (apply TK_fold; assumption).
        assert (stopc (fold_left pev e t1)) as Hsc3 by (apply stopc_fold, Hsc1).
        assert (pw_clock x3 = pw_clock x) as Ecl3' by congruence.
        assert (0 < sat_sub deadline (pw_clock x3)) as Hlft3 by (rewrite Ecl3'; exact Hlft).
        rewrite <- Ecl3'.
        destruct Hpl as [(Hl' & v & Est)|[(Hl' & Hd' & Ht' & i & rest & Htask & Hc)|(Hl' & Hd' & Ht' & Htask & Est)]].
        3:{ rewrite Est in *.
            assert (parked_facts k') as Hp'.
            { split; [exact Hd'|]. split; [exact Ht'|]. exists MRun. rewrite Est, Htask. cbn [pmode]. auto. }
            pose proof (jp_keep _ _ _ _ (j_p _ _ _ _ _ _ _ _ HJ3)) as (_ & Hc0 & _).
            assert (pw_clock x3 <? 0 = false) as -> by lia.
            change (pw_clock x3) with (pw_clock (k_push 0 x3 w)).
            eapply IH; [|exact Hq3 | apply G_push, HG3 | exact Hts3 | exact HS3 | exact HK3 | exact Hsc3 | exact Hlft3].
            eapply (J_close_push mx kp tnt x3 d1 w _ k' HJ3 Hk' Hl' Hp'). right. left. exists 0, 0. split; [exact Est | lia]. }
        -- rewrite Est in *. eapply IH; [|exact Hq3 | exact HG3 | exact Hts3 | exact HS3 | exact HK3 | exact Hsc3 | exact Hlft3].
           eapply (J_close_dead mx kp tnt x3 d1 d1 w _ _ HJ3 Hk' Hl'); reflexivity.
        -- pose proof (placed_parked k' i rest Hd' Ht' Htask Hc) as Hp'.
           destruct Hc as [(ts & Est & Hb)|(y & n & ts & Est & Hb)]; rewrite Est in *.
           ++ destruct (pw_clock x3 <? ts) eqn:Ects.
              ** eapply IH; [|exact Hq3 | exact HG3 | exact Hts3 | exact HS3 | exact HK3 | exact Hsc3 | exact Hlft3].
                 eapply (J_close_susp mx kp tnt x3 d1 w _ k' 0 ts HJ3 Hk' Est Hp').
              ** change (pw_clock x3) with (pw_clock (k_push 0 x3 w)).
                 eapply IH; [|exact Hq3 | apply G_push, HG3 | exact Hts3 | exact HS3 | exact HK3 | exact Hsc3 | exact Hlft3].
                 eapply (J_close_push mx kp tnt x3 d1 w _ k' HJ3 Hk' Hl' Hp'). right. left. exists 0, ts. split; [exact Est | lia].
           ++ eapply IH; [|exact Hq3 | exact HG3 | exact Hts3 | exact HS3 | exact HK3 | exact Hsc3 | exact Hlft3].
              eapply (J_close_sys mx kp tnt x3 d1 w _ k' y n ts HJ3 Hk' Est Hp').
    + cbn [dsched_okI]. exists []. rewrite app_nil_r. split; [reflexivity|]. split; [constructor|].
      autorewrite with pw. split; [exact Ecl1 | reflexivity].
Qed.

(** the whole pass, with time left *)
Lemma ppass_I tnt x t dl :
  Jop mx kp tnt x t -> quiet_off t -> TS (po_tasks t) -> TK (po_tasks t) -> stopc t -> 0 < sat_sub dl (pw_clock x) ->
  let '(x', r, e) := ppass x 0 dl in
  Forall tinert e /\ (r <> PErrStopped -> pw_clock x' = pw_clock x) /\ match r with PLeft l => l = sat_sub dl (pw_clock x) | _ => True end.
Proof.
  intros [HJ Hts] Hq HS HK Hsc Hlft. rewrite ppass_eq.
  set (x1 := set_cur (try_grow x 0) 0).
  pose proof (jp_pools _ _ _ _ (j_p _ _ _ _ _ _ _ _ HJ)) as Hpools.
  destruct (J_try_grow mx kp tnt x _ None t HJ Hq) as [HJg HGg].
  assert (J mx kp tnt x1 (p_sd (get_pool x1 0)) None t) as HJ1.
  { unfold x1. autorewrite with pw. rewrite (p_sd_try_grow x Hpools). apply J_set_cur, HJg. }
  assert (G mx x1 None) as HG1.
  { unfold x1. eapply (G_frame mx (try_grow x 0)); [reflexivity | reflexivity | reflexivity | exact HGg]. }
  assert (pw_ts x1 = []) as Hts1.
  { unfold x1. autorewrite with pw. rewrite (sm_ts _ _ (try_grow_misc x Hpools)). exact Hts. }
  assert (pw_clock x1 = pw_clock x) as Ec1.
  { unfold x1. autorewrite with pw. apply (sm_clock _ _ (try_grow_misc x Hpools)). }
  assert (let '(x', r, e) := (let '(x2, d2, r, e) := dsched (pass_fuel_p x1) x1 (p_sd (get_pool x1 0)) dl [] [] in ppass_tail x2 d2 r e) in
          Forall tinert e /\ (r <> PErrStopped -> pw_clock x' = pw_clock x) /\ match r with PLeft l => l = sat_sub dl (pw_clock x) | _ => True end) as Htail.
  { pose proof (dsched_I (pass_fuel_p x1) tnt x1 _ dl [] [] t HJ1 Hq HG1 Hts1 HS HK Hsc ltac:(rewrite Ec1; exact Hlft)) as Hok.
    destruct (dsched (pass_fuel_p x1) x1 (p_sd (get_pool x1 0)) dl [] []) as [[[x2 d2] r] e].
    cbn [dsched_okI] in Hok. destruct Hok as (evs & Ee & Hin & Ec2 & Hl). cbn [app] in Ee. subst e. unfold ppass_tail. cbv zeta.
    destruct (pw_spin _).
    - split; [exact Hin|]. split; [|exact I]. intros _. autorewrite with pw. congruence.
    - destruct r; (split; [exact Hin|]); (split; [intros _; autorewrite with pw; congruence|]); try exact I. rewrite Hl, Ec1. reflexivity. }
  destruct (p_state (get_pool x 0)) eqn:Est; [exact Htail | exact Htail|]. split; [constructor|]. split; [congruence | exact I].
Qed.

(** a pass that starts with no time left does nothing *)
Lemma ppass_cut x dl :
  sat_sub dl (pw_clock x) = 0 -> length (pw_pools x) = 1%nat ->
  let '(x', r, e) := ppass x 0 dl in e = [] /\ pw_clock x' = pw_clock x.
Proof.
  intros Hlft Hpools. rewrite ppass_eq. destruct (p_state (get_pool x 0)) eqn:Est; [| |auto].
  all: cbv zeta; set (x1 := set_cur (try_grow x 0) 0).
  all: assert (pw_clock x1 = pw_clock x) as Ec1 by (unfold x1; autorewrite with pw; apply (sm_clock _ _ (try_grow_misc x Hpools))).
  all: assert (pass_fuel_p x1 <> 0%nat) as Hf0 by (unfold pass_fuel_p; destruct (keep_rounds x1); nia).
  all: destruct (pass_fuel_p x1) as [|n] eqn:Ef; [contradiction|].
  all: rewrite dsched_S; cbv zeta; rewrite Ec1, Hlft; cbn [Z.eqb]; unfold ppass_tail; cbv zeta.
  all: destruct (pw_spin _); split; try reflexivity; autorewrite with pw; exact Ec1.
Qed.

(** * the stop loop *)
Lemma stop_loop_I : forall f tnt x t dl acc,
  Jop mx kp tnt x t -> quiet_off t -> p_state (get_pool x 0) = PStopping -> dl <= U64MAX -> TS (po_tasks t) -> TK (po_tasks t) -> stopc t ->
  (0 < sat_sub dl (pw_clock x) \/ 0 < count_true (parked (po_clock t)) (po_workers t)) ->
  let '(x', r, acc') := stop_loop f x 0 dl acc in
  r = StopTimeout ->
  exists evs, acc' = acc ++ evs /\ 0 < count_true (parked (po_clock (fold_left pev evs t))) (po_workers (fold_left pev evs t)).
Proof.
  induction f as [|f IH]; intros tnt x t dl acc HJop Hq Hst Hdl HS HK Hsc Hdisj.
  - cbn [stop_loop]. discriminate.
  - rewrite stop_loop_S. pose proof (ppass_J mx kp tnt x t dl HJop Hq) as Hok.
    pose proof (PoolMono.ppass_same_states x 0 dl 0%nat) as Hss. rewrite Hst in Hss.
    destruct (Z_lt_le_dec 0 (sat_sub dl (pw_clock x))) as [Hlft|Hlft].
    + (* a full pass *)
      pose proof (ppass_I tnt x t dl HJop Hq HS HK Hsc Hlft) as HokI.
      destruct (ppass x 0 dl) as [[x1 r] e]. cbn [fst snd ppass_ok] in *.
      destruct HokI as (Hine & Ec1 & Hl).
      destruct r as [l| | | |]; try contradiction.
      2:{ destruct Hok as (_ & _ & Hs). congruence. }
      2: discriminate.
      destruct Hok as (HJ1 & HG1 & Hl0 & Hqs & Hc1). subst l. specialize (Ec1 ltac:(discriminate)).
      pose proof (quiet_counts mx kp tnt x1 _ _ (proj1 HJ1) (Hqs Hlft) HG1) as [Ecount _].
      destruct ((p_running (get_pool x1 0) =? 0) || (sat_sub dl (pw_clock x1) =? 0)) eqn:Eend.
      * destruct (0 <? p_running (get_pool x1 0)) eqn:Erun; [|discriminate].
        intros _. exists e. split; [reflexivity|]. rewrite Ecount. lia.
      * apply orb_false_iff in Eend as [E1 E2].
        assert (Jop mx kp tnt (set_clockp x1 (sat_add64 (pw_clock x1) 1000000)) (fold_left pev e t)) as HJ2.
        { destruct HJ1 as [HJ1 Hts1]. pose proof (jp_clock _ _ _ _ (j_p _ _ _ _ _ _ _ _ HJ1)) as Hc.
          destruct (sat_add64_mono (pw_clock x1) 1000000 Hc ltac:(lia)) as [M1 M2].
          split; [|autorewrite with pw; exact Hts1]. autorewrite with pw. apply J_nap; assumption. }
        pose proof (IH tnt _ (fold_left pev e t) dl (acc ++ e) HJ2 (quiet_off_fold _ _ Hq) ltac:(autorewrite with pw; exact Hss) Hdl
                      (TS_fold _ _ Hine HS) (TK_fold _ _ Hine HK) (stopc_fold _ _ Hsc)) as IH1.
        destruct (stop_loop f _ 0 dl (acc ++ e)) as [[x' r'] acc'].
        intro Hr. destruct (IH1 ltac:(right; pose proof (count_true_nonneg (parked (po_clock (fold_left pev e t))) (po_workers (fold_left pev e t))); lia) Hr) as (evs & -> & Hc).
        exists (e ++ evs). rewrite app_assoc, fold_pev_app. auto.
    + (* no time left: the pass is cut at once *)
      destruct Hdisj as [H|Hcount]; [exfalso; lia|].
      assert (sat_sub dl (pw_clock x) = 0) as Hl0 by (unfold sat_sub in *; lia).
      pose proof (ppass_cut x dl Hl0 (jp_pools _ _ _ _ (j_p _ _ _ _ _ _ _ _ (proj1 HJop)))) as Hcut.
      destruct (ppass x 0 dl) as [[x1 r] e]. cbn [fst snd ppass_ok] in *. destruct Hcut as [-> Ec1].
      destruct r as [l| | | |]; try contradiction; try discriminate.
      rewrite Ec1, Hl0. cbn [Z.eqb]. rewrite orb_true_r.
      destruct (0 <? p_running (get_pool x1 0)); [|discriminate].
      intros _. exists []. split; [reflexivity|]. exact Hcount.
Qed.

End IdleSched.
