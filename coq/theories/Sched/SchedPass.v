(** One pass of [do_schedule] in lock step with the tracker: with [pass_fuel] it never diverges,
    never fails, reports exactly the coroutines that finished during the pass, and when it was not
    cut by its deadline it leaves nothing runnable or overdue. *)
From OCV Require Import Base.Prelude Misc.Time Queue.PMap Queue.OWS Coroutine.Co Coroutine.CoOracle
  Coroutine.CoLemmas Sched.Sched Sched.SchedOracle Sched.SchedWf Sched.SchedQueue Sched.SchedBase
  Sched.SchedTrk Sched.SchedRun Sched.SchedInv Sched.SchedCheck.
From Coq Require Import ZifyBool ZifyNat.
Open Scope Z_scope.

Notation ds := (do_schedule world w_clock w_state w_change w_resume w_push w_pop w_cancelled w_uncancel).

Lemma agree_trans j s1 s2 s3 : agree j s1 s2 -> agree j s2 s3 -> agree j s1 s3.
Proof.
  intros (A1 & A2 & A3 & A4 & A5 & A6) (B1 & B2 & B3 & B4 & B5 & B6). unfold agree.
  split; [congruence|]. split; [congruence|]. split; [congruence|]. split; [auto|]. split; [|auto].
  intros Hj t Ht. apply B5; [|apply A5; assumption]. apply cn_In. rewrite A3. apply cn_In. exact Hj.
Qed.

Lemma runnable_nonterminal clk st : runnable clk st -> is_terminal st = false.
Proof. destruct st as [| |y ts|y n []| | |]; cbn [runnable is_terminal]; tauto. Qed.

(** the state right after the ready queue gave out a coroutine *)
Definition popped (s1 : sched) (q : sys) : sched :=
  {| sc_w := {| w_thr := w_thr (sc_w s1); w_q := q; w_prio := w_prio (sc_w s1); w_cancel := w_cancel (sc_w s1) |};
     sc_d := sc_d s1 |}.

Lemma pop_facts nl s1 clk ks q i :
  ginv nl s1 clk ks -> w_pop (sc_w s1) = (sc_w (popped s1 q), Some i) ->
  exists c, nth_error (S_cos s1) i = Some c /\
    q_st (gk ks i) = c_st c /\ q_mal (gk ks i) = false /\
    common s1 i c (gk ks i) /\ runnable clk (c_st c) /\ (forall w, q_wake (gk ks i) = Some w -> w <= clk) /\
    qok q /\ at_place (popped s1 q) i PNone /\ (forall j, j <> i -> agree j s1 (popped s1 q)).
Proof.
  intros G Hpop.
  destruct (w_pop_spec _ _ _ (g_q _ _ _ _ G) Hpop) as (Hq & _ & _ & _ & Hcn).
  assert (cn i (S_R s1) > 0)%nat as Hpos by (unfold S_R; rewrite (Hcn i), one_if_same; lia).
  pose proof (ginv_lt_R _ _ _ _ _ G Hpos) as Hlt.
  destruct (nth_error (S_cos s1) i) as [c|] eqn:Hn; [|apply nth_error_None in Hn; lia].
  destruct (ginv_co _ _ _ _ _ _ G Hn) as (Hst & Hm & Hco).
  destruct (costat_ready _ _ _ _ _ Hco Hpos) as ((P1 & P2 & P3) & Hcm & Hr & Hw).
  exists c. split; [reflexivity|]. split; [exact Hst|]. split; [exact Hm|]. split; [exact Hcm|].
  split; [exact Hr|]. split; [exact Hw|]. split; [exact Hq|]. split.
  - unfold at_place. unfold S_R in P1. rewrite (Hcn i), one_if_same in P1. unfold popped in *. views.
    repeat split; try assumption. lia.
  - intros j Hne. specialize (Hcn j). rewrite one_if_diff in Hcn by congruence.
    unfold agree. unfold popped in *. views. repeat split; auto.
Qed.

Lemma resumed_update nl s1 clk ks q i c s' clk' c' k' :
  ginv nl s1 clk ks -> nth_error (S_cos s1) i = Some c ->
  (forall j, j <> i -> agree j s1 (popped s1 q)) ->
  S_thr s' = {| t_clock := clk'; t_ts := []; t_cn := []; t_cos := set_nth i c' (S_cos s1); t_nl := nl |} ->
  clk <= clk' <= U64MAX -> qok (w_q (sc_w s')) ->
  (forall j, j <> i -> agree j (popped s1 q) s') ->
  q_st k' = c_st c' -> q_mal k' = false -> costat s' clk' i c' k' ->
  ginv nl s' clk' (set_nth i k' ks) /\ (mu (S_cos s') + wt c = mu (S_cos s1) + wt c')%nat.
Proof.
  intros G Hn Hag1 Hthr Hclk Hq Hag2 Hst Hm Hco. split.
  - eapply (ginv_update nl s1 clk ks s' clk' i c' k' G); try assumption; try lia;
      try (rewrite Hthr; reflexivity).
    + unfold S_cos. unfold S_thr in Hthr. rewrite Hthr. reflexivity.
    + eapply nth_error_Some_lt; exact Hn.
    + intros j Hne. eapply agree_trans; [apply Hag1, Hne | apply Hag2, Hne].
  - unfold S_cos at 1. unfold S_thr in Hthr. rewrite Hthr. cbn [t_cos]. apply mu_set_nth, Hn.
Qed.

Lemma thr_eta_upd nl s clk ks i c' :
  ginv nl s clk ks ->
  upd_co (w_thr (sc_w s)) i c' = {| t_clock := clk; t_ts := []; t_cn := []; t_cos := set_nth i c' (S_cos s); t_nl := nl |}.
Proof.
  intros [G1 G2 G3 G4 G5 _ _ _]. unfold upd_co, S_cos. unfold S_thr in *. rewrite G1, G3, G4, G5. reflexivity.
Qed.

Definition d_gone (d : sdata) (i : nat) : sdata :=
  {| sd_suspend := sd_suspend d; sd_syscall := sd_syscall d; sd_sys_suspend := sd_sys_suspend d;
     sd_gone := i :: sd_gone d |}.

(** a cancelled coroutine is dropped *)
Lemma drop_step nl s1 clk ks q i c :
  (1 <= nl)%nat -> ginv nl s1 clk ks -> nth_error (S_cos s1) i = Some c ->
  q_st (gk ks i) = c_st c -> q_mal (gk ks i) = false -> runnable clk (c_st c) -> qok q ->
  at_place (popped s1 q) i PNone -> (forall j, j <> i -> agree j s1 (popped s1 q)) ->
  let w2 := sc_w (popped s1 q) in
  let s3 := {| sc_w := with_thr (w_uncancel w2 i) (upd_co (w_thr w2) i (with_st c Cancelled));
               sc_d := d_gone (sc_d s1) i |} in
  w_change (w_uncancel w2 i) i Cancelled = (sc_w s3, change_events nl i (c_st c) Cancelled) /\
  (forall fins, fold_left sev (change_events nl i (c_st c) Cancelled) (mkT clk ks, fins)
                = (mkT clk (set_nth i (kst (gk ks i) Cancelled) ks), fins)) /\
  ginv nl s3 clk (set_nth i (kst (gk ks i) Cancelled) ks) /\ (mu (S_cos s3) < mu (S_cos s1))%nat.
Proof.
  intros Hnl G Hn Hst Hm Hr Hq Hp Hag w2 s3.
  pose proof (g_len _ _ _ _ G) as Hlen. pose proof (nth_error_Some_lt _ _ _ Hn) as Hlt.
  split; [|split].
  - rewrite (w_change_some _ i c Cancelled) by exact Hn.
    pose proof (g_nl _ _ _ _ G) as Hnl'. unfold S_thr in Hnl'. cbn [w2 popped sc_w w_uncancel w_thr].
    rewrite Hnl'. reflexivity.
  - intro fins. apply sev_change_events; [exact Hnl | lia | exact Hm].
  - destruct (resumed_update nl s1 clk ks q i c s3 clk (with_st c Cancelled) (kst (gk ks i) Cancelled) G Hn Hag)
      as [G3 Hmu]; try reflexivity; try assumption.
    + unfold s3, S_thr, w2, popped. cbn [sc_w with_thr w_thr w_uncancel].
      apply (thr_eta_upd nl s1 clk ks i _ G).
    + pose proof (g_u64 _ _ _ _ G). lia.
    + intros j Hne. unfold agree, s3, w2, popped, d_gone. views.
      cbn [with_thr w_uncancel w_cancel w_q]. repeat split; auto.
      apply In_remove_nat_other. congruence.
    + apply CS_inactive.
      * destruct Hp as (P1 & P2 & P3). unfold at_place, s3, w2, popped, d_gone in *. views.
        repeat split; assumption.
      * reflexivity.
      * reflexivity.
    + split; [exact G3|]. unfold wt in Hmu at 2. cbn [with_st c_st is_terminal] in Hmu.
      unfold wt in Hmu. rewrite (runnable_nonterminal _ _ Hr) in Hmu. lia.
Qed.

(** * after a resumption *)

Definition resumed_w (s1 : sched) (q : sys) (clk' : Z) (i : nat) (c' : co) : world :=
  with_thr (sc_w (popped s1 q))
           {| t_clock := clk'; t_ts := []; t_cn := []; t_cos := set_nth i c' (S_cos s1);
              t_nl := t_nl (w_thr (sc_w s1)) |}.

Lemma resumed_thr nl s1 clk ks q clk' i c' :
  ginv nl s1 clk ks ->
  w_thr (resumed_w s1 q clk' i c')
  = {| t_clock := clk'; t_ts := []; t_cn := []; t_cos := set_nth i c' (S_cos s1); t_nl := nl |}.
Proof.
  intro G. unfold resumed_w. cbn [with_thr w_thr]. pose proof (g_nl _ _ _ _ G) as H. unfold S_thr in H.
  rewrite H. reflexivity.
Qed.

Section Resumed.
  Variables (nl : nat) (s1 : sched) (clk : Z) (ks : list strk) (q : sys) (i : nat) (c : co)
            (clk' : Z) (c' : co) (k' : strk).
  Hypothesis G : ginv nl s1 clk ks.
  Hypothesis Hn : nth_error (S_cos s1) i = Some c.
  Hypothesis Hq : qok q.
  Hypothesis Hp : at_place (popped s1 q) i PNone.
  Hypothesis Hag : forall j, j <> i -> agree j s1 (popped s1 q).
  Hypothesis Hclk : clk <= clk' <= U64MAX.
  Hypothesis Hst' : q_st k' = c_st c'.
  Hypothesis Hm' : q_mal k' = false.

  Let w3 := resumed_w s1 q clk' i c'.

  Lemma res_inactive :
    is_terminal (c_st c') = true -> (q_fin k' = None -> c_st c' = Cancelled) ->
    let s' := {| sc_w := w3; sc_d := sc_d s1 |} in
    ginv nl s' clk' (set_nth i k' ks) /\ (mu (S_cos s') + wt c = mu (S_cos s1))%nat.
  Proof.
    intros Ht Hf s'.
    destruct (resumed_update nl s1 clk ks q i c s' clk' c' k' G Hn Hag) as [G3 Hmu]; try assumption.
    - apply (resumed_thr nl s1 clk ks q clk' i c' G).
    - intros j Hne. unfold agree, s', popped. views. repeat split; auto.
    - apply CS_inactive; [exact Hp | exact Ht | exact Hf].
    - split; [exact G3|]. unfold wt in Hmu at 2. rewrite Ht in Hmu. lia.
  Qed.

  Hypothesis Hfin : q_fin k' = None.
  Hypothesis Hdead : c_dead c' = false.
  Hypothesis Hbwf : bwf (nxt (c_st c')) (c_body c') = true.
  Hypothesis Hcan : q_cancel k' = false.

  Lemma res_common s' : common s' i c' k'.
  Proof. unfold common. repeat split; try assumption. rewrite Hcan. discriminate. Qed.

  Definition d_heap (d : sdata) (ts : Z) : sdata :=
    {| sd_suspend := sd_suspend d ++ [(ts, i)]; sd_syscall := sd_syscall d;
       sd_sys_suspend := sd_sys_suspend d; sd_gone := sd_gone d |}.

  Lemma res_heap y ts :
    c_st c' = Suspend y ts -> (forall w, q_wake k' = Some w -> w = ts) ->
    let s' := {| sc_w := w3; sc_d := d_heap (sc_d s1) ts |} in
    ginv nl s' clk' (set_nth i k' ks) /\ (mu (S_cos s') + wt c = mu (S_cos s1) + wt c')%nat.
  Proof.
    intros Hs Hw s'.
    apply (resumed_update nl s1 clk ks q i c s' clk' c' k' G Hn Hag); try assumption.
    - apply (resumed_thr nl s1 clk ks q clk' i c' G).
    - intros j Hne. unfold agree, s', d_heap, popped. views. rewrite map_app, cn_app. cbn [map snd].
      rewrite cn_cons, cn_nil, one_if_diff by congruence. repeat split; auto; try lia.
      intros t Ht. apply in_or_app. left. exact Ht.
    - destruct Hp as (P1 & P2 & P3).
      eapply CS_heap; [| apply res_common | exact Hs | | exact Hw].
      + unfold at_place, s', d_heap, popped in *. views. rewrite map_app, cn_app. cbn [map snd].
        rewrite cn_cons, cn_nil, one_if_same. repeat split; try assumption; lia.
      + unfold s', d_heap. views. apply in_or_app. right. left. reflexivity.
  Qed.

  Lemma res_ready :
    runnable clk' (c_st c') -> (forall w, q_wake k' = Some w -> w <= clk') ->
    let s' := {| sc_w := w_push w3 i; sc_d := sc_d s1 |} in
    ginv nl s' clk' (set_nth i k' ks) /\ (mu (S_cos s') + wt c = mu (S_cos s1) + wt c')%nat.
  Proof.
    intros Hr Hw s'.
    assert (qok (w_q w3)) as Hq3 by exact Hq.
    destruct (w_push_spec w3 i Hq3) as [Hq4 Hcn].
    apply (resumed_update nl s1 clk ks q i c s' clk' c' k' G Hn Hag); try assumption.
    - apply (resumed_thr nl s1 clk ks q clk' i c' G).
    - intros j Hne. unfold agree, s'. views. rewrite (Hcn j), one_if_diff by congruence.
      repeat split; auto.
    - destruct Hp as (P1 & P2 & P3).
      apply CS_ready; [| apply res_common | exact Hr | exact Hw].
      unfold at_place, s' in *. views. rewrite (Hcn i), one_if_same.
      change (rdy w3) with (rdy (sc_w (popped s1 q))). repeat split; try assumption; lia.
  Qed.

  Definition d_sys (d : sdata) (ts : Z) : sdata :=
    {| sd_suspend := sd_suspend d;
       sd_syscall := if mem_nat i (sd_syscall d) then sd_syscall d else i :: sd_syscall d;
       sd_sys_suspend := sd_sys_suspend d ++ [(ts, i)]; sd_gone := sd_gone d |}.

  Lemma res_sys y n ts :
    c_st c' = Syscall y n (SSuspend ts) -> q_wake k' = None ->
    let s' := {| sc_w := w3; sc_d := d_sys (sc_d s1) ts |} in
    ginv nl s' clk' (set_nth i k' ks) /\ (mu (S_cos s') + wt c = mu (S_cos s1) + wt c')%nat.
  Proof.
    intros Hs Hw s'.
    destruct Hp as (P1 & P2 & P3).
    assert (mem_nat i (sd_syscall (sc_d s1)) = false) as Hmem.
    { apply mem_nat_false_cn. unfold popped in P3. views. exact P3. }
    apply (resumed_update nl s1 clk ks q i c s' clk' c' k' G Hn Hag); try assumption.
    - apply (resumed_thr nl s1 clk ks q clk' i c' G).
    - intros j Hne. unfold agree, s', d_sys, popped. views. rewrite Hmem.
      rewrite cn_cons, one_if_diff by congruence. repeat split; auto.
      intros _ t Ht. apply in_or_app. left. exact Ht.
    - eapply CS_sys; [| apply res_common | exact Hs | | exact Hw].
      + unfold at_place, s', d_sys, popped in *. views. rewrite Hmem. rewrite cn_cons, one_if_same.
        repeat split; try assumption; lia.
      + unfold s', d_sys. views. apply in_or_app. right. left. reflexivity.
  Qed.
End Resumed.

(** * nothing runnable or overdue is left *)

Lemma settled_all nl s clk ks :
  ginv nl s clk ks -> S_R s = [] -> all_future clk (S_H s) -> all_future clk (S_SH s) ->
  forallb (settled clk) ks = true.
Proof.
  intros G HR HH HSH. apply forallb_forall. intros k Hin.
  destruct (In_nth _ _ strk0 Hin) as (j & Hj & Hk). fold (gk ks j) in Hk.
  pose proof (g_len _ _ _ _ G) as Hlen.
  destruct (nth_error (S_cos s) j) as [c|] eqn:Hn; [|apply nth_error_None in Hn; lia].
  destruct (ginv_co _ _ _ _ _ _ G Hn) as (Hst & Hm & Hco). rewrite Hk in *.
  unfold settled. rewrite Hm. cbn [orb].
  destruct Hco as [Hp Ht Hf | Hp _ _ _ | y ts Hp _ Hs Hi _ | y n ts Hp _ Hs Hi _].
  - destruct (q_fin k); [rewrite orb_true_r; reflexivity|]. rewrite Hst, (Hf eq_refl).
    rewrite !orb_true_r. reflexivity.
  - destruct Hp as (P1 & _). rewrite HR, cn_nil in P1. discriminate.
  - rewrite Hst, Hs. specialize (HH _ _ Hi). assert (clk <? ts = true) as -> by lia. apply orb_true_r.
  - rewrite Hst, Hs. specialize (HSH _ _ Hi). assert (clk <? ts = true) as -> by lia. apply orb_true_r.
Qed.

(** * the loop *)

Lemma ds_sim nl : (1 <= nl)%nat -> forall fuel s clk ks deadline results,
  ginv nl s clk ks -> (mu (S_cos s) < fuel)%nat ->
  exists w' d' lft fa e clk' ks',
    ds fuel (sc_w s) (sc_d s) deadline results [] = (w', d', PassOk lft (results ++ fa), e) /\
    fold_left sev e (mkT clk ks, results) = (mkT clk' ks', results ++ fa) /\
    ginv nl {| sc_w := w'; sc_d := d' |} clk' ks' /\
    (0 < lft -> forallb (settled clk') ks' = true) /\ length ks' = length ks.
Proof.
  intro Hnl. induction fuel as [|f IH]; intros s clk ks deadline results G Hfuel; [lia|].
  assert ({| sc_w := sc_w s; sc_d := sc_d s |} = s) as Es by (destruct s; reflexivity).
  cbn [do_schedule].
  pose proof (g_clock _ _ _ _ G) as Hclk0. unfold S_thr in Hclk0.
  change (w_clock (sc_w s)) with (t_clock (w_thr (sc_w s))). rewrite Hclk0.
  destruct (sat_sub deadline clk =? 0) eqn:Elft.
  - (* cut by the deadline *)
    exists (sc_w s), (sc_d s), 0, [], [], clk, ks. rewrite app_nil_r, Es.
    split; [reflexivity|]. split; [reflexivity|]. split; [exact G|]. split; [lia | reflexivity].
  - destruct (cr_spec nl Hnl s clk ks G) as (w1 & d1 & e1 & ks1 & Hcr & Hf1 & G1 & Hmu1 & HfutH & HfutS & HL1).
    rewrite Hcr.
    destruct (w_pop_form w1) as (q & r & Hpop). rewrite Hpop.
    set (s1 := {| sc_w := w1; sc_d := d1 |}) in *.
    change ({| w_thr := w_thr w1; w_q := q; w_prio := w_prio w1; w_cancel := w_cancel w1 |})
      with (sc_w (popped s1 q)) in *.
    destruct r as [i|].
    + (* a coroutine was popped *)
      destruct (pop_facts nl s1 clk ks1 q i G1 Hpop)
        as (c & Hn & Hst & Hm & Hcm & Hr & Hw & Hq & Hp & Hag).
      destruct (w_cancelled (sc_w (popped s1 q)) i) eqn:Ecan.
      * (* cancelled: dropped *)
        destruct (drop_step nl s1 clk ks1 q i c Hnl G1 Hn Hst Hm Hr Hq Hp Hag) as (Hwc & Hfd & G3 & Hmu3).
        cbv zeta in Hwc, G3, Hmu3. rewrite Hwc.
        rewrite do_schedule_acc.
        match type of G3 with ginv _ ?S3 _ _ => set (s3 := S3) in * end.
        specialize (IH s3 clk _ deadline results G3).
        destruct IH as (w' & d' & lft & fa & e & clk' & ks' & Hds & Hfold & G' & Hset & HL).
        { unfold S_cos at 2 in Hmu3. cbn [s1 sc_w] in Hmu3. rewrite Hmu1 in Hmu3. lia. }
        match goal with |- context [ds f ?W ?D deadline results []] =>
          change (ds f W D deadline results []) with (ds f (sc_w s3) (sc_d s3) deadline results []) end.
        rewrite Hds. cbn [pres_app].
        exists w', d', lft, fa, ((e1 ++ change_events nl i (c_st c) Cancelled) ++ e), clk', ks'.
        split; [reflexivity|]. split; [|split; [exact G' | split; [exact Hset|]]].
        -- rewrite !fold_left_app, Hf1, Hfd. exact Hfold.
        -- rewrite HL, set_nth_length. exact HL1.
      * (* resumed *)
        destruct Hcm as (Hfin & Hdead & Hbwf & Hcanc).
        assert (q_cancel (gk ks1 i) = false) as Hcan.
        { destruct (q_cancel (gk ks1 i)); [|reflexivity]. specialize (Hcanc eq_refl).
          apply mem_nat_In in Hcanc. unfold w_cancelled in Ecan. unfold S_C in Hcanc.
          cbn [popped sc_w w_cancel] in Ecan. congruence. }
        pose proof (g_len _ _ _ _ G1) as Hlen1. pose proof (nth_error_Some_lt _ _ _ Hn) as Hlt.
        pose proof (g_clock _ _ _ _ G1) as Hclk1. pose proof (g_nl _ _ _ _ G1) as Hnl1.
        pose proof (resume_sim i (w_thr (sc_w (popped s1 q))) c ks1 results clk Hn ltac:(lia) Hst Hm Hcan Hfin Hw
                      Hr Hbwf Hdead Hclk1 (g_u64 _ _ _ _ G1) (g_ts _ _ _ _ G1) (g_cn _ _ _ _ G1)
                      ltac:(unfold S_thr in Hnl1; cbn [popped sc_w w_thr]; rewrite Hnl1; exact Hnl)) as Hrun.
        unfold w_resume.
        change (t_clock (w_thr (sc_w (popped s1 q)))) with (t_clock (S_thr s1)). rewrite Hclk1.
        destruct (resume (w_thr (sc_w (popped s1 q))) i clk) as [[T' r] e2].
        cbn [run_post] in Hrun. destruct Hrun as (c' & k' & clk' & fa2 & Hfold2 & HT & Hclk' & Hst' & Hm' & Hcan' & Hres).
        subst T'.
        change (with_thr (sc_w (popped s1 q)) _) with (resumed_w s1 q clk' i c').
        (* how every continuing case ends *)
        assert (forall s' res',
                  ginv nl s' clk' (set_nth i k' ks1) -> (mu (S_cos s') < mu (S_cos s1))%nat ->
                  res' = results ++ fa2 ->
                  exists w' d' lft fa e clk'' ks'',
                    pres_app world (e1 ++ e2) (ds f (sc_w s') (sc_d s') deadline res' [])
                    = (w', d', PassOk lft (results ++ fa), e) /\
                    fold_left sev e (mkT clk ks, results) = (mkT clk'' ks'', results ++ fa) /\
                    ginv nl {| sc_w := w'; sc_d := d' |} clk'' ks'' /\
                    (0 < lft -> forallb (settled clk'') ks'' = true) /\ length ks'' = length ks) as Hcont.
        { intros s' res' G3 Hmu3 ->.
          specialize (IH s' clk' _ deadline (results ++ fa2) G3).
          destruct IH as (w' & d' & lft & fa & e & clk'' & ks'' & Hds & Hfold & G' & Hset & HL).
          { unfold S_cos at 2 in Hmu3. cbn [s1 sc_w] in Hmu3. rewrite Hmu1 in Hmu3. lia. }
          rewrite Hds. cbn [pres_app].
          exists w', d', lft, (fa2 ++ fa), ((e1 ++ e2) ++ e), clk'', ks''.
          rewrite app_assoc. split; [reflexivity|]. split; [|split; [exact G' | split; [exact Hset|]]].
          - rewrite !fold_left_app, Hf1, Hfold2. exact Hfold.
          - rewrite HL, set_nth_length. exact HL1. }
        assert (wt c = 2 + length (c_body c))%nat as Hwt.
        { unfold wt. rewrite (runnable_nonterminal _ _ Hr). reflexivity. }
        destruct Hres as [y ts Hs Hwk Hfin' Hbw' Hdead' Hlen' | y n ts Hs Hwk Hfin' Hbw' Hdead' Hlen'
                         | Hs Hfin' | r0 Hr0 Hs Hfin'].
        -- (* suspended *)
           cbn [w_clock resumed_w with_thr w_thr t_clock].
           change (with_thr (sc_w (popped s1 q)) _) with (resumed_w s1 q clk' i c').
           assert (wt c' = 2 + length (c_body c'))%nat as Hwt' by (unfold wt; rewrite Hs; reflexivity).
           destruct (clk' <? ts) eqn:Elt; rewrite do_schedule_acc.
           ++ destruct (res_heap nl s1 clk ks1 q i c clk' c' k' G1 Hn Hq Hp Hag Hclk' Hst' Hm' Hfin' Hdead'
                          ltac:(rewrite Hs; exact Hbw') Hcan' y ts Hs Hwk) as [G3 Hmu3].
              cbv zeta in G3, Hmu3.
              match type of G3 with ginv _ ?S3 _ _ => apply (Hcont S3 results G3) end;
                [lia | rewrite app_nil_r; reflexivity].
           ++ destruct (res_ready nl s1 clk ks1 q i c clk' c' k' G1 Hn Hq Hp Hag Hclk' Hst' Hm' Hfin' Hdead'
                          ltac:(rewrite Hs; exact Hbw') Hcan') as [G3 Hmu3].
              { rewrite Hs. cbn [runnable]. lia. }
              { intros w E. specialize (Hwk w E). lia. }
              cbv zeta in G3, Hmu3.
              match type of G3 with ginv _ ?S3 _ _ => apply (Hcont S3 results G3) end;
                [lia | rewrite app_nil_r; reflexivity].
        -- (* parked in a syscall *)
           assert (wt c' = 2 + length (c_body c'))%nat as Hwt' by (unfold wt; rewrite Hs; reflexivity).
           rewrite do_schedule_acc.
           destruct (res_sys nl s1 clk ks1 q i c clk' c' k' G1 Hn Hq Hp Hag Hclk' Hst' Hm' Hfin' Hdead'
                       ltac:(rewrite Hs; exact Hbw') Hcan' y n ts Hs Hwk) as [G3 Hmu3].
           cbv zeta in G3, Hmu3.
           match type of G3 with ginv _ ?S3 _ _ => apply (Hcont S3 results G3) end;
             [lia | rewrite app_nil_r; reflexivity].
        -- (* cancelled itself *)
           rewrite do_schedule_acc.
           destruct (res_inactive nl s1 clk ks1 q i c clk' c' k' G1 Hn Hq Hp Hag Hclk' Hst' Hm') as [G3 Hmu3].
           { rewrite Hs. reflexivity. }
           { intros _. exact Hs. }
           cbv zeta in G3, Hmu3.
           match type of G3 with ginv _ ?S3 _ _ => apply (Hcont S3 results G3) end;
             [lia | rewrite app_nil_r; reflexivity].
        -- (* finished *)
           destruct (res_inactive nl s1 clk ks1 q i c clk' c' k' G1 Hn Hq Hp Hag Hclk' Hst' Hm') as [G3 Hmu3].
           { rewrite Hs. destruct Hr0 as [(v & ->) | (m & ->)]; reflexivity. }
           { rewrite Hfin'. discriminate. }
           cbv zeta in G3, Hmu3.
           destruct Hr0 as [(v & ->) | (m & ->)]; rewrite do_schedule_acc;
             match type of G3 with ginv _ ?S3 _ _ => apply (Hcont S3 _ G3) end; try lia; reflexivity.
    + (* the ready queue is empty: the pass is over *)
      destruct (w_pop_spec _ _ _ (g_q _ _ _ _ G1) Hpop) as (Hq & _ & _ & _ & HR1 & HR2).
      exists (sc_w (popped s1 q)), d1, (sat_sub deadline clk), [], e1, clk, ks1. rewrite app_nil_r.
      split; [reflexivity|]. split; [apply Hf1|].
      assert (ginv nl {| sc_w := sc_w (popped s1 q); sc_d := d1 |} clk ks1) as G2.
      { eapply (ginv_frame nl s1 clk ks1 _ clk G1); try reflexivity; try lia.
        - apply (g_clock _ _ _ _ G1).
        - apply (g_u64 _ _ _ _ G1).
        - apply (g_ts _ _ _ _ G1).
        - apply (g_cn _ _ _ _ G1).
        - apply (g_nl _ _ _ _ G1).
        - exact Hq.
        - intro j. unfold agree. views. rewrite HR1, HR2. repeat split; auto. }
      split; [exact G2|]. split; [|exact HL1]. intros _.
      apply (settled_all nl _ clk ks1 G2); [exact HR2 | exact HfutH | exact HfutS].
Qed.
