(** P2: a stop with nothing left to do does not wait out its timeout. *)
From OCV Require Import Base.Prelude Misc.Time Queue.PMap Queue.OWS Queue.OWSOracle Queue.OWSLemmas Queue.OWSModel Queue.OWSStep.
From OCV Require Import Coroutine.Co Coroutine.CoOracle Coroutine.CoLemmas Sched.Sched Sched.Pool Sched.PoolOracle Sched.PoolBase Sched.PoolWf Sched.PoolQ Sched.PoolJ Sched.PoolJLemmas Sched.PoolUnfold Sched.PoolJStep Sched.PoolJLoop Sched.PoolCount Sched.PoolJPass Sched.PoolJHole Sched.PoolJSched Sched.PoolJOps Sched.PoolJOps2 Sched.PoolRun Sched.PoolProofs Sched.PoolInv Sched.PoolTerm Sched.PoolIdle Sched.PoolIdleSched.
From Coq Require Import ZifyBool ZifyNat.
Open Scope Z_scope.

(** * the extra premise: a stop with a positive timeout is not issued at the very end of time
    (where its deadline would saturate to "now"); checked along the model run like the [PClock] check *)
Definition stops_low_ok (x : pw) (o : pop) : bool :=
  match o with PStop _ dur => (dur <=? 0) || (pw_clock x <? U64MAX) | _ => true end.

Fixpoint stops_low (x : pw) (ops : list pop) : bool :=
  match ops with [] => true | o :: r => stops_low_ok x o && stops_low (fst (pstep x o)) r end.

Definition wf_pool1c (clock : Z) (cfg : Z * Z * Z) (ops : list pop) : bool :=
  wf_pool1t clock cfg ops && stops_low (pw0 clock [cfg]) ops.

(** * a task that started although a cancel came first had the cancel withdrawn: a tracker
    invariant as long as C13 holds *)
Lemma TK_set tk i k : TK tk ->
  (tt_started k <> 0%nat -> tt_cancel0 k = true -> tt_withdrawn k = true) -> TK (set_nth i k tk).
Proof.
  intros HK Hk j. destruct (Nat.eq_dec i j) as [<-|Hne]; [|rewrite tkn_set_other by exact Hne; apply HK].
  destruct (lt_dec i (length tk)) as [Hlt|Hge]; [rewrite tkn_set_same by exact Hlt; exact Hk|].
  rewrite set_nth_ge by lia. apply HK.
Qed.

Lemma TK_snoc tk p ok : TK tk -> TK (tk ++ [ttrk0 p ok]).
Proof.
  intros HK j. destruct (lt_dec j (length tk)) as [Hlt|Hge]; [rewrite tkn_snoc_old by exact Hlt; apply HK|].
  destruct (Nat.eq_dec j (length tk)) as [->|Hne].
  - rewrite tkn_snoc_new. cbn. congruence.
  - rewrite tkn_out by (rewrite app_length; cbn [length]; lia). cbn. congruence.
Qed.

Lemma c13_pev_mono t e : po_c13 (pev t e) = true -> po_c13 t = true.
Proof.
  destruct e as [l w c old|i b]; cbn [pev].
  - destruct c; auto.
  - destruct b; cbv zeta; autorewrite with potr; cbn [Nat.eqb]; auto. intro H. apply andb_true_iff in H. apply H.
Qed.

Lemma c13_fold_mono evs : forall t, po_c13 (fold_left pev evs t) = true -> po_c13 t = true.
Proof. induction evs as [|e evs IH]; intros t H; [exact H|]. cbn [fold_left] in H. apply c13_pev_mono with e, IH, H. Qed.

Lemma TK_pev t e : TK (po_tasks t) -> po_c13 (pev t e) = true -> TK (po_tasks (pev t e)).
Proof.
  intros HK Hc. destruct e as [l w c old|i b]; cbn [pev] in *.
  - destruct c; exact HK.
  - destruct b; cbv zeta in *; autorewrite with potr in *; cbn [Nat.eqb] in *; try exact HK.
    + apply andb_true_iff in Hc as [_ Hc]. apply TK_set; [exact HK|]. cbn. intros _ H0. rewrite H0 in Hc. exact Hc.
    + apply TK_set; [exact HK|]. cbn. rewrite gett_tkn. apply HK.
    + apply TK_set; [exact HK|]. cbn. rewrite gett_tkn. apply HK.
Qed.

Lemma TK_foldc evs : forall t, TK (po_tasks t) -> po_c13 (fold_left pev evs t) = true -> TK (po_tasks (fold_left pev evs t)).
Proof.
  induction evs as [|e evs IH]; intros t HK Hc; [exact HK|]. cbn [fold_left] in *.
  apply IH; [|exact Hc]. apply TK_pev; [exact HK|]. eapply c13_fold_mono, Hc.
Qed.

Lemma TK_expect t p i n r tf : TK (po_tasks t) -> TK (po_tasks (expect_result t p i n r tf)).
Proof.
  intro HK. unfold expect_result. destruct r; cbv zeta; autorewrite with potr; try exact HK.
  apply TK_set; [exact HK|]. cbn. rewrite gett_tkn. apply HK.
Qed.

Lemma TK_postep mx t o ob :
  TK (po_tasks t) -> po_c13 (postep 1 [mx] t o ob) = true -> TK (po_tasks (postep 1 [mx] t o ob)).
Proof.
  intros HK Hc. destruct o as [p body prio|p dl|p j|p j|p j|j|p dur|p|p|p|c]; destruct ob as [ok|r e|r|r e|n|s|]; cbn [postep] in *; try exact HK.
  - cbv zeta. cbn [po_tasks]. autorewrite with potr. apply TK_snoc, HK.
  - cbv zeta in *. destruct r as [l| | | |]; [destruct ((0 <? l) && Nat.eqb 1 1)|..]; autorewrite with potr in *; cbn [Nat.eqb] in *;
      (apply TK_foldc; [exact HK | exact Hc]).
  - apply TK_expect, HK.
  - apply TK_expect, HK.
  - cbv zeta. destruct (_ && _); autorewrite with potr; (apply TK_set; [exact HK|]); cbn; rewrite gett_tkn.
    + apply HK.
    + intros _ ->. apply orb_true_r.
  - cbv zeta. destruct (_ || _); [exact HK|]. autorewrite with potr. apply TK_set; [exact HK|]. cbn. rewrite gett_tkn.
    intros Hs H0. apply (HK j Hs). destruct (tt_started (tkn (po_tasks t) j)); [congruence|]. cbn [Nat.eqb] in H0. rewrite orb_false_r in H0. exact H0.
  - cbv zeta in *. destruct r; autorewrite with potr in *; cbn [Nat.eqb] in *; (apply TK_foldc; [exact HK | exact Hc]).
  - cbv zeta. destruct (_ && _); destruct (pt_stop_ok _); exact HK.
Qed.

(** * the prompt-stop clause holds along the model's run *)
Section IdleRun.
Variable mx : Z.
Variable kp : Z.

Lemma op_stop_clause tnt x t o :
  Jop mx kp tnt x t -> op_ok x o = true -> stops_low_ok x o = true -> TK (po_tasks t) ->
  stop_clause t o (snd (pstep x o)) = true.
Proof.
  intros HJop Hok Hlow HK.
  destruct o as [p body prio|p dl|p i|p i|p i|i|p dur|p|p|p|c]; try reflexivity; try (destruct (snd (pstep _ _)); reflexivity).
  cbn [op_ok] in Hok. apply Nat.eqb_eq in Hok. subst p. cbn [stops_low_ok] in Hlow.
  cbn [pstep]. unfold pstop.
  assert (p_state (get_pool x 0) <> PStopped ->
          stop_clause t (PStop 0 dur)
            (snd (let '(x', r, e) := stop_loop (S (S (Z.to_nat (dur / 1000000)))) (upd_pool x 0 (p_with_state PStopping)) 0
                                       (get_timeout_time (pw_clock (upd_pool x 0 (p_with_state PStopping))) dur) [] in (x', OStop r e))) = true) as Hlive.
  { intro Hne. set (x1 := upd_pool x 0 (p_with_state PStopping)).
    pose proof (Jop_stop_ts mx kp tnt x t HJop Hne) as HJ1. fold x1 in HJ1.
    assert (p_state (get_pool x1 0) = PStopping) as Hst1.
    { unfold x1. destruct HJop as [HJ _]. rewrite get_pool_upd_pool_same by (rewrite (jp_pools _ _ _ _ (j_p _ _ _ _ _ _ _ _ HJ)); lia). reflexivity. }
    assert (quiet_off (stop_ts t)) as Hq1.
    { unfold quiet_off. destruct HJop as [HJ _]. rewrite (stop_ts_pools t (js_pools _ _ _ _ _ (j_s _ _ _ _ _ _ _ _ HJ))). cbn [nth].
      apply (stop_ks_fields t). }
    assert (get_timeout_time (pw_clock x1) dur <= U64MAX) as Hdl.
    { unfold get_timeout_time, sat_add64. destruct (dur <=? U64MAX); lia. }
    pose proof (stop_loop_I mx kp (S (S (Z.to_nat (dur / 1000000)))) tnt x1 (stop_ts t) (get_timeout_time (pw_clock x1) dur) [] HJ1 Hq1 Hst1 Hdl) as HI.
    destruct (stop_loop _ x1 0 _ []) as [[x' r] e]. cbn [fst snd stop_clause]. destruct r; try reflexivity.
    fold (stop_ks t). fold (stop_ts t).
    destruct (forallb task_settled (po_tasks t)) eqn:Eall; [|reflexivity]. cbn [negb orb].
    destruct (dur <=? 0) eqn:Edur; [reflexivity|]. cbn [orb] in *.
    assert (stopc (stop_ts t)) as Hsc1.
    { unfold stopc. destruct HJop as [HJ _]. rewrite (stop_ts_pools t (js_pools _ _ _ _ _ (j_s _ _ _ _ _ _ _ _ HJ))). cbn [nth].
      apply (stop_ks_fields t). }
    destruct (HI (TS_forallb _ Eall) HK Hsc1) as (evs & Ee & Hc); [| reflexivity |].
    - left. assert (pw_clock x1 = pw_clock x) as -> by reflexivity.
      unfold get_timeout_time, sat_add64, sat_sub. destruct (dur <=? U64MAX) eqn:E; lia.
    - cbn [app] in Ee. subst e. apply orb_true_iff. left. lia. }
  destruct (p_state (get_pool x 0)) eqn:Est; [apply Hlive; discriminate | apply Hlive; discriminate | reflexivity].
Qed.

Lemma run_prompt : forall ops x t tnt,
  Jop mx kp tnt x t -> hist_okp x ops = true -> stops_low x ops = true -> TK (po_tasks t) -> nodiv x ops = true ->
  stops_prompt mx x t ops = true.
Proof.
  induction ops as [|o r IH]; intros x t tnt HJ Hok Hlow HK Hnd; [reflexivity|].
  cbn [hist_okp] in Hok. apply andb_true_iff in Hok as [Hok1 Hok2].
  cbn [stops_low] in Hlow. apply andb_true_iff in Hlow as [Hlow1 Hlow2].
  unfold nodiv in Hnd. rewrite prun_cons in Hnd. cbn [forallb] in Hnd. apply andb_true_iff in Hnd as [Hnd1 Hnd2].
  apply negb_true_iff in Hnd1.
  cbn [stops_prompt]. rewrite (op_stop_clause tnt x t o HJ Hok1 Hlow1 HK), Hnd1. cbn [andb].
  pose proof (op_step mx kp tnt x t o HJ Hok1) as Hstep. cbv zeta in Hstep. rewrite Hnd1 in Hstep.
  eapply IH; [exact Hstep | exact Hok2 | exact Hlow2 | | exact Hnd2].
  apply TK_postep; [exact HK|]. destruct Hstep as [HJ' _]. apply (jw_c13 _ _ _ (j_w _ _ _ _ _ _ _ _ HJ')).
Qed.

End IdleRun.

Lemma TK_init clock n : TK (po_tasks (potr0 clock n)).
Proof. intros i. unfold tkn. cbn [potr0 po_tasks]. destruct i; cbn; congruence. Qed.

Lemma wfc_split clock cfg ops : wf_pool1c clock cfg ops = true -> wf_pool1t clock cfg ops = true /\ stops_low (pw0 clock [cfg]) ops = true.
Proof. unfold wf_pool1c. intro H. apply andb_true_iff in H. exact H. Qed.

Theorem stops_prompt_model1 : forall clock cfg ops, wf_pool1c clock cfg ops = true ->
  stops_prompt (snd (fst cfg)) (pw0 clock [cfg]) (potr0 clock 1) ops = true.
Proof.
  intros clock cfg ops H. destruct (wfc_split _ _ _ H) as [Ht Hlow]. destruct (wft_split _ _ _ Ht) as [Hwf Hd].
  destruct (wf_split _ _ _ Hwf) as [Hc Hh].
  apply (run_prompt (snd (fst cfg)) (snd cfg) ops _ _ false (Jop_init clock cfg Hc) Hh Hlow (TK_init _ _) (nodiv_model1 clock cfg ops Ht)).
Qed.

(** P2 *)
Theorem c11_model1c : forall clock cfg ops, wf_pool1c clock cfg ops = true ->
  po_c11 (fst (self_flags clock [cfg] ops)) = true.
Proof.
  intros clock cfg ops H. destruct (wfc_split _ _ _ H) as [Ht Hlow].
  apply (c11_model1_stops clock cfg ops Ht (stops_prompt_model1 clock cfg ops H)).
Qed.

Print Assumptions stops_prompt_model1.
Print Assumptions c11_model1c.
